import NavisModel.Proofs.HealRewireLemmas
import NavisModel.Proofs.HealKruskalLemmas
/-!
C11 helper lemmas, part 4 (core Lean only): candidate edges, the assembled facts about `heal`, and
`fragments` / `breakFragments`.
-/
namespace Navis.Heal
open Navis.Forest

/-! ### order facts for candidate edges -/

theorem CEdge.le_refl (e : CEdge) : e.le e := by
  unfold CEdge.le CEdge.lt; simp

theorem CEdge.le_trans {a b c : CEdge} (h1 : a.le b) (h2 : b.le c) : a.le c := by
  unfold CEdge.le CEdge.lt at *
  simp only [Bool.or_eq_false_iff, decide_eq_false_iff_not, Bool.and_eq_false_iff, beq_eq_false_iff_ne, ne_eq,
    beq_iff_eq] at *
  omega

theorem CEdge.le_of_lt {a b : CEdge} (h : a.lt b = true) : a.le b := by
  unfold CEdge.le
  unfold CEdge.lt at *
  simp only [Bool.or_eq_true, decide_eq_true_eq, Bool.and_eq_true, beq_iff_eq, Bool.or_eq_false_iff,
    decide_eq_false_iff_not, Bool.and_eq_false_iff, beq_eq_false_iff_ne, ne_eq] at *
  omega

theorem CEdge.le_of_not_lt {a b : CEdge} (h : a.lt b = false) : b.le a := h

theorem sqDist_comm (a b : Node) : sqDist a b = sqDist b a := by
  unfold sqDist
  have h : ∀ u v : Int, (u - v) * (u - v) = (v - u) * (v - u) := by
    intro u v; rw [← Int.neg_sub v u, Int.neg_mul_neg]
  rw [h a.x, h a.y, h a.z]

/-! ### `best` -/

theorem best_mem {l : List CEdge} {e : CEdge} (h : best l = some e) : e ∈ l := by
  induction l generalizing e with
  | nil => simp [best] at h
  | cons x rest ih =>
    unfold best at h
    cases hb : best rest with
    | none => rw [hb] at h; simp at h; rw [← h]; exact List.mem_cons_self
    | some m =>
      rw [hb] at h
      simp only at h
      split at h
      · have := Option.some.inj h; rw [← this]; exact List.mem_cons_of_mem _ (ih hb)
      · have := Option.some.inj h; rw [← this]; exact List.mem_cons_self

theorem best_none {l : List CEdge} (h : best l = none) : l = [] := by
  cases l with
  | nil => rfl
  | cons x rest =>
    unfold best at h
    cases hb : best rest with
    | none => rw [hb] at h; simp at h
    | some m => rw [hb] at h; simp only at h; split at h <;> simp at h

/-- `best` returns a minimal element. -/
theorem best_le {l : List CEdge} {m : CEdge} (h : best l = some m) : ∀ e ∈ l, m.le e := by
  induction l generalizing m with
  | nil => simp [best] at h
  | cons x rest ih =>
    unfold best at h
    cases hb : best rest with
    | none =>
      rw [hb] at h
      have hr := best_none hb
      subst hr
      simp at h
      intro e he
      simp at he
      rw [he, h]; exact CEdge.le_refl _
    | some b =>
      rw [hb] at h
      simp only at h
      have hrest := ih hb
      intro e he
      cases hlt : b.lt x with
      | true =>
        rw [hlt] at h
        simp only [if_true] at h
        have := Option.some.inj h
        subst this
        rcases List.mem_cons.mp he with rfl | he
        · exact CEdge.le_of_lt hlt
        · exact hrest e he
      | false =>
        rw [hlt] at h
        simp only [Bool.false_eq_true, if_false] at h
        have := Option.some.inj h
        subst this
        rcases List.mem_cons.mp he with rfl | he
        · exact CEdge.le_refl _
        · exact CEdge.le_trans (CEdge.le_of_not_lt hlt) (hrest e he)

/-! ### candidate edges -/

theorem mem_pairEdges {ca cb : Table} {fa fb : Int} {e : CEdge} :
    e ∈ pairEdges ca cb fa fb ↔ ∃ na ∈ ca, ∃ nb ∈ cb, e = ⟨sqDist na nb, na.id, nb.id, fa, fb⟩ := by
  unfold pairEdges
  simp only [List.mem_flatMap, List.mem_map]
  constructor
  · rintro ⟨na, ha, nb, hb, rfl⟩; exact ⟨na, ha, nb, hb, rfl⟩
  · rintro ⟨na, ha, nb, hb, rfl⟩; exact ⟨na, ha, nb, hb, rfl⟩

theorem pairs_sub {l : List Int} {p : Int × Int} (h : p ∈ pairs l) : p.1 ∈ l ∧ p.2 ∈ l := by
  induction l with
  | nil => simp [pairs] at h
  | cons x xs ih =>
    unfold pairs at h
    rcases List.mem_append.mp h with h | h
    · obtain ⟨y, hy, rfl⟩ := List.mem_map.mp h
      exact ⟨List.mem_cons_self, List.mem_cons_of_mem _ hy⟩
    · exact ⟨List.mem_cons_of_mem _ (ih h).1, List.mem_cons_of_mem _ (ih h).2⟩

theorem mem_pairs {l : List Int} {a b : Int} (ha : a ∈ l) (hb : b ∈ l) (hne : a ≠ b) :
    (a, b) ∈ pairs l ∨ (b, a) ∈ pairs l := by
  induction l with
  | nil => simp at ha
  | cons x xs ih =>
    unfold pairs
    rcases List.mem_cons.mp ha with ea | ha' <;> rcases List.mem_cons.mp hb with eb | hb'
    · exact absurd (ea.trans eb.symm) hne
    · left; rw [ea]; exact List.mem_append_left _ (List.mem_map.mpr ⟨b, hb', rfl⟩)
    · right; rw [eb]; exact List.mem_append_left _ (List.mem_map.mpr ⟨a, ha', rfl⟩)
    · rcases ih ha' hb' with h | h
      · left; exact List.mem_append_right _ h
      · right; exact List.mem_append_right _ h

/-- What a candidate edge of the quotient graph is. -/
structure IsQuot (t : Table) (o : Opts) (e : CEdge) : Prop where
  frags : (e.fa, e.fb) ∈ pairs (roots t)
  ex : ∃ na ∈ t, ∃ nb ∈ t, isCand t o na = true ∧ isCand t o nb = true ∧
        fragOf t na.id = e.fa ∧ fragOf t nb.id = e.fb ∧ e = ⟨sqDist na nb, na.id, nb.id, e.fa, e.fb⟩
  nearest : ∀ na ∈ t, ∀ nb ∈ t, isCand t o na = true → isCand t o nb = true →
        fragOf t na.id = e.fa → fragOf t nb.id = e.fb → e.d2 ≤ sqDist na nb
  within : withinMax o e = true

theorem mem_cands_frag {t : Table} {o : Opts} {r : Int} {n : Node} :
    n ∈ (cands t o).filter (fun n => fragOf t n.id == r) ↔ n ∈ t ∧ isCand t o n = true ∧ fragOf t n.id = r := by
  unfold cands
  simp only [List.mem_filter, beq_iff_eq]
  constructor
  · rintro ⟨⟨h1, h2⟩, h3⟩; exact ⟨h1, h2, h3⟩
  · rintro ⟨h1, h2, h3⟩; exact ⟨⟨h1, h2⟩, h3⟩

theorem quotientEdges_spec {t : Table} {o : Opts} {e : CEdge} (he : e ∈ quotientEdges t o) : IsQuot t o e := by
  unfold quotientEdges at he
  simp only [List.mem_filterMap] at he
  obtain ⟨p, hp, hsome⟩ := he
  cases hb : best (pairEdges ((cands t o).filter fun n => fragOf t n.id == p.1)
      ((cands t o).filter fun n => fragOf t n.id == p.2) p.1 p.2) with
  | none => rw [hb] at hsome; simp at hsome
  | some m =>
    rw [hb] at hsome
    simp only at hsome
    split at hsome
    · rename_i hw
      have := Option.some.inj hsome
      subst this
      obtain ⟨na, hna, nb, hnb, heq⟩ := mem_pairEdges.mp (best_mem hb)
      obtain ⟨a1, a2, a3⟩ := mem_cands_frag.mp hna
      obtain ⟨b1, b2, b3⟩ := mem_cands_frag.mp hnb
      have hfa : m.fa = p.1 := by rw [heq]
      have hfb : m.fb = p.2 := by rw [heq]
      refine ⟨by rw [hfa, hfb]; exact hp, ⟨na, a1, nb, b1, a2, b2, by rw [hfa]; exact a3, by rw [hfb]; exact b3, ?_⟩, ?_, hw⟩
      · rw [hfa, hfb]; exact heq
      · intro xa hxa xb hxb c1 c2 f1 f2
        have hmem : (⟨sqDist xa xb, xa.id, xb.id, p.1, p.2⟩ : CEdge) ∈ pairEdges
            ((cands t o).filter fun n => fragOf t n.id == p.1) ((cands t o).filter fun n => fragOf t n.id == p.2) p.1 p.2 :=
          mem_pairEdges.mpr ⟨xa, mem_cands_frag.mpr ⟨hxa, c1, by rw [f1, hfa]⟩, xb,
            mem_cands_frag.mpr ⟨hxb, c2, by rw [f2, hfb]⟩, rfl⟩
        exact CEdge.le_d2 (best_le hb _ hmem)
    · simp at hsome

theorem IsQuot.valid {t : Table} {o : Opts} {e : CEdge} (h : IsQuot t o e) : Valid t e := by
  obtain ⟨na, ha, nb, hb, _, _, f1, f2, heq⟩ := h.ex
  have h1 : e.a = na.id := by rw [heq]
  have h2 : e.b = nb.id := by rw [heq]
  exact ⟨h1 ▸ mem_ids_of_mem ha, h2 ▸ mem_ids_of_mem hb, h1 ▸ f1, h2 ▸ f2⟩

theorem withinMax_mono {o : Opts} {e f : CEdge} (h : e.d2 ≤ f.d2) (hf : withinMax o f = true) : withinMax o e = true := by
  unfold withinMax at *
  cases hm : o.maxD2 with
  | none => rfl
  | some m =>
    rw [hm] at hf
    simp only [decide_eq_true_eq] at hf ⊢
    omega

/-- If two candidate nodes of the two fragments of a pair are within `max_dist`, the quotient graph has an
edge for that pair, and it is at most as long. -/
theorem quotientEdges_exists {t : Table} {o : Opts} {p : Int × Int} (hp : p ∈ pairs (roots t))
    {na nb : Node} (ha : na ∈ t) (hb : nb ∈ t) (ca : isCand t o na = true) (cb : isCand t o nb = true)
    (fa : fragOf t na.id = p.1) (fb : fragOf t nb.id = p.2)
    (hmax : withinMax o ⟨sqDist na nb, na.id, nb.id, p.1, p.2⟩ = true) :
    ∃ e ∈ quotientEdges t o, e.fa = p.1 ∧ e.fb = p.2 ∧ e.d2 ≤ sqDist na nb := by
  have hmem : (⟨sqDist na nb, na.id, nb.id, p.1, p.2⟩ : CEdge) ∈ pairEdges
      ((cands t o).filter fun n => fragOf t n.id == p.1) ((cands t o).filter fun n => fragOf t n.id == p.2) p.1 p.2 :=
    mem_pairEdges.mpr ⟨na, mem_cands_frag.mpr ⟨ha, ca, fa⟩, nb, mem_cands_frag.mpr ⟨hb, cb, fb⟩, rfl⟩
  cases hbest : best (pairEdges ((cands t o).filter fun n => fragOf t n.id == p.1)
      ((cands t o).filter fun n => fragOf t n.id == p.2) p.1 p.2) with
  | none => rw [best_none hbest] at hmem; simp at hmem
  | some m =>
    obtain ⟨xa, _, xb, _, heq⟩ := mem_pairEdges.mp (best_mem hbest)
    have hle : m.d2 ≤ sqDist na nb := CEdge.le_d2 (best_le hbest _ hmem)
    refine ⟨m, ?_, by rw [heq], by rw [heq], hle⟩
    unfold quotientEdges
    simp only [List.mem_filterMap]
    refine ⟨p, hp, ?_⟩
    rw [hbest]
    simp only
    rw [if_pos (withinMax_mono (by exact hle) hmax)]

/-! ### counting roots and edges -/

theorem roots_add_uedges (t : Table) : (roots t).length + (uedges t).length = t.length := by
  unfold roots uedges edges
  simp only [List.length_map]
  induction t with
  | nil => rfl
  | cons n rest ih =>
    simp only [List.filter_cons]
    cases h : isRootNode n <;> simp [h] <;> omega

theorem length_of_coords {t u : Table}
    (h : u.map (fun n => (n.id, n.x, n.y, n.z)) = t.map (fun n => (n.id, n.x, n.y, n.z))) : u.length = t.length := by
  have := congrArg List.length h
  simpa using this

theorem ids_of_coords {t u : Table}
    (h : u.map (fun n => (n.id, n.x, n.y, n.z)) = t.map (fun n => (n.id, n.x, n.y, n.z))) : ids u = ids t := by
  have := congrArg (List.map (fun (q : Int × Int × Int × Int) => q.1)) h
  simpa [ids, List.map_map, Function.comp_def] using this

/-! ### heal -/

theorem uedge_idem (a b : Int) : uedge (uedge a b).1 (uedge a b).2 = uedge a b := by
  unfold uedge
  split
  · rename_i h; simp [h]
  · rename_i h
    have : b ≤ a := by omega
    simp [this]

theorem uedges_ends {t : Table} (hw : WF t) {e : Int × Int} (he : e ∈ uedges t) : e.1 ∈ ids t ∧ e.2 ∈ ids t := by
  obtain ⟨n, hn, hp, rfl⟩ := mem_uedges.mp he
  have hpar : n.parent ∈ ids t := by
    rcases WF_parents hw n hn with h | h
    · exact absurd h hp
    · exact h
  unfold uedge
  split
  · exact ⟨mem_ids_of_mem hn, hpar⟩
  · exact ⟨hpar, mem_ids_of_mem hn⟩

theorem uedges_norm {t : Table} {e : Int × Int} (he : e ∈ uedges t) : uedge e.1 e.2 = e := by
  obtain ⟨n, _, _, rfl⟩ := mem_uedges.mp he
  exact uedge_idem _ _

theorem healAdded_quot {t : Table} {o : Opts} {e : CEdge} (he : e ∈ healAdded t o) : IsQuot t o e := by
  unfold healAdded at he
  split at he
  · simp at he
  · exact quotientEdges_spec (kruskal_sub _ e he)

theorem coords_heal (t : Table) (o : Opts) :
    (heal t o).map (fun n => (n.id, n.x, n.y, n.z)) = t.map (fun n => (n.id, n.x, n.y, n.z)) := by
  unfold heal
  split
  · rfl
  · exact coords_rewire _ _

/-- The healed table is a well-formed forest whose undirected edges are the old ones plus the added
bridging edges, each exactly once. -/
theorem heal_spec {t : Table} (hw : WF t) (o : Opts) :
    WF (heal t o) ∧ (uedges (heal t o)).Perm (uedges t ++ addedU (healAdded t o)) := by
  unfold heal
  split
  · rename_i h
    have : healAdded t o = [] := by unfold healAdded; rw [if_pos h]
    rw [this]; simp [addedU]; exact hw
  · rename_i h
    have hA : healAdded t o = kruskal (quotientEdges t o) := by unfold healAdded; rw [if_neg h]
    have hval : ∀ e ∈ quotientEdges t o, Valid t e := fun e he => (quotientEdges_spec he).valid
    have hN := kruskal_NInv hw (quotientEdges t o) hval
    have hac : Acyc (uedges t ++ addedU (healAdded t o)) := by
      rw [hA]; exact hN.acyc.perm List.perm_append_comm
    apply rewire_spec hw _ _ hac
    · intro e he
      rcases List.mem_append.mp he with he | he
      · exact uedges_ends hw he
      · unfold addedU at he
        obtain ⟨c, hc, rfl⟩ := List.mem_map.mp he
        have hv := (healAdded_quot hc).valid
        unfold uedge
        split
        · exact ⟨hv.1, hv.2.1⟩
        · exact ⟨hv.2.1, hv.1⟩
    · intro e he
      rcases List.mem_append.mp he with he | he
      · exact uedges_norm he
      · unfold addedU at he
        obtain ⟨c, _, rfl⟩ := List.mem_map.mp he
        exact uedge_idem _ _

/-- One added edge per merged pair of fragments. -/
theorem heal_roots_count {t : Table} (hw : WF t) (o : Opts) :
    (roots (heal t o)).length + (healAdded t o).length = (roots t).length := by
  have h1 := roots_add_uedges (heal t o)
  have h2 := roots_add_uedges t
  have h3 := length_of_coords (coords_heal t o)
  have h4 := (heal_spec hw o).2.length_eq
  simp only [List.length_append, addedU, List.length_map] at h4
  omega

theorem fragOf_mem_roots {t : Table} (hw : WF t) {i : Int} (hi : i ∈ ids t) : fragOf t i ∈ roots t := by
  obtain ⟨r, h1, h2, _⟩ := Conn_rootOf hw hi
  unfold fragOf; rw [h1]; exact h2

theorem fragOf_root {t : Table} (hw : WF t) {r : Int} (hr : r ∈ roots t) : fragOf t r = r := by
  unfold fragOf; rw [rootOf_root hw hr]; rfl

theorem length_eq_one_of_all_eq {l : List Int} (hnd : l.Nodup) (hne : l ≠ []) (h : ∀ a ∈ l, ∀ b ∈ l, a = b) :
    l.length = 1 := by
  match l, hnd, hne, h with
  | [_], _, _, _ => rfl
  | a :: b :: rest, hnd, _, h =>
    exfalso
    have := h a List.mem_cons_self b (List.mem_cons_of_mem _ List.mem_cons_self)
    rw [List.nodup_cons] at hnd
    exact hnd.1 (this ▸ List.mem_cons_self)

/-- A table all of whose nodes are connected has exactly one root. -/
theorem one_root_of_connected {u : Table} (hw : WF u) (hne : u ≠ [])
    (h : ∀ i ∈ ids u, ∀ j ∈ ids u, Conn (uedges u) i j) : (roots u).length = 1 := by
  apply length_eq_one_of_all_eq (roots_nodup hw.1)
  · cases u with
    | nil => exact absurd rfl hne
    | cons n rest =>
      obtain ⟨r, _, hr, _⟩ := Conn_rootOf hw (mem_ids_of_mem (List.mem_cons_self : n ∈ n :: rest))
      intro he; rw [he] at hr; simp at hr
  · intro a ha b hb
    have := rootOf_eq_of_Conn hw (h a (roots_subset_ids ha) b (roots_subset_ids hb))
    rw [rootOf_root hw ha, rootOf_root hw hb] at this
    exact Option.some.inj this

/-- Root rows are candidates whenever no size limit / mask / node list applies. -/
theorem root_isCand {t : Table} {o : Opts} (hmin : o.minSize = none) (hmask : o.mask = none)
    (hmeth : o.method = .all ∨ o.method = .leafs) {n : Node} (hp : n.parent < 0) : isCand t o n = true := by
  unfold isCand
  rw [hmin, hmask]
  rcases hmeth with h | h <;> rw [h]
  · simp
  · simp [isLeafish, classifyNode, hp]

/-- Without `max_dist`, `min_size`, `mask` and node list, healing a non-empty forest gives one tree. -/
theorem heal_single {t : Table} (hw : WF t) (hne : t ≠ []) {o : Opts} (hmax : o.maxD2 = none)
    (hmin : o.minSize = none) (hmask : o.mask = none) (hmeth : o.method = .all ∨ o.method = .leafs) :
    (roots (heal t o)).length = 1 := by
  by_cases hle : (roots t).length ≤ 1
  · have : heal t o = t := by unfold heal; rw [if_pos hle]
    rw [this]
    cases t with
    | nil => exact absurd rfl hne
    | cons n rest =>
      obtain ⟨r, _, hr, _⟩ := Conn_rootOf hw (mem_ids_of_mem (List.mem_cons_self : n ∈ n :: rest))
      have : 0 < (roots (n :: rest)).length := List.length_pos_of_mem hr
      omega
  · obtain ⟨hwh, hperm⟩ := heal_spec hw o
    have hids := ids_of_coords (coords_heal t o)
    apply one_root_of_connected hwh
    · intro he
      have := length_of_coords (coords_heal t o)
      rw [he] at this
      cases t with
      | nil => exact hne rfl
      | cons _ _ => simp at this
    · intro i hi j hj
      rw [hids] at hi hj
      have hA : healAdded t o = kruskal (quotientEdges t o) := by unfold healAdded; rw [if_neg hle]
      have hval : ∀ e ∈ quotientEdges t o, Valid t e := fun e he => (quotientEdges_spec he).valid
      have hN := kruskal_NInv hw (quotientEdges t o) hval
      -- all fragments carry one label at the end
      have hall : ∀ ra ∈ roots t, ∀ rb ∈ roots t,
          ((sortEdges (quotientEdges t o)).foldl kStep kInit).comp ra =
          ((sortEdges (quotientEdges t o)).foldl kStep kInit).comp rb := by
        intro ra hra rb hrb
        by_cases hab : ra = rb
        · rw [hab]
        · obtain ⟨na, hna, hpa, hia⟩ := mem_roots.mp hra
          obtain ⟨nb, hnb, hpb, hib⟩ := mem_roots.mp hrb
          have fa : fragOf t na.id = ra := by rw [hia]; exact fragOf_root hw hra
          have fb : fragOf t nb.id = rb := by rw [hib]; exact fragOf_root hw hrb
          have ca := root_isCand (t := t) hmin hmask hmeth hpa
          have cb := root_isCand (t := t) hmin hmask hmeth hpb
          rcases mem_pairs hra hrb hab with hp | hp
          · obtain ⟨e, he, h1, h2, _⟩ := quotientEdges_exists hp hna hnb ca cb fa fb (by simp [withinMax, hmax])
            have := kruskal_joins _ e he
            rw [h1, h2] at this; exact this
          · obtain ⟨e, he, h1, h2, _⟩ := quotientEdges_exists hp hnb hna cb ca fb fa (by simp [withinMax, hmax])
            have := kruskal_joins _ e he
            rw [h1, h2] at this; exact this.symm
      have hq : Conn (qE (kruskal (quotientEdges t o))) (fragOf t i) (fragOf t j) :=
        (hN.q.conn _ _).mpr (hall _ (fragOf_mem_roots hw hi) _ (fragOf_mem_roots hw hj))
      have hc := lift_up hw hN.valid hq i j hi hj rfl rfl
      apply hc.of_subset
      intro x hx
      rw [hperm.mem_iff, hA]
      rcases List.mem_append.mp hx with h | h
      · exact List.mem_append_right _ h
      · exact List.mem_append_left _ h

/-! ### fragments -/

theorem mem_fragment {t : Table} {r i : Int} : i ∈ fragment t r ↔ i ∈ ids t ∧ fragOf t i = r := by
  unfold fragment; simp [List.mem_filter]

theorem mem_fragments {t : Table} {f : List Int} : f ∈ fragments t ↔ ∃ r ∈ roots t, f = fragment t r := by
  unfold fragments
  simp only [List.mem_map]
  constructor
  · rintro ⟨r, hr, rfl⟩; exact ⟨r, hr, rfl⟩
  · rintro ⟨r, hr, rfl⟩; exact ⟨r, hr, rfl⟩

theorem fragment_nodup {t : Table} (hnd : (ids t).Nodup) (r : Int) : (fragment t r).Nodup := by
  unfold fragment; exact hnd.filter _

/-- Count of an id in the concatenated fragments = its count in the id column. -/
theorem count_flatten_fragment (t : Table) (rs : List Int) (hnd : rs.Nodup) (i : Int) :
    ((rs.map (fragment t)).flatten).count i = if fragOf t i ∈ rs then (ids t).count i else 0 := by
  induction rs with
  | nil => simp
  | cons r rest ih =>
    rw [List.nodup_cons] at hnd
    simp only [List.map_cons, List.flatten_cons, List.count_append, ih hnd.2]
    have hc : (fragment t r).count i = if fragOf t i = r then (ids t).count i else 0 := by
      unfold fragment
      by_cases h : fragOf t i = r
      · rw [if_pos h, List.count_filter (by simpa using h)]
      · rw [if_neg h]
        apply List.count_eq_zero_of_not_mem
        intro hm
        exact h (by simpa using (List.mem_filter.mp hm).2)
    rw [hc]
    by_cases h1 : fragOf t i = r
    · have : fragOf t i ∉ rest := h1 ▸ hnd.1
      simp [h1, this, hnd.1]
    · simp [h1]

/-- The fragments partition the id column. -/
theorem fragments_perm {t : Table} (hw : WF t) : (fragments t).flatten.Perm (ids t) := by
  rw [List.perm_iff_count]
  intro i
  unfold fragments
  rw [count_flatten_fragment t (roots t) (roots_nodup hw.1) i]
  by_cases hi : i ∈ ids t
  · rw [if_pos (fragOf_mem_roots hw hi)]
  · rw [List.count_eq_zero_of_not_mem hi]; split <;> rfl

theorem fragOf_eq_iff {t : Table} (hw : WF t) {i j : Int} (hi : i ∈ ids t) (hj : j ∈ ids t) :
    fragOf t i = fragOf t j ↔ rootOf t i = rootOf t j := by
  obtain ⟨ra, h1, _, _⟩ := Conn_rootOf hw hi
  obtain ⟨rb, h2, _, _⟩ := Conn_rootOf hw hj
  unfold fragOf
  rw [h1, h2]
  simp

/-- Two nodes lie in one fragment iff they have the same root. -/
theorem same_fragment_iff {t : Table} (hw : WF t) {i j : Int} (hi : i ∈ ids t) (hj : j ∈ ids t) :
    (∃ f ∈ fragments t, i ∈ f ∧ j ∈ f) ↔ rootOf t i = rootOf t j := by
  rw [← fragOf_eq_iff hw hi hj]
  constructor
  · rintro ⟨f, hf, h1, h2⟩
    obtain ⟨r, _, rfl⟩ := mem_fragments.mp hf
    rw [(mem_fragment.mp h1).2, (mem_fragment.mp h2).2]
  · intro h
    exact ⟨fragment t (fragOf t i), mem_fragments.mpr ⟨_, fragOf_mem_roots hw hi, rfl⟩,
      mem_fragment.mpr ⟨hi, rfl⟩, mem_fragment.mpr ⟨hj, h.symm⟩⟩

/-! ### break_fragments -/

theorem ids_piece {t : Table} (r : Int) : ids (subsetIds t (fragment t r)) = fragment t r := by
  unfold subsetIds
  rw [ids_subset]
  unfold fragment
  apply List.filter_congr
  intro i hi
  simp only [List.contains_eq_mem, List.mem_filter, beq_iff_eq, decide_eq_true_eq]
  by_cases h : fragOf t i = r <;> simp [h, hi]

theorem fragOf_parent {t : Table} (hw : WF t) {n : Node} (hn : n ∈ t) (hp : ¬ n.parent < 0) :
    fragOf t n.parent = fragOf t n.id := by
  unfold fragOf; rw [rootOf_parent hw hn hp]

/-- No edge is lost or invented by breaking a forest into its fragments. -/
theorem break_edges {t : Table} (hw : WF t) (e : Int × Int) :
    e ∈ edges t ↔ ∃ r ∈ roots t, e ∈ edges (subsetIds t (fragment t r)) := by
  constructor
  · intro he
    obtain ⟨n, hn, hp, rfl⟩ := mem_edges.mp he
    have hpar : n.parent ∈ ids t := by
      rcases WF_parents hw n hn with h | h
      · exact absurd h hp
      · exact h
    refine ⟨fragOf t n.id, fragOf_mem_roots hw (mem_ids_of_mem hn), ?_⟩
    unfold subsetIds
    apply edges_subset_of hw.1 _ hn hp
    · simp only [List.contains_eq_mem, decide_eq_true_eq]
      exact mem_fragment.mpr ⟨mem_ids_of_mem hn, rfl⟩
    · simp only [List.contains_eq_mem, List.mem_filter, decide_eq_true_eq]
      exact ⟨hpar, mem_fragment.mpr ⟨hpar, fragOf_parent hw hn hp⟩⟩
  · rintro ⟨r, _, he⟩
    unfold subsetIds at he
    obtain ⟨n, hn, hp, rfl, _, _⟩ := edges_subset_sub hw.1 _ he
    exact mem_edges.mpr ⟨n, hn, hp, rfl⟩

/-- Each piece has exactly one root: the root of its fragment. -/
theorem roots_piece {t : Table} (hw : WF t) {r : Int} (hr : r ∈ roots t) (x : Int) :
    x ∈ roots (subsetIds t (fragment t r)) ↔ x = r := by
  constructor
  · intro hx
    obtain ⟨m, hm, hmp, rfl⟩ := mem_roots.mp hx
    unfold subsetIds at hm
    obtain ⟨n, hn, hid, hk, _, _, _, hpar⟩ := subset_parent hw.1 _ hm
    have hk' : n.id ∈ fragment t r := by simpa using hk
    have hfr := (mem_fragment.mp hk').2
    by_cases hp : n.parent < 0
    · have : n.id ∈ roots t := mem_roots.mpr ⟨n, hn, hp, rfl⟩
      rw [fragOf_root hw this] at hfr
      rw [← hid]; exact hfr
    · exfalso
      have hparid : n.parent ∈ ids t := by
        rcases WF_parents hw n hn with h | h
        · exact absurd h hp
        · exact h
      have : n.parent ∈ (ids t).filter (fun i => (fragment t r).contains i) := by
        simp only [List.contains_eq_mem, List.mem_filter, decide_eq_true_eq]
        exact ⟨hparid, mem_fragment.mpr ⟨hparid, (fragOf_parent hw hn hp).trans hfr⟩⟩
      rw [if_pos this] at hpar
      rw [hpar] at hmp
      exact hp hmp
  · rintro rfl
    obtain ⟨n, hn, hp, rfl⟩ := mem_roots.mp hr
    have hk : (fragment t n.id).contains n.id = true := by
      simp only [List.contains_eq_mem, decide_eq_true_eq]
      exact mem_fragment.mpr ⟨mem_ids_of_mem hn, fragOf_root hw hr⟩
    unfold subsetIds
    obtain ⟨m, hm, h1, h2⟩ := subset_row_of_mem hw.1 (fun i => (fragment t n.id).contains i) hn hk
    refine mem_roots.mpr ⟨m, hm, ?_, h1⟩
    rw [h2]
    split
    · exact hp
    · omega

theorem mem_sortBySize {l : List (List Int)} {f : List Int} : f ∈ sortBySize l ↔ f ∈ l :=
  (sortBy_perm' _ l).mem_iff

/-- `break_fragments` returns one piece per fragment with at least `min_size` nodes. -/
theorem mem_breakFragments {t : Table} {k : Nat} {p : Table} :
    p ∈ breakFragments t k ↔ ∃ r ∈ roots t, k ≤ (fragment t r).length ∧ p = subsetIds t (fragment t r) := by
  unfold breakFragments
  simp only [List.mem_map, List.mem_filter, decide_eq_true_eq, mem_sortBySize, mem_fragments]
  constructor
  · rintro ⟨f, ⟨⟨r, hr, rfl⟩, hk⟩, rfl⟩; exact ⟨r, hr, hk, rfl⟩
  · rintro ⟨r, hr, hk, rfl⟩; exact ⟨_, ⟨⟨r, hr, rfl⟩, hk⟩, rfl⟩

theorem breakFragments_length (t : Table) : (breakFragments t 0).length = (roots t).length := by
  unfold breakFragments
  simp only [Nat.zero_le, decide_true, List.length_map]
  rw [List.filter_eq_self.mpr (by intros; rfl)]
  unfold sortBySize
  rw [(sortBy_perm' _ (fragments t)).length_eq]
  simp [fragments]

end Navis.Heal
