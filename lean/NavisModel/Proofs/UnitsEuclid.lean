import NavisModel.Proofs.UnitsHistLemmas
import Mathlib.Analysis.Real.Sqrt
/-! C15: the real Euclidean norm is an instance of the abstract edge-length function of `UnitsHistLemmas`, and the
executable `elen` coincides with it on vectors of rational length. -/
namespace Navis.Units

/-- Euclidean length of a rational vector, in `ℝ` -/
noncomputable def enorm (v : V3) : ℝ := Real.sqrt ((v.x : ℝ) ^ 2 + (v.y : ℝ) ^ 2 + (v.z : ℝ) ^ 2)

theorem enorm_homog (v : V3) {k : Rat} (hk : 0 < k) : enorm (v.mul (V3.rep k)) = (k : ℝ) * enorm v := by
  unfold enorm
  have hk' : (0 : ℝ) ≤ (k : ℝ) := by exact_mod_cast le_of_lt hk
  have : ((v.mul (V3.rep k)).x : ℝ) ^ 2 + ((v.mul (V3.rep k)).y : ℝ) ^ 2 + ((v.mul (V3.rep k)).z : ℝ) ^ 2
      = (k : ℝ) ^ 2 * ((v.x : ℝ) ^ 2 + (v.y : ℝ) ^ 2 + (v.z : ℝ) ^ 2) := by
    simp only [V3.mul, V3.rep]; push_cast; ring
  rw [this, Real.sqrt_mul (sq_nonneg _), Real.sqrt_sq hk']

/-- on a vector whose squared length is the square of a rational `r ≥ 0` the executable `elen` *is* the Euclidean norm -/
theorem enorm_eq_elen {v : V3} {r : Rat} (hr : 0 ≤ r) (hv : normSq v = r * r) : enorm v = ((elen v : Rat) : ℝ) := by
  have he : elen v = r := by unfold elen; rw [hv, sqrtQ_mul_self hr]
  rw [he]
  unfold enorm
  have : (v.x : ℝ) ^ 2 + (v.y : ℝ) ^ 2 + (v.z : ℝ) ^ 2 = (r : ℝ) ^ 2 := by
    have h := congrArg (fun q : Rat => (q : ℝ)) hv
    simp only [normSq] at h; push_cast at h; nlinarith [h]
  rw [this, Real.sqrt_sq (by exact_mod_cast hr)]

/-- absolute homogeneity for every rational factor (negative ones mirror the neuron) -/
theorem enorm_abs_homog (v : V3) (k : Rat) : enorm (v.mul (V3.rep k)) = |(k : ℝ)| * enorm v := by
  unfold enorm
  have : ((v.mul (V3.rep k)).x : ℝ) ^ 2 + ((v.mul (V3.rep k)).y : ℝ) ^ 2 + ((v.mul (V3.rep k)).z : ℝ) ^ 2
      = (k : ℝ) ^ 2 * ((v.x : ℝ) ^ 2 + (v.y : ℝ) ^ 2 + (v.z : ℝ) ^ 2) := by
    simp only [V3.mul, V3.rep]; push_cast; ring
  rw [this, Real.sqrt_mul (sq_nonneg _), Real.sqrt_sq_eq_abs]

/-- one scalar multiplication, any sign: Euclidean edge lengths × |unit| are unchanged -/
theorem mul_scalar_weights_abs {n m : Neuron} {k : Rat} {p : Int} (hk : n.kind ≠ .voxel) (h : mul n (.s k) p = some m)
    (par : List Int) :
    (weights enorm ⟨m, par, []⟩).map (fun w => w * |((m.units.phys.x : Rat) : ℝ)|) =
      (weights enorm ⟨n, par, []⟩).map (fun w => w * |((n.units.phys.x : Rat) : ℝ)|) := by
  obtain ⟨hnz, rfl⟩ := mul_nonvoxel hk h
  have hk0 : k ≠ 0 := by simpa [Factor.nz] using hnz
  have hkr : (k : ℝ) ≠ 0 := by exact_mod_cast hk0
  simp only [weights, Factor.xyz]
  rw [edgeVecs_map (g := fun c => c.mul (V3.rep k)) (v3_zero_mul _) (fun a b => v3_sub_mul a b _), List.map_map,
    List.map_map, List.map_map]
  apply List.map_congr_left; intro d _
  simp only [Function.comp, enorm_abs_homog, compact_phys]
  have hu : ((⟨n.units.mag.div (V3.rep k), n.units.base⟩ : Units).phys.x : Rat) = n.units.phys.x / k := by
    simp [Units.phys, V3.mul, V3.div, V3.rep]; field_simp
  rw [hu]
  push_cast
  rw [abs_div]
  field_simp

end Navis.Units
