import NavisModel.Model.OpsAll
import NavisModel.Proofs.OpsWF
import NavisModel.Proofs.RerootEdgesLemmas
import NavisModel.Proofs.PruneLemmas
import NavisModel.Proofs.HealLemmas
import NavisModel.Proofs.HealStitchWfLemmas
import NavisModel.Proofs.ResampleLemmas
/-!
Helper lemmas for the unified operation language `OpAll` (C01) — core Lean only.

Per constructor of `OpAll`: the result of `applyAll` is a well-formed forest (`WF_applyAll`), and — for
every constructor except `reroot` — it is either the unchanged input or freshly classified
(`labels_applyAll`).  Everything is assembled from the lemmas of the operations' home files.
-/
namespace Navis.Forest

/-! ### the `insert_nodes` guard -/

theorem insertGuard_iff {t : Table} {E : List (Int × Int)} :
    insertGuard t E = true ↔ ∀ e ∈ E, ∃ n ∈ t, n.id = e.2 ∧ n.parent = e.1 := by
  unfold insertGuard
  simp only [List.all_eq_true, List.any_eq_true, Bool.and_eq_true, beq_iff_eq]

/-! ### `cut_skeleton` at several nodes: every piece -/

/-- One step of the `cutMany` fold. -/
def cutStep (frags : List Table) (c : Int) : List Table :=
  match frags.findIdx? (fun f => (ids f).contains c) with
  | none => frags
  | some k =>
    match frags[k]? with
    | none => frags
    | some f =>
      match cut f c with
      | none => frags
      | some (d, p) => frags.take k ++ [d, p] ++ frags.drop (k + 1)

theorem cutMany_eq (t : Table) (cs : List Int) : cutMany t cs = cs.foldl cutStep [t] := rfl

/-- Any property of tables that `subset` establishes from itself holds for every piece. -/
theorem cutStep_inv {P : Table → Prop} (hsub : ∀ f keep, P f → P (subset f keep)) {frags : List Table}
    (h : ∀ f ∈ frags, P f) (c : Int) : ∀ f ∈ cutStep frags c, P f := by
  unfold cutStep
  cases frags.findIdx? (fun f => (ids f).contains c) with
  | none => exact h
  | some k =>
    simp only
    cases hk : frags[k]? with
    | none => exact h
    | some f =>
      simp only
      have hf : P f := h f (List.mem_of_getElem? hk)
      cases hc : cut f c with
      | none => exact h
      | some dp =>
        obtain ⟨d, p⟩ := dp
        obtain ⟨hd, hp, _⟩ := cut_some hc
        intro g hg
        simp only [List.mem_append, List.mem_cons, List.not_mem_nil, or_false] at hg
        rcases hg with (hg | hg | hg) | hg
        · exact h g (List.mem_of_mem_take hg)
        · rw [hg, hd]; exact hsub _ _ hf
        · rw [hg, hp]; exact hsub _ _ hf
        · exact h g (List.mem_of_mem_drop hg)

theorem cutMany_inv {P : Table → Prop} (hsub : ∀ f keep, P f → P (subset f keep)) {t : Table} (ht : P t)
    (cs : List Int) : ∀ f ∈ cutMany t cs, P f := by
  rw [cutMany_eq]
  have : ∀ (cs : List Int) (frags : List Table), (∀ f ∈ frags, P f) → ∀ f ∈ cs.foldl cutStep frags, P f := by
    intro cs
    induction cs with
    | nil => intro frags h; exact h
    | cons c cs ih => intro frags h; exact ih _ (cutStep_inv hsub h c)
  exact this cs [t] (by simpa using ht)

/-- Every piece of a multi-cut is a well-formed forest. -/
theorem WF_cutMany {t : Table} (hw : WF t) (cs : List Int) : ∀ f ∈ cutMany t cs, WF f :=
  cutMany_inv (P := WF) (fun _ keep h => WF_subset h keep) hw cs

/-- Every piece of a multi-cut is the input itself (no cut applied) or freshly classified. -/
theorem labels_cutMany (t : Table) (cs : List Int) : ∀ f ∈ cutMany t cs, f = t ∨ labelsOKB f = true :=
  cutMany_inv (P := fun f => f = t ∨ labelsOKB f = true) (fun _ keep _ => Or.inr (labelsOKB_subset _ keep))
    (Or.inl rfl) cs

/-! ### pruning -/

/-- Productive twig rounds end in the input (no round) or in a freshly classified table. -/
theorem TwigRounds.same_or_labels {len : Int → Int → Nat} {size : Nat} {mask : Option (List Int)} {t t' : Table}
    (h : TwigRounds len size mask t t') : t' = t ∨ labelsOKB t' = true := by
  induction h with
  | done _ => exact Or.inl rfl
  | step _ _ ih =>
    rcases ih with h | h
    · rw [h]; exact Or.inr (labelsOKB_subset _ _)
    · exact Or.inr h

theorem labelsOKB_pruneAtDepth (t : Table) (len : Int → Int → Nat) (src : Int) (depth : Nat) :
    labelsOKB (pruneAtDepth t len src depth) = true := by
  unfold pruneAtDepth; exact labelsOKB_subset _ _

theorem labelsOKB_longestNeurite (t : Table) (len : Int → Int → Nat) (lo hi : Nat) (inv : Bool) :
    labelsOKB (longestNeurite t len lo hi inv) = true := by
  simp only [longestNeurite]
  split
  · exact labelsOKB_subset _ _
  · exact labelsOKB_subset _ _

/-! ### healing and fragments -/

theorem labels_heal (t : Table) (o : Heal.Opts) : Heal.heal t o = t ∨ labelsOKB (Heal.heal t o) = true := by
  unfold Heal.heal
  split
  · exact Or.inl rfl
  · right; rw [Heal.rewire_eq]; exact labelsOKB_classify _

theorem WF_healDrop {t : Table} (hw : WF t) (o : Heal.Opts) : WF (Heal.healDrop t o) := by
  have hh : WF (Heal.heal t o) := (Heal.heal_spec hw o).1
  simp only [Heal.healDrop]
  split
  · exact hh
  · split
    · exact hh
    · exact WF_subset hh _

theorem labels_healDrop (t : Table) (o : Heal.Opts) :
    Heal.healDrop t o = t ∨ labelsOKB (Heal.healDrop t o) = true := by
  simp only [Heal.healDrop]
  split
  · exact labels_heal t o
  · split
    · exact labels_heal t o
    · exact Or.inr (labelsOKB_subset _ _)

theorem WF_keepFragment {t : Table} (hw : WF t) (minSize k : Nat) :
    WF ((Heal.breakFragments t minSize)[k]?.getD t) := by
  cases hk : (Heal.breakFragments t minSize)[k]? with
  | none => exact hw
  | some p =>
    obtain ⟨r, _, _, rfl⟩ := Heal.mem_breakFragments.mp (List.mem_of_getElem? hk)
    exact WF_subset hw _

theorem labels_keepFragment (t : Table) (minSize k : Nat) :
    (Heal.breakFragments t minSize)[k]?.getD t = t ∨
      labelsOKB ((Heal.breakFragments t minSize)[k]?.getD t) = true := by
  cases hk : (Heal.breakFragments t minSize)[k]? with
  | none => exact Or.inl rfl
  | some p =>
    obtain ⟨r, _, _, rfl⟩ := Heal.mem_breakFragments.mp (List.mem_of_getElem? hk)
    exact Or.inr (labelsOKB_subset _ _)

theorem labelsOKB_rewire (t : Table) (E : List (Int × Int)) : labelsOKB (Heal.rewire t E) = true := by
  rw [Heal.rewire_eq]; exact labelsOKB_classify _

theorem WF_dropFluff {t : Table} (hw : WF t) (keep : Option (Nat × Nat)) (nLargest : Option Nat) :
    WF (Heal.dropFluff t keep nLargest) := by
  unfold Heal.dropFluff subsetIds; exact WF_subset hw _

theorem labelsOKB_dropFluff (t : Table) (keep : Option (Nat × Nat)) (nLargest : Option Nat) :
    labelsOKB (Heal.dropFluff t keep nLargest) = true := by
  unfold Heal.dropFluff subsetIds; exact labelsOKB_subset _ _

/-! ### resampling -/

theorem labelsOKB_resampleStruct (t : Table) (cnt : List Int → Option Nat) :
    labelsOKB (Resample.resampleStruct t cnt) = true := by
  unfold Resample.resampleStruct; exact labelsOKB_classify _

/-! ### stitching -/

theorem WF_stitchTables {t : Table} (hw : WF t) {others : List Table} (ho : ∀ u ∈ others, WF u)
    (master : Heal.Master) (o : Option Heal.Opts) : WF (stitchTables t others master o) := by
  have hl : ∀ s ∈ (t :: others).map asSkel, WF s.nodes := by
    intro s hs
    obtain ⟨u, hu, rfl⟩ := List.mem_map.mp hs
    rcases List.mem_cons.mp hu with rfl | hu
    · exact hw
    · exact ho u hu
  unfold stitchTables
  split
  · exact hw
  · cases o with
    | none => exact WF_classify (Heal.combine_WF _ _ hl)
    | some o => exact WF_classify ((Heal.heal_spec (Heal.combine_WF _ _ hl) o).1)

theorem labels_stitchTables (t : Table) (others : List Table) (master : Heal.Master) (o : Option Heal.Opts) :
    stitchTables t others master o = t ∨ labelsOKB (stitchTables t others master o) = true := by
  unfold stitchTables
  split
  · exact Or.inl rfl
  · cases o with
    | none => exact Or.inr (labelsOKB_classify _)
    | some o => exact Or.inr (labelsOKB_classify _)

/-! ### the side condition -/

/-- Every foreign input skeleton of the operation is a well-formed forest (only `stitchWith` has any). -/
def OpAll.ok (op : OpAll) : Prop := ∀ u ∈ op.operands, WF u

theorem OpAll.okB_iff (op : OpAll) : op.okB = true ↔ op.ok := by
  unfold OpAll.okB OpAll.ok
  simp only [List.all_eq_true]
  exact ⟨fun h u hu => wfB_sound (h u hu), fun h u hu => wfB_complete (h u hu)⟩

/-- Operations without foreign inputs satisfy the side condition trivially. -/
theorem OpAll.ok_of_operands_nil {op : OpAll} (h : op.operands = []) : op.ok := by
  intro u hu; rw [h] at hu; cases hu

/-! ### all constructors -/

/-- Operations whose code path ends in `classify_nodes` (everything except `reroot`, which relabels
incrementally). -/
def OpAll.reclassifies : OpAll → Prop
  | .reroot _ => False
  | _ => True

theorem applyAll_ofOp (len : Int → Int → Nat) (t : Table) (op : Op) : applyAll len t (.ofOp op) = applyOp t op := by
  cases op <;> rfl

theorem WF_applyAll (len : Int → Int → Nat) {t : Table} (hw : WF t) (op : OpAll) (hok : op.ok) :
    WF (applyAll len t op) := by
  cases op with
  | subset k => exact WF_subset hw _
  | reroot r => exact WF_reroot hw r
  | cutDistal c =>
    simp only [applyAll]
    cases hc : cut t c with
    | none => exact hw
    | some dp => obtain ⟨d, p⟩ := dp; simp only; rw [(cut_some hc).1]; exact WF_subset hw _
  | cutProximal c =>
    simp only [applyAll]
    cases hc : cut t c with
    | none => exact hw
    | some dp => obtain ⟨d, p⟩ := dp; simp only; rw [(cut_some hc).2.1]; exact WF_subset hw _
  | removeNodes w => exact WF_removeNodes hw w
  | downsample f p => exact WF_downsample hw f p
  | reclassify => exact WF_classify hw
  | cutFragment cs k =>
    simp only [applyAll]
    cases hk : (cutMany t cs)[k]? with
    | none => exact hw
    | some f => exact WF_cutMany hw cs f (List.mem_of_getElem? hk)
  | pruneTwigs size rounds mask => exact WF_pruneTwigs hw len size mask rounds
  | pruneAtDepth src depth => exact WF_pruneAtDepth hw len src depth
  | longestNeurite lo hi inv => exact WF_longestNeurite hw len lo hi inv
  | pruneByStrahler sel =>
    simp only [applyAll]
    cases hs : pruneByStrahler t sel with
    | none => exact hw
    | some t' => exact WF_pruneByStrahler hw hs
  | heal o => exact (Heal.heal_spec hw o).1
  | healDrop o => exact WF_healDrop hw o
  | rewire E => exact Heal.WF_rewire hw E
  | keepFragment minSize k => exact WF_keepFragment hw minSize k
  | dropFluff keep nLargest => exact WF_dropFluff hw keep nLargest
  | stitchWith others master o => exact WF_stitchTables hw hok master o
  | resample res => exact Resample.WF_resampleStruct hw _
  | resampleCounts cnts => exact Resample.WF_resampleStruct hw _
  | insertNodes edgesPC coords =>
    simp only [applyAll]
    split
    · rename_i hg; exact WF_insertNodes hw edgesPC coords (insertGuard_iff.mp hg)
    · exact hw

/-- Every operation that ends in `classify_nodes` returns its input unchanged (where navis raises or
returns early) or a table with correct labels — whatever the labels of the input. -/
theorem labels_applyAll (len : Int → Int → Nat) (t : Table) (op : OpAll) (hop : op.reclassifies) :
    applyAll len t op = t ∨ labelsOKB (applyAll len t op) = true := by
  cases op with
  | subset k => exact Or.inr (labelsOKB_subset t _)
  | reroot r => exact False.elim hop
  | cutDistal c =>
    simp only [applyAll]
    cases hc : cut t c with
    | none => exact Or.inl rfl
    | some dp => obtain ⟨d, p⟩ := dp; simp only; rw [(cut_some hc).1]; exact Or.inr (labelsOKB_subset t _)
  | cutProximal c =>
    simp only [applyAll]
    cases hc : cut t c with
    | none => exact Or.inl rfl
    | some dp => obtain ⟨d, p⟩ := dp; simp only; rw [(cut_some hc).2.1]; exact Or.inr (labelsOKB_subset t _)
  | removeNodes w => exact labelsOKB_removeNodes t w
  | downsample f p => exact labelsOKB_downsample t f p
  | reclassify => exact Or.inr (labelsOKB_classify t)
  | cutFragment cs k =>
    simp only [applyAll]
    cases hk : (cutMany t cs)[k]? with
    | none => exact Or.inl rfl
    | some f => exact labels_cutMany t cs f (List.mem_of_getElem? hk)
  | pruneTwigs size rounds mask => exact (pruneTwigs_rounds len size mask rounds t).same_or_labels
  | pruneAtDepth src depth => exact Or.inr (labelsOKB_pruneAtDepth t len src depth)
  | longestNeurite lo hi inv => exact Or.inr (labelsOKB_longestNeurite t len lo hi inv)
  | pruneByStrahler sel =>
    simp only [applyAll]
    cases hs : pruneByStrahler t sel with
    | none => exact Or.inl rfl
    | some t' =>
      simp only [Option.getD_some]
      obtain ⟨s, _, h2⟩ := pruneByStrahler_eq_subset hs
      right; rw [h2]; exact labelsOKB_subset _ _
  | heal o => exact labels_heal t o
  | healDrop o => exact labels_healDrop t o
  | rewire E => exact Or.inr (labelsOKB_rewire t E)
  | keepFragment minSize k => exact labels_keepFragment t minSize k
  | dropFluff keep nLargest => exact Or.inr (labelsOKB_dropFluff t keep nLargest)
  | stitchWith others master o => exact labels_stitchTables t others master o
  | resample res => exact Or.inr (labelsOKB_resampleStruct t _)
  | resampleCounts cnts => exact Or.inr (labelsOKB_resampleStruct t _)
  | insertNodes edgesPC coords =>
    simp only [applyAll]
    split
    · exact Or.inr (labelsOKB_insertNodes t edgesPC coords)
    · exact Or.inl rfl

/-- Operations that return freshly classified nodes on EVERY input (they never return early). -/
def OpAll.alwaysFresh : OpAll → Prop
  | .subset _ | .reclassify | .pruneAtDepth _ _ | .longestNeurite _ _ _ | .rewire _ | .dropFluff _ _
  | .resample _ | .resampleCounts _ => True
  | _ => False

theorem labels_applyAll_fresh (len : Int → Int → Nat) (t : Table) (op : OpAll) (hop : op.alwaysFresh) :
    labelsOKB (applyAll len t op) = true := by
  cases op with
  | subset k => exact labelsOKB_subset t _
  | reclassify => exact labelsOKB_classify t
  | pruneAtDepth src depth => exact labelsOKB_pruneAtDepth t len src depth
  | longestNeurite lo hi inv => exact labelsOKB_longestNeurite t len lo hi inv
  | rewire E => exact labelsOKB_rewire t E
  | dropFluff keep nLargest => exact labelsOKB_dropFluff t keep nLargest
  | resample res => exact labelsOKB_resampleStruct t _
  | resampleCounts cnts => exact labelsOKB_resampleStruct t _
  | _ => exact False.elim hop

/-- Correct labels are an invariant of EVERY operation on well-formed forests — `reroot`'s incremental
relabelling included. -/
theorem labelsOK_applyAll (len : Int → Int → Nat) {t : Table} (hw : WF t) (hl : labelsOKB t = true) (op : OpAll) :
    labelsOKB (applyAll len t op) = true := by
  by_cases hr : op.reclassifies
  · rcases labels_applyAll len t op hr with h | h
    · rw [h]; exact hl
    · exact h
  · cases op with
    | reroot r => exact labelsOKB_reroot hw hl r
    | _ => exact absurd trivial hr

end Navis.Forest
