import NavisModel.Model.Resample
import NavisModel.Proofs.OpsWF
import NavisModel.Proofs.SegmentLemmas
/-! Helper lemmas for C13, downsampling: the new parent recorded by `_downsample_treeneuron` is the
nearest kept proper ancestor, at most `factor` dropped nodes away — core Lean only.

* `Scan p j q` — the inner `while i < factor` loop passed over `j` consecutive non-fix nodes starting at `p`
  and arrived at `q`;
* `Phase v r` — `v` is reached by some walk with `r` candidates already passed over since the last kept
  node (`r = 0`: `v` is kept).  When every node with two or more children is a fix point the phase of a
  non-fix node is unique, hence the passed-over nodes are not kept by any other walk. -/
namespace Navis.Forest

/-! ### the inner scan, relationally -/

inductive Scan (t : Table) (fixB : Int → Bool) : Int → Nat → Int → Prop
  | here (p : Int) : Scan t fixB p 0 p
  | skip {p p' q : Int} {j : Nat} : 0 ≤ p → fixB p = false → parentOf t p = some p' → Scan t fixB p' j q →
      Scan t fixB p (j + 1) q

theorem dsLimit_true {f : Option Nat} {i : Nat} (h : dsLimit f i = true) : ∃ k, f = some k ∧ k ≤ i := by
  unfold dsLimit at h
  cases f with
  | none => simp at h
  | some k => exact ⟨k, rfl, by simpa using h⟩

theorem dsLimit_false {f : Option Nat} {i : Nat} (h : ¬ dsLimit f i = true) : ∀ k, f = some k → i < k := by
  intro k hk
  subst hk
  unfold dsLimit at h
  simpa using h

theorem dsScan_scan {t : Table} {rk : Int → Nat} (hpos : ∀ n ∈ t, 0 ≤ n.id)
    (hrk : ∀ n ∈ t, n.parent < 0 ∨ (n.parent ∈ ids t ∧ rk n.parent < rk n.id))
    (fixB : Int → Bool) (f : Option Nat) (fuel : Nat) (p : Int) (i : Nat)
    (hp : p < 0 ∨ p ∈ ids t) (hf0 : 1 ≤ fuel) (hf : p ∈ ids t → rk p + 2 ≤ fuel)
    (hi : ∀ k, f = some k → i ≤ k) :
    ∃ j, Scan t fixB p j (dsScan t fixB f fuel p i).1 ∧
      ((dsScan t fixB f fuel p i).2 = true →
        (dsScan t fixB f fuel p i).1 < 0 ∨ fixB (dsScan t fixB f fuel p i).1 = true) ∧
      ((dsScan t fixB f fuel p i).2 = false → f = some (i + j)) ∧
      (∀ k, f = some k → i + j ≤ k) := by
  induction fuel generalizing p i with
  | zero => omega
  | succ g ih =>
    rw [dsScan_succ]
    by_cases hc1 : dsLimit f i = true
    · rw [if_pos hc1]
      obtain ⟨k, hk, hki⟩ := dsLimit_true hc1
      have := hi k hk
      refine ⟨0, .here p, by simp, fun _ => ?_, fun k' hk' => ?_⟩
      · rw [hk]; congr 1; omega
      · rw [hk] at hk'; cases hk'; omega
    · rw [if_neg hc1]
      by_cases hc : (decide (p < 0) || fixB p) = true
      · rw [if_pos hc]
        refine ⟨0, .here p, fun _ => by simpa using hc, by simp, fun k hk => by have := hi k hk; omega⟩
      · rw [if_neg hc]
        have hc' : ¬ p < 0 ∧ fixB p = false := by simpa using hc
        have hin : p ∈ ids t := by
          rcases hp with h | h
          · exact absurd h hc'.1
          · exact h
        obtain ⟨p', hp'⟩ := parentOf_isSome_of_mem hin
        obtain ⟨_, hstep⟩ := parent_step hrk hp'
        rw [hp']
        simp only [Option.getD_some]
        have hfp := hf hin
        have hlim := dsLimit_false hc1
        obtain ⟨j, h1, h2, h3, h4⟩ := ih p' (i + 1) (hstep.imp id (·.1)) (by omega)
          (fun hm => by have := ids_nonneg hpos hm
                        rcases hstep with h | h
                        · omega
                        · omega)
          (fun k hk => by have := hlim k hk; omega)
        refine ⟨j + 1, .skip (by omega) hc'.2 hp' h1, h2, fun hs => ?_, fun k hk => ?_⟩
        · rw [h3 hs]; congr 1; omega
        · have := h4 k hk; omega

/-- What a recorded assignment `(node, new parent)` satisfies. -/
def PairOK (t : Table) (fixB : Int → Bool) (f : Option Nat) (e : Int × Int) : Prop :=
  e.1 ∈ ids t ∧ ∃ p, parentOf t e.1 = some p ∧
    ((p < 0 ∧ e.2 = -1) ∨ (0 ≤ p ∧ ∃ j, Scan t fixB p j e.2 ∧ ∀ k, f = some k → j ≤ k))

theorem dsWalk_pairs {t : Table} {rk : Int → Nat} (hpos : ∀ n ∈ t, 0 ≤ n.id)
    (hrk : ∀ n ∈ t, n.parent < 0 ∨ (n.parent ∈ ids t ∧ rk n.parent < rk n.id))
    (hle : ∀ i, rk i ≤ t.length) (fixB : Int → Bool) (f : Option Nat) (fuel : Nat) (this : Int) :
    ∀ e ∈ dsWalk t fixB f fuel this, PairOK t fixB f e := by
  induction fuel generalizing this with
  | zero => intro e he; simp [dsWalk] at he
  | succ g ih =>
    rw [dsWalk_succ]
    cases hp : parentOf t this with
    | none => intro e he; simp at he
    | some p =>
      obtain ⟨hin, hstep⟩ := parent_step hrk hp
      simp only
      by_cases hneg : p < 0
      · rw [if_pos hneg]
        intro e he
        rw [List.mem_singleton.mp he]
        exact ⟨hin, p, hp, Or.inl ⟨hneg, rfl⟩⟩
      · rw [if_neg hneg]
        have hpin' : p ∈ ids t ∧ rk p < rk this := by
          rcases hstep with h | h
          · exact absurd h hneg
          · exact h
        have hpin := hpin'.1
        have hthis := hle this
        obtain ⟨j, h1, _, _, h4⟩ := dsScan_scan hpos hrk fixB f (t.length + 1) p 0 (Or.inr hpin) (by omega)
          (fun _ => by omega) (fun k _ => Nat.zero_le k)
        have hhead : PairOK t fixB f (this, (dsScan t fixB f (t.length + 1) p 0).1) :=
          ⟨hin, p, hp, Or.inr ⟨by omega, j, h1, fun k hk => by have := h4 k hk; omega⟩⟩
        by_cases hstop : (dsScan t fixB f (t.length + 1) p 0).2 = true
        · rw [if_pos hstop]
          intro e he
          rw [List.mem_singleton.mp he]; exact hhead
        · rw [if_neg hstop]
          intro e he
          rcases List.mem_cons.mp he with rfl | he
          · exact hhead
          · exact ih _ e he

/-! ### phases -/

inductive Phase (t : Table) (fixB : Int → Bool) (f : Option Nat) : Int → Nat → Prop
  | fix {e : Int} : e ∈ ids t → fixB e = true → Phase t fixB f e 0
  | skip {v p : Int} {r : Nat} : Phase t fixB f v r → (∀ k, f = some k → r < k) → parentOf t v = some p → 0 ≤ p →
      fixB p = false → Phase t fixB f p (r + 1)
  | jump {v p : Int} {k : Nat} : Phase t fixB f v k → f = some k → parentOf t v = some p → 0 ≤ p →
      Phase t fixB f p 0

theorem Phase.of_fix {t : Table} {fixB : Int → Bool} {f : Option Nat} {v : Int} {r : Nat}
    (h : Phase t fixB f v r) (hfix : fixB v = true) : r = 0 := by
  cases h with
  | fix _ _ => rfl
  | skip _ _ _ _ hnf => rw [hfix] at hnf; cases hnf
  | jump _ _ _ _ => rfl

/-- Along a scan the phase counts the passed-over nodes. -/
theorem Scan.phase {t : Table} {fixB : Int → Bool} {f : Option Nat} {p q : Int} {j : Nat}
    (h : Scan t fixB p j q) : ∀ (v : Int) (r : Nat), Phase t fixB f v r → parentOf t v = some p →
      (∀ k, f = some k → r + j ≤ k) → ∃ v', parentOf t v' = some q ∧ Phase t fixB f v' (r + j) := by
  induction h with
  | here p => intro v r hv hp _; exact ⟨v, hp, hv⟩
  | @skip p p' q j h0 hnf hpp _ ih =>
    intro v r hv hp hb
    have hph : Phase t fixB f p (r + 1) := .skip hv (fun k hk => by have := hb k hk; omega) hp h0 hnf
    obtain ⟨v', h1, h2⟩ := ih p (r + 1) hph hpp (fun k hk => by have := hb k hk; omega)
    exact ⟨v', h1, by rw [show r + (j + 1) = r + 1 + j by omega]; exact h2⟩

/-- Every node that gets an assignment in a walk started at a phase-0 node has phase 0. -/
theorem dsWalk_phase {t : Table} {rk : Int → Nat} (hpos : ∀ n ∈ t, 0 ≤ n.id)
    (hrk : ∀ n ∈ t, n.parent < 0 ∨ (n.parent ∈ ids t ∧ rk n.parent < rk n.id))
    (hle : ∀ i, rk i ≤ t.length) (fixB : Int → Bool) (f : Option Nat) (fuel : Nat) (this : Int)
    (hph : this ∈ ids t → Phase t fixB f this 0) :
    ∀ e ∈ dsWalk t fixB f fuel this, Phase t fixB f e.1 0 := by
  induction fuel generalizing this with
  | zero => intro e he; simp [dsWalk] at he
  | succ g ih =>
    rw [dsWalk_succ]
    cases hp : parentOf t this with
    | none => intro e he; simp at he
    | some p =>
      obtain ⟨hin, hstep⟩ := parent_step hrk hp
      have hthis := hph hin
      simp only
      by_cases hneg : p < 0
      · rw [if_pos hneg]
        intro e he
        rw [List.mem_singleton.mp he]; exact hthis
      · rw [if_neg hneg]
        have hpin' : p ∈ ids t ∧ rk p < rk this := by
          rcases hstep with h | h
          · exact absurd h hneg
          · exact h
        have hpin := hpin'.1
        have hlp := hle this
        obtain ⟨j, h1, _, h3, h4⟩ := dsScan_scan hpos hrk fixB f (t.length + 1) p 0 (Or.inr hpin) (by omega)
          (fun _ => by omega) (fun k _ => Nat.zero_le k)
        by_cases hstop : (dsScan t fixB f (t.length + 1) p 0).2 = true
        · rw [if_pos hstop]
          intro e he
          rw [List.mem_singleton.mp he]; exact hthis
        · rw [if_neg hstop]
          intro e he
          rcases List.mem_cons.mp he with rfl | he
          · exact hthis
          · refine ih _ (fun hmem => ?_) e he
            have hf : f = some (0 + j) := h3 (by simpa using hstop)
            obtain ⟨v', hv1, hv2⟩ := h1.phase this 0 hthis hp (fun k hk => by have := h4 k hk; omega)
            exact .jump hv2 hf hv1 (ids_nonneg hpos hmem)

theorem dsPairs_phase {t : Table} {rk : Int → Nat} (hpos : ∀ n ∈ t, 0 ≤ n.id)
    (hrk : ∀ n ∈ t, n.parent < 0 ∨ (n.parent ∈ ids t ∧ rk n.parent < rk n.id))
    (hle : ∀ i, rk i ≤ t.length) (f : Option Nat) (pres : List Int) :
    ∀ e ∈ dsPairs t f pres, Phase t (dsFix t pres) f e.1 0 := by
  intro e he
  unfold dsPairs at he
  obtain ⟨x, hx, hex⟩ := List.mem_flatMap.mp he
  obtain ⟨hxin, hxfix⟩ := List.mem_filter.mp hx
  exact dsWalk_phase hpos hrk hle _ f _ x (fun _ => .fix hxin hxfix) e hex

theorem dsPairs_pairs {t : Table} {rk : Int → Nat} (hpos : ∀ n ∈ t, 0 ≤ n.id)
    (hrk : ∀ n ∈ t, n.parent < 0 ∨ (n.parent ∈ ids t ∧ rk n.parent < rk n.id))
    (hle : ∀ i, rk i ≤ t.length) (f : Option Nat) (pres : List Int) :
    ∀ e ∈ dsPairs t f pres, PairOK t (dsFix t pres) f e := by
  intro e he
  unfold dsPairs at he
  obtain ⟨x, _, hex⟩ := List.mem_flatMap.mp he
  exact dsWalk_pairs hpos hrk hle _ f _ x e hex

/-- **Uniqueness of the phase** of a non-fix node, when non-fix nodes have at most one child. -/
theorem Phase.unique {t : Table} {fixB : Int → Bool} {f : Option Nat}
    (hone : ∀ i, 0 ≤ i → fixB i = false → childCount t i ≤ 1)
    {u : Int} {r : Nat} (h : Phase t fixB f u r) : ∀ r', fixB u = false → Phase t fixB f u r' → r = r' := by
  induction h with
  | fix _ hfx => intro r' hnf _; rw [hfx] at hnf; cases hnf
  | @skip v p r hv hlt hvp h0 _ ih =>
    intro r' hnf h'
    obtain ⟨nv, _, hnv, hnvid, hnvp⟩ := parentOf_some hvp
    -- the unique child of `p`
    have hchild : ∀ v', parentOf t v' = some p → v' = v := by
      intro v' hv'
      obtain ⟨nv', _, hnv', hnvid', hnvp'⟩ := parentOf_some hv'
      have := child_unique (hone p h0 hnf) hnv' hnv hnvp' hnvp
      rw [← hnvid', ← hnvid, this]
    cases h' with
    | fix _ hfx => rw [hfx] at hnf; cases hnf
    | @skip v' _ r'' hv' hlt' hvp' _ _ =>
      have e := hchild v' hvp'
      subst e
      by_cases hfv : fixB v' = true
      · rw [hv.of_fix hfv, hv'.of_fix hfv]
      · have := ih r'' (by simpa using hfv) hv'
        omega
    | @jump v' _ k hv' hf hvp' _ =>
      have e := hchild v' hvp'
      subst e
      have hk := hlt k hf
      by_cases hfv : fixB v' = true
      · have := hv'.of_fix hfv; have := hv.of_fix hfv; omega
      · have := ih k (by simpa using hfv) hv'; omega
  | @jump v p k hv hf hvp h0 ih =>
    intro r' hnf h'
    obtain ⟨nv, _, hnv, hnvid, hnvp⟩ := parentOf_some hvp
    have hchild : ∀ v', parentOf t v' = some p → v' = v := by
      intro v' hv'
      obtain ⟨nv', _, hnv', hnvid', hnvp'⟩ := parentOf_some hv'
      have := child_unique (hone p h0 hnf) hnv' hnv hnvp' hnvp
      rw [← hnvid', ← hnvid, this]
    cases h' with
    | fix _ _ => rfl
    | @skip v' _ r'' hv' hlt' hvp' _ _ =>
      have e := hchild v' hvp'
      subst e
      have hk := hlt' k hf
      by_cases hfv : fixB v' = true
      · have := hv'.of_fix hfv; have := hv.of_fix hfv; omega
      · have := ih r'' (by simpa using hfv) hv'; omega
    | jump _ _ _ _ => rfl

/-! ### from scans to root paths -/

theorem Scan.of_neg {t : Table} {fixB : Int → Bool} {p q : Int} {j : Nat} (h : Scan t fixB p j q) (hp : p < 0) :
    j = 0 ∧ q = p := by
  cases h with
  | here => exact ⟨rfl, rfl⟩
  | skip h0 _ _ _ => omega

/-- The nodes passed over by a scan are a prefix of the root path; each of them is a non-fix node with a
positive phase. -/
theorem Scan.path {t : Table} (hw : WF t) {fixB : Int → Bool} {f : Option Nat} {p q : Int} {j : Nat}
    (h : Scan t fixB p j q) : ∀ (v : Int) (r : Nat), Phase t fixB f v r → parentOf t v = some p →
      (∀ k, f = some k → r + j ≤ k) → p ∈ ids t →
      ∃ pre : List Int, pre.length = j ∧ (∀ u ∈ pre, fixB u = false ∧ ∃ m, Phase t fixB f u (m + 1)) ∧
        ((q ∈ ids t ∧ rootPath t p = pre ++ rootPath t q) ∨ (q < 0 ∧ rootPath t p = pre)) := by
  induction h with
  | here p => intro v r _ _ _ hp; exact ⟨[], rfl, by simp, Or.inl ⟨hp, rfl⟩⟩
  | @skip p p' q j h0 hnf hpp hsc ih =>
    intro v r hv hvp hb hp
    have hph : Phase t fixB f p (r + 1) := .skip hv (fun k hk => by have := hb k hk; omega) hvp h0 hnf
    obtain ⟨n, hfd, hn, _, hnp⟩ := parentOf_some hpp
    by_cases hneg : p' < 0
    · obtain ⟨hj, hq⟩ := hsc.of_neg hneg
      refine ⟨[p], by simp [hj], ?_, Or.inr ⟨by omega, rootPath_of_root hfd (hnp ▸ hneg)⟩⟩
      intro u hu
      rw [List.mem_singleton.mp hu]
      exact ⟨hnf, r, hph⟩
    · have hp'in : p' ∈ ids t := hnp ▸ WF_parent_mem hw hn (hnp ▸ hneg)
      obtain ⟨pre, h1, h2, h3⟩ := ih p (r + 1) hph hpp (fun k hk => by have := hb k hk; omega) hp'in
      have e : rootPath t p = p :: rootPath t p' := by
        rw [rootPath_of_nonroot hw hfd (hnp ▸ hneg), hnp]
      refine ⟨p :: pre, by simp [h1], ?_, ?_⟩
      · intro u hu
        rcases List.mem_cons.mp hu with rfl | hu
        · exact ⟨hnf, r, hph⟩
        · exact h2 u hu
      · rcases h3 with ⟨h3a, h3b⟩ | ⟨h3a, h3b⟩
        · exact Or.inl ⟨h3a, by rw [e, h3b]; rfl⟩
        · exact Or.inr ⟨h3a, by rw [e, h3b]⟩

theorem find?_append_skip {α} (p : α → Bool) (pre : List α) (a : α) (rest : List α)
    (hpre : ∀ u ∈ pre, p u = false) (ha : p a = true) : (pre ++ a :: rest).find? p = some a := by
  induction pre with
  | nil => simp [List.find?, ha]
  | cons x xs ih =>
    rw [List.cons_append, List.find?_cons, hpre x (by simp)]
    exact ih (fun u hu => hpre u (List.mem_cons_of_mem _ hu))

theorem find?_none_of_all {α} (p : α → Bool) (l : List α) (h : ∀ u ∈ l, p u = false) : l.find? p = none := by
  rw [List.find?_eq_none]
  intro u hu
  simp [h u hu]

theorem idxOf_append_skip (pre : List Int) (a : Int) (rest : List Int) (h : a ∉ pre) :
    (pre ++ a :: rest).idxOf a = pre.length := by
  induction pre with
  | nil => simp
  | cons x xs ih =>
    have hx : x ≠ a := fun e => h (by simp [e])
    rw [List.cons_append, idxOf_cons_ne' _ hx, ih (fun hm => h (List.mem_cons_of_mem _ hm))]
    rfl

end Navis.Forest

namespace Navis.Resample
open Navis.Forest

/-- The C13 clauses for a downsampled table `u` of `t` (what `dsCheck` decides): kept rows are original
rows with unchanged coordinates; the listed fix points are kept; every kept node is linked to the
*first kept* node on the tail of its old root path (`< 0` when there is none), and with a finite factor
`k` at most `k` nodes are dropped in between. -/
def DsSpec (t u : Table) (f : Option Nat) (fix : List Int) : Prop :=
  (∀ m ∈ u, ∃ n ∈ t, n.id = m.id ∧ n.x = m.x ∧ n.y = m.y ∧ n.z = m.z) ∧
  (∀ i ∈ fix, i ∈ ids u) ∧
  (∀ m ∈ u,
    ((rootPath t m.id).tail.find? (fun a => (ids u).contains a) = none ∧ m.parent < 0) ∨
    (∃ a, (rootPath t m.id).tail.find? (fun a => (ids u).contains a) = some a ∧ m.parent = a ∧
      ∀ k, f = some k → (rootPath t m.id).tail.idxOf a ≤ k))

/-- The executable checker is sound for the specification. -/
theorem dsCheck_sound' {t u : Table} {f : Option Nat} {fix : List Int} (h : dsCheck t u f fix = true) :
    DsSpec t u f fix := by
  unfold dsCheck at h
  simp only [Bool.and_eq_true, List.all_eq_true] at h
  obtain ⟨⟨h1, h2⟩, h3⟩ := h
  refine ⟨?_, ?_, ?_⟩
  · intro m hm
    have := h1 m hm
    cases hf : find? t m.id with
    | none => rw [hf] at this; cases this
    | some n =>
      rw [hf] at this
      simp only [Bool.and_eq_true, beq_iff_eq] at this
      exact ⟨n, (find?_some hf).1, (find?_some hf).2, this.1.1, this.1.2, this.2⟩
  · intro i hi
    simpa using h2 i hi
  · intro m hm
    have := h3 m hm
    cases hfd : (rootPath t m.id).tail.find? (fun a => (ids u).contains a) with
    | none =>
      rw [hfd] at this
      exact Or.inl ⟨rfl, by simpa using this⟩
    | some a =>
      rw [hfd] at this
      simp only [Bool.and_eq_true, beq_iff_eq] at this
      refine Or.inr ⟨a, rfl, this.1, ?_⟩
      intro k hk
      subst hk
      simpa using this.2

/-- Non-fix nodes of a correctly labelled forest have at most one child. -/
theorem one_child_of_labels {t : Table} (hw : WF t) (hl : labelsOKB t = true) (pres : List Int) :
    ∀ i, 0 ≤ i → dsFix t pres i = false → childCount t i ≤ 1 := by
  intro i _ hnf
  by_cases hin : i ∈ ids t
  · obtain ⟨n, hn, rfl⟩ := mem_ids.mp hin
    unfold dsFix at hnf
    rw [find?_of_mem hw.1 hn] at hnf
    simp only [Bool.or_eq_false_iff, bne_eq_false_iff_eq] at hnf
    have := (labelsOKB_iff t).mp hl n hn
    rw [hnf.1] at this
    unfold labelOf at this
    split at this
    · cases this
    · split at this
      · cases this
      · split at this
        · omega
        · cases this
  · -- no row can point to an id outside the table
    have : childCount t i = 0 := by
      unfold childCount
      rw [List.length_eq_zero_iff, List.filter_eq_nil_iff]
      intro n hn hc
      have hp : n.parent = i := by simpa using hc
      rcases WF_parents hw n hn with h | h
      · omega
      · exact hin (hp ▸ h)
    omega

/-- **The model satisfies the downsampling specification**: for every well-formed forest in which no
node with two or more children carries the label `slab` (in particular: correct labels), every factor
(incl. `inf`) and every preserved set. -/
theorem downsample_spec {t : Table} (hw : WF t)
    (f : Option Nat) (pres : List Int)
    (hone : ∀ i, 0 ≤ i → dsFix t pres i = false → childCount t i ≤ 1)
    (fix : List Int) (hfix : ∀ i ∈ fix, ∃ n ∈ t, n.id = i ∧ (n.label ≠ .slab ∨ i ∈ pres)) :
    DsSpec t (downsample t f pres) f fix := by
  refine ⟨?_, ?_, ?_⟩
  · intro m hm
    exact downsample_subset t f pres m hm
  · intro i hi
    obtain ⟨n, hn, rfl, hcase⟩ := hfix i hi
    exact downsample_keeps_fixpoints hw f pres hn hcase
  · intro m hm
    by_cases hlen : t.length ≤ 1
    · -- a well-formed table with at most one row consists of a root
      rw [downsample_eq, if_pos hlen] at hm ⊢
      left
      have hroot : m.parent < 0 := by
        rcases WF_parents hw m hm with h | h
        · exact h
        · exfalso
          obtain ⟨n, hn, hnid⟩ := mem_ids.mp h
          have : n = m := by
            match t, hlen, hm, hn with
            | [a], _, hm, hn => simp at hm hn; rw [hm, hn]
          exact WF_no_loop hw m hm (this ▸ hnid).symm
      rw [rootPath_of_root (find?_of_mem hw.1 hm) hroot]
      exact ⟨rfl, hroot⟩
    · obtain ⟨rk, hrk, hle⟩ := WF_rank_le hw
      have hpos := hw.2.1
      obtain ⟨n, hn, hid, _, _, _, e, he, hek, hmp⟩ := mem_downsample hlen hm
      have hkept : ∀ a, a ∈ ids (downsample t f pres) ↔ a ∈ ids t ∧ ∃ e' ∈ dsPairs t f pres, e'.1 = a := by
        intro a
        rw [ids_downsample hlen, List.mem_filter, mem_any_fst]
      have hnotkept : ∀ u mm, dsFix t pres u = false → Phase t (dsFix t pres) f u (mm + 1) →
          ((ids (downsample t f pres)).contains u) = false := by
        intro u mm hnf hph
        rw [Bool.eq_false_iff]
        intro hc
        have hc' : u ∈ ids (downsample t f pres) := by simpa using hc
        obtain ⟨_, e', he', hee⟩ := (hkept u).mp hc'
        have h0 := dsPairs_phase hpos hrk hle f pres e' he'
        rw [hee] at h0
        have := hph.unique hone 0 hnf h0
        omega
      obtain ⟨_, p, hpp, hcase⟩ := dsPairs_pairs hpos hrk hle f pres e he
      rw [hek] at hpp
      have hpn : p = n.parent := by
        have := parentOf_of_mem hw.1 hn
        rw [this] at hpp; exact (Option.some.inj hpp).symm
      rw [hid]
      rcases hcase with ⟨hneg, he2⟩ | ⟨hnn, j, hsc, hj⟩
      · left
        rw [rootPath_of_root (find?_of_mem hw.1 hn) (hpn ▸ hneg)]
        exact ⟨rfl, by rw [hmp, he2]; omega⟩
      · have hpin : p ∈ ids t := hpn ▸ WF_parent_mem hw hn (by rw [← hpn]; omega)
        have hph0 : Phase t (dsFix t pres) f n.id 0 := by
          have := dsPairs_phase hpos hrk hle f pres e he
          rwa [hek] at this
        obtain ⟨pre, hpl, hpre, hpath⟩ := hsc.path hw n.id 0 hph0 hpp
          (fun k hk => by have := hj k hk; omega) hpin
        have htl : (rootPath t n.id).tail = rootPath t p := by
          rw [rootPath_of_nonroot hw (find?_of_mem hw.1 hn) (by rw [← hpn]; omega), hpn]; rfl
        rw [htl]
        have hprek : ∀ u ∈ pre, ((ids (downsample t f pres)).contains u) = false := by
          intro u hu
          obtain ⟨hnf, mm, hph⟩ := hpre u hu
          exact hnotkept u mm hnf hph
        rcases hpath with ⟨hqin, hq⟩ | ⟨hqneg, hq⟩
        · right
          obtain ⟨rest, hrest⟩ := rootPath_cons hqin
          have hqkept : ((ids (downsample t f pres)).contains e.2) = true := by
            have hq0 := ids_nonneg hpos hqin
            rcases (dsPairs_spec hpos hrk hle f pres e he).2 with h | ⟨_, _, e', he', hee⟩
            · omega
            · simpa using (hkept e.2).mpr ⟨hqin, e', he', hee⟩
          refine ⟨e.2, ?_, hmp, ?_⟩
          · rw [hq, hrest]
            exact find?_append_skip _ pre e.2 rest hprek hqkept
          · intro k hk
            rw [hq, hrest, idxOf_append_skip pre e.2 rest (fun hm' => by
              have := hprek e.2 hm'; rw [hqkept] at this; cases this)]
            have := hj k hk; omega
        · left
          rw [hq]
          exact ⟨find?_none_of_all _ pre hprek, by rw [hmp]; exact hqneg⟩

end Navis.Resample
