import NavisModel.Model.Resample
import NavisModel.Proofs.OpsWF
import NavisModel.Proofs.SegmentLemmas
/-! Helper lemmas for C13, downsampling: the new parent recorded by `_downsample_treeneuron` is the
nearest kept proper ancestor, at most `factor` dropped nodes away — core Lean only.

* `Scan p j q` — the inner `while i < factor` loop passed over `j` consecutive non-fix nodes starting at `p`
  and arrived at `q`;
* `Phase v r` — `v` is reached by some walk with `r` candidates already passed over since the last kept
  node (`r = 0`: `v` is kept).  When every node with two or more children is a fix point the phase of a
  non-fix node is unique, hence the passed-over nodes are not kept by any other walk. -/
namespace Navis.Forest

/-! ### the inner scan, relationally -/

inductive Scan (t : Table) (fixB : Int → Bool) : Int → Nat → Int → Prop
  | here (p : Int) : Scan t fixB p 0 p
  | skip {p p' q : Int} {j : Nat} : 0 ≤ p → fixB p = false → parentOf t p = some p' → Scan t fixB p' j q →
      Scan t fixB p (j + 1) q

theorem dsLimit_true {f : Option Nat} {i : Nat} (h : dsLimit f i = true) : ∃ k, f = some k ∧ k ≤ i := by
  unfold dsLimit at h
  cases f with
  | none => simp at h
  | some k => exact ⟨k, rfl, by simpa using h⟩

theorem dsLimit_false {f : Option Nat} {i : Nat} (h : ¬ dsLimit f i = true) : ∀ k, f = some k → i < k := by
  intro k hk
  subst hk
  unfold dsLimit at h
  simpa using h

theorem dsScan_scan {t : Table} {rk : Int → Nat} (hpos : ∀ n ∈ t, 0 ≤ n.id)
    (hrk : ∀ n ∈ t, n.parent < 0 ∨ (n.parent ∈ ids t ∧ rk n.parent < rk n.id))
    (fixB : Int → Bool) (f : Option Nat) (fuel : Nat) (p : Int) (i : Nat)
    (hp : p < 0 ∨ p ∈ ids t) (hf0 : 1 ≤ fuel) (hf : p ∈ ids t → rk p + 2 ≤ fuel)
    (hi : ∀ k, f = some k → i ≤ k) :
    ∃ j, Scan t fixB p j (dsScan t fixB f fuel p i).1 ∧
      ((dsScan t fixB f fuel p i).2 = true →
        (dsScan t fixB f fuel p i).1 < 0 ∨ fixB (dsScan t fixB f fuel p i).1 = true) ∧
      ((dsScan t fixB f fuel p i).2 = false → f = some (i + j)) ∧
      (∀ k, f = some k → i + j ≤ k) := by
  induction fuel generalizing p i with
  | zero => omega
  | succ g ih =>
    rw [dsScan_succ]
    by_cases hc1 : dsLimit f i = true
    · rw [if_pos hc1]
      obtain ⟨k, hk, hki⟩ := dsLimit_true hc1
      have := hi k hk
      refine ⟨0, .here p, by simp, fun _ => ?_, fun k' hk' => ?_⟩
      · rw [hk]; congr 1; omega
      · rw [hk] at hk'; cases hk'; omega
    · rw [if_neg hc1]
      by_cases hc : (decide (p < 0) || fixB p) = true
      · rw [if_pos hc]
        refine ⟨0, .here p, fun _ => by simpa using hc, by simp, fun k hk => by have := hi k hk; omega⟩
      · rw [if_neg hc]
        have hc' : ¬ p < 0 ∧ fixB p = false := by simpa using hc
        have hin : p ∈ ids t := by
          rcases hp with h | h
          · exact absurd h hc'.1
          · exact h
        obtain ⟨p', hp'⟩ := parentOf_isSome_of_mem hin
        obtain ⟨_, hstep⟩ := parent_step hrk hp'
        rw [hp']
        simp only [Option.getD_some]
        have hfp := hf hin
        have hlim := dsLimit_false hc1
        obtain ⟨j, h1, h2, h3, h4⟩ := ih p' (i + 1) (hstep.imp id (·.1)) (by omega)
          (fun hm => by have := ids_nonneg hpos hm
                        rcases hstep with h | h
                        · omega
                        · omega)
          (fun k hk => by have := hlim k hk; omega)
        refine ⟨j + 1, .skip (by omega) hc'.2 hp' h1, h2, fun hs => ?_, fun k hk => ?_⟩
        · rw [h3 hs]; congr 1; omega
        · have := h4 k hk; omega

/-- What a recorded assignment `(node, new parent)` satisfies. -/
def PairOK (t : Table) (fixB : Int → Bool) (f : Option Nat) (e : Int × Int) : Prop :=
  e.1 ∈ ids t ∧ ∃ p, parentOf t e.1 = some p ∧
    ((p < 0 ∧ e.2 = -1) ∨ (0 ≤ p ∧ ∃ j, Scan t fixB p j e.2 ∧ ∀ k, f = some k → j ≤ k))

theorem dsWalk_pairs {t : Table} {rk : Int → Nat} (hpos : ∀ n ∈ t, 0 ≤ n.id)
    (hrk : ∀ n ∈ t, n.parent < 0 ∨ (n.parent ∈ ids t ∧ rk n.parent < rk n.id))
    (hle : ∀ i, rk i ≤ t.length) (fixB : Int → Bool) (f : Option Nat) (fuel : Nat) (this : Int) :
    ∀ e ∈ dsWalk t fixB f fuel this, PairOK t fixB f e := by
  induction fuel generalizing this with
  | zero => intro e he; simp [dsWalk] at he
  | succ g ih =>
    rw [dsWalk_succ]
    cases hp : parentOf t this with
    | none => intro e he; simp at he
    | some p =>
      obtain ⟨hin, hstep⟩ := parent_step hrk hp
      simp only
      by_cases hneg : p < 0
      · rw [if_pos hneg]
        intro e he
        rw [List.mem_singleton.mp he]
        exact ⟨hin, p, hp, Or.inl ⟨hneg, rfl⟩⟩
      · rw [if_neg hneg]
        have hpin' : p ∈ ids t ∧ rk p < rk this := by
          rcases hstep with h | h
          · exact absurd h hneg
          · exact h
        have hpin := hpin'.1
        have hthis := hle this
        obtain ⟨j, h1, _, _, h4⟩ := dsScan_scan hpos hrk fixB f (t.length + 1) p 0 (Or.inr hpin) (by omega)
          (fun _ => by omega) (fun k _ => Nat.zero_le k)
        have hhead : PairOK t fixB f (this, (dsScan t fixB f (t.length + 1) p 0).1) :=
          ⟨hin, p, hp, Or.inr ⟨by omega, j, h1, fun k hk => by have := h4 k hk; omega⟩⟩
        by_cases hstop : (dsScan t fixB f (t.length + 1) p 0).2 = true
        · rw [if_pos hstop]
          intro e he
          rw [List.mem_singleton.mp he]; exact hhead
        · rw [if_neg hstop]
          intro e he
          rcases List.mem_cons.mp he with rfl | he
          · exact hhead
          · exact ih _ e he

/-! ### phases -/

inductive Phase (t : Table) (fixB : Int → Bool) (f : Option Nat) : Int → Nat → Prop
  | fix {e : Int} : e ∈ ids t → fixB e = true → Phase t fixB f e 0
  | skip {v p : Int} {r : Nat} : Phase t fixB f v r → (∀ k, f = some k → r < k) → parentOf t v = some p → 0 ≤ p →
      fixB p = false → Phase t fixB f p (r + 1)
  | jump {v p : Int} {k : Nat} : Phase t fixB f v k → f = some k → parentOf t v = some p → 0 ≤ p →
      Phase t fixB f p 0

theorem Phase.of_fix {t : Table} {fixB : Int → Bool} {f : Option Nat} {v : Int} {r : Nat}
    (h : Phase t fixB f v r) (hfix : fixB v = true) : r = 0 := by
  cases h with
  | fix _ _ => rfl
  | skip _ _ _ _ hnf => rw [hfix] at hnf; cases hnf
  | jump _ _ _ _ => rfl

/-- Along a scan the phase counts the passed-over nodes. -/
theorem Scan.phase {t : Table} {fixB : Int → Bool} {f : Option Nat} {p q : Int} {j : Nat}
    (h : Scan t fixB p j q) : ∀ (v : Int) (r : Nat), Phase t fixB f v r → parentOf t v = some p →
      (∀ k, f = some k → r + j ≤ k) → ∃ v', parentOf t v' = some q ∧ Phase t fixB f v' (r + j) := by
  induction h with
  | here p => intro v r hv hp _; exact ⟨v, hp, hv⟩
  | @skip p p' q j h0 hnf hpp _ ih =>
    intro v r hv hp hb
    have hph : Phase t fixB f p (r + 1) := .skip hv (fun k hk => by have := hb k hk; omega) hp h0 hnf
    obtain ⟨v', h1, h2⟩ := ih p (r + 1) hph hpp (fun k hk => by have := hb k hk; omega)
    exact ⟨v', h1, by rw [show r + (j + 1) = r + 1 + j by omega]; exact h2⟩

/-- Every node that gets an assignment in a walk started at a phase-0 node has phase 0. -/
theorem dsWalk_phase {t : Table} {rk : Int → Nat} (hpos : ∀ n ∈ t, 0 ≤ n.id)
    (hrk : ∀ n ∈ t, n.parent < 0 ∨ (n.parent ∈ ids t ∧ rk n.parent < rk n.id))
    (hle : ∀ i, rk i ≤ t.length) (fixB : Int → Bool) (f : Option Nat) (fuel : Nat) (this : Int)
    (hph : this ∈ ids t → Phase t fixB f this 0) :
    ∀ e ∈ dsWalk t fixB f fuel this, Phase t fixB f e.1 0 := by
  induction fuel generalizing this with
  | zero => intro e he; simp [dsWalk] at he
  | succ g ih =>
    rw [dsWalk_succ]
    cases hp : parentOf t this with
    | none => intro e he; simp at he
    | some p =>
      obtain ⟨hin, hstep⟩ := parent_step hrk hp
      have hthis := hph hin
      simp only
      by_cases hneg : p < 0
      · rw [if_pos hneg]
        intro e he
        rw [List.mem_singleton.mp he]; exact hthis
      · rw [if_neg hneg]
        have hpin' : p ∈ ids t ∧ rk p < rk this := by
          rcases hstep with h | h
          · exact absurd h hneg
          · exact h
        have hpin := hpin'.1
        have hlp := hle this
        obtain ⟨j, h1, _, h3, h4⟩ := dsScan_scan hpos hrk fixB f (t.length + 1) p 0 (Or.inr hpin) (by omega)
          (fun _ => by omega) (fun k _ => Nat.zero_le k)
        by_cases hstop : (dsScan t fixB f (t.length + 1) p 0).2 = true
        · rw [if_pos hstop]
          intro e he
          rw [List.mem_singleton.mp he]; exact hthis
        · rw [if_neg hstop]
          intro e he
          rcases List.mem_cons.mp he with rfl | he
          · exact hthis
          · refine ih _ (fun hmem => ?_) e he
            have hf : f = some (0 + j) := h3 (by simpa using hstop)
            obtain ⟨v', hv1, hv2⟩ := h1.phase this 0 hthis hp (fun k hk => by have := h4 k hk; omega)
            exact .jump hv2 hf hv1 (ids_nonneg hpos hmem)

theorem dsPairs_phase {t : Table} {rk : Int → Nat} (hpos : ∀ n ∈ t, 0 ≤ n.id)
    (hrk : ∀ n ∈ t, n.parent < 0 ∨ (n.parent ∈ ids t ∧ rk n.parent < rk n.id))
    (hle : ∀ i, rk i ≤ t.length) (f : Option Nat) (pres : List Int) :
    ∀ e ∈ dsPairs t f pres, Phase t (dsFix t pres) f e.1 0 := by
  intro e he
  unfold dsPairs at he
  obtain ⟨x, hx, hex⟩ := List.mem_flatMap.mp he
  obtain ⟨hxin, hxfix⟩ := List.mem_filter.mp hx
  exact dsWalk_phase hpos hrk hle _ f _ x (fun _ => .fix hxin hxfix) e hex

theorem dsPairs_pairs {t : Table} {rk : Int → Nat} (hpos : ∀ n ∈ t, 0 ≤ n.id)
    (hrk : ∀ n ∈ t, n.parent < 0 ∨ (n.parent ∈ ids t ∧ rk n.parent < rk n.id))
    (hle : ∀ i, rk i ≤ t.length) (f : Option Nat) (pres : List Int) :
    ∀ e ∈ dsPairs t f pres, PairOK t (dsFix t pres) f e := by
  intro e he
  unfold dsPairs at he
  obtain ⟨x, _, hex⟩ := List.mem_flatMap.mp he
  exact dsWalk_pairs hpos hrk hle _ f _ x e hex

/-- **Uniqueness of the phase** of a non-fix node, when non-fix nodes have at most one child. -/
theorem Phase.unique {t : Table} {fixB : Int → Bool} {f : Option Nat}
    (hone : ∀ i, 0 ≤ i → fixB i = false → childCount t i ≤ 1)
    {u : Int} {r : Nat} (h : Phase t fixB f u r) : ∀ r', fixB u = false → Phase t fixB f u r' → r = r' := by
  induction h with
  | fix _ hfx => intro r' hnf _; rw [hfx] at hnf; cases hnf
  | @skip v p r hv hlt hvp h0 _ ih =>
    intro r' hnf h'
    obtain ⟨nv, _, hnv, hnvid, hnvp⟩ := parentOf_some hvp
    -- the unique child of `p`
    have hchild : ∀ v', parentOf t v' = some p → v' = v := by
      intro v' hv'
      obtain ⟨nv', _, hnv', hnvid', hnvp'⟩ := parentOf_some hv'
      have := child_unique (hone p h0 hnf) hnv' hnv hnvp' hnvp
      rw [← hnvid', ← hnvid, this]
    cases h' with
    | fix _ hfx => rw [hfx] at hnf; cases hnf
    | @skip v' _ r'' hv' hlt' hvp' _ _ =>
      have e := hchild v' hvp'
      subst e
      by_cases hfv : fixB v' = true
      · rw [hv.of_fix hfv, hv'.of_fix hfv]
      · have := ih r'' (by simpa using hfv) hv'
        omega
    | @jump v' _ k hv' hf hvp' _ =>
      have e := hchild v' hvp'
      subst e
      have hk := hlt k hf
      by_cases hfv : fixB v' = true
      · have := hv'.of_fix hfv; have := hv.of_fix hfv; omega
      · have := ih k (by simpa using hfv) hv'; omega
  | @jump v p k hv hf hvp h0 ih =>
    intro r' hnf h'
    obtain ⟨nv, _, hnv, hnvid, hnvp⟩ := parentOf_some hvp
    have hchild : ∀ v', parentOf t v' = some p → v' = v := by
      intro v' hv'
      obtain ⟨nv', _, hnv', hnvid', hnvp'⟩ := parentOf_some hv'
      have := child_unique (hone p h0 hnf) hnv' hnv hnvp' hnvp
      rw [← hnvid', ← hnvid, this]
    cases h' with
    | fix _ _ => rfl
    | @skip v' _ r'' hv' hlt' hvp' _ _ =>
      have e := hchild v' hvp'
      subst e
      have hk := hlt' k hf
      by_cases hfv : fixB v' = true
      · have := hv'.of_fix hfv; have := hv.of_fix hfv; omega
      · have := ih r'' (by simpa using hfv) hv'; omega
    | jump _ _ _ _ => rfl

end Navis.Forest
