import NavisModel.Proofs.ResampleNormedLemmas
import NavisModel.Proofs.ResampleRealLemmas
import Mathlib.Analysis.InnerProductSpace.PiL2
/-! C13: the real-valued resampling model of `ResampleNormedLemmas` (`polyAtR`, any real normed space) restricted to
rational data in Euclidean 3-space **is** the executable model `Resample.polyAt` the harness compares with navis:
casting commutes with interpolation, with the sample list and with the chain length. -/
namespace Navis.ResampleR
open Navis.Resample

/-- A model point (rational coordinates) as a point of Euclidean 3-space. -/
noncomputable def toE (p : Pt) : EuclideanSpace ℝ (Fin 3) := !₂[(p.x : ℝ), (p.y : ℝ), (p.z : ℝ)]

theorem toE_lerp (a b : Pt) (τ : Rat) : toE (lerpPt a b τ) = lerpR (toE a) (toE b) (τ : ℝ) := by
  unfold toE lerpR lerpPt
  ext i
  fin_cases i <;> simp

theorem toE_default : toE default = 0 := by
  unfold toE
  ext i
  fin_cases i <;> simp <;> rfl

noncomputable def castK (k : Rat × Pt) : ℝ × EuclideanSpace ℝ (Fin 3) := ((k.1 : ℝ), toE k.2)

theorem polyAtR_cast : ∀ (ks : List (Rat × Pt)) (s : Rat), polyAtR (ks.map castK) (s : ℝ) = toE (polyAt ks s)
  | [], s => by simp [polyAtR, polyAt, toE_default]
  | [k], s => by simp [polyAtR, polyAt, castK]
  | k0 :: k1 :: rest, s => by
    rw [polyAt_cons_cons]
    simp only [List.map_cons]
    rw [polyAtR_cons_cons]
    have ih := polyAtR_cast (k1 :: rest) s
    simp only [List.map_cons] at ih
    simp only [castK, Rat.cast_le]
    by_cases h1 : k1.1 ≤ s
    · rw [if_pos h1, if_pos h1]; exact ih
    · rw [if_neg h1, if_neg h1]
      by_cases h2 : s ≤ k0.1
      · rw [if_pos h2, if_pos h2]
      · rw [if_neg h2, if_neg h2, toE_lerp]
        push_cast
        rfl

theorem dist_toE (a b : Pt) : dist (toE a) (toE b) = Real.sqrt ((sqd a b : Rat) : ℝ) := by
  unfold toE sqd
  rw [EuclideanSpace.dist_eq]
  congr 1
  simp only [Fin.sum_univ_three, Real.dist_eq, sq_abs]
  simp
  ring

theorem chainLenR_map_toE : ∀ l : List Pt, chainLenR (l.map toE) = chainLen l
  | [] => rfl
  | [_] => rfl
  | a :: b :: rest => by
    have ih := chainLenR_map_toE (b :: rest)
    simp only [List.map_cons] at ih ⊢
    rw [chainLenR, chainLen, dist_toE, ih]

/-- The sampled points of the real model on cast knots are the cast sampled points of the executable model. -/
theorem samplesR_cast (ks : List (Rat × Pt)) (total : Rat) (k : ℕ) :
    samplesR (ks.map castK) (total : ℝ) k = (samples ks total k).map toE := by
  unfold samplesR samples
  rw [List.map_map]
  apply List.map_congr_left
  intro j _
  simp only [Function.comp]
  rw [← polyAtR_cast]
  congr 1
  unfold samplePos
  push_cast
  rfl

end Navis.ResampleR
