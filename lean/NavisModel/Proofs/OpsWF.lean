import NavisModel.Proofs.RerootLemmas
import NavisModel.Proofs.WfB
/-!
`remove_nodes`, `downsample` and `insert_nodes` preserve well-formedness (rank form) — core Lean only.
-/
namespace Navis.Forest

/-! ### generic helpers -/

theorem parentOf_some {t : Table} {i p : Int} (h : parentOf t i = some p) :
    ∃ n, find? t i = some n ∧ n ∈ t ∧ n.id = i ∧ n.parent = p := by
  unfold parentOf at h
  cases hf : find? t i with
  | none => rw [hf] at h; simp at h
  | some n =>
    rw [hf] at h
    simp only [Option.map_some, Option.some.injEq] at h
    exact ⟨n, rfl, (find?_some hf).1, (find?_some hf).2, h⟩

theorem parentOf_of_mem {t : Table} (hnd : (ids t).Nodup) {n : Node} (h : n ∈ t) :
    parentOf t n.id = some n.parent := by
  unfold parentOf; rw [find?_of_mem hnd h]; rfl

theorem parentOf_none_of_neg {t : Table} (hpos : ∀ n ∈ t, 0 ≤ n.id) {i : Int} (hi : i < 0) :
    parentOf t i = none := by
  cases h : parentOf t i with
  | none => rfl
  | some p =>
    obtain ⟨n, _, hn, hid, _⟩ := parentOf_some h
    have := hpos n hn
    omega

/-- A rank that is bounded by the table length (depth of the node). -/
theorem WF_rank_le {t : Table} (hw : WF t) :
    ∃ rk : Int → Nat, (∀ n ∈ t, n.parent < 0 ∨ (n.parent ∈ ids t ∧ rk n.parent < rk n.id)) ∧
      ∀ i, rk i ≤ t.length := by
  have h := wfB_complete hw
  unfold wfB at h
  simp only [Bool.and_eq_true, List.all_eq_true, decide_eq_true_eq, Bool.or_eq_true, List.contains_eq_mem] at h
  obtain ⟨⟨⟨_, _⟩, h3⟩, h4⟩ := h
  have hnd := hw.1
  refine ⟨fun i => (rootPath t i).length, ?_, fun i => pathToRoot_length_le hw _ i⟩
  intro n hn
  by_cases hp : n.parent < 0
  · exact Or.inl hp
  · right
    have hpin : n.parent ∈ ids t := by
      rcases h3 n hn with h | h
      · exact absurd h hp
      · exact h
    refine ⟨hpin, ?_⟩
    have hf := find?_of_mem hnd hn
    have hr := reachesRoot_parent hf hp (h4 n hn)
    have e1 : rootPath t n.id = n.id :: pathToRoot t t.length n.parent := by
      unfold rootPath
      rw [pathToRoot, hf]; simp [hp]
    have e2 : rootPath t n.parent = pathToRoot t t.length n.parent := by
      unfold rootPath; exact pathToRoot_fuel_succ t _ _ hr
    show (rootPath t n.parent).length < (rootPath t n.id).length
    rw [e1, e2]; simp

/-- Parent step in a ranked table. -/
theorem parent_step {t : Table} {rk : Int → Nat}
    (hrk : ∀ n ∈ t, n.parent < 0 ∨ (n.parent ∈ ids t ∧ rk n.parent < rk n.id))
    {i p : Int} (h : parentOf t i = some p) : i ∈ ids t ∧ (p < 0 ∨ (p ∈ ids t ∧ rk p < rk i)) := by
  obtain ⟨n, _, hn, hid, hp⟩ := parentOf_some h
  refine ⟨hid ▸ mem_ids_of_mem hn, ?_⟩
  rw [← hid, ← hp]; exact hrk n hn

theorem ids_nonneg {t : Table} (hpos : ∀ n ∈ t, 0 ≤ n.id) {i : Int} (hi : i ∈ ids t) : 0 ≤ i := by
  obtain ⟨a, ha, rfl⟩ := mem_ids.mp hi
  exact hpos a ha

theorem lookupD_mem {m : List (Int × Int)} {k : Int} (d : Int) (hk : k ∈ m.map Prod.fst) :
    ∃ e ∈ m, e.1 = k ∧ lookupD m k d = e.2 := by
  unfold lookupD
  cases hf : m.find? (fun e => e.1 == k) with
  | none =>
    rw [List.find?_eq_none] at hf
    obtain ⟨e, he, hek⟩ := List.mem_map.mp hk
    exact absurd (by simpa using hek) (hf e he)
  | some e =>
    exact ⟨e, List.mem_of_find?_eq_some hf, by simpa using List.find?_some hf, rfl⟩

/-! ### remove_nodes -/

/-- `FirstKept t S q p`: walking `q, parent q, …`, `p` is the first id that is negative or not in `S`. -/
inductive FirstKept (t : Table) (S : List Int) : Int → Int → Prop
  | stop {q : Int} : (q < 0 ∨ q ∉ S) → FirstKept t S q q
  | step {q q' p : Int} : 0 ≤ q → q ∈ S → parentOf t q = some q' → FirstKept t S q' p → FirstKept t S q p

/-- `p` is the nearest proper ancestor of `c` outside `S` (or a negative root marker). -/
def NKA (t : Table) (S : List Int) (c p : Int) : Prop := ∃ q, parentOf t c = some q ∧ FirstKept t S q p

theorem FirstKept.notin {t : Table} {S : List Int} {q p : Int} (h : FirstKept t S q p) : p < 0 ∨ p ∉ S := by
  induction h with
  | stop h => exact h
  | step _ _ _ _ ih => exact ih

theorem FirstKept.congr {t : Table} {S S' : List Int} (hS : ∀ x, x ∈ S ↔ x ∈ S') {q p : Int}
    (h : FirstKept t S q p) : FirstKept t S' q p := by
  induction h with
  | stop h => exact .stop (by rw [← hS]; exact h)
  | step h0 hq hp _ ih => exact .step h0 ((hS _).mp hq) hp ih

theorem FirstKept.of_neg {t : Table} {S : List Int} {q p : Int} (h : FirstKept t S q p) (hq : q < 0) : p = q := by
  cases h with
  | stop _ => rfl
  | step h0 _ _ _ => omega

theorem FirstKept.rank {t : Table} {rk : Int → Nat}
    (hrk : ∀ n ∈ t, n.parent < 0 ∨ (n.parent ∈ ids t ∧ rk n.parent < rk n.id))
    {S : List Int} {q p : Int} (h : FirstKept t S q p) (hq : q ∈ ids t) :
    p < 0 ∨ (p ∈ ids t ∧ rk p ≤ rk q) := by
  induction h with
  | stop _ => exact Or.inr ⟨hq, Nat.le_refl _⟩
  | step h0 _ hp hfk ih =>
    obtain ⟨_, hstep⟩ := parent_step hrk hp
    rcases hstep with hneg | ⟨hin, hlt⟩
    · left; rw [hfk.of_neg hneg]; exact hneg
    · rcases ih hin with h | h
      · exact Or.inl h
      · exact Or.inr ⟨h.1, by omega⟩

theorem NKA.rank {t : Table} {rk : Int → Nat}
    (hrk : ∀ n ∈ t, n.parent < 0 ∨ (n.parent ∈ ids t ∧ rk n.parent < rk n.id))
    {S : List Int} {c p : Int} (h : NKA t S c p) : c ∈ ids t ∧ (p < 0 ∨ (p ∈ ids t ∧ rk p < rk c)) := by
  obtain ⟨q, hq, hfk⟩ := h
  obtain ⟨hc, hstep⟩ := parent_step hrk hq
  refine ⟨hc, ?_⟩
  rcases hstep with hneg | ⟨hin, hlt⟩
  · left; rw [hfk.of_neg hneg]; exact hneg
  · rcases hfk.rank hrk hin with h | h
    · exact Or.inl h
    · exact Or.inr ⟨h.1, by omega⟩

theorem FirstKept.cons_ne {t : Table} {S : List Int} {q p n : Int} (h : FirstKept t S q p) (hne : p ≠ n) :
    FirstKept t (n :: S) q p := by
  induction h with
  | stop h =>
    refine .stop ?_
    rcases h with h | h
    · exact Or.inl h
    · right; intro hm
      rcases List.mem_cons.mp hm with h1 | h1
      · exact hne h1
      · exact h h1
  | step h0 hq hp _ ih => exact .step h0 (List.mem_cons_of_mem _ hq) hp (ih hne)

theorem FirstKept.cons_eq {t : Table} {S : List Int} {q n pn : Int} (h : FirstKept t S q n)
    (hn0 : 0 ≤ n) (hn : NKA t S n pn) (hne : pn ≠ n) : FirstKept t (n :: S) q pn := by
  generalize hx : n = x at h
  induction h with
  | stop _ =>
    subst hx
    obtain ⟨q', hq', hfk⟩ := hn
    exact .step hn0 (by simp) hq' (hfk.cons_ne hne)
  | step h0 hq hp _ ih => exact .step h0 (List.mem_cons_of_mem _ hq) hp (ih hx)

/-- Invariant of the `lop` dictionary after the nodes in `S` were processed. -/
def RmInv (t : Table) (S : List Int) (m : List (Int × Int)) : Prop :=
  m.map Prod.fst = ids t ∧ ∀ e ∈ m, NKA t S e.1 e.2

theorem RmInv_init {t : Table} (hnd : (ids t).Nodup) : RmInv t [] (t.map fun n => (n.id, n.parent)) := by
  refine ⟨by simp [ids, List.map_map, Function.comp_def], ?_⟩
  intro e he
  obtain ⟨n, hn, rfl⟩ := List.mem_map.mp he
  exact ⟨n.parent, parentOf_of_mem hnd hn, .stop (Or.inr (by simp))⟩

theorem RmInv_step {t : Table} (hw : WF t) {S : List Int} {m : List (Int × Int)} (hinv : RmInv t S m)
    {n : Int} (hn : n ∈ ids t) : RmInv t (n :: S) (removeOne m n) := by
  obtain ⟨hnd, hpos, rk, hrk⟩ := hw
  obtain ⟨hkeys, hent⟩ := hinv
  have hn0 : 0 ≤ n := by
    obtain ⟨a, ha, rfl⟩ := mem_ids.mp hn
    exact hpos a ha
  obtain ⟨e0, he0, he0k, hlk⟩ := lookupD_mem (m := m) (-1) (hkeys ▸ hn)
  have hpn : NKA t S n (lookupD m n (-1)) := by
    rw [hlk, ← he0k]; exact hent e0 he0
  have hne : lookupD m n (-1) ≠ n := by
    rcases (hpn.rank hrk).2 with h | ⟨_, h⟩
    · omega
    · intro he; rw [he] at h; exact Nat.lt_irrefl _ h
  unfold removeOne
  refine ⟨?_, ?_⟩
  · rw [← hkeys, List.map_map]
    apply List.map_congr_left
    intro e _
    simp only [Function.comp]
    split <;> rfl
  · intro e' he'
    obtain ⟨e, he, rfl⟩ := List.mem_map.mp he'
    obtain ⟨q, hq, hfk⟩ := hent e he
    by_cases h2 : e.2 = n
    · rw [if_pos h2]
      exact ⟨q, hq, (h2 ▸ hfk).cons_eq hn0 hpn hne⟩
    · rw [if_neg h2]
      exact ⟨q, hq, hfk.cons_ne h2⟩

theorem RmInv_foldl {t : Table} (hw : WF t) (ws : List Int) (hws : ∀ w ∈ ws, w ∈ ids t) {S : List Int}
    {m : List (Int × Int)} (hinv : RmInv t S m) : RmInv t (ws.reverse ++ S) (ws.foldl removeOne m) := by
  induction ws generalizing S m with
  | nil => simpa using hinv
  | cons w ws ih =>
    have := ih (fun x hx => hws x (List.mem_cons_of_mem _ hx)) (RmInv_step hw hinv (hws w (by simp)))
    simpa using this

theorem removeNodes_eq (t : Table) (which : List Int) :
    removeNodes t which =
      if which.all (fun w => (ids t).contains w) then
        classify ((t.filter fun n => !which.contains n.id).map fun n =>
          { n with parent := lookupD (which.foldl removeOne (t.map fun n => (n.id, n.parent))) n.id n.parent })
      else t := rfl

/-- Row-level description of `remove_nodes` (when the guard passes): kept rows are the rows outside
`which`, with id and coordinates unchanged and the parent rewired to the nearest kept ancestor. -/
theorem mem_removeNodes {t : Table} (hw : WF t) {which : List Int} (hg : ∀ w ∈ which, w ∈ ids t) {m : Node}
    (hm : m ∈ removeNodes t which) :
    ∃ n ∈ t, n.id ∉ which ∧ m.id = n.id ∧ m.x = n.x ∧ m.y = n.y ∧ m.z = n.z ∧ NKA t which n.id m.parent := by
  have hgB : which.all (fun w => (ids t).contains w) = true := by
    simpa [List.all_eq_true] using hg
  rw [removeNodes_eq, if_pos hgB] at hm
  obtain ⟨a, ha, rfl⟩ := mem_classify.mp hm
  obtain ⟨n, hn, rfl⟩ := List.mem_map.mp ha
  obtain ⟨hnt, hnw⟩ := List.mem_filter.mp hn
  have hinv := RmInv_foldl hw which hg (RmInv_init hw.1)
  obtain ⟨hkeys, hent⟩ := hinv
  obtain ⟨e, he, hek, hlk⟩ := lookupD_mem (m := which.foldl removeOne (t.map fun n => (n.id, n.parent)))
    n.parent (hkeys ▸ mem_ids_of_mem hnt)
  refine ⟨n, hnt, by simpa using hnw, rfl, rfl, rfl, rfl, ?_⟩
  obtain ⟨q, hq, hfk⟩ := hent e he
  simp only
  rw [hlk]
  exact ⟨q, hek ▸ hq, hfk.congr (by simp)⟩

theorem ids_removeNodes {t : Table} {which : List Int} (hg : ∀ w ∈ which, w ∈ ids t) :
    ids (removeNodes t which) = (ids t).filter (fun i => !which.contains i) := by
  have hgB : which.all (fun w => (ids t).contains w) = true := by
    simpa [List.all_eq_true] using hg
  rw [removeNodes_eq, if_pos hgB, ids_classify, ← ids_filter t (fun i => !which.contains i)]
  simp [ids, List.map_map, Function.comp_def]

/-- **`remove_nodes` preserves well-formedness**, for every table and every list of nodes. -/
theorem WF_removeNodes {t : Table} (hw : WF t) (which : List Int) : WF (removeNodes t which) := by
  by_cases hg : ∀ w ∈ which, w ∈ ids t
  · obtain ⟨hnd, hpos, rk, hrk⟩ := hw
    refine ⟨?_, ?_, rk, ?_⟩
    · rw [ids_removeNodes hg]; exact hnd.filter _
    · intro m hm
      obtain ⟨n, hn, _, hid, _⟩ := mem_removeNodes ⟨hnd, hpos, rk, hrk⟩ hg hm
      rw [hid]; exact hpos n hn
    · intro m hm
      obtain ⟨n, hn, _, hid, _, _, _, hnka⟩ := mem_removeNodes ⟨hnd, hpos, rk, hrk⟩ hg hm
      have hnot : m.parent < 0 ∨ m.parent ∉ which := by
        obtain ⟨q, _, hfk⟩ := hnka
        exact hfk.notin
      rcases (hnka.rank hrk).2 with h | ⟨hin, hlt⟩
      · exact Or.inl h
      · by_cases hneg : m.parent < 0
        · exact Or.inl hneg
        · right
          refine ⟨?_, hid ▸ hlt⟩
          rw [ids_removeNodes hg, List.mem_filter]
          refine ⟨hin, ?_⟩
          rcases hnot with h | h
          · exact absurd h hneg
          · simpa using h
  · have hgB : ¬ which.all (fun w => (ids t).contains w) = true := by
      simpa [List.all_eq_true] using hg
    rw [removeNodes_eq, if_neg hgB]; exact hw

/-! ### `remove_nodes`: the new parent is the nearest kept ancestor on the old root path -/

theorem pathToRoot_notin {t : Table} {q : Int} (hq : q ∉ ids t) (f : Nat) : pathToRoot t f q = [] := by
  cases f with
  | zero => rfl
  | succ g =>
    rw [pathToRoot]
    cases hf : find? t q with
    | none => rfl
    | some n => exact absurd (mem_ids.mpr ⟨n, (find?_some hf).1, (find?_some hf).2⟩) hq

theorem FirstKept.pathFind {t : Table} (hpos : ∀ n ∈ t, 0 ≤ n.id) {rk : Int → Nat}
    (hrk : ∀ n ∈ t, n.parent < 0 ∨ (n.parent ∈ ids t ∧ rk n.parent < rk n.id))
    {S : List Int} {q p : Int} (h : FirstKept t S q p) (f : Nat) (hq : q < 0 ∨ q ∈ ids t)
    (hf : q ∈ ids t → rk q < f) :
    (pathToRoot t f q).find? (fun a => !S.contains a) = some p ∨
      ((pathToRoot t f q).find? (fun a => !S.contains a) = none ∧ p < 0) := by
  induction h generalizing f with
  | @stop q hstop =>
    by_cases hin : q ∈ ids t
    · have hq0 : 0 ≤ q := by
        obtain ⟨a, ha, rfl⟩ := mem_ids.mp hin
        exact hpos a ha
      have hnS : q ∉ S := by
        rcases hstop with h | h
        · omega
        · exact h
      have hc : (!S.contains q) = true := by simpa using hnS
      obtain ⟨g, rfl⟩ : ∃ g, f = g + 1 := ⟨f - 1, by have := hf hin; omega⟩
      left
      rw [pathToRoot]
      cases hfd : find? t q with
      | none => exact absurd hin (find?_none hfd)
      | some n =>
        simp only
        split <;> simp [hnS]
    · right
      rw [pathToRoot_notin hin]
      rcases hq with h | h
      · exact ⟨rfl, h⟩
      · exact absurd h hin
  | @step q q' p h0 hqS hp hfk ih =>
    obtain ⟨hin, hstep⟩ := parent_step hrk hp
    obtain ⟨n, hfd, _, _, hnp⟩ := parentOf_some hp
    obtain ⟨g, rfl⟩ : ∃ g, f = g + 1 := ⟨f - 1, by have := hf hin; omega⟩
    have hc : (!S.contains q) = false := by simpa using hqS
    rw [pathToRoot, hfd]
    simp only [hnp]
    by_cases hneg : q' < 0
    · right
      rw [if_pos hneg]
      refine ⟨by simp [hqS], ?_⟩
      rw [hfk.of_neg hneg]; exact hneg
    · rw [if_neg hneg, List.find?_cons, hc]
      have hq' : q' ∈ ids t ∧ rk q' < rk q := by
        rcases hstep with h | h
        · exact absurd h hneg
        · exact h
      exact ih g (Or.inr hq'.1) (fun _ => by have := hf hin; omega)

/-- In a well-formed forest, `NKA t S c p` says: `p` is the first node after `c` on `c`'s root path
that is not in `S`; if there is none, `p` is negative (a root marker). -/
theorem NKA.rootPath {t : Table} (hw : WF t) {S : List Int} {c p : Int} (h : NKA t S c p) :
    (rootPath t c).tail.find? (fun a => !S.contains a) = some p ∨
      ((rootPath t c).tail.find? (fun a => !S.contains a) = none ∧ p < 0) := by
  obtain ⟨rk, hrk, hle⟩ := WF_rank_le hw
  obtain ⟨q, hq, hfk⟩ := h
  obtain ⟨hin, hstep⟩ := parent_step hrk hq
  obtain ⟨n, hfd, _, _, hnp⟩ := parentOf_some hq
  unfold Navis.Forest.rootPath
  rw [pathToRoot, hfd]
  simp only [hnp]
  by_cases hneg : q < 0
  · right
    rw [if_pos hneg]
    refine ⟨by simp, ?_⟩
    rw [hfk.of_neg hneg]; exact hneg
  · rw [if_neg hneg, List.tail_cons]
    have hq' : q ∈ ids t ∧ rk q < rk c := by
      rcases hstep with h | h
      · exact absurd h hneg
      · exact h
    exact hfk.pathFind hw.2.1 hrk _ (Or.inr hq'.1) (fun _ => by have := hle c; omega)

/-- **`remove_nodes` rewires every kept node to its nearest kept ancestor**: the new parent is the
first node after the node itself on its *old* root path that is not removed; when every ancestor is
removed the node becomes a root (negative parent). -/
theorem removeNodes_parent_is_nearest_kept_ancestor {t : Table} (hw : WF t) {which : List Int}
    (hg : ∀ w ∈ which, w ∈ ids t) {m : Node} (hm : m ∈ removeNodes t which) :
    m.id ∈ ids t ∧ m.id ∉ which ∧
    ((rootPath t m.id).tail.find? (fun a => !which.contains a) = some m.parent ∨
      ((rootPath t m.id).tail.find? (fun a => !which.contains a) = none ∧ m.parent < 0)) := by
  obtain ⟨n, hn, hnw, hid, _, _, _, hnka⟩ := mem_removeNodes hw hg hm
  rw [hid]
  exact ⟨mem_ids_of_mem hn, hnw, hnka.rootPath hw⟩

/-! ### downsample -/

/-- Fix points of `downsample`: non-slab (by current label) or preserved. -/
def dsFix (t : Table) (pres : List Int) (i : Int) : Bool :=
  match find? t i with
  | some n => n.label != .slab || pres.contains i
  | none => false

/-- The `new_parents` dictionary as a list of assignments, in the order navis records them. -/
def dsPairs (t : Table) (f : Option Nat) (pres : List Int) : List (Int × Int) :=
  ((ids t).filter (dsFix t pres)).flatMap fun e => dsWalk t (dsFix t pres) f (t.length + 1) e

theorem downsample_eq (t : Table) (f : Option Nat) (pres : List Int) :
    downsample t f pres =
      if t.length ≤ 1 then t else
        classify ((t.filter fun n => (dsPairs t f pres).any fun e => e.1 == n.id).map fun n =>
          { n with parent := lookupD (dsPairs t f pres).reverse n.id n.parent }) := rfl

/-- `i < factor` failed (`factor = inf` never fails). -/
def dsLimit (f : Option Nat) (i : Nat) : Bool :=
  match f with
  | some k => decide (k ≤ i)
  | none => false

theorem dsScan_succ (t : Table) (fixB : Int → Bool) (f : Option Nat) (fuel : Nat) (p : Int) (i : Nat) :
    dsScan t fixB f (fuel + 1) p i =
      if dsLimit f i then (p, false)
      else if p < 0 || fixB p then (p, true)
      else dsScan t fixB f fuel ((parentOf t p).getD (-1)) (i + 1) := rfl

theorem dsWalk_succ (t : Table) (fixB : Int → Bool) (f : Option Nat) (fuel : Nat) (this : Int) :
    dsWalk t fixB f (fuel + 1) this =
      match parentOf t this with
      | none => []
      | some p =>
        if p < 0 then [(this, -1)] else
        if (dsScan t fixB f (t.length + 1) p 0).2 then [(this, (dsScan t fixB f (t.length + 1) p 0).1)]
        else (this, (dsScan t fixB f (t.length + 1) p 0).1) ::
          dsWalk t fixB f fuel (dsScan t fixB f (t.length + 1) p 0).1 := rfl

theorem parentOf_isSome_of_mem {t : Table} {i : Int} (hi : i ∈ ids t) : ∃ p, parentOf t i = some p := by
  unfold parentOf
  cases hf : find? t i with
  | none => exact absurd hi (find?_none hf)
  | some n => exact ⟨n.parent, rfl⟩

/-- The inner scan returns an ancestor-or-self of its start (or a negative marker), and when it
reports `stop` the result is a fix point or negative — provided the fuel covers the rank. -/
theorem dsScan_spec {t : Table} {rk : Int → Nat} (hpos : ∀ n ∈ t, 0 ≤ n.id)
    (hrk : ∀ n ∈ t, n.parent < 0 ∨ (n.parent ∈ ids t ∧ rk n.parent < rk n.id))
    (fixB : Int → Bool) (f : Option Nat) (fuel : Nat) (p : Int) (i : Nat)
    (hp : p < 0 ∨ p ∈ ids t) (hf0 : 1 ≤ fuel) (hf : p ∈ ids t → rk p + 2 ≤ fuel) :
    ((dsScan t fixB f fuel p i).1 < 0 ∨
      (p ∈ ids t ∧ (dsScan t fixB f fuel p i).1 ∈ ids t ∧ rk (dsScan t fixB f fuel p i).1 ≤ rk p)) ∧
    ((dsScan t fixB f fuel p i).2 = true →
      (dsScan t fixB f fuel p i).1 < 0 ∨ fixB (dsScan t fixB f fuel p i).1 = true) := by
  induction fuel generalizing p i with
  | zero => omega
  | succ g ih =>
    have hself : p < 0 ∨ (p ∈ ids t ∧ p ∈ ids t ∧ rk p ≤ rk p) := by
      rcases hp with h | h
      · exact Or.inl h
      · exact Or.inr ⟨h, h, Nat.le_refl _⟩
    rw [dsScan_succ]
    by_cases hc1 : dsLimit f i = true
    · rw [if_pos hc1]
      exact ⟨hself, by simp⟩
    · rw [if_neg hc1]
      by_cases hc : (decide (p < 0) || fixB p) = true
      · rw [if_pos hc]
        refine ⟨hself, fun _ => ?_⟩
        simpa using hc
      · rw [if_neg hc]
        have hc' : ¬ p < 0 ∧ fixB p = false := by simpa using hc
        have hin : p ∈ ids t := by
          rcases hp with h | h
          · exact absurd h hc'.1
          · exact h
        obtain ⟨p', hp'⟩ := parentOf_isSome_of_mem hin
        obtain ⟨_, hstep⟩ := parent_step hrk hp'
        rw [hp']
        simp only [Option.getD_some]
        have hfp := hf hin
        have := ih p' (i + 1) (hstep.imp id (·.1)) (by omega)
          (fun hm => by have := ids_nonneg hpos hm
                        rcases hstep with h | h
                        · omega
                        · omega)
        refine ⟨?_, this.2⟩
        rcases this.1 with h | ⟨h1, h2, h3⟩
        · exact Or.inl h
        · have := ids_nonneg hpos h1
          rcases hstep with h | h
          · omega
          · exact Or.inr ⟨hin, h2, by omega⟩

/-- What one outer walk records: every recorded parent is negative, or a strictly lower-ranked node
of the table that is a fix point or itself gets a record in the same walk. -/
def DsOK (t : Table) (rk : Int → Nat) (fixB : Int → Bool) (P : List (Int × Int)) : Prop :=
  ∀ e ∈ P, e.1 ∈ ids t ∧
    (e.2 < 0 ∨ (e.2 ∈ ids t ∧ rk e.2 < rk e.1 ∧ (fixB e.2 = true ∨ ∃ e' ∈ P, e'.1 = e.2)))

theorem DsOK.cons {t : Table} {rk : Int → Nat} {fixB : Int → Bool} {P : List (Int × Int)} {e : Int × Int}
    (hP : DsOK t rk fixB P)
    (he : e.1 ∈ ids t ∧
      (e.2 < 0 ∨ (e.2 ∈ ids t ∧ rk e.2 < rk e.1 ∧ (fixB e.2 = true ∨ ∃ e' ∈ e :: P, e'.1 = e.2)))) :
    DsOK t rk fixB (e :: P) := by
  intro x hx
  rcases List.mem_cons.mp hx with rfl | hx
  · exact he
  · obtain ⟨h1, h2⟩ := hP x hx
    refine ⟨h1, h2.imp id fun ⟨a, b, c⟩ => ⟨a, b, c.imp id fun ⟨e', he', h⟩ => ⟨e', List.mem_cons_of_mem _ he', h⟩⟩⟩

theorem dsWalk_spec {t : Table} {rk : Int → Nat} (hpos : ∀ n ∈ t, 0 ≤ n.id)
    (hrk : ∀ n ∈ t, n.parent < 0 ∨ (n.parent ∈ ids t ∧ rk n.parent < rk n.id))
    (hle : ∀ i, rk i ≤ t.length)
    (fixB : Int → Bool) (f : Option Nat) (fuel : Nat) (this : Int) (hf : this ∈ ids t → rk this < fuel) :
    DsOK t rk fixB (dsWalk t fixB f fuel this) ∧
      (this ∈ ids t → ∃ e ∈ dsWalk t fixB f fuel this, e.1 = this) := by
  induction fuel generalizing this with
  | zero =>
    refine ⟨fun e he => by simp [dsWalk] at he, fun h => ?_⟩
    have := hf h; omega
  | succ g ih =>
    rw [dsWalk_succ]
    cases hp : parentOf t this with
    | none =>
      refine ⟨fun e he => by simp at he, fun h => ?_⟩
      obtain ⟨p, hp'⟩ := parentOf_isSome_of_mem h
      rw [hp] at hp'; simp at hp'
    | some p =>
      obtain ⟨hin, hstep⟩ := parent_step hrk hp
      simp only
      by_cases hneg : p < 0
      · rw [if_pos hneg]
        refine ⟨?_, fun _ => ⟨_, List.mem_singleton.mpr rfl, rfl⟩⟩
        intro e he
        rw [List.mem_singleton.mp he]
        exact ⟨hin, Or.inl (by show (-1 : Int) < 0; omega)⟩
      · rw [if_neg hneg]
        have hpin : p ∈ ids t ∧ rk p < rk this := by
          rcases hstep with h | h
          · exact absurd h hneg
          · exact h
        have hthis := hle this
        have hs := dsScan_spec hpos hrk fixB f (t.length + 1) p 0 (Or.inr hpin.1) (by omega) (fun _ => by omega)
        generalize dsScan t fixB f (t.length + 1) p 0 = r at hs
        obtain ⟨hs1, hs2⟩ := hs
        have hr : r.1 < 0 ∨ (r.1 ∈ ids t ∧ rk r.1 < rk this) := by
          rcases hs1 with h | ⟨_, h2, h3⟩
          · exact Or.inl h
          · exact Or.inr ⟨h2, by omega⟩
        by_cases hstop : r.2 = true
        · rw [if_pos hstop]
          refine ⟨?_, fun _ => ⟨_, List.mem_singleton.mpr rfl, rfl⟩⟩
          intro e he
          rw [List.mem_singleton.mp he]
          refine ⟨hin, ?_⟩
          rcases hr with h | ⟨h1, h2⟩
          · exact Or.inl h
          · rcases hs2 hstop with h | h
            · exact Or.inl h
            · exact Or.inr ⟨h1, h2, Or.inl h⟩
        · rw [if_neg hstop]
          have hfuel : r.1 ∈ ids t → rk r.1 < g := by
            intro hmem
            have := hf hin
            have := ids_nonneg hpos hmem
            rcases hr with h | ⟨_, h2⟩
            · omega
            · omega
          obtain ⟨ih1, ih2⟩ := ih r.1 hfuel
          refine ⟨DsOK.cons ih1 ⟨hin, ?_⟩, fun _ => ⟨_, List.mem_cons_self, rfl⟩⟩
          rcases hr with h | ⟨h1, h2⟩
          · exact Or.inl h
          · obtain ⟨e', he', hee⟩ := ih2 h1
            exact Or.inr ⟨h1, h2, Or.inr ⟨e', List.mem_cons_of_mem _ he', hee⟩⟩

theorem dsFix_mem {t : Table} {pres : List Int} {i : Int} (h : dsFix t pres i = true) : i ∈ ids t := by
  unfold dsFix at h
  cases hf : find? t i with
  | none => rw [hf] at h; simp at h
  | some n => exact mem_ids.mpr ⟨n, (find?_some hf).1, (find?_some hf).2⟩

theorem dsFix_of_mem {t : Table} (hnd : (ids t).Nodup) {pres : List Int} {n : Node} (hn : n ∈ t)
    (h : n.label ≠ .slab ∨ n.id ∈ pres) : dsFix t pres n.id = true := by
  unfold dsFix
  rw [find?_of_mem hnd hn]
  rcases h with h | h
  · simp [h]
  · simp [h]

/-- All recorded assignments: the child is a table node, the new parent is negative or a strictly
lower-ranked table node that itself has an assignment (hence is kept). -/
theorem dsPairs_spec {t : Table} {rk : Int → Nat} (hpos : ∀ n ∈ t, 0 ≤ n.id)
    (hrk : ∀ n ∈ t, n.parent < 0 ∨ (n.parent ∈ ids t ∧ rk n.parent < rk n.id))
    (hle : ∀ i, rk i ≤ t.length) (f : Option Nat) (pres : List Int) :
    ∀ e ∈ dsPairs t f pres, e.1 ∈ ids t ∧
      (e.2 < 0 ∨ (e.2 ∈ ids t ∧ rk e.2 < rk e.1 ∧ ∃ e' ∈ dsPairs t f pres, e'.1 = e.2)) := by
  have hwalk : ∀ x, DsOK t rk (dsFix t pres) (dsWalk t (dsFix t pres) f (t.length + 1) x) ∧
      (x ∈ ids t → ∃ e ∈ dsWalk t (dsFix t pres) f (t.length + 1) x, e.1 = x) :=
    fun x => dsWalk_spec hpos hrk hle _ f _ x (fun _ => by have := hle x; omega)
  intro e he
  unfold dsPairs at he
  obtain ⟨x, hx, hex⟩ := List.mem_flatMap.mp he
  obtain ⟨h1, h2⟩ := (hwalk x).1 e hex
  refine ⟨h1, h2.imp id fun ⟨a, b, c⟩ => ⟨a, b, ?_⟩⟩
  rcases c with c | ⟨e', he', hee⟩
  · obtain ⟨e', he', hee⟩ := (hwalk e.2).2 a
    refine ⟨e', ?_, hee⟩
    unfold dsPairs
    exact List.mem_flatMap.mpr ⟨e.2, List.mem_filter.mpr ⟨a, c⟩, he'⟩
  · refine ⟨e', ?_, hee⟩
    unfold dsPairs
    exact List.mem_flatMap.mpr ⟨x, hx, he'⟩

theorem mem_any_fst {P : List (Int × Int)} {i : Int} : (P.any fun e => e.1 == i) = true ↔ ∃ e ∈ P, e.1 = i := by
  simp [List.any_eq_true]

/-- Row-level description of `downsample` on tables with more than one row. -/
theorem mem_downsample {t : Table} {f : Option Nat} {pres : List Int} (hlen : ¬ t.length ≤ 1) {m : Node}
    (hm : m ∈ downsample t f pres) :
    ∃ n ∈ t, m.id = n.id ∧ m.x = n.x ∧ m.y = n.y ∧ m.z = n.z ∧
      ∃ e ∈ dsPairs t f pres, e.1 = n.id ∧ m.parent = e.2 := by
  rw [downsample_eq, if_neg hlen] at hm
  obtain ⟨a, ha, rfl⟩ := mem_classify.mp hm
  obtain ⟨n, hn, rfl⟩ := List.mem_map.mp ha
  obtain ⟨hnt, hany⟩ := List.mem_filter.mp hn
  obtain ⟨e0, he0, he0k⟩ := mem_any_fst.mp hany
  have hk : n.id ∈ (dsPairs t f pres).reverse.map Prod.fst :=
    List.mem_map.mpr ⟨e0, List.mem_reverse.mpr he0, he0k⟩
  obtain ⟨e, he, hek, hlk⟩ := lookupD_mem n.parent hk
  exact ⟨n, hnt, rfl, rfl, rfl, rfl, e, List.mem_reverse.mp he, hek, hlk⟩

theorem ids_downsample {t : Table} {f : Option Nat} {pres : List Int} (hlen : ¬ t.length ≤ 1) :
    ids (downsample t f pres) = (ids t).filter (fun i => (dsPairs t f pres).any fun e => e.1 == i) := by
  rw [downsample_eq, if_neg hlen, ids_classify,
    ← ids_filter t (fun i => (dsPairs t f pres).any fun e => e.1 == i)]
  simp [ids, List.map_map, Function.comp_def]

/-- **`downsample` preserves well-formedness**, for every table, every factor (`none` = `inf`, and
even the degenerate `some 0`) and every list of preserved nodes. -/
theorem WF_downsample {t : Table} (hw : WF t) (f : Option Nat) (pres : List Int) : WF (downsample t f pres) := by
  by_cases hlen : t.length ≤ 1
  · rw [downsample_eq, if_pos hlen]; exact hw
  · obtain ⟨rk, hrk, hle⟩ := WF_rank_le hw
    obtain ⟨hnd, hpos, _⟩ := hw
    have hsp := dsPairs_spec hpos hrk hle f pres
    refine ⟨?_, ?_, rk, ?_⟩
    · rw [ids_downsample hlen]; exact hnd.filter _
    · intro m hm
      obtain ⟨n, hn, hid, _⟩ := mem_downsample hlen hm
      rw [hid]; exact hpos n hn
    · intro m hm
      obtain ⟨n, hn, hid, _, _, _, e, he, hek, hmp⟩ := mem_downsample hlen hm
      rcases (hsp e he).2 with h | ⟨h1, h2, h3⟩
      · exact Or.inl (hmp ▸ h)
      · right
        rw [hmp, hid, ← hek]
        refine ⟨?_, h2⟩
        rw [ids_downsample hlen, List.mem_filter]
        exact ⟨h1, mem_any_fst.mpr h3⟩

/-- Kept nodes are original nodes with unchanged ids and coordinates. -/
theorem downsample_subset (t : Table) (f : Option Nat) (pres : List Int) :
    ∀ m ∈ downsample t f pres, ∃ n ∈ t, n.id = m.id ∧ n.x = m.x ∧ n.y = m.y ∧ n.z = m.z := by
  intro m hm
  by_cases hlen : t.length ≤ 1
  · rw [downsample_eq, if_pos hlen] at hm
    exact ⟨m, hm, rfl, rfl, rfl, rfl⟩
  · obtain ⟨n, hn, h1, h2, h3, h4, _⟩ := mem_downsample hlen hm
    exact ⟨n, hn, h1.symm, h2.symm, h3.symm, h4.symm⟩

/-- Every fix point (non-slab by its current label, or preserved) survives downsampling. -/
theorem downsample_keeps_fixpoints {t : Table} (hw : WF t) (f : Option Nat) (pres : List Int) {n : Node}
    (hn : n ∈ t) (hfix : n.label ≠ .slab ∨ n.id ∈ pres) : n.id ∈ ids (downsample t f pres) := by
  by_cases hlen : t.length ≤ 1
  · rw [downsample_eq, if_pos hlen]; exact mem_ids_of_mem hn
  · obtain ⟨rk, hrk, hle⟩ := WF_rank_le hw
    have hin := mem_ids_of_mem hn
    have hfx := dsFix_of_mem hw.1 (pres := pres) hn hfix
    obtain ⟨e, he, hee⟩ := (dsWalk_spec hw.2.1 hrk hle (dsFix t pres) f (t.length + 1) n.id
      (fun _ => by have := hle n.id; omega)).2 hin
    rw [ids_downsample hlen, List.mem_filter]
    refine ⟨hin, mem_any_fst.mpr ⟨e, ?_, hee⟩⟩
    unfold dsPairs
    exact List.mem_flatMap.mpr ⟨n.id, List.mem_filter.mpr ⟨hin, hfx⟩, he⟩

/-! ### insert_nodes -/

theorem foldl_max_spec (l : List Int) (a : Int) : a ≤ l.foldl max a ∧ ∀ i ∈ l, i ≤ l.foldl max a := by
  induction l generalizing a with
  | nil => simp
  | cons x xs ih =>
    simp only [List.foldl_cons]
    obtain ⟨h1, h2⟩ := ih (max a x)
    refine ⟨by omega, ?_⟩
    intro i hi
    rcases List.mem_cons.mp hi with rfl | hi
    · omega
    · exact h2 i hi

theorem maxId_nonneg (t : Table) : 0 ≤ maxId t := (foldl_max_spec (ids t) 0).1

/-- Every id is at most `maxId`, so ids from `maxId + 1` on are fresh. -/
theorem le_maxId {t : Table} {i : Int} (hi : i ∈ ids t) : i ≤ maxId t := (foldl_max_spec (ids t) 0).2 i hi

def insRemap (t : Table) (edgesPC : List (Int × Int)) : List (Int × Int) :=
  edgesPC.zipIdx.map fun (e, k) => (e.2, maxId t + 1 + k)

def insNew (t : Table) (edgesPC : List (Int × Int)) (coords : List (Int × Int × Int)) : Table :=
  edgesPC.zipIdx.map fun (e, k) =>
    ({ id := maxId t + 1 + k, parent := e.1, x := (coords.getD k (0, 0, 0)).1,
       y := (coords.getD k (0, 0, 0)).2.1, z := (coords.getD k (0, 0, 0)).2.2 } : Node)

def insOld (t : Table) (edgesPC : List (Int × Int)) : Table :=
  t.map fun n =>
    match (insRemap t edgesPC).reverse.find? (fun e => e.1 == n.id) with
    | some e => { n with parent := e.2 }
    | none => n

theorem insertNodes_eq (t : Table) (edgesPC : List (Int × Int)) (coords : List (Int × Int × Int)) :
    insertNodes t edgesPC coords = classify (insOld t edgesPC ++ insNew t edgesPC coords) := rfl

theorem mem_insNew {t : Table} {edgesPC : List (Int × Int)} {coords : List (Int × Int × Int)} {m : Node}
    (hm : m ∈ insNew t edgesPC coords) :
    ∃ (k : Nat) (e : Int × Int), edgesPC[k]? = some e ∧ m.id = maxId t + 1 + k ∧ m.parent = e.1 := by
  unfold insNew at hm
  obtain ⟨⟨e, k⟩, hx, rfl⟩ := List.mem_map.mp hm
  exact ⟨k, e, List.mem_zipIdx_iff_getElem?.mp hx, rfl, rfl⟩

theorem ids_insNew (t : Table) (edgesPC : List (Int × Int)) (coords : List (Int × Int × Int)) :
    ids (insNew t edgesPC coords) = (List.range' 0 edgesPC.length).map fun (k : Nat) => maxId t + 1 + (k : Int) := by
  unfold insNew ids
  rw [← List.zipIdx_map_snd 0 edgesPC, List.map_map, List.map_map]
  rfl

theorem mem_ids_insNew {t : Table} {edgesPC : List (Int × Int)} {coords : List (Int × Int × Int)} {i : Int} :
    i ∈ ids (insNew t edgesPC coords) ↔ ∃ k : Nat, k < edgesPC.length ∧ i = maxId t + 1 + k := by
  rw [ids_insNew]
  simp only [List.mem_map, List.mem_range'_1]
  constructor
  · rintro ⟨k, ⟨_, hk⟩, rfl⟩; exact ⟨k, by omega, rfl⟩
  · rintro ⟨k, hk, rfl⟩; exact ⟨k, ⟨by omega, by omega⟩, rfl⟩

theorem ids_insOld (t : Table) (edgesPC : List (Int × Int)) : ids (insOld t edgesPC) = ids t := by
  unfold insOld ids
  rw [List.map_map]
  apply List.map_congr_left
  intro n _
  simp only [Function.comp]
  split <;> rfl

theorem mem_insOld {t : Table} {edgesPC : List (Int × Int)} {m : Node} (hm : m ∈ insOld t edgesPC) :
    ∃ n ∈ t, m.id = n.id ∧ m.x = n.x ∧ m.y = n.y ∧ m.z = n.z ∧
      ((∃ (k : Nat) (e : Int × Int), edgesPC[k]? = some e ∧ e.2 = n.id ∧ m.parent = maxId t + 1 + k) ∨
        m.parent = n.parent) := by
  unfold insOld at hm
  obtain ⟨n, hn, rfl⟩ := List.mem_map.mp hm
  refine ⟨n, hn, ?_⟩
  split
  · rename_i e he
    refine ⟨rfl, rfl, rfl, rfl, Or.inl ?_⟩
    have hmem := List.mem_reverse.mp (List.mem_of_find?_eq_some he)
    have hkey : e.1 = n.id := by simpa using List.find?_some he
    unfold insRemap at hmem
    obtain ⟨⟨e0, k⟩, hx, rfl⟩ := List.mem_map.mp hmem
    exact ⟨k, e0, List.mem_zipIdx_iff_getElem?.mp hx, hkey, rfl⟩
  · exact ⟨rfl, rfl, rfl, rfl, Or.inr rfl⟩

/-- **`insert_nodes` preserves well-formedness** whenever every requested `(parent, child)` pair is an
edge of the skeleton (the condition navis validates before inserting). -/
theorem WF_insertNodes {t : Table} (hw : WF t) (edgesPC : List (Int × Int)) (coords : List (Int × Int × Int))
    (hg : ∀ e ∈ edgesPC, ∃ n ∈ t, n.id = e.2 ∧ n.parent = e.1) : WF (insertNodes t edgesPC coords) := by
  rw [insertNodes_eq]
  apply WF_classify
  obtain ⟨hnd, hpos, rk, hrk⟩ := hw
  have hmax := maxId_nonneg t
  let rk' : Int → Nat := fun i =>
    if i ≤ maxId t then 2 * rk i + 2
    else 2 * rk ((edgesPC[(i - (maxId t + 1)).toNat]?.getD (0, 0)).2) + 1
  have rk_old : ∀ i, i ∈ ids t → rk' i = 2 * rk i + 2 := fun i hi => if_pos (le_maxId hi)
  have rk_new : ∀ (k : Nat) (e : Int × Int), edgesPC[k]? = some e → rk' (maxId t + 1 + k) = 2 * rk e.2 + 1 := by
    intro k e he
    have h1 : ¬ (maxId t + 1 + (k : Int) ≤ maxId t) := by omega
    have h2 : (maxId t + 1 + (k : Int) - (maxId t + 1)).toNat = k := by omega
    show (if maxId t + 1 + (k : Int) ≤ maxId t then _ else _) = _
    rw [if_neg h1, h2, he]; rfl
  have hlt : ∀ {k : Nat} {e : Int × Int}, edgesPC[k]? = some e → k < edgesPC.length := by
    intro k e he
    exact (List.getElem?_eq_some_iff.mp he).1
  refine ⟨?_, ?_, rk', ?_⟩
  · rw [ids_append, ids_insOld, List.nodup_append]
    refine ⟨hnd, ?_, ?_⟩
    · rw [ids_insNew]
      exact List.Pairwise.map _ (fun a b (h : a ≠ b) => by omega) (List.nodup_range' (s := 0) (n := edgesPC.length))
    · intro a ha b hb
      obtain ⟨k, _, rfl⟩ := mem_ids_insNew.mp hb
      have := le_maxId ha
      omega
  · intro m hm
    rcases List.mem_append.mp hm with hm | hm
    · obtain ⟨n, hn, hid, _⟩ := mem_insOld hm
      rw [hid]; exact hpos n hn
    · obtain ⟨k, e, _, hid, _⟩ := mem_insNew hm
      omega
  · intro m hm
    rw [ids_append, ids_insOld]
    rcases List.mem_append.mp hm with hm | hm
    · obtain ⟨n, hn, hid, _, _, _, hpar⟩ := mem_insOld hm
      have hin : m.id ∈ ids t := hid ▸ mem_ids_of_mem hn
      rcases hpar with ⟨k, e, he, hen, hmp⟩ | hmp
      · right
        refine ⟨List.mem_append_right _ (mem_ids_insNew.mpr ⟨k, hlt he, hmp⟩), ?_⟩
        rw [hmp, rk_new k e he, rk_old _ hin, hen, hid]
        omega
      · rcases hrk n hn with h | ⟨h1, h2⟩
        · exact Or.inl (hmp ▸ h)
        · right
          refine ⟨List.mem_append_left _ (hmp ▸ h1), ?_⟩
          rw [hmp, rk_old _ h1, rk_old _ hin, hid]
          omega
    · obtain ⟨k, e, he, hid, hmp⟩ := mem_insNew hm
      obtain ⟨n, hn, hn2, hn1⟩ := hg e (List.mem_of_getElem? he)
      rcases hrk n hn with h | ⟨h1, h2⟩
      · exact Or.inl (by rw [hmp, ← hn1]; exact h)
      · right
        rw [hn1] at h1 h2
        rw [hn2] at h2
        refine ⟨List.mem_append_left _ (hmp ▸ h1), ?_⟩
        rw [hmp, hid, rk_new k e he, rk_old _ h1]
        omega

/-- `insert_nodes` keeps every old id (in order) and appends the fresh ids `maxId + 1 + k`. -/
theorem ids_insertNodes (t : Table) (edgesPC : List (Int × Int)) (coords : List (Int × Int × Int)) :
    ids (insertNodes t edgesPC coords) =
      ids t ++ (List.range' 0 edgesPC.length).map fun (k : Nat) => maxId t + 1 + (k : Int) := by
  rw [insertNodes_eq, ids_classify, ids_append, ids_insOld, ids_insNew]

/-! ### labels after operations that end in `classify_nodes` -/

theorem labelsOKB_removeNodes (t : Table) (which : List Int) :
    removeNodes t which = t ∨ labelsOKB (removeNodes t which) = true := by
  rw [removeNodes_eq]
  split
  · exact Or.inr (labelsOKB_classify _)
  · exact Or.inl rfl

theorem labelsOKB_downsample (t : Table) (f : Option Nat) (pres : List Int) :
    downsample t f pres = t ∨ labelsOKB (downsample t f pres) = true := by
  rw [downsample_eq]
  split
  · exact Or.inl rfl
  · exact Or.inr (labelsOKB_classify _)

theorem labelsOKB_insertNodes (t : Table) (edgesPC : List (Int × Int)) (coords : List (Int × Int × Int)) :
    labelsOKB (insertNodes t edgesPC coords) = true := by
  rw [insertNodes_eq]; exact labelsOKB_classify _

end Navis.Forest
