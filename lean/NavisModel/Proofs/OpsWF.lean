import NavisModel.Proofs.RerootLemmas
import NavisModel.Proofs.WfB
/-!
`remove_nodes`, `downsample` and `insert_nodes` preserve well-formedness (rank form) — core Lean only.
-/
namespace Navis.Forest

/-! ### generic helpers -/

theorem parentOf_some {t : Table} {i p : Int} (h : parentOf t i = some p) :
    ∃ n, find? t i = some n ∧ n ∈ t ∧ n.id = i ∧ n.parent = p := by
  unfold parentOf at h
  cases hf : find? t i with
  | none => rw [hf] at h; simp at h
  | some n =>
    rw [hf] at h
    simp only [Option.map_some, Option.some.injEq] at h
    exact ⟨n, rfl, (find?_some hf).1, (find?_some hf).2, h⟩

theorem parentOf_of_mem {t : Table} (hnd : (ids t).Nodup) {n : Node} (h : n ∈ t) :
    parentOf t n.id = some n.parent := by
  unfold parentOf; rw [find?_of_mem hnd h]; rfl

theorem parentOf_none_of_neg {t : Table} (hpos : ∀ n ∈ t, 0 ≤ n.id) {i : Int} (hi : i < 0) :
    parentOf t i = none := by
  cases h : parentOf t i with
  | none => rfl
  | some p =>
    obtain ⟨n, _, hn, hid, _⟩ := parentOf_some h
    have := hpos n hn
    omega

/-- A rank that is bounded by the table length (depth of the node). -/
theorem WF_rank_le {t : Table} (hw : WF t) :
    ∃ rk : Int → Nat, (∀ n ∈ t, n.parent < 0 ∨ (n.parent ∈ ids t ∧ rk n.parent < rk n.id)) ∧
      ∀ i, rk i ≤ t.length := by
  have h := wfB_complete hw
  unfold wfB at h
  simp only [Bool.and_eq_true, List.all_eq_true, decide_eq_true_eq, Bool.or_eq_true, List.contains_eq_mem] at h
  obtain ⟨⟨⟨_, _⟩, h3⟩, h4⟩ := h
  have hnd := hw.1
  refine ⟨fun i => (rootPath t i).length, ?_, fun i => pathToRoot_length_le hw _ i⟩
  intro n hn
  by_cases hp : n.parent < 0
  · exact Or.inl hp
  · right
    have hpin : n.parent ∈ ids t := by
      rcases h3 n hn with h | h
      · exact absurd h hp
      · exact h
    refine ⟨hpin, ?_⟩
    have hf := find?_of_mem hnd hn
    have hr := reachesRoot_parent hf hp (h4 n hn)
    have e1 : rootPath t n.id = n.id :: pathToRoot t t.length n.parent := by
      unfold rootPath
      rw [pathToRoot, hf]; simp [hp]
    have e2 : rootPath t n.parent = pathToRoot t t.length n.parent := by
      unfold rootPath; exact pathToRoot_fuel_succ t _ _ hr
    show (rootPath t n.parent).length < (rootPath t n.id).length
    rw [e1, e2]; simp

/-- Parent step in a ranked table. -/
theorem parent_step {t : Table} {rk : Int → Nat}
    (hrk : ∀ n ∈ t, n.parent < 0 ∨ (n.parent ∈ ids t ∧ rk n.parent < rk n.id))
    {i p : Int} (h : parentOf t i = some p) : i ∈ ids t ∧ (p < 0 ∨ (p ∈ ids t ∧ rk p < rk i)) := by
  obtain ⟨n, _, hn, hid, hp⟩ := parentOf_some h
  refine ⟨hid ▸ mem_ids_of_mem hn, ?_⟩
  rw [← hid, ← hp]; exact hrk n hn

theorem lookupD_mem {m : List (Int × Int)} {k : Int} (d : Int) (hk : k ∈ m.map Prod.fst) :
    ∃ e ∈ m, e.1 = k ∧ lookupD m k d = e.2 := by
  unfold lookupD
  cases hf : m.find? (fun e => e.1 == k) with
  | none =>
    rw [List.find?_eq_none] at hf
    obtain ⟨e, he, hek⟩ := List.mem_map.mp hk
    exact absurd (by simpa using hek) (hf e he)
  | some e =>
    exact ⟨e, List.mem_of_find?_eq_some hf, by simpa using List.find?_some hf, rfl⟩

/-! ### remove_nodes -/

/-- `FirstKept t S q p`: walking `q, parent q, …`, `p` is the first id that is negative or not in `S`. -/
inductive FirstKept (t : Table) (S : List Int) : Int → Int → Prop
  | stop {q : Int} : (q < 0 ∨ q ∉ S) → FirstKept t S q q
  | step {q q' p : Int} : 0 ≤ q → q ∈ S → parentOf t q = some q' → FirstKept t S q' p → FirstKept t S q p

/-- `p` is the nearest proper ancestor of `c` outside `S` (or a negative root marker). -/
def NKA (t : Table) (S : List Int) (c p : Int) : Prop := ∃ q, parentOf t c = some q ∧ FirstKept t S q p

theorem FirstKept.notin {t : Table} {S : List Int} {q p : Int} (h : FirstKept t S q p) : p < 0 ∨ p ∉ S := by
  induction h with
  | stop h => exact h
  | step _ _ _ _ ih => exact ih

theorem FirstKept.congr {t : Table} {S S' : List Int} (hS : ∀ x, x ∈ S ↔ x ∈ S') {q p : Int}
    (h : FirstKept t S q p) : FirstKept t S' q p := by
  induction h with
  | stop h => exact .stop (by rw [← hS]; exact h)
  | step h0 hq hp _ ih => exact .step h0 ((hS _).mp hq) hp ih

theorem FirstKept.of_neg {t : Table} {S : List Int} {q p : Int} (h : FirstKept t S q p) (hq : q < 0) : p = q := by
  cases h with
  | stop _ => rfl
  | step h0 _ _ _ => omega

theorem FirstKept.rank {t : Table} {rk : Int → Nat}
    (hrk : ∀ n ∈ t, n.parent < 0 ∨ (n.parent ∈ ids t ∧ rk n.parent < rk n.id))
    {S : List Int} {q p : Int} (h : FirstKept t S q p) (hq : q ∈ ids t) :
    p < 0 ∨ (p ∈ ids t ∧ rk p ≤ rk q) := by
  induction h with
  | stop _ => exact Or.inr ⟨hq, Nat.le_refl _⟩
  | step h0 _ hp hfk ih =>
    obtain ⟨_, hstep⟩ := parent_step hrk hp
    rcases hstep with hneg | ⟨hin, hlt⟩
    · left; rw [hfk.of_neg hneg]; exact hneg
    · rcases ih hin with h | h
      · exact Or.inl h
      · exact Or.inr ⟨h.1, by omega⟩

theorem NKA.rank {t : Table} {rk : Int → Nat}
    (hrk : ∀ n ∈ t, n.parent < 0 ∨ (n.parent ∈ ids t ∧ rk n.parent < rk n.id))
    {S : List Int} {c p : Int} (h : NKA t S c p) : c ∈ ids t ∧ (p < 0 ∨ (p ∈ ids t ∧ rk p < rk c)) := by
  obtain ⟨q, hq, hfk⟩ := h
  obtain ⟨hc, hstep⟩ := parent_step hrk hq
  refine ⟨hc, ?_⟩
  rcases hstep with hneg | ⟨hin, hlt⟩
  · left; rw [hfk.of_neg hneg]; exact hneg
  · rcases hfk.rank hrk hin with h | h
    · exact Or.inl h
    · exact Or.inr ⟨h.1, by omega⟩

theorem FirstKept.cons_ne {t : Table} {S : List Int} {q p n : Int} (h : FirstKept t S q p) (hne : p ≠ n) :
    FirstKept t (n :: S) q p := by
  induction h with
  | stop h =>
    refine .stop ?_
    rcases h with h | h
    · exact Or.inl h
    · right; intro hm
      rcases List.mem_cons.mp hm with h1 | h1
      · exact hne h1
      · exact h h1
  | step h0 hq hp _ ih => exact .step h0 (List.mem_cons_of_mem _ hq) hp (ih hne)

theorem FirstKept.cons_eq {t : Table} {S : List Int} {q n pn : Int} (h : FirstKept t S q n)
    (hn0 : 0 ≤ n) (hn : NKA t S n pn) (hne : pn ≠ n) : FirstKept t (n :: S) q pn := by
  generalize hx : n = x at h
  induction h with
  | stop _ =>
    subst hx
    obtain ⟨q', hq', hfk⟩ := hn
    exact .step hn0 (by simp) hq' (hfk.cons_ne hne)
  | step h0 hq hp _ ih => exact .step h0 (List.mem_cons_of_mem _ hq) hp (ih hx)

/-- Invariant of the `lop` dictionary after the nodes in `S` were processed. -/
def RmInv (t : Table) (S : List Int) (m : List (Int × Int)) : Prop :=
  m.map Prod.fst = ids t ∧ ∀ e ∈ m, NKA t S e.1 e.2

theorem RmInv_init {t : Table} (hnd : (ids t).Nodup) : RmInv t [] (t.map fun n => (n.id, n.parent)) := by
  refine ⟨by simp [ids, List.map_map, Function.comp_def], ?_⟩
  intro e he
  obtain ⟨n, hn, rfl⟩ := List.mem_map.mp he
  exact ⟨n.parent, parentOf_of_mem hnd hn, .stop (Or.inr (by simp))⟩

theorem RmInv_step {t : Table} (hw : WF t) {S : List Int} {m : List (Int × Int)} (hinv : RmInv t S m)
    {n : Int} (hn : n ∈ ids t) : RmInv t (n :: S) (removeOne m n) := by
  obtain ⟨hnd, hpos, rk, hrk⟩ := hw
  obtain ⟨hkeys, hent⟩ := hinv
  have hn0 : 0 ≤ n := by
    obtain ⟨a, ha, rfl⟩ := mem_ids.mp hn
    exact hpos a ha
  obtain ⟨e0, he0, he0k, hlk⟩ := lookupD_mem (m := m) (-1) (hkeys ▸ hn)
  have hpn : NKA t S n (lookupD m n (-1)) := by
    rw [hlk, ← he0k]; exact hent e0 he0
  have hne : lookupD m n (-1) ≠ n := by
    rcases (hpn.rank hrk).2 with h | ⟨_, h⟩
    · omega
    · intro he; rw [he] at h; exact Nat.lt_irrefl _ h
  unfold removeOne
  refine ⟨?_, ?_⟩
  · rw [← hkeys, List.map_map]
    apply List.map_congr_left
    intro e _
    simp only [Function.comp]
    split <;> rfl
  · intro e' he'
    obtain ⟨e, he, rfl⟩ := List.mem_map.mp he'
    obtain ⟨q, hq, hfk⟩ := hent e he
    by_cases h2 : e.2 = n
    · rw [if_pos h2]
      exact ⟨q, hq, (h2 ▸ hfk).cons_eq hn0 hpn hne⟩
    · rw [if_neg h2]
      exact ⟨q, hq, hfk.cons_ne h2⟩

theorem RmInv_foldl {t : Table} (hw : WF t) (ws : List Int) (hws : ∀ w ∈ ws, w ∈ ids t) {S : List Int}
    {m : List (Int × Int)} (hinv : RmInv t S m) : RmInv t (ws.reverse ++ S) (ws.foldl removeOne m) := by
  induction ws generalizing S m with
  | nil => simpa using hinv
  | cons w ws ih =>
    have := ih (fun x hx => hws x (List.mem_cons_of_mem _ hx)) (RmInv_step hw hinv (hws w (by simp)))
    simpa using this

theorem removeNodes_eq (t : Table) (which : List Int) :
    removeNodes t which =
      if which.all (fun w => (ids t).contains w) then
        classify ((t.filter fun n => !which.contains n.id).map fun n =>
          { n with parent := lookupD (which.foldl removeOne (t.map fun n => (n.id, n.parent))) n.id n.parent })
      else t := rfl

/-- Row-level description of `remove_nodes` (when the guard passes): kept rows are the rows outside
`which`, with id and coordinates unchanged and the parent rewired to the nearest kept ancestor. -/
theorem mem_removeNodes {t : Table} (hw : WF t) {which : List Int} (hg : ∀ w ∈ which, w ∈ ids t) {m : Node}
    (hm : m ∈ removeNodes t which) :
    ∃ n ∈ t, n.id ∉ which ∧ m.id = n.id ∧ m.x = n.x ∧ m.y = n.y ∧ m.z = n.z ∧ NKA t which n.id m.parent := by
  have hgB : which.all (fun w => (ids t).contains w) = true := by
    simpa [List.all_eq_true] using hg
  rw [removeNodes_eq, if_pos hgB] at hm
  obtain ⟨a, ha, rfl⟩ := mem_classify.mp hm
  obtain ⟨n, hn, rfl⟩ := List.mem_map.mp ha
  obtain ⟨hnt, hnw⟩ := List.mem_filter.mp hn
  have hinv := RmInv_foldl hw which hg (RmInv_init hw.1)
  obtain ⟨hkeys, hent⟩ := hinv
  obtain ⟨e, he, hek, hlk⟩ := lookupD_mem (m := which.foldl removeOne (t.map fun n => (n.id, n.parent)))
    n.parent (hkeys ▸ mem_ids_of_mem hnt)
  refine ⟨n, hnt, by simpa using hnw, rfl, rfl, rfl, rfl, ?_⟩
  obtain ⟨q, hq, hfk⟩ := hent e he
  simp only
  rw [hlk]
  exact ⟨q, hek ▸ hq, hfk.congr (by simp)⟩

theorem ids_removeNodes {t : Table} {which : List Int} (hg : ∀ w ∈ which, w ∈ ids t) :
    ids (removeNodes t which) = (ids t).filter (fun i => !which.contains i) := by
  have hgB : which.all (fun w => (ids t).contains w) = true := by
    simpa [List.all_eq_true] using hg
  rw [removeNodes_eq, if_pos hgB, ids_classify, ← ids_filter t (fun i => !which.contains i)]
  simp [ids, List.map_map, Function.comp_def]

/-- **`remove_nodes` preserves well-formedness**, for every table and every list of nodes. -/
theorem WF_removeNodes {t : Table} (hw : WF t) (which : List Int) : WF (removeNodes t which) := by
  by_cases hg : ∀ w ∈ which, w ∈ ids t
  · obtain ⟨hnd, hpos, rk, hrk⟩ := hw
    refine ⟨?_, ?_, rk, ?_⟩
    · rw [ids_removeNodes hg]; exact hnd.filter _
    · intro m hm
      obtain ⟨n, hn, _, hid, _⟩ := mem_removeNodes ⟨hnd, hpos, rk, hrk⟩ hg hm
      rw [hid]; exact hpos n hn
    · intro m hm
      obtain ⟨n, hn, _, hid, _, _, _, hnka⟩ := mem_removeNodes ⟨hnd, hpos, rk, hrk⟩ hg hm
      have hnot : m.parent < 0 ∨ m.parent ∉ which := by
        obtain ⟨q, _, hfk⟩ := hnka
        exact hfk.notin
      rcases (hnka.rank hrk).2 with h | ⟨hin, hlt⟩
      · exact Or.inl h
      · by_cases hneg : m.parent < 0
        · exact Or.inl hneg
        · right
          refine ⟨?_, hid ▸ hlt⟩
          rw [ids_removeNodes hg, List.mem_filter]
          refine ⟨hin, ?_⟩
          rcases hnot with h | h
          · exact absurd h hneg
          · simpa using h
  · have hgB : ¬ which.all (fun w => (ids t).contains w) = true := by
      simpa [List.all_eq_true] using hg
    rw [removeNodes_eq, if_neg hgB]; exact hw

end Navis.Forest
