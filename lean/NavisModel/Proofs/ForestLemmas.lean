import NavisModel.Model.Ops
/-! Helper lemmas about the forest model (core Lean only). -/
namespace Navis.Forest

/-! ### basic list facts -/

@[simp] theorem ids_nil : ids [] = [] := rfl
@[simp] theorem ids_cons (n : Node) (t : Table) : ids (n :: t) = n.id :: ids t := rfl
@[simp] theorem ids_append (a b : Table) : ids (a ++ b) = ids a ++ ids b := by simp [ids]
@[simp] theorem ids_length (t : Table) : (ids t).length = t.length := by simp [ids]

theorem mem_ids {t : Table} {i : Int} : i ∈ ids t ↔ ∃ n ∈ t, n.id = i := by
  simp [ids]

theorem mem_ids_of_mem {t : Table} {n : Node} (h : n ∈ t) : n.id ∈ ids t := mem_ids.mpr ⟨n, h, rfl⟩

theorem find?_some {t : Table} {i : Int} {n : Node} (h : find? t i = some n) : n ∈ t ∧ n.id = i := by
  unfold find? at h
  exact ⟨List.mem_of_find?_eq_some h, by simpa using List.find?_some h⟩

theorem find?_none {t : Table} {i : Int} (h : find? t i = none) : i ∉ ids t := by
  unfold find? at h
  rw [List.find?_eq_none] at h
  intro hm
  obtain ⟨n, hn, rfl⟩ := mem_ids.mp hm
  exact h n hn (by simp)

/-- With unique ids, `find?` returns *the* row with that id. -/
theorem find?_of_mem {t : Table} (hnd : (ids t).Nodup) {n : Node} (h : n ∈ t) : find? t n.id = some n := by
  induction t with
  | nil => simp at h
  | cons a t ih =>
    rw [ids_cons, List.nodup_cons] at hnd
    unfold find?
    rw [List.find?_cons]
    by_cases ha : a.id = n.id
    · have : a = n := by
        rcases List.mem_cons.mp h with h | h
        · exact h.symm
        · exact absurd (ha ▸ mem_ids_of_mem h) hnd.1
      simp [this]
    · have hne : (a.id == n.id) = false := by simpa using ha
      rw [hne]
      have hmem : n ∈ t := by
        rcases List.mem_cons.mp h with h | h
        · exact absurd (h ▸ rfl) ha
        · exact h
      exact ih hnd.2 hmem

theorem find?_isSome_iff {t : Table} {i : Int} : (find? t i).isSome ↔ i ∈ ids t := by
  constructor
  · intro h
    cases hf : find? t i with
    | none => rw [hf] at h; simp at h
    | some n => have := find?_some hf; exact mem_ids.mpr ⟨n, this.1, this.2⟩
  · intro h
    cases hf : find? t i with
    | none => exact absurd h (find?_none hf)
    | some n => simp

/-! ### classify -/

@[simp] theorem ids_classify (t : Table) : ids (classify t) = ids t := by
  simp [classify, ids, List.map_map, Function.comp_def]

@[simp] theorem parents_classify (t : Table) : parents (classify t) = parents t := by
  simp [classify, parents, List.map_map, Function.comp_def]

theorem mem_classify {t : Table} {m : Node} :
    m ∈ classify t ↔ ∃ n ∈ t, m = { n with label := classifyNode t n } := by
  simp [classify, eq_comm]

theorem count_parents_eq_childCount (t : Table) (i : Int) : (parents t).count i = childCount t i := by
  unfold parents childCount
  induction t with
  | nil => rfl
  | cons a t ih =>
    simp only [List.map_cons, List.count_cons, List.filter_cons]
    by_cases h : a.parent = i
    · simp [h, ih]
    · have : (a.parent == i) = false := by simpa using h
      simp [this, ih]

theorem mem_parents_iff_childCount_pos (t : Table) (i : Int) : i ∈ parents t ↔ 0 < childCount t i := by
  rw [← count_parents_eq_childCount, List.count_pos_iff]

theorem classifyNode_eq_labelOf (t : Table) (n : Node) :
    classifyNode t n = labelOf (childCount t n.id) (n.parent < 0) := by
  unfold classifyNode labelOf
  have hm := mem_parents_iff_childCount_pos t n.id
  rw [count_parents_eq_childCount]
  by_cases h : n.parent < 0
  · simp [h]
  · simp only [h, if_false, decide_false, Bool.false_eq_true]
    by_cases h1 : childCount t n.id > 1
    · have h2 : ¬ childCount t n.id = 0 := by omega
      have h3 : ¬ childCount t n.id = 1 := by omega
      simp [h1, h2, h3]
    · by_cases h0 : childCount t n.id = 0
      · have : ¬ n.id ∈ parents t := by rw [hm]; omega
        simp [h0, this]
      · have h3 : childCount t n.id = 1 := by omega
        have : n.id ∈ parents t := by rw [hm]; omega
        simp [h3, this]

theorem childCount_classify (t : Table) (i : Int) : childCount (classify t) i = childCount t i := by
  rw [← count_parents_eq_childCount, ← count_parents_eq_childCount, parents_classify]

theorem labelsOKB_classify (t : Table) : labelsOKB (classify t) = true := by
  unfold labelsOKB
  rw [List.all_eq_true]
  intro m hm
  obtain ⟨n, hn, rfl⟩ := mem_classify.mp hm
  simp only [childCount_classify]
  rw [classifyNode_eq_labelOf]
  simp

/-! ### well-formedness is about ids and parents only -/

theorem WF_of_same_links {t u : Table} (h : u.map (fun n => (n.id, n.parent)) = t.map (fun n => (n.id, n.parent)))
    (hw : WF t) : WF u := by
  have hids : ids u = ids t := by
    have := congrArg (List.map Prod.fst) h
    simpa [ids, List.map_map, Function.comp_def] using this
  obtain ⟨hnd, hpos, rk, hrk⟩ := hw
  have hmem : ∀ n ∈ u, ∃ m ∈ t, m.id = n.id ∧ m.parent = n.parent := by
    intro n hn
    have : (n.id, n.parent) ∈ u.map (fun n => (n.id, n.parent)) := List.mem_map.mpr ⟨n, hn, rfl⟩
    rw [h] at this
    obtain ⟨m, hm, he⟩ := List.mem_map.mp this
    simp only [Prod.mk.injEq] at he
    exact ⟨m, hm, he.1, he.2⟩
  refine ⟨hids ▸ hnd, ?_, rk, ?_⟩
  · intro n hn
    obtain ⟨m, hm, h1, _⟩ := hmem n hn
    rw [← h1]; exact hpos m hm
  · intro n hn
    obtain ⟨m, hm, h1, h2⟩ := hmem n hn
    rw [← h1, ← h2, hids]; exact hrk m hm

theorem WF_classify {t : Table} (hw : WF t) : WF (classify t) := by
  apply WF_of_same_links _ hw
  simp [classify, List.map_map, Function.comp_def]

/-! ### subset -/

@[simp] theorem ids_fixOrphans (t : Table) : ids (fixOrphans t) = ids t := by
  unfold fixOrphans ids
  rw [List.map_map]
  apply List.map_congr_left
  intro n _
  simp only [Function.comp]
  split <;> rfl

theorem mem_fixOrphans {t : Table} {m : Node} :
    m ∈ fixOrphans t ↔ ∃ n ∈ t, m = (if (ids t).contains n.parent then n else { n with parent := -1 }) := by
  simp [fixOrphans, eq_comm]

theorem ids_filter (t : Table) (keep : Int → Bool) :
    ids (t.filter fun n => keep n.id) = (ids t).filter keep := by
  simp [ids, List.filter_map, Function.comp_def]

/-- **subset returns exactly the requested nodes** (in table order). -/
theorem ids_subset (t : Table) (keep : Int → Bool) : ids (subset t keep) = (ids t).filter keep := by
  simp [subset, ids_filter]

theorem Nodup_filter_ids {t : Table} (h : (ids t).Nodup) (keep : Int → Bool) :
    (ids (t.filter fun n => keep n.id)).Nodup := by
  rw [ids_filter]; exact h.filter _

theorem WF_fixOrphans_filter {t : Table} (hw : WF t) (keep : Int → Bool) :
    WF (fixOrphans (t.filter fun n => keep n.id)) := by
  obtain ⟨hnd, hpos, rk, hrk⟩ := hw
  refine ⟨by rw [ids_fixOrphans]; exact Nodup_filter_ids hnd keep, ?_, rk, ?_⟩
  · intro m hm
    obtain ⟨n, hn, rfl⟩ := mem_fixOrphans.mp hm
    have := hpos n (List.mem_filter.mp hn).1
    split <;> exact this
  · intro m hm
    obtain ⟨n, hn, rfl⟩ := mem_fixOrphans.mp hm
    rw [ids_fixOrphans]
    split
    · rename_i hc
      have hmem : n.parent ∈ ids (t.filter fun n => keep n.id) := by simpa using hc
      rcases hrk n (List.mem_filter.mp hn).1 with h | h
      · exact Or.inl h
      · exact Or.inr ⟨hmem, h.2⟩
    · exact Or.inl (by show (-1 : Int) < 0; decide)

theorem WF_subset {t : Table} (hw : WF t) (keep : Int → Bool) : WF (subset t keep) :=
  WF_classify (WF_fixOrphans_filter hw keep)

/-- Parent link of a surviving node: the original link when the parent survives, a new root otherwise. -/
theorem subset_parent {t : Table} (hnd : (ids t).Nodup) (keep : Int → Bool) {m : Node} (hm : m ∈ subset t keep) :
    ∃ n ∈ t, n.id = m.id ∧ keep n.id = true ∧ m.x = n.x ∧ m.y = n.y ∧ m.z = n.z ∧
      m.parent = (if n.parent ∈ (ids t).filter keep then n.parent else -1) := by
  unfold subset at hm
  obtain ⟨a, ha, rfl⟩ := mem_classify.mp hm
  obtain ⟨n, hn, rfl⟩ := mem_fixOrphans.mp ha
  have hn' := List.mem_filter.mp hn
  refine ⟨n, hn'.1, ?_, hn'.2, ?_⟩
  · split <;> rfl
  · rw [ids_filter]
    by_cases hc : n.parent ∈ (ids t).filter keep
    · have : ((ids t).filter keep).contains n.parent = true := by simpa using hc
      simp [this, hc]
    · have : ((ids t).filter keep).contains n.parent = false := by simpa using hc
      simp [this, hc]

theorem labelsOKB_subset (t : Table) (keep : Int → Bool) : labelsOKB (subset t keep) = true :=
  labelsOKB_classify _

theorem cut_some {t : Table} {c : Int} {d p : Table} (h : cut t c = some (d, p)) :
    d = subset t (fun i => (distalSet t c).contains i) ∧
    p = subset t (fun i => !(distalSet t c).contains i || i == c) ∧
    ∃ nc, find? t c = some nc ∧ ¬ nc.parent < 0 := by
  unfold cut at h
  cases hf : find? t c with
  | none => rw [hf] at h; simp at h
  | some nc =>
    rw [hf] at h; simp only at h
    split at h
    · simp at h
    · rename_i hp
      simp only [Option.some.injEq, Prod.mk.injEq] at h
      exact ⟨h.1.symm, h.2.symm, nc, rfl, hp⟩

end Navis.Forest
