import NavisModel.Model.Backends
import NavisModel.Proofs.SegmentLemmas
import NavisModel.Proofs.WfB
/-! Helper lemmas for C04: the smaller places where the back-ends derive the same object differently
(old classifier on networkx degrees, row labels of `geodesic_matrix(from_=…)`, the reroot path). -/
namespace Navis.Forest

/-! ### `_classify_nodes_old`, networkx degrees -/

theorem classifyOldNx_eq (t : Table) (n : Node) : classifyOldNxNode t n = classifyNode t n := by
  rw [classifyNode_eq_labelOf]
  unfold classifyOldNxNode labelOf
  by_cases h : n.parent < 0
  · simp [h]
  · simp only [h, if_false, decide_false, Bool.false_eq_true]
    by_cases h0 : childCount t n.id = 0
    · simp [h0]
    · by_cases h1 : childCount t n.id = 1
      · simp [h1]
      · have h2 : childCount t n.id + 1 > 2 := by omega
        have h3 : ¬ childCount t n.id + 1 = 1 := by omega
        simp [h0, h1, h2]

/-! ### `np.unique` and the row labels of `geodesic_matrix(from_=…)` -/

theorem mem_dedup (l : List Int) (x : Int) : x ∈ dedup l ↔ x ∈ l := by
  induction l with
  | nil => simp [dedup]
  | cons a l ih =>
    unfold dedup
    by_cases h : l.contains a = true
    · rw [if_pos h]
      have ha : a ∈ l := by simpa using h
      rw [ih]
      constructor
      · exact fun hx => List.mem_cons_of_mem _ hx
      · intro hx
        rcases List.mem_cons.mp hx with e | e
        · rw [e]; exact ha
        · exact e
    · rw [if_neg h]
      simp only [List.mem_cons, ih]

theorem dedup_nodup (l : List Int) : (dedup l).Nodup := by
  induction l with
  | nil => simp [dedup]
  | cons a l ih =>
    unfold dedup
    by_cases h : l.contains a = true
    · rw [if_pos h]; exact ih
    · rw [if_neg h]
      have ha : a ∉ l := by simpa using h
      exact List.nodup_cons.mpr ⟨fun hm => ha ((mem_dedup l a).mp hm), ih⟩

theorem mem_npUnique (l : List Int) (x : Int) : x ∈ npUnique l ↔ x ∈ l := by
  unfold npUnique sortedInts
  rw [(sortBy_perm _ _).mem_iff, mem_dedup]

theorem npUnique_nodup (l : List Int) : (npUnique l).Nodup := by
  unfold npUnique sortedInts
  exact (sortBy_perm _ _).nodup_iff.mpr (dedup_nodup l)

theorem npUnique_sorted (l : List Int) : (npUnique l).Pairwise (· ≤ ·) := sortedInts_pairwise _

/-- Same rows under the same labels, only in a different order: table order (igraph / networkx) versus
ascending id (fastcore). -/
theorem geoRowLabels_perm {t : Table} (hnd : (ids t).Nodup) (from_ : List Int) (hsub : ∀ i ∈ from_, i ∈ ids t) :
    (geoRowLabelsPython t from_).Perm (geoRowLabelsFastcore t from_) := by
  unfold geoRowLabelsPython geoRowLabelsFastcore
  apply (List.perm_ext_iff_of_nodup (hnd.filter _) (npUnique_nodup _)).mpr
  intro x
  simp only [List.mem_filter, List.contains_eq_mem, decide_eq_true_eq]
  constructor
  · exact fun h => h.2
  · intro h
    exact ⟨hsub x ((mem_npUnique _ _).mp h), h⟩

/-! ### the reroot path -/

/-- A root on a root path is its end: the prefix up to it is the whole path. -/
theorem uptoIncl_root (t : Table) {w : Int} {nw : Node} (hfw : find? t w = some nw) (hrw : nw.parent < 0) :
    ∀ (f : Nat) (i : Int), w ∈ pathToRoot t f i → uptoIncl w (pathToRoot t f i) = some (pathToRoot t f i) := by
  intro f
  induction f with
  | zero => intro i h; simp [pathToRoot] at h
  | succ f ih =>
    intro i h
    unfold pathToRoot at h ⊢
    cases hf : find? t i with
    | none => rw [hf] at h; simp at h
    | some n =>
      rw [hf] at h
      simp only at h ⊢
      by_cases hp : n.parent < 0
      · rw [if_pos hp] at h ⊢
        have : w = i := by simpa using h
        rw [this]; exact uptoIncl_head i []
      · rw [if_neg hp] at h ⊢
        have hne : i ≠ w := by
          intro e
          rw [e, hfw] at hf
          simp only [Option.some.injEq] at hf
          rw [hf] at hrw; exact hp hrw
        have hmem : w ∈ pathToRoot t f n.parent := by
          rcases List.mem_cons.mp h with e | e
          · exact absurd e.symm hne
          · exact e
        unfold uptoIncl
        rw [if_neg hne, ih n.parent hmem]; rfl

theorem mem_roots {t : Table} {r : Int} : r ∈ roots t ↔ ∃ n ∈ t, n.id = r ∧ n.parent < 0 := by
  unfold roots isRootNode
  simp only [List.mem_map, List.mem_filter, decide_eq_true_eq]
  constructor
  · rintro ⟨n, ⟨h1, h2⟩, h3⟩; exact ⟨n, h1, h3, h2⟩
  · rintro ⟨n, h1, h3, h2⟩; exact ⟨n, ⟨h1, h2⟩, h3⟩

/-- **The igraph and the networkx branch of `reroot_skeleton` reverse the same path**: of the shortest
paths from the new root to all roots exactly one is non-empty, and it is the walk along the parents. -/
theorem rerootPath_igraph_eq_nx {t : Table} (hw : WF t) {r : Int} (hr : r ∈ ids t) :
    rerootPathIgraph t r = some (rerootPathNx t r) := by
  unfold rerootPathIgraph rerootPathNx
  obtain ⟨rt0, n0, hlast, hf0, hp0⟩ := rootPath_ends hw r hr
  have hmem0 : rt0 ∈ rootPath t r := List.mem_of_getLast? hlast
  have hn0 := find?_some hf0
  have hroot0 : rt0 ∈ roots t := mem_roots.mpr ⟨n0, hn0.1, hn0.2, hp0⟩
  obtain ⟨rest, hcons⟩ := rootPath_cons hr
  have hval : ∀ w ∈ roots t, shortestOut t r w = rootPath t r ∨ shortestOut t r w = [] := by
    intro w hwr
    obtain ⟨nw, hnw, hid, hpw⟩ := mem_roots.mp hwr
    have hfw : find? t w = some nw := hid ▸ find?_of_mem hw.1 hnw
    unfold shortestOut
    by_cases hm : w ∈ rootPath t r
    · left
      unfold rootPath at hm ⊢
      rw [uptoIncl_root t hfw hpw _ _ hm]; rfl
    · right
      have : (uptoIncl w (rootPath t r)).isSome = false := by
        cases h : (uptoIncl w (rootPath t r)).isSome with
        | false => rfl
        | true => exact absurd ((uptoIncl_isSome_iff w _).mp h) hm
      cases h : uptoIncl w (rootPath t r) with
      | none => rfl
      | some v => rw [h] at this; simp at this
  have h0 : shortestOut t r rt0 = rootPath t r := by
    unfold shortestOut
    unfold rootPath at hmem0 ⊢
    rw [uptoIncl_root t hf0 hp0 _ _ hmem0]; rfl
  cases hfind : ((roots t).map fun rt => shortestOut t r rt).find? (fun p => !p.isEmpty) with
  | none =>
    exfalso
    have := List.find?_eq_none.mp hfind (rootPath t r) (List.mem_map.mpr ⟨rt0, hroot0, h0⟩)
    rw [hcons] at this; simp at this
  | some p =>
    have hp := List.mem_of_find?_eq_some hfind
    have hne := List.find?_some hfind
    obtain ⟨w, hwr, rfl⟩ := List.mem_map.mp hp
    rcases hval w hwr with e | e
    · rw [e]
    · rw [e] at hne; simp at hne

end Navis.Forest
