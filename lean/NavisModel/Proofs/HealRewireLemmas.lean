import NavisModel.Proofs.HealConnLemmas
/-!
C11 helper lemmas, part 2 (core Lean only): the traversal behind `rewire`.

* whatever the edge list, the re-derived parent column is a well-formed forest (rank = visiting order);
* every link it creates is an edge of the list, and the two ends of every edge end up in one tree;
* for an ACYCLIC edge list the undirected edges of the result are exactly the list (`rewire_spec`).
-/
namespace Navis.Heal
open Navis.Forest

def keys (vis : List (Int × Int)) : List Int := vis.map (·.1)

theorem hasKey_iff {vis : List (Int × Int)} {i : Int} : hasKey vis i = true ↔ i ∈ keys vis := by
  unfold hasKey keys
  simp only [List.any_eq_true, beq_iff_eq, List.mem_map]

theorem hasKey_false_iff {vis : List (Int × Int)} {i : Int} : hasKey vis i = false ↔ i ∉ keys vis := by
  rw [← hasKey_iff]; simp

@[simp] theorem keys_append (a b : List (Int × Int)) : keys (a ++ b) = keys a ++ keys b := by
  simp [keys]

/-- The visiting list is built by starting trees at table nodes and by following edges of `E`. -/
inductive VisOK (E : EL) (V : List Int) : List (Int × Int) → Prop
  | nil : VisOK E V []
  | root {vis : List (Int × Int)} {r : Int} : VisOK E V vis → r ∈ V → r ∉ keys vis → VisOK E V (vis ++ [(r, -1)])
  | link {vis : List (Int × Int)} {v p : Int} : VisOK E V vis → v ∈ V → v ∉ keys vis → p ∈ keys vis →
      Adj E p v → VisOK E V (vis ++ [(v, p)])

theorem VisOK.keys_nodup {E : EL} {V : List Int} {vis : List (Int × Int)} (h : VisOK E V vis) : (keys vis).Nodup := by
  induction h with
  | nil => simp [keys]
  | root _ _ hr ih =>
    rw [keys_append]
    refine List.nodup_append.mpr ⟨ih, by simp [keys], ?_⟩
    intro a ha b hb
    simp [keys] at hb
    rw [hb]; intro he; exact hr (he ▸ ha)
  | link _ _ hv _ _ ih =>
    rw [keys_append]
    refine List.nodup_append.mpr ⟨ih, by simp [keys], ?_⟩
    intro a ha b hb
    simp [keys] at hb
    rw [hb]; intro he; exact hv (he ▸ ha)

theorem VisOK.keys_sub {E : EL} {V : List Int} {vis : List (Int × Int)} (h : VisOK E V vis) :
    ∀ k ∈ keys vis, k ∈ V := by
  induction h with
  | nil => simp [keys]
  | root _ hr _ ih =>
    intro k hk
    rw [keys_append, List.mem_append] at hk
    rcases hk with hk | hk
    · exact ih k hk
    · simp [keys] at hk; rw [hk]; exact hr
  | link _ hv _ _ _ ih =>
    intro k hk
    rw [keys_append, List.mem_append] at hk
    rcases hk with hk | hk
    · exact ih k hk
    · simp [keys] at hk; rw [hk]; exact hv

/-- Every entry is a root entry or points to an earlier visited node along an edge. -/
theorem VisOK.entry {E : EL} {V : List Int} {vis : List (Int × Int)} (h : VisOK E V vis) :
    ∀ e ∈ vis, e.2 = -1 ∨ (e.2 ∈ keys vis ∧ (keys vis).idxOf e.2 < (keys vis).idxOf e.1 ∧ Adj E e.2 e.1) := by
  induction h with
  | nil => simp
  | @root vis r hok _ hr ih =>
    intro e he
    rcases List.mem_append.mp he with he | he
    · rcases ih e he with h1 | ⟨h1, h2, h3⟩
      · exact Or.inl h1
      · right
        have he1 : e.1 ∈ keys vis := List.mem_map.mpr ⟨e, he, rfl⟩
        refine ⟨by rw [keys_append]; exact List.mem_append_left _ h1, ?_, h3⟩
        rw [keys_append, List.idxOf_append, List.idxOf_append, if_pos h1, if_pos he1]; exact h2
    · simp at he; left; rw [he]
  | @link vis v p hok _ hv hp hadj ih =>
    intro e he
    rcases List.mem_append.mp he with he | he
    · rcases ih e he with h1 | ⟨h1, h2, h3⟩
      · exact Or.inl h1
      · right
        have he1 : e.1 ∈ keys vis := List.mem_map.mpr ⟨e, he, rfl⟩
        refine ⟨by rw [keys_append]; exact List.mem_append_left _ h1, ?_, h3⟩
        rw [keys_append, List.idxOf_append, List.idxOf_append, if_pos h1, if_pos he1]; exact h2
    · simp at he
      right
      rw [he]
      refine ⟨by rw [keys_append]; exact List.mem_append_left _ hp, ?_, hadj⟩
      rw [keys_append, List.idxOf_append, List.idxOf_append, if_pos hp, if_neg hv]
      have := List.idxOf_lt_length_of_mem hp
      simp only
      omega

/-! ### lookups -/

theorem lookupD_of_not_mem {m : List (Int × Int)} {k : Int} (d : Int) (h : k ∉ keys m) : lookupD m k d = d := by
  unfold lookupD
  have : m.find? (fun e => e.1 == k) = none := by
    rw [List.find?_eq_none]
    intro e he hk
    exact h (List.mem_map.mpr ⟨e, he, by simpa using hk⟩)
  rw [this]

theorem lookupD_of_mem {m : List (Int × Int)} (hnd : (keys m).Nodup) {e : Int × Int} (he : e ∈ m) (d : Int) :
    lookupD m e.1 d = e.2 := by
  induction m with
  | nil => simp at he
  | cons x xs ih =>
    unfold lookupD
    simp only [keys, List.map_cons, List.nodup_cons] at hnd
    rcases List.mem_cons.mp he with rfl | he
    · simp [List.find?_cons]
    · have hne : x.1 ≠ e.1 := fun h => hnd.1 (h ▸ List.mem_map.mpr ⟨e, he, rfl⟩)
      have hb : (x.1 == e.1) = false := by simpa using hne
      rw [List.find?_cons, hb]
      have := ih hnd.2 he
      unfold lookupD at this
      exact this

/-! ### the re-derived parent column -/

@[simp] theorem ids_reparent (t : Table) (vis : List (Int × Int)) : ids (reparent t vis) = ids t := by
  simp [reparent, ids, List.map_map, Function.comp_def]

theorem coords_reparent (t : Table) (vis : List (Int × Int)) :
    (reparent t vis).map (fun n => (n.id, n.x, n.y, n.z)) = t.map (fun n => (n.id, n.x, n.y, n.z)) := by
  simp [reparent, List.map_map, Function.comp_def]

theorem mem_reparent {t : Table} {vis : List (Int × Int)} {m : Node} (hm : m ∈ reparent t vis) :
    ∃ n ∈ t, m.id = n.id ∧ m.parent = lookupD vis n.id (-1) := by
  unfold reparent at hm
  obtain ⟨n, hn, rfl⟩ := List.mem_map.mp hm
  exact ⟨n, hn, rfl, rfl⟩

/-- Whatever the edge list: the result of the traversal is a well-formed forest. -/
theorem WF_reparent {t : Table} (hw : WF t) {E : EL} {vis : List (Int × Int)} (hok : VisOK E (ids t) vis) :
    WF (reparent t vis) := by
  obtain ⟨hnd, hpos, _⟩ := hw
  refine ⟨by rw [ids_reparent]; exact hnd, ?_, fun i => (keys vis).idxOf i, ?_⟩
  · intro m hm
    obtain ⟨n, hn, h1, _⟩ := mem_reparent hm
    rw [h1]; exact hpos n hn
  · intro m hm
    obtain ⟨n, hn, h1, h2⟩ := mem_reparent hm
    rw [ids_reparent, h1, h2]
    by_cases hk : n.id ∈ keys vis
    · obtain ⟨e, he, he1⟩ := List.mem_map.mp hk
      have hl := lookupD_of_mem hok.keys_nodup he (-1)
      rw [he1] at hl
      rw [hl]
      rcases hok.entry e he with h | ⟨h3, h4, _⟩
      · left; omega
      · right
        rw [← he1]
        exact ⟨hok.keys_sub _ h3, h4⟩
    · left
      rw [lookupD_of_not_mem _ hk]; omega

/-- Links with a real parent, as an undirected edge list. -/
def Lk (vis : List (Int × Int)) : EL := vis.filter fun e => decide (0 ≤ e.2)

theorem Lk_append (a b : List (Int × Int)) : Lk (a ++ b) = Lk a ++ Lk b := by simp [Lk]

theorem Conn.lk_append {a : List (Int × Int)} (b : List (Int × Int)) {x y : Int} (h : Conn (Lk a) x y) :
    Conn (Lk (a ++ b)) x y :=
  h.of_subset fun e he => by rw [Lk_append]; exact List.mem_append_left _ he

/-- Every undirected edge of the result is an edge of the list. -/
theorem uedges_reparent_sub {t : Table} {E : EL} {vis : List (Int × Int)} (hok : VisOK E (ids t) vis)
    (hnorm : ∀ e ∈ E, uedge e.1 e.2 = e) {e : Int × Int} (he : e ∈ uedges (reparent t vis)) : e ∈ E := by
  obtain ⟨m, hm, hp, rfl⟩ := mem_uedges.mp he
  obtain ⟨n, _, h1, h2⟩ := mem_reparent hm
  by_cases hk : n.id ∈ keys vis
  · obtain ⟨x, hx, hx1⟩ := List.mem_map.mp hk
    have hl := lookupD_of_mem hok.keys_nodup hx (-1)
    rw [hx1] at hl
    rw [hl] at h2
    rcases hok.entry x hx with h | ⟨_, _, hadj⟩
    · exact absurd (by rw [h2, h]; omega) hp
    · rw [h1, h2, ← hx1]
      rcases hadj with h | h
      · have := hnorm _ h
        simp only at this
        rw [uedge_comm, this]; exact h
      · have := hnorm _ h
        simp only at this
        rw [this]; exact h
  · exact absurd (by rw [h2, lookupD_of_not_mem _ hk]; omega) hp

/-- Every link of the traversal is an undirected edge of the result. -/
theorem lk_adj_uedges {t : Table} {E : EL} {vis : List (Int × Int)} (hok : VisOK E (ids t) vis)
    {a b : Int} (h : Adj (Lk vis) a b) : Adj (uedges (reparent t vis)) a b := by
  have key : ∀ e ∈ Lk vis, Adj (uedges (reparent t vis)) e.1 e.2 := by
    intro e he
    unfold Lk at he
    obtain ⟨hev, hp⟩ := List.mem_filter.mp he
    have hp : 0 ≤ e.2 := by simpa using hp
    have hid : e.1 ∈ ids t := hok.keys_sub _ (List.mem_map.mpr ⟨e, hev, rfl⟩)
    obtain ⟨n, hn, hne⟩ := mem_ids.mp hid
    have hm : ({ n with parent := lookupD vis n.id (-1) } : Node) ∈ reparent t vis :=
      List.mem_map.mpr ⟨n, hn, rfl⟩
    have hl := lookupD_of_mem hok.keys_nodup hev (-1)
    have := adj_uedges_of_node hm (by simp only; rw [hne, hl]; omega)
    simp only at this
    rw [hne, hl] at this
    exact this
  rcases h with h | h
  · exact key _ h
  · exact (key _ h).symm

/-! ### growth -/

theorem growStep_some {E : EL} {vis : List (Int × Int)} {q : Int × Int} (h : growStep E vis = some q) :
    q.2 ∈ keys vis ∧ q.1 ∉ keys vis ∧ Adj E q.2 q.1 := by
  unfold growStep at h
  obtain ⟨e, he, hf⟩ := List.exists_of_findSome?_eq_some h
  split at hf
  · rename_i hc
    simp only [Bool.and_eq_true, Bool.not_eq_true'] at hc
    have := Option.some.inj hf
    rw [← this]
    exact ⟨hasKey_iff.mp hc.1, hasKey_false_iff.mp hc.2, Or.inl he⟩
  · split at hf
    · rename_i hc
      simp only [Bool.and_eq_true, Bool.not_eq_true'] at hc
      have := Option.some.inj hf
      rw [← this]
      exact ⟨hasKey_iff.mp hc.1, hasKey_false_iff.mp hc.2, Or.inr he⟩
    · simp at hf

/-- No edge leaves the visited set. -/
def Closed (E : EL) (vis : List (Int × Int)) : Prop := ∀ e ∈ E, (e.1 ∈ keys vis ↔ e.2 ∈ keys vis)

theorem growStep_none {E : EL} {vis : List (Int × Int)} (h : growStep E vis = none) : Closed E vis := by
  unfold growStep at h
  rw [List.findSome?_eq_none_iff] at h
  intro e he
  have := h e he
  by_cases h1 : e.1 ∈ keys vis <;> by_cases h2 : e.2 ∈ keys vis
  · exact ⟨fun _ => h2, fun _ => h1⟩
  · have a1 := hasKey_iff.mpr h1
    have a2 := hasKey_false_iff.mpr h2
    simp [a1, a2] at this
  · have a1 := hasKey_false_iff.mpr h1
    have a2 := hasKey_iff.mpr h2
    simp [a1, a2] at this
  · exact ⟨fun h => absurd h h1, fun h => absurd h h2⟩

/-- The two ends of every edge inside the visited set are connected by links. -/
def Linked (E : EL) (vis : List (Int × Int)) : Prop :=
  ∀ e ∈ E, e.1 ∈ keys vis → e.2 ∈ keys vis → Conn (Lk vis) e.1 e.2

/-- Invariant while one tree (started at `r` after the closed prefix `done`) is grown. -/
structure GInv (E : EL) (V : List Int) (done : List (Int × Int)) (r : Int) (vis : List (Int × Int)) : Prop where
  ok : VisOK E V vis
  sub : ∀ k ∈ keys done, k ∈ keys vis
  conn : ∀ k ∈ keys vis, k ∈ keys done ∨ Conn (Lk vis) k r
  linked : Linked E vis

theorem GInv.start {E : EL} {V : List Int} {done : List (Int × Int)} {r : Int} (hok : VisOK E V done)
    (hcl : Closed E done) (hl : Linked E done) (hr : r ∈ V) (hnk : r ∉ keys done) :
    GInv E V done r (done ++ [(r, -1)]) := by
  refine ⟨.root hok hr hnk, ?_, ?_, ?_⟩
  · intro k hk; rw [keys_append]; exact List.mem_append_left _ hk
  · intro k hk
    rw [keys_append, List.mem_append] at hk
    rcases hk with hk | hk
    · exact Or.inl hk
    · simp [keys] at hk; right; rw [hk]; exact .refl _
  · intro e he h1 h2
    rw [keys_append, List.mem_append] at h1 h2
    rcases h1 with h1 | h1 <;> rcases h2 with h2 | h2
    · exact (hl e he h1 h2).lk_append _
    · exact absurd ((hcl e he).mp h1) (by simp [keys] at h2; rw [h2]; exact hnk)
    · exact absurd ((hcl e he).mpr h2) (by simp [keys] at h1; rw [h1]; exact hnk)
    · simp [keys] at h1 h2; rw [h1, h2]; exact .refl _

theorem GInv.extend {E : EL} {V : List Int} {done : List (Int × Int)} {r : Int} {vis : List (Int × Int)}
    (hends : ∀ e ∈ E, e.1 ∈ V ∧ e.2 ∈ V) (hVpos : ∀ k ∈ V, 0 ≤ k) (hcl : Closed E done)
    (h : GInv E V done r vis) {q : Int × Int}
    (hq : growStep E vis = some q) : GInv E V done r (vis ++ [q]) := by
  obtain ⟨hp, hv, hadj⟩ := growStep_some hq
  have hvV : q.1 ∈ V := by
    rcases hadj with h1 | h1
    · exact (hends _ h1).2
    · exact (hends _ h1).1
  have hpz : 0 ≤ q.2 := hVpos _ (h.ok.keys_sub _ hp)
  have hqL : q ∈ Lk (vis ++ [q]) := by
    rw [Lk_append]
    apply List.mem_append_right
    unfold Lk
    simp [hpz]
  -- the new node is linked to its parent, which belongs to the current tree
  have hpn : q.2 ∉ keys done := by
    intro hd
    -- then the closed prefix would already contain the new node
    have : q.1 ∈ keys done := by
      rcases hadj with h1 | h1
      · exact (hcl _ h1).mp hd
      · exact (hcl _ h1).mpr hd
    exact hv (h.sub _ this)
  have hpr : Conn (Lk vis) q.2 r := (h.conn _ hp).resolve_left hpn
  have hqr : Conn (Lk (vis ++ [q])) q.1 r :=
    (Conn.single (Or.inl hqL : Adj (Lk (vis ++ [q])) q.1 q.2)).trans (hpr.lk_append _)
  have hqeq : vis ++ [q] = vis ++ [(q.1, q.2)] := rfl
  refine ⟨hqeq ▸ .link h.ok hvV hv hp hadj, ?_, ?_, ?_⟩
  · intro k hk; rw [keys_append]; exact List.mem_append_left _ (h.sub k hk)
  · intro k hk
    rw [keys_append, List.mem_append] at hk
    rcases hk with hk | hk
    · exact (h.conn k hk).imp id (fun c => c.lk_append _)
    · simp [keys] at hk; right; rw [hk]; exact hqr
  · intro e he h1 h2
    rw [keys_append, List.mem_append] at h1 h2
    -- a visited end other than the new node lies in the current tree as soon as the other end is new
    have cur : ∀ c, c ∈ keys vis → (Adj E q.1 c) → Conn (Lk (vis ++ [q])) c r := by
      intro c hc hadj'
      rcases h.conn c hc with hd | hcr
      · exfalso
        have : q.1 ∈ keys done := by
          rcases hadj' with h1 | h1
          · exact (hcl _ h1).mpr hd
          · exact (hcl _ h1).mp hd
        exact hv (h.sub _ this)
      · exact hcr.lk_append _
    rcases h1 with h1 | h1 <;> rcases h2 with h2 | h2
    · exact (h.linked e he h1 h2).lk_append _
    · simp [keys] at h2
      have hc := cur e.1 h1 (Or.inr (by rw [← h2]; exact he))
      rw [h2]; exact hc.trans hqr.symm
    · simp [keys] at h1
      have hc := cur e.2 h2 (Or.inl (by rw [← h1]; exact he))
      rw [h1]; exact hqr.trans hc.symm
    · simp [keys] at h1 h2; rw [h1, h2]; exact .refl _

/-- Growing until no edge leaves the visited set (the fuel `|V|` is never exhausted). -/
theorem grow_inv {E : EL} {V : List Int} {done : List (Int × Int)} {r : Int}
    (hends : ∀ e ∈ E, e.1 ∈ V ∧ e.2 ∈ V) (hVpos : ∀ k ∈ V, 0 ≤ k) (hcl : Closed E done) (f : Nat) :
    ∀ vis, GInv E V done r vis → V.length < vis.length + f →
      GInv E V done r (grow E f vis) ∧ Closed E (grow E f vis) := by
  induction f with
  | zero =>
    intro vis h hlen
    exfalso
    have h1 := List.Nodup.length_le_of_subset h.ok.keys_nodup (fun a ha => h.ok.keys_sub a ha)
    simp [keys] at h1
    omega
  | succ f ih =>
    intro vis h hlen
    unfold grow
    cases hq : growStep E vis with
    | none => exact ⟨h, growStep_none hq⟩
    | some q =>
      simp only
      apply ih _ (h.extend hends hVpos hcl hq)
      simp; omega

theorem grow_keys_mono (E : EL) (f : Nat) : ∀ vis k, k ∈ keys vis → k ∈ keys (grow E f vis) := by
  induction f with
  | zero => intro vis k hk; exact hk
  | succ f ih =>
    intro vis k hk
    unfold grow
    cases hq : growStep E vis with
    | none => exact hk
    | some q =>
      simp only
      apply ih
      rw [keys_append]; exact List.mem_append_left _ hk

/-- Invariant between trees. -/
structure TInv (E : EL) (V : List Int) (vis : List (Int × Int)) : Prop where
  ok : VisOK E V vis
  closed : Closed E vis
  linked : Linked E vis

def travStep (E : EL) (n : Nat) (vis : List (Int × Int)) (r : Int) : List (Int × Int) :=
  if hasKey vis r then vis else grow E n (vis ++ [(r, -1)])

theorem traverse_eq (E : EL) (n : Nat) (order : List Int) : traverse E n order = order.foldl (travStep E n) [] := rfl

theorem travStep_inv {E : EL} {V : List Int} (hends : ∀ e ∈ E, e.1 ∈ V ∧ e.2 ∈ V) (hVpos : ∀ k ∈ V, 0 ≤ k)
    {vis : List (Int × Int)} (h : TInv E V vis) {r : Int} (hr : r ∈ V) :
    TInv E V (travStep E V.length vis r) ∧ (∀ k ∈ keys vis, k ∈ keys (travStep E V.length vis r)) ∧
      r ∈ keys (travStep E V.length vis r) := by
  unfold travStep
  cases hk : hasKey vis r with
  | true => simp only [if_true]; exact ⟨h, fun _ hk' => hk', hasKey_iff.mp hk⟩
  | false =>
    simp only [Bool.false_eq_true, if_false]
    have hnk := hasKey_false_iff.mp hk
    have hs := GInv.start h.ok h.closed h.linked hr hnk
    obtain ⟨hg, hc⟩ := grow_inv hends hVpos h.closed V.length _ hs (by simp)
    refine ⟨⟨hg.ok, hc, hg.linked⟩, fun k hk' => hg.sub k hk', ?_⟩
    apply grow_keys_mono
    rw [keys_append]; exact List.mem_append_right _ (by simp [keys])

theorem foldl_travStep_inv {E : EL} {V : List Int} (hends : ∀ e ∈ E, e.1 ∈ V ∧ e.2 ∈ V) (hVpos : ∀ k ∈ V, 0 ≤ k)
    (order : List Int) (ho : ∀ r ∈ order, r ∈ V) :
    ∀ vis, TInv E V vis →
      TInv E V (order.foldl (travStep E V.length) vis) ∧
      (∀ k ∈ keys vis, k ∈ keys (order.foldl (travStep E V.length) vis)) ∧
      ∀ r ∈ order, r ∈ keys (order.foldl (travStep E V.length) vis) := by
  induction order with
  | nil => intro vis h; exact ⟨h, fun _ hk => hk, by simp⟩
  | cons r rest ih =>
    intro vis h
    obtain ⟨h1, h2, h3⟩ := travStep_inv hends hVpos h (ho r (List.mem_cons_self))
    obtain ⟨g1, g2, g3⟩ := ih (fun x hx => ho x (List.mem_cons_of_mem _ hx)) _ h1
    rw [List.foldl_cons]
    refine ⟨g1, fun k hk => g2 k (h2 k hk), ?_⟩
    intro x hx
    rcases List.mem_cons.mp hx with rfl | hx
    · exact g2 _ h3
    · exact g3 x hx

theorem traverse_inv {E : EL} {V : List Int} (hends : ∀ e ∈ E, e.1 ∈ V ∧ e.2 ∈ V) (hVpos : ∀ k ∈ V, 0 ≤ k)
    (order : List Int) (ho : ∀ r ∈ order, r ∈ V) :
    TInv E V (traverse E V.length order) ∧ ∀ r ∈ order, r ∈ keys (traverse E V.length order) := by
  rw [traverse_eq]
  obtain ⟨h1, _, h3⟩ := foldl_travStep_inv hends hVpos order ho [] ⟨.nil, by intro e _; simp [keys], by
    intro e _ h; exact absurd h (by simp [keys])⟩
  exact ⟨h1, h3⟩

/-! ### rewire -/

def inTable (t : Table) (E : EL) : EL := E.filter fun e => (ids t).contains e.1 && (ids t).contains e.2

theorem rewire_eq (t : Table) (E : EL) :
    rewire t E = classify (reparent t (traverse (inTable t E) t.length (roots t ++ ids t))) := rfl

theorem inTable_ends {t : Table} {E : EL} : ∀ e ∈ inTable t E, e.1 ∈ ids t ∧ e.2 ∈ ids t := by
  intro e he
  unfold inTable at he
  have := (List.mem_filter.mp he).2
  simpa using this

theorem inTable_eq_self {t : Table} {E : EL} (h : ∀ e ∈ E, e.1 ∈ ids t ∧ e.2 ∈ ids t) : inTable t E = E := by
  unfold inTable
  rw [List.filter_eq_self]
  intro e he
  simpa using h e he

theorem length_ids (t : Table) : (ids t).length = t.length := by simp [ids]

theorem traverse_rewire {t : Table} (hw : WF t) (E : EL) :
    TInv (inTable t E) (ids t) (traverse (inTable t E) t.length (roots t ++ ids t)) ∧
      ∀ r ∈ ids t, r ∈ keys (traverse (inTable t E) t.length (roots t ++ ids t)) := by
  have := traverse_inv (E := inTable t E) (V := ids t) inTable_ends
    (fun k hk => ids_nonneg hw.2.1 hk) (roots t ++ ids t) (by
      intro r hr
      rcases List.mem_append.mp hr with h | h
      · exact roots_subset_ids h
      · exact h)
  rw [length_ids] at this
  exact ⟨this.1, fun r hr => this.2 r (List.mem_append_right _ hr)⟩

theorem links_classify (t : Table) : links (classify t) = links t := by
  simp [links, classify, List.map_map, Function.comp_def]

/-- `rewire` always returns a well-formed forest on the same rows, with correct labels. -/
theorem WF_rewire {t : Table} (hw : WF t) (E : EL) : WF (rewire t E) := by
  rw [rewire_eq]
  exact WF_classify (WF_reparent hw (traverse_rewire hw E).1.ok)

theorem coords_classify (t : Table) :
    (classify t).map (fun n => (n.id, n.x, n.y, n.z)) = t.map (fun n => (n.id, n.x, n.y, n.z)) := by
  simp [classify, List.map_map, Function.comp_def]

theorem coords_rewire (t : Table) (E : EL) :
    (rewire t E).map (fun n => (n.id, n.x, n.y, n.z)) = t.map (fun n => (n.id, n.x, n.y, n.z)) := by
  rw [rewire_eq, coords_classify, coords_reparent]

theorem uedges_rewire (t : Table) (E : EL) :
    uedges (rewire t E) = uedges (reparent t (traverse (inTable t E) t.length (roots t ++ ids t))) := by
  rw [rewire_eq]; exact uedges_congr (links_classify _)

/-- The two ends of every edge of the list lie in one tree of the result. -/
theorem rewire_connects {t : Table} (hw : WF t) {E : EL} (hends : ∀ e ∈ E, e.1 ∈ ids t ∧ e.2 ∈ ids t)
    {e : Int × Int} (he : e ∈ E) : Conn (uedges (rewire t E)) e.1 e.2 := by
  obtain ⟨hT, hall⟩ := traverse_rewire hw E
  rw [inTable_eq_self hends] at hT hall
  rw [uedges_rewire, inTable_eq_self hends]
  have := hT.linked e he (hall _ (hends e he).1) (hall _ (hends e he).2)
  exact this.mono fun a b hab => lk_adj_uedges hT.ok hab

/-- **rewire on an acyclic edge list**: a well-formed forest on the same rows whose undirected edges
are exactly the list. -/
theorem rewire_spec {t : Table} (hw : WF t) {E : EL} (hends : ∀ e ∈ E, e.1 ∈ ids t ∧ e.2 ∈ ids t)
    (hnorm : ∀ e ∈ E, uedge e.1 e.2 = e) (hac : Acyc E) :
    WF (rewire t E) ∧ (uedges (rewire t E)).Perm E := by
  have hwf := WF_rewire hw E
  refine ⟨hwf, ?_⟩
  have hsub : ∀ e ∈ uedges (rewire t E), e ∈ E := by
    intro e he
    rw [uedges_rewire, inTable_eq_self hends] at he
    have hT := (traverse_rewire hw E).1
    rw [inTable_eq_self hends] at hT
    exact uedges_reparent_sub hT.ok hnorm he
  rw [List.perm_ext_iff_of_nodup (Nodup_uedges hwf) hac.1]
  intro e
  refine ⟨hsub e, ?_⟩
  intro he
  apply Classical.byContradiction
  intro hne
  apply hac.2 e he
  apply (rewire_connects hw hends he).of_subset
  intro x hx
  rw [mem_erase_of_nodup hac.1]
  exact ⟨fun h => hne (h ▸ hx), hsub x hx⟩

end Navis.Heal
