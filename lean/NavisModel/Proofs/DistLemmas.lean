import NavisModel.Model.Dist
import NavisModel.Proofs.PathLemmas
/-! Helper lemmas for C05 (core Lean only). -/
namespace Navis.Forest

theorem uptoIncl_isSome_iff (b : Int) (l : List Int) : (uptoIncl b l).isSome ↔ b ∈ l := by
  induction l with
  | nil => simp [uptoIncl]
  | cons a rest ih =>
    unfold uptoIncl
    by_cases h : a = b
    · simp [h]
    · simp only [h, if_false, Option.isSome_map, ih, List.mem_cons]
      constructor
      · intro hm; exact Or.inr hm
      · rintro (hm | hm)
        · exact absurd hm.symm h
        · exact hm

theorem uptoIncl_head (b : Int) (rest : List Int) : uptoIncl b (b :: rest) = some [b] := by
  simp [uptoIncl]

/-- Directed distance is finite exactly for ancestor-or-self pairs. -/
theorem geo_directed_isSome_iff (t : Table) (len : Int → Int → Nat) (a b : Int) :
    (geo t len true a b).isSome ↔ b ∈ rootPath t a := by
  simp [geo, distUp, uptoIncl_isSome_iff]

theorem rootPath_cons {t : Table} {a : Int} (ha : a ∈ ids t) : ∃ rest, rootPath t a = a :: rest := by
  have := pathToRoot_head t t.length a ha
  unfold rootPath
  cases h : pathToRoot t (t.length + 1) a with
  | nil => rw [h] at this; simp at this
  | cons x rest => rw [h] at this; simp at this; exact ⟨rest, by rw [this]⟩

/-- The distance of a node to itself is zero (directed or not). -/
theorem geo_self (t : Table) (len : Int → Int → Nat) (d : Bool) (a : Int) (ha : a ∈ ids t) :
    geo t len d a a = some 0 := by
  obtain ⟨rest, hr⟩ := rootPath_cons ha
  have hd : distUp t len a a = some 0 := by
    simp [distUp, hr, uptoIncl_head, pathLen]
  cases d with
  | true => simp [geo, hd]
  | false =>
    have hl : lca t a a = some a := by
      simp [lca, hr]
    simp [geo, hl, hd]

theorem insertBy_perm {α} (lt : α → α → Bool) (x : α) (l : List α) : (insertBy lt x l).Perm (x :: l) := by
  induction l with
  | nil => simp [insertBy]
  | cons y ys ih =>
    unfold insertBy
    split
    · exact (List.Perm.cons y ih).trans (List.Perm.swap x y ys)
    · exact List.Perm.refl _

theorem sortBy_perm {α} (lt : α → α → Bool) (l : List α) : (sortBy lt l).Perm l := by
  induction l with
  | nil => simp [sortBy]
  | cons x xs ih =>
    show (insertBy lt x (sortBy lt xs)).Perm (x :: xs)
    exact (insertBy_perm lt x _).trans (List.Perm.cons x ih)

theorem perm_of_sortedInts_eq {a b : List Int} (h : sortedInts a = sortedInts b) : a.Perm b := by
  have h1 : (sortedInts a).Perm a := sortBy_perm _ a
  have h2 : (sortedInts b).Perm b := sortBy_perm _ b
  rw [h] at h1
  exact h1.symm.trans h2

theorem isParentPath_spec (t : Table) (s : List Int) (h : isParentPath t s = true) :
    s ≠ [] ∧ ∀ k (h1 : k + 1 < s.length), adjacent t (s[k]'(by omega)) (s[k+1]) = true := by
  induction s with
  | nil => simp [isParentPath] at h
  | cons a rest ih =>
    refine ⟨by simp, ?_⟩
    cases rest with
    | nil => intro k h1; simp at h1
    | cons b rest' =>
      simp only [isParentPath, Bool.and_eq_true] at h
      intro k h1
      cases k with
      | zero => simpa using h.1
      | succ k =>
        have := (ih h.2).2 k (by simp at h1 ⊢; omega)
        simpa using this

theorem nonIncreasing_spec (l : List Nat) (h : nonIncreasing l = true) :
    ∀ k (h1 : k + 1 < l.length), l[k+1] ≤ l[k]'(by omega) := by
  induction l with
  | nil => intro k h1; simp at h1
  | cons a rest ih =>
    cases rest with
    | nil => intro k h1; simp at h1
    | cons b rest' =>
      simp only [nonIncreasing, Bool.and_eq_true, decide_eq_true_eq] at h
      intro k h1
      cases k with
      | zero => simpa using h.1
      | succ k =>
        have := ih h.2 k (by simp at h1 ⊢; omega)
        simpa using this

theorem adjacent_iff (t : Table) (a b : Int) :
    adjacent t a b = true ↔ ∃ n, find? t a = some n ∧ 0 ≤ n.parent ∧ n.parent = b := by
  unfold adjacent
  cases h : find? t a with
  | none => simp
  | some n => simp

end Navis.Forest
