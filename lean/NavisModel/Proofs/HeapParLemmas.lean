import NavisModel.Proofs.HeapLemmas
/-!
Helper lemmas for C03: `map_neuronlist(..., parallel=True)` — forced `inplace=True` is sound exactly when every job runs on a
pickled copy.
-/
namespace Navis.Heap

/-- a job only allocates if it is not asked to work in place, or if it runs in the pool (on a pickled copy) -/
theorem runJob_ext (b : List Stmt) (s : Store) (x : Ref) (ip pooled : Bool) (hw : writesOwn true b = true)
    (h : ip = false ∨ pooled = true) : Ext s (runJob b s x ip pooled).1 := by
  cases pooled with
  | true =>
    simp only [runJob, if_true]
    cases ip with
    | true =>
      -- in place on the worker's copy = the copy-then-operate call (stale branch of copy) on the member
      have := call_ext b s x true hw
      simpa [call] using this
    | false =>
      exact (copyObj_ext s x true).trans (call_ext b _ _ false hw)
  | false =>
    rcases h with h | h
    · subst h
      simp only [runJob, Bool.false_eq_true, if_false]
      exact call_ext b s x false hw
    · cases h

theorem parCalls_ext (b : List Stmt) (hw : writesOwn true b = true) (ip pooled : Bool) (h : ip = false ∨ pooled = true) :
    ∀ (xs : List Ref) (s : Store), Ext s (parCalls b s xs ip pooled).1 := by
  intro xs; induction xs with
  | nil => intro s; exact Ext.refl s
  | cons x xs ih =>
    intro s
    exact (runJob_ext b s x ip pooled hw h).trans (ih _)

/-- the serial job with forced `inplace=True` writes the member's own node table -/
theorem runJob_serial_inplace_bump {s : Store} {x r : Ref} (hn : (s.obj x).nodes = some r) (hr : r < s.data.length) :
    (runJob [.wr .nodes bump] s x true false).1.rd r = s.rd r + 1 ∧ (runJob [.wr .nodes bump] s x true false).2 = x := by
  simp only [runJob, Bool.false_eq_true, if_false, call, if_true, exec, List.foldl_cons, List.foldl_nil]
  exact ⟨(step_bump_own hn hr).1, trivial⟩

end Navis.Heap
