import NavisModel.Model.JobSpec
import NavisModel.Proofs.PartitionLemmas
import NavisModel.Proofs.SmartLemmas
/-! Helper lemmas for the interpreter of the extracted job programs (C09; core Lean only). -/
namespace Navis.JobSpec
open Navis.Partition

/-- `enum` may stand for `list(set(qix) | set(tix))` of job `j`. -/
def ValidEnum (enum : List Nat) (j : Job) : Prop :=
  (∀ x ∈ j.qix, x ∈ enum) ∧ (∀ x ∈ j.tix, x ∈ enum)

/-- What has to be true of a job program for the assembled matrix to be right: through its own index
expressions, local query `a` is query `qix[a]` of the row list (with that neuron's own self hit), local
target `b` is target `tix[b]` of the column list, and the block goes to `(qix, tix)`. -/
structure Sound (p : Program) (sh : Bool) (V : List Nat → Job → Prop) : Prop where
  grid : p.gridOk = true
  lenQ : ∀ enum j, V enum j → (p.submitQ.eval (p.env enum j)).length = j.qix.length
  lenT : ∀ enum j, V enum j → (p.submitT.eval (p.env enum j)).length = j.tix.length
  entQ : ∀ enum j, V enum j → ∀ a (ha : a < j.qix.length),
    ((p.submitQ.eval (p.env enum j))[a]?).bind (fun k => (p.localList (p.env enum j))[k]?) =
      some (mkEnt sh p.indexRows j.qix[a])
  entT : ∀ enum j, V enum j → ∀ b (hb : b < j.tix.length),
    ((p.submitT.eval (p.env enum j))[b]?).bind (fun k => (p.localList (p.env enum j))[k]?) =
      some (mkEnt sh p.indexCols j.tix[b])
  destR : ∀ enum j, V enum j → p.placeRows.eval (p.env enum j) = j.qix
  destC : ∀ enum j, V enum j → p.placeCols.eval (p.env enum j) = j.tix

theorem block_get {α} (p : Program) (sh : Bool) (V : List Nat → Job → Prop) (hs : Sound p sh V)
    (f : Ent → Ent → α) (enum : List Nat) (j : Job) (hv : V enum j) (a b : Nat) (ha : a < j.qix.length) (hb : b < j.tix.length) :
    ((p.block f enum j)[a]?).bind (·[b]?) =
      some (some (f (mkEnt sh p.indexRows j.qix[a]) (mkEnt sh p.indexCols j.tix[b]))) := by
  have hq := hs.entQ enum j hv a ha
  have ht := hs.entT enum j hv b hb
  have ha' : a < (p.submitQ.eval (p.env enum j)).length := by rw [hs.lenQ enum j hv]; exact ha
  have hb' : b < (p.submitT.eval (p.env enum j)).length := by rw [hs.lenT enum j hv]; exact hb
  rw [List.getElem?_eq_getElem ha'] at hq
  rw [List.getElem?_eq_getElem hb'] at ht
  simp only [Option.bind_some] at hq ht
  unfold Program.block
  simp only [List.getElem?_map, List.getElem?_eq_getElem ha', List.getElem?_eq_getElem hb', Option.map_some,
    Option.bind_some]
  rw [hq, ht]

/-- **Interpreter correctness.** A sound program assembles the full matrix for every partition, every
enumeration order of the per-job sets and every completion order. -/
theorem run_sound {α} (p : Program) (sh : Bool) (V : List Nat → Job → Prop) (hs : Sound p sh V) (f : Ent → Ent → α)
    (nq nt rows cols : Nat) (hr : 0 < rows) (hc : 0 < cols) (enum : Job → List Nat)
    (henum : ∀ j ∈ jobs nq nt rows cols, V (enum j) j)
    (done : List Job) (hperm : done.Perm (jobs nq nt rows cols)) (r c : Nat) :
    p.run f enum done r c =
      if r < nq ∧ c < nt then some (some (f (mkEnt sh p.indexRows r) (mkEnt sh p.indexCols c))) else none := by
  unfold Program.run assembleBlocks
  have hmap : done.map (fun j => (p.dest (enum j) j, p.block f (enum j) j)) =
      done.map (fun j => (j, p.block f (enum j) j)) := by
    apply List.map_congr_left
    intro j hj
    have hv := henum j (hperm.mem_iff.mp hj)
    have : p.dest (enum j) j = j := by
      unfold Program.dest
      rw [hs.destR _ j hv, hs.destC _ j hv]
    rw [this]
  rw [hmap, fold_place_pairs (fun r c => some (f (mkEnt sh p.indexRows r) (mkEnt sh p.indexCols c)))]
  · have hiff : (∃ jr ∈ done.map (fun j => (j, p.block f (enum j) j)), r ∈ jr.1.qix ∧ c ∈ jr.1.tix) ↔
        (∃ j ∈ done, r ∈ j.qix ∧ c ∈ j.tix) := by
      constructor
      · rintro ⟨jr, hjr, h⟩
        rw [List.mem_map] at hjr
        obtain ⟨j, hj, rfl⟩ := hjr
        exact ⟨j, hj, h⟩
      · rintro ⟨j, hj, h⟩
        exact ⟨(j, p.block f (enum j) j), List.mem_map.mpr ⟨j, hj, rfl⟩, h⟩
    by_cases h : r < nq ∧ c < nt
    · rw [if_pos h, if_pos]
      obtain ⟨j, hj, hjc⟩ := cell_covered nq nt rows cols hr hc h.1 h.2
      exact hiff.mpr ⟨j, hperm.mem_iff.mpr hj, hjc⟩
    · rw [if_neg h, if_neg]; · rfl
      intro hex
      obtain ⟨j, hj, hjc⟩ := hiff.mp hex
      exact h (job_in_range nq nt rows cols hr hc (hperm.mem_iff.mp hj) hjc)
  · intro jr hjr a b ha hb
    rw [List.mem_map] at hjr
    obtain ⟨j, hj, rfl⟩ := hjr
    exact block_get p sh V hs f (enum j) j (henum j (hperm.mem_iff.mp hj)) a b ha hb

/-! ### The two shapes of append loops navis uses -/

theorem shOf_map (sh : Bool) (R : String) (i : Nat) :
    (if sh then some R else none).map (fun s => (s, i)) = if sh then some (R, i) else none := by
  cases sh <;> rfl

theorem entries_elem_get (over : IxE) (R : String) (sh : Bool) (env : Env) (a : Nat)
    (ha : a < (over.eval env).length) :
    ((AppendLoop.entries ⟨over, R, .elem, if sh then some R else none, .elem⟩ env))[a]? =
      some (mkEnt sh R (over.eval env)[a]) := by
  unfold AppendLoop.entries
  rw [List.getElem?_map, List.getElem?_zipIdx, List.getElem?_eq_getElem ha]
  simp only [Option.map_some, pick, mkEnt, shOf_map]

theorem entries_length (ap : AppendLoop) (env : Env) : (ap.entries env).length = (ap.over.eval env).length := by
  simp [AppendLoop.entries]

/-- `nblast`, the pre-phase of `nblast_smart`, `synblast`, `nblast_align`: queries appended first
(`qix`), then targets (`tix`), each looked up by its element `ix`; `queries = arange(len(qix))`,
`targets = arange(len(tix)) + len(qix)`; block placed at `(qix, tix)`. -/
theorem sound_concat (p : Program) (sh : Bool) (R C : String)
    (happ : p.appends = [⟨.qix, R, .elem, if sh then some R else none, .elem⟩,
                         ⟨.tix, C, .elem, if sh then some C else none, .elem⟩])
    (hq : p.submitQ = .arange .qix) (ht : p.submitT = .addLen (.arange .tix) .qix)
    (hr : p.placeRows = .qix) (hc : p.placeCols = .tix)
    (hir : p.indexRows = R) (hic : p.indexCols = C) (hg : p.gridOk = true) : Sound p sh (fun _ _ => True) := by
  have hloc : ∀ env, p.localList env =
      AppendLoop.entries ⟨.qix, R, .elem, if sh then some R else none, .elem⟩ env ++
      AppendLoop.entries ⟨.tix, C, .elem, if sh then some C else none, .elem⟩ env := by
    intro env; unfold Program.localList; rw [happ]; simp
  refine ⟨hg, ?_, ?_, ?_, ?_, ?_, ?_⟩
  · intro enum j _; rw [hq]; simp [IxE.eval, Program.env]
  · intro enum j _; rw [ht]; simp [IxE.eval, Program.env]
  · intro enum j _ a ha
    rw [hq, hloc, hir]
    have h1 : (IxE.eval (p.env enum j) (.arange .qix))[a]? = some a := by
      simp only [IxE.eval, Program.env]; exact List.getElem?_range ha
    rw [h1]
    simp only [Option.bind_some]
    have hlen : a < (IxE.eval (p.env enum j) .qix).length := by simpa [IxE.eval, Program.env] using ha
    rw [List.getElem?_append_left (by rw [entries_length]; exact hlen), entries_elem_get _ _ _ _ _ hlen]
    rfl
  · intro enum j _ b hb
    rw [ht, hloc, hic]
    have h1 : (IxE.eval (p.env enum j) (.addLen (.arange .tix) .qix))[b]? = some (b + j.qix.length) := by
      simp only [IxE.eval, Program.env, List.getElem?_map, List.getElem?_range hb, Option.map_some]
    rw [h1]
    simp only [Option.bind_some]
    have hl1 : (AppendLoop.entries ⟨.qix, R, .elem, if sh then some R else none, .elem⟩ (p.env enum j)).length =
        j.qix.length := by rw [entries_length]; rfl
    have hlen : b < (IxE.eval (p.env enum j) .tix).length := by simpa [IxE.eval, Program.env] using hb
    rw [List.getElem?_append_right (by rw [hl1]; omega), hl1, Nat.add_sub_cancel,
      entries_elem_get _ _ _ _ _ hlen]
    rfl
  · intro enum j _; rw [hr]; rfl
  · intro enum j _; rw [hc]; rfl

theorem lookup_zipIdx (enum : List Nat) (x k : Nat) (hx : x ∈ enum) :
    ((enum.zipIdx k).map fun q => (q.1, q.2)).lookup x = some (k + enum.idxOf x) := by
  induction enum generalizing k with
  | nil => simp at hx
  | cons e es ih =>
    simp only [List.zipIdx_cons, List.map_cons, List.lookup_cons, List.idxOf_cons]
    by_cases hxe : x = e
    · subst hxe; simp
    · have hx' : x ∈ es := by
        rcases List.mem_cons.mp hx with h | h
        · exact absurd h hxe
        · exact h
      have h1 : (x == e) = false := by simp [hxe]
      have h2 : (e == x) = false := by simp [Ne.symm hxe]
      rw [h1, h2]
      simp only [cond_false]
      rw [ih (k + 1) hx']; congr 1; omega

theorem viaMap_eval (p : Program) (hix : p.ixmap = some (.elem, .counter)) (enum : List Nat) (j : Job) (e : IxE)
    (hmem : ∀ x ∈ e.eval (p.env enum j), x ∈ enum) :
    (IxE.viaMap e).eval (p.env enum j) = (e.eval (p.env enum j)).map fun x => enum.idxOf x := by
  simp only [IxE.eval]
  apply List.map_congr_left
  intro x hx
  have : (p.env enum j).ixmap = (enum.zipIdx 0).map fun q => (q.1, q.2) := by
    simp only [Program.env, Program.ixmapOf, hix, pick]
  rw [this, lookup_zipIdx enum x 0 (hmem x hx)]
  simp

/-- `nblast_allbyall`: one append loop over `list(set(qix) | set(tix))` that also fills `ixmap[ix] = i`;
`queries = [ixmap[ix] for ix in qix]`, `targets = [ixmap[ix] for ix in tix]`. -/
theorem sound_union (p : Program) (sh : Bool) (R : String)
    (happ : p.appends = [⟨.union, R, .elem, if sh then some R else none, .elem⟩])
    (hix : p.ixmap = some (.elem, .counter))
    (hq : p.submitQ = .viaMap .qix) (ht : p.submitT = .viaMap .tix)
    (hr : p.placeRows = .qix) (hc : p.placeCols = .tix)
    (hir : p.indexRows = R) (hic : p.indexCols = R) (hg : p.gridOk = true) : Sound p sh ValidEnum := by
  have hloc : ∀ env, p.localList env =
      AppendLoop.entries ⟨.union, R, .elem, if sh then some R else none, .elem⟩ env := by
    intro env; unfold Program.localList; rw [happ]; simp
  have key : ∀ enum j (l : List Nat), (∀ x ∈ l, x ∈ enum) → ∀ a (ha : a < l.length),
      ((l.map fun x => enum.idxOf x)[a]?).bind (fun k => (p.localList (p.env enum j))[k]?) =
        some (mkEnt sh R l[a]) := by
    intro enum j l hl a ha
    rw [List.getElem?_map, List.getElem?_eq_getElem ha]
    simp only [Option.map_some, Option.bind_some]
    have hmem : l[a] ∈ enum := hl _ (List.getElem_mem ha)
    have hlt : enum.idxOf l[a] < (IxE.eval (p.env enum j) .union).length := by
      simpa [IxE.eval, Program.env] using List.idxOf_lt_length_of_mem hmem
    rw [hloc, entries_elem_get _ _ _ _ _ hlt]
    congr 2
    simp only [IxE.eval, Program.env]
    exact List.getElem_idxOf _
  refine ⟨hg, ?_, ?_, ?_, ?_, ?_, ?_⟩
  · intro enum j hv
    rw [hq, viaMap_eval p hix enum j .qix (fun x hx => hv.1 x hx)]; simp [IxE.eval, Program.env]
  · intro enum j hv
    rw [ht, viaMap_eval p hix enum j .tix (fun x hx => hv.2 x hx)]; simp [IxE.eval, Program.env]
  · intro enum j hv a ha
    rw [hq, viaMap_eval p hix enum j .qix (fun x hx => hv.1 x hx), hir]
    exact key enum j j.qix hv.1 a ha
  · intro enum j hv b hb
    rw [ht, viaMap_eval p hix enum j .tix (fun x hx => hv.2 x hx), hic]
    exact key enum j j.tix hv.2 b hb
  · intro enum j _; rw [hr]; rfl
  · intro enum j _; rw [hc]; rfl

/-! ### `scores='both'` rows as extracted -/

theorem both_rows_eval (env : Env) :
    (IxE.addSlice (.rep (.mul .qix 2) 2) 1 2 1).eval env = bothRows env.j.qix := by
  simp only [IxE.eval, bothRows, addOdd, repeat2]
  have h1 : (fun (v : Nat) => List.replicate 2 v) = fun v => [v, v] := by
    funext v; rfl
  have h2 : (fun (i x : Nat) => if 1 ≤ i ∧ (i - 1) % 2 = 0 then x + 1 else x) =
      fun i x => if i % 2 = 1 then x + 1 else x := by
    funext i x
    by_cases h : i % 2 = 1
    · rw [if_pos h, if_pos (by omega)]
    · rw [if_neg h, if_neg (by omega)]
  rw [h1, h2]

/-! ### smart NBLAST facts -/

theorem pyIndex_zero (l : List Nat) : pyIndex l 0 = l.head? := by
  simp [pyIndex, List.head?_eq_getElem?]

theorem pyIndex_neg_one (l : List Nat) : pyIndex l (-1) = l.getLast? := by
  unfold pyIndex
  rw [if_neg (by omega), List.getLast?_eq_getElem?]
  have : (-(-1 : Int)).toNat = 1 := by decide
  rw [this]
  by_cases h : 1 ≤ l.length
  · rw [if_pos h]
  · rw [if_neg h]
    have : l.length = 0 := by omega
    have hl : l = [] := List.length_eq_zero_iff.mp this
    subst hl; rfl

theorem smart_pairs_eq (sf : SmartFacts) (h1 : sf.submaskRows = .qix) (h2 : sf.submaskCols = .tix)
    (h3 : sf.pairsOffsetCol = 1) (h4 : sf.pairsOffset = .qix) (mask : Nat → Nat → Bool) (j : Job) :
    sf.pairs mask j = Smart.pairs mask j := by
  unfold SmartFacts.pairs Smart.pairs Smart.submask
  simp only [h1, h2, h3, h4, IxE.eval, SmartFacts.env, if_true]

theorem smart_jobMask_eq (sf : SmartFacts) (h1 : sf.sliceRows = ⟨.qix, 0, -1, 1⟩)
    (h2 : sf.sliceCols = ⟨.tix, 0, -1, 1⟩) (mask : Nat → Nat → Bool) (j : Job) :
    sf.jobMask mask j = Smart.jobMask mask j := by
  unfold SmartFacts.jobMask Smart.jobMask SliceE.bounds
  simp only [h1, h2, IxE.eval, SmartFacts.env, pyIndex_zero, pyIndex_neg_one]

theorem smart_local_eq (sf : SmartFacts) (R C : String)
    (happ : sf.appends = [⟨.qix, R, .elem, some R, .elem⟩, ⟨.tix, C, .elem, some C, .elem⟩]) (j : Job) :
    sf.localList j = j.qix.map (mkEnt true R) ++ j.tix.map (mkEnt true C) := by
  have hent : ∀ (over : IxE) (N : String),
      AppendLoop.entries ⟨over, N, .elem, some N, .elem⟩ (SmartFacts.env j) =
        (over.eval (SmartFacts.env j)).map (mkEnt true N) := by
    intro over N
    apply List.ext_getElem?
    intro a
    by_cases ha : a < (over.eval (SmartFacts.env j)).length
    · have := entries_elem_get over N true (SmartFacts.env j) a ha
      simp only [if_true] at this
      rw [this, List.getElem?_map, List.getElem?_eq_getElem ha]; rfl
    · have hl : (AppendLoop.entries ⟨over, N, .elem, some N, .elem⟩ (SmartFacts.env j)).length =
          (over.eval (SmartFacts.env j)).length := entries_length _ _
      rw [List.getElem?_eq_none (by omega), List.getElem?_eq_none (by rw [List.length_map]; omega)]
  unfold SmartFacts.localList
  rw [happ]
  simp only [List.flatMap_cons, List.flatMap_nil, List.append_nil, hent]
  rfl

end Navis.JobSpec
