import NavisModel.Model.TreeEdit
import NavisModel.Proofs.SubsetAlgebra
/-!
C10 second pass: `prune_distal_to` / `prune_proximal_to` with several nodes (successive single prunes),
and the bookkeeping facts about `cutMany` (every fragment well formed, every original edge in exactly one
fragment, every node in some fragment).  Core Lean only.
-/
namespace Navis.TreeEdit
open Navis.Forest

/-! ### one prune -/

theorem pruneDistal1_eq {t t' : Table} {c : Int} (h : pruneDistal1 t c = some t') :
    t' = subset t (keepDistalMany t [c]) ∧ ∃ nc, find? t c = some nc ∧ ¬ nc.parent < 0 := by
  unfold pruneDistal1 at h
  cases hc : cut t c with
  | none => rw [hc] at h; simp at h
  | some dp =>
    obtain ⟨d, p⟩ := dp
    rw [hc] at h
    simp only [Option.map_some, Option.some.injEq] at h
    obtain ⟨_, hp, nc, hf, hnc⟩ := cut_some hc
    refine ⟨?_, nc, hf, hnc⟩
    rw [← h, hp]
    apply subset_congr
    intro i hi
    unfold keepDistalMany
    simp only [List.all_cons, List.all_nil, Bool.and_true]
    have : (distalSet t c).contains i = (rootPath t i).contains c := by
      rw [Bool.eq_iff_iff]
      simp only [List.contains_eq_mem, decide_eq_true_eq, mem_distalSet]
      exact ⟨fun h => h.2, fun h => ⟨hi, h⟩⟩
    rw [this]

theorem pruneProximal1_eq {t t' : Table} {c : Int} (h : pruneProximal1 t c = some t') :
    t' = subset t (fun i => (rootPath t i).contains c) ∧ ∃ nc, find? t c = some nc ∧ ¬ nc.parent < 0 := by
  unfold pruneProximal1 at h
  cases hc : cut t c with
  | none => rw [hc] at h; simp at h
  | some dp =>
    obtain ⟨d, p⟩ := dp
    rw [hc] at h
    simp only [Option.map_some, Option.some.injEq] at h
    obtain ⟨hd, _, nc, hf, hnc⟩ := cut_some hc
    refine ⟨?_, nc, hf, hnc⟩
    rw [← h, hd]
    apply subset_congr
    intro i hi
    rw [Bool.eq_iff_iff]
    simp only [List.contains_eq_mem, decide_eq_true_eq, mem_distalSet]
    exact ⟨fun h => h.2, fun h => ⟨hi, h⟩⟩

/-! ### `prune_distal_to` with several nodes -/

/-- The nodes kept by a distal prune are closed under taking ancestors. -/
theorem keepDistal1_upclosed {t : Table} (hw : WF t) {c i a : Int} (hk : keepDistalMany t [c] i = true)
    (ha : a ∈ rootPath t i) : keepDistalMany t [c] a = true := by
  unfold keepDistalMany at hk ⊢
  simp only [List.all_cons, List.all_nil, Bool.and_true, Bool.or_eq_true, Bool.not_eq_true', List.contains_eq_mem,
    decide_eq_false_iff_not, beq_iff_eq] at hk ⊢
  by_cases hca : c ∈ rootPath t a
  · right
    have hci : c ∈ rootPath t i := anc_trans hw hca ha
    rcases hk with hk | hk
    · exact absurd hci hk
    · subst hk
      exact anc_antisymm hw ha hca
  · exact Or.inl hca

/-- Root paths of kept nodes are unchanged by a distal prune. -/
theorem rootPath_pruneDistal {t : Table} (hw : WF t) {c i : Int} (hi : i ∈ ids t) (hk : keepDistalMany t [c] i = true) :
    rootPath (subset t (keepDistalMany t [c])) i = rootPath t i := by
  rw [rootPath_subset hw _ i hi hk]
  have : ∀ a ∈ rootPath t i, keepDistalMany t [c] a = true := fun a ha => keepDistal1_upclosed hw hk ha
  have h2 := List.takeWhile_append_of_pos (l₂ := []) this
  simpa using h2

theorem keepDistalMany_cons (t : Table) (c : Int) (cs : List Int) (i : Int) :
    keepDistalMany t (c :: cs) i = (keepDistalMany t [c] i && keepDistalMany t cs i) := by
  unfold keepDistalMany
  simp [List.all_cons]

theorem keepDistalMany_congr {t u : Table} {i : Int} (h : rootPath t i = rootPath u i) (cs : List Int) :
    keepDistalMany t cs i = keepDistalMany u cs i := by
  unfold keepDistalMany
  rw [h]

theorem subset_true_subset (t : Table) (K : Int → Bool) : subset (subset t K) (fun _ => true) = subset t K := by
  rw [subset_subset]
  apply subset_congr
  intro i _
  simp

/-- A successful non-empty sequence of prunes ends in a table that is a subset of something. -/
theorem pruneMany_distal_is_subset {cs : List Int} : ∀ {t t' : Table} {c : Int},
    pruneMany pruneDistal1 t (c :: cs) = some t' → ∃ u K, t' = subset u K := by
  induction cs with
  | nil =>
    intro t t' c h
    unfold pruneMany at h
    cases h1 : pruneDistal1 t c with
    | none => rw [h1] at h; simp at h
    | some t1 =>
      rw [h1] at h
      simp only [pruneMany, Option.some.injEq] at h
      exact ⟨t, _, h ▸ (pruneDistal1_eq h1).1⟩
  | cons c' cs ih =>
    intro t t' c h
    unfold pruneMany at h
    cases h1 : pruneDistal1 t c with
    | none => rw [h1] at h; simp at h
    | some t1 =>
      rw [h1] at h
      exact ih h

theorem pruneMany_distal_norm {cs : List Int} : ∀ {s t' : Table}, WF s → pruneMany pruneDistal1 s cs = some t' →
    subset t' (fun _ => true) = subset s (keepDistalMany s cs) := by
  induction cs with
  | nil =>
    intro s t' _ h
    simp only [pruneMany, Option.some.injEq] at h
    subst h
    rfl
  | cons c cs ih =>
    intro s t' hw h
    unfold pruneMany at h
    cases h1 : pruneDistal1 s c with
    | none => rw [h1] at h; simp at h
    | some s1 =>
      rw [h1] at h
      simp only at h
      obtain ⟨hs1, _⟩ := pruneDistal1_eq h1
      have hw1 : WF s1 := hs1 ▸ WF_subset hw _
      rw [ih hw1 h, hs1, subset_subset]
      apply subset_congr
      intro i hi
      rw [keepDistalMany_cons s c cs i]
      by_cases hk : keepDistalMany s [c] i = true
      · rw [hk, Bool.true_and, Bool.true_and]
        exact keepDistalMany_congr (rootPath_pruneDistal hw hi hk) cs
      · simp only [Bool.not_eq_true] at hk
        rw [hk, Bool.false_and, Bool.false_and]

/-- **Several distal prunes at once**: when the successive single prunes succeed, the result is the
subset of the ORIGINAL table to the nodes that are not strictly below any listed node. -/
theorem pruneMany_distal_eq {t t' : Table} (hw : WF t) {c : Int} {cs : List Int}
    (h : pruneMany pruneDistal1 t (c :: cs) = some t') : t' = subset t (keepDistalMany t (c :: cs)) := by
  obtain ⟨u, K, hu⟩ := pruneMany_distal_is_subset h
  rw [← pruneMany_distal_norm hw h, hu, subset_true_subset]

theorem keepDistalMany_perm {t : Table} {cs cs' : List Int} (hp : cs'.Perm cs) (i : Int) :
    keepDistalMany t cs' i = keepDistalMany t cs i := by
  unfold keepDistalMany
  rw [Bool.eq_iff_iff, List.all_eq_true, List.all_eq_true]
  exact ⟨fun h x hx => h x (hp.mem_iff.mpr hx), fun h x hx => h x (hp.mem_iff.mp hx)⟩

/-- … so the order in which the nodes are listed does not matter (whenever both orders go through). -/
theorem pruneMany_distal_perm {t a b : Table} (hw : WF t) {cs cs' : List Int} (hne : cs ≠ []) (hp : cs'.Perm cs)
    (h1 : pruneMany pruneDistal1 t cs = some a) (h2 : pruneMany pruneDistal1 t cs' = some b) : a = b := by
  cases cs with
  | nil => exact absurd rfl hne
  | cons c cs =>
    cases cs' with
    | nil => exact absurd hp.symm.eq_nil (by simp)
    | cons c' cs' =>
      rw [pruneMany_distal_eq hw h1, pruneMany_distal_eq hw h2]
      apply subset_congr
      intro i _
      exact (keepDistalMany_perm hp i).symm

/-- Node-set form: exactly the nodes strictly below a listed node are removed. -/
theorem mem_ids_pruneMany_distal {t t' : Table} (hw : WF t) {c : Int} {cs : List Int}
    (h : pruneMany pruneDistal1 t (c :: cs) = some t') (i : Int) :
    i ∈ ids t' ↔ i ∈ ids t ∧ ∀ x ∈ c :: cs, x ∈ rootPath t i → i = x := by
  rw [pruneMany_distal_eq hw h, ids_subset, List.mem_filter]
  unfold keepDistalMany
  simp only [List.all_eq_true, Bool.or_eq_true, Bool.not_eq_true', List.contains_eq_mem, decide_eq_false_iff_not,
    beq_iff_eq]
  constructor
  · rintro ⟨h1, h2⟩
    refine ⟨h1, fun x hx hxi => ?_⟩
    rcases h2 x hx with h3 | h3
    · exact absurd hxi h3
    · exact h3
  · rintro ⟨h1, h2⟩
    refine ⟨h1, fun x hx => ?_⟩
    by_cases hxi : x ∈ rootPath t i
    · exact Or.inr (h2 x hx hxi)
    · exact Or.inl hxi

/-! ### `prune_proximal_to` with several nodes -/

/-- **Several proximal prunes at once**: when the successive single prunes succeed, the result is the subtree of
the LAST listed node (as a subset of the original table), and the listed nodes descend from the first. -/
theorem pruneMany_proximal_eq {cs : List Int} : ∀ {t t' : Table} {c last : Int}, WF t →
    pruneMany pruneProximal1 t (c :: cs) = some t' → (c :: cs).getLast? = some last →
    t' = subset t (fun i => (rootPath t i).contains last) ∧ c ∈ rootPath t last := by
  induction cs with
  | nil =>
    intro t t' c last hw h hl
    simp only [List.getLast?_singleton, Option.some.injEq] at hl
    subst hl
    unfold pruneMany at h
    cases h1 : pruneProximal1 t c with
    | none => rw [h1] at h; simp at h
    | some t1 =>
      rw [h1] at h
      simp only [pruneMany, Option.some.injEq] at h
      obtain ⟨e, nc, hf, _⟩ := pruneProximal1_eq h1
      exact ⟨h ▸ e, anc_refl (mem_ids.mpr ⟨nc, find?_some hf⟩)⟩
  | cons c' cs ih =>
    intro t t' c last hw h hl
    rw [List.getLast?_cons_cons] at hl
    unfold pruneMany at h
    cases h1 : pruneProximal1 t c with
    | none => rw [h1] at h; simp at h
    | some d =>
      rw [h1] at h
      simp only at h
      obtain ⟨hd, _⟩ := pruneProximal1_eq h1
      have hwd : WF d := hd ▸ WF_subset hw _
      obtain ⟨e, hc'⟩ := ih hwd h hl
      rw [hd] at hc'
      obtain ⟨a1, a2, _, _⟩ := anc_of_anc_subset hw _ hc'
      simp only [List.contains_eq_mem, decide_eq_true_eq] at a2
      have hcl : c ∈ rootPath t last := anc_trans hw a2 a1
      refine ⟨?_, hcl⟩
      rw [e, hd, subset_subset]
      apply subset_congr
      intro i hi
      by_cases hk : (rootPath t i).contains c = true
      · rw [hk, Bool.true_and, Bool.eq_iff_iff, List.contains_iff_mem, List.contains_iff_mem]
        have hconv : ∀ x ∈ rootPath t i, last ∈ rootPath t x → (fun j => (rootPath t j).contains c) x = true := by
          intro x _ hx
          exact List.contains_iff_mem.mpr (anc_trans hw hcl hx)
        rw [anc_subset_iff hw (fun j => (rootPath t j).contains c) hi hk hconv]
        exact ⟨fun hh => hh.1, fun hh => ⟨hh, List.contains_iff_mem.mpr hcl⟩⟩
      · simp only [Bool.not_eq_true] at hk
        rw [hk, Bool.false_and]
        symm
        simp only [List.contains_eq_mem, decide_eq_false_iff_not]
        intro hli
        have := anc_trans hw hcl hli
        simp only [List.contains_eq_mem, decide_eq_false_iff_not] at hk
        exact hk this

/-! ### `cutMany`: bookkeeping -/

theorem cutMany_eq_foldl (t : Table) (cs : List Int) : cutMany t cs = cs.foldl cutStep [t] := rfl

theorem split_at_getElem? {α : Type} : ∀ {l : List α} {k : Nat} {f : α}, l[k]? = some f → l = l.take k ++ f :: l.drop (k + 1)
  | [], k, f, h => by simp at h
  | a :: l, 0, f, h => by simp at h; simp [h]
  | a :: l, k + 1, f, h => by
    simp only [List.getElem?_cons_succ] at h
    have := split_at_getElem? h
    simp only [List.take_succ_cons, List.drop_succ_cons, List.cons_append]
    rw [← this]

/-- What one step of a multi-cut does to the fragment list: nothing, or one fragment is replaced by its two pieces. -/
theorem cutStep_cases (frags : List Table) (c : Int) :
    cutStep frags c = frags ∨
    ∃ l1 l2 f d p, frags = l1 ++ f :: l2 ∧ cut f c = some (d, p) ∧ cutStep frags c = l1 ++ d :: p :: l2 := by
  unfold cutStep
  cases h1 : frags.findIdx? (fun f => (ids f).contains c) with
  | none => exact Or.inl rfl
  | some k =>
    simp only
    cases h2 : frags[k]? with
    | none => exact Or.inl rfl
    | some f =>
      simp only
      cases h3 : cut f c with
      | none => exact Or.inl rfl
      | some dp =>
        obtain ⟨d, p⟩ := dp
        right
        refine ⟨frags.take k, frags.drop (k + 1), f, d, p, split_at_getElem? h2, h3, ?_⟩
        simp

/-- Invariant of a multi-cut: every fragment is a well-formed, correctly labelled forest, the fragments' edges
are exactly the original edges (each once), and the fragments' nodes are exactly the original nodes. -/
structure FragsOK (t : Table) (frags : List Table) : Prop where
  wf : ∀ f ∈ frags, WF f ∧ labelsOKB f = true
  edges : (frags.flatMap edges).Perm (edges t)
  nodes : ∀ i, i ∈ ids t ↔ ∃ f ∈ frags, i ∈ ids f

theorem fragsOK_init {t : Table} (hw : WF t) (hl : labelsOKB t = true) : FragsOK t [t] :=
  ⟨fun f hf => by simp at hf; subst hf; exact ⟨hw, hl⟩, by simp, fun i => by simp⟩

theorem fragsOK_step {t : Table} {frags : List Table} (h : FragsOK t frags) (c : Int) : FragsOK t (cutStep frags c) := by
  rcases cutStep_cases frags c with e | ⟨l1, l2, f, d, p, hsplit, hcut, e⟩
  · rw [e]; exact h
  · rw [e]
    have hwf : WF f := (h.wf f (by rw [hsplit]; simp)).1
    have hd : WF d ∧ labelsOKB d = true := by
      obtain ⟨rfl, _, _⟩ := cut_some hcut
      exact ⟨WF_subset hwf _, labelsOKB_subset _ _⟩
    have hp : WF p ∧ labelsOKB p = true := by
      obtain ⟨_, rfl, _⟩ := cut_some hcut
      exact ⟨WF_subset hwf _, labelsOKB_subset _ _⟩
    refine ⟨?_, ?_, ?_⟩
    · intro g hg
      simp only [List.mem_append, List.mem_cons] at hg
      rcases hg with hg | hg | hg | hg
      · exact h.wf g (by rw [hsplit]; simp [hg])
      · exact hg ▸ hd
      · exact hg ▸ hp
      · exact h.wf g (by rw [hsplit]; simp [hg])
    · have e1 := h.edges
      rw [hsplit] at e1
      simp only [List.flatMap_append, List.flatMap_cons] at e1 ⊢
      refine List.Perm.trans ?_ e1
      apply List.Perm.append_left
      rw [← List.append_assoc]
      exact List.Perm.append_right _ (edges_cut_perm hwf hcut)
    · intro i
      rw [h.nodes i, hsplit]
      have hdp : i ∈ ids f ↔ i ∈ ids d ∨ i ∈ ids p := by
        rw [mem_ids_cut_distal hcut, mem_ids_cut_proximal hcut]
        constructor
        · intro hi
          by_cases hc : c ∈ rootPath f i
          · exact Or.inl ⟨hi, hc⟩
          · exact Or.inr ⟨hi, Or.inl hc⟩
        · rintro (hh | hh) <;> exact hh.1
      constructor
      · rintro ⟨g, hg, hi⟩
        simp only [List.mem_append, List.mem_cons] at hg
        rcases hg with hg | hg | hg
        · exact ⟨g, by simp [hg], hi⟩
        · subst hg
          rcases hdp.mp hi with hh | hh
          · exact ⟨d, by simp, hh⟩
          · exact ⟨p, by simp, hh⟩
        · exact ⟨g, by simp [hg], hi⟩
      · rintro ⟨g, hg, hi⟩
        simp only [List.mem_append, List.mem_cons] at hg
        rcases hg with hg | hg | hg | hg
        · exact ⟨g, by simp [hg], hi⟩
        · exact ⟨f, by simp, hdp.mpr (Or.inl (hg ▸ hi))⟩
        · exact ⟨f, by simp, hdp.mpr (Or.inr (hg ▸ hi))⟩
        · exact ⟨g, by simp [hg], hi⟩

theorem fragsOK_cutMany {t : Table} (hw : WF t) (hl : labelsOKB t = true) (cs : List Int) : FragsOK t (cutMany t cs) := by
  rw [cutMany_eq_foldl]
  have : ∀ (cs : List Int) (frags : List Table), FragsOK t frags → FragsOK t (cs.foldl cutStep frags) := by
    intro cs
    induction cs with
    | nil => intro frags h; exact h
    | cons c cs ih => intro frags h; exact ih _ (fragsOK_step h c)
  exact this cs [t] (fragsOK_init hw hl)

end Navis.TreeEdit
