import NavisModel.Proofs.PruneManyLemmas
/-!
C10 second pass (core Lean only): the front end of `cut_skeleton` and the loops of the prune methods, as
written, refine the table-level `cutMany` / successive single prunes; every fragment carries exactly the
connectors, tags and soma that sit on its nodes.
-/
namespace Navis.TreeEdit
open Navis.Forest

/-! ### pieces of one cut -/

theorem cutPieces_ok {x : Neuron} {c : Int} {ret : Ret} {ps : List Neuron} (h : cutPieces x c ret = .ok ps) :
    ∃ nc, find? x.nodes c = some nc ∧ ¬ nc.parent < 0 ∧
      ps = (match ret with
        | .both => [subsetNeuron x (fun i => (distalSet x.nodes c).contains i),
                    subsetNeuron x (fun i => !(distalSet x.nodes c).contains i || i == c)]
        | .distal => [subsetNeuron x (fun i => (distalSet x.nodes c).contains i)]
        | .proximal => [subsetNeuron x (fun i => !(distalSet x.nodes c).contains i || i == c)]) := by
  unfold cutPieces at h
  cases hf : find? x.nodes c with
  | none => rw [hf] at h; simp at h
  | some nc =>
    rw [hf] at h
    simp only at h
    by_cases hp : nc.parent < 0
    · rw [if_pos hp] at h; simp at h
    · rw [if_neg hp] at h
      simp only [Except.ok.injEq] at h
      cases ret <;> exact ⟨nc, rfl, hp, h.symm⟩

theorem cut_of_find {t : Table} {c : Int} {nc : Node} (hf : find? t c = some nc) (hp : ¬ nc.parent < 0) :
    cut t c = some (subset t (fun i => (distalSet t c).contains i), subset t (fun i => !(distalSet t c).contains i || i == c)) := by
  unfold cut
  rw [hf]
  simp [hp]

theorem cut_none_of_absent {t : Table} {c : Int} (hf : find? t c = none) : cut t c = none := by
  unfold cut; rw [hf]

theorem cut_none_of_root {t : Table} {c : Int} {nc : Node} (hf : find? t c = some nc) (hp : nc.parent < 0) : cut t c = none := by
  unfold cut; rw [hf]; simp [hp]

@[simp] theorem subsetNeuron_nodes (x : Neuron) (keep : Int → Bool) (kd : Bool) :
    (subsetNeuron x keep kd).nodes = subset x.nodes keep := rfl

/-! ### the fragment loop with `ret='both'` is `cutMany` on the node tables -/

theorem cutLoop_both_nodes {cs : List Int} : ∀ {res out : List Neuron}, cutLoop .both res cs = .ok out →
    out.map (·.nodes) = cs.foldl cutStep (res.map (·.nodes)) := by
  induction cs with
  | nil =>
    intro res out h
    simp only [cutLoop, Except.ok.injEq] at h
    subst h; rfl
  | cons cn rest ih =>
    intro res out h
    unfold cutLoop at h
    cases h1 : res.findIdx? (fun f => (ids f.nodes).contains cn) with
    | none => rw [h1] at h; simp at h
    | some k =>
      rw [h1] at h
      simp only at h
      cases h2 : res[k]? with
      | none => rw [h2] at h; simp at h
      | some f =>
        rw [h2] at h
        simp only at h
        cases h3 : cutPieces f cn .both with
        | error e => rw [h3] at h; simp at h
        | ok ps =>
          rw [h3] at h
          simp only at h
          obtain ⟨nc, hf, hp, hps⟩ := cutPieces_ok h3
          simp only at hps
          rw [List.foldl_cons, ih h]
          congr 1
          unfold cutStep
          rw [List.findIdx?_map]
          have hcomp : ((fun f => (ids f).contains cn) ∘ fun (x : Neuron) => x.nodes) = fun f => (ids f.nodes).contains cn := rfl
          rw [hcomp, h1]
          simp only [List.getElem?_map, h2, Option.map_some]
          rw [cut_of_find hf hp, hps]
          simp [List.map_take, List.map_drop]

theorem resolveCut_ids {x : Neuron} {cs l : List Int} (h : resolveCut x (cs.map Where.id) = .ok l) :
    l = cs ∧ ∀ c ∈ cs, c ∈ ids x.nodes ∧ c ∉ roots x.nodes := by
  induction cs generalizing l with
  | nil => simp only [List.map_nil, resolveCut, Except.ok.injEq] at h; exact ⟨h.symm, by simp⟩
  | cons c cs ih =>
    simp only [List.map_cons, resolveCut] at h
    by_cases h1 : (ids x.nodes).contains c = true
    · simp only [h1, Bool.not_true, Bool.false_eq_true, if_false] at h
      by_cases h2 : (roots x.nodes).contains c = true
      · simp only [h2, if_true] at h
        cases h
      · simp only [h2] at h
        simp only [Bool.false_eq_true, if_false] at h
        cases h3 : resolveCut x (cs.map Where.id) with
        | error e => rw [h3] at h; simp at h
        | ok r =>
          rw [h3] at h
          simp only [Except.ok.injEq] at h
          obtain ⟨e, hall⟩ := ih h3
          refine ⟨by rw [← h, e], ?_⟩
          intro c' hc'
          rcases List.mem_cons.mp hc' with rfl | hc'
          · exact ⟨by simpa using h1, by simpa using h2⟩
          · exact hall c' hc'
    · have h1' : (ids x.nodes).contains c = false := by simpa using h1
      simp only [h1', Bool.not_false, if_true] at h
      cases h

/-- **`cut_skeleton` with a list of node ids is `cutMany`** on the node tables (duplicates removed, order kept),
whenever it returns. -/
theorem cutSkeleton_ids_nodes {x : Neuron} {cs : List Int} {out : List Neuron}
    (h : cutSkeleton x (cs.map Where.id) .both = .ok out) : out.map (·.nodes) = cutMany x.nodes (dedup cs) := by
  unfold cutSkeleton at h
  split at h
  · simp at h
  · cases h1 : resolveCut x (cs.map Where.id) with
    | error e => rw [h1] at h; simp at h
    | ok l =>
      rw [h1] at h
      simp only at h
      obtain ⟨e, _⟩ := resolveCut_ids h1
      rw [e] at h
      rw [cutLoop_both_nodes h, cutMany_eq_foldl]
      rfl

/-! ### attachments of the fragments -/

/-- `f` carries exactly the connectors / tags / soma of `x` that sit on `f`'s nodes. -/
def Attached (x f : Neuron) : Prop :=
  f.conns = filterConns f.nodes x.conns ∧ f.tags = x.tags.map (filterTags f.nodes) ∧ f.soma = filterSoma f.nodes x.soma

theorem filterConns_filterConns {t' t'' : Table} (hsub : ∀ i ∈ ids t'', i ∈ ids t') (cs : List Conn) :
    filterConns t'' (filterConns t' cs) = filterConns t'' cs := by
  unfold filterConns
  rw [List.filter_filter]
  apply List.filter_congr
  intro c _
  rw [Bool.eq_iff_iff]
  simp only [Bool.and_eq_true, List.contains_eq_mem, decide_eq_true_eq]
  exact ⟨fun h => h.1, fun h => ⟨h, hsub _ h⟩⟩

theorem filterTags_filterTags {t' t'' : Table} (hsub : ∀ i ∈ ids t'', i ∈ ids t') (tg : Tags) :
    filterTags t'' (filterTags t' tg) = filterTags t'' tg := by
  have hl : ∀ l : List Int, (l.filter fun i => (ids t').contains i).filter (fun i => (ids t'').contains i) =
      l.filter fun i => (ids t'').contains i := by
    intro l
    rw [List.filter_filter]
    apply List.filter_congr
    intro i _
    rw [Bool.eq_iff_iff]
    simp only [Bool.and_eq_true, List.contains_eq_mem, decide_eq_true_eq]
    exact ⟨fun h => h.1, fun h => ⟨h, hsub _ h⟩⟩
  induction tg with
  | nil => rfl
  | cons e tg ih =>
    unfold filterTags at ih ⊢
    simp only [List.map_cons, List.filter_cons]
    by_cases h1 : (e.2.filter fun i => (ids t').contains i).isEmpty = true
    · have h2 : (e.2.filter fun i => (ids t'').contains i).isEmpty = true := by
        rw [← hl e.2]
        simp only [List.isEmpty_iff] at h1 ⊢
        rw [h1]; rfl
      simp only [h1, h2, Bool.not_true, Bool.false_eq_true, if_false]
      exact ih
    · simp only [h1, Bool.not_false, if_true, List.map_cons, List.filter_cons, hl]
      split
      · rw [ih]
      · exact ih

theorem filterSoma_filterSoma {t' t'' : Table} (hsub : ∀ i ∈ ids t'', i ∈ ids t') (s : Option Int) :
    filterSoma t'' (filterSoma t' s) = filterSoma t'' s := by
  cases s with
  | none => rfl
  | some i =>
    unfold filterSoma
    by_cases h : i ∈ ids t''
    · have := hsub _ h
      simp [h, this]
    · by_cases h' : i ∈ ids t'
      · simp [h, h']
      · simp [h, h']

theorem ids_subset_sub (t : Table) (keep : Int → Bool) : ∀ i ∈ ids (subset t keep), i ∈ ids t := by
  intro i hi
  rw [ids_subset] at hi
  exact (List.mem_filter.mp hi).1

theorem attached_subsetNeuron_self (x : Neuron) (keep : Int → Bool) : Attached x (subsetNeuron x keep) :=
  ⟨by simp [subsetNeuron], rfl, rfl⟩

theorem attached_subsetNeuron {x f : Neuron} (h : Attached x f) (keep : Int → Bool) : Attached x (subsetNeuron f keep) := by
  obtain ⟨h1, h2, h3⟩ := h
  have hsub := ids_subset_sub f.nodes keep
  refine ⟨?_, ?_, ?_⟩
  · simp only [subsetNeuron, Bool.false_eq_true, if_false]
    rw [h1, filterConns_filterConns hsub]
  · simp only [subsetNeuron]
    rw [h2]
    cases x.tags with
    | none => rfl
    | some tg => simp only [Option.map_some]; rw [filterTags_filterTags hsub]
  · simp only [subsetNeuron]
    rw [h3, filterSoma_filterSoma hsub]

theorem cutPieces_attached {x f : Neuron} (hf : f = x ∨ Attached x f) {c : Int} {ret : Ret} {ps : List Neuron}
    (h : cutPieces f c ret = .ok ps) : ∀ g ∈ ps, Attached x g := by
  obtain ⟨nc, _, _, hps⟩ := cutPieces_ok h
  have key : ∀ keep, Attached x (subsetNeuron f keep) := by
    intro keep
    rcases hf with rfl | hf
    · exact attached_subsetNeuron_self _ keep
    · exact attached_subsetNeuron hf keep
  intro g hg
  rw [hps] at hg
  cases ret <;> simp only [List.mem_cons, List.not_mem_nil, or_false] at hg
  · rcases hg with rfl | rfl <;> exact key _
  · subst hg; exact key _
  · subst hg; exact key _

theorem cutLoop_attached {x : Neuron} {ret : Ret} {cs : List Int} : ∀ {res out : List Neuron},
    (∀ f ∈ res, f = x ∨ Attached x f) → cutLoop ret res cs = .ok out → ∀ f ∈ out, f = x ∨ Attached x f := by
  induction cs with
  | nil =>
    intro res out hres h
    simp only [cutLoop, Except.ok.injEq] at h
    subst h; exact hres
  | cons cn rest ih =>
    intro res out hres h
    unfold cutLoop at h
    cases h1 : res.findIdx? (fun f => (ids f.nodes).contains cn) with
    | none => rw [h1] at h; simp at h
    | some k =>
      rw [h1] at h
      simp only at h
      cases h2 : res[k]? with
      | none => rw [h2] at h; simp at h
      | some f =>
        rw [h2] at h
        simp only at h
        cases h3 : cutPieces f cn ret with
        | error e => rw [h3] at h; simp at h
        | ok ps =>
          rw [h3] at h
          simp only at h
          apply ih ?_ h
          intro g hg
          have hfres : f ∈ res := List.mem_of_getElem? h2
          simp only [List.mem_append] at hg
          rcases hg with (hg | hg) | hg
          · exact hres g (List.mem_of_mem_take hg)
          · exact Or.inr (cutPieces_attached (hres f hfres) h3 g hg)
          · exact hres g (List.mem_of_mem_drop hg)

/-- **Every fragment `cut_skeleton` returns carries exactly the connectors, tags and soma on its nodes**
(any `ret=`, ids and tags, any number of cuts). -/
theorem cutSkeleton_attached {x : Neuron} {wh : List Where} {ret : Ret} {out : List Neuron}
    (h : cutSkeleton x wh ret = .ok out) : ∀ f ∈ out, f = x ∨ Attached x f := by
  unfold cutSkeleton at h
  split at h
  · simp at h
  · cases h1 : resolveCut x wh with
    | error e => rw [h1] at h; simp at h
    | ok l =>
      rw [h1] at h
      simp only at h
      exact cutLoop_attached (by simp) h

/-! ### single trees stay single trees -/

theorem roots_proximal_perm {t : Table} (hw : WF t) {c : Int} {nc : Node} (hf : find? t c = some nc) (_hp : ¬ nc.parent < 0) :
    (roots (subset t (fun i => !(distalSet t c).contains i || i == c))).Perm (roots t) := by
  have hnc := find?_some hf
  apply (List.perm_ext_iff_of_nodup (roots_nodup (WF_subset hw _).1) (roots_nodup hw.1)).mpr
  intro r
  rw [mem_roots_subset hw, mem_roots]
  simp only [Bool.or_eq_true, Bool.not_eq_true', List.contains_eq_mem, decide_eq_false_iff_not, beq_iff_eq, mem_distalSet,
    Bool.or_eq_false_iff, decide_eq_true_eq, Bool.not_eq_false', beq_eq_false_iff_ne, ne_eq]
  constructor
  · rintro ⟨n, hn, rfl, hk, hcase⟩
    refine ⟨n, hn, rfl, ?_⟩
    rcases hcase with h | ⟨h1, h2⟩
    · exact h
    · exfalso
      by_cases hneg : n.parent < 0
      · obtain ⟨q, hq, hqid⟩ := mem_ids.mp h1.1
        have := hw.2.1 q hq
        omega
      · have hci : c ∈ rootPath t n.id := by
          rw [rootPath_of_nonroot hw (find?_of_mem hw.1 hn) hneg]
          exact List.mem_cons_of_mem _ h1.2
        rcases hk with hk | hk
        · exact hk ⟨mem_ids_of_mem hn, hci⟩
        · have := parent_not_distal hw hn hneg
          rw [hk] at this
          exact this h1.2
  · rintro ⟨n, hn, rfl, hneg⟩
    refine ⟨n, hn, rfl, ?_, Or.inl hneg⟩
    by_cases hci : c ∈ rootPath t n.id
    · right
      rw [rootPath_of_root (find?_of_mem hw.1 hn) hneg] at hci
      exact (List.mem_singleton.mp hci).symm
    · exact Or.inl fun hh => hci hh.2

theorem roots_distal_perm {t : Table} (hw : WF t) {c : Int} {nc : Node} (hf : find? t c = some nc) (hp : ¬ nc.parent < 0) :
    (roots (subset t (fun i => (distalSet t c).contains i))).Perm [c] := by
  have hnc := find?_some hf
  apply (List.perm_ext_iff_of_nodup (roots_nodup (WF_subset hw _).1) (by simp)).mpr
  intro r
  rw [mem_roots_subset hw]
  simp only [List.contains_eq_mem, decide_eq_true_eq, mem_distalSet, decide_eq_false_iff_not, List.mem_singleton]
  constructor
  · rintro ⟨n, hn, rfl, hk, hcase⟩
    by_cases hneg : n.parent < 0
    · have := hk.2
      rw [rootPath_of_root (find?_of_mem hw.1 hn) hneg] at this
      exact (List.mem_singleton.mp this).symm
    · rcases hcase with h | h
      · exact absurd h hneg
      · have hci := hk.2
        rw [rootPath_of_nonroot hw (find?_of_mem hw.1 hn) hneg] at hci
        rcases List.mem_cons.mp hci with h1 | h1
        · exact h1.symm
        · exact absurd ⟨WF_parent_mem hw hn hneg, h1⟩ h
  · rintro rfl
    refine ⟨nc, hnc.1, hnc.2, ⟨mem_ids.mpr ⟨nc, hnc⟩, anc_refl (mem_ids.mpr ⟨nc, hnc⟩)⟩, Or.inr ?_⟩
    intro hh
    have := parent_not_distal hw hnc.1 hp
    rw [hnc.2] at this
    exact this hh.2

/-! ### the prune methods as written = successive single prunes -/

theorem cutSkeleton_single_id (x : Neuron) (c : Int) (ret : Ret) (h1 : (roots x.nodes).length = 1) :
    cutSkeleton x [Where.id c] ret =
      (if !(ids x.nodes).contains c then .error .notFound
       else if (roots x.nodes).contains c then .error .isRoot
       else cutLoop ret [x] [c]) := by
  unfold cutSkeleton
  simp only [h1, bne_self_eq_false, Bool.false_eq_true, if_false]
  by_cases hc : (ids x.nodes).contains c = true
  · by_cases hr : (roots x.nodes).contains c = true
    · simp only [resolveCut, hc, hr, Bool.not_true, Bool.false_eq_true, if_false, if_true]
    · simp only [resolveCut, hc, hr, Bool.not_true, Bool.false_eq_true, if_false, dedup, List.filter_nil]
  · have hc' : (ids x.nodes).contains c = false := by simpa using hc
    simp only [resolveCut, hc', Bool.not_false, if_true]

theorem cutLoop_single {x : Neuron} {c : Int} {ret : Ret} (hc : (ids x.nodes).contains c = true) :
    cutLoop ret [x] [c] = (match cutPieces x c ret with | .error e => .error e | .ok ps => .ok ps) := by
  unfold cutLoop
  simp only [List.findIdx?_cons, hc, if_true]
  simp only [List.getElem?_cons_zero]
  cases cutPieces x c ret with
  | error e => rfl
  | ok ps => simp [cutLoop]

/-- Node table of the result of a prune method (`none` where it raises). -/
def okNodes (r : Except Err Neuron) : Option Table :=
  match r with
  | .ok y => some y.nodes
  | .error _ => none

theorem pruneLoop_distal_ids {cs : List Int} : ∀ {self x : Neuron}, WF x.nodes → (roots x.nodes).length = 1 →
    okNodes (pruneLoop refDistal self x (cs.map Where.id)) = pruneMany pruneDistal1 x.nodes cs := by
  induction cs with
  | nil => intro self x _ _; rfl
  | cons c cs ih =>
    intro self x hw h1
    simp only [List.map_cons]
    unfold pruneLoop pruneMany
    have e1 : refDistal.cutsWorkingCopy = true := rfl
    have e2 : refDistal.ret = .proximal := rfl
    have e3 : refDistal.index = 0 := rfl
    simp only [e1, e2, e3, if_true]
    rw [cutSkeleton_single_id x c .proximal h1]
    cases hf : find? x.nodes c with
    | none =>
      have hc : (ids x.nodes).contains c = false := by
        simpa using find?_none hf
      simp only [hc, Bool.not_false, if_true]
      unfold pruneDistal1
      rw [cut_none_of_absent hf]
      rfl
    | some nc =>
      have hnc := find?_some hf
      have hc : (ids x.nodes).contains c = true := by simpa using mem_ids.mpr ⟨nc, hnc⟩
      simp only [hc, Bool.not_true, Bool.false_eq_true, if_false]
      by_cases hp : nc.parent < 0
      · have hr : (roots x.nodes).contains c = true := by
          simpa using mem_roots.mpr ⟨nc, hnc.1, hnc.2, hp⟩
        simp only [hr, if_true]
        unfold pruneDistal1
        rw [cut_none_of_root hf hp]
        rfl
      · have hr : (roots x.nodes).contains c = false := by
          rw [Bool.eq_false_iff]
          intro hh
          obtain ⟨n, hn, hid, hneg⟩ := mem_roots.mp (by simpa using hh)
          have e := find?_of_mem hw.1 hn
          rw [hid, hf] at e
          simp only [Option.some.injEq] at e
          exact hp (e ▸ hneg)
        simp only [hr, Bool.false_eq_true, if_false]
        rw [cutLoop_single hc]
        unfold cutPieces
        simp only [hf, hp, if_false]
        simp only [List.getElem?_cons_zero]
        unfold pruneDistal1
        rw [cut_of_find hf hp]
        simp only [Option.map_some]
        have hlen : (roots (subsetNeuron x (fun i => !(distalSet x.nodes c).contains i || i == c)).nodes).length = 1 := by
          rw [subsetNeuron_nodes, (roots_proximal_perm hw hf hp).length_eq]
          exact h1
        have hw' : WF (subsetNeuron x (fun i => !(distalSet x.nodes c).contains i || i == c)).nodes := by
          rw [subsetNeuron_nodes]; exact WF_subset hw _
        have key := ih (self := self) hw' hlen
        rw [subsetNeuron_nodes] at key
        exact key

theorem pruneLoop_proximal_ids {cs : List Int} : ∀ {self x : Neuron}, WF x.nodes → (roots x.nodes).length = 1 →
    okNodes (pruneLoop refProximal self x (cs.map Where.id)) = pruneMany pruneProximal1 x.nodes cs := by
  induction cs with
  | nil => intro self x _ _; rfl
  | cons c cs ih =>
    intro self x hw h1
    simp only [List.map_cons]
    unfold pruneLoop pruneMany
    have e1 : refProximal.cutsWorkingCopy = true := rfl
    have e2 : refProximal.ret = .distal := rfl
    have e3 : refProximal.index = 0 := rfl
    simp only [e1, e2, e3, if_true]
    rw [cutSkeleton_single_id x c .distal h1]
    cases hf : find? x.nodes c with
    | none =>
      have hc : (ids x.nodes).contains c = false := by
        simpa using find?_none hf
      simp only [hc, Bool.not_false, if_true]
      unfold pruneProximal1
      rw [cut_none_of_absent hf]
      rfl
    | some nc =>
      have hnc := find?_some hf
      have hc : (ids x.nodes).contains c = true := by simpa using mem_ids.mpr ⟨nc, hnc⟩
      simp only [hc, Bool.not_true, Bool.false_eq_true, if_false]
      by_cases hp : nc.parent < 0
      · have hr : (roots x.nodes).contains c = true := by
          simpa using mem_roots.mpr ⟨nc, hnc.1, hnc.2, hp⟩
        simp only [hr, if_true]
        unfold pruneProximal1
        rw [cut_none_of_root hf hp]
        rfl
      · have hr : (roots x.nodes).contains c = false := by
          rw [Bool.eq_false_iff]
          intro hh
          obtain ⟨n, hn, hid, hneg⟩ := mem_roots.mp (by simpa using hh)
          have e := find?_of_mem hw.1 hn
          rw [hid, hf] at e
          simp only [Option.some.injEq] at e
          exact hp (e ▸ hneg)
        simp only [hr, Bool.false_eq_true, if_false]
        rw [cutLoop_single hc]
        unfold cutPieces
        simp only [hf, hp, if_false]
        simp only [List.getElem?_cons_zero]
        unfold pruneProximal1
        rw [cut_of_find hf hp]
        simp only [Option.map_some]
        have hlen : (roots (subsetNeuron x (fun i => (distalSet x.nodes c).contains i)).nodes).length = 1 := by
          rw [subsetNeuron_nodes, (roots_distal_perm hw hf hp).length_eq]
          rfl
        have hw' : WF (subsetNeuron x (fun i => (distalSet x.nodes c).contains i)).nodes := by
          rw [subsetNeuron_nodes]; exact WF_subset hw _
        have key := ih (self := self) hw' hlen
        rw [subsetNeuron_nodes] at key
        exact key

end Navis.TreeEdit
