import NavisModel.Model.ResampleSkip
import NavisModel.Proofs.ResampleLemmas
/-! Helper lemmas for C01: `resample_skeleton` with the third per-segment outcome (`skip_errors`: the
original rows of `seg[:-1]` are copied) — core Lean only.

The loop `planX` is related to the plan of `Model/Resample.lean` (`plan (cntOfAct act)`: a kept segment
is a slot with no fresh ids); `SegsOK t segs` collects what any ordering of the small segments of a
well-formed forest guarantees; everything about the new table is derived from it. -/
namespace Navis.Resample
open Navis.Forest

/-! ### the loop as a plan -/

/-- number of fresh ids a segment takes -/
def kOf : SegAct → Nat
  | .fresh n => n - 2
  | _ => 0

/-- the count function that advances the counter exactly like `act` -/
def cntOfAct (act : List Int → SegAct) (s : List Int) : Option Nat :=
  match act s with
  | .fresh n => some n
  | _ => none

/-- rows of the third branch -/
def keptRows (t : Table) (s : List Int) : List (Int × Int) :=
  (t.filter fun m => s.dropLast.contains m.id).map (fun m => (m.id, m.parent))

theorem interior_cntOfAct (act : List Int → SegAct) (s : List Int) : interior (cntOfAct act s) = kOf (act s) := by
  unfold cntOfAct
  cases act s <;> rfl

theorem segRowsX_snd (t : Table) (act : List Int → SegAct) (s : List Int) (base : Int) :
    (segRowsX t s base (act s)).2 =
      match cntOfAct act s with | none => base | some n => base + ((n - 2 : Nat) : Int) + 2 := by
  unfold cntOfAct
  cases act s <;> rfl

theorem segRowsX_keep (t : Table) (s : List Int) (base : Int) : (segRowsX t s base .keep).1 = keptRows t s := rfl

theorem segRowsX_not_keep (t : Table) (s : List Int) (base : Int) {a : SegAct} (h : a ≠ .keep) :
    (segRowsX t s base a).1 = linkPairs (newIds (segFirst s) (segLast s) base (kOf a)) := by
  cases a with
  | collapse => simp [segRowsX, kOf, newIds, fresh, linkPairs]
  | fresh n => rfl
  | keep => exact absurd rfl h

theorem segRowsX_snd_ge (t : Table) (s : List Int) (base : Int) (a : SegAct) : base ≤ (segRowsX t s base a).2 := by
  cases a with
  | collapse => exact Int.le_refl _
  | fresh n => simp only [segRowsX]; omega
  | keep => exact Int.le_refl _

theorem mem_keptRows {t : Table} {s : List Int} {e : Int × Int} :
    e ∈ keptRows t s ↔ ∃ m ∈ t, m.id ∈ s.dropLast ∧ (m.id, m.parent) = e := by
  unfold keptRows
  simp only [List.mem_map, List.mem_filter, List.contains_iff_mem]
  constructor
  · rintro ⟨m, ⟨h1, h2⟩, h3⟩; exact ⟨m, h1, h2, h3⟩
  · rintro ⟨m, h1, h2, h3⟩; exact ⟨m, ⟨h1, h2⟩, h3⟩

/-- A segment of the loop together with its slot in the plan. -/
structure Slot (t : Table) (act : List Int → SegAct) (segs : List (List Int)) (base : Int) (s : List Int)
    (o : SegOut) : Prop where
  seg_mem : s ∈ segs
  out_mem : o ∈ plan (cntOfAct act) segs base
  first : o.first = segFirst s
  last : o.last = segLast s
  k : o.k = kOf (act s)
  rows : ∀ e ∈ (segRowsX t s o.base (act s)).1, e ∈ planX t act segs base

theorem Slot.cons {t : Table} {act : List Int → SegAct} {rest : List (List Int)} {base : Int} {s s' : List Int}
    {o : SegOut} (h : Slot t act rest (segRowsX t s' base (act s')).2 s o) : Slot t act (s' :: rest) base s o := by
  refine ⟨List.mem_cons_of_mem _ h.seg_mem, ?_, h.first, h.last, h.k, ?_⟩
  · have hm := h.out_mem
    rw [segRowsX_snd] at hm
    rw [plan_cons]
    exact List.mem_cons_of_mem _ hm
  · intro e he
    rw [planX]
    exact List.mem_append_right _ (h.rows e he)

theorem Slot.head (t : Table) (act : List Int → SegAct) (rest : List (List Int)) (base : Int) (s : List Int) :
    Slot t act (s :: rest) base s ⟨segFirst s, segLast s, base, interior (cntOfAct act s)⟩ := by
  refine ⟨List.mem_cons_self, ?_, rfl, rfl, interior_cntOfAct act s, ?_⟩
  · rw [plan_cons]; exact List.mem_cons_self
  · intro e he
    rw [planX]
    exact List.mem_append_left _ he

theorem mem_planX {t : Table} {act : List Int → SegAct} {segs : List (List Int)} {base : Int} {e : Int × Int}
    (h : e ∈ planX t act segs base) :
    ∃ s o, Slot t act segs base s o ∧ e ∈ (segRowsX t s o.base (act s)).1 := by
  induction segs generalizing base with
  | nil => simp [planX] at h
  | cons s rest ih =>
    rw [planX] at h
    rcases List.mem_append.mp h with h | h
    · exact ⟨s, _, Slot.head t act rest base s, h⟩
    · obtain ⟨s', o, hsl, he⟩ := ih h
      exact ⟨s', o, hsl.cons, he⟩

theorem planX_of_mem {t : Table} {act : List Int → SegAct} {segs : List (List Int)} {base : Int} {s : List Int}
    (h : s ∈ segs) : ∃ o, Slot t act segs base s o := by
  induction segs generalizing base with
  | nil => simp at h
  | cons s' rest ih =>
    rcases List.mem_cons.mp h with rfl | h
    · exact ⟨_, Slot.head t act rest base s⟩
    · obtain ⟨o, ho⟩ := ih (base := (segRowsX t s' base (act s')).2) h
      exact ⟨o, ho.cons⟩

theorem Slot.rows_eq {t : Table} {act : List Int → SegAct} {segs : List (List Int)} {base : Int} {s : List Int}
    {o : SegOut} (h : Slot t act segs base s o) (hk : act s ≠ .keep) :
    (segRowsX t s o.base (act s)).1 = linkPairs (newIds o.first o.last o.base o.k) := by
  rw [segRowsX_not_keep _ _ _ hk, h.first, h.last, h.k]

/-! ### refinement -/

theorem planX_actOfCnt (t : Table) (cnt : List Int → Option Nat) (segs : List (List Int)) (base : Int) :
    planX t (actOfCnt cnt) segs base = (plan cnt segs base).flatMap segRows := by
  induction segs generalizing base with
  | nil => rfl
  | cons s rest ih =>
    cases hc : cnt s with
    | none =>
      have ha : actOfCnt cnt s = .collapse := by unfold actOfCnt; rw [hc]
      rw [planX, plan_cons, ha, hc]
      simp only [List.flatMap_cons]
      rw [← ih]
      simp [segRowsX, segRows, segChain, newIds, fresh, linkPairs, interior]
    | some n =>
      have ha : actOfCnt cnt s = .fresh n := by unfold actOfCnt; rw [hc]
      rw [planX, plan_cons, ha, hc]
      simp only [List.flatMap_cons]
      rw [← ih]
      simp [segRowsX, segRows, segChain, interior]

/-! ### what any ordering of the small segments of a well-formed forest satisfies -/

structure SegsOK (t : Table) (segs : List (List Int)) : Prop where
  spec : ∀ s ∈ segs, ∃ n ∈ t, ¬ n.parent < 0 ∧ childCount t n.id ≠ 1 ∧
    ∃ mid last, s = n.id :: mid ++ [last] ∧ SmallSeg t n.id mid last
  cover : (segs.flatMap fun s => s.dropLast).Perm ((t.filter fun n => !isRootNode n).map (·.id))
  seed : ∀ n ∈ t, ¬ n.parent < 0 → childCount t n.id ≠ 1 → ∃ s ∈ segs, segFirst s = n.id

theorem segsOK_of_perm {t : Table} (hw : WF t) {segs : List (List Int)} (hp : segs.Perm (smallSegments t)) :
    SegsOK t segs := by
  refine ⟨?_, ?_, ?_⟩
  · intro s hs
    have hs' := hp.mem_iff.mp hs
    rw [smallSegments_eq] at hs'
    obtain ⟨n, hn, rfl⟩ := List.mem_map.mp hs'
    obtain ⟨hn1, hn2, hn3⟩ := mem_seeds.mp hn
    obtain ⟨mid, last, e, hss⟩ := segOf_spec hw hn1 hn2
    exact ⟨n, hn1, hn2, hn3, mid, last, e, hss⟩
  · have hfil : ((smallSegments t).filter fun s => s.length > 1) = smallSegments t := by
      rw [List.filter_eq_self]
      intro s hs
      rw [smallSegments_eq] at hs
      obtain ⟨n, hn, rfl⟩ := List.mem_map.mp hs
      obtain ⟨h1, h2, _⟩ := mem_seeds.mp hn
      simpa using segOf_length hw h1 h2
    have hc := smallSegments_cover hw
    rw [hfil] at hc
    exact (hp.flatMap_right _).trans hc
  · intro n hn hnp hcc
    have hseed : segOf t n.id ∈ smallSegments t := by
      rw [smallSegments_eq]
      exact List.mem_map.mpr ⟨n, mem_seeds.mpr ⟨hn, hnp, hcc⟩, rfl⟩
    exact ⟨_, hp.mem_iff.mpr hseed, segFirst_segOf t n.id⟩

theorem node_eq_of_id {t : Table} (hnd : (ids t).Nodup) {n m : Node} (hn : n ∈ t) (hm : m ∈ t) (h : n.id = m.id) :
    n = m := by
  have h1 := find?_of_mem hnd hn
  have h2 := find?_of_mem hnd hm
  rw [h] at h1
  rw [h1] at h2
  exact Option.some.inj h2

namespace SegsOK
variable {t : Table} {segs : List (List Int)}

theorem facts (h : SegsOK t segs) {s : List Int} (hs : s ∈ segs) :
    ∃ n ∈ t, ¬ n.parent < 0 ∧ segFirst s = n.id ∧ segLast s ∈ ids t ∧ isBranchOrRoot t (segLast s) = true ∧
      ∃ mid, s.dropLast = n.id :: mid ∧ SmallSeg t n.id mid (segLast s) := by
  obtain ⟨n, hn, hnp, _, mid, last, rfl, hss⟩ := h.spec s hs
  rw [segLast_concat]
  exact ⟨n, hn, hnp, rfl, hss.hlast, hss.stop, mid, SmallSeg.dropLast_eq mid n.id last, hss⟩

theorem dropLast_nonroot (h : SegsOK t segs) {s : List Int} (hs : s ∈ segs) {i : Int} (hi : i ∈ s.dropLast) :
    ∃ n ∈ t, ¬ n.parent < 0 ∧ n.id = i :=
  mem_nonroot_ids.mp (h.cover.mem_iff.mp (List.mem_flatMap.mpr ⟨s, hs, hi⟩))

theorem first_mem_dropLast (h : SegsOK t segs) {s : List Int} (hs : s ∈ segs) : segFirst s ∈ s.dropLast := by
  obtain ⟨n, _, _, hf, _, _, mid, hd, _⟩ := h.facts hs
  rw [hd, hf]; exact List.mem_cons_self

/-- rank drops along a segment -/
theorem rank (h : SegsOK t segs) {rk : Int → Nat}
    (hrk : ∀ n ∈ t, n.parent < 0 ∨ (n.parent ∈ ids t ∧ rk n.parent < rk n.id)) {s : List Int} (hs : s ∈ segs) :
    rk (segLast s) < rk (segFirst s) := by
  obtain ⟨n, _, _, hf, _, _, mid, _, hss⟩ := h.facts hs
  have hpw := (pathToRoot_ranks rk hrk (t.length + 1) n.id).1
  have hp : rootPath t n.id = (n.id :: mid) ++ rootPath t (segLast s) := hss.path
  obtain ⟨rest, hr⟩ := rootPath_cons hss.hlast
  unfold rootPath at hp hr
  rw [hp, hr] at hpw
  rw [hf]
  exact (List.pairwise_cons.mp hpw).1 (segLast s) (by simp)

end SegsOK

/-! ### ids of the rows -/

theorem segRowsX_fst_mem {t : Table} {s : List Int} {base : Int} {a : SegAct} (hf : segFirst s ∈ s.dropLast) {i : Int}
    (hi : i ∈ (segRowsX t s base a).1.map Prod.fst) :
    i ∈ s.dropLast ∨ (base ≤ i ∧ i < (segRowsX t s base a).2) := by
  cases a with
  | collapse =>
    simp only [segRowsX, List.map_cons, List.map_nil, List.mem_singleton] at hi
    left; rw [hi]; exact hf
  | fresh n =>
    simp only [segRowsX] at hi ⊢
    rw [linkPairs_map_fst] at hi
    rcases List.mem_cons.mp hi with h | h
    · left; rw [h]; exact hf
    · right
      have := mem_fresh.mp h
      omega
  | keep =>
    left
    rw [segRowsX_keep] at hi
    obtain ⟨e, he, rfl⟩ := List.mem_map.mp hi
    obtain ⟨m, _, hm, rfl⟩ := mem_keptRows.mp he
    exact hm

theorem segRowsX_fst_nodup {t : Table} {s : List Int} {base : Int} {a : SegAct} (hnd : (ids t).Nodup)
    (hf : segFirst s < base) : ((segRowsX t s base a).1.map Prod.fst).Nodup := by
  cases a with
  | collapse => simp [segRowsX]
  | fresh n =>
    simp only [segRowsX]
    rw [linkPairs_map_fst, List.nodup_cons]
    refine ⟨fun hm => ?_, fresh_nodup _ _⟩
    have := mem_fresh.mp hm
    omega
  | keep =>
    rw [segRowsX_keep]
    unfold keptRows
    rw [List.map_map]
    exact hnd.sublist (List.filter_sublist.map _)

/-- No id is produced twice by the loop; every id is a non-last node of a segment or at least `base`. -/
theorem planX_fst {t : Table} {act : List Int → SegAct} (hnd : (ids t).Nodup) :
    ∀ (segs : List (List Int)) (base : Int), maxId t < base →
    (segs.flatMap fun s => s.dropLast).Nodup → (∀ s ∈ segs, segFirst s ∈ s.dropLast) →
    (∀ s ∈ segs, ∀ i ∈ s.dropLast, i ≤ maxId t) →
    ((planX t act segs base).map Prod.fst).Nodup ∧
      ∀ i ∈ (planX t act segs base).map Prod.fst, (i ∈ segs.flatMap fun s => s.dropLast) ∨ base ≤ i := by
  intro segs
  induction segs with
  | nil => intro base _ _ _ _; simp [planX]
  | cons s rest ih =>
    intro base hb hfl hfirst hle
    rw [List.flatMap_cons, List.nodup_append] at hfl
    have hb' := segRowsX_snd_ge t s base (act s)
    obtain ⟨ih1, ih2⟩ := ih (segRowsX t s base (act s)).2 (by omega) hfl.2.1
      (fun x hx => hfirst x (List.mem_cons_of_mem _ hx)) (fun x hx => hle x (List.mem_cons_of_mem _ hx))
    have hfs := hfirst s List.mem_cons_self
    have hfs_le := hle s List.mem_cons_self _ hfs
    rw [planX, List.map_append]
    constructor
    · rw [List.nodup_append]
      refine ⟨segRowsX_fst_nodup hnd (by omega), ih1, ?_⟩
      intro a ha b hb2 hab
      subst hab
      rcases segRowsX_fst_mem hfs ha with h1 | h1
      · rcases ih2 a hb2 with h2 | h2
        · exact hfl.2.2 a h1 a h2 rfl
        · have := hle s List.mem_cons_self a h1
          omega
      · rcases ih2 a hb2 with h2 | h2
        · obtain ⟨s', hs', hi⟩ := List.mem_flatMap.mp h2
          have := hle s' (List.mem_cons_of_mem _ hs') a hi
          omega
        · omega
    · intro i hi
      rcases List.mem_append.mp hi with h | h
      · rcases segRowsX_fst_mem hfs h with h1 | h1
        · left; rw [List.flatMap_cons]; exact List.mem_append_left _ h1
        · right; exact h1.1
      · rcases ih2 i h with h2 | h2
        · left; rw [List.flatMap_cons]; exact List.mem_append_right _ h2
        · right; omega

theorem planX_fst_ok {t : Table} (hw : WF t) {segs : List (List Int)} (hok : SegsOK t segs) (act : List Int → SegAct) :
    ((planX t act segs (maxId t + 1)).map Prod.fst).Nodup ∧
      ∀ i ∈ (planX t act segs (maxId t + 1)).map Prod.fst, (∃ n ∈ t, ¬ n.parent < 0 ∧ n.id = i) ∨ maxId t < i := by
  have h := planX_fst (act := act) hw.1 segs (maxId t + 1) (by omega)
    (hok.cover.nodup_iff.mpr (nonroot_ids_nodup hw.1)) (fun s hs => hok.first_mem_dropLast hs)
    (fun s hs i hi => by
      obtain ⟨n, hn, _, hid⟩ := hok.dropLast_nonroot hs hi
      exact hid ▸ le_maxId (mem_ids_of_mem hn))
  refine ⟨h.1, ?_⟩
  intro i hi
  rcases h.2 i hi with h1 | h1
  · left
    exact mem_nonroot_ids.mp (hok.cover.mem_iff.mp h1)
  · right; omega

/-! ### the table before `classify` -/

def skipTable (t : Table) (segs : List (List Int)) (act : List Int → SegAct) : Table :=
  (planX t act segs (maxId t + 1)).map (mkNode t) ++ t.filter isRootNode

theorem resampleSkipOn_eq (t : Table) (segs : List (List Int)) (act : List Int → SegAct) :
    resampleSkipOn t segs act = classify (dedupById (skipTable t segs act)) := rfl

theorem ids_skipTable (t : Table) (segs : List (List Int)) (act : List Int → SegAct) :
    ids (skipTable t segs act) = (planX t act segs (maxId t + 1)).map Prod.fst ++ ids (t.filter isRootNode) := by
  unfold skipTable
  rw [ids_append]
  congr 1
  unfold ids
  rw [List.map_map]
  have : ((fun n => n.id) ∘ mkNode t) = Prod.fst := by
    funext e; exact mkNode_id t e
  rw [this]

theorem fst_mem_ids_skipTable {t : Table} {segs : List (List Int)} {act : List Int → SegAct} {e : Int × Int}
    (he : e ∈ planX t act segs (maxId t + 1)) : e.1 ∈ ids (skipTable t segs act) := by
  rw [ids_skipTable]
  exact List.mem_append_left _ (List.mem_map.mpr ⟨e, he, rfl⟩)

theorem ids_skipTable_nodup {t : Table} (hw : WF t) {segs : List (List Int)} (hok : SegsOK t segs)
    (act : List Int → SegAct) : (ids (skipTable t segs act)).Nodup := by
  rw [ids_skipTable, List.nodup_append]
  obtain ⟨h1, h2⟩ := planX_fst_ok hw hok act
  refine ⟨h1, hw.1.sublist (List.filter_sublist.map _), ?_⟩
  intro a ha b hb hab
  subst hab
  obtain ⟨m, hm, hmid, hmp⟩ := mem_rootIds.mp hb
  rcases h2 a ha with ⟨n, hn, hnp, hnid⟩ | h
  · have : n = m := node_eq_of_id hw.1 hn hm (by rw [hnid, hmid])
    exact hnp (this ▸ hmp)
  · have := le_maxId (hmid ▸ mem_ids_of_mem hm)
    omega

theorem ids_skipTable_sub {t : Table} (hw : WF t) {segs : List (List Int)} (hok : SegsOK t segs)
    (act : List Int → SegAct) : ∀ i ∈ ids (skipTable t segs act), i ∈ ids t ∨ maxId t < i := by
  intro i hi
  rw [ids_skipTable] at hi
  rcases List.mem_append.mp hi with h | h
  · rcases (planX_fst_ok hw hok act).2 i h with ⟨n, hn, _, hid⟩ | h
    · exact Or.inl (hid ▸ mem_ids_of_mem hn)
    · exact Or.inr h
  · obtain ⟨m, hm, hmid, _⟩ := mem_rootIds.mp h
    exact Or.inl (hmid ▸ mem_ids_of_mem hm)

/-- the first node of every segment keeps a row -/
theorem first_mem_skipTable {t : Table} {segs : List (List Int)} (hok : SegsOK t segs)
    (act : List Int → SegAct) {s : List Int} (hs : s ∈ segs) : segFirst s ∈ ids (skipTable t segs act) := by
  obtain ⟨o, hsl⟩ := planX_of_mem (t := t) (act := act) (base := maxId t + 1) hs
  obtain ⟨n, hn, _, hf, _, _, mid, hd, _⟩ := hok.facts hs
  by_cases hk : act s = .keep
  · have hrow : (n.id, n.parent) ∈ keptRows t s := mem_keptRows.mpr ⟨n, hn, by rw [hd]; exact List.mem_cons_self, rfl⟩
    have := hsl.rows (n.id, n.parent) (by rw [hk, segRowsX_keep]; exact hrow)
    rw [hf]
    exact fst_mem_ids_skipTable this
  · have hrow := linkPairs_first_mem o.first o.last o.base o.k
    rw [← hsl.rows_eq hk] at hrow
    have := fst_mem_ids_skipTable (hsl.rows _ hrow)
    rw [← hsl.first]
    exact this

/-- roots and branch points keep a row -/
theorem anchor_mem_skipTable {t : Table} (hw : WF t) {segs : List (List Int)} (hok : SegsOK t segs)
    (act : List Int → SegAct) {x : Int} (hx : x ∈ ids t) (hst : isBranchOrRoot t x = true) :
    x ∈ ids (skipTable t segs act) := by
  obtain ⟨m, hm, hmid⟩ := mem_ids.mp hx
  by_cases hp : m.parent < 0
  · rw [ids_skipTable]
    exact List.mem_append_right _ (mem_rootIds.mpr ⟨m, hm, hmid, hp⟩)
  · rw [← hmid, isBranchOrRoot_of_find (find?_of_mem hw.1 hm)] at hst
    simp only [Bool.or_eq_true, decide_eq_true_eq] at hst
    have hcc : childCount t m.id ≠ 1 := by
      rcases hst with h | h
      · exact absurd h hp
      · omega
    obtain ⟨s, hs, hf⟩ := hok.seed m hm hp hcc
    rw [← hmid, ← hf]
    exact first_mem_skipTable hok act hs

/-- every non-last node of a kept segment keeps its row -/
theorem kept_mem_skipTable {t : Table} {segs : List (List Int)} (act : List Int → SegAct) {s : List Int}
    (hs : s ∈ segs) (hk : act s = .keep) {p : Node} (hp : p ∈ t) (hpi : p.id ∈ s.dropLast) :
    p.id ∈ ids (skipTable t segs act) := by
  obtain ⟨o, hsl⟩ := planX_of_mem (t := t) (act := act) (base := maxId t + 1) hs
  have hrow : (p.id, p.parent) ∈ keptRows t s := mem_keptRows.mpr ⟨p, hp, hpi, rfl⟩
  exact fst_mem_ids_skipTable (hsl.rows (p.id, p.parent) (by rw [hk, segRowsX_keep]; exact hrow))

/-! ### well-formedness -/

theorem mul_rank_lt {M a b : Nat} (h : a < b) : M * a + M ≤ M * b := by
  have h' : a + 1 ≤ b := h
  calc M * a + M = M * (a + 1) := by rw [Nat.mul_add, Nat.mul_one]
    _ ≤ M * b := Nat.mul_le_mul_left _ h'

/-- a copied row: parent present, rank drops -/
theorem kept_row_ok {t : Table} (hw : WF t) {segs : List (List Int)} (hok : SegsOK t segs) (act : List Int → SegAct)
    {rk : Int → Nat} (hrk : ∀ n ∈ t, n.parent < 0 ∨ (n.parent ∈ ids t ∧ rk n.parent < rk n.id))
    {M : Nat} (hM : 1 ≤ M) (P : List SegOut) {s : List Int} (hs : s ∈ segs) (hk : act s = .keep)
    {m : Node} (hm : m ∈ t) (hmi : m.id ∈ s.dropLast) :
    m.parent ∈ ids (skipTable t segs act) ∧ rkNew t rk M P m.parent < rkNew t rk M P m.id := by
  obtain ⟨n', hn', hnp', hid'⟩ := hok.dropLast_nonroot hs hmi
  have hmm : n' = m := node_eq_of_id hw.1 hn' hm hid'
  subst hmm
  obtain ⟨n, hn, _, hf, _, _, mid, hd, hss⟩ := hok.facts hs
  have hpar : n'.parent ∈ ids t ∧ rk n'.parent < rk n'.id := by
    rcases hrk n' hm with h | h
    · exact absurd h hnp'
    · exact h
  constructor
  · cases hst : isBranchOrRoot t n'.parent with
    | true => exact anchor_mem_skipTable hw hok act hpar.1 hst
    | false =>
      have hin := hss.parent_mem hm hw.1 (by rw [← hd]; exact hmi) hst
      obtain ⟨p, hp, hpid⟩ := mem_ids.mp hpar.1
      rw [← hpid]
      exact kept_mem_skipTable act hs hk hp (by rw [hd, hpid]; exact hin)
  · unfold rkNew
    rw [if_pos (le_maxId hpar.1), if_pos (le_maxId (mem_ids_of_mem hm))]
    have := mul_rank_lt (M := M) hpar.2
    omega

theorem WF_skipTable {t : Table} (hw : WF t) {segs : List (List Int)} (hok : SegsOK t segs)
    (act : List Int → SegAct) : WF (skipTable t segs act) := by
  obtain ⟨rk, hrk, _⟩ := WF_rank_le hw
  have hnd := ids_skipTable_nodup hw hok act
  have hsub := ids_skipTable_sub hw hok act
  have hdis : (plan (cntOfAct act) segs (maxId t + 1)).Pairwise (fun o o' => o.base + (o.k : Int) ≤ o'.base) :=
    plan_pairwise _ _ _
  obtain ⟨M, hM1, hM⟩ : ∃ M : Nat, 1 ≤ M ∧ ∀ o ∈ plan (cntOfAct act) segs (maxId t + 1), o.k < M :=
    ⟨1 + ((plan (cntOfAct act) segs (maxId t + 1)).map (·.k)).sum, by omega,
      fun o ho => by have := sum_k_ge ho; omega⟩
  generalize hP : plan (cntOfAct act) segs (maxId t + 1) = P at hdis hM
  refine ⟨hnd, ?_, rkNew t rk M P, ?_⟩
  · intro m hm
    rcases hsub m.id (mem_ids_of_mem hm) with h | h
    · obtain ⟨n, hn, hid⟩ := mem_ids.mp h
      rw [← hid]; exact hw.2.1 n hn
    · have := maxId_nonneg t
      omega
  · intro m hm
    unfold skipTable at hm
    rcases List.mem_append.mp hm with hm | hm
    · obtain ⟨e, he, rfl⟩ := List.mem_map.mp hm
      rw [mkNode_id, mkNode_parent]
      right
      obtain ⟨s, o, hsl, heo⟩ := mem_planX he
      by_cases hk : act s = .keep
      · rw [hk, segRowsX_keep] at heo
        obtain ⟨m', hm', hmi, rfl⟩ := mem_keptRows.mp heo
        exact kept_row_ok hw hok act hrk hM1 P hsl.seg_mem hk hm' hmi
      · rw [hsl.rows_eq hk] at heo
        have ho : o ∈ P := hP ▸ hsl.out_mem
        obtain ⟨n, hn, _, hf, hlin, hlst, _⟩ := hok.facts hsl.seg_mem
        have hbg : maxId t < o.base := by
          obtain ⟨_, _, _, _, _, hb⟩ := mem_plan hsl.out_mem
          omega
        have hfl : o.first ≤ maxId t := by
          rw [hsl.first, hf]; exact le_maxId (mem_ids_of_mem hn)
        have hll : o.last ≤ maxId t := by
          rw [hsl.last]; exact le_maxId hlin
        have hrank : rk o.last < rk o.first := by
          rw [hsl.first, hsl.last]; exact hok.rank hrk hsl.seg_mem
        have hMk := hM o ho
        have hlast_in : o.last ∈ ids (skipTable t segs act) := by
          rw [hsl.last]; exact anchor_mem_skipTable hw hok act hlin hlst
        have hfresh_in : ∀ j : Nat, j < o.k → o.base + (j : Int) ∈ ids (skipTable t segs act) := by
          intro j hj
          have hrow := linkPairs_fresh_mem o.first o.last o.base o.k j hj
          rw [← hsl.rows_eq hk] at hrow
          exact fst_mem_ids_skipTable (hsl.rows _ hrow)
        have hrk_fresh : ∀ j : Nat, j < o.k →
            rkNew t rk M P (o.base + (j : Int)) = M * rk o.last + (o.k - j) := by
          intro j hj
          unfold rkNew
          rw [if_neg (by omega), rkFresh_of_mem rk M hdis ho (by omega) (by omega)]
          congr 1
          omega
        have hrk_first : rkNew t rk M P o.first = M * rk o.first := by unfold rkNew; rw [if_pos hfl]
        have hrk_last : rkNew t rk M P o.last = M * rk o.last := by unfold rkNew; rw [if_pos hll]
        have hmul : M * rk o.last + M ≤ M * rk o.first := mul_rank_lt hrank
        rcases mem_linkPairs heo with ⟨h1, h2⟩ | ⟨j, hj, h1, h2⟩
        · rw [h1, hrk_first]
          rcases h2 with ⟨hk0, h2⟩ | ⟨hk0, h2⟩
          · rw [h2, hrk_last]
            exact ⟨hlast_in, by omega⟩
          · rw [h2]
            have := hrk_fresh 0 hk0
            simp only [Int.natCast_zero, Int.add_zero, Nat.sub_zero] at this
            rw [this]
            exact ⟨by simpa using hfresh_in 0 hk0, by omega⟩
        · rw [h1, hrk_fresh j hj]
          rcases h2 with ⟨hk0, h2⟩ | ⟨hk0, h2⟩
          · rw [h2, hrk_last]
            exact ⟨hlast_in, by omega⟩
          · rw [h2]
            have e : o.base + (j : Int) + 1 = o.base + ((j + 1 : Nat) : Int) := by push_cast; omega
            rw [e, hrk_fresh (j + 1) hk0]
            exact ⟨hfresh_in (j + 1) hk0, by omega⟩
    · left
      have := List.mem_filter.mp hm
      simpa [isRootNode] using this.2

/-! ### the theorems -/

/-- the loop over ANY ordering of the segments (the implementation's segment order is back-end dependent) -/
theorem WF_resampleSkipOn {t : Table} (hw : WF t) {segs : List (List Int)} (hp : segs.Perm (smallSegments t))
    (act : List Int → SegAct) : WF (resampleSkipOn t segs act) := by
  have hok := segsOK_of_perm hw hp
  rw [resampleSkipOn_eq, dedupById_of_nodup _ (ids_skipTable_nodup hw hok act)]
  exact WF_classify (WF_skipTable hw hok act)

theorem WF_resampleSkip {t : Table} (hw : WF t) (act : List Int → SegAct) : WF (resampleSkip t act) :=
  WF_resampleSkipOn hw (List.Perm.refl _) act

/-- before the de-duplication no id occurs twice: `new_nodes[~new_nodes.node_id.duplicated()]` drops nothing -/
theorem resampleSkipOn_nodup {t : Table} (hw : WF t) {segs : List (List Int)} (hp : segs.Perm (smallSegments t))
    (act : List Int → SegAct) :
    (ids ((planX t act segs (maxId t + 1)).map (mkNode t) ++ t.filter isRootNode)).Nodup :=
  ids_skipTable_nodup hw (segsOK_of_perm hw hp) act

/-- refinement: without failures the loop is the model of Model/Resample.lean -/
theorem resampleSkip_actOfCnt (t : Table) (cnt : List Int → Option Nat) :
    resampleSkip t (actOfCnt cnt) = resampleStruct t cnt := by
  unfold resampleSkip resampleStruct allLinks planOf
  rw [planX_actOfCnt]

/-- every id of the result is an original id or a fresh id above the old maximum -/
theorem ids_resampleSkipOn_sub {t : Table} (hw : WF t) {segs : List (List Int)} (hp : segs.Perm (smallSegments t))
    (act : List Int → SegAct) : ∀ i ∈ ids (resampleSkipOn t segs act), i ∈ ids t ∨ maxId t < i := by
  have hok := segsOK_of_perm hw hp
  intro i hi
  rw [resampleSkipOn_eq, dedupById_of_nodup _ (ids_skipTable_nodup hw hok act), ids_classify] at hi
  exact ids_skipTable_sub hw hok act i hi

end Navis.Resample
