import NavisModel.Proofs.DownsampleLemmas
/-! C13: contracting single-child nodes does not change the number of children of any kept node.

`Contracts t u`: `u` keeps a subset of the rows of `t`, links every kept node to the first kept node on the
tail of its old root path, and every dropped node has exactly one child in `t`.  Then for every kept node
`i` the children of `i` in `u` are in bijection with the children of `i` in `t` (`childCount_contract`).
Core Lean only. -/
namespace Navis.Forest

/-! ### list helpers -/

theorem split_unique {α} {a : α} : ∀ {l1 l2 r1 r2 : List α}, l1 ++ a :: r1 = l2 ++ a :: r2 → a ∉ l1 → a ∉ l2 →
    l1 = l2 ∧ r1 = r2
  | [], [], _, _, h, _, _ => by simpa using h
  | [], y :: l2, _, _, h, _, h2 => by
    simp only [List.nil_append, List.cons_append, List.cons.injEq] at h
    exact absurd (by simp [h.1]) h2
  | x :: l1, [], _, _, h, h1, _ => by
    simp only [List.nil_append, List.cons_append, List.cons.injEq] at h
    exact absurd (by simp [h.1]) h1
  | x :: l1, y :: l2, r1, r2, h, h1, h2 => by
    simp only [List.cons_append, List.cons.injEq] at h
    obtain ⟨e1, e2⟩ := split_unique (l1 := l1) (l2 := l2) h.2 (fun hm => h1 (List.mem_cons_of_mem _ hm))
      (fun hm => h2 (List.mem_cons_of_mem _ hm))
    exact ⟨by rw [h.1, e1], e2⟩

theorem exists_last_sat {α} (p : α → Prop) : ∀ (W : List α), (∃ x ∈ W, p x) →
    ∃ W1 d W2, W = W1 ++ d :: W2 ∧ p d ∧ ∀ y ∈ W2, ¬ p y
  | [], h => by obtain ⟨x, hx, _⟩ := h; simp at hx
  | x :: W, h => by
    by_cases hW : ∃ y ∈ W, p y
    · obtain ⟨W1, d, W2, e, hd, h2⟩ := exists_last_sat p W hW
      exact ⟨x :: W1, d, W2, by rw [e]; rfl, hd, h2⟩
    · obtain ⟨z, hz, hpz⟩ := h
      rcases List.mem_cons.mp hz with rfl | hz
      · exact ⟨[], z, W, rfl, hpz, fun y hy hp => hW ⟨y, hy, hp⟩⟩
      · exact absurd ⟨z, hz, hpz⟩ hW

theorem not_mem_prefix_of_nodup {α} {l r : List α} {a : α} (h : (l ++ a :: r).Nodup) : a ∉ l := by
  intro hm
  rw [List.nodup_append] at h
  exact h.2.2 a hm a (by simp) rfl

/-- Equal-size relations between duplicate-free lists. -/
theorem length_eq_of_bij {α β} [DecidableEq β] (R : α → β → Prop) : ∀ (A : List α) (B : List β), A.Nodup → B.Nodup →
    (∀ a ∈ A, ∃ b ∈ B, R a b) → (∀ b ∈ B, ∃ a ∈ A, R a b) →
    (∀ a b b', a ∈ A → b ∈ B → b' ∈ B → R a b → R a b' → b = b') →
    (∀ a a' b, a ∈ A → a' ∈ A → b ∈ B → R a b → R a' b → a = a') → A.length = B.length
  | [], B, _, _, _, hS, _, _ => by
    cases B with
    | nil => rfl
    | cons b B => obtain ⟨a, ha, _⟩ := hS b (by simp); simp at ha
  | a :: A, B, hA, hB, hE, hS, hF, hI => by
    obtain ⟨b, hb, hab⟩ := hE a (by simp)
    rw [List.nodup_cons] at hA
    have ih := length_eq_of_bij R A (B.erase b) hA.2 (hB.erase b)
      (by
        intro a' ha'
        obtain ⟨b', hb', hab'⟩ := hE a' (List.mem_cons_of_mem _ ha')
        refine ⟨b', (List.mem_erase_of_ne ?_).mpr hb', hab'⟩
        intro e
        subst e
        have := hI a a' b' (by simp) (List.mem_cons_of_mem _ ha') hb hab hab'
        exact hA.1 (this ▸ ha'))
      (by
        intro b' hb'
        have hb'B : b' ∈ B := List.mem_of_mem_erase hb'
        have hne : b' ≠ b := fun e => by
          subst e
          exact (List.Nodup.mem_erase_iff hB).mp hb' |>.1 rfl
        obtain ⟨a', ha', hab'⟩ := hS b' hb'B
        rcases List.mem_cons.mp ha' with rfl | ha'
        · exact absurd (hF a' b' b (by simp) hb'B hb hab' hab) hne
        · exact ⟨a', ha', hab'⟩)
      (fun a' b1 b2 ha' hb1 hb2 => hF a' b1 b2 (List.mem_cons_of_mem _ ha') (List.mem_of_mem_erase hb1) (List.mem_of_mem_erase hb2))
      (fun a1 a2 b' ha1 ha2 hb' => hI a1 a2 b' (List.mem_cons_of_mem _ ha1) (List.mem_cons_of_mem _ ha2) (List.mem_of_mem_erase hb'))
    rw [List.length_cons, ih, List.length_erase_of_mem hb]
    have : 0 < B.length := List.length_pos_of_mem hb
    omega

/-! ### contraction -/

structure Contracts (t u : Table) : Prop where
  nodup : (ids u).Nodup
  sub : ∀ m ∈ u, m.id ∈ ids t
  link : ∀ m ∈ u, ((rootPath t m.id).tail.find? (fun a => (ids u).contains a) = none ∧ m.parent < 0) ∨
      (∃ a, (rootPath t m.id).tail.find? (fun a => (ids u).contains a) = some a ∧ m.parent = a)
  slab : ∀ n ∈ t, n.id ∉ ids u → childCount t n.id = 1

theorem nodup_of_ids_nodup {t : Table} (h : (ids t).Nodup) : t.Nodup :=
  List.Pairwise.of_map (fun n : Node => n.id) (fun a b hne heq => hne (by rw [heq])) h

theorem node_eq_of_id {t : Table} (hnd : (ids t).Nodup) {a b : Node} (ha : a ∈ t) (hb : b ∈ t) (h : a.id = b.id) :
    a = b := by
  have h1 := find?_of_mem hnd ha
  have h2 := find?_of_mem hnd hb
  rw [h] at h1
  rw [h1] at h2
  exact Option.some.inj h2

/-- A kept node whose new parent is `i ≥ 0`: the tail of its root path is `between ++ i :: above` with
nothing kept in `between`. -/
theorem Contracts.path {t u : Table} (h : Contracts t u) {m : Node} (hm : m ∈ u) {i : Int} (hp : m.parent = i)
    (hi : 0 ≤ i) :
    ∃ between above, (rootPath t m.id).tail = between ++ i :: above ∧ i ∈ ids u ∧ ∀ x ∈ between, x ∉ ids u := by
  rcases h.link m hm with ⟨_, hneg⟩ | ⟨a, hfd, hpa⟩
  · omega
  · rw [List.find?_eq_some_iff_append] at hfd
    obtain ⟨hka, as, bs, hl, has⟩ := hfd
    have : a = i := by rw [← hpa, hp]
    subst this
    exact ⟨as, bs, hl, by simpa using hka, fun x hx => by simpa using has x hx⟩

/-- Root path of a child of `i`. -/
theorem rootPath_child {t : Table} (hw : WF t) {c : Node} (hc : c ∈ t) {i : Int} (hp : c.parent = i) (hi : 0 ≤ i) :
    rootPath t c.id = c.id :: rootPath t i := by
  rw [rootPath_of_nonroot hw (find?_of_mem hw.1 hc) (by omega), hp]

theorem suffix_split {t : Table} (hw : WF t) {d x : Int} (hd : d ∈ ids t) (hx : x ∈ rootPath t d) :
    ∃ P, rootPath t d = P ++ rootPath t x := by
  obtain ⟨P, hP⟩ := rootPath_suffix hw d hd x hx
  exact ⟨P, hP.symm⟩

/-- (F) chain uniqueness: two kept nodes whose root paths reach `x` through non-kept nodes only
(everything after their own head up to and including `x`) are equal. -/
theorem chain_unique {t u : Table} (hw : WF t) (h : Contracts t u) {d d' : Int} (hd : d ∈ ids t) (hd' : d' ∈ ids t)
    (hk : d ∈ ids u) (hk' : d' ∈ ids u) :
    ∀ (n : Nat) (W W' : List Int) (x : Int) (S S' : List Int), W.length = n →
      rootPath t d = W ++ x :: S → rootPath t d' = W' ++ x :: S' →
      (∀ y ∈ (W ++ [x]).tail, y ∉ ids u) → (∀ y ∈ (W' ++ [x]).tail, y ∉ ids u) → d = d' := by
  intro n
  induction n with
  | zero =>
    intro W W' x S S' hlen hr hr' hnk hnk'
    have hW : W = [] := List.length_eq_zero_iff.mp hlen
    subst hW
    obtain ⟨rest, hrest⟩ := rootPath_cons hd
    rw [hrest] at hr
    simp only [List.nil_append, List.cons.injEq] at hr
    have hdx : d = x := hr.1
    cases W' with
    | nil =>
      obtain ⟨rest', hrest'⟩ := rootPath_cons hd'
      rw [hrest'] at hr'
      simp only [List.nil_append, List.cons.injEq] at hr'
      rw [hdx, hr'.1]
    | cons w W' =>
      exfalso
      exact hnk' x (by simp) (hdx ▸ hk)
  | succ n ih =>
    intro W W' x S S' hlen hr hr' hnk hnk'
    rcases List.eq_nil_or_concat W with hW | ⟨W0, y, hW⟩
    · subst hW; simp at hlen
    · rw [List.concat_eq_append] at hW
      subst hW
      have hxnk : x ∉ ids u := hnk x (by
        cases W0 <;> simp)
      rcases List.eq_nil_or_concat W' with hW' | ⟨W0', y', hW'⟩
      · exfalso
        subst hW'
        obtain ⟨rest', hrest'⟩ := rootPath_cons hd'
        rw [hrest'] at hr'
        simp only [List.nil_append, List.cons.injEq] at hr'
        exact hxnk (hr'.1 ▸ hk')
      · rw [List.concat_eq_append] at hW'
        subst hW'
        have hl := rootPath_linked t d
        have hl' := rootPath_linked t d'
        rw [hr, List.append_assoc] at hl
        rw [hr', List.append_assoc] at hl'
        obtain ⟨ny, hfy, hpy, _⟩ := Linked_at W0 y x S hl
        obtain ⟨ny', hfy', hpy', _⟩ := Linked_at W0' y' x S' hl'
        have hxin : x ∈ ids t := rootPath_sub (i := d) (by rw [hr]; simp)
        obtain ⟨nx, hnx, hnxid⟩ := mem_ids.mp hxin
        have hone : childCount t x ≤ 1 := by
          have := h.slab nx hnx (hnxid ▸ hxnk)
          rw [hnxid] at this; omega
        have heq := child_unique hone (find?_some hfy).1 (find?_some hfy').1 hpy hpy'
        have hyy : y = y' := by rw [← (find?_some hfy).2, ← (find?_some hfy').2, heq]
        subst hyy
        have hlen0 : W0.length = n := by simpa using hlen
        refine ih W0 W0' y (x :: S) (x :: S') hlen0 (by rw [hr]; simp) (by rw [hr']; simp) ?_ ?_
        · intro z hz
          apply hnk z
          have : (W0 ++ [y] ++ [x]).tail = (W0 ++ [y]).tail ++ [x] := by cases W0 <;> simp
          rw [this]; exact List.mem_append_left _ hz
        · intro z hz
          apply hnk' z
          have : (W0' ++ [y] ++ [x]).tail = (W0' ++ [y]).tail ++ [x] := by cases W0' <;> simp
          rw [this]; exact List.mem_append_left _ hz

/-- **Contracting single-child nodes preserves every kept node's number of children.** -/
theorem childCount_contract {t u : Table} (hw : WF t) (h : Contracts t u) {i : Int} (hi : i ∈ ids u) :
    childCount u i = childCount t i := by
  have hit : i ∈ ids t := by
    obtain ⟨m, hm, rfl⟩ := mem_ids.mp hi
    exact h.sub m hm
  have hi0 : 0 ≤ i := ids_nonneg hw.2.1 hit
  obtain ⟨Ri, hRi⟩ := rootPath_cons hit
  -- decomposition of the root path of a kept child `d` of `i` in `u` through a `t`-child `c` of `i`
  have hdecomp : ∀ (c d : Node), c ∈ t → c.parent = i → d ∈ u → d.parent = i → c.id ∈ rootPath t d.id →
      ∃ P, rootPath t d.id = P ++ c.id :: i :: Ri ∧ ∀ y ∈ (P ++ [c.id]).tail, y ∉ ids u := by
    intro c d hc hcp hd hdp hcd
    have hdt := h.sub d hd
    obtain ⟨P, hP⟩ := suffix_split hw hdt hcd
    rw [rootPath_child hw hc hcp hi0, hRi] at hP
    obtain ⟨between, above, htl, _, hbt⟩ := h.path hd hdp hi0
    obtain ⟨rest, hrest⟩ := rootPath_cons hdt
    refine ⟨P, hP, ?_⟩
    have hnd := rootPath_nodup hw d.id
    have e1 : rootPath t d.id = (d.id :: between) ++ i :: above := by
      rw [hrest] at htl ⊢
      simp only [List.tail_cons] at htl
      rw [htl]; rfl
    have e2 : rootPath t d.id = (P ++ [c.id]) ++ i :: Ri := by rw [hP]; simp
    have hn1 : i ∉ d.id :: between := not_mem_prefix_of_nodup (e1 ▸ hnd)
    have hn2 : i ∉ P ++ [c.id] := not_mem_prefix_of_nodup (e2 ▸ hnd)
    obtain ⟨e3, _⟩ := split_unique (e1.symm.trans e2) hn1 hn2
    rw [← e3]
    exact hbt
  unfold childCount
  symm
  apply length_eq_of_bij (fun (c : Node) (d : Node) => c.id ∈ rootPath t d.id)
    (t.filter fun n => n.parent == i) (u.filter fun n => n.parent == i)
    ((nodup_of_ids_nodup hw.1).filter _) ((nodup_of_ids_nodup h.nodup).filter _)
  · -- (E) every child of `i` in `t` leads down to a kept node whose new parent is `i`
    intro c hcA
    obtain ⟨hc, hcp'⟩ := List.mem_filter.mp hcA
    have hcp : c.parent = i := by simpa using hcp'
    obtain ⟨l, hl, _, hlcc, hcl⟩ := exists_leaf_below hw (t.length + 1) c hc (by omega) (by omega)
    have hlk : l.id ∈ ids u := by
      apply Classical.byContradiction
      intro hnk
      have := h.slab l hl hnk
      omega
    have hlt := mem_ids_of_mem hl
    obtain ⟨P, hP⟩ := suffix_split hw hlt hcl
    rw [rootPath_child hw hc hcp hi0, hRi] at hP
    obtain ⟨restl, hrestl⟩ := rootPath_cons hlt
    have hhead : ∃ x ∈ P ++ [c.id], x ∈ ids u := by
      refine ⟨l.id, ?_, hlk⟩
      cases P with
      | nil =>
        rw [hrestl] at hP
        simp only [List.nil_append, List.cons.injEq] at hP
        simp [hP.1]
      | cons p P =>
        rw [hrestl] at hP
        simp only [List.cons_append, List.cons.injEq] at hP
        simp [hP.1]
    obtain ⟨W1, d, W2, hW, hdk, hW2⟩ := exists_last_sat (fun x => x ∈ ids u) _ hhead
    have e2 : rootPath t l.id = W1 ++ d :: (W2 ++ i :: Ri) := by
      rw [hP]
      have : P ++ c.id :: i :: Ri = (P ++ [c.id]) ++ i :: Ri := by simp
      rw [this, hW]; simp
    have hdin : d ∈ rootPath t l.id := by rw [e2]; simp
    have hdt : d ∈ ids t := rootPath_sub hdin
    obtain ⟨Pd, hPd⟩ := suffix_split hw hlt hdin
    obtain ⟨restd, hrestd⟩ := rootPath_cons hdt
    have hnd := rootPath_nodup hw l.id
    have e3 : rootPath t l.id = Pd ++ d :: restd := by rw [hPd, hrestd]
    obtain ⟨_, e4⟩ := split_unique (e3.symm.trans e2) (not_mem_prefix_of_nodup (e3 ▸ hnd))
      (not_mem_prefix_of_nodup (e2 ▸ hnd))
    obtain ⟨m, hm, hmid⟩ := mem_ids.mp hdk
    have htl : (rootPath t m.id).tail = W2 ++ i :: Ri := by rw [hmid, hrestd, e4]; rfl
    have hfind : (rootPath t m.id).tail.find? (fun a => (ids u).contains a) = some i := by
      rw [htl]
      exact find?_append_skip _ W2 i Ri (fun y hy => by simpa using hW2 y hy) (by simpa using hi)
    have hmp : m.parent = i := by
      rcases h.link m hm with ⟨hnone, _⟩ | ⟨a, hfa, hpa⟩
      · rw [hfind] at hnone; cases hnone
      · rw [hfind] at hfa; rw [hpa]; exact (Option.some.inj hfa).symm
    refine ⟨m, List.mem_filter.mpr ⟨hm, by simpa using hmp⟩, ?_⟩
    show c.id ∈ rootPath t m.id
    rw [hmid, hrestd, e4]
    -- `c.id` is the last element of `W1 ++ d :: W2`
    rcases List.eq_nil_or_concat W2 with hW2n | ⟨W2', b, hW2c⟩
    · subst hW2n
      have : P ++ [c.id] = W1 ++ [d] := hW
      have := (List.append_inj' this rfl).2
      simp only [List.cons.injEq, and_true] at this
      simp [this]
    · rw [List.concat_eq_append] at hW2c
      subst hW2c
      have : P ++ [c.id] = (W1 ++ d :: W2') ++ [b] := by rw [hW]; simp
      have := (List.append_inj' this rfl).2
      simp only [List.cons.injEq, and_true] at this
      simp [this]
  · -- (S) every child of `i` in `u` descends through a child of `i` in `t`
    intro d hdB
    obtain ⟨hd, hdp'⟩ := List.mem_filter.mp hdB
    have hdp : d.parent = i := by simpa using hdp'
    have hdt := h.sub d hd
    obtain ⟨between, above, htl, _, _⟩ := h.path hd hdp hi0
    obtain ⟨rest, hrest⟩ := rootPath_cons hdt
    have e1 : rootPath t d.id = (d.id :: between) ++ i :: above := by
      rw [hrest] at htl ⊢
      simp only [List.tail_cons] at htl
      rw [htl]; rfl
    rcases List.eq_nil_or_concat (d.id :: between) with hnil | ⟨L, y, hL⟩
    · simp at hnil
    · rw [hL, List.concat_eq_append, List.append_assoc] at e1
      have hl := rootPath_linked t d.id
      rw [e1] at hl
      obtain ⟨ny, hfy, hpy, _⟩ := Linked_at L y i above hl
      refine ⟨ny, List.mem_filter.mpr ⟨(find?_some hfy).1, by simpa using hpy⟩, ?_⟩
      show ny.id ∈ rootPath t d.id
      rw [(find?_some hfy).2, e1]; simp
  · -- (F)
    intro c d d' hcA hdB hdB' hcd hcd'
    obtain ⟨hc, hcp'⟩ := List.mem_filter.mp hcA
    have hcp : c.parent = i := by simpa using hcp'
    obtain ⟨hd, hdp'⟩ := List.mem_filter.mp hdB
    obtain ⟨hd', hdp''⟩ := List.mem_filter.mp hdB'
    obtain ⟨P, hP, hnk⟩ := hdecomp c d hc hcp hd (by simpa using hdp') hcd
    obtain ⟨P', hP', hnk'⟩ := hdecomp c d' hc hcp hd' (by simpa using hdp'') hcd'
    have := chain_unique hw h (h.sub d hd) (h.sub d' hd') (mem_ids_of_mem hd) (mem_ids_of_mem hd')
      P.length P P' c.id (i :: Ri) (i :: Ri) rfl hP hP' hnk hnk'
    exact node_eq_of_id h.nodup hd hd' this
  · -- (I)
    intro c c' d hcA hcA' hdB hcd hcd'
    obtain ⟨hc, hcp'⟩ := List.mem_filter.mp hcA
    obtain ⟨hc', hcp''⟩ := List.mem_filter.mp hcA'
    obtain ⟨hd, hdp'⟩ := List.mem_filter.mp hdB
    obtain ⟨P, hP, _⟩ := hdecomp c d hc (by simpa using hcp') hd (by simpa using hdp') hcd
    obtain ⟨P', hP', _⟩ := hdecomp c' d hc' (by simpa using hcp'') hd (by simpa using hdp') hcd'
    have e : P ++ c.id :: i :: Ri = P' ++ c'.id :: i :: Ri := hP.symm.trans hP'
    have := (List.append_inj' e rfl).2
    simp only [List.cons.injEq, and_true] at this
    exact node_eq_of_id hw.1 hc hc' this

end Navis.Forest

namespace Navis.Resample
open Navis.Forest

/-- A node of a correctly labelled forest that is not kept by `downsample` has exactly one child. -/
theorem dropped_one_child {t : Table} (hw : WF t) (hl : labelsOKB t = true) (f : Option Nat) (pres : List Int)
    {n : Node} (hn : n ∈ t) (hdrop : n.id ∉ ids (downsample t f pres)) : childCount t n.id = 1 := by
  have hslab : n.label = .slab := by
    apply Classical.byContradiction
    intro hne
    exact hdrop (downsample_keeps_fixpoints hw f pres hn (Or.inl hne))
  have := (labelsOKB_iff t).mp hl n hn
  rw [hslab] at this
  unfold labelOf at this
  split at this
  · cases this
  · split at this
    · cases this
    · split at this
      · assumption
      · cases this

/-- `downsample` contracts single-child nodes. -/
theorem downsample_contracts {t : Table} (hw : WF t) (hl : labelsOKB t = true) (f : Option Nat) (pres : List Int) :
    Contracts t (downsample t f pres) := by
  obtain ⟨h1, _, h3⟩ := downsample_spec hw f pres (one_child_of_labels hw hl pres) [] (by simp)
  refine ⟨(WF_downsample hw f pres).1, ?_, ?_, fun n hn hd => dropped_one_child hw hl f pres hn hd⟩
  · intro m hm
    obtain ⟨n, hn, hid, _⟩ := h1 m hm
    exact hid ▸ mem_ids_of_mem hn
  · intro m hm
    rcases h3 m hm with h | ⟨a, ha, hp, _⟩
    · exact Or.inl h
    · exact Or.inr ⟨a, ha, hp⟩

end Navis.Resample
