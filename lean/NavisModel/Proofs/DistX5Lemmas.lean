import NavisModel.Proofs.DistX4Lemmas
/-! Helper lemmas for the second pass of C05, part 5 (core Lean only): the integer square root behind `coordLen`
is exact on perfect squares; unit weights count edges. -/
namespace Navis.Forest

theorem succ_sq (n : Nat) : (n + 1) * (n + 1) = n * n + n + n + 1 := by
  rw [Nat.add_mul, Nat.mul_add, Nat.mul_one, Nat.one_mul]
  omega

theorem isqrt_go_spec (n : Nat) : ∀ (fuel lo hi : Nat), lo * lo ≤ n → n < hi * hi → hi - lo ≤ fuel + 1 →
    isqrt.go n fuel lo hi * isqrt.go n fuel lo hi ≤ n ∧ n < (isqrt.go n fuel lo hi + 1) * (isqrt.go n fuel lo hi + 1) := by
  intro fuel
  induction fuel with
  | zero =>
    intro lo hi h1 h2 h3
    unfold isqrt.go
    refine ⟨h1, ?_⟩
    have : hi ≤ lo + 1 := by omega
    exact Nat.lt_of_lt_of_le h2 (Nat.mul_le_mul this this)
  | succ fuel ih =>
    intro lo hi h1 h2 h3
    unfold isqrt.go
    by_cases hc : hi ≤ lo + 1
    · simp only [hc, if_true]
      exact ⟨h1, Nat.lt_of_lt_of_le h2 (Nat.mul_le_mul hc hc)⟩
    · simp only [hc, if_false]
      have hlo : lo < (lo + hi) / 2 := by omega
      have hhi : (lo + hi) / 2 < hi := by omega
      by_cases hm : (lo + hi) / 2 * ((lo + hi) / 2) ≤ n
      · simp only [hm, if_true]
        exact ih _ _ hm h2 (by omega)
      · simp only [hm, if_false]
        exact ih _ _ h1 (by omega) (by omega)

/-- The integer square root: `r² ≤ n < (r+1)²`. -/
theorem isqrt_spec (n : Nat) : isqrt n * isqrt n ≤ n ∧ n < (isqrt n + 1) * (isqrt n + 1) := by
  unfold isqrt
  apply isqrt_go_spec n (n + 2) 0 (n + 1) (by simp) _ (by omega)
  rw [succ_sq]; omega

/-- Exact on perfect squares. -/
theorem isqrt_sq (k : Nat) : isqrt (k * k) = k := by
  obtain ⟨h1, h2⟩ := isqrt_spec (k * k)
  have a : isqrt (k * k) ≤ k := Nat.mul_self_le_mul_self_iff.mp h1
  have b : k < isqrt (k * k) + 1 := Nat.mul_self_lt_mul_self_iff.mp h2
  omega

/-- **The edge length is the Euclidean child–parent distance** whenever that distance is an integer `w`
(`w² = dx² + dy² + dz²`, which the driver checks for every generated edge). -/
theorem coordLen_exact {t : Table} {a b : Int} {na nb : Node} (ha : find? t a = some na) (hb : find? t b = some nb)
    (w : Nat) (hw : sqDist na nb = w * w) : coordLen t a b = w := by
  unfold coordLen
  rw [ha, hb]
  simp only
  rw [hw, isqrt_sq]

/-- With unit weights (`weight=None`) a path's length is its number of edges. -/
theorem pathLen_unit : ∀ (p : List Int), pathLen (fun _ _ => 1) p = p.length - 1
  | [] => rfl
  | [_] => rfl
  | a :: b :: rest => by
    have ih := pathLen_unit (b :: rest)
    simp only [pathLen, ih, List.length_cons]
    omega

end Navis.Forest
