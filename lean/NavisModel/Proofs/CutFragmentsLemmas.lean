import NavisModel.Proofs.PruneManyLemmas
/-!
The fragments of a multi-cut (`cut_skeleton` with several cut nodes; C10, second pass; core Lean only).

Cutting a single tree `t` with root `ρ` at the distinct non-root nodes `cs` yields one fragment per top
`τ ∈ ρ :: cs`, namely `subset t (fragKeep t cs τ)`; consequently the fragments do not depend on the order
of the cuts (`cutMany_perm`).  The fragment description needs at least one cut node, or an input table that is
already in the normal form `subset` produces (`cutMany_fragments_partial`): with no cut node `cutMany`
returns `t` itself, labels untouched (`cutMany_fragments_counterexample`).
-/
namespace Navis.TreeEdit
open Navis.Forest

/-! ### `fragKeep` as a proposition -/

/-- The conjunct of `fragKeep` for one cut node `c`. -/
theorem fragCond_iff {t : Table} {c τ i : Int} :
    (!((rootPath t i).contains c && (rootPath t c).contains τ) || c == τ || c == i) = true ↔
      (c ∈ rootPath t i → τ ∈ rootPath t c → c = τ ∨ c = i) := by
  by_cases h1 : c ∈ rootPath t i <;> by_cases h2 : τ ∈ rootPath t c <;> simp [h1, h2]

theorem fragKeep_iff {t : Table} {P : List Int} {τ i : Int} :
    fragKeep t P τ i = true ↔
      τ ∈ rootPath t i ∧ ∀ q ∈ P, q ∈ rootPath t i → τ ∈ rootPath t q → q = τ ∨ q = i := by
  unfold fragKeep
  rw [Bool.and_eq_true, List.all_eq_true]
  constructor
  · rintro ⟨h1, h2⟩
    exact ⟨by simpa using h1, fun q hq => fragCond_iff.mp (h2 q hq)⟩
  · rintro ⟨h1, h2⟩
    exact ⟨by simpa using h1, fun q hq => fragCond_iff.mpr (h2 q hq)⟩

theorem fragKeep_snoc (t : Table) (P : List Int) (c τ i : Int) :
    fragKeep t (P ++ [c]) τ i = (fragKeep t P τ i &&
      (!((rootPath t i).contains c && (rootPath t c).contains τ) || c == τ || c == i)) := by
  unfold fragKeep
  rw [List.all_append]
  simp only [List.all_cons, List.all_nil, Bool.and_true, Bool.and_assoc]

/-- `fragKeep` depends on the cut nodes only as a set. -/
theorem fragKeep_congr {t : Table} {P P' : List Int} (h : ∀ x, x ∈ P ↔ x ∈ P') (τ i : Int) :
    fragKeep t P τ i = fragKeep t P' τ i := by
  rw [Bool.eq_iff_iff, fragKeep_iff, fragKeep_iff]
  constructor
  · rintro ⟨h1, h2⟩; exact ⟨h1, fun q hq => h2 q ((h q).mpr hq)⟩
  · rintro ⟨h1, h2⟩; exact ⟨h1, fun q hq => h2 q ((h q).mp hq)⟩

/-- Fragments are convex: every node between a kept node and the top is kept. -/
theorem fragKeep_convex {t : Table} (hw : WF t) {P : List Int} {τ i x : Int} (h : fragKeep t P τ i = true)
    (hx : x ∈ rootPath t i) (hτ : τ ∈ rootPath t x) : fragKeep t P τ x = true := by
  rw [fragKeep_iff] at h ⊢
  refine ⟨hτ, fun q hq hqx hτq => ?_⟩
  rcases h.2 q hq (anc_trans hw hqx hx) hτq with e | e
  · exact Or.inl e
  · right
    rw [e] at hqx ⊢
    exact anc_antisymm hw hqx hx

/-! ### a single tree -/

theorem root_anc {t : Table} (hw : WF t) {ρ : Int} (hroot : roots t = [ρ]) {i : Int} (hi : i ∈ ids t) :
    ρ ∈ rootPath t i := by
  obtain ⟨r, _, hr, hri⟩ := rootOf_spec hw hi
  rw [hroot] at hr
  rw [List.mem_singleton] at hr
  rw [← hr]; exact hri

theorem anc_root_eq {t : Table} (hw : WF t) {ρ : Int} (hroot : roots t = [ρ]) {a : Int} (h : a ∈ rootPath t ρ) :
    a = ρ := by
  have hρ : ρ ∈ roots t := by rw [hroot]; exact List.mem_singleton.mpr rfl
  obtain ⟨n, hn, hid, hp⟩ := mem_roots.mp hρ
  have hf := find?_of_mem hw.1 hn
  rw [hid] at hf
  rw [rootPath_of_root hf hp] at h
  exact List.mem_singleton.mp h

/-! ### the top of the fragment that contains a node -/

theorem exists_top {t : Table} (hw : WF t) {ρ : Int} (hroot : roots t = [ρ]) (P : List Int) {c : Int}
    (hc : c ∈ ids t) :
    ∃ τ0 ∈ ρ :: P, τ0 ∈ rootPath t c ∧ ∀ x ∈ ρ :: P, x ∈ rootPath t c → x ∈ rootPath t τ0 := by
  cases hf : (rootPath t c).find? (fun x => (ρ :: P).contains x) with
  | none =>
    rw [List.find?_eq_none] at hf
    have := hf ρ (root_anc hw hroot hc)
    simp at this
  | some τ0 =>
    obtain ⟨h1, h2, h3⟩ := find?_rootPath hw _ τ0 c hc hf
    refine ⟨τ0, by simpa using h2, h1, fun x hx hxc => h3 x hxc (by simpa using hx)⟩

/-- A node that is not a cut node lies in exactly one fragment. -/
theorem top_spec {t : Table} (hw : WF t) {ρ : Int} (hroot : roots t = [ρ]) (P : List Int) {c : Int}
    (hc : c ∈ ids t) (hcP : c ∉ P) :
    ∃ τ0 ∈ ρ :: P, fragKeep t P τ0 c = true ∧ ∀ τ ∈ ρ :: P, fragKeep t P τ c = true → τ = τ0 := by
  obtain ⟨τ0, hτ0, h1, h2⟩ := exists_top hw hroot P hc
  refine ⟨τ0, hτ0, ?_, ?_⟩
  · rw [fragKeep_iff]
    refine ⟨h1, fun q hq hqc hτq => Or.inl ?_⟩
    exact anc_antisymm hw (h2 q (List.mem_cons_of_mem _ hq) hqc) hτq
  · intro τ hτ hk
    rw [fragKeep_iff] at hk
    have hττ0 := h2 τ hτ hk.1
    rcases List.mem_cons.mp hτ0 with e | hP
    · rw [e] at hττ0 ⊢
      exact anc_root_eq hw hroot hττ0
    · rcases hk.2 τ0 hP h1 hττ0 with e | e
      · exact e.symm
      · exact absurd (e ▸ hP) hcP

/-! ### cutting one fragment -/

theorem cut_eq_some {t : Table} {c : Int} {nc : Node} (h : find? t c = some nc) (hp : ¬ nc.parent < 0) :
    cut t c = some (subset t (fun i => (distalSet t c).contains i),
      subset t (fun i => !(distalSet t c).contains i || i == c)) := by
  unfold cut
  rw [h]
  simp only [if_neg hp]

/-- The nodes distal to `c` inside the fragment that contains `c`. -/
theorem distal_fragment {t : Table} (hw : WF t) {P : List Int} {c τ0 : Int}
    (hk : fragKeep t P τ0 c = true) {i : Int} (hi : i ∈ ids t) :
    (distalSet (subset t (fragKeep t P τ0)) c).contains i =
      (fragKeep t P τ0 i && (rootPath t i).contains c) := by
  rw [Bool.eq_iff_iff]
  simp only [List.contains_eq_mem, decide_eq_true_eq, mem_distalSet, ids_subset, List.mem_filter, Bool.and_eq_true]
  constructor
  · rintro ⟨⟨_, h2⟩, h3⟩
    exact ⟨h2, (anc_of_anc_subset hw _ h3).1⟩
  · rintro ⟨h1, h2⟩
    refine ⟨⟨hi, h1⟩, ?_⟩
    rw [anc_subset_iff hw _ hi h1]
    · exact ⟨h2, hk⟩
    · intro x hx hcx
      exact fragKeep_convex hw h1 hx (anc_trans hw (fragKeep_iff.mp hk).1 hcx)

/-- Cutting the fragment topped at `τ0` at one of its nodes `c` (not a top) gives the fragment topped at `c` and
the fragment topped at `τ0` of the cut-node list extended by `c`. -/
theorem cut_fragment {t : Table} (hw : WF t) {P : List Int} {c τ0 : Int} (hcP : c ∉ P) (hne : c ≠ τ0)
    (hk : fragKeep t P τ0 c = true) :
    cut (subset t (fragKeep t P τ0)) c =
      some (subset t (fragKeep t (P ++ [c]) c), subset t (fragKeep t (P ++ [c]) τ0)) := by
  have hk' := fragKeep_iff.mp hk
  obtain ⟨n, hfn, hp, hτp, hpc⟩ := anc_parent hw hk'.1 hne
  obtain ⟨hn, hid⟩ := find?_some hfn
  have hkp : fragKeep t P τ0 n.parent = true := fragKeep_convex hw hk hpc hτp
  obtain ⟨m, hfm, hmp⟩ := find?_subset hw (fragKeep t P τ0) hn (by rw [hid]; exact hk)
  rw [hid] at hfm
  have hin : n.parent ∈ (ids t).filter (fragKeep t P τ0) := List.mem_filter.mpr ⟨rootPath_sub hpc, hkp⟩
  rw [if_pos hin] at hmp
  rw [cut_eq_some hfm (by rw [hmp]; exact hp), subset_subset, subset_subset]
  congr 2
  · apply subset_congr
    intro i hi
    rw [distal_fragment hw hk hi, Bool.eq_iff_iff]
    simp only [Bool.and_eq_true, List.contains_eq_mem, decide_eq_true_eq]
    rw [fragKeep_iff, fragKeep_iff]
    constructor
    · rintro ⟨⟨h1, h2⟩, _, hci⟩
      refine ⟨hci, fun q hq hqi hcq => ?_⟩
      rcases List.mem_append.mp hq with hqP | hqc
      · rcases h2 q hqP hqi (anc_trans hw hk'.1 hcq) with e | e
        · exfalso
          rw [e] at hcq
          exact hne (anc_antisymm hw hcq hk'.1)
        · exact Or.inr e
      · exact Or.inl (List.mem_singleton.mp hqc)
    · rintro ⟨hci, h2⟩
      have hkeep : τ0 ∈ rootPath t i ∧ ∀ q ∈ P, q ∈ rootPath t i → τ0 ∈ rootPath t q → q = τ0 ∨ q = i := by
        refine ⟨anc_trans hw hk'.1 hci, fun q hq hqi hτq => ?_⟩
        rcases anc_comparable hw hqi hci with hqc | hcq
        · rcases hk'.2 q hq hqc hτq with e | e
          · exact Or.inl e
          · exact absurd (e ▸ hq) hcP
        · rcases h2 q (List.mem_append_left _ hq) hqi hcq with e | e
          · exact absurd (e ▸ hq) hcP
          · exact Or.inr e
      exact ⟨hkeep, hkeep, hci⟩
  · apply subset_congr
    intro i hi
    rw [distal_fragment hw hk hi, fragKeep_snoc, Bool.eq_iff_iff]
    simp only [Bool.and_eq_true]
    rw [fragCond_iff]
    simp only [Bool.or_eq_true, Bool.not_eq_true', Bool.and_eq_false_iff, List.contains_eq_mem, decide_eq_false_iff_not,
      beq_iff_eq]
    constructor
    · rintro ⟨h1, h2⟩
      refine ⟨h1, fun hci _ => Or.inr ?_⟩
      rcases h2 with (h | h) | h
      · rw [h1] at h; exact absurd h (by decide)
      · exact absurd hci h
      · exact h.symm
    · rintro ⟨h1, h2⟩
      refine ⟨h1, ?_⟩
      by_cases hci : c ∈ rootPath t i
      · rcases h2 hci hk'.1 with e | e
        · exact absurd e hne
        · exact Or.inr e.symm
      · exact Or.inl (Or.inr hci)

/-- The other fragments are untouched by the new cut node. -/
theorem fragKeep_snoc_other {t : Table} (hw : WF t) {P : List Int} {c τ0 τ : Int}
    (huniq : fragKeep t P τ c = true → τ = τ0) (hne : τ ≠ τ0) (i : Int) :
    fragKeep t (P ++ [c]) τ i = fragKeep t P τ i := by
  rw [fragKeep_snoc]
  cases hk : fragKeep t P τ i with
  | false => rfl
  | true =>
    rw [Bool.true_and, fragCond_iff]
    intro hci hτc
    exact absurd (huniq (fragKeep_convex hw hk hci hτc)) hne

/-! ### list surgery of one step -/

theorem split_at_getElem {α : Type} (l : List α) {k : Nat} (h : k < l.length) :
    l = l.take k ++ l[k] :: l.drop (k + 1) := by
  rw [← List.drop_eq_getElem_cons h, List.take_append_drop]

/-- One step of `cutMany` when exactly one fragment contains the cut node and the cut succeeds. -/
theorem cutStep_perm {frags rest : List Table} {f d p : Table} {c : Int}
    (hperm : frags.Perm (f :: rest)) (hcf : c ∈ ids f) (huniq : ∀ g ∈ frags, c ∈ ids g → g = f)
    (hcut : cut f c = some (d, p)) : (cutStep frags c).Perm (d :: p :: rest) := by
  unfold cutStep
  cases hfi : frags.findIdx? (fun f => (ids f).contains c) with
  | none =>
    rw [List.findIdx?_eq_none_iff] at hfi
    have := hfi f (hperm.mem_iff.mpr List.mem_cons_self)
    simp [hcf] at this
  | some k =>
    obtain ⟨hlt, hpk, _⟩ := List.findIdx?_eq_some_iff_getElem.mp hfi
    have hfk : frags[k] = f := huniq _ (List.getElem_mem hlt) (by simpa using hpk)
    simp only [List.getElem?_eq_getElem hlt, hfk, hcut]
    have hsplit := split_at_getElem frags hlt
    rw [hfk] at hsplit
    have h1 : (frags.take k ++ frags.drop (k + 1)).Perm rest := by
      have : (f :: (frags.take k ++ frags.drop (k + 1))).Perm (f :: rest) := by
        refine List.Perm.trans ?_ hperm
        rw [List.perm_comm]
        conv => lhs; rw [hsplit]
        exact List.perm_middle
      exact this.cons_inv
    have h2 : (frags.take k ++ [d, p] ++ frags.drop (k + 1)).Perm (d :: p :: (frags.take k ++ frags.drop (k + 1))) := by
      rw [List.append_assoc]
      show (frags.take k ++ d :: p :: frags.drop (k + 1)).Perm _
      exact List.perm_middle.trans ((List.perm_middle).cons d)
    exact h2.trans ((h1.cons p).cons d)

/-! ### one step of the multi-cut on the fragment list -/

theorem cutStep_fragments {t : Table} (hw : WF t) {ρ : Int} (hroot : roots t = [ρ]) {P : List Int} {c : Int}
    (hnd : (P ++ [c]).Nodup) (hρP : ρ ∉ P) (hc : c ∈ ids t) (hcρ : c ≠ ρ) {frags : List Table}
    (hinv : frags.Perm ((ρ :: P).map fun τ => subset t (fragKeep t P τ))) :
    (cutStep frags c).Perm ((ρ :: (P ++ [c])).map fun τ => subset t (fragKeep t (P ++ [c]) τ)) := by
  obtain ⟨hPnd, _, hdisj⟩ := List.nodup_append.mp hnd
  have hcP : c ∉ P := fun h => hdisj c h c (List.mem_singleton.mpr rfl) rfl
  have htnd : (ρ :: P).Nodup := List.nodup_cons.mpr ⟨hρP, hPnd⟩
  obtain ⟨τ0, hτ0, hk0, huniq⟩ := top_spec hw hroot P hc hcP
  have hne : c ≠ τ0 := by
    intro e
    rcases List.mem_cons.mp hτ0 with h | h
    · exact hcρ (e.trans h)
    · exact hcP (e ▸ h)
  have hcut := cut_fragment hw hcP hne hk0
  have hsplit : (ρ :: P).Perm (τ0 :: (ρ :: P).erase τ0) := List.perm_cons_erase hτ0
  have h1 : frags.Perm (subset t (fragKeep t P τ0) ::
      ((ρ :: P).erase τ0).map fun τ => subset t (fragKeep t P τ)) :=
    hinv.trans (hsplit.map _)
  have hcin : c ∈ ids (subset t (fragKeep t P τ0)) := by
    rw [ids_subset]; exact List.mem_filter.mpr ⟨hc, hk0⟩
  have hu : ∀ g ∈ frags, c ∈ ids g → g = subset t (fragKeep t P τ0) := by
    intro g hg hcg
    obtain ⟨τ, hτ, rfl⟩ := List.mem_map.mp (hinv.mem_iff.mp hg)
    rw [ids_subset] at hcg
    rw [huniq τ hτ (List.mem_filter.mp hcg).2]
  have h2 := cutStep_perm h1 hcin hu hcut
  have hrest : (((ρ :: P).erase τ0).map fun τ => subset t (fragKeep t P τ)) =
      ((ρ :: P).erase τ0).map fun τ => subset t (fragKeep t (P ++ [c]) τ) := by
    apply List.map_congr_left
    intro τ hτ
    have hmem := (List.Nodup.mem_erase_iff htnd).mp hτ
    apply subset_congr
    intro i _
    exact (fragKeep_snoc_other hw (huniq τ hmem.2) hmem.1 i).symm
  rw [hrest] at h2
  refine h2.trans ?_
  have h3 : ((ρ :: (P ++ [c])).map fun τ => subset t (fragKeep t (P ++ [c]) τ)).Perm
      ((c :: τ0 :: (ρ :: P).erase τ0).map fun τ => subset t (fragKeep t (P ++ [c]) τ)) := by
    apply List.Perm.map
    have : (ρ :: (P ++ [c])) = (ρ :: P) ++ [c] := rfl
    rw [this]
    exact (List.perm_append_singleton c (ρ :: P)).trans (hsplit.cons c)
  exact h3.symm

/-- The invariant of the fold: after the cut nodes `P` the fragment list is (a permutation of) the fragments
topped at `ρ :: P`. -/
theorem cutFold_fragments {t : Table} (hw : WF t) {ρ : Int} (hroot : roots t = [ρ]) :
    ∀ (cs P : List Int) (frags : List Table), (P ++ cs).Nodup → (∀ c ∈ P ++ cs, c ∈ ids t ∧ c ≠ ρ) →
      frags.Perm ((ρ :: P).map fun τ => subset t (fragKeep t P τ)) →
      (cs.foldl cutStep frags).Perm ((ρ :: (P ++ cs)).map fun τ => subset t (fragKeep t (P ++ cs) τ)) := by
  intro cs
  induction cs with
  | nil =>
    intro P frags _ _ hinv
    rw [List.append_nil]
    exact hinv
  | cons c cs ih =>
    intro P frags hnd hall hinv
    rw [List.foldl_cons]
    have happ : P ++ c :: cs = (P ++ [c]) ++ cs := by rw [List.append_assoc]; rfl
    rw [happ] at hnd hall ⊢
    have hnd1 : (P ++ [c]).Nodup := (List.nodup_append.mp hnd).1
    have hρP : ρ ∉ P := fun h => (hall ρ (List.mem_append_left _ (List.mem_append_left _ h))).2 rfl
    have hc := hall c (List.mem_append_left _ (List.mem_append_right _ (List.mem_singleton.mpr rfl)))
    exact ih (P ++ [c]) _ hnd hall (cutStep_fragments hw hroot hnd1 hρP hc.1 hc.2 hinv)

/-! ### the first cut: the input table and its normal form cut alike -/

theorem takeWhile_all {α : Type} {p : α → Bool} : ∀ {l : List α}, (∀ x ∈ l, p x = true) → l.takeWhile p = l
  | [], _ => rfl
  | a :: l, h => by
    rw [List.takeWhile_cons, if_pos (h a List.mem_cons_self),
      takeWhile_all fun x hx => h x (List.mem_cons_of_mem _ hx)]

theorem distalSet_subset_all {t : Table} (hw : WF t) {k : Int → Bool} (hk : ∀ i ∈ ids t, k i = true) (c : Int) :
    distalSet (subset t k) c = distalSet t c := by
  have hids : ids (subset t k) = ids t := by
    rw [ids_subset]; exact List.filter_eq_self.mpr hk
  unfold distalSet isAncestorOrSelf
  rw [hids]
  apply List.filter_congr
  intro i hi
  rw [rootPath_subset hw k i hi (hk i hi), takeWhile_all fun x hx => hk x (rootPath_sub hx)]

/-- A cut of the normal form `subset t (all kept)` is a cut of `t` with the same pieces. -/
theorem cut_subset_all {t : Table} (hw : WF t) {k : Int → Bool} (hk : ∀ i ∈ ids t, k i = true) {c : Int}
    {d p : Table} (h : cut (subset t k) c = some (d, p)) : cut t c = some (d, p) := by
  obtain ⟨rfl, rfl, nc, hfc, hp⟩ := cut_some h
  have hcs : c ∈ ids (subset t k) := by
    obtain ⟨h1, h2⟩ := find?_some hfc
    exact h2 ▸ mem_ids_of_mem h1
  rw [ids_subset] at hcs
  obtain ⟨n, hn, hid⟩ := mem_ids.mp (List.mem_filter.mp hcs).1
  obtain ⟨m, hfm, hmp⟩ := find?_subset hw k hn (by rw [hid]; exact (List.mem_filter.mp hcs).2)
  rw [hid, hfc] at hfm
  have hmn : m = nc := (Option.some.inj hfm).symm
  rw [hmn] at hmp
  have hpn : ¬ n.parent < 0 := by
    by_cases hin : n.parent ∈ (ids t).filter k
    · rw [if_pos hin] at hmp; rw [← hmp]; exact hp
    · rw [if_neg hin] at hmp; rw [hmp] at hp; exact absurd (by decide) hp
  have hfn := find?_of_mem hw.1 hn
  rw [hid] at hfn
  rw [cut_eq_some hfn hpn, subset_subset, subset_subset, distalSet_subset_all hw hk]
  congr 2
  · apply subset_congr
    intro i hi
    rw [hk i hi, Bool.true_and]
  · apply subset_congr
    intro i hi
    rw [hk i hi, Bool.true_and]

theorem cutStep_single {f d p : Table} {c : Int} (h : cut f c = some (d, p)) : cutStep [f] c = [d, p] := by
  obtain ⟨_, _, nc, hfc, _⟩ := cut_some h
  have hc : c ∈ ids f := by
    obtain ⟨h1, h2⟩ := find?_some hfc
    exact h2 ▸ mem_ids_of_mem h1
  unfold cutStep
  simp [List.findIdx?_cons, hc, h]

/-- With no cut node, the only fragment keeps every node. -/
theorem fragKeep_nil {t : Table} (hw : WF t) {ρ : Int} (hroot : roots t = [ρ]) :
    ∀ i ∈ ids t, fragKeep t [] ρ i = true := by
  intro i hi
  rw [fragKeep_iff]
  exact ⟨root_anc hw hroot hi, fun q hq => absurd hq List.not_mem_nil⟩

/-- The first cut does not see the difference between `t` and its normal form. -/
theorem cutMany_normal {t : Table} (hw : WF t) {ρ : Int} (hroot : roots t = [ρ]) {c : Int} (cs : List Int)
    (hc : c ∈ ids t) (hcρ : c ≠ ρ) :
    cutMany t (c :: cs) = (c :: cs).foldl cutStep [subset t (fragKeep t [] ρ)] := by
  obtain ⟨τ0, hτ0, hk0, _⟩ := top_spec hw hroot [] hc List.not_mem_nil
  have e : τ0 = ρ := by simpa using hτ0
  rw [e] at hk0
  have hcut := cut_fragment hw List.not_mem_nil hcρ hk0
  have hcut' := cut_subset_all hw (fragKeep_nil hw hroot) hcut
  rw [cutMany_eq_foldl, List.foldl_cons, List.foldl_cons, cutStep_single hcut, cutStep_single hcut']

/-! ### the theorems -/

/-- `cutMany_fragments` **as requested is false for `cs = []`**: `cutMany t [] = [t]`, whereas a fragment is a
`subset` of `t`, which re-classifies the labels (and rewrites the parent of a root to `-1`).  Witness: the
one-node tree whose root carries the default label `slab`. -/
theorem cutMany_fragments_counterexample :
    ¬ ∀ {t : Table} (_ : WF t) {ρ : Int} (_ : roots t = [ρ]) (cs : List Int) (_ : cs.Nodup)
        (_ : ∀ c ∈ cs, c ∈ ids t ∧ c ≠ ρ),
        (cutMany t cs).Perm ((ρ :: cs).map fun τ => subset t (fragKeep t cs τ)) := by
  intro h
  have hw : WF [({ id := 0, parent := -1 } : Node)] := by
    refine ⟨by decide, ?_, fun _ => 0, ?_⟩
    · intro n hn; rw [List.mem_singleton.mp hn]; decide
    · intro n hn; rw [List.mem_singleton.mp hn]; exact Or.inl (by decide)
  have := h hw (ρ := 0) rfl [] List.nodup_nil (fun c hc => absurd hc List.not_mem_nil)
  have e := List.singleton_perm_singleton.mp this
  revert e
  decide

/-- The fragments of a multi-cut, one per top (the root and every cut node).  Weaker than the requested
statement by the extra hypothesis `hne`: there is at least one cut node, or the input table is already in the
normal form `subset` produces (labels classified, root parent `-1`). -/
theorem cutMany_fragments_partial {t : Table} (hw : WF t) {ρ : Int} (hroot : roots t = [ρ]) (cs : List Int)
    (hnd : cs.Nodup) (hcs : ∀ c ∈ cs, c ∈ ids t ∧ c ≠ ρ) (hne : cs ≠ [] ∨ subset t (fun _ => true) = t) :
    (cutMany t cs).Perm ((ρ :: cs).map fun τ => subset t (fragKeep t cs τ)) := by
  cases cs with
  | nil =>
    rcases hne with h | h
    · exact absurd rfl h
    · have e : subset t (fragKeep t [] ρ) = t := by
        have e1 : subset t (fragKeep t [] ρ) = subset t (fun _ => true) :=
          subset_congr fun i hi => fragKeep_nil hw hroot i hi
        exact e1.trans h
      show List.Perm [t] [subset t (fragKeep t [] ρ)]
      rw [e]
  | cons c cs =>
    have hc := hcs c List.mem_cons_self
    rw [cutMany_normal hw hroot cs hc.1 hc.2]
    have := cutFold_fragments hw hroot (c :: cs) [] [subset t (fragKeep t [] ρ)]
      (by rw [List.nil_append]; exact hnd) (by rw [List.nil_append]; exact hcs) (List.Perm.refl _)
    rw [List.nil_append] at this
    exact this

/-- Several cuts give the same fragments in whatever order they are made. -/
theorem cutMany_perm {t : Table} (hw : WF t) {ρ : Int} (hroot : roots t = [ρ]) {cs cs' : List Int}
    (hnd : cs.Nodup) (hcs : ∀ c ∈ cs, c ∈ ids t ∧ c ≠ ρ) (hp : cs'.Perm cs) :
    (cutMany t cs').Perm (cutMany t cs) := by
  by_cases hnil : cs = []
  · subst hnil
    rw [List.perm_nil.mp hp]
  · have hnil' : cs' ≠ [] := by
      intro e
      rw [e] at hp
      exact hnil (List.nil_perm.mp hp)
    have h1 := cutMany_fragments_partial hw hroot cs hnd hcs (Or.inl hnil)
    have h2 := cutMany_fragments_partial hw hroot cs' (hp.nodup_iff.mpr hnd)
      (fun c hc => hcs c (hp.mem_iff.mp hc)) (Or.inl hnil')
    have hfun : (fun τ => subset t (fragKeep t cs' τ)) = fun τ => subset t (fragKeep t cs τ) := by
      funext τ
      congr 1
      funext i
      exact fragKeep_congr (fun x => hp.mem_iff) τ i
    rw [hfun] at h2
    exact (h2.trans ((hp.cons ρ).map _)).trans h1.symm

end Navis.TreeEdit
