import NavisModel.Model.SomaInterp
/-! The generated facts describe the model's clean-up functions (C01 translator tie) — core Lean only. -/
namespace Navis.Forest
open Navis.Gen.SomaSpec

theorem cleanUpBy_clearTemp (t : Table) (s : Soma) : cleanUpBy clearTemp t s = filterSoma t s := by
  cases s with
  | detect => rfl
  | none => rfl
  | one i =>
    show (if (true && !(ids t).contains i) = true then Soma.none else Soma.one i) =
      (if (ids t).contains i = true then Soma.one i else Soma.none)
    cases (ids t).contains i <;> rfl
  | many l =>
    show (if (true && (if true = true then l.filter (fun i => (ids t).contains i) else l).isEmpty) = true then Soma.none
        else Soma.many (if true = true then l.filter (fun i => (ids t).contains i) else l)) =
      (if (l.filter fun i => (ids t).contains i).isEmpty = true then Soma.none else Soma.many (l.filter fun i => (ids t).contains i))
    simp

theorem cleanUpBy_subsetTree (t : Table) (s : Soma) : cleanUpBy subsetTree t s = filterSomaSubset t s := by
  cases s with
  | detect => rfl
  | none => rfl
  | one i =>
    show (if (true && !(ids t).contains i) = true then Soma.none else Soma.one i) =
      (if (ids t).contains i = true then Soma.one i else Soma.none)
    cases (ids t).contains i <;> rfl
  | many l =>
    show (if (true && (if true = true then l.filter (fun i => (ids t).contains i) else l).isEmpty) = true then Soma.none
        else Soma.many (if true = true then l.filter (fun i => (ids t).contains i) else l)) =
      (if (l.filter fun i => (ids t).contains i).isEmpty = true then Soma.none else Soma.many (l.filter fun i => (ids t).contains i))
    simp

theorem pySlice_keepSlice (s : List Int) : pySlice keepSlice s = s.dropLast := by
  show (s.take (normBound s.length (-1))).drop 0 = s.dropLast
  rw [List.drop_zero, List.dropLast_eq_take]
  congr 1
  unfold normBound
  simp only [show ((-1 : Int) < 0) from by decide, if_true]
  omega

end Navis.Forest
