import NavisModel.Proofs.StrahlerSweepLemmas
/-! Second stage of the Python Strahler code: "fix branches that were ignored" (`fixIgnored`) turns the
raw dictionary into the model's final index `strahler t g ign` (ignored twigs take the index of the branch
they hang on). -/
namespace Navis.Sweep
open Navis.Forest Navis.Flow

/-! ### `chainLeaf` versus small segments -/

theorem chainLeaf_succ (t : Table) (f : Nat) (i : Int) :
    chainLeaf t (f + 1) i = match children t i with
      | [] => some i
      | [c] => chainLeaf t f c
      | _ => none := by
  rw [chainLeaf]
  generalize children t i = cs
  match cs with
  | [] => rfl
  | [_] => rfl
  | _ :: _ :: _ => rfl

theorem chainLeaf_mono_succ (t : Table) : ∀ (f : Nat) (i l : Int), chainLeaf t f i = some l → chainLeaf t (f + 1) i = some l := by
  intro f
  induction f with
  | zero => intro i l h; simp [chainLeaf] at h
  | succ f ih =>
    intro i l h
    rw [chainLeaf_succ] at h ⊢
    match hc : children t i with
    | [] => rw [hc] at h; exact h
    | [c] => rw [hc] at h; simp only at h ⊢; exact ih c l h
    | _ :: _ :: _ => rw [hc] at h; simp at h

theorem chainLeaf_mono (t : Table) {f f' : Nat} (hle : f ≤ f') {i l : Int} (h : chainLeaf t f i = some l) :
    chainLeaf t f' i = some l := by
  induction hle with
  | refl => exact h
  | step _ ih => exact chainLeaf_mono_succ t _ i l ih

/-- Walking up a linked list of single-child nodes keeps the chain leaf. -/
theorem chainLeaf_up {t : Table} {l : Int} : ∀ (rest : List Int) (y : Int) (f : Nat), Linked t (y :: rest) →
    (∀ x ∈ rest, childCount t x = 1) → chainLeaf t f y = some l →
    ∀ x ∈ y :: rest, chainLeaf t (f + rest.length) x = some l
  | [], y, f, _, _, h, x, hx => by
    have : x = y := by simpa using hx
    rw [this]; exact h
  | z :: rest, y, f, hl, h1, h, x, hx => by
    obtain ⟨⟨n, hf, hp, _⟩, hl'⟩ := hl
    have hn := find?_some hf
    have hyz : y ∈ children t z := mem_children.mpr ⟨n, hn.1, hp, hn.2⟩
    have hz : chainLeaf t (f + 1) z = some l := by
      rw [chainLeaf_succ, children_eq_singleton hyz (by rw [h1 z List.mem_cons_self])]
      exact h
    rcases List.mem_cons.mp hx with e | e
    · rw [e]; exact chainLeaf_mono t (by omega) h
    · have := chainLeaf_up rest z (f + 1) hl' (fun x hx => h1 x (List.mem_cons_of_mem _ hx)) hz x e
      have e2 : f + (z :: rest).length = f + 1 + rest.length := by simp; omega
      rw [e2]; exact this

/-- **Every non-last node of the small segment of a leaf has that leaf as its chain leaf.** -/
theorem chainLeaf_of_mem_seg {t : Table} (hw : WF t) {l : Int} {mid : List Int} {last : Int}
    (hs : SmallSeg t l mid last) (hleaf : children t l = []) :
    ∀ x ∈ l :: mid, chainLeaf t (t.length + 1) x = some l := by
  intro x hx
  have hl : Linked t (l :: mid) := by
    have := hs.linked
    have e : l :: mid ++ [last] = (l :: mid) ++ [last] := rfl
    rw [e] at this
    exact Linked_prefix _ _ this
  have h0 : chainLeaf t 1 l = some l := by rw [chainLeaf_succ, hleaf]
  have := chainLeaf_up mid l 1 hl (fun x hx => (hs.mid_slab x hx).1) h0 x hx
  apply chainLeaf_mono t _ this
  have hlen := rootPath_length_le hw l
  rw [hs.path] at hlen
  simp only [List.length_append, List.length_cons] at hlen
  omega

/-- The parent of a non-last node of a small segment is the next node of the segment. -/
theorem _root_.Navis.Forest.SmallSeg.parent_next {t : Table} {s : Int} {mid : List Int} {last : Int} (h : SmallSeg t s mid last) {c : Node}
    (hc : c ∈ t) (hnd : (ids t).Nodup) (hcm : c.id ∈ s :: mid) : c.parent ∈ mid ++ [last] := by
  obtain ⟨A, B, hAB⟩ := List.append_of_mem hcm
  have hl := h.linked
  have e : s :: mid ++ [last] = (s :: mid) ++ [last] := rfl
  rw [e, hAB] at hl
  have hf := find?_of_mem hnd hc
  have hmem : ∀ z C, (A ++ c.id :: B) ++ [last] = A ++ c.id :: z :: C → z ∈ mid ++ [last] := by
    intro z C hz
    have : s :: (mid ++ [last]) = A ++ c.id :: z :: C := by rw [← hz, ← hAB]; rfl
    cases A with
    | nil =>
      simp only [List.nil_append, List.cons.injEq] at this
      rw [this.2]; exact List.mem_cons_self
    | cons a A' =>
      simp only [List.cons_append, List.cons.injEq] at this
      rw [this.2]; simp
  cases B with
  | nil =>
    have e2 : (A ++ [c.id]) ++ [last] = A ++ c.id :: last :: [] := by simp
    have hz := hmem last [] e2
    rw [e2] at hl
    obtain ⟨n, h1, h2, _⟩ := Linked_at A c.id last [] hl
    rw [hf] at h1
    simp only [Option.some.injEq] at h1
    rw [h1, h2]; exact hz
  | cons z B' =>
    have e2 : (A ++ c.id :: z :: B') ++ [last] = A ++ c.id :: z :: (B' ++ [last]) := by simp
    have hz := hmem z _ e2
    rw [e2] at hl
    obtain ⟨n, h1, h2, _⟩ := Linked_at A c.id z _ hl
    rw [hf] at h1
    simp only [Option.some.injEq] at h1
    rw [h1, h2]; exact hz

/-- **Conversely**: a node whose chain leaf is the leaf `l` lies on `l`'s small segment. -/
theorem mem_seg_of_chainLeaf {t : Table} (hw : WF t) {l : Int} {mid : List Int} {last : Int}
    (hs : SmallSeg t l mid last) :
    ∀ (f : Nat) (i : Int), i ∈ ids t → chainLeaf t f i = some l → i ∈ l :: mid ∨ i = last := by
  intro f
  induction f with
  | zero => intro i _ h; simp [chainLeaf] at h
  | succ f ih =>
    intro i hi h
    rw [chainLeaf_succ] at h
    match hc : children t i with
    | [] =>
      rw [hc] at h
      have : i = l := by simpa using h
      exact Or.inl (this ▸ List.mem_cons_self)
    | [c] =>
      rw [hc] at h
      simp only at h
      have hcm : c ∈ children t i := by rw [hc]; exact List.mem_cons_self
      obtain ⟨m, hm, hmp, hmid⟩ := mem_children.mp hcm
      rcases ih c (child_facts hw hi hcm).1 h with hin | hlast
      · have := hs.parent_next hm hw.1 (hmid ▸ hin)
        rw [hmp] at this
        rcases List.mem_append.mp this with h1 | h1
        · exact Or.inl (List.mem_cons_of_mem _ h1)
        · exact Or.inr (by simpa using h1)
      · -- `last` is a stop with a parent, hence a fork: it has no chain leaf
        exfalso
        have hfl : find? t last = some m := by rw [← hlast, ← hmid]; exact find?_of_mem hw.1 hm
        have hst := hs.stop
        rw [isBranchOrRoot_of_find hfl] at hst
        have h0 : 0 ≤ i := by
          obtain ⟨ni, hni, hnid⟩ := mem_ids.mp hi
          rw [← hnid]; exact hw.2.1 ni hni
        have hgt : childCount t last > 1 := by
          simp only [Bool.or_eq_true, decide_eq_true_eq] at hst
          rcases hst with h' | h'
          · rw [hmp] at h'; omega
          · exact h'
        rw [hlast] at h
        cases f with
        | zero => simp [chainLeaf] at h
        | succ f' =>
          rw [chainLeaf_succ] at h
          rw [← children_length] at hgt
          match hcl : children t last with
          | [] => rw [hcl] at hgt; simp at hgt
          | [_] => rw [hcl] at hgt; simp at hgt
          | _ :: _ :: _ => rw [hcl] at h; simp at h
    | _ :: _ :: _ => rw [hc] at h; simp at h

theorem chainLeaf_mem_ids {t : Table} (hw : WF t) : ∀ (f : Nat) (i l : Int), i ∈ ids t → chainLeaf t f i = some l →
    l ∈ ids t ∧ children t l = [] := by
  intro f
  induction f with
  | zero => intro i l _ h; simp [chainLeaf] at h
  | succ f ih =>
    intro i l hi h
    rw [chainLeaf_succ] at h
    match hc : children t i with
    | [] =>
      rw [hc] at h
      have : i = l := by simpa using h
      exact this ▸ ⟨hi, hc⟩
    | [c] =>
      rw [hc] at h
      simp only at h
      exact ih c l (child_facts hw hi (by rw [hc]; exact List.mem_cons_self)).1 h
    | _ :: _ :: _ => rw [hc] at h; simp at h

/-! ### the small segment of an end node, as the Python code looks it up -/

theorem find_seg_of_end {t : Table} (hl : labelsOKB t = true) {tn : Int} (htn : tn ∈ endNodes t) :
    (smallSegments t).find? (fun s => s.head? == some tn) = some (segOf t tn) := by
  obtain ⟨n, hn, hid, hp, hc⟩ := (mem_endNodes hl).mp htn
  have hseed : n ∈ t.filter fun n => !isRootNode n && childCount t n.id != 1 :=
    mem_seeds.mpr ⟨hn, hp, by rw [hid, hc]; decide⟩
  have hmem : segOf t tn ∈ smallSegments t := by
    rw [smallSegments_eq]; exact List.mem_map.mpr ⟨n, hseed, by rw [hid]⟩
  cases hfind : (smallSegments t).find? (fun s => s.head? == some tn) with
  | none =>
    exfalso
    have := List.find?_eq_none.mp hfind _ hmem
    simp [segOf] at this
  | some s =>
    have hs := List.mem_of_find?_eq_some hfind
    have hp' := List.find?_some hfind
    rw [smallSegments_eq] at hs
    obtain ⟨n', _, rfl⟩ := List.mem_map.mp hs
    have : n'.id = tn := by simpa [segOf] using hp'
    rw [this]

/-! ### the fix-up loop -/

theorem siGetD_update_mem {si : List (Int × Nat)} {seg : List Int} {v : Nat} {i : Int} (h : i ∈ seg) :
    siGetD (siUpdate si seg v) i = v := by
  unfold siGetD; rw [siGet?_update_mem h]; rfl

theorem siGetD_update_not_mem {si : List (Int × Nat)} {seg : List Int} {v : Nat} {i : Int} (h : i ∉ seg) :
    siGetD (siUpdate si seg v) i = siGetD si i := by
  unfold siGetD; rw [siGet?_update_not_mem h]

/-- The last node of the small segment seeded at `tn`. -/
def lastOf (t : Table) (tn : Int) : Int := (segOf t tn).getLast?.getD tn

/-- Shape of the small segment of an end node. -/
theorem seg_of_end {t : Table} (hw : WF t) (hl : labelsOKB t = true) {tn : Int} (htn : tn ∈ endNodes t) :
    ∃ mid last, segOf t tn = tn :: mid ++ [last] ∧ SmallSeg t tn mid last ∧ children t tn = [] ∧
      lastOf t tn = last ∧ (segOf t tn).dropLast = tn :: mid ∧ stopAbove t tn = some last := by
  obtain ⟨n, hn, hid, hp, hc⟩ := (mem_endNodes hl).mp htn
  obtain ⟨mid, last, h1, h2⟩ := segOf_spec hw hn hp
  rw [hid] at h1 h2
  refine ⟨mid, last, h1, h2, children_nil_iff.mpr hc, ?_, ?_, ?_⟩
  · unfold lastOf; rw [h1]
    have : tn :: mid ++ [last] = (tn :: mid) ++ [last] := rfl
    rw [this, List.getLast?_concat]; rfl
  · rw [h1, SmallSeg.dropLast_eq]
  · unfold stopAbove
    have : walkToStop t (isBranchOrRoot t) (t.length + 1) tn = mid ++ [last] := by
      unfold segOf at h1; simpa using h1
    rw [this]; exact List.getLast?_concat

theorem dropLast_nostop {t : Table} (hw : WF t) (hl : labelsOKB t = true) {tn : Int} (htn : tn ∈ endNodes t) :
    ∀ x ∈ (segOf t tn).dropLast, isBranchOrRoot t x = false := by
  obtain ⟨mid, last, _, hs, _, _, hd, _⟩ := seg_of_end hw hl htn
  obtain ⟨n, hn, hid, hp, hc⟩ := (mem_endNodes hl).mp htn
  intro x hx
  rw [hd] at hx
  rcases List.mem_cons.mp hx with e | e
  · rw [e, ← hid, isBranchOrRoot_of_find (find?_of_mem hw.1 hn), hid, hc]
    simp [hp]
  · exact hs.nostop x e

/-- State of the dictionary after the fix-up rounds for the end nodes `done`. -/
structure FixInv (t : Table) (raw : Int → Nat) (done : List Int) (si : List (Int × Nat)) : Prop where
  hit : ∀ tn ∈ done, ∀ i ∈ (segOf t tn).dropLast, siGetD si i = raw (lastOf t tn)
  miss : ∀ i ∈ ids t, (∀ tn ∈ done, i ∉ (segOf t tn).dropLast) → siGetD si i = raw i

theorem fix_fold {t : Table} (hw : WF t) (hl : labelsOKB t = true) (raw : Int → Nat) :
    ∀ (L done : List Int) (si : List (Int × Nat)), (∀ tn ∈ L, tn ∈ endNodes t) → (∀ tn ∈ done, tn ∈ endNodes t) →
      FixInv t raw done si → ∃ si', L.foldlM (fixStep t) si = some si' ∧ FixInv t raw (done ++ L) si' := by
  intro L
  induction L with
  | nil => intro done si _ _ hI; exact ⟨si, rfl, by simpa using hI⟩
  | cons tn L ih =>
    intro done si hL hdone hI
    have htn := hL tn List.mem_cons_self
    obtain ⟨mid, last, hseg, hs, hleaf, hlast, hdrop, _⟩ := seg_of_end hw hl htn
    have hstep : fixStep t si tn = some (siUpdate si (segOf t tn) (siGetD si last)) := by
      unfold fixStep; rw [find_seg_of_end hl htn]
      show some (siUpdate si (segOf t tn) (siGetD si (lastOf t tn))) = _
      rw [hlast]
    -- the last node is a stop: no fix-up round has touched it
    have hlast_miss : ∀ tn' ∈ endNodes t, last ∉ (segOf t tn').dropLast := by
      intro tn' htn' hm
      have := dropLast_nostop hw hl htn' last hm
      rw [hs.stop] at this; exact absurd this (by decide)
    have hv : siGetD si last = raw last := hI.miss last hs.hlast (fun tn' h' => hlast_miss tn' (hdone tn' h'))
    have hmemseg : ∀ i, i ∈ segOf t tn ↔ i ∈ tn :: mid ∨ i = last := by
      intro i; rw [hseg]; simp [List.mem_append, or_assoc]
    have hI' : FixInv t raw (done ++ [tn]) (siUpdate si (segOf t tn) (siGetD si last)) := by
      constructor
      · intro tn' htn' i hi
        rcases List.mem_append.mp htn' with h' | h'
        · by_cases hseg' : i ∈ segOf t tn
          · rw [siGetD_update_mem hseg', hv]
            rcases (hmemseg i).mp hseg' with h1 | h1
            · -- same node on two segments: same seed
              obtain ⟨mid', last', _, hs', hleaf', _, hdrop', _⟩ := seg_of_end hw hl (hdone tn' h')
              have c1 := chainLeaf_of_mem_seg hw hs hleaf i h1
              have c2 := chainLeaf_of_mem_seg hw hs' hleaf' i (hdrop' ▸ hi)
              rw [c1] at c2
              have : tn = tn' := Option.some.inj c2
              rw [← this, hlast]
            · exact absurd (h1 ▸ hi) (hlast_miss tn' (hdone tn' h'))
          · rw [siGetD_update_not_mem hseg']; exact hI.hit tn' h' i hi
        · have : tn' = tn := by simpa using h'
          rw [this] at hi ⊢
          rw [siGetD_update_mem ((List.dropLast_sublist _).subset hi), hv, hlast]
      · intro i hi hmiss
        by_cases hseg' : i ∈ segOf t tn
        · rcases (hmemseg i).mp hseg' with h1 | h1
          · exact absurd (hdrop ▸ h1) (hmiss tn (by simp))
          · rw [siGetD_update_mem hseg', hv, h1]
        · rw [siGetD_update_not_mem hseg']
          exact hI.miss i hi (fun tn' h' => hmiss tn' (List.mem_append_left _ h'))
    obtain ⟨si', h1, h2⟩ := ih (done ++ [tn]) _ (fun x hx => hL x (List.mem_cons_of_mem _ hx))
      (by intro x hx; rcases List.mem_append.mp hx with h | h
          · exact hdone x h
          · have : x = tn := by simpa using h
            exact this ▸ htn) hI'
    refine ⟨si', ?_, by simpa using h2⟩
    rw [List.foldlM_cons, hstep]; exact h1

/-- **The complete Python `strahler_index` (sweep, then fix-up of ignored twigs) is the model's Strahler
index** — every well-formed, correctly labelled forest, both methods, every ignore list consisting of end
nodes, every pop order: no `KeyError`, no `IndexError`, termination, and the same column. -/
theorem sweep_eq {t : Table} (hw : WF t) (hl : labelsOKB t = true) (g : Bool) (ign : List Int)
    (hign : ∀ l ∈ ign, l ∈ ids t → l ∈ endNodes t) (pick : St → Nat) :
    ∃ col, sweep t g ign pick = some col ∧ ∀ i ∈ ids t, col i = strahler t g ign i := by
  obtain ⟨si, hsi, hraw⟩ := sweepRaw_eq hw hl g ign hign pick
  have hE : ∀ tn ∈ (endNodes t).filter (fun e => ign.contains e), tn ∈ endNodes t :=
    fun tn h => (List.mem_filter.mp h).1
  obtain ⟨si', hfix, hI⟩ := fix_fold hw hl (strahlerRaw t g ign (t.length + 1)) _ [] si hE (by simp)
    ⟨by simp, fun i hi _ => hraw i hi⟩
  refine ⟨siGetD si', by unfold sweep; rw [hsi]; show (fixIgnored t ign si).map siGetD = _; unfold fixIgnored; rw [hfix]; rfl, ?_⟩
  simp only [List.nil_append] at hI
  intro i hi
  -- is `i` on the twig of an ignored end node?
  by_cases hon : ∃ tn ∈ (endNodes t).filter (fun e => ign.contains e), i ∈ (segOf t tn).dropLast
  · obtain ⟨tn, htn, hid⟩ := hon
    obtain ⟨mid, last, _, hs, hleaf, hlast, hdrop, hstop⟩ := seg_of_end hw hl (hE tn htn)
    rw [hI.hit tn htn i hid, hlast]
    have hc := chainLeaf_of_mem_seg hw hs hleaf i (hdrop ▸ hid)
    exact (strahler_of_ignored t g ign hc (List.mem_filter.mp htn).2 hstop).symm
  · have hmiss : ∀ tn ∈ (endNodes t).filter (fun e => ign.contains e), i ∉ (segOf t tn).dropLast :=
      fun tn htn hm => hon ⟨tn, htn, hm⟩
    rw [hI.miss i hi hmiss]
    cases hc : chainLeaf t (t.length + 1) i with
    | none => exact (strahler_of_not_ignored t g ign (fun l h => by rw [hc] at h; simp at h)).symm
    | some l =>
      by_cases hil : ign.contains l = true
      · -- `l` is an ignored end node, `i` lies on its segment but not before the last node: `i` is the stop
        have hlm : l ∈ ign := by simpa using hil
        obtain ⟨hli, _⟩ := chainLeaf_mem_ids hw _ i l hi hc
        have hle : l ∈ (endNodes t).filter (fun e => ign.contains e) :=
          List.mem_filter.mpr ⟨hign l hlm hli, hil⟩
        obtain ⟨mid, last, _, hs, _, _, hdrop, hstop⟩ := seg_of_end hw hl (hE l hle)
        rcases mem_seg_of_chainLeaf hw hs _ i hi hc with h1 | h1
        · exact absurd (hdrop ▸ h1) (hmiss l hle)
        · rw [strahler_of_ignored t g ign hc hil hstop, h1]
      · refine (strahler_of_not_ignored t g ign (fun l' h => ?_)).symm
        rw [hc] at h
        have : l = l' := Option.some.inj h
        rw [← this]; simpa using hil

/-- `min_twig_size`: the ignore list the Python code builds is the one the C17 model uses. -/
theorem ignoreList_ends {t : Table} (ign : List Int) (k : Nat)
    (hign : ∀ l ∈ ign, l ∈ ids t → l ∈ endNodes t) : ∀ l ∈ ignoreList t ign k, l ∈ ids t → l ∈ endNodes t := by
  intro l hlm hli
  unfold ignoreList at hlm
  split at hlm
  · exact hign l hlm hli
  · rcases List.mem_append.mp hlm with h | h
    · exact hign l h hli
    · obtain ⟨s, _, hs⟩ := List.mem_filterMap.mp h
      cases hh : s.head? with
      | none => rw [hh] at hs; simp at hs
      | some x =>
        rw [hh] at hs
        simp only at hs
        split at hs
        · rename_i hc
          simp only [Option.some.injEq] at hs
          rw [← hs]
          simp only [Bool.and_eq_true, List.contains_eq_mem, decide_eq_true_eq] at hc
          exact hc.1
        · simp at hs

/-- The Python `min_twig_size` list is the model's `shortTwigs` (C12/C17): for the seed of a small segment
"typed `end`" and "has no children" are the same thing. -/
theorem ignoreList_eq_shortTwigs {t : Table} (hl : labelsOKB t = true) (ign : List Int) (k : Nat) :
    ignoreList t ign k = if k = 0 then ign else ign ++ shortTwigs t k := by
  unfold ignoreList shortTwigs
  by_cases hk : k = 0
  · simp [hk]
  · simp only [hk, if_false]
    congr 1
    apply List.filterMap_congr
    intro s hs
    rw [smallSegments_eq] at hs
    obtain ⟨n, hn, rfl⟩ := List.mem_map.mp hs
    obtain ⟨hnt, hp, _⟩ := mem_seeds.mp hn
    have hh : (segOf t n.id).head? = some n.id := rfl
    rw [hh]
    simp only
    have : (endNodes t).contains n.id = (childCount t n.id == 0) := by
      by_cases hc : childCount t n.id = 0
      · have : n.id ∈ endNodes t := (mem_endNodes hl).mpr ⟨n, hnt, rfl, hp, hc⟩
        simp [hc, this]
      · have : n.id ∉ endNodes t := by
          intro hm
          obtain ⟨_, _, _, _, hc'⟩ := (mem_endNodes hl).mp hm
          exact hc hc'
        simp [hc, this]
    rw [this]

end Navis.Sweep
