import NavisModel.Model.PruneExt
import NavisModel.Proofs.ExactPruneLemmas
/-!
Refinement for `prune_twigs(exact=True)`: the *as-written* in-range test of `_prune_twigs_precise`
("every leaf distal to the node is within `size` of cable" — Dijkstra with `cutoff=size` on the reversed
graph, `distal_to`) is the *height* test of the specification-style model `exactPrune`
("the farthest distal tip is within `size`").
-/
namespace Navis.PruneX
open Navis.Forest Navis.ExactPrune

theorem mem_ids_of_mem_rootPath {t : Table} {l x : Int} (h : x ∈ rootPath t l) : l ∈ ids t := by
  by_cases hm : l ∈ ids t
  · exact hm
  · rw [rootPath_of_not_mem hm] at h; simp at h

theorem childCount_eq_length (t : Table) (i : Int) : childCount t i = (children t i).length := by
  unfold childCount children; simp

theorem mem_leavesBelow {t : Table} {k l : Int} :
    l ∈ leavesBelow t k ↔ ∃ n ∈ t, n.id = l ∧ childCount t n.id = 0 ∧ k ∈ rootPath t l := by
  unfold leavesBelow isAncestorOrSelf
  simp only [List.mem_map, List.mem_filter, Bool.and_eq_true, beq_iff_eq, List.contains_eq_mem, decide_eq_true_eq]
  constructor
  · rintro ⟨n, ⟨h1, h2, h3⟩, h4⟩; exact ⟨n, h1, h4, h2, h4 ▸ h3⟩
  · rintro ⟨n, h1, h4, h2, h3⟩; exact ⟨n, ⟨h1, h2, h4 ▸ h3⟩, h4⟩

/-! ### `distUp` along a root path -/

theorem distUp_of_split {t : Table} (len : Int → Int → Nat) {a b : Int} {pre rest : List Int}
    (h : rootPath t a = pre ++ b :: rest) (hb : b ∉ pre) : distUp t len a b = some (pathLen len (pre ++ [b])) := by
  unfold distUp
  rw [h, uptoIncl_append rest hb]; rfl

theorem distUp_self {t : Table} (len : Int → Int → Nat) {k : Int} (hk : k ∈ ids t) : distUp t len k k = some 0 := by
  obtain ⟨rest, hr⟩ := rootPath_cons hk
  have := distUp_of_split len (a := k) (b := k) (pre := []) (rest := rest) (by simpa using hr) (by simp)
  rw [this]; rfl

/-- One step up: the distance to the parent of a node on the path is the distance to the node plus the edge. -/
theorem distUp_step {t : Table} (hw : WF t) (len : Int → Int → Nat) {l : Int} {nc : Node} (hnc : nc ∈ t)
    (hp : ¬ nc.parent < 0) (hc : nc.id ∈ rootPath t l) :
    ∃ d, distUp t len l nc.id = some d ∧ distUp t len l nc.parent = some (d + len nc.id nc.parent) := by
  have hl : l ∈ ids t := mem_ids_of_mem_rootPath hc
  obtain ⟨pre, hpre⟩ := rootPath_suffix hw l hl nc.id hc
  have e := rootPath_of_nonroot hw (find?_of_mem hw.1 hnc) hp
  obtain ⟨r2, hr2⟩ := rootPath_cons (WF_parent_mem hw hnc hp)
  have hsplit : rootPath t l = pre ++ nc.id :: nc.parent :: r2 := by rw [← hpre, e, hr2]
  have hnd := rootPath_nodup hw l
  rw [hsplit] at hnd
  have h1 : nc.id ∉ pre := by
    intro hm
    rw [List.nodup_append] at hnd
    exact hnd.2.2 nc.id hm nc.id List.mem_cons_self rfl
  have hsplit2 : rootPath t l = (pre ++ [nc.id]) ++ nc.parent :: r2 := by rw [hsplit]; simp
  have h2 : nc.parent ∉ pre ++ [nc.id] := by
    intro hm
    rw [List.nodup_append] at hnd
    rcases List.mem_append.mp hm with h | h
    · exact hnd.2.2 nc.parent h nc.parent (List.mem_cons_of_mem _ List.mem_cons_self) rfl
    · have : nc.parent = nc.id := by simpa using h
      have hn2 := (List.nodup_cons.mp hnd.2.1).1
      exact hn2 (this ▸ List.mem_cons_self)
  refine ⟨pathLen len (pre ++ [nc.id]), distUp_of_split len hsplit h1, ?_⟩
  rw [distUp_of_split len hsplit2 h2]
  congr 1
  have := pathLen_append len pre nc.id [nc.parent]
  simp only [List.append_assoc, List.cons_append, List.nil_append] at this ⊢
  rw [this, pathLen_cons_cons, pathLen_single]; omega

/-- A node strictly below `k` on a root path through `k` is reached through a child of `k`. -/
theorem child_on_path {t : Table} (hw : WF t) {k l : Int} (hk : k ∈ rootPath t l) (hne : l ≠ k) :
    ∃ nc ∈ t, nc.parent = k ∧ nc.id ∈ rootPath t l := by
  have hl : l ∈ ids t := mem_ids_of_mem_rootPath hk
  obtain ⟨pre, hpre⟩ := rootPath_suffix hw l hl k hk
  obtain ⟨r, hr⟩ := rootPath_cons (rootPath_sub hk)
  obtain ⟨rl, hrl⟩ := rootPath_cons hl
  have hpne : pre ≠ [] := by
    intro h
    rw [h, List.nil_append, hr, hrl] at hpre
    exact hne (List.cons.inj hpre).1.symm
  obtain ⟨pre', c, rfl⟩ : ∃ pre' c, pre = pre' ++ [c] := ⟨pre.dropLast, pre.getLast hpne, (List.dropLast_concat_getLast hpne).symm⟩
  have hsplit : rootPath t l = pre' ++ c :: k :: r := by rw [← hpre, hr]; simp
  have hlk := rootPath_linked t l
  rw [hsplit] at hlk
  obtain ⟨n, hf, hpar, _⟩ := Linked_at pre' c k r hlk
  have hn := find?_some hf
  exact ⟨n, hn.1, hpar, by rw [hn.2, hsplit]; simp⟩

/-! ### the height is the largest distance down to a distal leaf -/

theorem height_bounds {t : Table} (hw : WF t) (len : Int → Int → Nat) {k : Int} (hk : k ∈ ids t) :
    (∀ c ∈ children t k, len c k + heightOf t len (t.length + 1) c ≤ heightOf t len (t.length + 1) k) ∧
    (children t k ≠ [] → ∃ c ∈ children t k, heightOf t len (t.length + 1) k = len c k + heightOf t len (t.length + 1) c) := by
  rw [heightOf_rec hw len hk]
  constructor
  · intro c hc
    exact le_foldl_max_of_mem 0 (List.mem_map.mpr ⟨c, hc, rfl⟩)
  · intro hne
    rcases foldl_max_mem ((children t k).map fun c => len c k + heightOf t len (t.length + 1) c) 0 with h | h
    · obtain ⟨c, hc⟩ := List.exists_mem_of_ne_nil _ hne
      refine ⟨c, hc, ?_⟩
      have := le_foldl_max_of_mem (l := (children t k).map fun c => len c k + heightOf t len (t.length + 1) c) 0
        (List.mem_map.mpr ⟨c, hc, rfl⟩)
      omega
    · obtain ⟨c, hc, he⟩ := List.mem_map.mp h
      exact ⟨c, hc, he.symm⟩

theorem height_is_max_leaf_dist {t : Table} (hw : WF t) (len : Int → Int → Nat) :
    ∀ (m : Nat) (k : Int), k ∈ ids t → t.length - dep t k ≤ m →
      (∀ l ∈ leavesBelow t k, ∃ d, distUp t len l k = some d ∧ d ≤ heightOf t len (t.length + 1) k) ∧
      (∃ l ∈ leavesBelow t k, distUp t len l k = some (heightOf t len (t.length + 1) k)) := by
  intro m
  induction m with
  | zero =>
    intro k hk hm
    -- `k` is as deep as a node can be: it has no children
    have hch : children t k = [] := by
      cases h : children t k with
      | nil => rfl
      | cons c r =>
        have hc : c ∈ children t k := by rw [h]; exact List.mem_cons_self
        obtain ⟨_, hd⟩ := child_facts hw hk hc
        have := dep_le hw c
        omega
    obtain ⟨nk, hnk, hnkid⟩ := mem_ids.mp hk
    have hcc : childCount t nk.id = 0 := by rw [hnkid, childCount_eq_length, hch]; rfl
    rw [heightOf_leaf _ _ _ _ hch]
    refine ⟨?_, k, mem_leavesBelow.mpr ⟨nk, hnk, hnkid, hcc, rootPath_head_mem hk⟩, distUp_self len hk⟩
    intro l hl
    obtain ⟨nl, hnl, hnlid, _, hkl⟩ := mem_leavesBelow.mp hl
    by_cases hne : l = k
    · rw [hne]; exact ⟨0, distUp_self len hk, Nat.le_refl _⟩
    · obtain ⟨nc, hnc, hpar, _⟩ := child_on_path hw hkl hne
      have : nc.id ∈ children t k := mem_children.mpr ⟨nc, hnc, hpar, rfl⟩
      rw [hch] at this; simp at this
  | succ m ih =>
    intro k hk hm
    obtain ⟨nk, hnk, hnkid⟩ := mem_ids.mp hk
    by_cases hch : children t k = []
    · have hcc : childCount t nk.id = 0 := by rw [hnkid, childCount_eq_length, hch]; rfl
      rw [heightOf_leaf _ _ _ _ hch]
      refine ⟨?_, k, mem_leavesBelow.mpr ⟨nk, hnk, hnkid, hcc, rootPath_head_mem hk⟩, distUp_self len hk⟩
      intro l hl
      obtain ⟨nl, hnl, hnlid, _, hkl⟩ := mem_leavesBelow.mp hl
      by_cases hne : l = k
      · rw [hne]; exact ⟨0, distUp_self len hk, Nat.le_refl _⟩
      · obtain ⟨nc, hnc, hpar, _⟩ := child_on_path hw hkl hne
        have : nc.id ∈ children t k := mem_children.mpr ⟨nc, hnc, hpar, rfl⟩
        rw [hch] at this; simp at this
    · obtain ⟨hub, hatt⟩ := height_bounds hw len hk
      have hk0 : 0 ≤ k := by rw [← hnkid]; exact hw.2.1 nk hnk
      constructor
      · intro l hl
        obtain ⟨nl, hnl, hnlid, hlcc, hkl⟩ := mem_leavesBelow.mp hl
        have hne : l ≠ k := by
          intro e
          rw [hnlid, e, childCount_eq_length] at hlcc
          exact hch (List.eq_nil_of_length_eq_zero hlcc)
        obtain ⟨nc, hnc, hpar, hcl⟩ := child_on_path hw hkl hne
        have hcm : nc.id ∈ children t k := mem_children.mpr ⟨nc, hnc, hpar, rfl⟩
        obtain ⟨hci, hd⟩ := child_facts hw hk hcm
        have hp : ¬ nc.parent < 0 := by rw [hpar]; omega
        obtain ⟨d', h1, h2⟩ := distUp_step hw len hnc hp hcl
        obtain ⟨d'', h3, h4⟩ := (ih nc.id hci (by omega)).1 l (mem_leavesBelow.mpr ⟨nl, hnl, hnlid, hlcc, hcl⟩)
        rw [h1] at h3
        have hdd : d' = d'' := Option.some.inj h3
        rw [hpar] at h2
        refine ⟨_, h2, ?_⟩
        have := hub nc.id hcm
        omega
      · obtain ⟨c, hcm, hatt'⟩ := hatt hch
        obtain ⟨nc, hnc, hpar, hncid⟩ := mem_children.mp hcm
        obtain ⟨hci, hd⟩ := child_facts hw hk hcm
        have hp : ¬ nc.parent < 0 := by rw [hpar]; omega
        obtain ⟨l, hl, hdl⟩ := (ih c hci (by omega)).2
        obtain ⟨nl, hnl, hnlid, hlcc, hcl⟩ := mem_leavesBelow.mp hl
        have hcl' : nc.id ∈ rootPath t l := by rw [hncid]; exact hcl
        obtain ⟨d', h1, h2⟩ := distUp_step hw len hnc hp hcl'
        have hkl : k ∈ rootPath t l := by
          have hsuf := rootPath_suffix hw l (mem_ids_of_mem_rootPath hcl) c hcl
          apply hsuf.subset
          rw [← hncid, rootPath_of_nonroot hw (find?_of_mem hw.1 hnc) hp, hpar]
          exact List.mem_cons_of_mem _ (rootPath_head_mem hk)
        refine ⟨l, mem_leavesBelow.mpr ⟨nl, hnl, hnlid, hlcc, hkl⟩, ?_⟩
        rw [hncid] at h1
        rw [hdl] at h1
        have hdd : heightOf t len (t.length + 1) c = d' := Option.some.inj h1
        rw [hpar, hncid] at h2
        rw [h2, hatt', hdd]
        congr 1; omega

/-- **Refinement**: the in-range test as `_prune_twigs_precise` writes it is the height test of `exactPrune`. -/
theorem inRangeAW_eq_height {t : Table} (hw : WF t) (len : Int → Int → Nat) (size : Rat) {k : Int} (hk : k ∈ ids t) :
    inRangeAW t len size k = decide (((heightOf t len (t.length + 1) k : Nat) : Rat) ≤ size) := by
  obtain ⟨hall, l0, hl0, hd0⟩ := height_is_max_leaf_dist hw len t.length k hk (by omega)
  unfold inRangeAW
  by_cases h : ((heightOf t len (t.length + 1) k : Nat) : Rat) ≤ size
  · simp only [h, decide_true, List.all_eq_true]
    intro l hl
    obtain ⟨d, hd, hle⟩ := hall l hl
    rw [hd]
    simp only [decide_eq_true_eq]
    exact Rat.le_trans (Rat.natCast_le_natCast.mpr hle) h
  · simp only [h, decide_false]
    apply Bool.eq_false_iff.mpr
    intro hall'
    rw [List.all_eq_true] at hall'
    have := hall' l0 hl0
    rw [hd0] at this
    simp only [decide_eq_true_eq] at this
    exact h this

end Navis.PruneX
