import NavisModel.Model.StrahlerSweep
import NavisModel.Proofs.FlowLemmas
import NavisModel.Proofs.WfB
/-! The Python Strahler sweep (`Model/StrahlerSweep.lean`) computes the structural recurrence
(`strahlerRaw`) for every well-formed, correctly labelled forest and **every** pop order of the work
set: invariant of the outer loop + termination measure (number of unseen nodes). -/
namespace Navis.Sweep
open Navis.Forest Navis.Flow

/-! ### the dictionary -/

theorem siGet?_update_mem {si : List (Int × Nat)} {seg : List Int} {idx : Nat} {i : Int} (h : i ∈ seg) :
    siGet? (siUpdate si seg idx) i = some idx := by
  unfold siGet? siUpdate
  induction seg with
  | nil => simp at h
  | cons a seg ih =>
    by_cases ha : a = i
    · simp [ha]
    · have hi : i ∈ seg := by
        rcases List.mem_cons.mp h with h | h
        · exact absurd h.symm ha
        · exact h
      simp only [List.map_cons, List.cons_append, List.find?_cons]
      have : (a == i) = false := by simpa using ha
      simp only [this]
      exact ih hi

theorem siGet?_update_not_mem {si : List (Int × Nat)} {seg : List Int} {idx : Nat} {i : Int} (h : i ∉ seg) :
    siGet? (siUpdate si seg idx) i = siGet? si i := by
  unfold siGet? siUpdate
  induction seg with
  | nil => simp
  | cons a seg ih =>
    have ha : ¬ a = i := fun e => h (e ▸ List.mem_cons_self)
    have hi : i ∉ seg := fun e => h (List.mem_cons_of_mem _ e)
    simp only [List.map_cons, List.cons_append, List.find?_cons]
    have : (a == i) = false := by simpa using ha
    simp only [this]
    exact ih hi

theorem mapM_some_of_forall {α β} (f : α → Option β) (g : α → β) :
    ∀ (l : List α), (∀ a ∈ l, f a = some (g a)) → l.mapM f = some (l.map g)
  | [], _ => rfl
  | a :: l, h => by
    have h1 := h a List.mem_cons_self
    have h2 := mapM_some_of_forall f g l (fun b hb => h b (List.mem_cons_of_mem _ hb))
    simp [List.mapM_cons, h1, h2]

/-! ### the `if / elif` chain is the Strahler rule -/

theorem branchIndex_eq (g : Bool) (ign : List Int) (u : Int) (prev : List Nat) :
    branchIndex g ign u prev = if ign.contains u then 0 else strahlerRule g prev := by
  unfold branchIndex
  by_cases h : ign.contains u = true
  · rw [if_pos h, if_pos h]
  · rw [if_neg h, if_neg h]
    match prev with
    | [] => simp [strahlerRule]
    | [c] => simp [strahlerRule]
    | c1 :: c2 :: cs =>
      simp only [List.length_cons, strahlerRule]
      have h0 : ¬ (cs.length + 1 + 1 = 0) := by omega
      have h1 : ¬ (cs.length + 1 + 1 = 1) := by omega
      simp only [h0, h1, if_false]

/-! ### labels: which nodes are in `branch_nodes` / `end_nodes` -/

theorem labelOf_branch_iff (c : Nat) (r : Bool) : labelOf c r = .branch ↔ r = false ∧ 2 ≤ c := by
  unfold labelOf
  by_cases hr : r = true
  · simp [hr]
  · have hr' : r = false := by simpa using hr
    by_cases h0 : c = 0
    · simp [hr', h0]
    · by_cases h1 : c = 1
      · simp [hr', h1]
      · simp [hr', h0, h1]; omega

theorem labelOf_root_iff (c : Nat) (r : Bool) : labelOf c r = .root ↔ r = true := by
  unfold labelOf
  by_cases hr : r = true
  · simp [hr]
  · have hr' : r = false := by simpa using hr
    by_cases h0 : c = 0
    · simp [hr', h0]
    · by_cases h1 : c = 1
      · simp [hr', h1]
      · simp [hr', h0, h1]

theorem labelOf_end_iff (c : Nat) (r : Bool) : labelOf c r = .end_ ↔ r = false ∧ c = 0 := by
  unfold labelOf
  by_cases hr : r = true
  · simp [hr]
  · have hr' : r = false := by simpa using hr
    by_cases h0 : c = 0
    · simp [hr', h0]
    · by_cases h1 : c = 1
      · simp [hr', h1]
      · simp [hr', h0, h1]

theorem mem_branchNodes {t : Table} (hl : labelsOKB t = true) {i : Int} :
    i ∈ branchNodes t ↔ i ∈ ids t ∧ 2 ≤ childCount t i := by
  rw [labelsOKB_iff] at hl
  unfold branchNodes
  simp only [List.mem_map, List.mem_filter]
  constructor
  · rintro ⟨n, ⟨hn, hc⟩, rfl⟩
    refine ⟨mem_ids_of_mem hn, ?_⟩
    have hlab := hl n hn
    simp only [Bool.or_eq_true, Bool.and_eq_true, beq_iff_eq, decide_eq_true_eq] at hc
    rcases hc with hc | ⟨_, hc⟩
    · rw [hlab, labelOf_branch_iff] at hc; exact hc.2
    · rw [children_length] at hc; omega
  · rintro ⟨hi, hc⟩
    obtain ⟨n, hn, rfl⟩ := mem_ids.mp hi
    refine ⟨n, ⟨hn, ?_⟩, rfl⟩
    have hlab := hl n hn
    simp only [Bool.or_eq_true, Bool.and_eq_true, beq_iff_eq, decide_eq_true_eq]
    by_cases hr : n.parent < 0
    · right
      refine ⟨?_, by rw [children_length]; omega⟩
      rw [hlab, labelOf_root_iff]; simpa using hr
    · left
      rw [hlab, labelOf_branch_iff]
      exact ⟨by simpa using hr, hc⟩

theorem mem_endNodes {t : Table} (hl : labelsOKB t = true) {i : Int} :
    i ∈ endNodes t ↔ ∃ n ∈ t, n.id = i ∧ ¬ n.parent < 0 ∧ childCount t i = 0 := by
  rw [labelsOKB_iff] at hl
  unfold endNodes
  simp only [List.mem_map, List.mem_filter, beq_iff_eq]
  constructor
  · rintro ⟨n, ⟨hn, hc⟩, rfl⟩
    rw [hl n hn, labelOf_end_iff] at hc
    exact ⟨n, hn, rfl, by simpa using hc.1, hc.2⟩
  · rintro ⟨n, hn, rfl, hp, hc⟩
    refine ⟨n, ⟨hn, ?_⟩, rfl⟩
    rw [hl n hn, labelOf_end_iff]
    exact ⟨by simpa using hp, hc⟩

/-! ### tree facts -/

theorem parentOf_some {t : Table} {i p : Int} (h : parentOf t i = some p) : ∃ n ∈ t, n.id = i ∧ n.parent = p := by
  unfold parentOf at h
  cases hf : find? t i with
  | none => rw [hf] at h; simp at h
  | some n =>
    rw [hf] at h
    simp only [Option.map_some, Option.some.injEq] at h
    exact ⟨n, (find?_some hf).1, (find?_some hf).2, h⟩

theorem parentOf_of_mem {t : Table} (hnd : (ids t).Nodup) {n : Node} (hn : n ∈ t) : parentOf t n.id = some n.parent := by
  unfold parentOf; rw [find?_of_mem hnd hn]; rfl

theorem children_nil_iff {t : Table} {i : Int} : children t i = [] ↔ childCount t i = 0 := by
  rw [← children_length]; exact List.length_eq_zero_iff.symm

/-- A node with at most one child that has the child `c`: its child list is `[c]`. -/
theorem children_eq_singleton {t : Table} {i c : Int} (hc : c ∈ children t i) (h1 : childCount t i ≤ 1) :
    children t i = [c] := by
  rw [← children_length] at h1
  match hch : children t i, hc, h1 with
  | [x], hc, _ =>
    simp at hc; rw [hc]
  | [], hc, _ => simp at hc
  | _ :: _ :: _, _, h1 => simp at h1

theorem dep_parent {t : Table} (hw : WF t) {n : Node} (hn : n ∈ t) (hp : ¬ n.parent < 0) :
    dep t n.id = dep t n.parent + 1 :=
  (child_facts hw (WF_parent_mem hw hn hp) (mem_children.mpr ⟨n, hn, rfl, rfl⟩)).2

/-! ### the inner walk -/

/-- What `walkUp` returns: `seg` continues from `cur` through parents that are present and not branch
nodes; `pn` is the parent at which the loop stopped (negative, or a branch node). -/
def Chain (t : Table) (br : List Int) : Int → List Int → Int → Prop
  | cur, [], pn => parentOf t cur = some pn ∧ ¬ (0 ≤ pn ∧ pn ∉ br)
  | cur, p :: rest, pn => parentOf t cur = some p ∧ 0 ≤ p ∧ p ∉ br ∧ Chain t br p rest pn

theorem walkUp_spec {t : Table} {br : List Int} : ∀ (f : Nat) (cur : Int) (seg : List Int) (pn : Int),
    walkUp t br f cur = some (seg, pn) → Chain t br cur seg pn := by
  intro f
  induction f with
  | zero => intro cur seg pn h; simp [walkUp] at h
  | succ f ih =>
    intro cur seg pn h
    unfold walkUp at h
    cases hp : parentOf t cur with
    | none => rw [hp] at h; simp at h
    | some p =>
      rw [hp] at h
      simp only at h
      by_cases hc : (decide (0 ≤ p) && !br.contains p) = true
      · rw [if_pos hc] at h
        cases hr : walkUp t br f p with
        | none => rw [hr] at h; simp at h
        | some r =>
          rw [hr] at h
          simp only [Option.map_some, Option.some.injEq, Prod.mk.injEq] at h
          obtain ⟨h1, h2⟩ := h
          subst h1; subst h2
          have hch := ih p r.1 r.2 (by rw [hr])
          simp only [Bool.and_eq_true, decide_eq_true_eq, Bool.not_eq_true', List.contains_eq_mem,
            decide_eq_false_iff_not] at hc
          exact ⟨hp, hc.1, hc.2, hch⟩
      · rw [if_neg hc] at h
        simp only [Option.some.injEq, Prod.mk.injEq] at h
        obtain ⟨h1, h2⟩ := h
        subst h1; subst h2
        refine ⟨hp, ?_⟩
        intro hh
        apply hc
        simp only [Bool.and_eq_true, decide_eq_true_eq, Bool.not_eq_true', List.contains_eq_mem,
          decide_eq_false_iff_not]
        exact hh

theorem walkUp_some {t : Table} (hw : WF t) (br : List Int) : ∀ (f : Nat) (cur : Int), cur ∈ ids t → dep t cur ≤ f →
    ∃ seg pn, walkUp t br f cur = some (seg, pn) := by
  intro f
  induction f with
  | zero => intro cur hc hd; have := dep_pos hc; omega
  | succ f ih =>
    intro cur hc hd
    obtain ⟨n, hn, rfl⟩ := mem_ids.mp hc
    unfold walkUp
    rw [parentOf_of_mem hw.1 hn]
    simp only
    by_cases hcnd : (decide (0 ≤ n.parent) && !br.contains n.parent) = true
    · rw [if_pos hcnd]
      have hp : ¬ n.parent < 0 := by
        simp only [Bool.and_eq_true, decide_eq_true_eq] at hcnd
        omega
      have := dep_parent hw hn hp
      obtain ⟨seg, pn, h⟩ := ih n.parent (WF_parent_mem hw hn hp) (by omega)
      exact ⟨n.parent :: seg, pn, by rw [h]; rfl⟩
    · rw [if_neg hcnd]; exact ⟨[], n.parent, rfl⟩

namespace Chain
variable {t : Table} {br : List Int}

theorem mem_ids (hw : WF t) : ∀ (seg : List Int) (cur pn : Int), Chain t br cur seg pn → ∀ x ∈ seg, x ∈ ids t
  | [], _, _, _, x, hx => by simp at hx
  | p :: rest, cur, pn, h, x, hx => by
    obtain ⟨h1, h2, _, h4⟩ := h
    obtain ⟨n, hn, _, hnp⟩ := parentOf_some h1
    have hp : p ∈ ids t := by rw [← hnp]; exact WF_parent_mem hw hn (by omega)
    rcases List.mem_cons.mp hx with e | e
    · rw [e]; exact hp
    · exact mem_ids hw rest p pn h4 x e

theorem pn_mem (hw : WF t) : ∀ (seg : List Int) (cur pn : Int), Chain t br cur seg pn → 0 ≤ pn → pn ∈ ids t
  | [], _, pn, h, h0 => by
    obtain ⟨n, hn, _, hnp⟩ := parentOf_some h.1
    rw [← hnp]; exact WF_parent_mem hw hn (by omega)
  | _ :: rest, _, pn, h, h0 => pn_mem hw rest _ pn h.2.2.2 h0

/-- Every appended node has its child in the segment, is non-negative and not a branch node. -/
theorem child_in : ∀ (seg : List Int) (cur pn : Int), Chain t br cur seg pn →
    ∀ x ∈ seg, ∃ y ∈ cur :: seg, parentOf t y = some x ∧ 0 ≤ x ∧ x ∉ br
  | [], _, _, _, x, hx => by simp at hx
  | p :: rest, cur, pn, h, x, hx => by
    obtain ⟨h1, h2, h3, h4⟩ := h
    rcases List.mem_cons.mp hx with e | e
    · subst e; exact ⟨cur, List.mem_cons_self, h1, h2, h3⟩
    · obtain ⟨y, hy, hr⟩ := child_in rest p pn h4 x e
      exact ⟨y, List.mem_cons_of_mem _ hy, hr⟩

/-- The parent of every segment node is the next segment node, or the stop `pn`. -/
theorem parent_in : ∀ (seg : List Int) (cur pn : Int), Chain t br cur seg pn →
    ∀ y ∈ cur :: seg, ∃ p, parentOf t y = some p ∧ (p ∈ seg ∨ (p = pn ∧ ¬ (0 ≤ pn ∧ pn ∉ br)))
  | [], cur, pn, h, y, hy => by
    have : y = cur := by simpa using hy
    subst this
    exact ⟨pn, h.1, Or.inr ⟨rfl, h.2⟩⟩
  | p :: rest, cur, pn, h, y, hy => by
    obtain ⟨h1, _, _, h4⟩ := h
    rcases List.mem_cons.mp hy with e | e
    · subst e; exact ⟨p, h1, Or.inl List.mem_cons_self⟩
    · obtain ⟨q, hq, hr⟩ := parent_in rest p pn h4 y e
      refine ⟨q, hq, ?_⟩
      rcases hr with hr | hr
      · exact Or.inl (List.mem_cons_of_mem _ hr)
      · exact Or.inr hr

theorem stop (seg : List Int) (cur pn : Int) (h : Chain t br cur seg pn) : ¬ (0 ≤ pn ∧ pn ∉ br) := by
  induction seg generalizing cur with
  | nil => exact h.2
  | cons p rest ih => exact ih p h.2.2.2

/-- Nothing on the segment (nor the stop) has been seen before, when `seen` is closed under children. -/
theorem unseen {seen : List Int} (down : ∀ i ∈ seen, ∀ c ∈ children t i, c ∈ seen) :
    ∀ (seg : List Int) (cur pn : Int), Chain t br cur seg pn → cur ∉ seen → (∀ x ∈ seg, x ∉ seen) ∧ pn ∉ seen
  | [], cur, pn, h, hc => by
    refine ⟨by simp, ?_⟩
    intro hp
    obtain ⟨n, hn, hid, hnp⟩ := parentOf_some h.1
    exact hc (down pn hp cur (mem_children.mpr ⟨n, hn, hnp, hid⟩))
  | p :: rest, cur, pn, h, hc => by
    obtain ⟨h1, _, _, h4⟩ := h
    have hp : p ∉ seen := by
      intro hp
      obtain ⟨n, hn, hid, hnp⟩ := parentOf_some h1
      exact hc (down p hp cur (mem_children.mpr ⟨n, hn, hnp, hid⟩))
    obtain ⟨a, b⟩ := unseen down rest p pn h4 hp
    refine ⟨?_, b⟩
    intro x hx
    rcases List.mem_cons.mp hx with e | e
    · rw [e]; exact hp
    · exact a x e

theorem dep_lt (hw : WF t) : ∀ (seg : List Int) (cur pn : Int), Chain t br cur seg pn →
    (∀ x ∈ seg, dep t x < dep t cur) ∧ (0 ≤ pn → dep t pn < dep t cur)
  | [], cur, pn, h => by
    refine ⟨by simp, ?_⟩
    intro h0
    obtain ⟨n, hn, hid, hnp⟩ := parentOf_some h.1
    have := dep_parent hw hn (by omega)
    rw [hid, hnp] at this; omega
  | p :: rest, cur, pn, h => by
    obtain ⟨h1, h2, _, h4⟩ := h
    obtain ⟨n, hn, hid, hnp⟩ := parentOf_some h1
    have hd := dep_parent hw hn (by omega)
    rw [hid, hnp] at hd
    obtain ⟨a, b⟩ := dep_lt hw rest p pn h4
    refine ⟨?_, fun h0 => by have := b h0; omega⟩
    intro x hx
    rcases List.mem_cons.mp hx with e | e
    · rw [e]; omega
    · have := a x e; omega

end Chain

/-- An appended node has exactly one child: the node it was reached from. -/
theorem only_child {t : Table} (hl : labelsOKB t = true) {cur p : Int} (hpar : parentOf t cur = some p)
    (hp : p ∈ ids t) (hbr : p ∉ branchNodes t) : children t p = [cur] := by
  obtain ⟨n, hn, hid, hnp⟩ := parentOf_some hpar
  apply children_eq_singleton (mem_children.mpr ⟨n, hn, hnp, hid⟩)
  have := (mem_branchNodes hl (i := p)).not.mp hbr
  have : ¬ 2 ≤ childCount t p := fun h => this ⟨hp, h⟩
  omega

theorem Chain.children_in {t : Table} (hw : WF t) (hl : labelsOKB t = true) :
    ∀ (seg : List Int) (cur pn : Int), Chain t (branchNodes t) cur seg pn →
      ∀ x ∈ seg, ∀ c ∈ children t x, c ∈ cur :: seg
  | [], _, _, _, x, hx, _, _ => by simp at hx
  | p :: rest, cur, pn, h, x, hx, c, hc => by
    have hpi : p ∈ ids t := Chain.mem_ids hw (p :: rest) cur pn h p List.mem_cons_self
    obtain ⟨h1, _, h3, h4⟩ := h
    rcases List.mem_cons.mp hx with e | e
    · subst e
      rw [only_child hl h1 hpi h3] at hc
      have : c = cur := by simpa using hc
      rw [this]; exact List.mem_cons_self
    · exact List.mem_cons_of_mem _ (Chain.children_in hw hl rest p pn h4 x e c hc)

/-- The recurrence value is constant along the segment (every appended node has a single child). -/
theorem Chain.values {t : Table} (hw : WF t) (hl : labelsOKB t = true) (g : Bool) (ign : List Int) :
    ∀ (seg : List Int) (cur pn : Int), Chain t (branchNodes t) cur seg pn →
      ∀ x ∈ seg, strahlerRaw t g ign (t.length + 1) x = strahlerRaw t g ign (t.length + 1) cur
  | [], _, _, _, x, hx => by simp at hx
  | p :: rest, cur, pn, h, x, hx => by
    have hpi : p ∈ ids t := Chain.mem_ids hw (p :: rest) cur pn h p List.mem_cons_self
    obtain ⟨h1, _, h3, h4⟩ := h
    have hp : strahlerRaw t g ign (t.length + 1) p = strahlerRaw t g ign (t.length + 1) cur := by
      rw [strahlerRaw_rec hw g ign hpi, only_child hl h1 hpi h3]
      simp [strahlerRule]
    rcases List.mem_cons.mp hx with e | e
    · rw [e]; exact hp
    · rw [Chain.values hw hl g ign rest p pn h4 x e, hp]

/-! ### the outer loop: invariant and termination measure -/

/-- Loop invariant.  `V` is the value every node must receive (the structural recurrence). -/
structure Inv (t : Table) (V : Int → Nat) (s : St) : Prop where
  /-- every seen node carries its final value -/
  val : ∀ i ∈ s.seen, i ∈ ids t ∧ siGet? s.si i = some (V i)
  /-- seen is closed under children: whole subtrees are finished -/
  down : ∀ i ∈ s.seen, ∀ c ∈ children t i, c ∈ s.seen
  /-- the dictionary has no other keys -/
  keys : ∀ i, (siGet? s.si i).isSome = true → i ∈ s.seen
  /-- work-set nodes are unseen and ready (`SI[c]` exists for every child: no `KeyError`) -/
  que : ∀ u ∈ s.queue, u ∈ ids t ∧ u ∉ s.seen ∧ ∀ c ∈ children t u, c ∈ s.seen
  /-- no end node is lost -/
  ends : ∀ e ∈ endNodes t, e ∈ s.seen ∨ e ∈ s.queue
  /-- a walk never stops below a non-branch parent -/
  up : ∀ n ∈ t, n.id ∈ s.seen → 0 ≤ n.parent → n.parent ∉ branchNodes t → n.parent ∈ s.seen
  /-- a branch node all of whose children are finished has been queued -/
  ready : ∀ b ∈ branchNodes t, (∀ c ∈ children t b, c ∈ s.seen) → b ∈ s.seen ∨ b ∈ s.queue

/-- Termination measure: number of table rows not yet seen. -/
def unseenCount (t : Table) (s : St) : Nat := ((ids t).filter fun i => !s.seen.contains i).length

theorem filter_length_le {α} (p q : α → Bool) : ∀ (l : List α), (∀ x ∈ l, q x = true → p x = true) →
    (l.filter q).length ≤ (l.filter p).length
  | [], _ => by simp
  | a :: l, h => by
    have ih := filter_length_le p q l (fun x hx => h x (List.mem_cons_of_mem _ hx))
    simp only [List.filter_cons]
    by_cases hq : q a = true
    · have hp := h a List.mem_cons_self hq
      simp only [hq, hp, if_true, List.length_cons]; omega
    · by_cases hp : p a = true
      · simp only [hq, hp, if_true, List.length_cons]; simp only [Bool.false_eq_true, if_false]; omega
      · simp only [hq, hp, Bool.false_eq_true, if_false]; exact ih

theorem filter_length_lt {α} (p q : α → Bool) : ∀ (l : List α), (∀ x ∈ l, q x = true → p x = true) →
    ∀ {u : α}, u ∈ l → p u = true → q u = false → (l.filter q).length < (l.filter p).length
  | [], _, _, hu, _, _ => by simp at hu
  | a :: l, h, u, hu, hpu, hqu => by
    have hl : ∀ x ∈ l, q x = true → p x = true := fun x hx => h x (List.mem_cons_of_mem _ hx)
    simp only [List.filter_cons]
    rcases List.mem_cons.mp hu with e | e
    · subst e
      have := filter_length_le p q l hl
      simp only [hpu, hqu, if_true, Bool.false_eq_true, if_false, List.length_cons]; omega
    · have ih := filter_length_lt p q l hl e hpu hqu
      by_cases hq : q a = true
      · have hp := h a List.mem_cons_self hq
        simp only [hq, hp, if_true, List.length_cons]; omega
      · by_cases hp : p a = true
        · simp only [hq, hp, if_true, List.length_cons]; simp only [Bool.false_eq_true, if_false]; omega
        · simp only [hq, hp, Bool.false_eq_true, if_false]; exact ih

theorem unseen_pos {t : Table} {s : St} {u : Int} (hu : u ∈ ids t) (hs : u ∉ s.seen) : 0 < unseenCount t s := by
  unfold unseenCount
  apply List.length_pos_of_mem (a := u)
  simp only [List.mem_filter, Bool.not_eq_true', List.contains_eq_mem, decide_eq_false_iff_not]
  exact ⟨hu, hs⟩

theorem inv_init {t : Table} (hl : labelsOKB t = true) (V : Int → Nat) : Inv t V (init t) where
  val := by intro i hi; simp [init] at hi
  down := by intro i hi; simp [init] at hi
  keys := by intro i hi; simp [init, siGet?] at hi
  que := by
    intro u hu
    obtain ⟨n, hn, hid, _, hc⟩ := (mem_endNodes hl).mp hu
    refine ⟨hid ▸ mem_ids_of_mem hn, by simp [init], ?_⟩
    intro c hcm
    rw [children_nil_iff.mpr hc] at hcm
    simp at hcm
  ends := by intro e he; exact Or.inr he
  up := by intro n _ hs; simp [init] at hs
  ready := by
    intro b hb hall
    exfalso
    have h2 := ((mem_branchNodes hl).mp hb).2
    have : children t b = [] := by
      apply List.eq_nil_iff_forall_not_mem.mpr
      intro c hc
      have := hall c hc
      simp [init] at this
    rw [children_nil_iff] at this
    omega

/-- The index chosen for the branch starting at a ready node is the recurrence value. -/
theorem branchIndex_value {t : Table} (hw : WF t) (hl : labelsOKB t = true) (g : Bool) (ign : List Int)
    (hign : ∀ l ∈ ign, l ∈ ids t → l ∈ endNodes t) {u : Int} (hu : u ∈ ids t) :
    branchIndex g ign u ((children t u).map (strahlerRaw t g ign (t.length + 1))) =
      strahlerRaw t g ign (t.length + 1) u := by
  rw [branchIndex_eq, strahlerRaw_rec hw g ign hu]
  by_cases hi : ign.contains u = true
  · have hm : u ∈ ign := by simpa using hi
    obtain ⟨n, _, _, _, hc⟩ := (mem_endNodes hl).mp (hign u hm hu)
    rw [if_pos hi, if_pos (children_nil_iff.mpr hc), if_pos hi]
  · rw [if_neg hi]
    by_cases hc : children t u = []
    · rw [if_pos hc, if_neg hi, hc]; simp [strahlerRule]
    · rw [if_neg hc]

/-- **One iteration preserves the invariant**, raises no `KeyError`, and sees at least one new node. -/
theorem step_inv {t : Table} (hw : WF t) (hl : labelsOKB t = true) (g : Bool) (ign : List Int)
    (hign : ∀ l ∈ ign, l ∈ ids t → l ∈ endNodes t) {s : St}
    (hI : Inv t (strahlerRaw t g ign (t.length + 1)) s) {u : Int} (hu : u ∈ s.queue) :
    ∃ s', step t g ign (branchNodes t) s u = some s' ∧ Inv t (strahlerRaw t g ign (t.length + 1)) s' ∧
      unseenCount t s' < unseenCount t s := by
  obtain ⟨hui, hus, huc⟩ := hI.que u hu
  have hprev : prevIndices t s.si u = some ((children t u).map (strahlerRaw t g ign (t.length + 1))) :=
    mapM_some_of_forall _ _ _ (fun c hc => (hI.val c (huc c hc)).2)
  obtain ⟨seg, pn, hwk⟩ := walkUp_some hw (branchNodes t) (t.length + 1) u hui (by have := dep_le hw u; omega)
  have hch := walkUp_spec _ _ _ _ hwk
  have hidx := branchIndex_value hw hl g ign hign hui
  -- facts about the segment
  have hsegids : ∀ x ∈ u :: seg, x ∈ ids t := by
    intro x hx
    rcases List.mem_cons.mp hx with e | e
    · rw [e]; exact hui
    · exact Chain.mem_ids hw seg u pn hch x e
  have hsegV : ∀ x ∈ u :: seg, strahlerRaw t g ign (t.length + 1) x = strahlerRaw t g ign (t.length + 1) u := by
    intro x hx
    rcases List.mem_cons.mp hx with e | e
    · rw [e]
    · exact Chain.values hw hl g ign seg u pn hch x e
  obtain ⟨hsegun', hpnun⟩ := Chain.unseen hI.down seg u pn hch hus
  have hsegun : ∀ x ∈ u :: seg, x ∉ s.seen := by
    intro x hx
    rcases List.mem_cons.mp hx with e | e
    · rw [e]; exact hus
    · exact hsegun' x e
  obtain ⟨hdepseg, hdeppn⟩ := Chain.dep_lt hw seg u pn hch
  have hstop := Chain.stop seg u pn hch
  have hpn_notseg : 0 ≤ pn → pn ∉ u :: seg := by
    intro h0 hm
    rcases List.mem_cons.mp hm with e | e
    · have := hdeppn h0; rw [e] at this; omega
    · obtain ⟨_, _, _, _, hnb⟩ := Chain.child_in seg u pn hch pn e
      exact hstop ⟨h0, hnb⟩
  -- the new state
  refine ⟨_, by unfold step; rw [hprev]; simp only; rw [hwk], ?_, ?_⟩
  · -- invariant
    simp only [hidx]
    -- membership in the new work set
    have hq_mem : ∀ v, v ∈ s.queue.filter (fun v => v != u) ↔ v ∈ s.queue ∧ v ≠ u := by
      intro v; simp [List.mem_filter]
    have hq'_sup : ∀ v, v ∈ s.queue → v ≠ u → v ∈
        (if (decide (0 ≤ pn) && (children t pn).all fun c => (s.seen ++ u :: seg).contains c) = true then
          (if (s.queue.filter fun v => v != u).contains pn = true then s.queue.filter fun v => v != u
           else (s.queue.filter fun v => v != u) ++ [pn])
         else s.queue.filter fun v => v != u) := by
      intro v hv hne
      have hv' := (hq_mem v).mpr ⟨hv, hne⟩
      split
      · split
        · exact hv'
        · exact List.mem_append_left _ hv'
      · exact hv'
    have hq'_cases : ∀ v, v ∈
        (if (decide (0 ≤ pn) && (children t pn).all fun c => (s.seen ++ u :: seg).contains c) = true then
          (if (s.queue.filter fun v => v != u).contains pn = true then s.queue.filter fun v => v != u
           else (s.queue.filter fun v => v != u) ++ [pn])
         else s.queue.filter fun v => v != u) →
        (v ∈ s.queue ∧ v ≠ u) ∨ (v = pn ∧ 0 ≤ pn ∧ ∀ c ∈ children t pn, c ∈ s.seen ++ u :: seg) := by
      intro v hv
      split at hv
      · rename_i hcond
        simp only [Bool.and_eq_true, decide_eq_true_eq, List.all_eq_true, List.contains_eq_mem] at hcond
        split at hv
        · exact Or.inl ((hq_mem v).mp hv)
        · rcases List.mem_append.mp hv with h | h
          · exact Or.inl ((hq_mem v).mp h)
          · have : v = pn := by simpa using h
            exact Or.inr ⟨this, hcond.1, hcond.2⟩
      · exact Or.inl ((hq_mem v).mp hv)
    have hq'_ready : 0 ≤ pn → (∀ c ∈ children t pn, c ∈ s.seen ++ u :: seg) → pn ∈
        (if (decide (0 ≤ pn) && (children t pn).all fun c => (s.seen ++ u :: seg).contains c) = true then
          (if (s.queue.filter fun v => v != u).contains pn = true then s.queue.filter fun v => v != u
           else (s.queue.filter fun v => v != u) ++ [pn])
         else s.queue.filter fun v => v != u) := by
      intro h0 hall
      have hcond : (decide (0 ≤ pn) && (children t pn).all fun c => (s.seen ++ u :: seg).contains c) = true := by
        simp only [Bool.and_eq_true, decide_eq_true_eq, List.all_eq_true, List.contains_eq_mem]
        exact ⟨h0, hall⟩
      rw [if_pos hcond]
      split
      · rename_i hc; simpa using hc
      · exact List.mem_append_right _ (by simp)
    constructor
    · -- val
      intro i hi
      by_cases hseg : i ∈ u :: seg
      · exact ⟨hsegids i hseg, by rw [siGet?_update_mem hseg, hsegV i hseg]⟩
      · rcases List.mem_append.mp hi with h | h
        · rw [siGet?_update_not_mem hseg]; exact hI.val i h
        · exact absurd h hseg
    · -- down
      intro i hi c hc
      rcases List.mem_append.mp hi with h | h
      · exact List.mem_append_left _ (hI.down i h c hc)
      · rcases List.mem_cons.mp h with e | e
        · rw [e] at hc; exact List.mem_append_left _ (huc c hc)
        · exact List.mem_append_right _ (Chain.children_in hw hl seg u pn hch i e c hc)
    · -- keys
      intro i hi
      by_cases hseg : i ∈ u :: seg
      · exact List.mem_append_right _ hseg
      · rw [siGet?_update_not_mem hseg] at hi
        exact List.mem_append_left _ (hI.keys i hi)
    · -- que
      intro v hv
      rcases hq'_cases v hv with ⟨hvq, hne⟩ | ⟨rfl, h0, hall⟩
      · obtain ⟨hvi, hvs, hvc⟩ := hI.que v hvq
        refine ⟨hvi, ?_, fun c hc => List.mem_append_left _ (hvc c hc)⟩
        intro hm
        rcases List.mem_append.mp hm with h | h
        · exact hvs h
        · rcases List.mem_cons.mp h with e | e
          · exact hne e
          · obtain ⟨y, hy, hpy, _, _⟩ := Chain.child_in seg u pn hch v e
            obtain ⟨n, hn, hid, hnp⟩ := parentOf_some hpy
            exact hsegun y hy (hvc y (mem_children.mpr ⟨n, hn, hnp, hid⟩))
      · refine ⟨Chain.pn_mem hw seg u v hch h0, ?_, hall⟩
        intro hm
        rcases List.mem_append.mp hm with h | h
        · exact hpnun h
        · exact hpn_notseg h0 h
    · -- ends
      intro e he
      rcases hI.ends e he with h | h
      · exact Or.inl (List.mem_append_left _ h)
      · by_cases heu : e = u
        · exact Or.inl (List.mem_append_right _ (heu ▸ List.mem_cons_self))
        · exact Or.inr (hq'_sup e h heu)
    · -- up
      intro n hn hs h0 hnb
      rcases List.mem_append.mp hs with h | h
      · exact List.mem_append_left _ (hI.up n hn h h0 hnb)
      · obtain ⟨p, hp, hcase⟩ := Chain.parent_in seg u pn hch n.id h
        rw [parentOf_of_mem hw.1 hn] at hp
        have hpe : n.parent = p := by simpa using hp
        rcases hcase with hc | ⟨hc, hst⟩
        · exact List.mem_append_right _ (List.mem_cons_of_mem _ (hpe ▸ hc))
        · exfalso; apply hst; rw [← hc, ← hpe]; exact ⟨h0, hnb⟩
    · -- ready
      intro b hb hall
      by_cases hold : ∀ c ∈ children t b, c ∈ s.seen
      · rcases hI.ready b hb hold with h | h
        · exact Or.inl (List.mem_append_left _ h)
        · by_cases hbu : b = u
          · exact Or.inl (List.mem_append_right _ (hbu ▸ List.mem_cons_self))
          · exact Or.inr (hq'_sup b h hbu)
      · -- some child of `b` was seen in this very iteration: `b` is the stop of the walk
        have : ∃ c ∈ children t b, c ∉ s.seen := by
          apply Classical.byContradiction
          intro hne
          apply hold
          intro c hc
          apply Classical.byContradiction
          intro hcs
          exact hne ⟨c, hc, hcs⟩
        obtain ⟨c, hc, hcs⟩ := this
        have hcseg : c ∈ u :: seg := by
          rcases List.mem_append.mp (hall c hc) with h | h
          · exact absurd h hcs
          · exact h
        obtain ⟨m, hm, hmp, hmid⟩ := mem_children.mp hc
        obtain ⟨p, hp, hcase⟩ := Chain.parent_in seg u pn hch c hcseg
        rw [← hmid, parentOf_of_mem hw.1 hm] at hp
        have hpe : b = p := by rw [← hmp]; simpa using hp
        have hb0 : 0 ≤ b := by
          obtain ⟨nb, hnb, hnbid⟩ := mem_ids.mp ((mem_branchNodes hl).mp hb).1
          rw [← hnbid]; exact hw.2.1 nb hnb
        rcases hcase with hc' | ⟨hc', _⟩
        · exfalso
          obtain ⟨_, _, _, _, hnb⟩ := Chain.child_in seg u pn hch p hc'
          exact hnb (hpe ▸ hb)
        · have hbpn : b = pn := hpe.trans hc'
          exact Or.inr (hbpn ▸ hq'_ready (hbpn ▸ hb0) (hbpn ▸ hall))
  · -- measure
    unfold unseenCount
    apply filter_length_lt _ _ _ _ hui
    · simpa using hus
    · simp
    · intro x _ hx
      simp only [Bool.not_eq_true', List.contains_eq_mem, decide_eq_false_iff_not, List.mem_append, not_or] at hx ⊢
      exact hx.1

theorem popped_mem (pick : St → Nat) {s : St} (h : s.queue ≠ []) : popped pick s ∈ s.queue := by
  unfold popped
  have hlen : 0 < s.queue.length := List.length_pos_iff.mpr h
  have hlt : pick s % s.queue.length < s.queue.length := Nat.mod_lt _ hlen
  rw [List.getD_eq_getElem?_getD, List.getElem?_eq_getElem hlt]
  exact List.getElem_mem hlt

/-- **The outer loop terminates (fuel = number of unseen rows suffices), raises no `KeyError`, and ends
with an empty work set and the invariant** — for every pop order. -/
theorem loop_inv {t : Table} (hw : WF t) (hl : labelsOKB t = true) (g : Bool) (ign : List Int)
    (hign : ∀ l ∈ ign, l ∈ ids t → l ∈ endNodes t) (pick : St → Nat) :
    ∀ (f : Nat) (s : St), Inv t (strahlerRaw t g ign (t.length + 1)) s → unseenCount t s ≤ f →
      ∃ s', loop t g ign (branchNodes t) pick f s = some s' ∧ Inv t (strahlerRaw t g ign (t.length + 1)) s' ∧
        s'.queue = [] := by
  intro f
  induction f with
  | zero =>
    intro s hI hm
    unfold loop
    by_cases hq : s.queue = []
    · exact ⟨s, by simp [hq], hI, hq⟩
    · exfalso
      have hu := popped_mem pick hq
      obtain ⟨hui, hus, _⟩ := hI.que _ hu
      have := unseen_pos hui hus
      omega
  | succ f ih =>
    intro s hI hm
    unfold loop
    by_cases hq : s.queue = []
    · exact ⟨s, by simp [hq], hI, hq⟩
    · have hne : s.queue.isEmpty = false := by simpa using hq
      rw [hne]
      simp only [Bool.false_eq_true, if_false]
      obtain ⟨s', hs', hI', hlt⟩ := step_inv hw hl g ign hign hI (popped_mem pick hq)
      rw [hs']
      exact ih s' hI' (by omega)

/-- With an empty work set every row has been seen, except isolated roots. -/
theorem complete {t : Table} (hw : WF t) (hl : labelsOKB t = true) {V : Int → Nat} {s : St} (hI : Inv t V s)
    (hq : s.queue = []) :
    ∀ i ∈ ids t, i ∈ s.seen ∨ (children t i = [] ∧ ∃ n ∈ t, n.id = i ∧ n.parent < 0) := by
  apply WF_induct_up hw
  intro i hi ih
  obtain ⟨n, hn, rfl⟩ := mem_ids.mp hi
  by_cases hc : children t n.id = []
  · by_cases hr : n.parent < 0
    · exact Or.inr ⟨hc, n, hn, rfl, hr⟩
    · rcases hI.ends n.id ((mem_endNodes hl).mpr ⟨n, hn, rfl, hr, children_nil_iff.mp hc⟩) with h | h
      · exact Or.inl h
      · rw [hq] at h; simp at h
  · have h0 : 0 ≤ n.id := hw.2.1 n hn
    have hall : ∀ c ∈ children t n.id, c ∈ s.seen := by
      intro c hcm
      rcases ih c hcm with h | ⟨_, m, hm, hmid, hmr⟩
      · exact h
      · exfalso
        obtain ⟨m', hm', hmp', hmid'⟩ := mem_children.mp hcm
        have e1 := find?_of_mem hw.1 hm
        have e2 := find?_of_mem hw.1 hm'
        rw [hmid] at e1; rw [hmid'] at e2
        have : m = m' := by rw [e1] at e2; exact Option.some.inj e2
        rw [this, hmp'] at hmr; omega
    by_cases hb : n.id ∈ branchNodes t
    · rcases hI.ready n.id hb hall with h | h
      · exact Or.inl h
      · rw [hq] at h; simp at h
    · obtain ⟨c, hcm⟩ := List.exists_mem_of_ne_nil _ hc
      obtain ⟨m, hm, hmp, hmid⟩ := mem_children.mp hcm
      have := hI.up m hm (hmid ▸ hall c hcm) (by rw [hmp]; exact h0) (by rw [hmp]; exact hb)
      rw [hmp] at this
      exact Or.inl this

/-- **Result of the sweep**: the dictionary read with default 1 is the structural recurrence at every row. -/
theorem final_values {t : Table} (hw : WF t) (hl : labelsOKB t = true) (g : Bool) (ign : List Int)
    (hign : ∀ l ∈ ign, l ∈ ids t → l ∈ endNodes t) {s : St}
    (hI : Inv t (strahlerRaw t g ign (t.length + 1)) s) (hq : s.queue = []) :
    ∀ i ∈ ids t, siGetD s.si i = strahlerRaw t g ign (t.length + 1) i := by
  intro i hi
  have hseen : i ∈ s.seen → siGetD s.si i = strahlerRaw t g ign (t.length + 1) i := by
    intro h; unfold siGetD; rw [(hI.val i h).2]; rfl
  rcases complete hw hl hI hq i hi with h | ⟨hc, n, hn, hid, hr⟩
  · exact hseen h
  · cases hk : siGet? s.si i with
    | some v => exact hseen (hI.keys i (by rw [hk]; rfl))
    | none =>
      unfold siGetD; rw [hk, strahlerRaw_rec hw g ign hi, if_pos hc]
      have : ign.contains i = false := by
        cases hcon : ign.contains i with
        | false => rfl
        | true =>
          exfalso
          have hm : i ∈ ign := by simpa using hcon
          obtain ⟨m, hm', hmid, hmr, _⟩ := (mem_endNodes hl).mp (hign i hm hi)
          have e1 := find?_of_mem hw.1 hn
          have e2 := find?_of_mem hw.1 hm'
          rw [hid] at e1; rw [hmid] at e2
          have : n = m := by rw [e1] at e2; exact Option.some.inj e2
          rw [this] at hr; exact hmr hr
      rw [this]; rfl

theorem unseenCount_init_le (t : Table) : unseenCount t (init t) ≤ t.length + 1 := by
  unfold unseenCount
  have := List.length_filter_le (fun i => !(init t).seen.contains i) (ids t)
  rw [ids_length] at this; omega

/-- **The Python sweep computes the recurrence**: for every well-formed, correctly labelled forest, both
methods, every ignore list made of end nodes and every pop order, the sweep returns a dictionary (no
`KeyError`, terminates within `|t| + 1` iterations of the outer loop) whose reading with default 1 is
`strahlerRaw` at every row. -/
theorem sweepRaw_eq {t : Table} (hw : WF t) (hl : labelsOKB t = true) (g : Bool) (ign : List Int)
    (hign : ∀ l ∈ ign, l ∈ ids t → l ∈ endNodes t) (pick : St → Nat) :
    ∃ si, sweepRaw t g ign pick = some si ∧ ∀ i ∈ ids t, siGetD si i = strahlerRaw t g ign (t.length + 1) i := by
  obtain ⟨s', hs', hI', hq'⟩ := loop_inv hw hl g ign hign pick (t.length + 1) (init t) (inv_init hl _)
    (unseenCount_init_le t)
  exact ⟨s'.si, by unfold sweepRaw; rw [hs']; rfl, final_values hw hl g ign hign hI' hq'⟩

end Navis.Sweep
