import NavisModel.Model.Nblast
import Mathlib.Tactic.Linarith
import Mathlib.Tactic.Ring
/-!
Helper lemmas for property C06 (NBLAST scoring): order on extended rationals, `takeWhile`-scan facts,
`digitize` specification / uniqueness / monotonicity, tables built from interval labels.
-/
namespace Navis.Nblast

/-! ### Order on `X` -/

theorem X.lt_irrefl (a : X) : X.lt a a = false := by
  cases a <;> simp [X.lt]

theorem X.lt_trans {a b c : X} (h1 : X.lt a b = true) (h2 : X.lt b c = true) : X.lt a c = true := by
  cases a <;> cases b <;> cases c <;> simp_all [X.lt]
  exact _root_.lt_trans h1 h2

theorem X.lt_asymm {a b : X} (h : X.lt a b = true) : X.lt b a = false := by
  cases a <;> cases b <;> simp_all [X.lt]
  exact le_of_lt h

theorem X.lt_or_eq_or_gt (a b : X) : X.lt a b = true ∨ a = b ∨ X.lt b a = true := by
  cases a <;> cases b <;> simp [X.lt]
  rename_i p q
  rcases lt_trichotomy p q with h | h | h
  · exact Or.inl h
  · exact Or.inr (Or.inl h)
  · exact Or.inr (Or.inr h)

theorem X.le_iff (a b : X) : X.le a b = true ↔ (X.lt a b = true ∨ a = b) := by
  unfold X.le
  constructor
  · intro h
    rcases X.lt_or_eq_or_gt a b with h1 | h1 | h1
    · exact Or.inl h1
    · exact Or.inr h1
    · simp [h1] at h
  · rintro (h | h)
    · simp [X.lt_asymm h]
    · subst h; simp [X.lt_irrefl]

theorem X.ninf_lt_fin (q : Rat) : X.lt .ninf (.fin q) = true := rfl
theorem X.fin_lt_pinf (q : Rat) : X.lt (.fin q) .pinf = true := rfl

/-! ### The two comparison predicates are downward closed along `<` -/

theorem Val.gtB_anti (v : Val) {a b : X} (hab : X.lt a b = true) (hb : v.gtB b = true) : v.gtB a = true := by
  cases v with
  | x v => exact X.lt_trans hab hb
  | sqrt s =>
    cases a <;> cases b <;> simp_all [Val.gtB, X.lt]
    rename_i p q
    by_cases hp : p < 0
    · exact Or.inl hp
    · right
      have hp' : 0 ≤ p := not_lt.mp hp
      rcases hb with hb | hb
      · linarith
      · nlinarith

theorem Val.geB_anti (v : Val) {a b : X} (hab : X.lt a b = true) (hb : v.geB b = true) : v.geB a = true := by
  cases v with
  | x v =>
    simp only [Val.geB] at *
    rcases (X.le_iff b v).mp hb with h | h
    · exact (X.le_iff a v).mpr (Or.inl (X.lt_trans hab h))
    · subst h; exact (X.le_iff a b).mpr (Or.inl hab)
  | sqrt s =>
    cases a <;> cases b <;> simp_all [Val.geB, X.lt]
    rename_i p q
    by_cases hp : p ≤ 0
    · exact Or.inl hp
    · right
      have hp' : 0 < p := not_le.mp hp
      rcases hb with hb | hb
      · linarith
      · nlinarith

/-- `b < v → b ≤ v`. -/
theorem Val.geB_of_gtB (v : Val) (b : X) (h : v.gtB b = true) : v.geB b = true := by
  cases v with
  | x v => exact (X.le_iff b v).mpr (Or.inl h)
  | sqrt s =>
    cases b <;> simp_all [Val.gtB, Val.geB]
    rcases h with h | h
    · exact Or.inl (le_of_lt h)
    · exact Or.inr (le_of_lt h)

theorem Val.gtB_ninf (v : Val) (h : v.finite = true) : v.gtB .ninf = true := by
  cases v with
  | x v => cases v <;> simp_all [Val.finite, X.isFin, Val.gtB, X.lt]
  | sqrt s => rfl

theorem Val.geB_ninf (v : Val) (h : v.finite = true) : v.geB .ninf = true :=
  v.geB_of_gtB _ (v.gtB_ninf h)

theorem Val.geB_pinf (v : Val) (h : v.finite = true) : v.geB .pinf = false := by
  cases v with
  | x v => cases v <;> simp_all [Val.finite, X.isFin, Val.geB, X.le, X.lt]
  | sqrt s => rfl

theorem Val.gtB_pinf (v : Val) : v.gtB .pinf = false := by
  cases v with
  | x v => cases v <;> simp [Val.gtB, X.lt]
  | sqrt s => rfl

/-- A rational root represents the same number: `sqrt (r*r)` compares like `r` for `r ≥ 0`. -/
theorem Val.gtB_sqrt_eq (r : Rat) (hr : 0 ≤ r) (b : X) : (Val.sqrt (r * r)).gtB b = (Val.x (.fin r)).gtB b := by
  cases b with
  | ninf => rfl
  | pinf => rfl
  | fin q =>
    simp only [Val.gtB, X.lt]
    by_cases h : q < r
    · have : q < 0 ∨ q * q < r * r := by
        by_cases hq : q < 0
        · exact Or.inl hq
        · right; have : 0 ≤ q := not_lt.mp hq; nlinarith
      simp [h, this]
    · have hle : r ≤ q := not_lt.mp h
      have h1 : ¬ q < 0 := by linarith
      have h2 : ¬ q * q < r * r := by nlinarith
      simp [h, h1, h2]

theorem Val.geB_sqrt_eq (r : Rat) (hr : 0 ≤ r) (b : X) : (Val.sqrt (r * r)).geB b = (Val.x (.fin r)).geB b := by
  cases b with
  | ninf => rfl
  | pinf => rfl
  | fin q =>
    simp only [Val.geB, X.le, X.lt]
    by_cases h : r < q
    · have h1 : ¬ q ≤ 0 := by linarith
      have h2 : ¬ q * q ≤ r * r := by nlinarith
      simp [h, h1, h2]
    · have hle : q ≤ r := not_lt.mp h
      have : q ≤ 0 ∨ q * q ≤ r * r := by
        by_cases hq : q ≤ 0
        · exact Or.inl hq
        · right; have : 0 < q := not_le.mp hq; nlinarith
      simp [h, this]

/-- A larger radicand is a larger value. -/
theorem Val.gtB_sqrt_mono {s s' : Rat} (h : s ≤ s') (b : X) (hb : (Val.sqrt s).gtB b = true) : (Val.sqrt s').gtB b = true := by
  cases b <;> simp_all [Val.gtB]
  rcases hb with hb | hb
  · exact Or.inl hb
  · exact Or.inr (lt_of_lt_of_le hb h)

theorem Val.geB_sqrt_mono {s s' : Rat} (h : s ≤ s') (b : X) (hb : (Val.sqrt s).geB b = true) : (Val.sqrt s').geB b = true := by
  cases b <;> simp_all [Val.geB]
  rcases hb with hb | hb
  · exact Or.inl hb
  · exact Or.inr (le_trans hb h)

/-! ### Scans -/

theorem tw_length_le (p : X → Bool) (l : List X) : (l.takeWhile p).length ≤ l.length := by
  induction l with
  | nil => simp
  | cons a l ih =>
    simp only [List.takeWhile_cons]
    split
    · simp; omega
    · simp

/-- Everything before the stopping index satisfies the predicate. -/
theorem tw_before (p : X → Bool) (l : List X) (i : Nat) (hi : i < (l.takeWhile p).length) (x : X)
    (hx : l[i]? = some x) : p x = true := by
  induction l generalizing i with
  | nil => simp at hi
  | cons a l ih =>
    simp only [List.takeWhile_cons] at hi
    by_cases hpa : p a = true
    · simp only [hpa, if_true, List.length_cons] at hi
      cases i with
      | zero => simp at hx; subst hx; exact hpa
      | succ i => simp at hx; exact ih i (by omega) hx
    · simp [hpa] at hi

/-- The element at the stopping index (if any) fails the predicate. -/
theorem tw_at (p : X → Bool) (l : List X) (x : X) (hx : l[(l.takeWhile p).length]? = some x) : p x = false := by
  induction l with
  | nil => simp at hx
  | cons a l ih =>
    simp only [List.takeWhile_cons] at hx
    by_cases hpa : p a = true
    · simp only [hpa, if_true, List.length_cons, List.getElem?_cons_succ] at hx
      exact ih hx
    · simp [hpa] at hx
      subst hx; simpa using hpa

theorem tw_mono (p q : X → Bool) (h : ∀ x, p x = true → q x = true) (l : List X) :
    (l.takeWhile p).length ≤ (l.takeWhile q).length := by
  induction l with
  | nil => simp
  | cons a l ih =>
    simp only [List.takeWhile_cons]
    by_cases hpa : p a = true
    · simp [hpa, h a hpa]; exact ih
    · simp [hpa]

theorem tw_congr (p q : X → Bool) (h : ∀ x, p x = q x) (l : List X) :
    (l.takeWhile p).length = (l.takeWhile q).length := by
  have : p = q := funext h
  rw [this]

/-! ### Strictly increasing boundary lists -/

theorem isMonoInc_tail {a : X} {l : List X} (h : isMonoInc (a :: l) = true) : isMonoInc l = true := by
  cases l with
  | nil => rfl
  | cons b r => simp [isMonoInc] at h; exact h.2

/-- In a strictly increasing list earlier elements are smaller. -/
theorem isMonoInc_lt (l : List X) (h : isMonoInc l = true) (i j : Nat) (hij : i < j) (x y : X)
    (hx : l[i]? = some x) (hy : l[j]? = some y) : X.lt x y = true := by
  induction l generalizing i j x y with
  | nil => simp at hx
  | cons a l ih =>
    have ht := isMonoInc_tail h
    cases j with
    | zero => omega
    | succ j =>
      simp at hy
      cases i with
      | succ i => simp at hx; exact ih ht i j (by omega) x y hx hy
      | zero =>
        simp at hx
        -- a < l[0] ≤ ... < l[j]
        cases l with
        | nil => simp at hy
        | cons b r =>
          have hab : X.lt x b = true := by rw [← hx]; simp [isMonoInc] at h; exact h.1
          cases j with
          | zero => simp at hy; rw [← hy]; exact hab
          | succ j =>
            have : X.lt b y = true := ih ht 0 (j + 1) (by omega) b y (by simp) hy
            exact X.lt_trans hab this

/-! ### Well-formed digitizers (what `Digitizer.make … (true, true)` / `from_strings` produce) -/

structure Digitizer.WF (d : Digitizer) : Prop where
  mono : isMonoInc d.boundaries = true
  head : d.boundaries.head? = some .ninf
  last : d.boundaries.getLast? = some .pinf

theorem Digitizer.WF.two_le {d : Digitizer} (h : d.WF) : 2 ≤ d.boundaries.length := by
  have h1 := h.head; have h2 := h.last
  match hb : d.boundaries with
  | [] => rw [hb] at h1; simp at h1
  | [a] => rw [hb] at h1 h2; simp at h1 h2; rw [h1] at h2; cases h2
  | _ :: _ :: _ => simp

theorem Digitizer.WF.nbins_pos {d : Digitizer} (h : d.WF) : 0 < d.nbins := by
  have := h.two_le; unfold Digitizer.nbins; omega

theorem Digitizer.WF.get_zero {d : Digitizer} (h : d.WF) : d.boundaries[0]? = some .ninf := by
  have := h.head
  cases hb : d.boundaries with
  | nil => rw [hb] at this; simp at this
  | cons a l => rw [hb] at this; simpa using this

theorem Digitizer.WF.get_last {d : Digitizer} (h : d.WF) : d.boundaries[d.nbins]? = some .pinf := by
  have h2 := h.last
  rw [List.getLast?_eq_getElem?] at h2
  exact h2

/-- The scan stops strictly inside the list: at an index `1 ≤ k ≤ nbins`. -/
theorem scan_range (d : Digitizer) (hwf : d.WF) (p : X → Bool) (h0 : p .ninf = true) (h1 : p .pinf = false) :
    1 ≤ (d.boundaries.takeWhile p).length ∧ (d.boundaries.takeWhile p).length ≤ d.nbins := by
  have h2 := hwf.two_le
  constructor
  · by_contra hc
    have hk : (d.boundaries.takeWhile p).length = 0 := by omega
    have := tw_at p d.boundaries .ninf (by rw [hk]; exact hwf.get_zero)
    rw [h0] at this; cases this
  · by_contra hc
    have hlen := tw_length_le p d.boundaries
    have hk : d.nbins < (d.boundaries.takeWhile p).length := by omega
    have := tw_before p d.boundaries d.nbins hk .pinf hwf.get_last
    rw [h1] at this; cases this

/-- The predicate the scan of `digitize` uses. -/
def scanPred (d : Digitizer) (v : Val) : X → Bool := if d.right then v.gtB else v.geB

theorem digitize_eq (d : Digitizer) (v : Val) :
    digitize d v = ((d.boundaries.takeWhile (scanPred d v)).length : Int) - 1 := by
  unfold digitize digitizeWith sideOfRight scanPred searchsorted
  cases d.right <;> rfl

theorem scanPred_ninf (d : Digitizer) (v : Val) (hv : v.finite = true) : scanPred d v .ninf = true := by
  unfold scanPred; split
  · exact v.gtB_ninf hv
  · exact v.geB_ninf hv

theorem scanPred_pinf (d : Digitizer) (v : Val) (hv : v.finite = true) : scanPred d v .pinf = false := by
  unfold scanPred; split
  · exact v.gtB_pinf
  · exact v.geB_pinf hv

theorem scanPred_anti (d : Digitizer) (v : Val) {a b : X} (hab : X.lt a b = true) (hb : scanPred d v b = true) :
    scanPred d v a = true := by
  unfold scanPred at *; split at hb
  · rename_i h; simp [h]; exact v.gtB_anti hab hb
  · rename_i h; simp [h]; exact v.geB_anti hab hb

/-- **Specification of `digitize`**: the result is a bin index `k < nbins` whose lower boundary passes
the scan predicate and whose upper boundary fails it. -/
theorem digitize_spec_aux (d : Digitizer) (hwf : d.WF) (v : Val) (hv : v.finite = true) :
    ∃ (k : Nat) (lo hi : X), digitize d v = (k : Int) ∧ k < d.nbins ∧
      d.boundaries[k]? = some lo ∧ d.boundaries[k + 1]? = some hi ∧
      scanPred d v lo = true ∧ scanPred d v hi = false := by
  have hr := scan_range d hwf (scanPred d v) (scanPred_ninf d v hv) (scanPred_pinf d v hv)
  set n := (d.boundaries.takeWhile (scanPred d v)).length with hn
  have h2 := hwf.two_le
  have hnb : d.nbins = d.boundaries.length - 1 := rfl
  have hlo : n - 1 < d.boundaries.length := by omega
  have hhi : n < d.boundaries.length := by omega
  refine ⟨n - 1, d.boundaries[n - 1], d.boundaries[n], ?_, by omega, ?_, ?_, ?_, ?_⟩
  · rw [digitize_eq]; omega
  · exact List.getElem?_eq_getElem hlo
  · have : n - 1 + 1 = n := by omega
    rw [this]; exact List.getElem?_eq_getElem hhi
  · exact tw_before (scanPred d v) d.boundaries (n - 1) (by omega) _ (List.getElem?_eq_getElem hlo)
  · exact tw_at (scanPred d v) d.boundaries _ (List.getElem?_eq_getElem hhi)

/-- **Uniqueness**: any bin whose lower boundary passes and upper boundary fails is the one returned. -/
theorem digitize_unique_aux (d : Digitizer) (hwf : d.WF) (v : Val) (j : Nat) (lo hi : X)
    (hlo : d.boundaries[j]? = some lo) (hhi : d.boundaries[j + 1]? = some hi)
    (h1 : scanPred d v lo = true) (h2 : scanPred d v hi = false) : digitize d v = (j : Int) := by
  rw [digitize_eq]
  set n := (d.boundaries.takeWhile (scanPred d v)).length with hn
  have hlen := tw_length_le (scanPred d v) d.boundaries
  have hj1 : j + 1 < d.boundaries.length := by
    by_contra hc
    rw [List.getElem?_eq_none (by omega)] at hhi; cases hhi
  -- j < n: otherwise boundary n ≤ boundary j passes, but the scan stopped at n
  have hjn : j < n := by
    by_contra hc
    have hnl : n < d.boundaries.length := by omega
    have hat := tw_at (scanPred d v) d.boundaries _ (List.getElem?_eq_getElem hnl)
    by_cases hjn' : j = n
    · subst hjn'
      rw [List.getElem?_eq_getElem hnl] at hlo
      cases hlo; rw [h1] at hat; cases hat
    · have hlt := isMonoInc_lt d.boundaries hwf.mono n j (by omega) _ _ (List.getElem?_eq_getElem hnl) hlo
      have := scanPred_anti d v hlt h1
      rw [this] at hat; cases hat
  -- n ≤ j + 1: otherwise index j+1 is before the stop and passes
  have hnj : n ≤ j + 1 := by
    by_contra hc
    have := tw_before (scanPred d v) d.boundaries (j + 1) (by omega) hi hhi
    rw [this] at h2; cases h2
  omega

/-- `digitize` is monotone in the value (stated on the scan predicates). -/
theorem digitize_mono_aux (d : Digitizer) (v w : Val)
    (hgt : ∀ b, v.gtB b = true → w.gtB b = true) (hge : ∀ b, v.geB b = true → w.geB b = true) :
    digitize d v ≤ digitize d w := by
  rw [digitize_eq, digitize_eq]
  have : (d.boundaries.takeWhile (scanPred d v)).length ≤ (d.boundaries.takeWhile (scanPred d w)).length := by
    apply tw_mono
    intro x hx
    unfold scanPred at *
    split
    · rename_i h; simp [h] at hx; exact hgt x hx
    · rename_i h; simp [h] at hx; exact hge x hx
  omega

theorem digitize_sqrt_eq (d : Digitizer) (r : Rat) (hr : 0 ≤ r) :
    digitize d (.sqrt (r * r)) = digitize d (.x (.fin r)) := by
  rw [digitize_eq, digitize_eq]
  congr 2
  apply tw_congr
  intro x
  unfold scanPred
  split
  · exact Val.gtB_sqrt_eq r hr x
  · exact Val.geB_sqrt_eq r hr x

/-! ### `Digitizer.make` with clipping and `from_strings` -/

theorem setHead_length (x : X) (l : List X) : (setHead x l).length = l.length := by
  cases l <;> rfl

theorem setLast_length (x : X) (l : List X) : (setLast x l).length = l.length := by
  induction l with
  | nil => rfl
  | cons a l ih =>
    cases l with
    | nil => rfl
    | cons b r => simp only [setLast, List.length_cons] at *; omega

theorem setHead_zero (x : X) (l : List X) (h : l ≠ []) : (setHead x l)[0]? = some x := by
  cases l with
  | nil => exact absurd rfl h
  | cons a l => rfl

theorem setHead_succ (x : X) (l : List X) (i : Nat) : (setHead x l)[i + 1]? = l[i + 1]? := by
  cases l <;> rfl

theorem setLast_before (x : X) (l : List X) (i : Nat) (h : i + 1 < l.length) : (setLast x l)[i]? = l[i]? := by
  induction l generalizing i with
  | nil => simp at h
  | cons a l ih =>
    cases l with
    | nil => simp at h
    | cons b r =>
      cases i with
      | zero => rfl
      | succ i =>
        simp only [setLast, List.getElem?_cons_succ]
        exact ih i (by simp at h ⊢; omega)

theorem setLast_last (x : X) (l : List X) (h : l ≠ []) : (setLast x l)[l.length - 1]? = some x := by
  induction l with
  | nil => exact absurd rfl h
  | cons a l ih =>
    cases l with
    | nil => rfl
    | cons b r =>
      have := ih (by simp)
      simp only [setLast, List.length_cons] at *
      have e : r.length + 1 + 1 - 1 = (r.length + 1 - 1) + 1 := by omega
      rw [e, List.getElem?_cons_succ]; exact this

/-- Boundaries after clipping both ends. -/
def clipped (bounds : List X) : List X := setLast .pinf (setHead .ninf bounds)

theorem clipped_length (b : List X) : (clipped b).length = b.length := by
  unfold clipped; rw [setLast_length, setHead_length]

theorem clipped_zero (b : List X) (h : 2 ≤ b.length) : (clipped b)[0]? = some .ninf := by
  unfold clipped
  rw [setLast_before _ _ 0 (by rw [setHead_length]; omega)]
  exact setHead_zero _ _ (by intro hb; rw [hb] at h; simp at h)

theorem clipped_last (b : List X) (h : 2 ≤ b.length) : (clipped b)[b.length - 1]? = some .pinf := by
  unfold clipped
  have := setLast_last .pinf (setHead .ninf b) (by intro hb; have := setHead_length .ninf b; rw [hb] at this; simp at this; omega)
  rw [setHead_length] at this; exact this

theorem clipped_mid (b : List X) (k : Nat) (h0 : 0 < k) (h1 : k + 1 < b.length) : (clipped b)[k]? = b[k]? := by
  unfold clipped
  rw [setLast_before _ _ k (by rw [setHead_length]; exact h1)]
  obtain ⟨k', rfl⟩ : ∃ k', k = k' + 1 := ⟨k - 1, by omega⟩
  exact setHead_succ _ _ _

theorem make_clip (bounds : List X) (r : Bool) (d : Digitizer) (h2 : 2 ≤ bounds.length)
    (h : Digitizer.make bounds (true, true) r = some d) :
    d.WF ∧ d.right = r ∧ d.boundaries = clipped bounds := by
  unfold Digitizer.make at h
  cases bounds with
  | nil => simp at h2
  | cons b0 rest =>
    simp only [if_true] at h
    split at h
    · rename_i hm
      cases h
      refine ⟨⟨hm, ?_, ?_⟩, rfl, rfl⟩
      · rw [List.head?_eq_getElem?]; exact clipped_zero _ h2
      · rw [List.getLast?_eq_getElem?]
        have := clipped_last (b0 :: rest) h2
        have hl := clipped_length (b0 :: rest)
        unfold clipped at this hl
        rw [hl]; exact this
    · cases h

/-- Facts about a list of abutting interval labels. -/
theorem abut_get (ivs : List Interval) (h : abut ivs = true) (k : Nat) (a b : Interval)
    (ha : ivs[k]? = some a) (hb : ivs[k + 1]? = some b) : a.hi = b.lo := by
  induction ivs generalizing k with
  | nil => simp at ha
  | cons i0 l ih =>
    cases l with
    | nil => simp at hb
    | cons i1 r =>
      simp only [abut, Bool.and_eq_true, beq_iff_eq] at h
      cases k with
      | zero => simp at ha hb; subst ha; subst hb; exact h.1
      | succ k => simp at ha hb; exact ih h.2 k (by simpa using ha) (by simpa using hb)

/-- The raw boundary list `from_strings` hands to the constructor. -/
def rawBounds (ivs : List Interval) (l : Interval) : List X := ivs.map (·.lo) ++ [l.hi]

theorem rawBounds_length (ivs : List Interval) (l : Interval) : (rawBounds ivs l).length = ivs.length + 1 := by
  simp [rawBounds]

theorem rawBounds_lo (ivs : List Interval) (l : Interval) (k : Nat) (iv : Interval) (h : ivs[k]? = some iv) :
    (rawBounds ivs l)[k]? = some iv.lo := by
  unfold rawBounds
  have hk : k < ivs.length := by
    by_contra hc; rw [List.getElem?_eq_none (by omega)] at h; cases h
  rw [List.getElem?_append_left (by simpa using hk)]
  simp [h]

theorem fromIntervals_some (ivs : List Interval) (d : Digitizer) (h : Digitizer.fromIntervals ivs = some d) :
    ∃ i0 l, ivs.head? = some i0 ∧ ivs.getLast? = some l ∧ abut ivs = true ∧
      d.WF ∧ d.right = i0.right ∧ d.boundaries = clipped (rawBounds ivs l) := by
  unfold Digitizer.fromIntervals at h
  cases ivs with
  | nil => cases h
  | cons i0 rest =>
    simp only at h
    split at h
    · rename_i hc
      simp only [Bool.and_eq_true] at hc
      split at h
      · rename_i l hl
        have := make_clip _ _ _ (by simp) h
        exact ⟨i0, l, rfl, hl, hc.2, this.1, this.2.1, this.2.2⟩
      · cases h
    · cases h

theorem fromIntervals_nbins (ivs : List Interval) (d : Digitizer) (h : Digitizer.fromIntervals ivs = some d) :
    d.nbins = ivs.length := by
  obtain ⟨i0, l, _, _, _, _, _, hb⟩ := fromIntervals_some ivs d h
  unfold Digitizer.nbins
  rw [hb, clipped_length, rawBounds_length]; omega

/-- Lower boundary of bin `k`: `-inf` for the first bin, the declared lower bound otherwise. -/
theorem fromIntervals_lower (ivs : List Interval) (d : Digitizer) (h : Digitizer.fromIntervals ivs = some d)
    (k : Nat) (iv : Interval) (hk : ivs[k]? = some iv) :
    d.boundaries[k]? = some (if k = 0 then .ninf else iv.lo) := by
  obtain ⟨i0, l, _, _, _, _, _, hb⟩ := fromIntervals_some ivs d h
  have hkl : k < ivs.length := by
    by_contra hc; rw [List.getElem?_eq_none (by omega)] at hk; cases hk
  rw [hb]
  by_cases h0 : k = 0
  · subst h0; simp only [if_true]
    exact clipped_zero _ (by rw [rawBounds_length]; omega)
  · simp only [h0, if_false]
    rw [clipped_mid _ k (by omega) (by rw [rawBounds_length]; omega)]
    exact rawBounds_lo ivs l k iv hk

/-- Upper boundary of bin `k`: `+inf` for the last bin, the declared upper bound otherwise. -/
theorem fromIntervals_upper (ivs : List Interval) (d : Digitizer) (h : Digitizer.fromIntervals ivs = some d)
    (k : Nat) (iv : Interval) (hk : ivs[k]? = some iv) :
    d.boundaries[k + 1]? = some (if k + 1 = ivs.length then .pinf else iv.hi) := by
  obtain ⟨i0, l, _, _, hab, _, _, hb⟩ := fromIntervals_some ivs d h
  have hkl : k < ivs.length := by
    by_contra hc; rw [List.getElem?_eq_none (by omega)] at hk; cases hk
  rw [hb]
  by_cases h1 : k + 1 = ivs.length
  · simp only [h1, if_true]
    have := clipped_last (rawBounds ivs l) (by rw [rawBounds_length]; omega)
    rw [rawBounds_length] at this
    have e : ivs.length + 1 - 1 = ivs.length := by omega
    rw [e] at this; exact this
  · simp only [h1, if_false]
    rw [clipped_mid _ (k + 1) (by omega) (by rw [rawBounds_length]; omega)]
    have hk1 : k + 1 < ivs.length := by omega
    have hnext : ivs[k + 1]? = some ivs[k + 1] := List.getElem?_eq_getElem hk1
    rw [rawBounds_lo ivs l (k + 1) _ hnext, abut_get ivs hab k iv _ hk hnext]

/-- `scanPred` on plain values, spelled out. -/
theorem scanPred_x (d : Digitizer) (v b : X) :
    scanPred d (.x v) b = if d.right then X.lt b v else X.le b v := by
  unfold scanPred; split <;> rfl

/-- **Soundness and completeness of the checker**: bin `i` is accepted for `v` exactly when it is
the bin `digitize` returns. -/
theorem binOK_iff_digitize (ivs : List Interval) (d : Digitizer) (h : Digitizer.fromIntervals ivs = some d)
    (v : X) (hv : v.isFin = true) (i : Int) :
    binOK ivs i v = true ↔ digitize d (.x v) = i := by
  obtain ⟨i0, l, hhead, _, _, hwf, hright, _⟩ := fromIntervals_some ivs d h
  have hn := fromIntervals_nbins ivs d h
  have hfin : (Val.x v).finite = true := hv
  cases ivs with
  | nil => simp at hhead
  | cons j0 rest =>
    simp only [List.head?_cons, Option.some.injEq] at hhead
    subst hhead
    constructor
    · intro hb
      unfold binOK at hb
      simp only [Bool.and_eq_true, decide_eq_true_eq] at hb
      obtain ⟨⟨hi0, hi1⟩, hb⟩ := hb
      obtain ⟨k, rfl⟩ : ∃ k : Nat, i = k := ⟨i.toNat, by omega⟩
      have hk : k < (j0 :: rest).length := by exact_mod_cast hi1
      simp only [Int.toNat_natCast] at hb
      rw [List.getElem?_eq_getElem hk] at hb
      simp only [Bool.and_eq_true, Bool.or_eq_true, beq_iff_eq] at hb
      have hlo := fromIntervals_lower _ d h k _ (List.getElem?_eq_getElem hk)
      have hhi := fromIntervals_upper _ d h k _ (List.getElem?_eq_getElem hk)
      apply digitize_unique_aux d hwf (.x v) k _ _ hlo hhi
      · by_cases hk0 : k = 0
        · simp only [hk0, if_true]; exact scanPred_ninf d _ hfin
        · simp only [hk0, if_false]
          rw [scanPred_x, hright]
          rcases hb.1 with h0 | h0
          · exact absurd (by exact_mod_cast h0) hk0
          · exact h0
      · by_cases hk1 : k + 1 = (j0 :: rest).length
        · simp only [hk1, if_true]; exact scanPred_pinf d _ hfin
        · simp only [hk1, if_false]
          rw [scanPred_x, hright]
          rcases hb.2 with h1 | h1
          · exact absurd (by exact_mod_cast h1) hk1
          · revert h1; cases j0.right <;> simp [X.le]
    · intro hd
      obtain ⟨k, lo, hi, hk, hkn, hlo, hhi, h1, h2⟩ := digitize_spec_aux d hwf (.x v) hfin
      rw [hd] at hk; subst hk
      rw [hn] at hkn
      have hlo' := fromIntervals_lower _ d h k _ (List.getElem?_eq_getElem hkn)
      have hhi' := fromIntervals_upper _ d h k _ (List.getElem?_eq_getElem hkn)
      rw [hlo] at hlo'; rw [hhi] at hhi'
      cases hlo'; cases hhi'
      unfold binOK
      simp only [Bool.and_eq_true, decide_eq_true_eq, Int.toNat_natCast, List.getElem?_eq_getElem hkn,
        Bool.or_eq_true, beq_iff_eq]
      refine ⟨⟨by omega, by exact_mod_cast hkn⟩, ?_, ?_⟩
      · by_cases hk0 : k = 0
        · left; exact_mod_cast hk0
        · right
          simp only [hk0, if_false] at h1
          rw [scanPred_x, hright] at h1; exact h1
      · by_cases hk1 : k + 1 = (j0 :: rest).length
        · left; exact_mod_cast hk1
        · right
          simp only [hk1, if_false] at h2
          rw [scanPred_x, hright] at h2
          revert h2; cases j0.right <;> simp [X.le]

/-! ### `allSome` / `sumOpt` -/

theorem allSome_map_some {α} (l : List α) : allSome (l.map some) = some l := by
  induction l with
  | nil => rfl
  | cons a l ih => simp [allSome, ih]

theorem allSome_eq_some {α} (l : List (Option α)) (r : List α) (h : allSome l = some r) : l = r.map some := by
  induction l generalizing r with
  | nil => simp [allSome] at h; subst h; rfl
  | cons a l ih =>
    cases a with
    | none => simp [allSome] at h
    | some a =>
      simp only [allSome, Option.map_eq_some_iff] at h
      obtain ⟨r', hr', rfl⟩ := h
      simp [ih r' hr']

theorem allSome_length {α} (l : List (Option α)) (r : List α) (h : allSome l = some r) : r.length = l.length := by
  rw [allSome_eq_some l r h]; simp

theorem allSome_get {α β} (l : List α) (g : α → Option β) (r : List β) (h : allSome (l.map g) = some r)
    (i : Nat) (hi : i < l.length) : ∃ hr : i < r.length, g l[i] = some r[i] := by
  have hl := allSome_length _ _ h
  have he := allSome_eq_some _ _ h
  simp at hl
  refine ⟨by omega, ?_⟩
  have : (l.map g)[i]? = (r.map some)[i]? := by rw [he]
  simp [List.getElem?_eq_getElem hi, List.getElem?_eq_getElem (show i < r.length by omega)] at this
  exact this

theorem allSome_congr {α β} (l : List α) (f g : α → Option β) (h : ∀ x ∈ l, f x = g x) :
    allSome (l.map f) = allSome (l.map g) := by
  rw [List.map_congr_left h]

theorem sumOpt_congr {α} (l : List α) (f g : α → Option Rat) (h : ∀ x ∈ l, f x = g x) :
    sumOpt (l.map f) = sumOpt (l.map g) := by
  rw [List.map_congr_left h]

theorem sumOpt_const {α} (l : List α) (c : Rat) : sumOpt (l.map fun _ => some c) = some ((l.length : Rat) * c) := by
  induction l with
  | nil => simp [sumOpt]
  | cons a l ih =>
    simp only [List.map_cons, sumOpt, ih, Option.map_some, List.length_cons]
    congr 1; push_cast; ring

theorem sumOpt_le_const {α} (l : List α) (f : α → Option Rat) (M s : Rat)
    (hb : ∀ x ∈ l, ∀ c, f x = some c → c ≤ M) (h : sumOpt (l.map f) = some s) : s ≤ (l.length : Rat) * M := by
  induction l generalizing s with
  | nil => simp [sumOpt] at h; subst h; simp
  | cons a l ih =>
    simp only [List.map_cons] at h
    cases hfa : f a with
    | none => rw [hfa] at h; simp [sumOpt] at h
    | some c =>
      rw [hfa] at h
      simp only [sumOpt, Option.map_eq_some_iff] at h
      obtain ⟨s', hs', rfl⟩ := h
      have h1 := ih s' (fun x hx c hc => hb x (by simp [hx]) c hc) hs'
      have h2 := hb a (by simp) c hfa
      simp only [List.length_cons]; push_cast; linarith

theorem sumOpt_le_sumOpt {α} (l : List α) (f g : α → Option Rat) (s s' : Rat)
    (hb : ∀ x ∈ l, ∀ a b, f x = some a → g x = some b → a ≤ b)
    (h : sumOpt (l.map f) = some s) (h' : sumOpt (l.map g) = some s') : s ≤ s' := by
  induction l generalizing s s' with
  | nil => simp [sumOpt] at h h'; subst h; subst h'; exact le_refl _
  | cons a l ih =>
    simp only [List.map_cons] at h h'
    cases hfa : f a with
    | none => rw [hfa] at h; simp [sumOpt] at h
    | some c =>
      cases hga : g a with
      | none => rw [hga] at h'; simp [sumOpt] at h'
      | some c' =>
        rw [hfa] at h; rw [hga] at h'
        simp only [sumOpt, Option.map_eq_some_iff] at h h'
        obtain ⟨t, ht, rfl⟩ := h
        obtain ⟨t', ht', rfl⟩ := h'
        have h1 := ih t t' (fun x hx a b ha hb' => hb x (by simp [hx]) a b ha hb') ht ht'
        have h2 := hb a (by simp) c c' hfa hga
        linarith

theorem sumOpt_none_of_mem {α} (l : List α) (f : α → Option Rat) (x : α) (hx : x ∈ l) (hf : f x = none) :
    sumOpt (l.map f) = none := by
  induction l with
  | nil => simp at hx
  | cons a l ih =>
    simp only [List.map_cons]
    simp only [List.mem_cons] at hx
    rcases hx with rfl | hx
    · rw [hf]; rfl
    · cases f a with
      | none => rfl
      | some c => simp [sumOpt, ih hx]

theorem sumOpt_pos {α} (l : List α) (g : α → Option Rat) (s : Rat) (hne : l ≠ [])
    (hp : ∀ x ∈ l, ∀ b, g x = some b → 0 < b) (h : sumOpt (l.map g) = some s) : 0 < s := by
  induction l generalizing s with
  | nil => exact absurd rfl hne
  | cons a l ih =>
    simp only [List.map_cons] at h
    cases hga : g a with
    | none => rw [hga] at h; simp [sumOpt] at h
    | some c =>
      rw [hga] at h
      simp only [sumOpt, Option.map_eq_some_iff] at h
      obtain ⟨t, ht, rfl⟩ := h
      have hc := hp a (by simp) c hga
      by_cases hl : l = []
      · subst hl; simp [sumOpt] at ht; subst ht; linarith
      · have := ih t hl (fun x hx b hb => hp x (by simp [hx]) b hb) ht
        linarith

/-- Summing over the matches is summing over the query's points. -/
theorem allSome_bind_sumOpt {α β} (l : List α) (g : α → Option β) (h : β → Option Rat) :
    (allSome (l.map g)).bind (fun r => sumOpt (r.map h)) = sumOpt (l.map fun x => (g x).bind h) := by
  induction l with
  | nil => rfl
  | cons a l ih =>
    simp only [List.map_cons]
    cases hga : g a with
    | none => simp [allSome, sumOpt]
    | some y =>
      simp only [allSome, Option.bind_some]
      cases hy : h y with
      | none =>
        simp only [sumOpt]
        cases allSome (l.map g) <;> simp [sumOpt, hy]
      | some c =>
        simp only [sumOpt, ← ih]
        cases allSome (l.map g) <;> simp [sumOpt, hy]

theorem pairRaw_eq (fn : ScoreFn) (cfg : Cfg) (q t : Cloud) :
    pairRaw fn cfg q t = sumOpt (q.map fun p => (matchPoint t cfg.bound p).bind (pointScore fn cfg.useAlpha)) := by
  unfold pairRaw distDots rawScore
  rw [← allSome_bind_sumOpt]
  cases allSome (q.map (matchPoint t cfg.bound)) <;> rfl

/-! ### Nearest neighbour -/

theorem V3.d2_nonneg (a b : V3) : 0 ≤ a.d2 b := by
  unfold V3.d2 V3.dot V3.sub
  simp only
  nlinarith [mul_self_nonneg (a.x - b.x), mul_self_nonneg (a.y - b.y), mul_self_nonneg (a.z - b.z)]

theorem V3.d2_self (a : V3) : a.d2 a = 0 := by
  unfold V3.d2 V3.dot V3.sub; simp

theorem V3.eq_of_d2_zero (a b : V3) (h : a.d2 b = 0) : a = b := by
  unfold V3.d2 V3.dot V3.sub at h
  simp only at h
  have hx : (a.x - b.x) * (a.x - b.x) = 0 := by
    nlinarith [mul_self_nonneg (a.x - b.x), mul_self_nonneg (a.y - b.y), mul_self_nonneg (a.z - b.z)]
  have hy : (a.y - b.y) * (a.y - b.y) = 0 := by
    nlinarith [mul_self_nonneg (a.x - b.x), mul_self_nonneg (a.y - b.y), mul_self_nonneg (a.z - b.z)]
  have hz : (a.z - b.z) * (a.z - b.z) = 0 := by
    nlinarith [mul_self_nonneg (a.x - b.x), mul_self_nonneg (a.y - b.y), mul_self_nonneg (a.z - b.z)]
  have ex : a.x = b.x := by have := mul_self_eq_zero.mp hx; linarith
  have ey : a.y = b.y := by have := mul_self_eq_zero.mp hy; linarith
  have ez : a.z = b.z := by have := mul_self_eq_zero.mp hz; linarith
  cases a; cases b; simp_all

/-- The scan returns either the incoming best or a later element's index and squared distance; its
distance is minimal over the incoming best and the scanned elements. -/
theorem nearestAux_spec (p : V3) (l : List Pt) (i : Nat) (best : Nat × Rat) :
    ((nearestAux p l i best = best) ∨
      ∃ k, ∃ h : k < l.length, nearestAux p l i best = (i + k, p.d2 l[k].p)) ∧
    (nearestAux p l i best).2 ≤ best.2 ∧ ∀ x ∈ l, (nearestAux p l i best).2 ≤ p.d2 x.p := by
  induction l generalizing i best with
  | nil => simp [nearestAux]
  | cons t r ih =>
    simp only [nearestAux]
    by_cases hd : p.d2 t.p < best.2
    · simp only [hd, if_true]
      obtain ⟨h1, h2, h3⟩ := ih (i + 1) (i, p.d2 t.p)
      refine ⟨Or.inr ?_, ?_, ?_⟩
      · rcases h1 with h1 | ⟨k, hk, h1⟩
        · exact ⟨0, by simp, by simp [h1]⟩
        · exact ⟨k + 1, by simp; omega, by rw [h1]; simp; omega⟩
      · exact le_trans h2 (le_of_lt hd)
      · intro x hx
        simp only [List.mem_cons] at hx
        rcases hx with rfl | hx
        · exact h2
        · exact h3 x hx
    · simp only [hd, if_false]
      obtain ⟨h1, h2, h3⟩ := ih (i + 1) best
      refine ⟨?_, h2, ?_⟩
      · rcases h1 with h1 | ⟨k, hk, h1⟩
        · exact Or.inl h1
        · exact Or.inr ⟨k + 1, by simp; omega, by rw [h1]; simp; omega⟩
      · intro x hx
        simp only [List.mem_cons] at hx
        rcases hx with rfl | hx
        · exact le_trans h2 (not_lt.mp hd)
        · exact h3 x hx

theorem nearest_spec (t : Cloud) (p : V3) (j : Nat) (d : Rat) (h : nearest t p = some (j, d)) :
    ∃ hj : j < t.length, d = p.d2 t[j].p ∧ ∀ x ∈ t, d ≤ p.d2 x.p := by
  cases t with
  | nil => simp [nearest] at h
  | cons t0 r =>
    simp only [nearest, Option.some.injEq] at h
    obtain ⟨h1, h2, h3⟩ := nearestAux_spec p r 1 (0, p.d2 t0.p)
    rw [h] at h1 h2 h3
    simp only at h2 h3
    rcases h1 with h1 | ⟨k, hk, h1⟩
    · simp only [Prod.mk.injEq] at h1
      obtain ⟨rfl, rfl⟩ := h1
      refine ⟨by simp, by simp, ?_⟩
      intro x hx
      simp only [List.mem_cons] at hx
      rcases hx with rfl | hx
      · exact le_refl _
      · exact h3 x hx
    · simp only [Prod.mk.injEq] at h1
      obtain ⟨rfl, rfl⟩ := h1
      refine ⟨by simp; omega, ?_, ?_⟩
      · have : (t0 :: r)[1 + k]'(by simp; omega) = r[k] := by
          have e : 1 + k = k + 1 := by omega
          simp [e]
        rw [this]
      · intro x hx
        simp only [List.mem_cons] at hx
        rcases hx with rfl | hx
        · exact h2
        · exact h3 x hx

theorem nearest_isSome (t : Cloud) (p : V3) (h : t ≠ []) : ∃ j d, nearest t p = some (j, d) := by
  cases t with
  | nil => exact absurd rfl h
  | cons t0 r => exact ⟨_, _, rfl⟩

theorem nodup_map_inj {α β} (f : α → β) (l : List α) (h : (l.map f).Nodup) (a b : α) (ha : a ∈ l) (hb : b ∈ l)
    (hf : f a = f b) : a = b := by
  induction l with
  | nil => simp at ha
  | cons x l ih =>
    simp only [List.map_cons, List.nodup_cons, List.mem_map, not_exists, not_and] at h
    simp only [List.mem_cons] at ha hb
    rcases ha with rfl | ha <;> rcases hb with rfl | hb
    · rfl
    · exact absurd hf.symm (h.1 b hb)
    · exact absurd hf (h.1 a ha)
    · exact ih h.2 ha hb

/-- A point of a cloud with pairwise distinct positions is its own nearest neighbour, at distance 0. -/
theorem nearest_self (c : Cloud) (hnd : (c.map (·.p)).Nodup) (p : Pt) (hp : p ∈ c) :
    ∃ j, ∃ hj : j < c.length, nearest c p.p = some (j, 0) ∧ c[j] = p := by
  obtain ⟨j, d, hjd⟩ := nearest_isSome c p.p (by intro h; rw [h] at hp; simp at hp)
  obtain ⟨hj, hd, hmin⟩ := nearest_spec c p.p j d hjd
  have h0 : d ≤ 0 := by have := hmin p hp; rwa [V3.d2_self] at this
  have h1 : 0 ≤ d := by rw [hd]; exact V3.d2_nonneg _ _
  have hz : d = 0 := le_antisymm h0 h1
  have hpos : p.p = c[j].p := V3.eq_of_d2_zero _ _ (by rw [← hd]; exact hz)
  have : c[j] = p := nodup_map_inj (·.p) c hnd _ _ (List.getElem_mem hj) hp hpos.symm
  exact ⟨j, hj, by rw [hjd, hz], this⟩

theorem absR_one : absR 1 = 1 := by unfold absR; simp

/-- Matching a cloud against itself: every point finds itself (`distance_upper_bound`, if any, is
non-zero after `effBound`, so distance 0 is always a hit). -/
theorem matchPoint_self (c : Cloud) (hnd : (c.map (·.p)).Nodup) (bound : Option Rat) (p : Pt) (hp : p ∈ c) :
    ∃ j, matchPoint c bound p = some ⟨0, absR (p.v.dot p.v), p.a * p.a, true, j⟩ := by
  obtain ⟨j, hj, hn, hc⟩ := nearest_self c hnd p hp
  refine ⟨j, ?_⟩
  unfold matchPoint
  rw [hn]
  have hget : c.getD j default = p := by
    rw [List.getD_eq_getElem?_getD, List.getElem?_eq_getElem hj]; simpa using hc
  simp only [hget]
  cases hb : effBound bound with
  | none => rfl
  | some b =>
    simp only
    have hb0 : b ≠ 0 := by
      unfold effBound at hb
      cases bound with
      | none => simp at hb
      | some b' =>
        simp only at hb
        split at hb
        · cases hb
        · cases hb; assumption
    have : (0 : Rat) < b * b := by
      rcases lt_or_gt_of_ne hb0 with h | h <;> nlinarith
    simp [this]

/-! ### Self score -/

theorem pairRaw_self (fn : ScoreFn) (cfg : Cfg) (c : Cloud) (hnd : (c.map (·.p)).Nodup)
    (hunit : ∀ p ∈ c, p.v.dot p.v = 1) :
    pairRaw fn cfg c c = sumOpt (c.map fun p => fn (.sqrt 0) (if cfg.useAlpha then .sqrt (p.a * p.a) else .x (.fin 1))) := by
  rw [pairRaw_eq]
  apply sumOpt_congr
  intro p hp
  obtain ⟨j, hj⟩ := matchPoint_self c hnd cfg.bound p hp
  rw [hj, hunit p hp, absR_one]
  simp only [Option.bind_some, pointScore, matchArgs]
  cases cfg.useAlpha <;> simp

theorem pairRaw_self_eq_selfHit (fn : ScoreFn) (cfg : Cfg) (c : Cloud) (hnd : (c.map (·.p)).Nodup)
    (hunit : ∀ p ∈ c, p.v.dot p.v = 1) (sh : Rat) (hsh : selfHit fn cfg.useAlpha c = some sh) :
    pairRaw fn cfg c c = some sh := by
  rw [pairRaw_self fn cfg c hnd hunit]
  unfold selfHit at hsh
  cases hua : cfg.useAlpha with
  | true => rw [hua] at hsh; simpa using hsh
  | false =>
    rw [hua] at hsh
    simp only [Bool.false_eq_true, if_false, Option.map_eq_some_iff] at hsh ⊢
    obtain ⟨c0, hc0, rfl⟩ := hsh
    rw [hc0]
    exact sumOpt_const c c0

theorem defForward_self_norm (fn : ScoreFn) (cfg : Cfg) (c : Cloud) (hn : cfg.normalized = true)
    (hnd : (c.map (·.p)).Nodup) (hunit : ∀ p ∈ c, p.v.dot p.v = 1) (sh : Rat)
    (hsh : selfHit fn cfg.useAlpha c = some sh) (hne : sh ≠ 0) : defForward fn cfg c c = some 1 := by
  unfold defForward
  rw [pairRaw_self_eq_selfHit fn cfg c hnd hunit sh hsh, hsh]
  simp [hn, normalise, hne]

theorem defForward_self_raw (fn : ScoreFn) (cfg : Cfg) (c : Cloud) (hn : cfg.normalized = false)
    (hnd : (c.map (·.p)).Nodup) (hunit : ∀ p ∈ c, p.v.dot p.v = 1) (sh : Rat)
    (hsh : selfHit fn cfg.useAlpha c = some sh) : defForward fn cfg c c = some sh := by
  unfold defForward
  rw [pairRaw_self_eq_selfHit fn cfg c hnd hunit sh hsh]
  simp [hn]

/-! ### The blaster machinery computes the definition -/

theorem forward_eq_def (fn : ScoreFn) (cfg : Cfg) (nb : Blaster) (qi ti : Nat) (qn tn : Dotprops) (sh : Rat)
    (hne : qi ≠ ti) (hq : nb.neurons[qi]? = some qn) (ht : nb.neurons[ti]? = some tn)
    (hs : nb.selfHits[qi]? = some sh) (hsh : selfHit fn cfg.useAlpha qn.pts = some sh) :
    forward fn cfg nb qi ti = defForward fn cfg qn.pts tn.pts := by
  unfold forward defForward
  simp only [hne, if_false, hq, ht, hs, hsh]

theorem sqt_eq_def (fn : ScoreFn) (cfg : Cfg) (nb : Blaster) (qi ti : Nat) (qn tn : Dotprops) (shq sht : Rat)
    (hne : qi ≠ ti) (hq : nb.neurons[qi]? = some qn) (ht : nb.neurons[ti]? = some tn)
    (hsq : nb.selfHits[qi]? = some shq) (hshq : selfHit fn cfg.useAlpha qn.pts = some shq)
    (hst : nb.selfHits[ti]? = some sht) (hsht : selfHit fn cfg.useAlpha tn.pts = some sht) (mode : Mode) :
    singleQueryTarget fn cfg nb qi ti mode = defScore fn cfg qn.pts tn.pts mode := by
  unfold singleQueryTarget defScore
  rw [forward_eq_def fn cfg nb qi ti qn tn shq hne hq ht hsq hshq,
      forward_eq_def fn cfg nb ti qi tn qn sht (Ne.symm hne) ht hq hst hsht]
  simp only [hne, if_false]

theorem range_map_eq {α β} (l : List α) (g : Nat → β) (h : α → β) (H : ∀ i (hi : i < l.length), g i = h l[i]) :
    (List.range l.length).map g = l.map h := by
  apply List.ext_getElem
  · simp
  · intro i h1 h2
    simp at h1
    simp [H i h1]

/-- Two blasters that agree on the scores and ids addressed by the index lists assemble the same frame. -/
theorem mqt_congr (fn : ScoreFn) (cfg : Cfg) (nb nb' : Blaster) (qix tix : List Nat) (σ : Nat → Nat) (mode : Mode)
    (hs : ∀ i ∈ qix, ∀ j ∈ tix, singleQueryTarget fn cfg nb i j mode = singleQueryTarget fn cfg nb' i (σ j) mode)
    (hq : ∀ i ∈ qix, idAt nb i = idAt nb' i) (ht : ∀ j ∈ tix, idAt nb j = idAt nb' (σ j)) :
    multiQueryTarget fn cfg nb qix tix mode = multiQueryTarget fn cfg nb' qix (tix.map σ) mode := by
  unfold multiQueryTarget
  have e1 : (qix.map fun q => allSome (tix.map fun t => singleQueryTarget fn cfg nb q t mode)) =
      (qix.map fun q => allSome ((tix.map σ).map fun t => singleQueryTarget fn cfg nb' q t mode)) := by
    apply List.map_congr_left
    intro i hi
    rw [List.map_map]
    congr 1
    apply List.map_congr_left
    intro j hj
    exact hs i hi j hj
  have e2 : (qix.map fun q => (idAt nb q, "")) = (qix.map fun q => (idAt nb' q, "")) :=
    List.map_congr_left (fun i hi => by rw [hq i hi])
  have e3 : (qix.map fun q => [(idAt nb q, "forward"), (idAt nb q, "reverse")]) =
      (qix.map fun q => [(idAt nb' q, "forward"), (idAt nb' q, "reverse")]) :=
    List.map_congr_left (fun i hi => by rw [hq i hi])
  have e4 : tix.map (idAt nb) = (tix.map σ).map (idAt nb') := by
    rw [List.map_map]; exact List.map_congr_left (fun j hj => ht j hj)
  rw [e1, e2, e3, e4]

/-- `multi_query_target` over all of `q` against all of `t`, when every addressed cell is the
definition's score, is the definition's frame. -/
theorem mqt_eq_def (fn : ScoreFn) (cfg : Cfg) (nb : Blaster) (q t : List Dotprops) (σ : Nat → Nat) (mode : Mode)
    (hs : ∀ i (hi : i < q.length) j (hj : j < t.length),
      singleQueryTarget fn cfg nb i (σ j) mode = defScore fn cfg q[i].pts t[j].pts mode)
    (hq : ∀ i (hi : i < q.length), idAt nb i = q[i].id) (ht : ∀ j (hj : j < t.length), idAt nb (σ j) = t[j].id) :
    multiQueryTarget fn cfg nb (List.range q.length) ((List.range t.length).map σ) mode = defNblast fn cfg q t mode := by
  unfold multiQueryTarget defNblast
  have e1 : ((List.range q.length).map fun qi => allSome (((List.range t.length).map σ).map fun ti =>
        singleQueryTarget fn cfg nb qi ti mode)) =
      (q.map fun qn => allSome (t.map fun tn => defScore fn cfg qn.pts tn.pts mode)) := by
    apply range_map_eq
    intro i hi
    rw [List.map_map]
    congr 1
    apply range_map_eq
    intro j hj
    exact hs i hi j hj
  have e2 : ((List.range q.length).map fun qi => (idAt nb qi, "")) = (q.map (·.id)).map fun i => (i, "") := by
    rw [List.map_map]; exact range_map_eq q _ _ (fun i hi => by simp [hq i hi])
  have e3 : ((List.range q.length).map fun qi => [(idAt nb qi, "forward"), (idAt nb qi, "reverse")]) =
      (q.map (·.id)).map fun i => [(i, "forward"), (i, "reverse")] := by
    rw [List.map_map]; exact range_map_eq q _ _ (fun i hi => by simp [hq i hi])
  have e4 : ((List.range t.length).map σ).map (idAt nb) = t.map (·.id) := by
    rw [List.map_map]; exact range_map_eq t _ _ (fun j hj => by simp [ht j hj])
  rw [e1, e2, e3, e4]
  cases allSome (q.map fun qn => allSome (t.map fun tn => defScore fn cfg qn.pts tn.pts mode)) with
  | none => rfl
  | some res =>
    simp only [Option.map_some, mkFrame]
    split <;> rfl

theorem idAt_eq (nb : Blaster) (i : Nat) (n : Dotprops) (h : nb.neurons[i]? = some n) : idAt nb i = n.id := by
  simp [idAt, h]

theorem nblast_eq_def (fn : ScoreFn) (cfg : Cfg) (q t : List Dotprops) (mode : Mode) (qs ts : List Rat)
    (hq : allSome (q.map fun n => selfHit fn cfg.useAlpha n.pts) = some qs)
    (ht : allSome (t.map fun n => selfHit fn cfg.useAlpha n.pts) = some ts) :
    nblast fn cfg q t mode = defNblast fn cfg q t mode := by
  unfold nblast
  rw [hq, ht]
  simp only
  have hql := allSome_length _ _ hq
  have htl := allSome_length _ _ ht
  simp only [List.length_map] at hql htl
  have nq : ∀ i (hi : i < q.length), (q ++ t)[i]? = some q[i] := fun i hi => by
    rw [List.getElem?_append_left hi, List.getElem?_eq_getElem hi]
  have nt : ∀ j (hj : j < t.length), (q ++ t)[j + q.length]? = some t[j] := fun j hj => by
    rw [List.getElem?_append_right (by omega)]
    simp [List.getElem?_eq_getElem hj]
  have sq : ∀ i (hi : i < q.length), ∃ h : i < qs.length, (qs ++ ts)[i]? = some qs[i] ∧
      selfHit fn cfg.useAlpha q[i].pts = some qs[i] := fun i hi => by
    obtain ⟨h, hh⟩ := allSome_get q _ qs hq i hi
    exact ⟨h, by rw [List.getElem?_append_left h, List.getElem?_eq_getElem h], hh⟩
  have st : ∀ j (hj : j < t.length), ∃ h : j < ts.length, (qs ++ ts)[j + q.length]? = some ts[j] ∧
      selfHit fn cfg.useAlpha t[j].pts = some ts[j] := fun j hj => by
    obtain ⟨h, hh⟩ := allSome_get t _ ts ht j hj
    refine ⟨h, ?_, hh⟩
    rw [List.getElem?_append_right (by omega)]
    simp [hql, List.getElem?_eq_getElem h]
  apply mqt_eq_def fn cfg ⟨q ++ t, qs ++ ts⟩ q t (· + q.length) mode
  · intro i hi j hj
    obtain ⟨_, h1, h2⟩ := sq i hi
    obtain ⟨_, h3, h4⟩ := st j hj
    exact sqt_eq_def fn cfg _ i (j + q.length) q[i] t[j] _ _ (by omega) (nq i hi) (nt j hj) h1 h2 h3 h4 mode
  · intro i hi; exact idAt_eq _ _ _ (nq i hi)
  · intro j hj; exact idAt_eq _ _ _ (nt j hj)

/-! ### All-by-all equals query-against-itself -/

theorem sqt_diag (fn : ScoreFn) (cfg : Cfg) (nb : Blaster) (i : Nat) (mode : Mode) :
    singleQueryTarget fn cfg nb i i mode = (if cfg.normalized then some 1 else nb.selfHits[i]?).map .one := by
  unfold singleQueryTarget forward; simp

theorem defScore_forward (fn : ScoreFn) (cfg : Cfg) (q t : Cloud) :
    defScore fn cfg q t .forward = (defForward fn cfg q t).map .one := by
  unfold defScore; cases defForward fn cfg q t <;> rfl

theorem allbyall_eq_nblast_self (fn : ScoreFn) (cfg : Cfg) (x : List Dotprops) (hs : List Rat)
    (hh : allSome (x.map fun n => selfHit fn cfg.useAlpha n.pts) = some hs)
    (hnd : ∀ n ∈ x, (n.pts.map (·.p)).Nodup) (hunit : ∀ n ∈ x, ∀ p ∈ n.pts, p.v.dot p.v = 1)
    (hne : cfg.normalized = true → ∀ sh ∈ hs, sh ≠ 0) :
    nblastAllByAll fn cfg x = nblast fn cfg x x .forward := by
  unfold nblastAllByAll nblast
  rw [hh]
  simp only
  have hl := allSome_length _ _ hh
  simp only [List.length_map] at hl
  have g1 : ∀ i (hi : i < x.length), ∃ h : i < hs.length, selfHit fn cfg.useAlpha x[i].pts = some hs[i] :=
    fun i hi => allSome_get x _ hs hh i hi
  apply mqt_congr fn cfg ⟨x, hs⟩ ⟨x ++ x, hs ++ hs⟩ (List.range x.length) (List.range x.length) (· + x.length) .forward
  · intro i hi j hj
    simp only [List.mem_range] at hi hj
    obtain ⟨hi', hsi⟩ := g1 i hi
    obtain ⟨hj', hsj⟩ := g1 j hj
    have nqi : (x ++ x)[i]? = some x[i] := by rw [List.getElem?_append_left hi, List.getElem?_eq_getElem hi]
    have ntj : (x ++ x)[j + x.length]? = some x[j] := by
      rw [List.getElem?_append_right (by omega)]; simp [List.getElem?_eq_getElem hj]
    have sqi : (hs ++ hs)[i]? = some hs[i] := by rw [List.getElem?_append_left hi', List.getElem?_eq_getElem hi']
    have stj : (hs ++ hs)[j + x.length]? = some hs[j] := by
      rw [List.getElem?_append_right (by omega)]; simp [hl, List.getElem?_eq_getElem hj']
    rw [sqt_eq_def fn cfg ⟨x ++ x, hs ++ hs⟩ i (j + x.length) x[i] x[j] hs[i] hs[j] (by omega) nqi ntj sqi hsi stj hsj]
    by_cases hij : i = j
    · subst hij
      rw [sqt_diag, defScore_forward]
      simp only [List.getElem?_eq_getElem hi']
      have hmem : x[i] ∈ x := List.getElem_mem hi
      cases hn : cfg.normalized with
      | true =>
        rw [defForward_self_norm fn cfg _ hn (hnd _ hmem) (hunit _ hmem) hs[i] hsi
          (hne hn _ (List.getElem_mem hi'))]
        rfl
      | false =>
        rw [defForward_self_raw fn cfg _ hn (hnd _ hmem) (hunit _ hmem) hs[i] hsi]
        rfl
    · exact sqt_eq_def fn cfg ⟨x, hs⟩ i j x[i] x[j] hs[i] hs[j] hij
        (List.getElem?_eq_getElem hi) (List.getElem?_eq_getElem hj)
        (List.getElem?_eq_getElem hi') hsi (List.getElem?_eq_getElem hj') hsj .forward
  · intro i hi
    simp only [List.mem_range] at hi
    rw [idAt_eq ⟨x, hs⟩ i x[i] (List.getElem?_eq_getElem hi),
        idAt_eq ⟨x ++ x, hs ++ hs⟩ i x[i] (by rw [List.getElem?_append_left hi, List.getElem?_eq_getElem hi])]
  · intro j hj
    simp only [List.mem_range] at hj
    rw [idAt_eq ⟨x, hs⟩ j x[j] (List.getElem?_eq_getElem hj),
        idAt_eq ⟨x ++ x, hs ++ hs⟩ (j + x.length) x[j] (by
          rw [List.getElem?_append_right (by omega)]; simp [List.getElem?_eq_getElem hj])]

/-! ### Upper bounds from table facts -/

theorem cell_mem (t : Lookup2d) (i j : Int) (c : Rat) (h : t.cell i j = some c) : ∃ row ∈ t.cells, c ∈ row := by
  unfold Lookup2d.cell at h
  split at h
  · rename_i a b _ _
    cases hr : t.cells[a]? with
    | none => rw [hr] at h; simp at h
    | some row =>
      rw [hr] at h
      simp only [Option.bind_some] at h
      exact ⟨row, List.mem_of_getElem? hr, List.mem_of_getElem? h⟩
  · cases h

theorem call_le_of_max (t : Lookup2d) (M : Rat) (hmax : ∀ row ∈ t.cells, ∀ c ∈ row, c ≤ M)
    (d v : Val) (c : Rat) (h : t.call d v = some c) : c ≤ M := by
  obtain ⟨row, hr, hc⟩ := cell_mem t _ _ c h
  exact hmax row hr c hc

theorem fromDataframe_cells (rows cols : List Interval) (cells : List (List Rat)) (t : Lookup2d)
    (h : Lookup2d.fromDataframe rows cols cells = some t) :
    t.cells = cells ∧ Digitizer.fromIntervals rows = some t.ax0 ∧ Digitizer.fromIntervals cols = some t.ax1 := by
  unfold Lookup2d.fromDataframe at h
  split at h
  · rename_i a0 a1 h0 h1
    unfold Lookup2d.make at h
    split at h
    · cases h; exact ⟨rfl, h0, h1⟩
    · cases h
  · cases h

/-- Without alpha: if the self-match cell `M = table(0, 1.0)` is positive and maximal, the normalised
forward score is at most 1. -/
theorem defForward_le_one_of_max (t : Lookup2d) (M : Rat) (hmax : ∀ row ∈ t.cells, ∀ c ∈ row, c ≤ M)
    (hself : t.call (.sqrt 0) (.x (.fin 1)) = some M) (hM : 0 < M)
    (cfg : Cfg) (hua : cfg.useAlpha = false) (hn : cfg.normalized = true) (q tt : Cloud) (s : Rat)
    (h : defForward t.call cfg q tt = some s) : s ≤ 1 := by
  unfold defForward at h
  cases hp : pairRaw t.call cfg q tt with
  | none => rw [hp] at h; cases h
  | some scr =>
    rw [hp] at h
    simp only [hn, if_true] at h
    have hsh : selfHit t.call cfg.useAlpha q = some ((q.length : Rat) * M) := by
      unfold selfHit; simp [hua, hself]
    rw [hsh] at h
    simp only [normalise] at h
    split at h
    · cases h
    · rename_i hne
      simp only [Option.some.injEq] at h
      subst h
      have hN : 0 < (q.length : Rat) * M := by
        have : 0 ≤ (q.length : Rat) * M := mul_nonneg (by exact_mod_cast Nat.zero_le _) (le_of_lt hM)
        exact lt_of_le_of_ne this (Ne.symm hne)
      rw [div_le_one₀ hN]
      rw [pairRaw_eq] at hp
      apply sumOpt_le_const q _ M scr _ hp
      intro p _ c hc
      cases hm : matchPoint tt cfg.bound p with
      | none => rw [hm] at hc; cases hc
      | some m =>
        rw [hm] at hc
        exact call_le_of_max t M hmax _ _ c hc

theorem pyMin_le (a b c : Rat) (ha : a ≤ c) (hb : b ≤ c) : pyMin a b ≤ c := by
  unfold pyMin; split <;> assumption

theorem pyMax_le (a b c : Rat) (ha : a ≤ c) (hb : b ≤ c) : pyMax a b ≤ c := by
  unfold pyMax; split <;> assumption

/-- Every mode combines two scores `≤ 1` into scores `≤ 1`. -/
theorem defScore_le_one (fn : ScoreFn) (cfg : Cfg) (q t : Cloud)
    (hf : ∀ s, defForward fn cfg q t = some s → s ≤ 1) (hr : ∀ s, defForward fn cfg t q = some s → s ≤ 1)
    (mode : Mode) (sc : Score) (h : defScore fn cfg q t mode = some sc) : sc.fwd ≤ 1 ∧ sc.rev ≤ 1 := by
  unfold defScore at h
  cases hF : defForward fn cfg q t with
  | none => rw [hF] at h; cases h
  | some f =>
    rw [hF] at h
    have h1 := hf f hF
    cases mode with
    | forward => simp at h; subst h; exact ⟨h1, h1⟩
    | _ =>
      all_goals
        cases hR : defForward fn cfg t q with
        | none => rw [hR] at h; cases h
        | some r =>
          rw [hR] at h
          have h2 := hr r hR
          simp only [Option.some.injEq] at h
          subst h
          simp only [Score.fwd, Score.rev]
          first
            | exact ⟨h1, h2⟩
            | exact ⟨pyMin_le _ _ _ h1 h2, pyMin_le _ _ _ h1 h2⟩
            | exact ⟨pyMax_le _ _ _ h1 h2, pyMax_le _ _ _ h1 h2⟩
            | (constructor <;> linarith)

theorem allSome_mem {α β} (l : List α) (g : α → Option β) (r : List β) (h : allSome (l.map g) = some r)
    (y : β) (hy : y ∈ r) : ∃ x ∈ l, g x = some y := by
  have he := allSome_eq_some _ _ h
  have : some y ∈ r.map some := List.mem_map.mpr ⟨y, hy, rfl⟩
  rw [← he] at this
  obtain ⟨x, hx, hgx⟩ := List.mem_map.mp this
  exact ⟨x, hx, hgx⟩

/-- Entries of the definition's frame are `fwd`/`rev` components of per-pair scores. -/
theorem defNblast_entries (fn : ScoreFn) (cfg : Cfg) (q t : List Dotprops) (mode : Mode) (f : Frame)
    (h : defNblast fn cfg q t mode = some f) (row : List Rat) (hrow : row ∈ f.vals) (v : Rat) (hv : v ∈ row) :
    ∃ qn ∈ q, ∃ tn ∈ t, ∃ sc, defScore fn cfg qn.pts tn.pts mode = some sc ∧ (v = sc.fwd ∨ v = sc.rev) := by
  unfold defNblast at h
  cases hres : allSome (q.map fun qn => allSome (t.map fun tn => defScore fn cfg qn.pts tn.pts mode)) with
  | none => rw [hres] at h; cases h
  | some res =>
    rw [hres] at h
    simp only [Option.map_some, Option.some.injEq] at h
    subst h
    have key : ∀ srow ∈ res, ∀ sc ∈ srow, ∃ qn ∈ q, ∃ tn ∈ t, defScore fn cfg qn.pts tn.pts mode = some sc := by
      intro srow hsrow sc hsc
      obtain ⟨qn, hqn, hq2⟩ := allSome_mem q _ res hres srow hsrow
      obtain ⟨tn, htn, ht2⟩ := allSome_mem t _ srow hq2 sc hsc
      exact ⟨qn, hqn, tn, htn, ht2⟩
    unfold mkFrame at hrow
    split at hrow
    · simp only [List.mem_flatten, List.mem_map] at hrow
      obtain ⟨pair, ⟨srow, hsrow, rfl⟩, hrow⟩ := hrow
      simp only [List.mem_cons, List.not_mem_nil, or_false] at hrow
      rcases hrow with rfl | rfl
      · obtain ⟨sc, hsc, rfl⟩ := List.mem_map.mp hv
        obtain ⟨qn, hqn, tn, htn, hd⟩ := key srow hsrow sc hsc
        exact ⟨qn, hqn, tn, htn, sc, hd, Or.inl rfl⟩
      · obtain ⟨sc, hsc, rfl⟩ := List.mem_map.mp hv
        obtain ⟨qn, hqn, tn, htn, hd⟩ := key srow hsrow sc hsc
        exact ⟨qn, hqn, tn, htn, sc, hd, Or.inr rfl⟩
    · simp only [List.mem_map] at hrow
      obtain ⟨srow, hsrow, rfl⟩ := hrow
      obtain ⟨sc, hsc, rfl⟩ := List.mem_map.mp hv
      obtain ⟨qn, hqn, tn, htn, hd⟩ := key srow hsrow sc hsc
      exact ⟨qn, hqn, tn, htn, sc, hd, Or.inl rfl⟩

/-! ### With alpha: a partial bound from a column-prefix maximality fact of the table -/

/-- Cell by natural indices (0 outside the table). -/
def cellD (cells : List (List Rat)) (i j : Nat) : Rat := ((cells[i]?).bind (·[j]?)).getD 0

theorem fromDataframe_shape (rows cols : List Interval) (cells : List (List Rat)) (t : Lookup2d)
    (h : Lookup2d.fromDataframe rows cols cells = some t) :
    t.cells.length = t.ax0.nbins ∧ ∀ row ∈ t.cells, row.length = t.ax1.nbins := by
  unfold Lookup2d.fromDataframe at h
  split at h
  · unfold Lookup2d.make at h
    split at h
    · rename_i hc
      cases h
      simp only [List.all_eq_true, beq_iff_eq] at hc
      exact hc
    · cases h
  · cases h

/-- On finite values a well-formed table always answers, with the cell addressed by the two bins. -/
theorem call_eq_cellD (t : Lookup2d) (hwf0 : t.ax0.WF) (hwf1 : t.ax1.WF)
    (hshape : t.cells.length = t.ax0.nbins ∧ ∀ row ∈ t.cells, row.length = t.ax1.nbins)
    (d v : Val) (hd : d.finite = true) (hv : v.finite = true) :
    ∃ i j : Nat, digitize t.ax0 d = (i : Int) ∧ digitize t.ax1 v = (j : Int) ∧ i < t.ax0.nbins ∧ j < t.ax1.nbins ∧
      t.call d v = some (cellD t.cells i j) := by
  obtain ⟨i, _, _, hi, hin, _, _, _, _⟩ := digitize_spec_aux t.ax0 hwf0 d hd
  obtain ⟨j, _, _, hj, hjn, _, _, _, _⟩ := digitize_spec_aux t.ax1 hwf1 v hv
  refine ⟨i, j, hi, hj, hin, hjn, ?_⟩
  unfold Lookup2d.call Lookup2d.cell
  rw [hi, hj]
  have e1 : npIndex t.ax0.nbins (i : Int) = some i := by
    unfold npIndex; simp; omega
  have e2 : npIndex t.ax1.nbins (j : Int) = some j := by
    unfold npIndex; simp; omega
  rw [e1, e2]
  simp only
  have hil : i < t.cells.length := by rw [hshape.1]; exact hin
  have hrow := hshape.2 _ (List.getElem_mem hil)
  have hjl : j < (t.cells[i]).length := by rw [hrow]; exact hjn
  unfold cellD
  simp [List.getElem?_eq_getElem hil, List.getElem?_eq_getElem hjl]

/-- A value above boundary `J` lands in bin `J` or higher. -/
theorem digitize_ge_of_pass (d : Digitizer) (hwf : d.WF) (v : Val) (hv : v.finite = true) (J : Nat) (bJ : X)
    (hb : d.boundaries[J]? = some bJ) (hp : scanPred d v bJ = true) : (J : Int) ≤ digitize d v := by
  obtain ⟨k, lo, hi, hk, hkn, hlo, hhi, h1, h2⟩ := digitize_spec_aux d hwf v hv
  rw [hk]
  by_contra hc
  have hkJ : k + 1 ≤ J := by omega
  by_cases he : k + 1 = J
  · rw [he, hb] at hhi; cases hhi; rw [hp] at h2; cases h2
  · have hlt := isMonoInc_lt d.boundaries hwf.mono (k + 1) J (by omega) hi bJ hhi hb
    have := scanPred_anti d v hlt hp
    rw [this] at h2; cases h2

theorem alpha_point_le (t : Lookup2d) (hwf0 : t.ax0.WF) (hwf1 : t.ax1.WF)
    (hshape : t.cells.length = t.ax0.nbins ∧ ∀ row ∈ t.cells, row.length = t.ax1.nbins) (J : Nat)
    (hmono : ∀ i < t.ax0.nbins, ∀ j < t.ax1.nbins, ∀ j' < t.ax1.nbins, j ≤ j' → J ≤ j' →
      cellD t.cells i j ≤ cellD t.cells 0 j')
    (h0 : digitize t.ax0 (.sqrt 0) = 0)
    (d v w : Val) (hd : d.finite = true) (hv : v.finite = true) (hw : w.finite = true)
    (hle : digitize t.ax1 v ≤ digitize t.ax1 w) (hJ : (J : Int) ≤ digitize t.ax1 w)
    (a b : Rat) (ha : t.call d v = some a) (hb : t.call (.sqrt 0) w = some b) : a ≤ b := by
  obtain ⟨i, j, _, hj, hin, hjn, hc⟩ := call_eq_cellD t hwf0 hwf1 hshape d v hd hv
  obtain ⟨i', j', hi', hj', _, hjn', hc'⟩ := call_eq_cellD t hwf0 hwf1 hshape (.sqrt 0) w rfl hw
  rw [hc] at ha; rw [hc'] at hb
  cases ha; cases hb
  have hi0 : i' = 0 := by rw [h0] at hi'; omega
  subst hi0
  rw [hj, hj'] at hle
  rw [hj'] at hJ
  exact hmono i hin j hjn j' hjn' (by omega) (by omega)

theorem defForward_le_one_alpha (t : Lookup2d) (hwf0 : t.ax0.WF) (hwf1 : t.ax1.WF)
    (hshape : t.cells.length = t.ax0.nbins ∧ ∀ row ∈ t.cells, row.length = t.ax1.nbins) (J : Nat)
    (hmono : ∀ i < t.ax0.nbins, ∀ j < t.ax1.nbins, ∀ j' < t.ax1.nbins, j ≤ j' → J ≤ j' →
      cellD t.cells i j ≤ cellD t.cells 0 j')
    (hpos : ∀ j' < t.ax1.nbins, J ≤ j' → 0 < cellD t.cells 0 j')
    (h0 : digitize t.ax0 (.sqrt 0) = 0)
    (cfg : Cfg) (hua : cfg.useAlpha = true) (hn : cfg.normalized = true) (q tt : Cloud)
    (hyp : ∀ p ∈ q, ∀ m, matchPoint tt cfg.bound p = some m →
      digitize t.ax1 (matchArgs true m).2 ≤ digitize t.ax1 (.sqrt (p.a * p.a)) ∧
      (J : Int) ≤ digitize t.ax1 (.sqrt (p.a * p.a)))
    (s : Rat) (h : defForward t.call cfg q tt = some s) : s ≤ 1 := by
  unfold defForward at h
  cases hp : pairRaw t.call cfg q tt with
  | none => rw [hp] at h; cases h
  | some scr =>
    rw [hp] at h
    simp only [hn, if_true] at h
    cases hsh : selfHit t.call cfg.useAlpha q with
    | none => rw [hsh] at h; cases h
    | some sh =>
      rw [hsh] at h
      simp only [normalise] at h
      split at h
      · cases h
      · rename_i hne
        simp only [Option.some.injEq] at h
        subst h
        unfold selfHit at hsh
        simp only [hua, if_true] at hsh
        rw [pairRaw_eq, hua] at hp
        have hle : scr ≤ sh := by
          apply sumOpt_le_sumOpt q _ _ scr sh _ hp hsh
          intro p hpq a b ha hb
          cases hm : matchPoint tt cfg.bound p with
          | none => rw [hm] at ha; cases ha
          | some m =>
            rw [hm] at ha
            obtain ⟨h1, h2⟩ := hyp p hpq m hm
            simp only [Option.bind_some, pointScore] at ha
            exact alpha_point_le t hwf0 hwf1 hshape J hmono h0 _ _ _ rfl rfl rfl h1 h2 a b ha hb
        have hqne : q ≠ [] := by
          intro hq; subst hq; simp [sumOpt] at hsh; exact hne hsh.symm
        have hpos' : 0 < sh := by
          apply sumOpt_pos q _ sh hqne _ hsh
          intro p hpq b hb
          obtain ⟨i', j', hi', hj', _, hjn', hc'⟩ :=
            call_eq_cellD t hwf0 hwf1 hshape (.sqrt 0) (.sqrt (p.a * p.a)) rfl rfl
          rw [hc'] at hb; cases hb
          have hi0 : i' = 0 := by rw [h0] at hi'; omega
          subst hi0
          -- `J ≤ j'` comes from the hypothesis, which needs the match of `p`; it exists because the sum does
          cases hm : matchPoint tt cfg.bound p with
          | none =>
            exfalso
            have := sumOpt_none_of_mem q (fun p => (matchPoint tt cfg.bound p).bind (pointScore t.call true)) p hpq
              (by simp [hm])
            rw [this] at hp; cases hp
          | some m =>
            obtain ⟨_, h2⟩ := hyp p hpq m hm
            rw [hj'] at h2
            exact hpos j' hjn' (by omega)
        rw [div_le_one₀ hpos']
        exact hle

/-! ### Ids only label the matrix -/

theorem mkFrame_vals (mode : Mode) (qi ti qi' ti' : List Int) (res : List (List Score)) :
    (mkFrame mode qi ti res).vals = (mkFrame mode qi' ti' res).vals := by
  unfold mkFrame; split <;> rfl

/-- The values of the definition's frame are a function of the point clouds alone. -/
theorem defNblast_vals_congr (fn : ScoreFn) (cfg : Cfg) (q q' t t' : List Dotprops) (mode : Mode)
    (hq : q.map (·.pts) = q'.map (·.pts)) (ht : t.map (·.pts) = t'.map (·.pts)) :
    (defNblast fn cfg q t mode).map (·.vals) = (defNblast fn cfg q' t' mode).map (·.vals) := by
  unfold defNblast
  have e : ∀ (a b : List Dotprops), (a.map fun qn => allSome (b.map fun tn => defScore fn cfg qn.pts tn.pts mode)) =
      ((a.map (·.pts)).map fun qc => allSome ((b.map (·.pts)).map fun tc => defScore fn cfg qc tc mode)) := by
    intro a b; simp [List.map_map, Function.comp_def]
  rw [e q t, e q' t', hq, ht]
  cases allSome ((q'.map (·.pts)).map fun qc => allSome ((t'.map (·.pts)).map fun tc => defScore fn cfg qc tc mode)) with
  | none => rfl
  | some res => simp only [Option.map_some]; rw [mkFrame_vals]

theorem selfHits_congr (fn : ScoreFn) (ua : Bool) (q q' : List Dotprops) (h : q.map (·.pts) = q'.map (·.pts)) :
    allSome (q.map fun n => selfHit fn ua n.pts) = allSome (q'.map fun n => selfHit fn ua n.pts) := by
  have e : ∀ a : List Dotprops, (a.map fun n => selfHit fn ua n.pts) = (a.map (·.pts)).map (selfHit fn ua) := by
    intro a; simp [List.map_map, Function.comp_def]
  rw [e q, e q', h]

end Navis.Nblast
