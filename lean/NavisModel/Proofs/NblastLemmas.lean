import NavisModel.Model.Nblast
import Mathlib.Tactic.Linarith
/-!
Helper lemmas for property C06 (NBLAST scoring): order on extended rationals, `takeWhile`-scan facts,
`digitize` specification / uniqueness / monotonicity, tables built from interval labels.
-/
namespace Navis.Nblast

/-! ### Order on `X` -/

theorem X.lt_irrefl (a : X) : X.lt a a = false := by
  cases a <;> simp [X.lt]

theorem X.lt_trans {a b c : X} (h1 : X.lt a b = true) (h2 : X.lt b c = true) : X.lt a c = true := by
  cases a <;> cases b <;> cases c <;> simp_all [X.lt]
  exact _root_.lt_trans h1 h2

theorem X.lt_asymm {a b : X} (h : X.lt a b = true) : X.lt b a = false := by
  cases a <;> cases b <;> simp_all [X.lt]
  exact le_of_lt h

theorem X.lt_or_eq_or_gt (a b : X) : X.lt a b = true ∨ a = b ∨ X.lt b a = true := by
  cases a <;> cases b <;> simp [X.lt]
  rename_i p q
  rcases lt_trichotomy p q with h | h | h
  · exact Or.inl h
  · exact Or.inr (Or.inl h)
  · exact Or.inr (Or.inr h)

theorem X.le_iff (a b : X) : X.le a b = true ↔ (X.lt a b = true ∨ a = b) := by
  unfold X.le
  constructor
  · intro h
    rcases X.lt_or_eq_or_gt a b with h1 | h1 | h1
    · exact Or.inl h1
    · exact Or.inr h1
    · simp [h1] at h
  · rintro (h | h)
    · simp [X.lt_asymm h]
    · subst h; simp [X.lt_irrefl]

theorem X.ninf_lt_fin (q : Rat) : X.lt .ninf (.fin q) = true := rfl
theorem X.fin_lt_pinf (q : Rat) : X.lt (.fin q) .pinf = true := rfl

/-! ### The two comparison predicates are downward closed along `<` -/

theorem Val.gtB_anti (v : Val) {a b : X} (hab : X.lt a b = true) (hb : v.gtB b = true) : v.gtB a = true := by
  cases v with
  | x v => exact X.lt_trans hab hb
  | sqrt s =>
    cases a <;> cases b <;> simp_all [Val.gtB, X.lt]
    rename_i p q
    by_cases hp : p < 0
    · exact Or.inl hp
    · right
      have hp' : 0 ≤ p := not_lt.mp hp
      rcases hb with hb | hb
      · linarith
      · nlinarith

theorem Val.geB_anti (v : Val) {a b : X} (hab : X.lt a b = true) (hb : v.geB b = true) : v.geB a = true := by
  cases v with
  | x v =>
    simp only [Val.geB] at *
    rcases (X.le_iff b v).mp hb with h | h
    · exact (X.le_iff a v).mpr (Or.inl (X.lt_trans hab h))
    · subst h; exact (X.le_iff a b).mpr (Or.inl hab)
  | sqrt s =>
    cases a <;> cases b <;> simp_all [Val.geB, X.lt]
    rename_i p q
    by_cases hp : p ≤ 0
    · exact Or.inl hp
    · right
      have hp' : 0 < p := not_le.mp hp
      rcases hb with hb | hb
      · linarith
      · nlinarith

/-- `b < v → b ≤ v`. -/
theorem Val.geB_of_gtB (v : Val) (b : X) (h : v.gtB b = true) : v.geB b = true := by
  cases v with
  | x v => exact (X.le_iff b v).mpr (Or.inl h)
  | sqrt s =>
    cases b <;> simp_all [Val.gtB, Val.geB]
    rcases h with h | h
    · exact Or.inl (le_of_lt h)
    · exact Or.inr (le_of_lt h)

theorem Val.gtB_ninf (v : Val) (h : v.finite = true) : v.gtB .ninf = true := by
  cases v with
  | x v => cases v <;> simp_all [Val.finite, X.isFin, Val.gtB, X.lt]
  | sqrt s => rfl

theorem Val.geB_ninf (v : Val) (h : v.finite = true) : v.geB .ninf = true :=
  v.geB_of_gtB _ (v.gtB_ninf h)

theorem Val.geB_pinf (v : Val) (h : v.finite = true) : v.geB .pinf = false := by
  cases v with
  | x v => cases v <;> simp_all [Val.finite, X.isFin, Val.geB, X.le, X.lt]
  | sqrt s => rfl

theorem Val.gtB_pinf (v : Val) : v.gtB .pinf = false := by
  cases v with
  | x v => cases v <;> simp [Val.gtB, X.lt]
  | sqrt s => rfl

/-- A rational root represents the same number: `sqrt (r*r)` compares like `r` for `r ≥ 0`. -/
theorem Val.gtB_sqrt_eq (r : Rat) (hr : 0 ≤ r) (b : X) : (Val.sqrt (r * r)).gtB b = (Val.x (.fin r)).gtB b := by
  cases b with
  | ninf => rfl
  | pinf => rfl
  | fin q =>
    simp only [Val.gtB, X.lt]
    by_cases h : q < r
    · have : q < 0 ∨ q * q < r * r := by
        by_cases hq : q < 0
        · exact Or.inl hq
        · right; have : 0 ≤ q := not_lt.mp hq; nlinarith
      simp [h, this]
    · have hle : r ≤ q := not_lt.mp h
      have h1 : ¬ q < 0 := by linarith
      have h2 : ¬ q * q < r * r := by nlinarith
      simp [h, h1, h2]

theorem Val.geB_sqrt_eq (r : Rat) (hr : 0 ≤ r) (b : X) : (Val.sqrt (r * r)).geB b = (Val.x (.fin r)).geB b := by
  cases b with
  | ninf => rfl
  | pinf => rfl
  | fin q =>
    simp only [Val.geB, X.le, X.lt]
    by_cases h : r < q
    · have h1 : ¬ q ≤ 0 := by linarith
      have h2 : ¬ q * q ≤ r * r := by nlinarith
      simp [h, h1, h2]
    · have hle : q ≤ r := not_lt.mp h
      have : q ≤ 0 ∨ q * q ≤ r * r := by
        by_cases hq : q ≤ 0
        · exact Or.inl hq
        · right; have : 0 < q := not_le.mp hq; nlinarith
      simp [h, this]

/-- A larger radicand is a larger value. -/
theorem Val.gtB_sqrt_mono {s s' : Rat} (h : s ≤ s') (b : X) (hb : (Val.sqrt s).gtB b = true) : (Val.sqrt s').gtB b = true := by
  cases b <;> simp_all [Val.gtB]
  rcases hb with hb | hb
  · exact Or.inl hb
  · exact Or.inr (lt_of_lt_of_le hb h)

theorem Val.geB_sqrt_mono {s s' : Rat} (h : s ≤ s') (b : X) (hb : (Val.sqrt s).geB b = true) : (Val.sqrt s').geB b = true := by
  cases b <;> simp_all [Val.geB]
  rcases hb with hb | hb
  · exact Or.inl hb
  · exact Or.inr (le_trans hb h)

/-! ### Scans -/

theorem tw_length_le (p : X → Bool) (l : List X) : (l.takeWhile p).length ≤ l.length := by
  induction l with
  | nil => simp
  | cons a l ih =>
    simp only [List.takeWhile_cons]
    split <;> simp <;> omega

/-- Everything before the stopping index satisfies the predicate. -/
theorem tw_before (p : X → Bool) (l : List X) (i : Nat) (hi : i < (l.takeWhile p).length) (x : X)
    (hx : l[i]? = some x) : p x = true := by
  induction l generalizing i with
  | nil => simp at hi
  | cons a l ih =>
    simp only [List.takeWhile_cons] at hi
    by_cases hpa : p a = true
    · simp only [hpa, if_true, List.length_cons] at hi
      cases i with
      | zero => simp at hx; subst hx; exact hpa
      | succ i => simp at hx; exact ih i (by omega) hx
    · simp [hpa] at hi

/-- The element at the stopping index (if any) fails the predicate. -/
theorem tw_at (p : X → Bool) (l : List X) (x : X) (hx : l[(l.takeWhile p).length]? = some x) : p x = false := by
  induction l with
  | nil => simp at hx
  | cons a l ih =>
    simp only [List.takeWhile_cons] at hx
    by_cases hpa : p a = true
    · simp only [hpa, if_true, List.length_cons, List.getElem?_cons_succ] at hx
      exact ih hx
    · simp [hpa] at hx
      subst hx; simpa using hpa

theorem tw_mono (p q : X → Bool) (h : ∀ x, p x = true → q x = true) (l : List X) :
    (l.takeWhile p).length ≤ (l.takeWhile q).length := by
  induction l with
  | nil => simp
  | cons a l ih =>
    simp only [List.takeWhile_cons]
    by_cases hpa : p a = true
    · simp [hpa, h a hpa]; exact ih
    · simp [hpa]

theorem tw_congr (p q : X → Bool) (h : ∀ x, p x = q x) (l : List X) :
    (l.takeWhile p).length = (l.takeWhile q).length := by
  have : p = q := funext h
  rw [this]

/-! ### Strictly increasing boundary lists -/

theorem isMonoInc_tail {a : X} {l : List X} (h : isMonoInc (a :: l) = true) : isMonoInc l = true := by
  cases l with
  | nil => rfl
  | cons b r => simp [isMonoInc] at h; exact h.2

/-- In a strictly increasing list earlier elements are smaller. -/
theorem isMonoInc_lt (l : List X) (h : isMonoInc l = true) (i j : Nat) (hij : i < j) (x y : X)
    (hx : l[i]? = some x) (hy : l[j]? = some y) : X.lt x y = true := by
  induction l generalizing i j x y with
  | nil => simp at hx
  | cons a l ih =>
    have ht := isMonoInc_tail h
    cases j with
    | zero => omega
    | succ j =>
      simp at hy
      cases i with
      | succ i => simp at hx; exact ih ht i j (by omega) x y hx hy
      | zero =>
        simp at hx
        -- a < l[0] ≤ ... < l[j]
        cases l with
        | nil => simp at hy
        | cons b r =>
          have hab : X.lt x b = true := by rw [← hx]; simp [isMonoInc] at h; exact h.1
          cases j with
          | zero => simp at hy; rw [← hy]; exact hab
          | succ j =>
            have : X.lt b y = true := ih ht 0 (j + 1) (by omega) b y (by simp) hy
            exact X.lt_trans hab this

/-! ### Well-formed digitizers (what `Digitizer.make … (true, true)` / `from_strings` produce) -/

structure Digitizer.WF (d : Digitizer) : Prop where
  mono : isMonoInc d.boundaries = true
  head : d.boundaries.head? = some .ninf
  last : d.boundaries.getLast? = some .pinf

theorem Digitizer.WF.two_le {d : Digitizer} (h : d.WF) : 2 ≤ d.boundaries.length := by
  have h1 := h.head; have h2 := h.last
  match hb : d.boundaries with
  | [] => rw [hb] at h1; simp at h1
  | [a] => rw [hb] at h1 h2; simp at h1 h2; rw [h1] at h2; cases h2
  | _ :: _ :: _ => simp

theorem Digitizer.WF.nbins_pos {d : Digitizer} (h : d.WF) : 0 < d.nbins := by
  have := h.two_le; unfold Digitizer.nbins; omega

theorem Digitizer.WF.get_zero {d : Digitizer} (h : d.WF) : d.boundaries[0]? = some .ninf := by
  have := h.head
  cases hb : d.boundaries with
  | nil => rw [hb] at this; simp at this
  | cons a l => rw [hb] at this; simpa using this

theorem Digitizer.WF.get_last {d : Digitizer} (h : d.WF) : d.boundaries[d.nbins]? = some .pinf := by
  have h2 := h.last
  rw [List.getLast?_eq_getElem?] at h2
  exact h2

/-- The scan stops strictly inside the list: at an index `1 ≤ k ≤ nbins`. -/
theorem scan_range (d : Digitizer) (hwf : d.WF) (p : X → Bool) (h0 : p .ninf = true) (h1 : p .pinf = false) :
    1 ≤ (d.boundaries.takeWhile p).length ∧ (d.boundaries.takeWhile p).length ≤ d.nbins := by
  have h2 := hwf.two_le
  constructor
  · by_contra hc
    have hk : (d.boundaries.takeWhile p).length = 0 := by omega
    have := tw_at p d.boundaries .ninf (by rw [hk]; exact hwf.get_zero)
    rw [h0] at this; cases this
  · by_contra hc
    have hlen := tw_length_le p d.boundaries
    have hk : d.nbins < (d.boundaries.takeWhile p).length := by omega
    have := tw_before p d.boundaries d.nbins hk .pinf hwf.get_last
    rw [h1] at this; cases this

/-- The predicate the scan of `digitize` uses. -/
def scanPred (d : Digitizer) (v : Val) : X → Bool := if d.right then v.gtB else v.geB

theorem digitize_eq (d : Digitizer) (v : Val) :
    digitize d v = ((d.boundaries.takeWhile (scanPred d v)).length : Int) - 1 := by
  unfold digitize digitizeWith sideOfRight scanPred searchsorted
  cases d.right <;> rfl

theorem scanPred_ninf (d : Digitizer) (v : Val) (hv : v.finite = true) : scanPred d v .ninf = true := by
  unfold scanPred; split
  · exact v.gtB_ninf hv
  · exact v.geB_ninf hv

theorem scanPred_pinf (d : Digitizer) (v : Val) (hv : v.finite = true) : scanPred d v .pinf = false := by
  unfold scanPred; split
  · exact v.gtB_pinf
  · exact v.geB_pinf hv

theorem scanPred_anti (d : Digitizer) (v : Val) {a b : X} (hab : X.lt a b = true) (hb : scanPred d v b = true) :
    scanPred d v a = true := by
  unfold scanPred at *; split at hb
  · rename_i h; simp [h]; exact v.gtB_anti hab hb
  · rename_i h; simp [h]; exact v.geB_anti hab hb

/-- **Specification of `digitize`**: the result is a bin index `k < nbins` whose lower boundary passes
the scan predicate and whose upper boundary fails it. -/
theorem digitize_spec_aux (d : Digitizer) (hwf : d.WF) (v : Val) (hv : v.finite = true) :
    ∃ (k : Nat) (lo hi : X), digitize d v = (k : Int) ∧ k < d.nbins ∧
      d.boundaries[k]? = some lo ∧ d.boundaries[k + 1]? = some hi ∧
      scanPred d v lo = true ∧ scanPred d v hi = false := by
  have hr := scan_range d hwf (scanPred d v) (scanPred_ninf d v hv) (scanPred_pinf d v hv)
  set n := (d.boundaries.takeWhile (scanPred d v)).length with hn
  have h2 := hwf.two_le
  have hnb : d.nbins = d.boundaries.length - 1 := rfl
  have hlo : n - 1 < d.boundaries.length := by omega
  have hhi : n < d.boundaries.length := by omega
  refine ⟨n - 1, d.boundaries[n - 1], d.boundaries[n], ?_, by omega, ?_, ?_, ?_, ?_⟩
  · rw [digitize_eq]; omega
  · exact List.getElem?_eq_getElem hlo
  · have : n - 1 + 1 = n := by omega
    rw [this]; exact List.getElem?_eq_getElem hhi
  · exact tw_before (scanPred d v) d.boundaries (n - 1) (by omega) _ (List.getElem?_eq_getElem hlo)
  · exact tw_at (scanPred d v) d.boundaries _ (List.getElem?_eq_getElem hhi)

/-- **Uniqueness**: any bin whose lower boundary passes and upper boundary fails is the one returned. -/
theorem digitize_unique_aux (d : Digitizer) (hwf : d.WF) (v : Val) (j : Nat) (lo hi : X)
    (hlo : d.boundaries[j]? = some lo) (hhi : d.boundaries[j + 1]? = some hi)
    (h1 : scanPred d v lo = true) (h2 : scanPred d v hi = false) : digitize d v = (j : Int) := by
  rw [digitize_eq]
  set n := (d.boundaries.takeWhile (scanPred d v)).length with hn
  have hlen := tw_length_le (scanPred d v) d.boundaries
  have hj1 : j + 1 < d.boundaries.length := by
    by_contra hc
    rw [List.getElem?_eq_none (by omega)] at hhi; cases hhi
  -- j < n: otherwise boundary n ≤ boundary j passes, but the scan stopped at n
  have hjn : j < n := by
    by_contra hc
    have hnl : n < d.boundaries.length := by omega
    have hat := tw_at (scanPred d v) d.boundaries _ (List.getElem?_eq_getElem hnl)
    by_cases hjn' : j = n
    · subst hjn'
      rw [List.getElem?_eq_getElem hnl] at hlo
      cases hlo; rw [h1] at hat; cases hat
    · have hlt := isMonoInc_lt d.boundaries hwf.mono n j (by omega) _ _ (List.getElem?_eq_getElem hnl) hlo
      have := scanPred_anti d v hlt h1
      rw [this] at hat; cases hat
  -- n ≤ j + 1: otherwise index j+1 is before the stop and passes
  have hnj : n ≤ j + 1 := by
    by_contra hc
    have := tw_before (scanPred d v) d.boundaries (j + 1) (by omega) hi hhi
    rw [this] at h2; cases h2
  omega

/-- `digitize` is monotone in the value (stated on the scan predicates). -/
theorem digitize_mono_aux (d : Digitizer) (v w : Val)
    (hgt : ∀ b, v.gtB b = true → w.gtB b = true) (hge : ∀ b, v.geB b = true → w.geB b = true) :
    digitize d v ≤ digitize d w := by
  rw [digitize_eq, digitize_eq]
  have : (d.boundaries.takeWhile (scanPred d v)).length ≤ (d.boundaries.takeWhile (scanPred d w)).length := by
    apply tw_mono
    intro x hx
    unfold scanPred at *
    split
    · rename_i h; simp [h] at hx; exact hgt x hx
    · rename_i h; simp [h] at hx; exact hge x hx
  omega

theorem digitize_sqrt_eq (d : Digitizer) (r : Rat) (hr : 0 ≤ r) :
    digitize d (.sqrt (r * r)) = digitize d (.x (.fin r)) := by
  rw [digitize_eq, digitize_eq]
  congr 2
  apply tw_congr
  intro x
  unfold scanPred
  split
  · exact Val.gtB_sqrt_eq r hr x
  · exact Val.geB_sqrt_eq r hr x

end Navis.Nblast
