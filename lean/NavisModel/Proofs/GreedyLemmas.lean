import NavisModel.Model.PruneExt
import NavisModel.Proofs.SegmentLemmas
import NavisModel.Proofs.PruneExtLemmas
/-!
`segments` (the model of `_generate_segments`, C05) satisfies the greedy criterion `Greedy` of
`longest_neurite` (C12) on every well-formed forest with positive edge lengths: segment `k` is the walk of
an uncovered tip up to the cover of the earlier segments (or its root), and no uncovered tip has a longer
such walk.
-/
namespace Navis.PruneX
open Navis.Forest

/-- Every edge has positive length (the property quantifies "away from exact ties"; with zero-length
edges the sort of `_generate_segments` may put a segment before the one it hangs on). -/
def PosLen (t : Table) (len : Int → Int → Nat) : Prop := ∀ n ∈ t, ¬ n.parent < 0 → 0 < len n.id n.parent

/-! ### root distances along root paths -/

theorem dtr_nonroot {t : Table} (hw : WF t) (len : Int → Int → Nat) {n : Node} (hn : n ∈ t) (hp : ¬ n.parent < 0) :
    distToRoot t len n.id = len n.id n.parent + distToRoot t len n.parent := by
  have hf := find?_of_mem hw.1 hn
  unfold distToRoot
  rw [rootPath_of_nonroot hw hf hp]
  obtain ⟨rest, hr⟩ := rootPath_cons (WF_parent_mem hw hn hp)
  rw [hr, pathLen_cons_cons]

/-- Root distance does not increase towards the root … -/
theorem dtr_anc_le {t : Table} (hw : WF t) (len : Int → Int → Nat) :
    ∀ x ∈ ids t, ∀ a ∈ rootPath t x, distToRoot t len a ≤ distToRoot t len x := by
  refine WF_induct hw (fun x => ∀ a ∈ rootPath t x, distToRoot t len a ≤ distToRoot t len x) ?_
  intro n hn hcase a ha
  have hf := find?_of_mem hw.1 hn
  by_cases hp : n.parent < 0
  · rw [rootPath_of_root hf hp] at ha
    simp at ha; rw [ha]; exact Nat.le_refl _
  · rw [rootPath_of_nonroot hw hf hp] at ha
    rcases List.mem_cons.mp ha with h | h
    · rw [h]; exact Nat.le_refl _
    · rcases hcase with hc | hc
      · exact absurd hc hp
      · have := hc a h
        rw [dtr_nonroot hw len hn hp]; omega

/-- … and strictly decreases to every proper ancestor when edges are positive. -/
theorem dtr_anc_lt {t : Table} (hw : WF t) {len : Int → Int → Nat} (hpos : PosLen t len) {n : Node} (hn : n ∈ t)
    {a : Int} (ha : a ∈ (rootPath t n.id).tail) : distToRoot t len a < distToRoot t len n.id := by
  have hf := find?_of_mem hw.1 hn
  by_cases hp : n.parent < 0
  · rw [rootPath_of_root hf hp] at ha; simp at ha
  · rw [rootPath_of_nonroot hw hf hp] at ha
    simp only [List.tail_cons] at ha
    have h1 := dtr_anc_le hw len n.parent (WF_parent_mem hw hn hp) a ha
    have h2 := hpos n hn hp
    rw [dtr_nonroot hw len hn hp]; omega

/-- A child→parent path `a :: mid ++ [last]` cut out of a root path: its length is the difference of the
root distances of its ends. -/
theorem dtr_seg {t : Table} (len : Int → Int → Nat) {a last : Int} {mid : List Int}
    (hpath : rootPath t a = (a :: mid) ++ rootPath t last) (hlast : last ∈ ids t) :
    distToRoot t len a = pathLen len (a :: mid ++ [last]) + distToRoot t len last := by
  obtain ⟨rest, hr⟩ := rootPath_cons hlast
  unfold distToRoot
  rw [hpath, hr]
  have := pathLen_append len (a :: mid) last rest
  simpa using this

/-! ### the nodes a segment owns lie below its last node -/

theorem rootPath_ne_nil {t : Table} {a : Int} (ha : a ∈ ids t) : rootPath t a ≠ [] := by
  obtain ⟨rest, hr⟩ := rootPath_cons ha
  rw [hr]; simp

/-- If the root path of `a` continues after `a`, `a` is not a root and the continuation is the root path of
its parent. -/
theorem rootPath_tail_parent {t : Table} (hw : WF t) {a z : Int} {rest : List Int} (h : rootPath t a = a :: z :: rest) :
    ∃ n, n ∈ t ∧ n.id = a ∧ ¬ n.parent < 0 ∧ n.parent = z ∧ rootPath t z = z :: rest := by
  have ha : a ∈ ids t := by
    by_cases hm : a ∈ ids t
    · exact hm
    · rw [rootPath_of_not_mem hm] at h; simp at h
  obtain ⟨n, hn, hid⟩ := mem_ids.mp ha
  have hf := find?_of_mem hw.1 hn
  rw [hid] at hf
  by_cases hp : n.parent < 0
  · rw [rootPath_of_root hf hp] at h; simp at h
  · have e := rootPath_of_nonroot hw hf hp
    rw [e] at h
    have h2 : rootPath t n.parent = z :: rest := by simpa using h
    obtain ⟨r2, hr2⟩ := rootPath_cons (WF_parent_mem hw hn hp)
    rw [hr2] at h2
    have hz : n.parent = z := by simpa using (List.cons.inj h2).1
    exact ⟨n, hn, hid, hp, hz, by rw [← hz]; rw [hz]; rw [← h2, ← hr2, hz]⟩

theorem own_above {t : Table} (hw : WF t) {last : Int} (hlast : last ∈ ids t) :
    ∀ (mid : List Int) (l : Int), rootPath t l = (l :: mid) ++ rootPath t last →
      ∀ x ∈ l :: mid, last ∈ (rootPath t x).tail := by
  intro mid
  induction mid with
  | nil =>
    intro l h x hx
    simp at hx; subst hx
    rw [h]; simp only [List.cons_append, List.nil_append, List.tail_cons]
    exact rootPath_head_mem hlast
  | cons z mid ih =>
    intro l h x hx
    have h' : rootPath t l = l :: z :: (mid ++ rootPath t last) := by simpa using h
    obtain ⟨n, hn, hid, hp, hz, hrz⟩ := rootPath_tail_parent hw h'
    have hz' : rootPath t z = (z :: mid) ++ rootPath t last := by simpa using hrz
    rcases List.mem_cons.mp hx with e | e
    · subst e
      rw [h']; simp only [List.tail_cons]
      rw [← hrz]
      have := ih z hz' z List.mem_cons_self
      exact List.mem_of_mem_tail this
    · exact ih z hz' x e

/-! ### a walk that stops at the first node of a set -/

/-- Generic form of `walkToStop_spec`. -/
theorem walkToStop_gen {t : Table} (hw : WF t) (P : Int → Bool) :
    ∀ (fuel : Nat) (i : Int) (n : Node), find? t i = some n → ¬ n.parent < 0 → (rootPath t i).length ≤ fuel →
      ∃ mid last, walkToStop t P fuel i = mid ++ [last] ∧ rootPath t i = (i :: mid) ++ rootPath t last ∧
        last ∈ ids t ∧ (∀ x ∈ mid, P x = false) := by
  intro fuel
  induction fuel with
  | zero =>
    intro i n hf _ hlen
    obtain ⟨rest, hr⟩ := rootPath_cons (mem_ids.mpr ⟨n, find?_some hf⟩)
    rw [hr] at hlen; simp at hlen
  | succ fuel ih =>
    intro i n hf hp hlen
    have hn := find?_some hf
    have e := rootPath_of_nonroot hw hf hp
    have hpm := WF_parent_mem hw hn.1 hp
    unfold walkToStop
    rw [hf]
    simp only [if_neg hp]
    cases hst : P n.parent with
    | true =>
      simp only [if_true]
      exact ⟨[], n.parent, rfl, by rw [e]; rfl, hpm, by simp⟩
    | false =>
      simp only [Bool.false_eq_true, if_false]
      obtain ⟨pn, hpn, hpid⟩ := mem_ids.mp hpm
      have hfp : find? t n.parent = some pn := by rw [← hpid]; exact find?_of_mem hw.1 hpn
      by_cases hpp : pn.parent < 0
      · -- the parent is a root: the walk ends there
        have hwk : walkToStop t P fuel n.parent = [] := by
          cases fuel with
          | zero =>
            rw [e] at hlen
            obtain ⟨r2, hr2⟩ := rootPath_cons hpm
            rw [hr2] at hlen; simp at hlen
          | succ f => unfold walkToStop; rw [hfp]; simp [hpp]
        rw [hwk]
        exact ⟨[], n.parent, rfl, by rw [e]; rfl, hpm, by simp⟩
      · have hlen' : (rootPath t n.parent).length ≤ fuel := by rw [e] at hlen; simpa using hlen
        obtain ⟨mid, last, hw', hpath, hl, hns⟩ := ih n.parent pn hfp hpp hlen'
        refine ⟨n.parent :: mid, last, by rw [hw']; rfl, by rw [e, hpath]; rfl, hl, ?_⟩
        intro x hx
        rcases List.mem_cons.mp hx with h | h
        · rw [h]; exact hst
        · exact hns x h

/-- The walk along a known stretch of root path whose inner nodes are not in `P` and whose end is in `P` or a root. -/
theorem walkToStop_path {t : Table} (hw : WF t) (P : Int → Bool) {last : Int} (hlast : last ∈ ids t)
    (hstop : P last = true ∨ ∃ n, find? t last = some n ∧ n.parent < 0) :
    ∀ (mid : List Int) (a : Int) (fuel : Nat), rootPath t a = (a :: mid) ++ rootPath t last →
      (rootPath t a).length ≤ fuel → (∀ x ∈ mid, P x = false) → walkToStop t P fuel a = mid ++ [last] := by
  intro mid
  induction mid with
  | nil =>
    intro a fuel h hlen _
    obtain ⟨r2, hr2⟩ := rootPath_cons hlast
    have h' : rootPath t a = a :: last :: r2 := by rw [h, hr2]; rfl
    obtain ⟨n, hn, hid, hp, hz, _⟩ := rootPath_tail_parent hw h'
    have hf : find? t a = some n := by rw [← hid]; exact find?_of_mem hw.1 hn
    cases fuel with
    | zero => rw [h'] at hlen; simp at hlen
    | succ f =>
      unfold walkToStop
      rw [hf]
      simp only [if_neg hp]
      rw [hz]
      rcases hstop with hs | ⟨rn, hrf, hrp⟩
      · simp [hs]
      · cases hPl : P last with
        | true => simp
        | false =>
          simp only [Bool.false_eq_true, if_false]
          cases f with
          | zero => rw [h'] at hlen; simp at hlen
          | succ f' =>
            have : walkToStop t P (f' + 1) last = [] := by unfold walkToStop; rw [hrf]; simp [hrp]
            rw [this]; rfl
  | cons z mid ih =>
    intro a fuel h hlen hns
    have h' : rootPath t a = a :: z :: (mid ++ rootPath t last) := by simpa using h
    obtain ⟨n, hn, hid, hp, hz, hrz⟩ := rootPath_tail_parent hw h'
    have hf : find? t a = some n := by rw [← hid]; exact find?_of_mem hw.1 hn
    have hz' : rootPath t z = (z :: mid) ++ rootPath t last := by simpa using hrz
    cases fuel with
    | zero => rw [h'] at hlen; simp at hlen
    | succ f =>
      unfold walkToStop
      rw [hf]
      have hPz : P z = false := hns z List.mem_cons_self
      simp only [if_neg hp]
      rw [hz]
      simp only [hPz, Bool.false_eq_true, if_false]
      have hlen' : (rootPath t z).length ≤ f := by
        rw [h'] at hlen; rw [hrz]; simp at hlen ⊢; omega
      rw [ih z f hz' hlen' (fun x hx => hns x (List.mem_cons_of_mem _ hx))]
      rfl


/-! ### what every greedy sequence is -/

/-- Data of one sequence produced by the greedy fold: the walk of the leaf `l`; every node it owns (all but
the last) has `l` as a deepest leaf below it. -/
structure SegData (t : Table) (len : Int → Int → Nat) (s : List Int) (l : Int) (mid : List Int) (last : Int) : Prop where
  eq : s = l :: mid ++ [last]
  path : rootPath t l = (l :: mid) ++ rootPath t last
  hlast : last ∈ ids t
  leaf : childCount t l = 0
  nonroot : ∃ n, n ∈ t ∧ n.id = l ∧ ¬ n.parent < 0
  deepest : ∀ x ∈ l :: mid, ∀ m ∈ leafIds t, x ∈ rootPath t m → distToRoot t len m ≤ distToRoot t len l

def SegInv (t : Table) (len : Int → Int → Nat) (acc : List (List Int)) : Prop :=
  ∀ s ∈ acc, ∃ l mid last, SegData t len s l mid last

theorem SegInv.foldl {t : Table} (hw : WF t) (len : Int → Int → Nat) :
    ∀ (ls done : List Int) (acc : List (List Int)) (seen : List Int), GInv t done acc seen → SegInv t len acc →
      (∀ l ∈ ls, ∃ n ∈ t, n.id = l ∧ ¬ n.parent < 0 ∧ childCount t n.id = 0) → (done ++ ls).Nodup →
      (∀ m ∈ leafIds t, m ∈ done ++ ls) →
      ls.Pairwise (fun a b => distToRoot t len b ≤ distToRoot t len a) →
      SegInv t len (ls.foldl (greedyStep t) (acc, seen)).1 := by
  intro ls
  induction ls with
  | nil => intro done acc seen _ h _ _ _ _; simpa using h
  | cons l ls ih =>
    intro done acc seen h hsi hl hnd hall hpw
    obtain ⟨n, hn, hnid, hp, hcc⟩ := hl l List.mem_cons_self
    subst hnid
    have hnot : n.id ∉ done := by
      intro hm
      rw [List.nodup_append] at hnd
      exact hnd.2.2 n.id hm n.id List.mem_cons_self rfl
    have hf := find?_of_mem hw.1 hn
    have hlen : (rootPath t n.id).length ≤ t.length + 1 := by
      have := rootPath_length_le hw n.id; omega
    obtain ⟨mid, last, h1, hs⟩ := walkSeen_spec hw (t.length + 1) n.id n seen hf hp hlen
    have hstep := h.step hw hn hp hcc hnot
    have e : done ++ n.id :: ls = (done ++ [n.id]) ++ ls := by simp
    have hpos := Linked_childCount_pos n.id (mid ++ [last]) hs.linked
    rw [List.foldl_cons]
    refine ih (done ++ [n.id]) _ _ hstep ?_ (fun l' hl' => hl l' (List.mem_cons_of_mem _ hl')) (e ▸ hnd)
      (by intro m hm; rw [← e]; exact hall m hm) (List.Pairwise.of_cons hpw)
    intro s hs'
    have hs' : s ∈ acc ++ [n.id :: (walkSeen t (t.length + 1) n.id seen).1] := hs'
    rcases List.mem_append.mp hs' with h' | h'
    · exact hsi s h'
    · simp only [List.mem_singleton] at h'
      refine ⟨n.id, mid, last, ⟨by rw [h', h1]; rfl, hs.path, hs.hlast, hcc, ⟨n, hn, rfl, hp⟩, ?_⟩⟩
      intro x hx m hm hxm
      have hm' := hall m hm
      obtain ⟨mn, hmn, hmid, _, hmcc⟩ := mem_leafIds.mp hm
      rcases List.mem_append.mp hm' with hd | hd
      · exfalso
        obtain ⟨rest, hr⟩ := rootPath_cons (mem_ids.mpr ⟨mn, hmn, hmid⟩)
        rw [hr] at hxm
        rcases List.mem_cons.mp hxm with e1 | e1
        · rcases List.mem_cons.mp hx with e2 | e2
          · exact hnot (by rw [← e2, e1]; exact hd)
          · have h3 := hpos x (List.mem_append_left _ e2)
            have h4 := h.leaf m hd
            rw [e1] at h3; omega
        · have hxs : x ∈ seen := h.anc m hd x (by rw [hr]; exact e1)
          rcases List.mem_cons.mp hx with e2 | e2
          · have := (h.inner x hxs).1
            rw [e2] at this; omega
          · exact hs.fresh x e2 hxs
      · rcases List.mem_cons.mp hd with e1 | e1
        · rw [e1]; exact Nat.le_refl _
        · exact (List.pairwise_cons.mp hpw).1 m e1


/-! ### list facts -/

theorem flatMap_nodup_unique {α β} (f : α → List β) :
    ∀ (l : List α), (l.flatMap f).Nodup → ∀ a ∈ l, ∀ b ∈ l, ∀ x, x ∈ f a → x ∈ f b → a = b := by
  intro l
  induction l with
  | nil => intro _ a ha; simp at ha
  | cons c r ih =>
    intro hnd a ha b hb x hxa hxb
    rw [List.flatMap_cons, List.nodup_append] at hnd
    obtain ⟨_, h2, h3⟩ := hnd
    rcases List.mem_cons.mp ha with e1 | e1 <;> rcases List.mem_cons.mp hb with e2 | e2
    · rw [e1, e2]
    · subst e1
      exact absurd rfl (h3 x hxa x (List.mem_flatMap.mpr ⟨b, e2, hxb⟩))
    · subst e2
      exact absurd rfl (h3 x hxb x (List.mem_flatMap.mpr ⟨a, e1, hxa⟩))
    · exact ih h2 a e1 b e2 x hxa hxb

theorem nodup_of_flatMap_nodup {α β} (f : α → List β) :
    ∀ (l : List α), (l.flatMap f).Nodup → (∀ a ∈ l, f a ≠ []) → l.Nodup := by
  intro l
  induction l with
  | nil => intro _ _; exact List.nodup_nil
  | cons c r ih =>
    intro hnd hne
    rw [List.flatMap_cons, List.nodup_append] at hnd
    obtain ⟨_, h2, h3⟩ := hnd
    rw [List.nodup_cons]
    refine ⟨?_, ih h2 (fun a ha => hne a (List.mem_cons_of_mem _ ha))⟩
    intro hc
    obtain ⟨x, hx⟩ := List.exists_mem_of_ne_nil _ (hne c List.mem_cons_self)
    exact absurd rfl (h3 x hx x (List.mem_flatMap.mpr ⟨c, hc, hx⟩))

/-! ### facts about one sequence -/

theorem mem_tips {t : Table} {x : Int} : x ∈ tips t ↔ ∃ n ∈ t, n.id = x ∧ childCount t n.id = 0 := by
  unfold tips
  simp only [List.mem_map, List.mem_filter, beq_iff_eq]
  constructor
  · rintro ⟨n, ⟨h1, h2⟩, h3⟩; exact ⟨n, h1, h3, h2⟩
  · rintro ⟨n, h1, h3, h2⟩; exact ⟨n, ⟨h1, h2⟩, h3⟩

namespace SegData
variable {t : Table} {len : Int → Int → Nat} {s : List Int} {l : Int} {mid : List Int} {last : Int}

theorem dropLast_eq (d : SegData t len s l mid last) : s.dropLast = l :: mid := by
  rw [d.eq]; exact SmallSeg.dropLast_eq mid l last

theorem mem_cases (d : SegData t len s l mid last) {x : Int} (hx : x ∈ s) : x ∈ l :: mid ∨ x = last := by
  rw [d.eq] at hx
  rcases List.mem_append.mp hx with h | h
  · exact Or.inl h
  · exact Or.inr (by simpa using h)

theorem own_mem (d : SegData t len s l mid last) {x : Int} (hx : x ∈ l :: mid) : x ∈ s := by
  rw [d.eq]; exact List.mem_append_left _ hx

theorem inner_pos (d : SegData t len s l mid last) : ∀ x ∈ mid ++ [last], 0 < childCount t x := by
  have hl : Linked t (l :: (mid ++ rootPath t last)) := by
    have := rootPath_linked t l
    rw [d.path] at this; exact this
  have := Linked_childCount_pos l (mid ++ rootPath t last) hl
  intro x hx
  rcases List.mem_append.mp hx with h | h
  · exact this x (List.mem_append_left _ h)
  · have : x = last := by simpa using h
    subst this
    exact Linked_childCount_pos l (mid ++ rootPath t x) hl x (List.mem_append_right _ (rootPath_head_mem d.hlast))

theorem length_eq (d : SegData t len s l mid last) : distToRoot t len l = pathLen len s + distToRoot t len last := by
  rw [d.eq]; exact dtr_seg len d.path d.hlast

theorem last_not_own (d : SegData t len s l mid last) (hw : WF t) : last ∉ l :: mid := by
  have hnd := rootPath_nodup hw l
  rw [d.path, List.nodup_append] at hnd
  intro h
  exact hnd.2.2 last h last (rootPath_head_mem d.hlast) rfl

theorem last_mem_rootPath (d : SegData t len s l mid last) : last ∈ rootPath t l := by
  rw [d.path]; exact List.mem_append_right _ (rootPath_head_mem d.hlast)

theorem own_mem_rootPath (d : SegData t len s l mid last) {x : Int} (hx : x ∈ l :: mid) : x ∈ rootPath t l := by
  rw [d.path]; exact List.mem_append_left _ hx

end SegData

/-- The node just below the end of a stretch of root path. -/
theorem own_last {t : Table} (hw : WF t) {last : Int} :
    ∀ (mid : List Int) (l : Int), rootPath t l = (l :: mid) ++ rootPath t last →
      ∃ y ∈ l :: mid, rootPath t y = y :: rootPath t last := by
  intro mid
  induction mid with
  | nil => intro l h; exact ⟨l, List.mem_cons_self, by simpa using h⟩
  | cons z mid ih =>
    intro l h
    have h' : rootPath t l = l :: z :: (mid ++ rootPath t last) := by simpa using h
    obtain ⟨n, hn, hid, hp, hz, hrz⟩ := rootPath_tail_parent hw h'
    have hz' : rootPath t z = (z :: mid) ++ rootPath t last := by simpa using hrz
    obtain ⟨y, hy, hry⟩ := ih z hz'
    exact ⟨y, List.mem_cons_of_mem _ hy, hry⟩

theorem tipWalk_root {t : Table} (C : List Int) {m : Int} {n : Node} (hf : find? t m = some n) (hp : n.parent < 0) :
    tipWalk t C m = [m] := by
  unfold tipWalk walkToStop
  rw [hf]; simp [hp]

/-! ### the greedy step for a sorted position -/

theorem greedy_core {t : Table} (hw : WF t) {len : Int → Int → Nat} (hpos : PosLen t len) (seqs : List (List Int))
    (hsi : SegInv t len seqs) (hnd : (seqs.flatMap fun s => s.dropLast).Nodup)
    (hcov : ∀ x, x ∈ (seqs.flatMap fun s => s.dropLast) ↔ ∃ n ∈ t, ¬ n.parent < 0 ∧ n.id = x)
    (A B : List (List Int)) (s : List Int) (hperm : (A ++ s :: B).Perm seqs)
    (hA : ∀ a ∈ A, pathLen len s ≤ pathLen len a) (hB : ∀ b ∈ B, pathLen len b ≤ pathLen len s) :
    GreedyStep t len A.flatten s := by
  have hmem : ∀ a, a ∈ seqs ↔ a ∈ A ∨ a = s ∨ a ∈ B := by
    intro a
    rw [← hperm.mem_iff]; simp [List.mem_append]
  have hs : s ∈ seqs := (hmem s).mpr (Or.inr (Or.inl rfl))
  have hne : ∀ a ∈ seqs, a.dropLast ≠ [] := by
    intro a ha
    obtain ⟨l', mid', last', d'⟩ := hsi a ha
    rw [d'.dropLast_eq]; simp
  have hseqnd : (A ++ s :: B).Nodup := hperm.nodup_iff.mpr (nodup_of_flatMap_nodup _ seqs hnd hne)
  have hsA : s ∉ A := by
    intro h
    rw [List.nodup_append] at hseqnd
    exact hseqnd.2.2 s h s List.mem_cons_self rfl
  have huniq : ∀ a ∈ seqs, ∀ b ∈ seqs, ∀ x, x ∈ a.dropLast → x ∈ b.dropLast → a = b :=
    flatMap_nodup_unique _ seqs hnd
  obtain ⟨l, mid, last, d⟩ := hsi s hs
  obtain ⟨nl, hnl, hnlid, hnlp⟩ := d.nonroot
  have hlleaf : l ∈ leafIds t := mem_leafIds.mpr ⟨nl, hnl, hnlid, hnlp, by rw [hnlid]; exact d.leaf⟩
  -- membership of a node in the cover
  have hC : ∀ x, x ∈ A.flatten → ∃ a ∈ A, x ∈ a := by
    intro x hx; simpa [List.mem_flatten] using hx
  refine ⟨l, by rw [d.eq]; rfl, mem_tips.mpr ⟨nl, hnl, hnlid, by rw [hnlid]; exact d.leaf⟩, ?_, ?_, ?_⟩
  · -- the tip is not covered
    intro hx
    obtain ⟨a, ha, hxa⟩ := hC l hx
    have has : a ∈ seqs := (hmem a).mpr (Or.inl ha)
    obtain ⟨l', mid', last', d'⟩ := hsi a has
    rcases d'.mem_cases hxa with h | h
    · have := huniq a has s hs l (by rw [d'.dropLast_eq]; exact h) (by rw [d.dropLast_eq]; exact List.mem_cons_self)
      exact hsA (this ▸ ha)
    · have := d'.inner_pos l (List.mem_append_right _ (by simp [h]))
      have := d.leaf
      omega
  · -- the segment is the walk up to the cover
    have hfl : find? t l = some nl := by rw [← hnlid]; exact find?_of_mem hw.1 hnl
    have hlen : (rootPath t l).length ≤ t.length + 1 := by have := rootPath_length_le hw l; omega
    have hmidC : ∀ x ∈ mid, (fun i => A.flatten.contains i) x = false := by
      intro x hx
      simp only [List.contains_eq_mem, decide_eq_false_iff_not]
      intro hxC
      obtain ⟨a, ha, hxa⟩ := hC x hxC
      have has : a ∈ seqs := (hmem a).mpr (Or.inl ha)
      obtain ⟨l', mid', last', d'⟩ := hsi a has
      rcases d'.mem_cases hxa with h | h
      · have := huniq a has s hs x (by rw [d'.dropLast_eq]; exact h) (by rw [d.dropLast_eq]; exact List.mem_cons_of_mem _ hx)
        exact hsA (this ▸ ha)
      · -- `a` hangs on `s` at `x`: it is strictly shorter, so it cannot come before `s`
        obtain ⟨nl', hnl', hnlid', hnlp'⟩ := d'.nonroot
        have hl'leaf : l' ∈ leafIds t := mem_leafIds.mpr ⟨nl', hnl', hnlid', hnlp', by rw [hnlid']; exact d'.leaf⟩
        have hxr : x ∈ rootPath t l' := by rw [h]; exact d'.last_mem_rootPath
        have h1 := d.deepest x (List.mem_cons_of_mem _ hx) l' hl'leaf hxr
        have hxids : x ∈ ids t := rootPath_sub hxr
        obtain ⟨nx, hnx, hnxid⟩ := mem_ids.mp hxids
        have h2 : distToRoot t len last < distToRoot t len x := by
          have := own_above hw d.hlast mid l d.path x (List.mem_cons_of_mem _ hx)
          rw [← hnxid] at this ⊢
          exact dtr_anc_lt hw hpos hnx this
        have h3 := d.length_eq
        have h4 := d'.length_eq
        rw [← h] at h4
        have h5 := hA a ha
        omega
    have hstop : (fun i => A.flatten.contains i) last = true ∨ ∃ n, find? t last = some n ∧ n.parent < 0 := by
      obtain ⟨nlast, hnlast, hnlastid⟩ := mem_ids.mp d.hlast
      have hflast : find? t last = some nlast := by rw [← hnlastid]; exact find?_of_mem hw.1 hnlast
      by_cases hp : nlast.parent < 0
      · exact Or.inr ⟨nlast, hflast, hp⟩
      · left
        obtain ⟨a, has, hxa⟩ := List.mem_flatMap.mp ((hcov last).mpr ⟨nlast, hnlast, hp, hnlastid⟩)
        obtain ⟨l', mid', last', d'⟩ := hsi a has
        have hown : last ∈ l' :: mid' := by rw [← d'.dropLast_eq]; exact hxa
        have hne' : a ≠ s := by
          intro e
          subst e
          exact d.last_not_own hw (by rw [← d.dropLast_eq]; exact hxa)
        have h1 := d'.deepest last hown l hlleaf d.last_mem_rootPath
        have h2 : distToRoot t len last' < distToRoot t len last := by
          have := own_above hw d'.hlast mid' l' d'.path last hown
          rw [← hnlastid] at this ⊢
          exact dtr_anc_lt hw hpos hnlast this
        have h3 := d.length_eq
        have h4 := d'.length_eq
        have haA : a ∈ A := by
          rcases (hmem a).mp has with h | h | h
          · exact h
          · exact absurd h hne'
          · have := hB a h; omega
        simp only [List.contains_eq_mem, decide_eq_true_eq, List.mem_flatten]
        exact ⟨a, haA, d'.own_mem hown⟩
    have := walkToStop_path hw (fun i => A.flatten.contains i) d.hlast hstop mid l (t.length + 1) d.path hlen hmidC
    unfold tipWalk
    rw [this, d.eq]; rfl
  · -- no uncovered tip has a longer walk
    intro m hm hmC
    obtain ⟨nm, hnm, hnmid, hmcc⟩ := mem_tips.mp hm
    have hfm : find? t m = some nm := by rw [← hnmid]; exact find?_of_mem hw.1 hnm
    by_cases hp : nm.parent < 0
    · rw [tipWalk_root _ hfm hp, pathLen_single]; exact Nat.zero_le _
    · have hmleaf : m ∈ leafIds t := mem_leafIds.mpr ⟨nm, hnm, hnmid, hp, hmcc⟩
      have hlen : (rootPath t m).length ≤ t.length + 1 := by have := rootPath_length_le hw m; omega
      obtain ⟨midW, w, hwk, hpathW, hwids, hns⟩ :=
        walkToStop_gen hw (fun i => A.flatten.contains i) (t.length + 1) m nm hfm hp hlen
      have hW : tipWalk t A.flatten m = m :: midW ++ [w] := by unfold tipWalk; rw [hwk]; rfl
      obtain ⟨y, hy, hry⟩ := own_last hw midW m hpathW
      have hyC : y ∉ A.flatten := by
        rcases List.mem_cons.mp hy with e | e
        · rw [e]; exact hmC
        · have := hns y e
          simpa using this
      have hyr : y ∈ rootPath t m := by rw [hpathW]; exact List.mem_append_left _ hy
      obtain ⟨r2, hr2⟩ := rootPath_cons hwids
      obtain ⟨ny, hny, hnyid, hnyp, hnypar, _⟩ := rootPath_tail_parent hw (by rw [hry, hr2] : rootPath t y = y :: w :: r2)
      obtain ⟨a, has, hxa⟩ := List.mem_flatMap.mp ((hcov y).mpr ⟨ny, hny, hnyp, hnyid⟩)
      obtain ⟨l', mid', last', d'⟩ := hsi a has
      have hown : y ∈ l' :: mid' := by rw [← d'.dropLast_eq]; exact hxa
      have hale : pathLen len a ≤ pathLen len s := by
        rcases (hmem a).mp has with h | h | h
        · exact absurd (List.mem_flatten.mpr ⟨a, h, d'.own_mem hown⟩) hyC
        · rw [h]; exact Nat.le_refl _
        · exact hB a h
      have h1 := d'.deepest y hown m hmleaf hyr
      have h2 : distToRoot t len last' ≤ distToRoot t len w := by
        have := own_above hw d'.hlast mid' l' d'.path y hown
        rw [hry] at this
        exact dtr_anc_le hw len w hwids last' (by simpa using this)
      have h3 := d'.length_eq
      have h4 := dtr_seg len hpathW hwids
      rw [hW]
      omega


/-! ### isolated nodes (the single-node segments at the end) -/

theorem mem_isolatedIds {t : Table} {x : Int} :
    x ∈ isolatedIds t ↔ ∃ n ∈ t, n.id = x ∧ n.parent < 0 ∧ childCount t n.id = 0 := by
  unfold isolatedIds
  simp only [List.mem_map, List.mem_filter, isRootNode, Bool.and_eq_true, decide_eq_true_eq, beq_iff_eq]
  constructor
  · rintro ⟨n, ⟨h1, h2, h3⟩, h4⟩; exact ⟨n, h1, h4, h2, h3⟩
  · rintro ⟨n, h1, h4, h2, h3⟩; exact ⟨n, ⟨h1, h2, h3⟩, h4⟩

theorem greedy_single {t : Table} (hw : WF t) {len : Int → Int → Nat} (seqs : List (List Int)) (_hsi : SegInv t len seqs)
    (hcov : ∀ x, x ∈ (seqs.flatMap fun s => s.dropLast) ↔ ∃ n ∈ t, ¬ n.parent < 0 ∧ n.id = x)
    (C : List Int) (r : Int) (hr : r ∈ isolatedIds t) (hCs : ∀ s ∈ seqs, ∀ x ∈ s, x ∈ C) (hrC : r ∉ C) :
    GreedyStep t len C [r] := by
  obtain ⟨nr, hnr, hnrid, hnrp, hnrcc⟩ := mem_isolatedIds.mp hr
  have hfr : find? t r = some nr := by rw [← hnrid]; exact find?_of_mem hw.1 hnr
  refine ⟨r, rfl, mem_tips.mpr ⟨nr, hnr, hnrid, hnrcc⟩, hrC, (tipWalk_root C hfr hnrp).symm, ?_⟩
  intro m hm hmC
  obtain ⟨nm, hnm, hnmid, hmcc⟩ := mem_tips.mp hm
  have hfm : find? t m = some nm := by rw [← hnmid]; exact find?_of_mem hw.1 hnm
  by_cases hp : nm.parent < 0
  · rw [tipWalk_root _ hfm hp, pathLen_single]; exact Nat.zero_le _
  · exfalso
    obtain ⟨a, has, hxa⟩ := List.mem_flatMap.mp ((hcov m).mpr ⟨nm, hnm, hp, hnmid⟩)
    exact hmC (hCs a has m (List.dropLast_subset a hxa))

theorem getElem_not_mem_take {α} {l : List α} (hnd : l.Nodup) (j : Nat) (hj : j < l.length) : l[j] ∉ l.take j := by
  have hdec : l = l.take j ++ l[j] :: l.drop (j + 1) := by
    rw [List.getElem_cons_drop]; exact (List.take_append_drop j l).symm
  intro h
  have hnd' := hnd
  rw [hdec, List.nodup_append] at hnd'
  exact hnd'.2.2 l[j] h l[j] List.mem_cons_self rfl

/-! ### the theorem -/

/-- **`segments` is greedy**: on a well-formed forest with positive edge lengths, every segment is the walk of an
uncovered tip up to the nodes covered by the earlier segments (or the root), and no uncovered tip has a longer one. -/
theorem segments_greedy {t : Table} (hw : WF t) {len : Int → Int → Nat} (hpos : PosLen t len) :
    Greedy t len (segments t len) := by
  have hpermL : (sortedLeafs t len).Perm (leafIds t) := sortBy_perm _ _
  have hndL : ([] ++ sortedLeafs t len).Nodup := by
    rw [List.nil_append]; exact hpermL.nodup_iff.mpr (leafIds_nodup hw.1)
  have hleaf : ∀ l ∈ sortedLeafs t len, ∃ n ∈ t, n.id = l ∧ ¬ n.parent < 0 ∧ childCount t n.id = 0 :=
    fun l hl => mem_leafIds.mp (hpermL.mem_iff.mp hl)
  have hpw : (sortedLeafs t len).Pairwise (fun a b => distToRoot t len b ≤ distToRoot t len a) := by
    unfold sortedLeafs
    apply sortBy_pairwise
    · intro a b c h1 h2; omega
    · intro y x h; simpa using h
    · intro y x h
      have : ¬ distToRoot t len x ≤ distToRoot t len y := by simpa using h
      omega
  have hsi : SegInv t len (greedySeqs t (sortedLeafs t len)) :=
    SegInv.foldl hw len (sortedLeafs t len) [] [] [] (GInv.init t) (by intro s hs; simp at hs) hleaf hndL
      (by intro m hm; simpa using hpermL.mem_iff.mpr hm) hpw
  obtain ⟨hpp, hperm⟩ := greedySeqs_spec hw len
  have hnd : ((greedySeqs t (sortedLeafs t len)).flatMap fun s => s.dropLast).Nodup :=
    hperm.nodup_iff.mpr (nonroot_ids_nodup hw.1)
  have hcov : ∀ x, x ∈ ((greedySeqs t (sortedLeafs t len)).flatMap fun s => s.dropLast) ↔ ∃ n ∈ t, ¬ n.parent < 0 ∧ n.id = x :=
    fun x => by rw [hperm.mem_iff]; exact mem_nonroot_ids
  rw [segments_eq]
  have hfil : ((greedySeqs t (sortedLeafs t len)).filter fun s => s.length > 1) = greedySeqs t (sortedLeafs t len) :=
    List.filter_eq_self.mpr (fun s hs => by simpa using (hpp s hs).2)
  rw [hfil]
  generalize hS : sortBy (segLt len) (greedySeqs t (sortedLeafs t len)) = S
  have hSperm : S.Perm (greedySeqs t (sortedLeafs t len)) := by rw [← hS]; exact sortBy_perm _ _
  have hSpw : S.Pairwise (fun a b => pathLen len b ≤ pathLen len a) := by rw [← hS]; exact sortBy_segLt_pairwise len _
  intro k hk
  by_cases hkS : k < S.length
  · have h1 : (S ++ (isolatedIds t).map fun i => [i]).take k = S.take k :=
      List.take_append_of_le_length (Nat.le_of_lt hkS)
    have h2 : (S ++ (isolatedIds t).map fun i => [i])[k] = S[k] := List.getElem_append_left hkS
    rw [h1, h2]
    have hdec : S = S.take k ++ S[k] :: S.drop (k + 1) := by
      rw [List.getElem_cons_drop]; exact (List.take_append_drop k S).symm
    have hpw' := hSpw
    rw [hdec, List.pairwise_append] at hpw'
    obtain ⟨_, hp2, hp3⟩ := hpw'
    have hk' : k < (S.take k ++ S[k] :: S.drop (k + 1)).length := by rw [← hdec]; exact hkS
    refine greedy_core hw hpos _ hsi hnd hcov (S.take k) (S.drop (k + 1)) S[k] (by rw [← hdec]; exact hSperm) ?_ ?_
    · intro a ha; exact hp3 a ha S[k] List.mem_cons_self
    · intro b hb; exact (List.pairwise_cons.mp hp2).1 b hb
  · -- the single-node segments of isolated nodes
    have hkS' : S.length ≤ k := Nat.le_of_not_lt hkS
    have hlen : (S ++ (isolatedIds t).map fun i => [i]).length = S.length + (isolatedIds t).length := by simp
    have hj : k - S.length < (isolatedIds t).length := by omega
    have h2 : (S ++ (isolatedIds t).map fun i => [i])[k] = [(isolatedIds t)[k - S.length]] := by
      rw [List.getElem_append_right hkS']; simp
    have h1 : ((S ++ (isolatedIds t).map fun i => [i]).take k).flatten = S.flatten ++ (isolatedIds t).take (k - S.length) := by
      rw [List.take_append, List.take_of_length_le hkS', List.flatten_append, ← List.map_take, flatten_map_singleton]
    rw [h1, h2]
    have hiso : (isolatedIds t).Nodup := hw.1.sublist (List.filter_sublist.map _)
    have hr : (isolatedIds t)[k - S.length] ∈ isolatedIds t := List.getElem_mem hj
    obtain ⟨nr, hnr, hnrid, hnrp, hnrcc⟩ := mem_isolatedIds.mp hr
    refine greedy_single hw _ hsi hcov _ _ hr ?_ ?_
    · intro s hs x hx
      exact List.mem_append_left _ (List.mem_flatten.mpr ⟨s, hSperm.mem_iff.mpr hs, hx⟩)
    · intro hmem
      rcases List.mem_append.mp hmem with h | h
      · obtain ⟨a, ha, hxa⟩ := List.mem_flatten.mp h
        have has := hSperm.mem_iff.mp ha
        obtain ⟨l', mid', last', d'⟩ := hsi a has
        rcases d'.mem_cases hxa with e | e
        · obtain ⟨n', hn', hp', hid'⟩ := (hcov _).mp (List.mem_flatMap.mpr ⟨a, has, by rw [d'.dropLast_eq]; exact e⟩)
          have : n' = nr := by
            have h1 := find?_of_mem hw.1 hn'
            have h2 := find?_of_mem hw.1 hnr
            rw [hid', ← hnrid] at h1
            rw [h1] at h2; exact Option.some.inj h2
          rw [this] at hp'; exact hp' hnrp
        · have := d'.inner_pos last' (List.mem_append_right _ (by simp))
          rw [← e, ← hnrid] at this; omega
      · exact getElem_not_mem_take hiso _ hj h


/-- A prefix of a greedy list is greedy (the first `n` segments are "the `n` longest paths taken greedily"). -/
theorem Greedy.take {t : Table} {len : Int → Int → Nat} {segs : List (List Int)} (h : Greedy t len segs) (n : Nat) :
    Greedy t len (segs.take n) := by
  intro k hk
  have hk' : k < segs.length := by
    rw [List.length_take] at hk; omega
  have hkn : k < n := by rw [List.length_take] at hk; omega
  have h1 : (segs.take n)[k] = segs[k] := by simp
  have h2 : (segs.take n).take k = segs.take k := by
    rw [List.take_take]; congr 1; omega
  rw [h1, h2]
  exact h k hk'

end Navis.PruneX
