import NavisModel.Proofs.ForestLemmas
/-! Root paths in well-formed forests and the reroot operation (core Lean only). -/
namespace Navis.Forest

/-! ### pathToRoot -/

theorem pathToRoot_subset (t : Table) (f : Nat) (i : Int) : ∀ a ∈ pathToRoot t f i, a ∈ ids t := by
  induction f generalizing i with
  | zero => simp [pathToRoot]
  | succ f ih =>
    intro a ha
    unfold pathToRoot at ha
    cases hf : find? t i with
    | none => rw [hf] at ha; simp at ha
    | some n =>
      rw [hf] at ha
      have hn := find?_some hf
      have hi : i ∈ ids t := mem_ids.mpr ⟨n, hn.1, hn.2⟩
      simp only at ha
      split at ha
      · simp at ha; exact ha ▸ hi
      · rcases List.mem_cons.mp ha with h | h
        · exact h ▸ hi
        · exact ih _ a h

theorem pathToRoot_head (t : Table) (f : Nat) (i : Int) (hi : i ∈ ids t) :
    (pathToRoot t (f + 1) i).head? = some i := by
  unfold pathToRoot
  cases hf : find? t i with
  | none => exact absurd hi (find?_none hf)
  | some n => simp only; split <;> rfl

/-- Ranks strictly decrease along the path (so it never repeats a node). -/
theorem pathToRoot_ranks {t : Table} (rk : Int → Nat)
    (hrk : ∀ n ∈ t, n.parent < 0 ∨ (n.parent ∈ ids t ∧ rk n.parent < rk n.id)) (f : Nat) (i : Int) :
    (pathToRoot t f i).Pairwise (fun a b => rk b < rk a) ∧ ∀ a ∈ pathToRoot t f i, rk a ≤ rk i := by
  induction f generalizing i with
  | zero => simp [pathToRoot]
  | succ f ih =>
    unfold pathToRoot
    cases hf : find? t i with
    | none => simp
    | some n =>
      have hn := find?_some hf
      simp only
      split
      · simp
      · rename_i hp
        have hlt : rk n.parent < rk i := by
          rcases hrk n hn.1 with h | h
          · exact absurd h hp
          · rw [← hn.2]; exact h.2
        obtain ⟨ih1, ih2⟩ := ih n.parent
        refine ⟨List.pairwise_cons.mpr ⟨?_, ih1⟩, ?_⟩
        · intro a ha; exact Nat.lt_of_le_of_lt (ih2 a ha) hlt
        · intro a ha
          rcases List.mem_cons.mp ha with h | h
          · rw [h]; exact Nat.le_refl _
          · exact Nat.le_of_lt (Nat.lt_of_le_of_lt (ih2 a h) hlt)

theorem pathToRoot_nodup {t : Table} (hw : WF t) (f : Nat) (i : Int) : (pathToRoot t f i).Nodup := by
  obtain ⟨_, _, rk, hrk⟩ := hw
  have := (pathToRoot_ranks rk hrk f i).1
  exact this.imp (fun {a b} h => by intro he; rw [he] at h; exact Nat.lt_irrefl _ h)

theorem pathToRoot_length_le {t : Table} (hw : WF t) (f : Nat) (i : Int) : (pathToRoot t f i).length ≤ t.length := by
  have h1 := pathToRoot_nodup hw f i
  have h2 := pathToRoot_subset t f i
  have := List.Nodup.length_le_of_subset h1 (fun a ha => h2 a ha)
  simpa using this

/-- A walk that did not exhaust its fuel ended in a root. -/
theorem pathToRoot_ends {t : Table} (hpar : ∀ n ∈ t, n.parent < 0 ∨ n.parent ∈ ids t) (f : Nat) (i : Int) (hi : i ∈ ids t)
    (hlen : (pathToRoot t f i).length < f) :
    ∃ r n, (pathToRoot t f i).getLast? = some r ∧ find? t r = some n ∧ n.parent < 0 := by
  induction f generalizing i with
  | zero => simp at hlen
  | succ f ih =>
    unfold pathToRoot at hlen ⊢
    cases hf : find? t i with
    | none => exact absurd hi (find?_none hf)
    | some n =>
      rw [hf] at hlen
      simp only at hlen ⊢
      split
      · rename_i hp; exact ⟨i, n, by simp, hf, hp⟩
      · rename_i hp
        rw [if_neg hp] at hlen
        have hn := find?_some hf
        have hpi : n.parent ∈ ids t := by
          rcases hpar n hn.1 with h | h
          · exact absurd h hp
          · exact h
        have hl : (pathToRoot t f n.parent).length < f := by simpa using hlen
        obtain ⟨r, m, h1, h2, h3⟩ := ih n.parent hpi hl
        refine ⟨r, m, ?_, h2, h3⟩
        rw [List.getLast?_cons]
        rw [h1]; rfl

theorem WF_parents {t : Table} (hw : WF t) : ∀ n ∈ t, n.parent < 0 ∨ n.parent ∈ ids t := by
  obtain ⟨_, _, rk, hrk⟩ := hw
  intro n hn
  rcases hrk n hn with h | h
  · exact Or.inl h
  · exact Or.inr h.1

/-- In a well-formed forest the root path of every node ends in a root. -/
theorem rootPath_ends {t : Table} (hw : WF t) (i : Int) (hi : i ∈ ids t) :
    ∃ r n, (rootPath t i).getLast? = some r ∧ find? t r = some n ∧ n.parent < 0 := by
  unfold rootPath
  apply pathToRoot_ends (WF_parents hw) _ i hi
  have := pathToRoot_length_le hw (t.length + 1) i
  omega

theorem reachesRoot_iff_ends (t : Table) (f : Nat) (i : Int) :
    reachesRoot t f i = true ↔ ∃ r n, (pathToRoot t f i).getLast? = some r ∧ find? t r = some n ∧ n.parent < 0 := by
  induction f generalizing i with
  | zero => simp [reachesRoot, pathToRoot]
  | succ f ih =>
    unfold reachesRoot pathToRoot
    cases hf : find? t i with
    | none => simp
    | some n =>
      simp only
      by_cases hp : n.parent < 0
      · simp only [hp, if_true, true_iff]
        exact ⟨i, n, by simp, hf, hp⟩
      · simp only [hp, if_false]
        rw [ih]
        constructor
        · rintro ⟨r, m, h1, h2, h3⟩
          refine ⟨r, m, ?_, h2, h3⟩
          rw [List.getLast?_cons, h1]; rfl
        · rintro ⟨r, m, h1, h2, h3⟩
          rw [List.getLast?_cons] at h1
          cases hl : (pathToRoot t f n.parent).getLast? with
          | none =>
            rw [hl] at h1
            simp at h1
            rw [← h1, hf] at h2
            simp at h2
            exact absurd (h2 ▸ h3) hp
          | some r' =>
            rw [hl] at h1; simp at h1
            exact ⟨r, m, by rw [h1], h2, h3⟩

/-- Consecutive elements are child and parent. -/
def Linked (t : Table) : List Int → Prop
  | a :: b :: rest => (∃ n, find? t a = some n ∧ n.parent = b ∧ 0 ≤ b) ∧ Linked t (b :: rest)
  | _ => True

theorem pathToRoot_linked (t : Table) (f : Nat) (i : Int) : Linked t (pathToRoot t f i) := by
  induction f generalizing i with
  | zero => simp [pathToRoot, Linked]
  | succ f ih =>
    unfold pathToRoot
    cases hf : find? t i with
    | none => simp [Linked]
    | some n =>
      simp only
      split
      · simp [Linked]
      · rename_i hp
        have hrec := ih n.parent
        cases hpth : pathToRoot t f n.parent with
        | nil => simp [Linked]
        | cons b rest =>
          rw [hpth] at hrec
          have hb : b = n.parent := by
            cases f with
            | zero => simp [pathToRoot] at hpth
            | succ f =>
              unfold pathToRoot at hpth
              cases hf2 : find? t n.parent with
              | none => rw [hf2] at hpth; simp at hpth
              | some m =>
                rw [hf2] at hpth; simp only at hpth
                split at hpth <;> simp at hpth <;> exact hpth.1.symm
          unfold Linked
          exact ⟨⟨n, hf, hb.symm, by rw [hb]; omega⟩, hrec⟩

end Navis.Forest
