import NavisModel.Proofs.RerootGraphLemmas
/-!
C10 second pass (core Lean only): the networkx branch of `reroot_skeleton` — follow `successors` from the new
root, remove each edge and record its weight, stop when there is no successor, add the inverted edges — produces
exactly the graph the igraph branch produces (`rerootGraphIg`), hence the graph of the rerooted node table.  The
loop test is data (`NxWalkSpec`, read from the source): with identity tests the as-written walk is `walkNx`.
-/
namespace Navis.TreeEdit
open Navis.Forest

/-! ### the as-written walk with identity tests is the plain walk -/

theorem walkNxAW_ref : ∀ (fuel : Nat) (g : WGraph) (cur : Int), walkNxAW refNxWalkSpec fuel g cur = walkNx fuel g cur
  | 0, _, _ => rfl
  | fuel + 1, g, cur => by
    unfold walkNxAW walkNx
    cases succOf g cur with
    | none => rfl
    | some e =>
      obtain ⟨p, w⟩ := e
      have e : refNxWalkSpec.loopIsNotNone = true := rfl
      simp only [saysNoParent, e, Bool.not_true, Bool.false_and, Bool.false_eq_true, if_false]
      rw [walkNxAW_ref fuel]

/-! ### counting: a duplicate-free list inside another one is not longer -/

theorem length_le_of_nodup_subset {α : Type} [DecidableEq α] : ∀ {l m : List α}, l.Nodup → (∀ a ∈ l, a ∈ m) → l.length ≤ m.length
  | [], _, _, _ => Nat.zero_le _
  | a :: l, m, hnd, hsub => by
    have ha : a ∈ m := hsub a List.mem_cons_self
    have hnd' := List.nodup_cons.mp hnd
    have hsub' : ∀ b ∈ l, b ∈ m.erase a := by
      intro b hb
      have hne : b ≠ a := fun e => hnd'.1 (e ▸ hb)
      exact (List.mem_erase_of_ne hne).mpr (hsub b (List.mem_cons_of_mem _ hb))
    have ih := length_le_of_nodup_subset hnd'.2 hsub'
    rw [List.length_erase_of_mem ha] at ih
    have hpos : 0 < m.length := List.length_pos_of_mem ha
    simp only [List.length_cons]
    omega

/-! ### successors in (a part of) the graph of a table -/

theorem graphOf_functional {t : Table} (hnd : (ids t).Nodup) {len : Int → Int → Nat} {x y : WEdge}
    (hx : x ∈ graphOf t len) (hy : y ∈ graphOf t len) (h : x.1 = y.1) : x = y := by
  obtain ⟨n, hn, _, rfl⟩ := mem_graphOf.mp hx
  obtain ⟨m, hm, _, rfl⟩ := mem_graphOf.mp hy
  simp only at h
  have e1 := find?_of_mem hnd hn
  have e2 := find?_of_mem hnd hm
  rw [h, e2] at e1
  simp only [Option.some.injEq] at e1
  subst e1
  rfl

/-- In a part `G` of a functional graph that still holds the edge out of `cur`, `successors(cur)` is that edge. -/
theorem succOf_of_mem {g G : WGraph} (hfun : ∀ x ∈ g, ∀ y ∈ g, x.1 = y.1 → x = y) (hsub : ∀ x ∈ G, x ∈ g)
    {cur p : Int} {w : Nat} (he : (cur, p, w) ∈ G) : succOf G cur = some (p, w) := by
  unfold succOf
  cases hf : G.find? (fun x => x.1 == cur) with
  | none =>
    have := List.find?_eq_none.mp hf (cur, p, w) he
    simp at this
  | some x =>
    have hx := List.mem_of_find?_eq_some hf
    have hp := List.find?_some hf
    simp only [beq_iff_eq] at hp
    have := hfun x (hsub x hx) (cur, p, w) (hsub _ he) hp
    rw [this]
    rfl

theorem succOf_none {G : WGraph} {cur : Int} (h : ∀ x ∈ G, x.1 ≠ cur) : succOf G cur = none := by
  unfold succOf
  have : G.find? (fun x => x.1 == cur) = none := by
    rw [List.find?_eq_none]
    intro x hx
    simp only [beq_iff_eq]
    exact h x hx
  rw [this]
  rfl

/-! ### what the walk returns -/

theorem pathEdges_cons_cons (a b : Int) (l : List Int) : pathEdges (a :: b :: l) = (a, b) :: pathEdges (b :: l) := rfl

/-- **The walk**: started at a node of the table, in a part of the graph that still holds every edge leaving a node
of that node's root path, with enough fuel, it returns the root path, the edge lengths along it and the graph without
the path edges. -/
theorem walkNx_spec {t : Table} (hw : WF t) (len : Int → Int → Nat) : ∀ (fuel : Nat) (cur : Int) (G : WGraph),
    cur ∈ ids t → (rootPath t cur).length ≤ fuel → (∀ x ∈ G, x ∈ graphOf t len) →
    (∀ x ∈ graphOf t len, x.1 ∈ rootPath t cur → x ∈ G) →
    walkNx fuel G cur = (rootPath t cur, (pathEdges (rootPath t cur)).map (fun e => len e.1 e.2),
      G.filter fun x => !((pathEdges (rootPath t cur)).contains (x.1, x.2.1))) := by
  intro fuel
  induction fuel with
  | zero =>
    intro cur G hcur hlen _ _
    obtain ⟨rest, hrest⟩ := rootPath_cons hcur
    rw [hrest] at hlen
    simp at hlen
  | succ fuel ih =>
    intro cur G hcur hlen hsub hhold
    obtain ⟨n, hn, rfl⟩ := mem_ids.mp hcur
    have hf := find?_of_mem hw.1 hn
    unfold walkNx
    by_cases hp : n.parent < 0
    · -- a root: no edge leaves it
      have hnone : succOf G n.id = none := by
        apply succOf_none
        intro x hx hsrc
        obtain ⟨m, hm, hmp, rfl⟩ := mem_graphOf.mp (hsub x hx)
        simp only at hsrc
        have e := find?_of_mem hw.1 hm
        rw [hsrc, hf] at e
        simp only [Option.some.injEq] at e
        exact hmp (e ▸ hp)
      rw [hnone, rootPath_of_root hf hp]
      simp only [pathEdges, List.tail_cons, List.zip_nil_right, List.map_nil, List.contains_nil, Bool.not_false]
      refine Prod.ext rfl (Prod.ext rfl ?_)
      exact (List.filter_eq_self.mpr fun _ _ => rfl).symm
    · have hpath := rootPath_of_nonroot hw hf hp
      have hpin := WF_parent_mem hw hn hp
      obtain ⟨rest, hrest⟩ := rootPath_cons hpin
      have he0 : (n.id, n.parent, len n.id n.parent) ∈ G :=
        hhold _ (mem_graphOf.mpr ⟨n, hn, hp, rfl⟩) (by rw [hpath]; exact List.mem_cons_self)
      have hsucc := succOf_of_mem (fun x hx y hy => graphOf_functional hw.1 hx hy) hsub he0
      rw [hsucc]
      simp only
      have hlen' : (rootPath t n.parent).length ≤ fuel := by
        rw [hpath] at hlen
        simp only [List.length_cons] at hlen
        omega
      have hnot : n.id ∉ rootPath t n.parent := parent_not_distal hw hn hp
      rw [ih n.parent (G.filter fun x => !(x.1 == n.id && x.2.1 == n.parent)) hpin hlen'
        (fun x hx => hsub x (List.mem_filter.mp hx).1)
        (by
          intro x hx hsrc
          refine List.mem_filter.mpr ⟨hhold x hx (by rw [hpath]; exact List.mem_cons_of_mem _ hsrc), ?_⟩
          have : x.1 ≠ n.id := fun e => hnot (e ▸ hsrc)
          simp [this])]
      rw [hpath, hrest, pathEdges_cons_cons]
      simp only [List.map_cons, List.filter_filter]
      refine Prod.ext rfl (Prod.ext rfl ?_)
      simp only
      apply List.filter_congr
      intro x _
      rw [List.contains_cons]
      have hb : ((x.1, x.2.1) == (n.id, n.parent)) = (x.1 == n.id && x.2.1 == n.parent) := rfl
      rw [hb]
      generalize (pathEdges (n.parent :: rest)).contains (x.1, x.2.1) = c
      generalize (x.1 == n.id && x.2.1 == n.parent) = d
      cases c <;> cases d <;> rfl

/-! ### the networkx branch produces the graph of the igraph branch -/

theorem invertedEdges_map (f : Int × Int → Nat) : ∀ (l : List Int),
    invertedEdges l ((pathEdges l).map f) = (pathEdges l).map fun e => (e.2, e.1, f e)
  | [] => rfl
  | [_] => rfl
  | a :: b :: rest => by
    rw [pathEdges_cons_cons]
    simp only [List.map_cons, invertedEdges]
    rw [invertedEdges_map f (b :: rest)]

theorem length_pathEdges (l : List Int) : (pathEdges l).length = l.length - 1 := by
  unfold pathEdges
  simp only [List.length_zip, List.length_tail]
  omega

theorem pathEdge_mem_edges {t : Table} {r : Int} {path : List Int} (h : RPath t r path) {e : Int × Int}
    (he : e ∈ pathEdges path) : e ∈ edges t := by
  obtain ⟨a, b⟩ := e
  obtain ⟨q, hfq, hqp, hb0⟩ := pathEdge_link h he
  have hq := find?_some hfq
  exact mem_edges.mpr ⟨q, hq.1, by rw [hqp]; omega, by rw [hq.2, hqp]⟩

theorem rootPath_length_le_graph {t : Table} (hw : WF t) (len : Int → Int → Nat) {r : Int} (hr : r ∈ ids t) :
    (rootPath t r).length ≤ (graphOf t len).length + 1 := by
  have h := rootPath_RPath hw hr
  have h1 := length_le_of_nodup_subset (pathEdges_nodup h.nodup) (fun e he => pathEdge_mem_edges h he)
  rw [length_pathEdges] at h1
  have h2 : (graphOf t len).length = (edges t).length := by unfold graphOf; simp
  omega

/-- No inverted path edge is itself a path edge. -/
theorem inverted_not_pathEdge {t : Table} (hw : WF t) {r : Int} {path : List Int} (h : RPath t r path) {a b : Int}
    (he : (a, b) ∈ pathEdges path) : (b, a) ∉ pathEdges path := by
  intro hback
  obtain ⟨q, hfq, hqp, _⟩ := pathEdge_link h he
  obtain ⟨q', hfq', hqp', _⟩ := pathEdge_link h hback
  have hq := find?_some hfq
  have hq' := find?_some hfq'
  exact no_two_cycle hw hq.1 hq'.1 (by rw [hqp, hq'.2]) (by rw [hqp', hq.2])

/-- **The networkx branch and the igraph branch edit the graph to the same edge list.** -/
theorem rerootGraphNx_eq_ig {t : Table} (hw : WF t) (len : Int → Int → Nat) {r : Int} (hr : r ∈ ids t) :
    rerootGraphNx (graphOf t len) r = rerootGraphIg (graphOf t len) (rootPath t r) := by
  have h := rootPath_RPath hw hr
  unfold rerootGraphNx rerootGraphIg
  simp only
  rw [walkNx_spec hw len _ r (graphOf t len) hr (rootPath_length_le_graph hw len hr) (fun _ hx => hx) (fun _ hx _ => hx)]
  simp only
  rw [invertedEdges_map, List.filter_append]
  congr 1
  have hadd : ∀ x ∈ (pathEdges (rootPath t r)).map (fun e => (e.2, e.1, weightOf (graphOf t len) e.1 e.2)),
      (!(pathEdges (rootPath t r)).contains (x.1, x.2.1)) = true := by
    intro x hx
    obtain ⟨e, he, rfl⟩ := List.mem_map.mp hx
    obtain ⟨a, b⟩ := e
    simp only [Bool.not_eq_true', List.contains_eq_mem, decide_eq_false_iff_not]
    exact inverted_not_pathEdge hw h he
  rw [List.filter_eq_self.mpr hadd]
  apply List.map_congr_left
  intro e he
  rw [weightOf_graphOf len (pathEdge_mem_edges h he)]

/-- **The networkx branch as the source spells it** (skip test `is None`, loop test `is not None`) edits the graph to
the graph of the rerooted node table — for every forest, every target (roots and absent ids included: nothing
happens), every symmetric edge length, node id 0 anywhere. -/
theorem rerootGraphNxAW_ref_perm {t : Table} (hw : WF t) (len : Int → Int → Nat) (hsym : ∀ a b, len a b = len b a) (r : Int) :
    (rerootGraphNxAW refNxWalkSpec (graphOf t len) r).Perm (graphOf (reroot t r) len) := by
  unfold rerootGraphNxAW
  have e1 : refNxWalkSpec.skipIsNone = true := rfl
  cases hf : find? t r with
  | none =>
    have hnone : succOf (graphOf t len) r = none := by
      apply succOf_none
      intro x hx hsrc
      obtain ⟨m, hm, _, rfl⟩ := mem_graphOf.mp hx
      simp only at hsrc
      exact find?_none hf (hsrc ▸ mem_ids_of_mem hm)
    have : reroot t r = t := by unfold reroot; rw [hf]
    simp [hnone, saysNoParent, this]
  | some nr =>
    have hnr := find?_some hf
    by_cases hp : nr.parent < 0
    · have hnone : succOf (graphOf t len) r = none := by
        apply succOf_none
        intro x hx hsrc
        obtain ⟨m, hm, hmp, rfl⟩ := mem_graphOf.mp hx
        simp only at hsrc
        have e := find?_of_mem hw.1 hm
        rw [hsrc, hf] at e
        simp only [Option.some.injEq] at e
        exact hmp (e ▸ hp)
      have : reroot t r = t := by unfold reroot; rw [hf]; simp [hp]
      simp [hnone, saysNoParent, this]
    · have hr : r ∈ ids t := mem_ids.mpr ⟨nr, hnr⟩
      have hsome : succOf (graphOf t len) r = some (nr.parent, len r nr.parent) := by
        apply succOf_of_mem (fun x hx y hy => graphOf_functional hw.1 hx hy) (fun _ hx => hx)
        exact mem_graphOf.mpr ⟨nr, hnr.1, hp, by rw [hnr.2]⟩
      simp only [hsome, saysNoParent, e1, Bool.not_true, Bool.false_and, Bool.false_eq_true, if_false]
      rw [walkNxAW_ref]
      have := rerootGraphNx_eq_ig hw len hr
      unfold rerootGraphNx at this
      simp only at this
      rw [this]
      exact rerootGraphIg_perm hw len hsym hf hp

end Navis.TreeEdit
