def hello := "world"
