import NavisModel.Model.Backends
/-
The two pure-Python variants of the segment builders in `navis/graph/graph_utils.py` (C04), AS WRITTEN:

* `_break_segments`, igraph branch: vertices are ROW POSITIONS; `end` / `branch` / `root` from in- and
  out-degrees of the graph built by `neuron2igraph`; seeds `set(branch + end) - set(root)`, stops
  `set(branch + root)`; each seed walks `g.successors(·)[0]` until it hits a stop; positions are translated
  back through the `node_id` attribute at the end.
* `_break_segments`, networkx branch: vertices are NODE IDS; seeds / stops from the `type` column; each
  seed walks `next(g.successors(·), None)`.
* `_generate_segments`: leafs (typed `end`) sorted by decreasing root distance (stable), translated to
  positions on the igraph branch; every leaf walks `g.successors(·)[0]` marking nodes `seen` until it has
  appended an already seen node or has no parent; single-node sequences dropped; positions translated
  back; sorted by decreasing `(length, sequence)`; isolated nodes appended.

Both graphs are edge lists (`idxEdges` / `idEdges` of `Model/Backends.lean`, what `neuron2igraph` /
`neuron2nx` build); `successors` and the degrees are computed from those lists.  `none` models the Python
exceptions (`IndexError` on `successors(..)[0]`, `NetworkXError` on `successors(None)`, `KeyError` in the
translation dictionaries) and non-termination.  Import-free, total, computable.
-/
namespace Navis.SegVar
open Navis.Forest

/-! ### the two graphs -/

/-- `g.vs["node_id"][ix]` / `ix2id[ix]` (`none` = `KeyError` / `IndexError`). -/
def idAt? (t : Table) (ix : Nat) : Option Int := (ids t)[ix]?

/-- `id2ix[i]` (`none` = `KeyError`). -/
def ixOf? (t : Table) (i : Int) : Option Nat := if (ids t).contains i then some ((ids t).idxOf i) else none

/-- igraph `g.successors(ix)`: targets of the edges that start at position `ix`. -/
def succIdx (t : Table) (ix : Nat) : List Nat := ((idxEdges t).filter fun e => e.1 == ix).map (·.2)

/-- networkx `g.successors(i)`. -/
def succId (t : Table) (i : Int) : List Int := ((idEdges t).filter fun e => e.1 == i).map (·.2)

def indegIdx (t : Table) (ix : Nat) : Nat := ((idxEdges t).filter fun e => e.2 == ix).length
def outdegIdx (t : Table) (ix : Nat) : Nat := ((idxEdges t).filter fun e => e.1 == ix).length

/-! ### `_break_segments` -/

/-- `g.vs.select(_indegree=0).indices` -/
def endIdx (t : Table) : List Nat := (List.range t.length).filter fun ix => indegIdx t ix == 0
/-- `g.vs.select(_indegree_gt=1, _outdegree=1).indices` -/
def branchIdx (t : Table) : List Nat := (List.range t.length).filter fun ix => decide (indegIdx t ix > 1) && outdegIdx t ix == 1
/-- `g.vs.select(_outdegree=0).indices` -/
def rootIdx (t : Table) : List Nat := (List.range t.length).filter fun ix => outdegIdx t ix == 0

/-- `set(branch + end) - set(root)`, listed branch points first (Python iterates the set in an arbitrary
order: the theorems are up to permutation of the seeds). -/
def seedsIdx (t : Table) : List Nat := (branchIdx t ++ endIdx t).filter fun ix => !(rootIdx t).contains ix

/-- `set(branch + root)` -/
def stopsIdx (t : Table) : List Nat := branchIdx t ++ rootIdx t

/-- `while parent not in stops: parent = g.successors(parent)[0]; seg.append(parent)` — the nodes appended
after `p` (which is already in the segment). -/
def tailIdx (t : Table) (stops : List Nat) : Nat → Nat → Option (List Nat)
  | 0, _ => none
  | fuel + 1, p =>
    if stops.contains p then some []
    else match succIdx t p with
      | [] => none
      | q :: _ => (tailIdx t stops fuel q).map (q :: ·)

/-- `parent = g.successors(s)[0]; seg = [s, parent]; while …`. -/
def segIdx (t : Table) (stops : List Nat) (s : Nat) : Option (List Nat) :=
  match succIdx t s with
  | [] => none
  | p :: _ => (tailIdx t stops (t.length + 1) p).map fun r => s :: p :: r

/-- igraph branch of `_break_segments`, seeds visited in the order `seeds`, translated back to node ids. -/
def breakIgraphFrom (t : Table) (seeds : List Nat) : Option (List (List Int)) :=
  match seeds.mapM (segIdx t (stopsIdx t)) with
  | none => none
  | some segs => segs.mapM fun s => s.mapM (idAt? t)

def breakIgraph (t : Table) : Option (List (List Int)) := breakIgraphFrom t (seedsIdx t)

def tailId (t : Table) (stops : List Int) : Nat → Int → Option (List Int)
  | 0, _ => none
  | fuel + 1, p =>
    if stops.contains p then some []
    else match succId t p with
      | [] => none
      | q :: _ => (tailId t stops fuel q).map (q :: ·)

def segId (t : Table) (stops : List Int) (s : Int) : Option (List Int) :=
  match succId t s with
  | [] => none
  | p :: _ => (tailId t stops (t.length + 1) p).map fun r => s :: p :: r

/-- networkx branch of `_break_segments` (seeds in table order). -/
def breakNx (t : Table) : Option (List (List Int)) := (seedsNx t).mapM (segId t (stopsNx t))

/-! ### `_generate_segments` -/

/-- `sorted(endNodeIDs, key=d.get, reverse=True)`: rows typed `end`, by decreasing root distance, STABLE as
Python's sort is (rows at the same distance keep their table order: an element already placed stays in
front of the one being inserted only when it is strictly deeper). -/
def sortedEnds (t : Table) (len : Int → Int → Nat) : List Int :=
  sortBy (fun y x => decide (distToRoot t len x < distToRoot t len y))
    ((t.filter fun n => n.label == .end_).map (·.id))

/-- The inner `while True` loop on the igraph: continue from `cur` (already in the sequence). -/
def growIdx (t : Table) : Nat → Nat → List Nat → Option (List Nat × List Nat)
  | 0, _, _ => none
  | fuel + 1, cur, seen =>
    match succIdx t cur with
    | [] => some ([], seen)
    | p :: _ =>
      if seen.contains p then some ([p], seen)
      else (growIdx t fuel p (p :: seen)).map fun r => (p :: r.1, r.2)

def growId (t : Table) : Nat → Int → List Int → Option (List Int × List Int)
  | 0, _, _ => none
  | fuel + 1, cur, seen =>
    match succId t cur with
    | [] => some ([], seen)
    | p :: _ =>
      if seen.contains p then some ([p], seen)
      else (growId t fuel p (p :: seen)).map fun r => (p :: r.1, r.2)

/-- `for nodeID in endNodeIDs: …; if len(sequence) > 1: sequences.append(sequence)` on positions. -/
def seqsIdx (t : Table) (leafs : List Nat) : Option (List (List Nat)) :=
  (leafs.foldlM (fun (acc : List (List Nat) × List Nat) l =>
      (growIdx t (t.length + 1) l acc.2).map fun r =>
        (if r.1.length + 1 > 1 then acc.1 ++ [l :: r.1] else acc.1, r.2)) ([], [])).map (·.1)

def seqsId (t : Table) (leafs : List Int) : Option (List (List Int)) :=
  (leafs.foldlM (fun (acc : List (List Int) × List Int) l =>
      (growId t (t.length + 1) l acc.2).map fun r =>
        (if r.1.length + 1 > 1 then acc.1 ++ [l :: r.1] else acc.1, r.2)) ([], [])).map (·.1)

/-- `lengths = [d[s[0]] - d[s[-1]] …]; sorted(zip(lengths, sequences), reverse=True)` then the isolated
nodes (`nx.isolates(x.graph)`: no in- and no out-edges, in node order). -/
def finish (t : Table) (len : Int → Int → Nat) (seqs : List (List Int)) : List (List Int) :=
  let key := fun (s : List Int) =>
    (distToRoot t len (s.head?.getD 0) - distToRoot t len (s.getLast?.getD 0), s)
  let sorted := sortBy (fun y x => let ky := key y; let kx := key x
      decide (kx.1 < ky.1) || (kx.1 == ky.1 && !lexLt ky.2 kx.2)) seqs
  let isolated := (t.filter fun n =>
      ((idEdges t).filter fun e => e.1 == n.id || e.2 == n.id).isEmpty).map fun n => [n.id]
  sorted ++ isolated

/-- igraph branch of `_generate_segments`. -/
def genIgraph (t : Table) (len : Int → Int → Nat) : Option (List (List Int)) :=
  match (sortedEnds t len).mapM (ixOf? t) with
  | none => none
  | some leafs =>
    match seqsIdx t leafs with
    | none => none
    | some seqs =>
      match seqs.mapM (fun s => s.mapM (idAt? t)) with
      | none => none
      | some seqs => some (finish t len seqs)

/-- networkx branch of `_generate_segments`. -/
def genNx (t : Table) (len : Int → Int → Nat) : Option (List (List Int)) :=
  (seqsId t (sortedEnds t len)).map (finish t len)

end Navis.SegVar
