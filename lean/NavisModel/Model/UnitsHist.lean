import NavisModel.Model.Units
import NavisModel.Gen.Units
/-!
# C15 — physical quantities after a *history* (cached distance views + coordinate arithmetic)

A `TreeNeuron` caches derived views in the attributes listed in `TEMP_ATTR` (`_igraph`, `_graph_nx`: graphs whose
edge weights are the Euclidean edge lengths *at the time the graph was built*; `_geodesic_matrix`, `_cable_length`,
`_segments` (sorted by length), `_simple`, …).  `__mul__/__truediv__/__add__/__sub__` work on `n = self.copy()`
(`copy=False` for `*= …`): `copy` carries every cached attribute over (`__dict__` copy; the two graphs are copied
explicitly while the neuron is not stale), the node table / connectors / units are rewritten and the operator ends
with `n._clear_temp_attr(exclude=[…])`, which deletes every attribute of `TEMP_ATTR` that is not excluded **and
re-stamps the content hash** — so a view that survives the clear is never detected as stale afterwards.

The model keeps, per cached attribute, the coordinates the view was computed from (a snapshot of the point list;
the topology `par` never changes under arithmetic).  Which attributes a step deletes is read from the *generated*
`Gen.Units.treeTempAttr` / `Gen.Units.opFacts` (the literals of the current source).

Edge lengths: `len : V3 → α` is a parameter (theorems: any absolutely-homogeneous function, e.g. the real Euclidean
norm); the driver instantiates it with `elen`, the exact rational root on the integer-length edges the harness
generates.
-/
namespace Navis.Units

/-! ## exact Euclidean length on rational squares -/

def normSq (v : V3) : Rat := v.x * v.x + v.y * v.y + v.z * v.z

/-- `√q` for a rational square `q` (the floor-root of numerator × denominator over the denominator otherwise). -/
def sqrtQ (q : Rat) : Rat := ((Nat.sqrt (q.num.toNat * q.den) : Nat) : Rat) / (q.den : Rat)

/-- is `q` the square of a rational? -/
def isSquareQ (q : Rat) : Bool := decide (0 ≤ q) && (sqrtQ q * sqrtQ q == q)

def elen (v : V3) : Rat := sqrtQ (normSq v)

/-! ## skeleton with cached views -/

/-- `nrn`: the C15 neuron (`kind = tree`, `pts` in row order); `par`: row index of the parent of every row
(negative or out of range: root); `cache`: cached attribute ↦ the coordinates it was computed from. -/
structure Skel where
  nrn : Neuron
  par : List Int
  cache : List (String × List V3)

/-- child − parent for every row (zero vector for roots), in row order -/
def edgeVecs (pts : List V3) (par : List Int) : List V3 :=
  (pts.zip par).map fun cp =>
    if 0 ≤ cp.2 then
      match pts[cp.2.toNat]? with
      | some q => cp.1.sub q
      | none => ⟨0, 0, 0⟩
    else ⟨0, 0, 0⟩

/-- physical edge vectors: (child − parent) × units, per axis (metres) -/
def physEdges (s : Skel) : List V3 := (edgeVecs s.nrn.pts s.par).map (fun d => d.mul s.nrn.units.phys)

/-- edge weights as computed from the node table (`neuron2nx` / `neuron2igraph` / `parent_dist`) -/
def weights {α : Type} (len : V3 → α) (s : Skel) : List α := (edgeVecs s.nrn.pts s.par).map len

/-- coordinates a view currently reflects: its snapshot when cached, the node table otherwise (the view is then
computed on access) -/
def viewPts (s : Skel) (a : String) : List V3 :=
  match s.cache.lookup a with
  | some snap => snap
  | none => s.nrn.pts

/-- edge weights a distance view currently returns -/
def viewW {α : Type} (len : V3 → α) (s : Skel) (a : String) : List α := (edgeVecs (viewPts s a) s.par).map len

/-- cached attributes whose content depends on edge *lengths* -/
def weightViews : List String :=
  ["_igraph", "_graph_nx", "_geodesic_matrix", "_cable_length", "_segments", "_adjacency_matrix"]

/-- cached attributes that carry *coordinates* -/
def coordViews : List String := ["_simple"]

/-- `BaseNeuron._clear_temp_attr(exclude)`: `for a in [at for at in self.TEMP_ATTR if at not in exclude]: delattr` -/
def clearCache (tempAttr exclude : List String) (c : List (String × List V3)) : List (String × List V3) :=
  c.filter fun e => !(tempAttr.contains e.1) || exclude.contains e.1

/-- the literal `exclude=[…]` that ends `TreeNeuron.<op>` in the current source (`none`: no such operator / the clear
is not applied to the returned object) -/
def treeExclude (op : String) : Option (List String) :=
  match Gen.Units.opFacts.find? (fun f => f.cls == "TreeNeuron" && f.op == op) with
  | some f => if f.clearRecv == "n" && f.returns == "n" then some f.clearExclude else none
  | none => none

/-- caches of the object an operator returns: everything `copy()` carried over, minus what the final clear deletes
(no clear on the returned object: everything survives) -/
def afterOp (op : String) (c : List (String × List V3)) : List (String × List V3) :=
  match treeExclude op with
  | some ex => clearCache Gen.Units.treeTempAttr ex c
  | none => c

/-- `convert_units`: `n *= conv` and then its own `n._clear_temp_attr(exclude=…)` -/
def afterConvert (c : List (String × List V3)) : List (String × List V3) :=
  let c1 := afterOp "mul" c
  if Gen.Units.convertClearRecv == "n" then clearCache Gen.Units.treeTempAttr Gen.Units.convertClearExclude c1 else c1

inductive Step where
  /-- access the cached views `attrs`: each one is computed from the current table unless already present -/
  | warm (attrs : List String)
  /-- `x * f` / `x / f` (also `*=`, `/=`: the same resulting object); `p`: prefix `to_compact` picks -/
  | scale (isDiv : Bool) (f : Factor) (p : Int)
  /-- `x + o` / `x - o` -/
  | shift (isSub : Bool) (o : Factor)
  /-- `x.convert_units(10^tgt m)` -/
  | convert (tgt p : Int)
deriving DecidableEq

def warmOne (s : Skel) (a : String) : Skel :=
  match s.cache.lookup a with
  | some _ => s
  | none => { s with cache := (a, s.nrn.pts) :: s.cache }

def step (s : Skel) : Step → Option Skel
  | .warm attrs => some (attrs.foldl warmOne s)
  | .scale false f p => (mul s.nrn f p).map fun m => { s with nrn := m, cache := afterOp "mul" s.cache }
  | .scale true f p => (div s.nrn f p).map fun m => { s with nrn := m, cache := afterOp "div" s.cache }
  | .shift false o => (add s.nrn o).map fun m => { s with nrn := m, cache := afterOp "add" s.cache }
  | .shift true o => (sub s.nrn o).map fun m => { s with nrn := m, cache := afterOp "sub" s.cache }
  | .convert tgt p => (convertUnits s.nrn tgt p).map fun m => { s with nrn := m, cache := afterConvert s.cache }

def runHist (s : Skel) : List Step → Option Skel
  | [] => some s
  | st :: rest =>
    match step s st with
    | some s' => runHist s' rest
    | none => none

/-- every cached distance view reflects the current node table -/
def Coherent (s : Skel) : Prop :=
  ∀ e ∈ s.cache, (e.1 ∈ weightViews → edgeVecs e.2 s.par = edgeVecs s.nrn.pts s.par) ∧
    (e.1 ∈ coordViews → e.2 = s.nrn.pts)

/-! ## path sums -/

/-- geodesic distance of row `i` to its root: sum of the edge weights along the parent chain (`fuel` ≥ depth) -/
def pathToRoot {α : Type} [Add α] [OfNat α 0] (w : List α) (par : List Int) : Nat → Nat → α
  | 0, _ => 0
  | fuel + 1, i =>
    match par[i]? with
    | some p => if 0 ≤ p ∧ p.toNat < par.length then w.getD i 0 + pathToRoot w par fuel p.toNat else 0
    | none => 0

/-- cable length: sum of all edge weights -/
def cable {α : Type} [Add α] [OfNat α 0] (w : List α) : α := w.foldr (· + ·) 0

/-! ## Lean-side checker evaluated on navis' own output -/

/-- purely relative closeness `|a − b| ≤ tol·|b|` (physical lengths in metres are tiny: no absolute floor) -/
def relClose (tol a b : Rat) : Bool := rabs (a - b) ≤ tol * rabs b

def allClose (tol : Rat) : List Rat → List Rat → Bool
  | [], [] => true
  | a :: as, b :: bs => relClose tol a b && allClose tol as bs
  | _, _ => false

/-- every edge of `s` has a rational length (the harness generates integer-length edges and dyadic factors) -/
def exactEdges (s : Skel) : Bool := (edgeVecs s.nrn.pts s.par).all fun d => isSquareQ (normSq d)

/-- isometric units of positive physical size -/
def isoPos (u : Units) : Bool := u.iso && decide (0 < u.phys.x)

/-- **histPhysB** — the property on the implementation's output: the edge weights `w` a distance view of the
*result* returns (units `uOut`), times the unit, are the lengths of the physical edge vectors of the neuron the
history started from. -/
def histPhysB (tol : Rat) (s0 : Skel) (uOut : Units) (w : List Rat) : Bool :=
  allClose tol (w.map (· * uOut.phys.x)) ((physEdges s0).map elen)

/-- the same for a vector of distances to the root (path sums) -/
def histPathB (tol : Rat) (s0 : Skel) (uOut : Units) (d : List Rat) : Bool :=
  let w0 := (physEdges s0).map elen
  allClose tol (d.map (· * uOut.phys.x)) ((List.range s0.par.length).map (pathToRoot w0 s0.par s0.par.length))

/-- and for the cable length -/
def histCableB (tol : Rat) (s0 : Skel) (uOut : Units) (c : Rat) : Bool :=
  relClose tol (c * uOut.phys.x) (cable ((physEdges s0).map elen))

/-! ## the `add_units` decorator (`config.add_units = True`) -/

/-- What a property wrapped in `@add_units(power=d)` reports for a raw value `raw` (a number in neuron units to the
`d`-th power), as a physical quantity in metres^`d`: `raw * np.power(self.units, d)` — per axis for per-axis units
(numpy broadcasts the unit array) —; for dimensionless neurons the raw value is returned as is (`phys = mag`).
`to_compact()` only changes the prefix the quantity is written in. -/
def addUnitsPhys (d : Nat) (u : Units) (raw : Rat) : V3 :=
  ⟨raw * u.phys.x ^ d, raw * u.phys.y ^ d, raw * u.phys.z ^ d⟩

/-- power of the length unit carried by a decorated property, from the *generated* decorator sites -/
def addUnitsPower (cls prop : String) : Option Nat :=
  (Gen.Units.addUnitsSites.find? (fun s => s.1 == cls && s.2.1 == prop)).map (fun s => s.2.2.2)

/-- checker on the implementation's output: `q` = the reported quantity converted to base units (metres^d), per axis -/
def addUnitsB (tol : Rat) (d : Nat) (u : Units) (raw : Rat) (q : V3) : Bool :=
  let m := addUnitsPhys d u raw
  relClose tol q.x m.x && relClose tol q.y m.y && relClose tol q.z m.z

/-! ## VoxelNeuron.volume -/

def V3.axis (v : V3) : Nat → Rat
  | 0 => v.x
  | 1 => v.y
  | 2 => v.z
  | _ => 1

/-- `VoxelNeuron.volume` as written: `self.nnz * self.units_xyz[i] * self.units_xyz[j] * …` for the axes `i, j, …` of the
current source (`Gen.Units.voxelVolumeAxes`), a quantity in metres^(number of axes); not wrapped in `add_units` (navis
afa4901), so the value is the same with and without `config.add_units`. -/
def voxelVolumeBy (axes : List Nat) (u : Units) (nnz : Nat) : Rat :=
  axes.foldl (fun acc a => acc * u.phys.axis a) (nnz : Rat)

def voxelVolume (u : Units) (nnz : Nat) : Rat := voxelVolumeBy Gen.Units.voxelVolumeAxes u nnz

/-- checker on the implementation's output (`q`: the reported quantity in base units, `dim`: its power of length) -/
def voxelVolumeB (tol : Rat) (u : Units) (nnz : Nat) (dim : Nat) (q : Rat) : Bool :=
  dim == Gen.Units.voxelVolumeAxes.length && relClose tol q (voxelVolume u nnz)

end Navis.Units
