import NavisModel.Model.Nblast
/-
The cached nearest-neighbour index of a `navis.Dotprops` (C06, state "kd-tree"), as a state machine.

    @property
    def kdtree(self):
        if not getattr(self, '_tree', None):
            self._tree = KDTree(self.points)
        return self._tree

`_tree` is built from the coordinates the object has *at that moment* and is then returned unchanged until
somebody drops it.  `Dotprops.dist_dots(other)` asks `other.kdtree` for index and distance of the nearest
point and then reads tangent and alpha from `other`'s *current* arrays at that index.  The model keeps,
per object, the current geometry and the geometry the cached tree was built from (the "tag"); every
coordinate-changing code path is an event that either drops the tag or does not (a fact re-extracted from
the navis source by `translator/gen_dptree.py`).  Import-free apart from the NBLAST model.
-/
namespace Navis.DpCache
open Navis.Nblast

/-- The code paths that change the coordinates of an existing Dotprops object. -/
inductive Method where
  | add | sub | mul | truediv      -- `Dotprops.__add__/__sub__/__mul__/__truediv__(other, copy=False)`: `+=`, `-=`, `*=`, `/=`, `convert_units`
  | setPoints                      -- `dp.points = value`
  | downsample                     -- `sampling.downsampling._downsample_dotprops`
  | subset                         -- `morpho.subset._subset_dotprops`
deriving DecidableEq, Repr

def Method.all : List Method := [.add, .sub, .mul, .truediv, .setPoints, .downsample, .subset]

def Method.name : Method → String
  | .add => "add" | .sub => "sub" | .mul => "mul" | .truediv => "truediv"
  | .setPoints => "setpoints" | .downsample => "downsample" | .subset => "subset"

/-- `_downsample_dotprops` / `_subset_dotprops` first compute lazy tangents (`recalculate_tangents`, which
queries `self.kdtree`) before they mask the arrays. -/
def Method.needsTangents : Method → Bool
  | .downsample => true
  | .subset => true
  | _ => false

/-- One Dotprops object as far as the cache is concerned.  `G` is the geometry (the `points` array). -/
structure Obj (G : Type) where
  geo : G            -- current coordinates
  tree : Option G    -- `_tree`: `none` = absent / `None`, `some g` = a tree built from geometry `g`
  lazy : Bool        -- `_vect is None` with a usable `k`: tangents are computed on first access
deriving Repr

/-- The cache invariant: there is no tree, or it was built from the current coordinates. -/
def Obj.Fresh {G} (o : Obj G) : Prop := o.tree = none ∨ o.tree = some o.geo

/-- `.kdtree`: build when missing. -/
def Obj.ensure {G} (o : Obj G) : Obj G :=
  match o.tree with
  | some _ => o
  | none => { o with tree := some o.geo }

/-- The geometry a query through `.kdtree` is answered from. -/
def Obj.used {G} (o : Obj G) : G := o.tree.getD o.geo

/-- `recalculate_tangents(inplace=True)`: queries `self.kdtree`, then stores `vect` / `alpha`. -/
def Obj.resolve {G} (o : Obj G) : Obj G := { o.ensure with lazy := false }

/-- In-place coordinate change through method `m` (new coordinates `g`); `inv m` says whether that code
path drops `_tree`. -/
def Obj.mutate {G} (inv : Method → Bool) (m : Method) (g : G) (o : Obj G) : Obj G :=
  let o1 := if m.needsTangents && o.lazy then o.resolve else o
  { o1 with geo := g, tree := if inv m then none else o1.tree }

/-- `upd f l i`: apply `f` to element `i` (no-op when out of range). -/
def upd {α} (f : α → α) : List α → Nat → List α
  | [], _ => []
  | a :: r, 0 => f a :: r
  | a :: r, n + 1 => a :: upd f r n

/-- Events of a history over a store of objects (addressed by position). -/
inductive Ev (G : Type) where
  | use (i : Nat)                          -- `.kdtree` is read: object `i` is an NBLAST target, `.sampling_resolution`, …
  | vect (i : Nat)                         -- `.vect` / `.alpha` is read (lazy tangents are computed through the tree)
  | setVect (i : Nat)                      -- tangents assigned from outside (`recalculate_tangents(inplace=False)` on the copy)
  | mutate (m : Method) (i : Nat) (g : G)  -- in-place coordinate change
  | copy (i : Nat)                         -- `.copy()` (also the first half of every out-of-place operation): `_tree` is not copied
  | pickle (keeps : Bool) (i : Nat)        -- pickle round trip; `keeps`: the tree type survives pickling (scipy), pykdtree trees are dropped
deriving Repr

/-- One step: the new store and the kd-tree queries it made, each logged as
`(geometry the answering tree was built from, current geometry of that object)`. -/
def step {G} (inv : Method → Bool) (s : List (Obj G)) : Ev G → List (Obj G) × List (G × G)
  | .use i =>
    (upd Obj.ensure s i, match s[i]? with | some o => [(o.used, o.geo)] | none => [])
  | .vect i =>
    match s[i]? with
    | some o => if o.lazy then (upd Obj.resolve s i, [(o.used, o.geo)]) else (s, [])
    | none => (s, [])
  | .setVect i => (upd (fun o => { o with lazy := false }) s i, [])
  | .mutate m i g =>
    (upd (Obj.mutate inv m g) s i,
     match s[i]? with
     | some o => if m.needsTangents && o.lazy then [(o.used, o.geo)] else []
     | none => [])
  | .copy i =>
    match s[i]? with
    | some o => (s ++ [{ geo := o.geo, tree := none, lazy := o.lazy }], [])
    | none => (s, [])
  | .pickle keeps i =>
    match s[i]? with
    | some o => (s ++ [{ geo := o.geo, tree := if keeps then o.tree else none, lazy := o.lazy }], [])
    | none => (s, [])

def run {G} (inv : Method → Bool) : List (Obj G) → List (Ev G) → List (Obj G) × List (G × G)
  | s, [] => (s, [])
  | s, e :: es =>
    let r := step inv s e
    let r' := run inv r.1 es
    (r'.1, r.2 ++ r'.2)

/-- A history is safe when every in-place coordinate change goes through an invalidating code path. -/
def safe {G} (inv : Method → Bool) (evs : List (Ev G)) : Bool :=
  evs.all fun e => match e with
    | .mutate m _ _ => inv m
    | _ => true

/-! ## `dist_dots` through a possibly stale tree -/

/-- `kdtree.query` on a tree built from the position list `tree`. -/
def nearestP (tree : List V3) (p : V3) : Option (Nat × Rat) :=
  nearest (tree.map fun x => (⟨x, default, 0⟩ : Pt)) p

/-- `Dotprops.dist_dots` for one query point as written: index and distance come from `other.kdtree`
(built from `tree`), tangent and alpha from `other`'s current arrays `cur` at that index
(`other.vect[fast_idxs]` raises IndexError — `none` — when the index is beyond the current arrays). -/
def matchPointVia (tree : List V3) (cur : Cloud) (bound : Option Rat) (qp : Pt) : Option Match :=
  match nearestP tree qp.p with
  | none => none
  | some (j, d) =>
    let hit := match effBound bound with
      | some b => decide (d < b * b)
      | none => true
    if hit then
      match cur[j]? with
      | some t => some ⟨d, absR (qp.v.dot t.v), qp.a * t.a, true, j⟩
      | none => none
    else
      match effBound bound, cur[0]? with
      | some b, some _ => some ⟨b * b, 0, 0, false, tree.length⟩
      | _, _ => none

def pairRawVia (fn : ScoreFn) (cfg : Cfg) (q : Cloud) (tree : List V3) (cur : Cloud) : Option Rat :=
  match allSome (q.map (matchPointVia tree cur cfg.bound)) with
  | none => none
  | some ms => rawScore fn cfg.useAlpha ms

/-! ## `downsample_neuron(dotprops, factor)` (`method="simple"`) and the two phases of `nblast_smart` -/

/-- `mask = np.arange(0, n, int(factor))` applied to points / vect / alpha — unless `n <= factor`. -/
def downsampleSimple (f : Nat) (c : Cloud) : Cloud :=
  if c.length ≤ f ∨ f = 0 then c
  else (List.range ((c.length + f - 1) / f)).filterMap fun i => c[i * f]?

/-- One cell of `nblast_smart`: the full score where the mask selects the pair, otherwise the score of the
down-sampled (factor 10) clouds. -/
def smartCell (fn : ScoreFn) (cfg : Cfg) (mode : Mode) (sel : Bool) (q t : Cloud) : Option Score :=
  if sel then defScore fn cfg q t mode
  else defScore fn cfg (downsampleSimple 10 q) (downsampleSimple 10 t) mode

end Navis.DpCache
