/-
Model of `navis.transforms.thinplate.TPStransform` (C08), import-free, over exact rationals with an
ABSTRACT kernel.

navis: `_calc_tps_coefs` calls `morphops.tps_coefs(source, target)`, which solves
`L · [W; A] = [Y; 0]` with `L = [[K, P], [Pᵀ, 0]]`, `K[i][j] = U(|s_i − s_j|)` (in 3-D `U(r) = r`,
computed by `cdist`), `P = [1 | S]`; `xform(points)` returns `P(points) · A + K(points, source) · W`.

The kernel values are parameters (`kern : Pt → Pt → Rat` / the matrix `K`): the theorems hold for
every kernel, in particular for the double-valued function `cdist` computes.  What is proved: IF the
coefficients solve the top block of the system (exactly, or up to `ε` per coordinate) THEN the spline
maps every source landmark onto its target landmark (exactly, or up to `ε`).  The driver evaluates the
residual of navis' own coefficients in `Rat`.

Second part: the lazily cached coefficients under `copy()` / `__neg__` as a small state machine.
-/
namespace Navis.Tps

/-- A point / one row of an `(N, 3)` array (the same type as `Navis.Affine.Pt`). -/
abbrev Pt := Rat × Rat × Rat

def zero : Pt := (0, 0, 0)
def add (p q : Pt) : Pt := (p.1 + q.1, p.2.1 + q.2.1, p.2.2 + q.2.2)
def smul (c : Rat) (p : Pt) : Pt := (c * p.1, c * p.2.1, c * p.2.2)

/-- `Σ_j k_j · w_j`: one row of `U @ W` (or of `K @ W`). -/
def dotRows : List Rat → List Pt → Pt
  | k :: ks, w :: ws => add (smul k w) (dotRows ks ws)
  | _, _ => zero

/-- The `(4, 3)` affine coefficients `A`, row by row. -/
structure AffCoef where
  a0 : Pt
  a1 : Pt
  a2 : Pt
  a3 : Pt
deriving DecidableEq, Repr

/-- `[1, x, y, z] @ A`: one row of `P @ A`. -/
def affPart (A : AffCoef) (p : Pt) : Pt :=
  add (add (add A.a0 (smul p.1 A.a1)) (smul p.2.1 A.a2)) (smul p.2.2 A.a3)

/-- `TPStransform.xform` on one point, as written: `P @ A + U @ W` with `U = K_matrix(points, source)`. -/
def eval (kern : Pt → Pt → Rat) (src : List Pt) (W : List Pt) (A : AffCoef) (p : Pt) : Pt :=
  add (affPart A p) (dotRows (src.map (kern p)) W)

/-- `K_matrix(source)`. -/
def kernelMatrix (kern : Pt → Pt → Rat) (src : List Pt) : List (List Rat) :=
  src.map fun s => src.map (kern s)

/-- Row `i` of the top block of `L · [W; A]`: `K_i · W + P_i · A`. -/
def topRow (krow : List Rat) (s : Pt) (W : List Pt) (A : AffCoef) : Pt :=
  add (dotRows krow W) (affPart A s)

/-- Top block `K · W + P · A` (one row per landmark). -/
def systemTop (K : List (List Rat)) (src : List Pt) (W : List Pt) (A : AffCoef) : List Pt :=
  List.zipWith (fun kr s => topRow kr s W A) K src

/-- Bottom block `Pᵀ · W` (four rows). -/
def systemBottom (src : List Pt) (W : List Pt) : List Pt :=
  [dotRows (src.map fun _ => 1) W, dotRows (src.map (·.1)) W, dotRows (src.map (·.2.1)) W,
   dotRows (src.map (·.2.2)) W]

/-- `(W, A)` solve the thin-plate-spline system for `(src, tgt)` with kernel matrix `K`. -/
def Solves (K : List (List Rat)) (src tgt : List Pt) (W : List Pt) (A : AffCoef) : Prop :=
  systemTop K src W A = tgt ∧ systemBottom src W = [zero, zero, zero, zero]

def absR (x : Rat) : Rat := if x < 0 then -x else x

/-- Coordinate-wise `|p − q| ≤ ε`. -/
def close (eps : Rat) (p q : Pt) : Bool :=
  decide (absR (p.1 - q.1) ≤ eps) && decide (absR (p.2.1 - q.2.1) ≤ eps) && decide (absR (p.2.2 - q.2.2) ≤ eps)

/-- All rows pairwise close (and equally many). -/
def closeAll (eps : Rat) : List Pt → List Pt → Bool
  | [], [] => true
  | p :: ps, q :: qs => close eps p q && closeAll eps ps qs
  | _, _ => false

/-- **Checker** the driver evaluates on navis' own coefficients: the residual of the system is at most
`eps` in every coordinate (top block against the targets, bottom block against zero). -/
def solvesB (eps : Rat) (K : List (List Rat)) (src tgt : List Pt) (W : List Pt) (A : AffCoef) : Bool :=
  closeAll eps (systemTop K src W A) tgt && closeAll eps (systemBottom src W) [zero, zero, zero, zero]

/-- Largest coordinate of the residual of the top block (for the evidence). -/
def maxResidual (xs ys : List Pt) : Rat :=
  (List.zipWith (fun p q => [absR (p.1 - q.1), absR (p.2.1 - q.2.1), absR (p.2.2 - q.2.2)]) xs ys).flatten.foldl
    (fun m x => if m < x then x else m) 0

/-! ## Lazily cached coefficients under `copy()` and `__neg__` -/

/-- A `TPStransform`: which landmark sets are source and target (indices into a table of landmark
sets) and the cached coefficients (`_W`, `_A`; `none` = not computed yet). -/
structure Obj (γ : Type) where
  src : Nat
  tgt : Nat
  cache : Option γ
deriving DecidableEq, Repr

/-- `TPStransform(source, target)`. -/
def mk {γ} (s t : Nat) : Obj γ := ⟨s, t, none⟩

/-- `.W` / `.A` / `xform`: computed on first use from the object's CURRENT landmarks, then kept. -/
def use {γ} (coefs : Nat → Nat → γ) (o : Obj γ) : γ × Obj γ :=
  match o.cache with
  | some c => (c, o)
  | none => (coefs o.src o.tgt, { o with cache := some (coefs o.src o.tgt) })

/-- `copy()`: `x.__dict__.update(self.__dict__)` carries the cache (`carries = true`). -/
def copy {γ} (carries : Bool) (o : Obj γ) : Obj γ :=
  if carries then o else mk o.src o.tgt

/-- `__neg__`: `swaps` — source and target are exchanged; `fresh` — the result starts without
coefficients (constructor call). -/
def neg {γ} (swaps fresh : Bool) (o : Obj γ) : Obj γ :=
  { src := if swaps then o.tgt else o.src
    tgt := if swaps then o.src else o.tgt
    cache := if fresh then none else o.cache }

/-- Operations of a history over a growing pool of transform objects. -/
inductive Op where
  | mk (s t : Nat)
  | use (i : Nat)      -- use object `i` (its coefficients are observed)
  | copy (i : Nat)     -- append a copy of object `i` to the pool
  | neg (i : Nat)      -- append `-object i` to the pool
deriving DecidableEq, Repr

/-- Run a history; returns the coefficients every `use` observed and the final pool. -/
def run {γ} (swaps fresh carries : Bool) (coefs : Nat → Nat → γ) :
    List (Obj γ) → List Op → List γ × List (Obj γ)
  | pool, [] => ([], pool)
  | pool, .mk s t :: ops => run swaps fresh carries coefs (pool ++ [mk s t]) ops
  | pool, .use i :: ops =>
    match pool[i]? with
    | none => run swaps fresh carries coefs pool ops
    | some o =>
      let (c, o') := use coefs o
      let (cs, pool') := run swaps fresh carries coefs (pool.set i o') ops
      (c :: cs, pool')
  | pool, .copy i :: ops =>
    match pool[i]? with
    | none => run swaps fresh carries coefs pool ops
    | some o => run swaps fresh carries coefs (pool ++ [copy carries o]) ops
  | pool, .neg i :: ops =>
    match pool[i]? with
    | none => run swaps fresh carries coefs pool ops
    | some o => run swaps fresh carries coefs (pool ++ [neg swaps fresh o]) ops

/-- Cache-free reference: objects are just `(source, target)` pairs, `-o` swaps them, every use
computes the coefficients of the object's own pair. -/
def runRef {γ} (coefs : Nat → Nat → γ) : List (Nat × Nat) → List Op → List γ
  | _, [] => []
  | pool, .mk s t :: ops => runRef coefs (pool ++ [(s, t)]) ops
  | pool, .use i :: ops =>
    match pool[i]? with
    | none => runRef coefs pool ops
    | some o => coefs o.1 o.2 :: runRef coefs pool ops
  | pool, .copy i :: ops =>
    match pool[i]? with
    | none => runRef coefs pool ops
    | some o => runRef coefs (pool ++ [o]) ops
  | pool, .neg i :: ops =>
    match pool[i]? with
    | none => runRef coefs pool ops
    | some o => runRef coefs (pool ++ [(o.2, o.1)]) ops

end Navis.Tps
