import NavisModel.Model.OpsX
import NavisModel.Gen.SomaSpec
/-!
# Interpreting the extracted facts (C01 translator tie)

`translator/gen_somaspec.py` re-extracts from the current navis source what the two soma clean-up blocks
(`TreeNeuron._clear_temp_attr`, `_subset_treeneuron`) do with the stored `_soma`, and which slice of a
segment the `skip_errors` fall-back of `resample_skeleton` copies.  `cleanUpBy` is the clean-up a block
with given facts performs; `pySlice` is Python's `s[lo:hi]`.  `Props/C01.lean` proves that with the
GENERATED facts they are the model's `filterSoma`, `filterSomaSubset` and `dropLast`.
-/
namespace Navis.Forest
open Navis.Gen.SomaSpec

/-- The clean-up a block with the facts `c` performs on the new table `t`.  A stored detection function
that the guard lets through is not iterable and is "not in" the id column: it takes the scalar branch. -/
def cleanUpBy (c : CleanUp) (t : Table) : Soma → Soma
  | .none => .none
  | .detect => if c.skipsCallable then .detect else if c.scalarAbsentReset then .none else .detect
  | .many l =>
    if c.listEmptyReset && (if c.listFiltered then l.filter (fun i => (ids t).contains i) else l).isEmpty then .none
    else .many (if c.listFiltered then l.filter (fun i => (ids t).contains i) else l)
  | .one i => if c.scalarAbsentReset && !(ids t).contains i then .none else .one i

/-- A slice bound as Python normalises it for a list of length `n`. -/
def normBound (n : Nat) (b : Int) : Nat := if b < 0 then ((n : Int) + b).toNat else min b.toNat n

/-- Python's `s[lo:hi]` (no step). -/
def pySlice (sl : Option Int × Option Int) (s : List Int) : List Int :=
  (s.take (match sl.2 with | none => s.length | some b => normBound s.length b)).drop
    (match sl.1 with | none => 0 | some b => normBound s.length b)

end Navis.Forest
