import NavisModel.Model.Ops
/-
The two ways navis computes the distal side of a cut (C04):

* `_cut_networkx`: reverse BFS from the cut node — descendants-or-self — which is `distalSet`;
* `_cut_igraph`: delete the edge from the cut node to its parent, decompose the graph into connected
  components, take the component that does not contain the root, i.e. the one containing the cut node
  — `distalByDecompose` below.
-/
namespace Navis.Forest

/-- One sweep over the edge list: whenever exactly one end of an edge is already in the set, the other
end is added.  Edges are undirected here. -/
def growOnce (es : List (Int × Int)) (seen : List Int) : List Int :=
  es.foldl (fun acc e =>
    if acc.contains e.1 && !acc.contains e.2 then acc ++ [e.2]
    else if acc.contains e.2 && !acc.contains e.1 then acc ++ [e.1]
    else acc) seen

/-- Undirected reachability closure of `seed` over the edge list `es`: `fuel` sweeps. -/
def componentOf (es : List (Int × Int)) : Nat → Int → List Int
  | 0, seed => [seed]
  | fuel + 1, seed => growOnce es (componentOf es fuel seed)

/-- The edge list with the edge from `c` to its parent `p` deleted. -/
def edgesWithout (t : Table) (c p : Int) : List (Int × Int) := (edges t).filter fun e => e != (c, p)

/-- `_cut_igraph`: the connected component of `c` after deleting the edge `(c, parent c)`
(number of sweeps = number of remaining edges + 1).  Empty when `c` is absent. -/
def distalByDecompose (t : Table) (c : Int) : List Int :=
  match parentOf t c with
  | none => []
  | some p => componentOf (edgesWithout t c p) ((edgesWithout t c p).length + 1) c

/-- `cut` as the igraph path computes it: same fragments, distal side from the decomposition. -/
def cutByDecompose (t : Table) (c : Int) : Option (Table × Table) :=
  match find? t c with
  | none => none
  | some nc =>
    if nc.parent < 0 then none else
    let d := distalByDecompose t c
    some (subset t (fun i => d.contains i), subset t (fun i => !d.contains i || i == c))

end Navis.Forest
