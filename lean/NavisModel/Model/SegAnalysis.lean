import NavisModel.Model.Flow
/-
`mmetrics.segment_analysis` as written: one row per small segment (`graph._break_segments`) with
* `length`        — sum of the child→parent edge lengths along the segment (`graph.segment_length`),
* `tortuosity`    — `length / |first − last|`, kept as the exact pair (length, chord²),
* `root_dist`     — `dist_to_root` of the segment's *last* (proximal) node,
* `strahler_index`— the Strahler index of the segment's *first* (distal) node (`strahler_index(x)` with defaults),
* `radius_mean/min/max` — `np.nanmean/nanmin/nanmax` over the radii of *all* nodes of the segment (both ends),
* `volume`        — `np.nansum` over the non-last nodes `n` of `1/3·π·(r1² + r1·r2 + r2²)·h` with `r1` the radius of
  `n`, `r2` the radius of its parent (`NaN → 0`: `.fillna(0)`), `h` the edge length; a NaN `r1` drops the term.

Radii travel as integers (the harness scales dyadic radii), `none` = NaN.  The factor `π/3` is left out
(`volume3` = volume · 3/π, an exact integer in the scaled unit).  Import-free, total, computable.
-/
namespace Navis.Flow
open Navis.Forest

structure SegRow where
  first : Int
  last : Int
  nodes : Nat
  length : Nat
  chordSq : Int
  rootDist : Nat
  si : Nat
  radCount : Nat          -- number of non-NaN radii on the segment
  radSum : Int
  radMin : Int
  radMax : Int
  volume3 : Int
deriving Repr, DecidableEq, Inhabited

/-- Parent id (−1 when absent). -/
def parentId (t : Table) (i : Int) : Int :=
  match find? t i with
  | some n => n.parent
  | none => -1

/-- Frustum term of the node→parent cylinder of `n` (without `π/3`); `none` = NaN (dropped by `nansum`). -/
def frustum3 (t : Table) (rad : Int → Option Int) (n : Int) : Option Int :=
  match rad n with
  | none => none
  | some r1 =>
    let p := parentId t n
    let r2 : Int := if p < 0 then 0 else (rad p).getD 0
    let h : Int := if p < 0 then 0 else (coordLen t n p : Nat)
    some ((r1 * r1 + r1 * r2 + r2 * r2) * h)

def nanSum (l : List (Option Int)) : Int := (l.filterMap id).sum

def minInt (l : List Int) : Int :=
  match l with
  | [] => 0
  | a :: r => r.foldl min a

def maxInt (l : List Int) : Int :=
  match l with
  | [] => 0
  | a :: r => r.foldl max a

def segRow (t : Table) (rad : Int → Option Int) (s : List Int) : Option SegRow :=
  match s.head?, s.getLast? with
  | some a, some b =>
    let rs := s.filterMap rad
    some { first := a, last := b, nodes := s.length, length := arcLen t s, chordSq := chordSq t s,
           rootDist := distToRoot t (coordLen t) b, si := strahler t false [] a,
           radCount := rs.length, radSum := rs.sum, radMin := minInt rs, radMax := maxInt rs,
           volume3 := nanSum (s.dropLast.map (frustum3 t rad)) }
  | _, _ => none

/-- `segment_analysis`: one row per small segment. -/
def segAnalysis (t : Table) (rad : Int → Option Int) : List SegRow :=
  (smallSegments t).filterMap (segRow t rad)

/-- Total of the frustum terms over all non-root nodes (what the per-segment volumes must add up to). -/
def totalVolume3 (t : Table) (rad : Int → Option Int) : Int :=
  nanSum (((t.filter fun n => !isRootNode n).map (·.id)).map (frustum3 t rad))

end Navis.Flow
