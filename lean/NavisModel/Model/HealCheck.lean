import NavisModel.Model.Heal
/-!
C11, second pass (core Lean only, total, computable):

* the candidate edges of `_stitch_mst` AS WRITTEN: one kd-tree query per node of fragment `b`
  (`frag_a.kd.query(coords_b, distance_upper_bound=max_dist)`), then `np.argmin` over the answers
  (`kdPair`, `quotientEdgesKD`) — proved equal to the specification-style `quotientEdges`
  (minimum over ALL node pairs) in `Proofs/HealCheckLemmas.lean`;
* master selection of `stitch_skeletons` incl. `master='SOMA'` (`masterIxS`);
* `heal_skeleton(drop_disc=True)` / `drop_fluff` selection helpers used by the new theorems;
* Lean-side property checkers evaluated by the driver on navis' OWN output:
  `healOKPB` (row-order-free variant of `healOKB`), `healMinOKB` (the added edges are allowed connections
  and their lengths are, as a multiset, those of the minimum spanning forest), `stitchOKWith` /
  `stitchOKB` (ids unique, every input preserved under ONE injective id map that fixes root markers,
  parents / connectors / tags remapped with the same map, nothing added or lost).
-/
namespace Navis.Heal
open Navis.Forest

/-! ### candidate edges as written: kd-tree query per node, then argmin -/

/-- One row of `frag_a.kd.query(coords_b, distance_upper_bound=max_dist)`: the nearest node of fragment
`a` for the node `nb` of fragment `b`, `none` (= `inf`) when no node is strictly closer than `max_dist`. -/
def nnQuery (ca : Table) (fa fb : Int) (o : Opts) (nb : Node) : Option CEdge :=
  best ((ca.map fun na => (⟨sqDist na nb, na.id, nb.id, fa, fb⟩ : CEdge)).filter (withinMax o))

/-- `index_b = np.argmin(distances)`; the pair is skipped when every answer is `inf`. -/
def kdPair (ca cb : Table) (fa fb : Int) (o : Opts) : Option CEdge :=
  best (cb.filterMap (nnQuery ca fa fb o))

/-- The fragment quotient graph the way `_stitch_mst` builds it. -/
def quotientEdgesKD (t : Table) (o : Opts) : List CEdge :=
  let c := cands t o
  (pairs (roots t)).filterMap fun p =>
    kdPair (c.filter fun n => fragOf t n.id == p.1) (c.filter fun n => fragOf t n.id == p.2) p.1 p.2 o

/-! ### master selection -/

inductive MasterS where
  | soma
  | largest
  | first
deriving Repr, DecidableEq

/-- `[i for i, n in enumerate(nl) if n.has_soma][0]` -/
def firstTrue : List Bool → Option Nat
  | [] => none
  | b :: rest => if b then some 0 else (firstTrue rest).map (· + 1)

/-- `stitch_skeletons`: `'SOMA'` falls back to `'LARGEST'` when no neuron has a soma, otherwise picks the
FIRST neuron with a soma; `'LARGEST'` the first of the largest; `'FIRST'` index 0. -/
def masterIxS (m : MasterS) (l : List Skel) (hasSoma : List Bool) : Nat :=
  match m with
  | .first => 0
  | .largest => largestIx l
  | .soma =>
    match firstTrue (hasSoma.take l.length) with
    | some i => i
    | none => largestIx l

/-! ### row-order-free heal checker -/

def key (n : Node) : Int × Int × Int × Int := (n.id, n.x, n.y, n.z)

/-- `healOKB` without the demand that the rows keep their order. -/
def healOKPB (t u : Table) (maxD2 : Option Nat) : Bool :=
  (u.map key).isPerm (t.map key) && wfB u &&
  (uedges t).all (fun e => (uedges u).contains e) &&
  decide ((newEdges t u).length + (roots u).length = (roots t).length) &&
  (newEdges t u).all fun e =>
    match maxD2, edgeD2 t e with
    | none, some _ => true
    | some m, some d => decide (d ≤ m)
    | _, none => false

/-! ### minimality checker -/

/-- The new edges of `u` as candidate edges of `t` (length, end nodes, their fragments). -/
def ceOf (t : Table) (e : Int × Int) : Option CEdge :=
  match find? t e.1, find? t e.2 with
  | some a, some b => some ⟨sqDist a b, a.id, b.id, fragOf t a.id, fragOf t b.id⟩
  | _, _ => none

def newCE (t u : Table) : List CEdge := (newEdges t u).filterMap (ceOf t)

/-- Both ends are candidate nodes (method / min_size / mask) of two different fragments, strictly closer
than `max_dist`. -/
def allowedB (t : Table) (o : Opts) (e : Int × Int) : Bool :=
  match find? t e.1, find? t e.2 with
  | some a, some b =>
    isCand t o a && isCand t o b && (fragOf t a.id != fragOf t b.id) &&
      withinMax o ⟨sqDist a b, a.id, b.id, fragOf t a.id, fragOf t b.id⟩
  | _, _ => false

/-- The edges `u` has in addition to `t` are allowed connections and their squared lengths are, as a
multiset, those of the bridging edges of the model (the minimum spanning forest of the quotient graph). -/
def healMinOKB (t u : Table) (o : Opts) : Bool :=
  (newEdges t u).all (allowedB t o) &&
  ((newCE t u).map (·.d2)).isPerm ((healAdded t o).map (·.d2))

/-! ### stitch checker -/

def nkey (n : Node) : Int × Int × Int × Int × Int := (n.id, n.parent, n.x, n.y, n.z)

/-- Id map of one input read off the combined table by ROW POSITION (`pd.concat` keeps list order). -/
def mapByPos (s : Skel) (slice : Table) : List (Int × Int) := (ids s.nodes).zip (ids slice)

def mapsByPos : List Skel → Table → List (List (Int × Int))
  | [], _ => []
  | s :: rest, out => mapByPos s (out.take s.nodes.length) :: mapsByPos rest (out.drop s.nodes.length)

/-- Id map of one input read off the combined table by COORDINATES (for inputs with distinct coordinates). -/
def mapByCoord (s : Skel) (out : Table) : List (Int × Int) :=
  s.nodes.filterMap fun n =>
    (out.find? fun u => u.x == n.x && u.y == n.y && u.z == n.z).map fun u => (n.id, u.id)

def mapsByCoord (l : List Skel) (out : Table) : List (List (Int × Int)) := l.map fun s => mapByCoord s out

def remapAll (l : List Skel) (maps : List (List (Int × Int))) : List Skel :=
  (l.zip maps).map fun p => remapSkel p.2 p.1

/-- `{tag: [ids]}` as a multiset of `(tag, id)` pairs. -/
def tagPairs (tags : List (Int × List Int)) : List (Int × Int) := tags.flatMap fun tg => tg.2.map fun i => (tg.1, i)

/-- The map only renames node ids (keys ≥ 0, so root markers stay), is injective on the input's ids, and is the
identity on the master. -/
def mapOKB (mIx j : Nat) (s : Skel) (m : List (Int × Int)) : Bool :=
  m.all (fun p => decide (0 ≤ p.1)) && decide (((ids s.nodes).map (remapId m)).Nodup) &&
  (j != mIx || (ids s.nodes).all fun a => remapId m a == a)

def mapsOKB (mIx : Nat) : Nat → List Skel → List (List (Int × Int)) → Bool
  | _, [], [] => true
  | j, s :: l, m :: maps => mapOKB mIx j s m && mapsOKB mIx (j + 1) l maps
  | _, _, _ => false

/-- `out` is an admissible result of stitching / combining `l` with the id maps `maps`:
ids unique; every map admissible; the node rows are exactly the remapped input rows (`fused = false`) or an
admissible healing of them (`fused = true`); connectors and tags are exactly the remapped ones. -/
def stitchOKWith (l : List Skel) (maps : List (List (Int × Int))) (mIx : Nat) (out : Skel) (fused : Bool)
    (maxD2 : Option Nat) : Bool :=
  let r := remapAll l maps
  decide ((ids out.nodes).Nodup) &&
  mapsOKB mIx 0 l maps &&
  (if fused then healOKPB (r.flatMap (·.nodes)) out.nodes maxD2
   else (out.nodes.map nkey).isPerm ((r.flatMap (·.nodes)).map nkey)) &&
  out.conns.isPerm (r.flatMap (·.conns)) &&
  (tagPairs out.tags).isPerm (tagPairs (r.flatMap (·.tags)))

/-- The checker the driver evaluates: the id maps are read off navis' table by row position or, failing
that, by coordinates. -/
def stitchOKB (l : List Skel) (mIx : Nat) (out : Skel) (fused : Bool) (maxD2 : Option Nat) : Bool :=
  stitchOKWith l (mapsByPos l out.nodes) mIx out fused maxD2 ||
  stitchOKWith l (mapsByCoord l out.nodes) mIx out fused maxD2

/-! ### `combine_neurons` for meshes: vertex tables stacked, faces shifted by the vertices before them -/

/-- `tm.util.concatenate`: faces of the `k`-th mesh are shifted by the number of vertices of the meshes
before it. A mesh is `(number of vertices, faces)`. -/
def concatFaces : Nat → List (Nat × List (Nat × Nat × Nat)) → List (Nat × Nat × Nat)
  | _, [] => []
  | off, m :: rest => m.2.map (fun f => (f.1 + off, f.2.1 + off, f.2.2 + off)) ++ concatFaces (off + m.1) rest

end Navis.Heal
