/-!
# Cache protocol of `navis.TreeNeuron` (property C02) — executable model, import-free

How navis keeps derived views fresh (read in `core/base.py`, `core/core_utils.py`, `core/skeleton.py`):

* every lazily cached view stores its value in an attribute listed in `TEMP_ATTR`;
* `core_md5` hashes the columns `CORE_DATA` of the node table; `_current_md5` is the hash at the last
  *effective* `_clear_temp_attr`;
* `is_stale` compares the two (sticky `_stale` flag);
* the `@temp_property` wrapper: `if not locked: if is_stale: _clear_temp_attr()` and only then the
  compute-if-absent body runs;
* `_clear_temp_attr(exclude)` returns immediately while the neuron is locked (`@lock_neuron`), otherwise
  re-stamps, resets `_stale` and deletes every `TEMP_ATTR` name that is not literally in `exclude`; the
  `TreeNeuron` override additionally re-classifies the `type` column unless `"classify_nodes"` is in
  `exclude` (this part is *not* guarded by the lock).

The model is that protocol.  Content is abstract: `ver` identifies the content of the hashed columns
(the hash is modelled as the identity on content ids, i.e. as an injective function — trusted base),
`tver` the content of `node_id,parent_id` (what the `type` column is computed from).  Every cache entry
carries the content id it was computed from.  Primitive events are exactly the calls that can be
observed on the real object (the harness traces them): `is_stale`, `_clear_temp_attr(exclude)`,
assignment of a cache attribute, a change of the hashed content, `classify_nodes`, lock/unlock,
`copy`, pickling.  The declarative facts (`TEMP_ATTR`, `CORE_DATA`, which views carry the wrapper,
the `exclude` literal of every `_clear_temp_attr` call site, what `copy`/`__getstate__` do, the shape
of `is_stale`/`_clear_temp_attr`/the wrapper) are a `Spec` that is *generated from the source*
(`Gen/CacheSpec.lean`).
-/
namespace Navis.Cache

abbrev Attr := String

/-- A lazily cached view: public property `name`, stored in `__dict__[attr]`. -/
structure View where
  name : String
  attr : Attr
  /-- decorated with `@temp_property` -/
  wrapped : Bool
  /-- the compute body calls `self.copy()` (which evaluates `self.is_stale`) -/
  selfCopy : Bool
  deriving DecidableEq, Repr

/-- One `_clear_temp_attr(exclude=[…])` call site. -/
structure ClearSite where
  fn : String
  excl : List String
  /-- the enclosing function is decorated with `@lock_neuron` -/
  locked : Bool
  deriving DecidableEq, Repr

/-- A function that edits a cached graph object in place (`g = x.graph; g.remove_edge(…)`). -/
structure Editor where
  fn : String
  attr : Attr
  /-- before its first edit it re-binds the attribute to an independent object (`x._graph_nx = g = nx.DiGraph(g)`) -/
  detaches : Bool
  deriving DecidableEq, Repr

/-- Declarative facts extracted from the navis source by `translator/gen_cache.py`. -/
structure Spec where
  tempAttr : List Attr
  coreTable : String
  coreCols : List String
  views : List View
  clearSites : List ClearSite
  lockedFns : List String
  getstateDrops : List Attr
  copyNoCopy : List String
  /-- `copy`: `if not self.is_stale: … else: x._clear_temp_attr()` -/
  copyClearsIfStale : Bool
  /-- `is_stale` evaluates `_current_md5 != core_md5` when the flag is not set -/
  isStaleRecomputes : Bool
  /-- `is_stale` returns `True` without recomputing once `_stale` is set -/
  isStaleSticky : Bool
  /-- `_clear_temp_attr` returns immediately when the neuron is locked -/
  clearGuardsLock : Bool
  /-- `_clear_temp_attr` sets `_current_md5 = core_md5; _stale = False` -/
  clearRestamps : Bool
  /-- `_clear_temp_attr` deletes every `TEMP_ATTR` name not in `exclude` -/
  clearDeletes : Bool
  /-- the `temp_property` wrapper is `if not locked: if is_stale: _clear_temp_attr()` -/
  wrapperChecks : Bool
  /-- `_clear_temp_attr` also treats `"_" ++ e` as excluded for every `e` in `exclude` -/
  exclPrefix : Bool
  /-- `lock_neuron` releases the lock in a `finally:` (also when the wrapped call raises) -/
  lockFinally : Bool
  /-- `lock_neuron` validates the caches *before* it takes the lock:
  `if not x.is_locked and x.is_stale: x._clear_temp_attr()` precedes the increment of `_lock` -/
  lockChecksStale : Bool
  /-- the in-place operators `*= /= += -=` (hence `convert_units(inplace=True)`) validate the caches before they run:
  `if not self.is_locked and self.is_stale: self._clear_temp_attr()` -/
  iopValidates : Bool
  /-- `core_md5` restricts the table to the `CORE_DATA` columns (`data = data[cols]`) before hashing -/
  hashSelectsCols : Bool
  /-- `core_md5` feeds every selected column to the hash function in its own dtype (`data[c].values` per column):
  nothing is converted, integer ids of any size and float coordinates reach the hash function as they are -/
  hashNative : Bool
  /-- the dtype conversion `core_md5` applies to the selected columns before hashing, as written in the source
  (`""` when there is none beyond `DataFrame.values`, e.g. `"data.to_numpy(dtype=np.float32)"`) -/
  hashCast : String
  /-- when the table is hashed as ONE array: number of significand bits of that array — 53 for `DataFrame.values`
  on the int64 / float64 node table (pandas picks float64 as common dtype), 24 for an explicit float32 cast, 11 for
  float16, 0 for a conversion the translator does not know (unused, 0, when `hashNative`) -/
  hashBits : Nat
  /-- cached graph objects that `TreeNeuron.copy()` hands to the copy as a *view* of the original's object
  (`_graph_nx.copy(as_view=…)`) -/
  sharedOnCopy : List Attr
  /-- every function that edits a cached graph object in place -/
  editors : List Editor
  deriving Repr

/-- Primitive protocol events (what the harness observes on the real object). -/
inductive Ev where
  | isStale                      -- evaluation of `x.is_stale`
  | clear (excl : List String)   -- `x._clear_temp_attr(exclude=excl)` (TreeNeuron override)
  | write (a : Attr)             -- `x.<a> = <value computed from the current table>`
  | change (v t : Nat)           -- hashed content becomes `v`, topology content `t`
  | classify                     -- `classify_nodes(x)`
  | retype (t0 : Nat)            -- the `type` of a few nodes is patched by hand (reroot), assuming the column
                                 -- was computed from topology `t0`
  | lock
  | unlock
  | copy                         -- continue with `x.copy()`
  | copyOut                      -- a copy of `x` was made (effect on `x`: `is_stale` is evaluated)
  | pickle                       -- continue with `pickle.loads(pickle.dumps(x))`
  | enter (view : String)        -- marker: a cached property is entered
  | exit (view : String)         -- marker: … and returns
  deriving DecidableEq, Repr

structure St where
  /-- content id of the hashed columns now -/
  ver : Nat
  /-- ghost: strictly above every content id seen so far -/
  hi : Nat
  /-- `_current_md5` (hash = identity on content ids) -/
  md5 : Nat
  stale : Bool
  lock : Nat
  /-- cache attribute ↦ content id it was computed from -/
  cache : List (Attr × Nat)
  /-- content id of `node_id,parent_id` now -/
  tver : Nat
  /-- topology content the `type` column was computed from -/
  typeVer : Nat
  deriving DecidableEq, Repr

/-- A freshly constructed neuron: stamped, classified, nothing cached. -/
def init : St := ⟨0, 1, 0, false, 0, [], 0, 0⟩

def has (s : St) (a : Attr) : Bool := s.cache.any (fun p => p.1 == a)

def tagOf (s : St) (a : Attr) : Option Nat := (s.cache.find? (fun p => p.1 == a)).map (·.2)

def put (s : St) (a : Attr) : St :=
  { s with cache := (a, s.ver) :: s.cache.filter (fun p => p.1 != a) }

def classifyS (s : St) : St := { s with typeVer := s.tver }

def isStaleS (sp : Spec) (s : St) : St :=
  if sp.isStaleSticky && s.stale then s
  else if sp.isStaleRecomputes then { s with stale := s.md5 != s.ver }
  else s

/-- entries that survive `_clear_temp_attr(exclude)`: the *name* matches `exclude` by the string rule of the
source (literally, or — if the source says so — with a leading underscore), or is not registered in `TEMP_ATTR` -/
def exclMatches (sp : Spec) (excl : List String) (a : Attr) : Bool :=
  excl.contains a || (sp.exclPrefix && excl.any (fun e => "_" ++ e == a))

def retained (sp : Spec) (excl : List String) (c : List (Attr × Nat)) : List (Attr × Nat) :=
  c.filter (fun p => exclMatches sp excl p.1 || !(sp.tempAttr.contains p.1))

def clearBase (sp : Spec) (excl : List String) (s : St) : St :=
  if sp.clearGuardsLock && decide (0 < s.lock) then s
  else { s with md5 := if sp.clearRestamps then s.ver else s.md5,
                stale := if sp.clearRestamps then false else s.stale,
                cache := if sp.clearDeletes then retained sp excl s.cache else s.cache }

def clearS (sp : Spec) (excl : List String) (s : St) : St :=
  if excl.contains "classify_nodes" then clearBase sp excl s else classifyS (clearBase sp excl s)

def unlocked (sp : Spec) (s : St) : St :=
  { s with lock := if sp.copyNoCopy.contains "_lock" then 0 else s.lock }

def copyS (sp : Spec) (s : St) : St :=
  if (isStaleS sp s).stale then
    (if sp.copyClearsIfStale then clearS sp [] (unlocked sp s) else unlocked sp s)
  else unlocked sp s

def pickleS (sp : Spec) (s : St) : St :=
  { s with cache := s.cache.filter (fun p => !(sp.getstateDrops.contains p.1)) }

def step (sp : Spec) (s : St) : Ev → St
  | .isStale => isStaleS sp s
  | .copyOut => isStaleS sp s
  | .clear excl => clearS sp excl s
  | .write a => put s a
  | .change v t => { s with ver := v, tver := t, hi := max s.hi (v + 1) }
  | .classify => classifyS s
  | .retype t0 => if s.typeVer = t0 then classifyS s else s
  | .lock => { s with lock := s.lock + 1 }
  | .unlock => { s with lock := s.lock - 1 }
  | .copy => copyS sp s
  | .pickle => pickleS sp s
  | .enter _ => s
  | .exit _ => s

def run (sp : Spec) (s : St) (es : List Ev) : St := es.foldl (step sp) s

/-- states after every event (for the per-event comparison with the real object) -/
def trace (sp : Spec) (s : St) : List Ev → List St
  | [] => []
  | e :: es => step sp s e :: trace sp (step sp s e) es

/-! ### Composite events: reading a cached property -/

/-- what the `@temp_property` wrapper does in state `s` -/
def wrapperPrims (sp : Spec) (s : St) : List Ev :=
  if !sp.wrapperChecks || decide (0 < s.lock) then []
  else if (isStaleS sp s).stale then [.isStale, .clear []] else [.isStale]

def viewPrefix (sp : Spec) (s : St) (v : View) : List Ev :=
  if v.wrapped then wrapperPrims sp s else []

/-- compute-if-absent body -/
def fillPrims (s : St) (v : View) : List Ev :=
  if has s v.attr then [] else (if v.selfCopy then [.copyOut] else []) ++ [.write v.attr]

/-- the primitive events of one read of view `v` in state `s` (no nested reads) -/
def readPrims (sp : Spec) (s : St) (v : View) : List Ev :=
  [.enter v.name] ++ viewPrefix sp s v ++ fillPrims (run sp s (viewPrefix sp s v)) v ++ [.exit v.name]

def readS (sp : Spec) (s : St) (v : View) : St := run sp s (readPrims sp s v)

/-- content id of the value a read of `v` returns -/
def readTag (sp : Spec) (s : St) (v : View) : Option Nat := tagOf (readS sp s v) v.attr

def findView (sp : Spec) (name : String) : Option View := sp.views.find? (fun v => v.name == name)

/-! ### Admissible events (the envelope of the freshness theorems) -/

def cachedAttrs (sp : Spec) : List Attr := sp.views.map (·.attr)

def wrappedViews (sp : Spec) : List View := sp.views.filter (·.wrapped)
def unwrappedViews (sp : Spec) : List View := sp.views.filter (fun v => !v.wrapped)

/-- `exclude` lists that occur in the source (plus the default `[]`) -/
def knownExcl (sp : Spec) (excl : List String) : Bool :=
  excl == [] || sp.clearSites.any (fun c => c.excl == excl)

/-- `change` yields content never seen before; clears use an `exclude` literal of the source;
only registered cache attributes are written. -/
def admB (sp : Spec) (s : St) : Ev → Bool
  | .clear excl => knownExcl sp excl
  | .write a => (cachedAttrs sp).contains a
  | .change v _ => decide (s.hi ≤ v)
  | .unlock => decide (0 < s.lock)
  | _ => true

def admAll (sp : Spec) (s : St) : List Ev → Bool
  | [] => true
  | e :: es => admB sp s e && admAll sp (step sp s e) es

/-- the source-level obligations: every cache attribute is registered in `TEMP_ATTR`, no `exclude`
literal of any call site names a cache attribute, and the protocol functions have the expected shape -/
def soundB (sp : Spec) : Bool :=
  sp.clearRestamps && sp.clearDeletes && sp.isStaleRecomputes && sp.wrapperChecks
  && sp.views.all (fun v => sp.tempAttr.contains v.attr)
  && sp.clearSites.all (fun c => sp.views.all (fun v => !(exclMatches sp c.excl v.attr)))

/-- What the `lock_neuron` wrapper does in state `s` *before* it increments the lock counter:
`if not x.is_locked and x.is_stale: x._clear_temp_attr()` — nothing when the source has no such check or the
neuron is already locked (nested call), otherwise an `is_stale` evaluation and, if stale, a clear. -/
def lockEntryPrims (sp : Spec) (s : St) : List Ev :=
  if !sp.lockChecksStale || decide (0 < s.lock) then []
  else if (isStaleS sp s).stale then [.isStale, .clear []] else [.isStale]

/-- What an in-place operator (`x *= k`, `/=`, `+=`, `-=`) does in state `s` *before* it touches the coordinates:
nothing when the source has no such step or the neuron is locked, otherwise an `is_stale` evaluation and, if
stale, a full clear (which re-classifies). -/
def validatePrims (sp : Spec) (s : St) : List Ev :=
  if !sp.iopValidates || decide (0 < s.lock) then []
  else if (isStaleS sp s).stale then [.isStale, .clear []] else [.isStale]

/-- A call, in state `s`, of a `@lock_neuron` function whose body performs `body` and then returns or raises. -/
def lockedCall (sp : Spec) (s : St) (body : List Ev) (raises : Bool) : List Ev :=
  lockEntryPrims sp s ++ [Ev.lock] ++ body ++ (if raises && !sp.lockFinally then [] else [Ev.unlock])

/-- The primitive events of one catalogue operation in state `s`: (if the function is `@lock_neuron`) the
wrapper's entry check and the lock, reads under the lock (`pre`), the change of the table, cache writes made
from the changed table (`post`: graphs edited in step / carried over), the trailing
`_clear_temp_attr(exclude=…)` of the call site (if not deleted), unlock. -/
def opPrims (sp : Spec) (s : St) (c : ClearSite) (pre post : List View) (v t : Nat) (withClear : Bool) : List Ev :=
  (if c.locked then lockEntryPrims sp s ++ [Ev.lock] else []) ++ pre.map (fun w => Ev.write w.attr) ++ [Ev.change v t]
    ++ post.map (fun w => Ev.write w.attr) ++ (if withClear then [Ev.clear c.excl] else [])
    ++ (if c.locked then [Ev.unlock] else [])

/-- "the stamp says current" -/
def stampCurrent (s : St) : Bool := s.lock == 0 && !s.stale && s.md5 == s.ver

/-! ### Observed form of the composite events (what a trace of the real object shows)

The primitive `clear excl` is the `TreeNeuron` override as a whole: the base clear and — unless
`"classify_nodes"` is excluded — a call of `classify_nodes`, which is itself a `@lock_neuron` function.  A trace
of the real object therefore shows, after the base clear, that nested call: its entry check, lock, unlock and
the completion of the classification.  On the model state these extra events change nothing
(`Props.C02.clear_trace_refines`). -/

/-- the nested `classify_nodes(x)` call of the `TreeNeuron` override, in the state after the base clear
(the tracer sees the classification complete when the locked wrapper has returned) -/
def classifyCallTrace (sp : Spec) (s : St) : List Ev := lockedCall sp s [] false ++ [.classify]

def clearTrace (sp : Spec) (s : St) (excl : List String) : List Ev :=
  [.clear excl] ++ (if excl.contains "classify_nodes" then [] else classifyCallTrace sp (step sp s (.clear excl)))

/-- replace every `clear` of an event list by its observed form -/
def expandClears (sp : Spec) : St → List Ev → List Ev
  | _, [] => []
  | s, e :: es =>
    (match e with
     | .clear excl => clearTrace sp s excl
     | _ => [e]) ++ expandClears sp (step sp s e) es

/-! ### Wrapper discipline of a traced run (evaluated by the driver on real traces) -/

/-- Offending event indices of a traced run:

* at every `enter v` the following events must be exactly what the `temp_property` wrapper does in the model
  state (observed form); an `is_stale` / clear right after it is only admissible as the entry check of a
  `@lock_neuron` function called by the compute body;
* at every `exit v` the attribute must be present;
* every `lock` taken on an unlocked neuron must be preceded by exactly the entry check the generated spec
  describes (`lockEntryPrims`, observed form): `just` collects the positions of the `lock` events justified so. -/
def disciplineAux (sp : Spec) : Nat → List Nat → St → List Ev → List Nat
  | _, _, _, [] => []
  | i, just, s, e :: es =>
    let ent := expandClears sp s (lockEntryPrims sp s)
    let just := if !ent.isEmpty && (ent ++ [Ev.lock]).isPrefixOf (e :: es) then (i + ent.length) :: just else just
    let bad :=
      match e with
      | .enter n =>
        match findView sp n with
        | none => false
        | some v =>
          let w := expandClears sp s (viewPrefix sp s v)
          !(w.isPrefixOf es) ||
            (let s' := run sp s w
             let rest := es.drop w.length
             let ent' := expandClears sp s' (lockEntryPrims sp s')
             match rest with
             | .isStale :: _ => ent'.isEmpty || !((ent' ++ [Ev.lock]).isPrefixOf rest)
             | .clear _ :: _ => true
             | _ => false)
      | .exit n =>
        match findView sp n with
        | none => false
        | some v => !(has s v.attr)
      | .lock => sp.lockChecksStale && s.lock == 0 && !(just.contains i)
      | _ => false
    (if bad then [i] else []) ++ disciplineAux sp (i + 1) just (step sp s e) es

def discipline (sp : Spec) (s : St) (es : List Ev) : List Nat := disciplineAux sp 0 [] s es

/-! ### Objects shared between a neuron and its copy (fix 7a5fe2d)

`TreeNeuron.copy()` gives the copy a *view* of the original's networkx graph object.  Sharing is harmless as long
as nobody edits the shared object in place.  The model tracks, for one cache attribute and a pair (original `A`,
copy `B`), the content each side's cached object describes and whether both sides reference the *same* object.
A direct edit of a table only drops that side's reference (the staleness wrapper clears it at the next read);
an operation that edits the cached object in step with the table (reroot) either detaches first (the side gets an
independent object) or writes through to whoever shares the object. -/

structure Pair where
  verA : Nat
  verB : Nat
  /-- content described by the object `A` (`B`) holds, if any -/
  tagA : Option Nat
  tagB : Option Nat
  /-- both hold the same object -/
  same : Bool
  deriving DecidableEq, Repr

inductive PEv where
  | warm (b : Bool)              -- side computes its view from its own table (a new object)
  | copy (b : Bool)              -- the other side becomes a copy of side `b` (`false` = A, `true` = B)
  | edit (b : Bool) (v : Nat)    -- an operation on side `b` changes its table to `v` and co-edits its cached object
  | change (b : Bool) (v : Nat)  -- direct edit / replacement of side `b`'s table
  deriving DecidableEq, Repr

def pstep (shared detaches : Bool) (p : Pair) : PEv → Pair
  | .warm false => if p.tagA.isSome then p else { p with tagA := some p.verA, same := false }
  | .warm true => if p.tagB.isSome then p else { p with tagB := some p.verB, same := false }
  | .copy false => { p with verB := p.verA, tagB := p.tagA, same := shared && p.tagA.isSome }
  | .copy true => { p with verA := p.verB, tagA := p.tagB, same := shared && p.tagB.isSome }
  | .edit false v =>
    if p.tagA.isNone then { p with verA := v }
    else if detaches || !p.same then { p with verA := v, tagA := some v, same := false }
    else { p with verA := v, tagA := some v, tagB := some v }
  | .edit true v =>
    if p.tagB.isNone then { p with verB := v }
    else if detaches || !p.same then { p with verB := v, tagB := some v, same := false }
    else { p with verB := v, tagB := some v, tagA := some v }
  | .change false v => { p with verA := v, tagA := none, same := false }
  | .change true v => { p with verB := v, tagB := none, same := false }

def prun (shared detaches : Bool) (p : Pair) (es : List PEv) : Pair := es.foldl (pstep shared detaches) p

/-- each side's cached object describes that side's own table -/
def PairOK (p : Pair) : Prop :=
  (p.tagA = none ∨ p.tagA = some p.verA) ∧ (p.tagB = none ∨ p.tagB = some p.verB)

/-- source-level obligation: whoever edits an object that copies share must detach first -/
def aliasSafeB (sp : Spec) : Bool :=
  sp.editors.all (fun e => !(sp.sharedOnCopy.contains e.attr) || e.detaches)

/-! ### Which node-table columns a view is computed from (read in the compute bodies) -/

def viewDeps (name : String) : List String :=
  if name == "simple" then ["node_id", "parent_id", "x", "y", "z", "radius"]
  else ["node_id", "parent_id", "x", "y", "z"]

/-- the lazily cached views the property statement lists as protected by the staleness check -/
def expectedWrapped : List String :=
  ["graph", "igraph", "segments", "small_segments", "geodesic_matrix", "cable_length", "adjacency_matrix"]

end Navis.Cache
