/-!
# Cache protocol of `navis.TreeNeuron` (property C02) — executable model, import-free

How navis keeps derived views fresh (read in `core/base.py`, `core/core_utils.py`, `core/skeleton.py`):

* every lazily cached view stores its value in an attribute listed in `TEMP_ATTR`;
* `core_md5` hashes the columns `CORE_DATA` of the node table; `_current_md5` is the hash at the last
  *effective* `_clear_temp_attr`;
* `is_stale` compares the two (sticky `_stale` flag);
* the `@temp_property` wrapper: `if not locked: if is_stale: _clear_temp_attr()` and only then the
  compute-if-absent body runs;
* `_clear_temp_attr(exclude)` returns immediately while the neuron is locked (`@lock_neuron`), otherwise
  re-stamps, resets `_stale` and deletes every `TEMP_ATTR` name that is not literally in `exclude`; the
  `TreeNeuron` override additionally re-classifies the `type` column unless `"classify_nodes"` is in
  `exclude` (this part is *not* guarded by the lock).

The model is that protocol.  Content is abstract: `ver` identifies the content of the hashed columns
(the hash is modelled as the identity on content ids, i.e. as an injective function — trusted base),
`tver` the content of `node_id,parent_id` (what the `type` column is computed from).  Every cache entry
carries the content id it was computed from.  Primitive events are exactly the calls that can be
observed on the real object (the harness traces them): `is_stale`, `_clear_temp_attr(exclude)`,
assignment of a cache attribute, a change of the hashed content, `classify_nodes`, lock/unlock,
`copy`, pickling.  The declarative facts (`TEMP_ATTR`, `CORE_DATA`, which views carry the wrapper,
the `exclude` literal of every `_clear_temp_attr` call site, what `copy`/`__getstate__` do, the shape
of `is_stale`/`_clear_temp_attr`/the wrapper) are a `Spec` that is *generated from the source*
(`Gen/CacheSpec.lean`).
-/
namespace Navis.Cache

abbrev Attr := String

/-- A lazily cached view: public property `name`, stored in `__dict__[attr]`. -/
structure View where
  name : String
  attr : Attr
  /-- decorated with `@temp_property` -/
  wrapped : Bool
  /-- the compute body calls `self.copy()` (which evaluates `self.is_stale`) -/
  selfCopy : Bool
  deriving DecidableEq, Repr

/-- One `_clear_temp_attr(exclude=[…])` call site. -/
structure ClearSite where
  fn : String
  excl : List String
  /-- the enclosing function is decorated with `@lock_neuron` -/
  locked : Bool
  deriving DecidableEq, Repr

/-- Declarative facts extracted from the navis source by `translator/gen_cache.py`. -/
structure Spec where
  tempAttr : List Attr
  coreTable : String
  coreCols : List String
  views : List View
  clearSites : List ClearSite
  lockedFns : List String
  getstateDrops : List Attr
  copyNoCopy : List String
  /-- `copy`: `if not self.is_stale: … else: x._clear_temp_attr()` -/
  copyClearsIfStale : Bool
  /-- `is_stale` evaluates `_current_md5 != core_md5` when the flag is not set -/
  isStaleRecomputes : Bool
  /-- `is_stale` returns `True` without recomputing once `_stale` is set -/
  isStaleSticky : Bool
  /-- `_clear_temp_attr` returns immediately when the neuron is locked -/
  clearGuardsLock : Bool
  /-- `_clear_temp_attr` sets `_current_md5 = core_md5; _stale = False` -/
  clearRestamps : Bool
  /-- `_clear_temp_attr` deletes every `TEMP_ATTR` name not in `exclude` -/
  clearDeletes : Bool
  /-- the `temp_property` wrapper is `if not locked: if is_stale: _clear_temp_attr()` -/
  wrapperChecks : Bool
  /-- `_clear_temp_attr` also treats `"_" ++ e` as excluded for every `e` in `exclude` -/
  exclPrefix : Bool
  /-- `lock_neuron` releases the lock in a `finally:` (also when the wrapped call raises) -/
  lockFinally : Bool
  deriving Repr

/-- Primitive protocol events (what the harness observes on the real object). -/
inductive Ev where
  | isStale                      -- evaluation of `x.is_stale`
  | clear (excl : List String)   -- `x._clear_temp_attr(exclude=excl)` (TreeNeuron override)
  | write (a : Attr)             -- `x.<a> = <value computed from the current table>`
  | change (v t : Nat)           -- hashed content becomes `v`, topology content `t`
  | classify                     -- `classify_nodes(x)`
  | retype (t0 : Nat)            -- the `type` of a few nodes is patched by hand (reroot), assuming the column
                                 -- was computed from topology `t0`
  | lock
  | unlock
  | copy                         -- continue with `x.copy()`
  | copyOut                      -- a copy of `x` was made (effect on `x`: `is_stale` is evaluated)
  | pickle                       -- continue with `pickle.loads(pickle.dumps(x))`
  | enter (view : String)        -- marker: a cached property is entered
  | exit (view : String)         -- marker: … and returns
  deriving DecidableEq, Repr

structure St where
  /-- content id of the hashed columns now -/
  ver : Nat
  /-- ghost: strictly above every content id seen so far -/
  hi : Nat
  /-- `_current_md5` (hash = identity on content ids) -/
  md5 : Nat
  stale : Bool
  lock : Nat
  /-- cache attribute ↦ content id it was computed from -/
  cache : List (Attr × Nat)
  /-- content id of `node_id,parent_id` now -/
  tver : Nat
  /-- topology content the `type` column was computed from -/
  typeVer : Nat
  deriving DecidableEq, Repr

/-- A freshly constructed neuron: stamped, classified, nothing cached. -/
def init : St := ⟨0, 1, 0, false, 0, [], 0, 0⟩

def has (s : St) (a : Attr) : Bool := s.cache.any (fun p => p.1 == a)

def tagOf (s : St) (a : Attr) : Option Nat := (s.cache.find? (fun p => p.1 == a)).map (·.2)

def put (s : St) (a : Attr) : St :=
  { s with cache := (a, s.ver) :: s.cache.filter (fun p => p.1 != a) }

def classifyS (s : St) : St := { s with typeVer := s.tver }

def isStaleS (sp : Spec) (s : St) : St :=
  if sp.isStaleSticky && s.stale then s
  else if sp.isStaleRecomputes then { s with stale := s.md5 != s.ver }
  else s

/-- entries that survive `_clear_temp_attr(exclude)`: the *name* matches `exclude` by the string rule of the
source (literally, or — if the source says so — with a leading underscore), or is not registered in `TEMP_ATTR` -/
def exclMatches (sp : Spec) (excl : List String) (a : Attr) : Bool :=
  excl.contains a || (sp.exclPrefix && excl.any (fun e => "_" ++ e == a))

def retained (sp : Spec) (excl : List String) (c : List (Attr × Nat)) : List (Attr × Nat) :=
  c.filter (fun p => exclMatches sp excl p.1 || !(sp.tempAttr.contains p.1))

def clearBase (sp : Spec) (excl : List String) (s : St) : St :=
  if sp.clearGuardsLock && decide (0 < s.lock) then s
  else { s with md5 := if sp.clearRestamps then s.ver else s.md5,
                stale := if sp.clearRestamps then false else s.stale,
                cache := if sp.clearDeletes then retained sp excl s.cache else s.cache }

def clearS (sp : Spec) (excl : List String) (s : St) : St :=
  if excl.contains "classify_nodes" then clearBase sp excl s else classifyS (clearBase sp excl s)

def unlocked (sp : Spec) (s : St) : St :=
  { s with lock := if sp.copyNoCopy.contains "_lock" then 0 else s.lock }

def copyS (sp : Spec) (s : St) : St :=
  if (isStaleS sp s).stale then
    (if sp.copyClearsIfStale then clearS sp [] (unlocked sp s) else unlocked sp s)
  else unlocked sp s

def pickleS (sp : Spec) (s : St) : St :=
  { s with cache := s.cache.filter (fun p => !(sp.getstateDrops.contains p.1)) }

def step (sp : Spec) (s : St) : Ev → St
  | .isStale => isStaleS sp s
  | .copyOut => isStaleS sp s
  | .clear excl => clearS sp excl s
  | .write a => put s a
  | .change v t => { s with ver := v, tver := t, hi := max s.hi (v + 1) }
  | .classify => classifyS s
  | .retype t0 => if s.typeVer = t0 then classifyS s else s
  | .lock => { s with lock := s.lock + 1 }
  | .unlock => { s with lock := s.lock - 1 }
  | .copy => copyS sp s
  | .pickle => pickleS sp s
  | .enter _ => s
  | .exit _ => s

def run (sp : Spec) (s : St) (es : List Ev) : St := es.foldl (step sp) s

/-- states after every event (for the per-event comparison with the real object) -/
def trace (sp : Spec) (s : St) : List Ev → List St
  | [] => []
  | e :: es => step sp s e :: trace sp (step sp s e) es

/-! ### Composite events: reading a cached property -/

/-- what the `@temp_property` wrapper does in state `s` -/
def wrapperPrims (sp : Spec) (s : St) : List Ev :=
  if !sp.wrapperChecks || decide (0 < s.lock) then []
  else if (isStaleS sp s).stale then [.isStale, .clear []] else [.isStale]

def viewPrefix (sp : Spec) (s : St) (v : View) : List Ev :=
  if v.wrapped then wrapperPrims sp s else []

/-- compute-if-absent body -/
def fillPrims (s : St) (v : View) : List Ev :=
  if has s v.attr then [] else (if v.selfCopy then [.copyOut] else []) ++ [.write v.attr]

/-- the primitive events of one read of view `v` in state `s` (no nested reads) -/
def readPrims (sp : Spec) (s : St) (v : View) : List Ev :=
  [.enter v.name] ++ viewPrefix sp s v ++ fillPrims (run sp s (viewPrefix sp s v)) v ++ [.exit v.name]

def readS (sp : Spec) (s : St) (v : View) : St := run sp s (readPrims sp s v)

/-- content id of the value a read of `v` returns -/
def readTag (sp : Spec) (s : St) (v : View) : Option Nat := tagOf (readS sp s v) v.attr

def findView (sp : Spec) (name : String) : Option View := sp.views.find? (fun v => v.name == name)

/-! ### Admissible events (the envelope of the freshness theorems) -/

def cachedAttrs (sp : Spec) : List Attr := sp.views.map (·.attr)

def wrappedViews (sp : Spec) : List View := sp.views.filter (·.wrapped)
def unwrappedViews (sp : Spec) : List View := sp.views.filter (fun v => !v.wrapped)

/-- `exclude` lists that occur in the source (plus the default `[]`) -/
def knownExcl (sp : Spec) (excl : List String) : Bool :=
  excl == [] || sp.clearSites.any (fun c => c.excl == excl)

/-- `change` yields content never seen before; clears use an `exclude` literal of the source;
only registered cache attributes are written. -/
def admB (sp : Spec) (s : St) : Ev → Bool
  | .clear excl => knownExcl sp excl
  | .write a => (cachedAttrs sp).contains a
  | .change v _ => decide (s.hi ≤ v)
  | .unlock => decide (0 < s.lock)
  | _ => true

def admAll (sp : Spec) (s : St) : List Ev → Bool
  | [] => true
  | e :: es => admB sp s e && admAll sp (step sp s e) es

/-- the source-level obligations: every cache attribute is registered in `TEMP_ATTR`, no `exclude`
literal of any call site names a cache attribute, and the protocol functions have the expected shape -/
def soundB (sp : Spec) : Bool :=
  sp.clearRestamps && sp.clearDeletes && sp.isStaleRecomputes && sp.wrapperChecks
  && sp.views.all (fun v => sp.tempAttr.contains v.attr)
  && sp.clearSites.all (fun c => sp.views.all (fun v => !(exclMatches sp c.excl v.attr)))

/-- A call of a `@lock_neuron` function whose body performs `body` and then returns or raises. -/
def lockedCall (sp : Spec) (body : List Ev) (raises : Bool) : List Ev :=
  [Ev.lock] ++ body ++ (if raises && !sp.lockFinally then [] else [Ev.unlock])

/-- "the stamp says current" -/
def stampCurrent (s : St) : Bool := s.lock == 0 && !s.stale && s.md5 == s.ver

/-! ### Wrapper discipline of a traced run (evaluated by the driver on real traces) -/

/-- At every `enter v` the following events must be exactly what the wrapper does in the model state;
at every `exit v` the attribute must be present.  Returns the indices of offending events. -/
def disciplineAux (sp : Spec) : Nat → St → List Ev → List Nat
  | _, _, [] => []
  | i, s, e :: es =>
    let bad :=
      match e with
      | .enter n =>
        match findView sp n with
        | none => false
        | some v =>
          let w := viewPrefix sp s v
          !(w.isPrefixOf es) ||
            (match es.drop w.length with
             | .isStale :: _ => true
             | .clear _ :: _ => true
             | _ => false)
      | .exit n =>
        match findView sp n with
        | none => false
        | some v => !(has s v.attr)
      | _ => false
    (if bad then [i] else []) ++ disciplineAux sp (i + 1) (step sp s e) es

def discipline (sp : Spec) (s : St) (es : List Ev) : List Nat := disciplineAux sp 0 s es

/-! ### Which node-table columns a view is computed from (read in the compute bodies) -/

def viewDeps (name : String) : List String :=
  if name == "simple" then ["node_id", "parent_id", "x", "y", "z", "radius"]
  else ["node_id", "parent_id", "x", "y", "z"]

/-- the lazily cached views the property statement lists as protected by the staleness check -/
def expectedWrapped : List String :=
  ["graph", "igraph", "segments", "small_segments", "geodesic_matrix", "cable_length", "adjacency_matrix"]

end Navis.Cache
