/-!
# C15 — coordinate arithmetic and units (import-free, total, computable, exact `Rat`)

Models, the way the navis code does it:

* `UnitObject.units` setter / getter (`navis/core/base.py`): every accepted spelling is first turned by
  **pint (external, not modelled)** into `(magnitude, base unit)`; the model starts from that pair
  (`UnitArg.parsed`), plain numbers (`"<v> dimensionless"`) and `None`; one value or an x/y/z triple sharing one
  base unit.  `Units` is what `.units_xyz` returns: three magnitudes and one base unit `10^e` metres
  (`nm = metre (-9)`, `um = metre (-6)`, `mm = metre (-3)`, `m = metre 0`) or `dimless`.
* `__mul__ / __truediv__ / __add__ / __sub__` of `TreeNeuron`, `MeshNeuron`, `Dotprops`, `VoxelNeuron`
  (scalar, 3-vector, 4-vector; `none` = the call raises).  pint's `to_compact()` picks a new SI prefix for the
  rescaled unit: *which* prefix is pint's choice (external) and is an argument `p` of the model
  (`Units.compact`); every theorem holds for every `p`.
* `BaseNeuron.convert_units`, `BaseNeuron.map_units` / `core_utils.to_neuron_space`, `utils.round_smart`.
* the metadata flow `(units, name, id)` through `__init__` (as of navis commit 4ae0b05: the final
  `self.units = units` is skipped when `units is None` and the object already carries units), `copy`,
  re-initialisation from a neuron (`TreeNeuron(x)`, `x.__init__(prox)` in `prune_distal_to` /
  `prune_proximal_to`), construction from a table, functions working on a copy,
  constructors that pass `units=x.units, name=x.name, id=x.id`, and pickling.
-/
namespace Navis.Units

/-! ## Vectors -/

structure V3 where
  x : Rat
  y : Rat
  z : Rat
deriving DecidableEq

namespace V3
def rep (k : Rat) : V3 := ⟨k, k, k⟩
def mul (a b : V3) : V3 := ⟨a.x * b.x, a.y * b.y, a.z * b.z⟩
def div (a b : V3) : V3 := ⟨a.x / b.x, a.y / b.y, a.z / b.z⟩
def add (a b : V3) : V3 := ⟨a.x + b.x, a.y + b.y, a.z + b.z⟩
def sub (a b : V3) : V3 := ⟨a.x - b.x, a.y - b.y, a.z - b.z⟩
/-- all three components are non-zero -/
def nz (a : V3) : Bool := a.x != 0 && a.y != 0 && a.z != 0
/-- all three components are equal -/
def iso (a : V3) : Bool := a.x == a.y && a.y == a.z
end V3

/-! ## Units -/

/-- Base unit: dimensionless, or `10^e` metres. -/
inductive Base where
  | dimless
  | metre (e : Int)
deriving DecidableEq

def pow10 (e : Int) : Rat :=
  if 0 ≤ e then (10 : Rat) ^ e.toNat else 1 / (10 : Rat) ^ (-e).toNat

/-- metres per base unit (`1` for dimensionless) -/
def Base.scale : Base → Rat
  | .dimless => 1
  | .metre e => pow10 e

/-- `.units_xyz`: per-axis magnitudes and the shared base unit. -/
structure Units where
  mag : V3
  base : Base
deriving DecidableEq

namespace Units
/-- `units=None`: `1 dimensionless`. -/
def none : Units := ⟨V3.rep 1, .dimless⟩
/-- physical length (metres; plain numbers when dimensionless) of one coordinate step along each axis -/
def phys (u : Units) : V3 := u.mag.mul (V3.rep u.base.scale)
def iso (u : Units) : Bool := u.mag.iso
def dimensionless (u : Units) : Bool :=
  match u.base with
  | .dimless => true
  | .metre _ => false
/-- pint's `to_compact()`: the same quantity written with the prefix `10^p` metres (the choice of `p` is
pint's); dimensionless quantities are returned unchanged. -/
def compact (u : Units) (p : Int) : Units :=
  match u.base with
  | .dimless => u
  | .metre e => ⟨u.mag.mul (V3.rep (pow10 e / pow10 p)), .metre p⟩
end Units

/-- One element handed to the `units` setter, after pint has parsed strings / `pint.Unit` / `pint.Quantity`. -/
inductive UnitArg where
  | none
  | number (v : Rat)
  | parsed (mag : Rat) (b : Base)
deriving DecidableEq

def UnitArg.q : UnitArg → Rat × Base
  | .none => (1, .dimless)
  | .number v => (v, .dimless)
  | .parsed m b => (m, b)

/-- `UnitObject.units` setter: one unit, or one per axis sharing the base unit; anything else raises. -/
def setUnits : List UnitArg → Option Units
  | [a] => some ⟨V3.rep a.q.1, a.q.2⟩
  | [a, b, c] =>
    if a.q.2 = b.q.2 ∧ b.q.2 = c.q.2 then some ⟨⟨a.q.1, b.q.1, c.q.1⟩, a.q.2⟩ else Option.none
  | _ => Option.none

/-! ## Neurons -/

inductive Kind where
  | tree | mesh | dotprops | voxel
deriving DecidableEq

/-- A neuron as far as C15 is concerned.  `pts`: node / vertex / point coordinates, or the integer voxel
indices of a `VoxelNeuron` (never touched by arithmetic); `radii`: the `radius` column (skeletons only);
`conns`: connector x/y/z; `offset`: `VoxelNeuron.offset` (zero otherwise). -/
structure Neuron where
  kind : Kind
  pts : List V3
  radii : List Rat
  conns : List V3
  offset : V3
  units : Units
  name : String
  id : Int
deriving DecidableEq

/-- Right operand of `* / + -`: a number, a 3-vector or a 4-vector (x, y, z, radius). -/
inductive Factor where
  | s (k : Rat)
  | v3 (f : V3)
  | v4 (f : V3) (r : Rat)
deriving DecidableEq

namespace Factor
def xyz : Factor → V3
  | .s k => V3.rep k
  | .v3 f => f
  | .v4 f _ => f
/-- factor applied to the `radius` column by `TreeNeuron.__mul__/__truediv__`: the number, the 4th component, or —
for x/y/z operands, navis 549685a — the x component (`other = np.append(other, other[0])`) -/
def rad : Factor → Rat
  | .s k => k
  | .v3 f => f.x
  | .v4 _ r => r
def nz : Factor → Bool
  | .s k => k != 0
  | .v3 f => f.nz
  | .v4 f r => f.nz && r != 0
end Factor

/-- Which operands `__mul__/__truediv__` accept without raising.  `TreeNeuron`: numbers, 4-vectors (x, y, z, radius)
and — since navis 549685a — 3-vectors (x, y, z; the radius is scaled like x; before, they raised `ValueError`, which
made `convert_units` fail for skeletons with per-axis units).  The array types broadcast against `(N, 3)`: numbers
and 3-vectors. -/
def acceptsScale : Kind → Factor → Bool
  | .tree, .s _ => true
  | .tree, .v3 _ => true
  | .tree, .v4 _ _ => true
  | _, .s _ => true
  | _, .v3 _ => true
  | _, .v4 _ _ => false

/-- Which operands `__add__/__sub__` accept: numbers and 3-vectors for every type. -/
def acceptsShift : Factor → Bool
  | .s _ => true
  | .v3 _ => true
  | .v4 _ _ => false

/-- `x * f` (`p`: the prefix `to_compact` picks).  Zero components are outside the model (`ZeroDivisionError`
/ `inf`).  Skeletons, meshes, dotprops: coordinates and connectors times `f`, `radius` times `f.rad`,
units divided by `f`.  Voxels: the *units* (voxel size), the offset and the connectors are multiplied; the voxel
size keeps its SI prefix (no `to_compact` since navis 881c0e3: offset and connectors live in the same unit). -/
def mul (n : Neuron) (f : Factor) (p : Int) : Option Neuron :=
  if acceptsScale n.kind f && f.nz then
    match n.kind with
    | .voxel => some { n with
        units := ⟨n.units.mag.mul f.xyz, n.units.base⟩,
        offset := n.offset.mul f.xyz,
        conns := n.conns.map (fun c => c.mul f.xyz) }
    | _ => some { n with
        pts := n.pts.map (fun c => c.mul f.xyz),
        radii := n.radii.map (fun r => r * f.rad),
        conns := n.conns.map (fun c => c.mul f.xyz),
        units := (⟨n.units.mag.div f.xyz, n.units.base⟩ : Units).compact p }
  else none

/-- `x / f`. -/
def div (n : Neuron) (f : Factor) (p : Int) : Option Neuron :=
  if acceptsScale n.kind f && f.nz then
    match n.kind with
    | .voxel => some { n with
        units := ⟨n.units.mag.div f.xyz, n.units.base⟩,
        offset := n.offset.div f.xyz,
        conns := n.conns.map (fun c => c.div f.xyz) }
    | _ => some { n with
        pts := n.pts.map (fun c => c.div f.xyz),
        radii := n.radii.map (fun r => r / f.rad),
        conns := n.conns.map (fun c => c.div f.xyz),
        units := (⟨n.units.mag.mul f.xyz, n.units.base⟩ : Units).compact p }
  else none

/-- `x + o`: coordinates (voxels: the offset) and connectors are shifted; radii and units untouched. -/
def add (n : Neuron) (o : Factor) : Option Neuron :=
  if acceptsShift o then
    match n.kind with
    | .voxel => some { n with offset := n.offset.add o.xyz, conns := n.conns.map (fun c => c.add o.xyz) }
    | _ => some { n with pts := n.pts.map (fun c => c.add o.xyz), conns := n.conns.map (fun c => c.add o.xyz) }
  else none

/-- `x - o`. -/
def sub (n : Neuron) (o : Factor) : Option Neuron :=
  if acceptsShift o then
    match n.kind with
    | .voxel => some { n with offset := n.offset.sub o.xyz, conns := n.conns.map (fun c => c.sub o.xyz) }
    | _ => some { n with pts := n.pts.map (fun c => c.sub o.xyz), conns := n.conns.map (fun c => c.sub o.xyz) }
  else none

/-! ## Physical observables -/

/-- coordinates in metres (plain numbers when dimensionless): coordinate × unit per axis; for voxels the
world position `index × voxel size + offset` in the base unit. -/
def physPts (n : Neuron) : List V3 :=
  match n.kind with
  | .voxel => n.pts.map (fun v => ((v.mul n.units.mag).add n.offset).mul (V3.rep n.units.base.scale))
  | _ => n.pts.map (fun c => c.mul n.units.phys)

/-- world coordinates in the base unit: `index × voxel size + offset` for voxels (what `VoxelNeuron.bbox`
uses), the coordinates themselves otherwise -/
def worldPts (n : Neuron) : List V3 :=
  match n.kind with
  | .voxel => n.pts.map (fun v => (v.mul n.units.mag).add n.offset)
  | _ => n.pts

/-- connector positions in metres (voxels: connectors live in world coordinates of the base unit) -/
def physConns (n : Neuron) : List V3 :=
  match n.kind with
  | .voxel => n.conns.map (fun c => c.mul (V3.rep n.units.base.scale))
  | _ => n.conns.map (fun c => c.mul n.units.phys)

/-- radii in metres (meaningful for isometric units: navis has one radius column) -/
def physRadii (n : Neuron) : List Rat := n.radii.map (fun r => r * n.units.phys.x)

/-! ## convert_units -/

/-- `n.units.to(to).magnitude`: factor from the neuron's unit to `10^to` metres, per axis; raises
(`DimensionalityError`) for dimensionless neurons. -/
def convFactor (u : Units) (tgt : Int) : Option V3 :=
  match u.base with
  | .dimless => none
  | .metre e => some (u.mag.mul (V3.rep (pow10 e / pow10 tgt)))

/-- `BaseNeuron.convert_units(to)`: `n *= conv` — a number for isometric units, an x/y/z array otherwise. -/
def convertUnits (n : Neuron) (tgt : Int) (p : Int) : Option Neuron :=
  match convFactor n.units tgt with
  | none => none
  | some c => mul n (if c.iso then .s c.x else .v3 c) p

/-! ## map_units / to_neuron_space / round_smart -/

/-- `⌊log10 n⌋` for `n ≥ 1` (`0` for `n < 10`). -/
def ilog10 (n : Nat) : Nat :=
  if h : n < 10 then 0 else 1 + ilog10 (n / 10)
termination_by n
decreasing_by omega

/-- Python's `round`: to the nearest integer, ties to even. -/
def roundHalfEven (q : Rat) : Int :=
  let f := q.floor
  if q - f < 1 / 2 then f
  else if 1 / 2 < q - f then f + 1
  else if f % 2 = 0 then f else f + 1

def rabs (q : Rat) : Rat := if q < 0 then -q else q

/-- number of decimals `round_smart(num, prec=8)` keeps: `max(8 - N, 0)`, `N = int(log10 |num|)` for
`|num| ≥ 1`, else `0` (zero has no digits before the decimal; the sign does not count — navis 0b634c2). -/
def smartDecimals (q : Rat) : Nat :=
  8 - (if rabs q < 1 then 0 else ilog10 (rabs q).floor.toNat)

/-- `utils.round_smart`: defined for every number since navis 0b634c2 (before, `math.log10` raised for
`num ≤ 0`); kept `Option`-valued for the callers. -/
def roundSmart (q : Rat) : Option Rat :=
  some ((roundHalfEven (q * (10 : Rat) ^ smartDecimals q) : Rat) / (10 : Rat) ^ smartDecimals q)

/-- argument of `map_units`: a plain number, or a string / pint object parsed by pint -/
inductive MapArg where
  | number (v : Rat)
  | qty (mag : Rat) (b : Base)
deriving DecidableEq

/-- the exact ratio `to_neuron_space` computes before rounding: `q.to(neuron unit).magnitude / neuron magnitude` -/
def mapRatio (u : Units) (a : Rat) (e : Int) : Rat :=
  match u.base with
  | .dimless => a
  | .metre en => a * (pow10 e / pow10 en) / u.mag.x

/-- `core_utils.to_neuron_space(units, neuron, on_error='raise')`; `none` = raises. -/
def mapUnits (n : Neuron) : MapArg → Option Rat
  | .number v => some v
  | .qty a b =>
    if n.units.dimensionless then none
    else if !n.units.iso then none
    else match b with
      | .dimless => some a
      | .metre e => roundSmart (mapRatio n.units a e)

/-! ## Metadata flow -/

/-- what the property says must survive non-scaling operations -/
def Neuron.metadata (n : Neuron) : Units × String × Int := (n.units, n.name, n.id)

/-- state of a freshly constructed empty neuron (`cls(None)`): random id, no name, dimensionless -/
def fresh (k : Kind) (freshId : Int) : Neuron :=
  ⟨k, [], [], [], V3.rep 0, Units.none, "", freshId⟩

/-- `x.__dict__.update(src.__dict__)`: every attribute of `src` overrides -/
def dictUpdate (_x src : Neuron) : Neuron := src

/-- `BaseNeuron.copy` / `TreeNeuron.copy` / …: `x = cls(None); x.__dict__.update(copies of self.__dict__)` -/
def copy (n : Neuron) (freshId : Int) : Neuron := dictUpdate (fresh n.kind freshId) n

/-- Last statement of `TreeNeuron.__init__` / `MeshNeuron.__init__` (since navis commit 4ae0b05):
`if units is not None or not hasattr(self, '_unit_str'): self.units = units`.
`cur` = the units the object already carries (`none`: no `_unit_str` yet — construction from a table);
`arg` = the `units=` argument (`none`: the default `None`).  `Option.none` result = the setter raises. -/
def assignUnits (cur : Option Units) (arg : Option (List UnitArg)) : Option Units :=
  match arg, cur with
  | Option.none, some u => some u
  | Option.none, Option.none => setUnits [.none]
  | some a, _ => setUnits a

/-- `TreeNeuron.__init__(self, x: TreeNeuron, units=unitsArg)` — also `MeshNeuron(x)` — and the explicit
re-initialisation `x.__init__(prox)`: `super().__init__()` (fresh id), `self.__dict__.update(x.copy().__dict__)`
(everything copied, units included), keyword metadata, and last `assignUnits`: the copied units stay unless
`units=` is given explicitly. -/
def reinit (n : Neuron) (unitsArg : Option (List UnitArg)) (freshId freshId' : Int) : Option Neuron :=
  let src := dictUpdate (fresh n.kind freshId) (copy n freshId')
  match assignUnits (some src.units) unitsArg with
  | Option.none => Option.none
  | some u => some { src with units := u }

/-- `TreeNeuron(table, units=unitsArg, name=…, id=…)` (and the array constructors of the other types): a fresh
object (no `_unit_str`), the data, keyword metadata, then `assignUnits`: the default gives `1 dimensionless`. -/
def fromTable (k : Kind) (pts : List V3) (radii : List Rat) (conns : List V3) (unitsArg : Option (List UnitArg))
    (name : String) (id : Int) : Option Neuron :=
  match assignUnits Option.none unitsArg with
  | Option.none => Option.none
  | some u => some ⟨k, pts, radii, conns, V3.rep 0, u, name, id⟩

/-- Edits of the *data* (node table, vertices, connectors …) that functions perform on their working copy. -/
structure DataEdit where
  pts : List V3 → List V3
  radii : List Rat → List Rat
  conns : List V3 → List V3

def applyEdit (n : Neuron) (e : DataEdit) : Neuron :=
  { n with pts := e.pts n.pts, radii := e.radii n.radii, conns := e.conns n.conns }

/-- Non-scaling operations by the way their result object is produced. -/
inductive Op where
  /-- `x.copy()`, `copy.copy(x)`, `NeuronList.copy` -/
  | copy
  /-- functions / methods that do `x = x.copy()` and then edit tables in place: reroot, cut (each piece),
  subset, prune_twigs, prune_by_strahler, prune_at_depth, longest_neurite, heal, resample, downsample,
  remove/insert nodes, …; stitch edits a copy of the master -/
  | onCopy (e : DataEdit)
  /-- builds a new object and passes `units=x.units, name=x.name, id=x.id` (make_dotprops, skeletonize,
  voxelize): the unit travels as a pint quantity and is parsed back -/
  | construct (k : Kind) (e : DataEdit)
  /-- `pickle.loads(pickle.dumps(x))`: `__dict__` minus callables / graphs -/
  | pickle
  /-- `cls(x)`: re-wrapping in the own class with the default `units=None` (`TreeNeuron(x)`, `MeshNeuron(x)`) -/
  | rewrap
  /-- `TreeNeuron.prune_distal_to` / `prune_proximal_to`: copy, cut (on a copy), `x.__init__(piece)` -/
  | reinitAfterCut (e : DataEdit)

/-- the unit of `n` as an argument of the setter (a pint quantity per axis, or one if isometric) -/
def unitsAsArg (u : Units) : List UnitArg :=
  if u.iso then [.parsed u.mag.x u.base]
  else [.parsed u.mag.x u.base, .parsed u.mag.y u.base, .parsed u.mag.z u.base]

def applyOp (n : Neuron) (ids : Int × Int × Int) : Op → Option Neuron
  | .copy => some (copy n ids.1)
  | .onCopy e => some (applyEdit (copy n ids.1) e)
  | .construct k e =>
    match setUnits (unitsAsArg n.units) with
    | Option.none => Option.none
    | some u => some { applyEdit { fresh k ids.1 with pts := n.pts, radii := n.radii, conns := n.conns } e with
                       units := u, name := n.name, id := n.id }
  | .pickle => some (dictUpdate (fresh n.kind ids.1) n)
  | .rewrap => reinit n Option.none ids.1 ids.2.1
  | .reinitAfterCut e => reinit (applyEdit (copy (copy n ids.1) ids.2.1) e) Option.none ids.2.2 ids.1

/-! ## Decidable comparison used by the driver (tolerance in `Rat`) -/

/-- `|a - b| ≤ tol · max(1, |b|)` -/
def closeR (tol a b : Rat) : Bool :=
  rabs (a - b) ≤ tol * (if rabs b < 1 then 1 else rabs b)

def closeV (tol : Rat) (a b : V3) : Bool := closeR tol a.x b.x && closeR tol a.y b.y && closeR tol a.z b.z

def closeL (tol : Rat) : List V3 → List V3 → Bool
  | [], [] => true
  | a :: as, b :: bs => closeV tol a b && closeL tol as bs
  | _, _ => false

def closeRL (tol : Rat) : List Rat → List Rat → Bool
  | [], [] => true
  | a :: as, b :: bs => closeR tol a b && closeRL tol as bs
  | _, _ => false

/-- Property checker evaluated on the implementation's own output: same physical coordinates, connectors
and (when `radii`) radii, within `tol` (relative, `0` = exact). -/
def samePhysB (tol : Rat) (radii : Bool) (a b : Neuron) : Bool :=
  closeL tol (physPts a) (physPts b) && closeL tol (physConns a) (physConns b)
    && (!radii || closeRL tol (physRadii a) (physRadii b))

end Navis.Units
