import NavisModel.Model.Prune
/-
The pure-Python Strahler sweep of `navis/morpho/mmetrics.py::strahler_index` — the code path taken when
`navis.utils.fastcore is None` (igraph and networkx back-ends alike) — modelled AS WRITTEN (C04).

```
end_nodes    = ids with type == "end"                    branch_nodes = ids with type == "branch"
root         = ids with type == "root"
list_of_childs = {n: [e[0] for e in g.in_edges(n)]}      parents = {node_id: parent_id}
branch_nodes = branch_nodes | {r for r in root if len(list_of_childs.get(r, [])) > 1}
SI = {} ; starting_points = end_nodes ; seen = set()
while starting_points:
    this_node = starting_points.pop()                     # ARBITRARY element of a set
    previous_indices = [SI[c] for c in list_of_childs[this_node]]          # KeyError if a child has no index yet
    if this_node in to_ignore: idx = 0
    elif not len(previous_indices): idx = 1
    elif len(previous_indices) == 1: idx = previous_indices[0]
    elif method == "greedy": idx = sum(previous_indices)
    elif previous_indices.count(max(previous_indices)) >= 2: idx = max(previous_indices) + 1
    else: idx = max(previous_indices)
    seen.add(this_node)
    segment = [this_node] ; parent_node = parents[this_node]
    while parent_node >= 0 and parent_node not in branch_nodes:
        this_node = parent_node ; parent_node = parents[this_node]
        segment.append(this_node) ; seen.add(this_node)
    SI.update({n: idx for n in segment})
    if parent_node >= 0:
        if all(child in seen for child in list_of_childs[parent_node]): starting_points.add(parent_node)
# ignored twigs
for tn in nodes[(type == "end") & node_id.isin(to_ignore)]:
    this_seg = [s for s in x.small_segments if s[0] == tn][0]
    this_SI = SI.get(this_seg[-1], 1)
    SI.update({n: this_SI for n in this_seg})
strahler_index = node_id.map(lambda x: SI.get(x, 1))
```

What is kept of the code: the work set (`queue`) from which an *arbitrary* element is popped — the model
takes a choice oracle `pick : St → Nat`, the theorems quantify over every oracle —, the `seen` set, the
dictionary `SI` (association list, newest binding first), the readiness test performed only for the node
at which a walk stops, node id 0 handled by `>= 0` (not by truthiness), forking roots treated as branch
points, non-forking roots walked through, isolated roots never visited (default 1).  `none` models the
two ways the Python code can fail: `KeyError` (a child without an index, a node without a parent entry)
and non-termination (fuel exhausted).  Import-free, total, computable.
-/
namespace Navis.Sweep
open Navis.Forest

/-- `end_nodes`: rows typed `end`. -/
def endNodes (t : Table) : List Int := (t.filter fun n => n.label == .end_).map (·.id)

/-- `branch_nodes | {r for r in root if len(list_of_childs.get(r, [])) > 1}`. -/
def branchNodes (t : Table) : List Int :=
  (t.filter fun n => n.label == .branch || (n.label == .root && decide ((children t n.id).length > 1))).map (·.id)

/-- `SI[i]` (`none` = `KeyError`): the newest binding wins. -/
def siGet? (si : List (Int × Nat)) (i : Int) : Option Nat := (si.find? fun p => p.1 == i).map (·.2)

/-- `SI.update({n: idx for n in segment})`. -/
def siUpdate (si : List (Int × Nat)) (segment : List Int) (idx : Nat) : List (Int × Nat) :=
  segment.map (fun n => (n, idx)) ++ si

/-- `SI.get(i, 1)`. -/
def siGetD (si : List (Int × Nat)) (i : Int) : Nat := (siGet? si i).getD 1

structure St where
  si : List (Int × Nat)
  seen : List Int
  queue : List Int
deriving Repr

/-- `[SI[c] for c in list_of_childs[this_node]]`. -/
def prevIndices (t : Table) (si : List (Int × Nat)) (u : Int) : Option (List Nat) :=
  (children t u).mapM (siGet? si)

/-- The `if / elif` chain that picks the index of the branch starting at `u`. -/
def branchIndex (greedy : Bool) (ign : List Int) (u : Int) (prev : List Nat) : Nat :=
  if ign.contains u then 0
  else if prev.length = 0 then 1
  else if prev.length = 1 then prev.headD 0
  else if greedy then prev.sum
  else if prev.count (prev.foldl max 0) ≥ 2 then prev.foldl max 0 + 1
  else prev.foldl max 0

/-- The inner `while parent_node >= 0 and parent_node not in branch_nodes` loop, started at `cur` (already
in the segment): the nodes appended to the segment and the `parent_node` at which the loop stopped. -/
def walkUp (t : Table) (br : List Int) : Nat → Int → Option (List Int × Int)
  | 0, _ => none
  | fuel + 1, cur =>
    match parentOf t cur with
    | none => none
    | some p =>
      if 0 ≤ p && !br.contains p then (walkUp t br fuel p).map fun r => (p :: r.1, r.2)
      else some ([], p)

/-- One iteration of the outer `while` loop with `this_node = u` popped from the work set. -/
def step (t : Table) (greedy : Bool) (ign : List Int) (br : List Int) (s : St) (u : Int) : Option St :=
  match prevIndices t s.si u with
  | none => none
  | some prev =>
    match walkUp t br (t.length + 1) u with
    | none => none
    | some (seg, pn) =>
      let idx := branchIndex greedy ign u prev
      let segment := u :: seg
      let seen' := s.seen ++ segment
      let q := s.queue.filter fun v => v != u
      let q' :=
        if 0 ≤ pn && (children t pn).all (fun c => seen'.contains c) then (if q.contains pn then q else q ++ [pn])
        else q
      some { si := siUpdate s.si segment idx, seen := seen', queue := q' }

/-- The element `starting_points.pop()` returns: any element of the work set, chosen by the oracle. -/
def popped (pick : St → Nat) (s : St) : Int := s.queue.getD (pick s % s.queue.length) 0

/-- The outer loop. -/
def loop (t : Table) (greedy : Bool) (ign : List Int) (br : List Int) (pick : St → Nat) : Nat → St → Option St
  | 0, s => if s.queue.isEmpty then some s else none
  | fuel + 1, s =>
    if s.queue.isEmpty then some s
    else match step t greedy ign br s (popped pick s) with
      | none => none
      | some s' => loop t greedy ign br pick fuel s'

def init (t : Table) : St := { si := [], seen := [], queue := endNodes t }

/-- The dictionary `SI` after the sweep (before the ignored-twig fix-up). -/
def sweepRaw (t : Table) (greedy : Bool) (ign : List Int) (pick : St → Nat) : Option (List (Int × Nat)) :=
  (loop t greedy ign (branchNodes t) pick (t.length + 1) (init t)).map (·.si)

/-- One round of "Fix branches that were ignored": the small segment of the ignored end node `tn` takes the
index of the segment's last node (`none`: `[...][0]` on an empty list — `IndexError`). -/
def fixStep (t : Table) (si : List (Int × Nat)) (tn : Int) : Option (List (Int × Nat)) :=
  match (smallSegments t).find? (fun s => s.head? == some tn) with
  | none => none
  | some seg => some (siUpdate si seg (siGetD si (seg.getLast?.getD tn)))

/-- `for tn in nodes[(type == "end") & node_id.isin(to_ignore)]: …` (table order). -/
def fixIgnored (t : Table) (ign : List Int) (si : List (Int × Nat)) : Option (List (Int × Nat)) :=
  ((endNodes t).filter fun e => ign.contains e).foldlM (fixStep t) si

/-- `strahler_index` on the Python path, as a column `node id ↦ index`. -/
def sweep (t : Table) (greedy : Bool) (ign : List Int) (pick : St → Nat) : Option (Int → Nat) :=
  match sweepRaw t greedy ign pick with
  | none => none
  | some si => (fixIgnored t ign si).map siGetD

/-- `to_ignore` extended by `min_twig_size` (end-node seeds of small segments with fewer nodes). -/
def ignoreList (t : Table) (ign : List Int) (minTwig : Nat) : List Int :=
  if minTwig = 0 then ign
  else ign ++ (smallSegments t).filterMap fun s =>
    match s.head? with
    | some h => if (endNodes t).contains h && s.length < minTwig then some h else none
    | none => none

/-! ### choice oracles used by the driver (the theorems hold for every oracle) -/
def pickFirst : St → Nat := fun _ => 0
def pickLast : St → Nat := fun s => s.queue.length - 1
/-- A history-dependent pseudo-random choice. -/
def pickMix (seed : Nat) : St → Nat := fun s => (seed + 7 * s.seen.length + 13 * s.queue.length + s.si.length * s.si.length) * 2654435761 / 65536

end Navis.Sweep
