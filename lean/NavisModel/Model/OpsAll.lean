import NavisModel.Model.Ops
import NavisModel.Model.Prune
import NavisModel.Model.Heal
import NavisModel.Model.Resample
/-!
# The unified operation language for histories (C01)

`Op` (`Model/Ops.lean`) covers subset / reroot / cut / `remove_nodes` / `downsample` / re-classification.
`OpAll` adds one constructor for every other skeleton-returning operation that has a model: the pruning
family (`Model/Prune.lean`), healing / rewiring / fragments / stitching (`Model/Heal.lean`), resampling
(`Model/Resample.lean`) and `insert_nodes`.  `applyAll` only *dispatches* to those model functions.

Conventions (as for `applyOp`): an operation returns its input unchanged where navis raises or returns
early (the underlying model returns `none`, an index is out of range, a guard fails).

Imports `NavisModel.Model.*` only (core Lean), total, computable.
-/
namespace Navis.Forest

inductive OpAll where
  /- the constructors of `Op` -/
  | subset (keep : List Int)
  | reroot (r : Int)
  | cutDistal (c : Int)                        -- `prune_proximal_to` / `cut_skeleton(ret='distal')`
  | cutProximal (c : Int)                      -- `prune_distal_to` / `cut_skeleton(ret='proximal')`
  | removeNodes (which : List Int)
  | downsample (f : Option Nat) (pres : List Int)
  | reclassify
  /- cutting at several nodes, then picking one of the pieces -/
  | cutFragment (cs : List Int) (k : Nat)      -- `cut_skeleton(x, cs)[k]`
  /- pruning (`Model/Prune.lean`) -/
  | pruneTwigs (size rounds : Nat) (mask : Option (List Int))   -- `prune_twigs(size, recursive=rounds, mask)`
  | pruneAtDepth (src : Int) (depth : Nat)
  | longestNeurite (lo hi : Nat) (inverse : Bool)
  | pruneByStrahler (sel : SISel)
  /- healing, rewiring, fragments (`Model/Heal.lean`) -/
  | heal (o : Heal.Opts)                       -- `heal_skeleton(method, max_dist, min_size, mask)`
  | healDrop (o : Heal.Opts)                   -- `heal_skeleton(..., drop_disc=True)`
  | rewire (E : List (Int × Int))              -- `rewire_skeleton` on an undirected edge list
  | keepFragment (minSize k : Nat)             -- `break_fragments(x, min_size)[k]`
  | dropFluff (keep : Option (Nat × Nat)) (nLargest : Option Nat)
  /- stitching with other skeletons: `stitch_skeletons(x, *others, master, method)`;
     `o = none` is `method='NONE'` (`combine_neurons`) -/
  | stitchWith (others : List Table) (master : Heal.Master) (o : Option Heal.Opts)
  /- resampling (`Model/Resample.lean`) -/
  | resample (res : Rat)                                        -- `resample_skeleton(x, resample_to=res)`
  | resampleCounts (cnts : List (List Int × Option Nat))        -- explicit per-segment sample counts
  /- `insert_nodes(x, edges, coords, validate=True)` -/
  | insertNodes (edgesPC : List (Int × Int)) (coords : List (Int × Int × Int))
deriving Repr

/-- Every constructor of `Op` is a constructor of `OpAll`. -/
def OpAll.ofOp : Op → OpAll
  | .subset k => .subset k
  | .reroot r => .reroot r
  | .cutDistal c => .cutDistal c
  | .cutProximal c => .cutProximal c
  | .removeNodes w => .removeNodes w
  | .downsample f p => .downsample f p
  | .reclassify => .reclassify

/-- `insert_nodes(validate=True)`: every requested `(parent, child)` pair is an edge of the skeleton. -/
def insertGuard (t : Table) (edgesPC : List (Int × Int)) : Bool :=
  edgesPC.all fun e => t.any fun n => n.id == e.2 && n.parent == e.1

/-- A count function given as a table `segment ↦ count`; segments not listed collapse to their two
end nodes (`none`). -/
def cntTable (l : List (List Int × Option Nat)) (s : List Int) : Option Nat :=
  match l.find? (fun e => e.1 == s) with
  | some e => e.2
  | none => none

/-- A bare node table as a skeleton without connectors and tags. -/
def asSkel (t : Table) : Heal.Skel := { nodes := t }

/-- The node table `stitch_skeletons(x, *others)` returns.  One skeleton only: returned as is (navis
warns and returns its copy).  Otherwise: id-clash remap and concatenation (`Heal.combine`), optionally
followed by healing (`Heal.stitch`); the `_clear_temp_attr()` navis calls on the merged neuron
re-classifies the nodes. -/
def stitchTables (t : Table) (others : List Table) (master : Heal.Master) (o : Option Heal.Opts) : Table :=
  if others.isEmpty then t else
  let l := (t :: others).map asSkel
  match o with
  | none => classify (Heal.combine (Heal.masterIx master l) l).nodes
  | some o => classify (Heal.stitch (Heal.masterIx master l) l o).nodes

/-- Apply one operation; `len` is the edge-length function used by the length-dependent operations
(`prune_twigs`, `prune_at_depth`, `longest_neurite`, `resample_skeleton`). -/
def applyAll (len : Int → Int → Nat) (t : Table) : OpAll → Table
  | .subset k => subsetIds t k
  | .reroot r => reroot t r
  | .cutDistal c => match cut t c with | some (d, _) => d | none => t
  | .cutProximal c => match cut t c with | some (_, p) => p | none => t
  | .removeNodes w => removeNodes t w
  | .downsample f p => downsample t f p
  | .reclassify => classify t
  | .cutFragment cs k => (cutMany t cs)[k]?.getD t
  | .pruneTwigs size rounds mask => pruneTwigs t len size mask rounds
  | .pruneAtDepth src depth => pruneAtDepth t len src depth
  | .longestNeurite lo hi inv => longestNeurite t len lo hi inv
  | .pruneByStrahler sel => (pruneByStrahler t sel).getD t
  | .heal o => Heal.heal t o
  | .healDrop o => Heal.healDrop t o
  | .rewire E => Heal.rewire t E
  | .keepFragment minSize k => (Heal.breakFragments t minSize)[k]?.getD t
  | .dropFluff keep nLargest => Heal.dropFluff t keep nLargest
  | .stitchWith others master o => stitchTables t others master o
  | .resample res => Resample.resampleStruct t (Resample.cntOf len res)
  | .resampleCounts cnts => Resample.resampleStruct t (cntTable cnts)
  | .insertNodes edgesPC coords => if insertGuard t edgesPC then insertNodes t edgesPC coords else t

/-- The same with an edge-length function that is recomputed from the current table at every step
(e.g. `coordLen`). -/
def applyAllG (lenOf : Table → Int → Int → Nat) (t : Table) (op : OpAll) : Table := applyAll (lenOf t) t op

/-- The foreign skeletons an operation takes as additional inputs. -/
def OpAll.operands : OpAll → List Table
  | .stitchWith others _ _ => others
  | _ => []

/-- Executable form of the side condition of the history theorem: every foreign input skeleton is
itself well-formed. -/
def OpAll.okB (op : OpAll) : Bool := op.operands.all wfB

/-- `applyAll` with the side condition checked at run time: an operation whose foreign inputs are not
all well-formed is refused (the input is returned unchanged). -/
def applyAllChecked (len : Int → Int → Nat) (t : Table) (op : OpAll) : Table :=
  if op.okB then applyAll len t op else t

end Navis.Forest
