/-
Model of the `errors` policy of navis' readers (`navis/io/base.py`): the `handle_errors` decorator
around `read_buffer`, the per-file loop of `parallel_read` / `read_from_zip` and `format_output` (C14).

A single read is abstracted as `read : φ → Option α` (`none` = the parser raised). Nothing is assumed
about `read`, so the theorems hold for every file format and every notion of "corrupt".
-/
namespace Navis.Policy

inductive Errors where
  | raise | log | ignore
deriving Repr, DecidableEq

/-- What `handle_errors` does with an exception of the wrapped function. -/
inductive Action where
  | reraise      -- `raise ReadError(...) from e`
  | returnNone   -- (log and) `return None`
deriving Repr, DecidableEq

/-- The decision table of `handle_errors`. -/
def onError : Errors → Action
  | .raise => .reraise
  | .log => .returnNone
  | .ignore => .returnNone

def Errors.ofString? : String → Option Errors
  | "raise" => some .raise
  | "log" => some .log
  | "ignore" => some .ignore
  | _ => none

def Action.toString : Action → String
  | .reraise => "raise"
  | .returnNone => "none"

/-- The same table as `(policy literal, action)` pairs, the form the translator regenerates from the
source of `handle_errors`. -/
def table : List (String × String) :=
  [("raise", "raise"), ("log", "none"), ("ignore", "none")]

/-- One decorated call. Outer `none`: an exception leaves the call; `some none`: it returned `None`. -/
def wrapped {α} (e : Errors) (r : Option α) : Option (Option α) :=
  match r with
  | some a => some (some a)
  | none =>
    match onError e with
    | .reraise => none
    | .returnNone => some none

/-- `[read_fn(obj) for obj in objs]` (also `pool.imap`, which is ordered): the first exception aborts. -/
def readAll {φ α} (e : Errors) (read : φ → Option α) : List φ → Option (List (Option α))
  | [] => some []
  | f :: fs =>
    match wrapped e (read f) with
    | none => none
    | some r =>
      match readAll e read fs with
      | none => none
      | some rs => some (r :: rs)

/-- `BaseReader.format_output`: `NeuronList([n for n in x if n])`. -/
def formatOutput {α} (xs : List (Option α)) : List α := xs.filterMap id

/-- A batch read (folder, list of files): `none` = the call raised. -/
def readBatch {φ α} (e : Errors) (read : φ → Option α) (fs : List φ) : Option (List α) :=
  (readAll e read fs).map formatOutput

/-- `read_from_zip` wraps every member in a second `try`: an exception that still escapes the decorated
reader is swallowed only for `errors == "ignore"`, otherwise re-raised. -/
def zipMember {α} (e : Errors) (r : Option (Option α)) : Option (List (Option α)) :=
  match r with
  | some x => some [x]
  | none => if e = .ignore then some [] else none

def readZipAll {φ α} (e : Errors) (read : φ → Option α) : List φ → Option (List (Option α))
  | [] => some []
  | f :: fs =>
    match zipMember e (wrapped e (read f)) with
    | none => none
    | some r =>
      match readZipAll e read fs with
      | none => none
      | some rs => some (r ++ rs)

def readZip {φ α} (e : Errors) (read : φ → Option α) (fs : List φ) : Option (List α) :=
  (readZipAll e read fs).map formatOutput

/-- Parallel reading: the files are cut into consecutive chunks that are mapped by workers and
concatenated in submission order (`imap`). -/
def readChunks {φ α} (e : Errors) (read : φ → Option α) : List (List φ) → Option (List (Option α))
  | [] => some []
  | c :: cs =>
    match readAll e read c with
    | none => none
    | some r =>
      match readChunks e read cs with
      | none => none
      | some rs => some (r ++ rs)

end Navis.Policy
