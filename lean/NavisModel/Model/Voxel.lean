/-!
# Model of navis' conversions between representations (C19)

Import-free, total, computable.  Everything is exact (`Rat` coordinates, `Int` voxel indices).

* `roundHalfEven` — numpy's `round`/`rint` (nearest integer, ties to the even one).
* voxelisation exactly as `conversion.converters._make_voxels` / `neuron2voxels` compute it:
  `ix = round(p / pitch)`; `idx = ix − round(lo / pitch)`; `shape = ceil(hi/pitch) − floor(lo/pitch) + 1`;
  voxels with an index outside `[0, shape)` are dropped (together with their counts, and skipped by the
  `vectors`/`alphas` loop); `counts=True` stores the number of points per voxel;
  `units = pitch · u`, `offset = lo / pitch · pitch · u` (`u` = the neuron's `units_xyz.magnitude`).
  A `VoxelNeuron` places voxel `i` at coordinate `offset + i · units` (`VoxelNeuron.bbox`, `.strip`).
* `tangents` — `graph.converters.neuron2tangents`: one entry per non-root row whose parent is not at the same
  position, point = `child + (parent − child)/2`, vector = `child − parent` (un-normalised), squared length.
* `kClip` — `k = min(n_points, k)` of `make_dotprops`;  `alpha` — `(s₁ − s₂) / (s₁ + s₂ + s₃)`, `0` when the sum is `0`.
-/
namespace Navis.Voxel

structure V3 (α : Type) where
  x : α
  y : α
  z : α
deriving DecidableEq, Repr

abbrev P3 := V3 Rat
abbrev I3 := V3 Int

/-! ## rounding -/

/-- numpy `round` (C `rint` in the default rounding mode): nearest integer, exact ties go to the even
neighbour. -/
def roundHalfEven (q : Rat) : Int :=
  if q - (q.floor : Rat) < 1 / 2 then q.floor
  else if 1 / 2 < q - (q.floor : Rat) then q.floor + 1
  else if q.floor % 2 = 0 then q.floor else q.floor + 1

/-! ## one axis -/

/-- `_make_voxels`: `(pts / pitch).round()`. -/
def ix1 (pitch p : Rat) : Int := roundHalfEven (p / pitch)

/-- `neuron2voxels`: `ix − (bounds[:, 0] / pitch).round()`. -/
def idx1 (pitch lo p : Rat) : Int := ix1 pitch p - ix1 pitch lo

/-- `np.ceil(np.ceil(hi / pitch) − np.floor(lo / pitch)).astype(int) + 1`. -/
def shape1 (pitch lo hi : Rat) : Int := ((hi / pitch).ceil - (lo / pitch).floor) + 1

/-- `units` of the resulting `VoxelNeuron` along one axis. -/
def units1 (pitch u : Rat) : Rat := pitch * u

/-- `offset` of the resulting `VoxelNeuron` along one axis: `(lo / pitch) * pitch * u` (the lower bound is *not*
rounded to the grid). -/
def offset1 (pitch lo u : Rat) : Rat := lo / pitch * pitch * u

/-- Coordinate (in the `VoxelNeuron`'s space) of voxel `i`: `offset + i · units`. -/
def coord1 (pitch lo u : Rat) (i : Int) : Rat := offset1 pitch lo u + (i : Rat) * units1 pitch u

/-! ## three axes -/

/-- Pitch per axis, bounds `lo`/`hi` per axis (default: the neuron's bounding box) and the unit magnitudes
`u` of the input neuron. -/
structure Grid where
  pitch : P3
  lo : P3
  hi : P3
  u : P3

def voxIx (g : Grid) (p : P3) : I3 := ⟨ix1 g.pitch.x p.x, ix1 g.pitch.y p.y, ix1 g.pitch.z p.z⟩

def voxIdx (g : Grid) (p : P3) : I3 :=
  ⟨idx1 g.pitch.x g.lo.x p.x, idx1 g.pitch.y g.lo.y p.y, idx1 g.pitch.z g.lo.z p.z⟩

def shape (g : Grid) : I3 :=
  ⟨shape1 g.pitch.x g.lo.x g.hi.x, shape1 g.pitch.y g.lo.y g.hi.y, shape1 g.pitch.z g.lo.z g.hi.z⟩

def gridUnits (g : Grid) : P3 := ⟨units1 g.pitch.x g.u.x, units1 g.pitch.y g.u.y, units1 g.pitch.z g.u.z⟩

def gridOffset (g : Grid) : P3 :=
  ⟨offset1 g.pitch.x g.lo.x g.u.x, offset1 g.pitch.y g.lo.y g.u.y, offset1 g.pitch.z g.lo.z g.u.z⟩

def coord (g : Grid) (v : I3) : P3 :=
  ⟨coord1 g.pitch.x g.lo.x g.u.x v.x, coord1 g.pitch.y g.lo.y g.u.y v.y, coord1 g.pitch.z g.lo.z g.u.z v.z⟩

/-- `vxl.min(axis=1) >= 0` and `np.all(vxl < shape, axis=1)`. -/
def inGrid (g : Grid) (v : I3) : Bool :=
  decide (0 ≤ v.x) && decide (0 ≤ v.y) && decide (0 ≤ v.z) &&
  decide (v.x < (shape g).x) && decide (v.y < (shape g).y) && decide (v.z < (shape g).z)

/-- A point lies inside the requested bounds (all axes, bounds inclusive). -/
def inBounds (g : Grid) (p : P3) : Bool :=
  decide (g.lo.x ≤ p.x) && decide (p.x ≤ g.hi.x) && decide (g.lo.y ≤ p.y) && decide (p.y ≤ g.hi.y) &&
  decide (g.lo.z ≤ p.z) && decide (p.z ≤ g.hi.z)

/-- Distinct elements (`np.unique(…, axis=0)` up to order). -/
def dedup {α : Type} [DecidableEq α] : List α → List α
  | [] => []
  | a :: l => if a ∈ l then dedup l else a :: dedup l

/-- All voxel indices, one per point (with repetitions). -/
def allIdx (g : Grid) (pts : List P3) : List I3 := pts.map (voxIdx g)

/-- The filled voxels of the grid (`counts=False`: these cells are `True`). -/
def filled (g : Grid) (pts : List P3) : List I3 := (dedup (allIdx g pts)).filter (inGrid g)

/-- `counts=True`: every filled voxel holds the number of points that fell into it (`cnt` from
`np.unique(ix, return_counts=True)` is filtered with the same in-bounds mask as the voxels). -/
def counts (g : Grid) (pts : List P3) : List (I3 × Nat) :=
  (filled g pts).map fun v => (v, (allIdx g pts).count v)

/-- `vectors=True` / `alphas=True`: the voxels that receive a vector / an alpha value — the loop over the voxels of all
points skips those outside the grid, so these are exactly the filled voxels. -/
def vectorCells (g : Grid) (pts : List P3) : List I3 := (dedup (allIdx g pts)).filter (inGrid g)

def gridSum (cs : List (I3 × Nat)) : Nat := (cs.map (·.2)).sum

/-- Number of points whose voxel lies inside the grid. -/
def nInside (g : Grid) (pts : List P3) : Nat := (pts.filter fun p => inGrid g (voxIdx g p)).length

/-! ### executable property checkers (evaluated on the implementation's own output) -/

def absLe (a b : Rat) : Bool := decide (a ≤ b) && decide (-b ≤ a)

/-- Point `p` (neuron units; `u · p` in the grid's space) lies within one voxel size of the coordinate of `v`,
per axis. -/
def nearB (g : Grid) (p : P3) (v : I3) : Bool :=
  absLe (g.u.x * p.x - (coord g v).x) (gridUnits g).x &&
  absLe (g.u.y * p.y - (coord g v).y) (gridUnits g).y &&
  absLe (g.u.z * p.z - (coord g v).z) (gridUnits g).z

/-- Every point inside the bounds is within one voxel size of some voxel of `F`. -/
def coversB (g : Grid) (pts : List P3) (F : List I3) : Bool :=
  pts.all fun p => !inBounds g p || F.any fun v => nearB g p v

/-- Every voxel of `F` has an index inside `[0, shape)`. -/
def insideB (g : Grid) (F : List I3) : Bool := F.all (inGrid g)

/-! ## skeleton → tangents (`neuron2tangents`) -/

structure Row where
  id : Int
  parent : Int
  p : P3

structure Tangent where
  point : P3
  vec : P3
  len2 : Rat
deriving DecidableEq

def sub (a b : P3) : P3 := ⟨a.x - b.x, a.y - b.y, a.z - b.z⟩
def add (a b : P3) : P3 := ⟨a.x + b.x, a.y + b.y, a.z + b.z⟩
def half (a : P3) : P3 := ⟨a.x / 2, a.y / 2, a.z / 2⟩
def dot (a b : P3) : Rat := a.x * b.x + a.y * b.y + a.z * b.z
def cross (a b : P3) : P3 := ⟨a.y * b.z - a.z * b.y, a.z * b.x - a.x * b.z, a.x * b.y - a.y * b.x⟩
def norm2 (a : P3) : Rat := dot a a

/-- `.set_index('node_id').loc[parent_id]` (ids are assumed unique). -/
def lookup (t : List Row) (i : Int) : Option P3 := (t.find? fun r => r.id = i).map (·.p)

/-- One child/parent pair: `vect = child − parent`, `points = child + (parent − child) / 2`,
`length² = Σ vect²`. -/
def edgeTangent (c q : P3) : Tangent := ⟨add c (half (sub q c)), sub c q, norm2 (sub c q)⟩

/-- Child and parent position of every non-root row, in row order (`none` = a parent id is missing: `KeyError`). -/
def edgePairs (t : List Row) : Option (List (P3 × P3)) :=
  (t.filter fun r => 0 ≤ r.parent).mapM fun r => (lookup t r.parent).map fun q => (r.p, q)

/-- `neuron2tangents` before normalisation: zero-length edges are dropped. -/
def tangents (t : List Row) : Option (List Tangent) :=
  (edgePairs t).map fun es => (es.map fun e => edgeTangent e.1 e.2).filter fun tg => tg.len2 ≠ 0

/-! ## point cloud → dotprops (`make_dotprops`) -/

/-- Rows with a non-finite coordinate (NaN or ±inf; `none`) are dropped. -/
def finitePts (l : List (Option P3)) : List P3 := l.filterMap id

/-- `k = min(n_points, k)`. -/
def kClip (n k : Nat) : Nat := min n k

/-- `alpha = (s[0] − s[1]) / sum(s)` where `sum(s) > 0`, else `0` (a neighbourhood whose points all coincide). -/
def alpha (s1 s2 s3 : Rat) : Rat := if 0 < s1 + s2 + s3 then (s1 - s2) / (s1 + s2 + s3) else 0

/-- Inertia ("scatter") matrix of a neighbourhood applied to a vector: `(Σᵢ cᵢ cᵢᵀ) w` with `cᵢ` the centred
points. -/
def centre (pts : List P3) : P3 :=
  let n : Rat := pts.length
  ⟨(pts.map (·.x)).sum / n, (pts.map (·.y)).sum / n, (pts.map (·.z)).sum / n⟩

def scale (t : Rat) (a : P3) : P3 := ⟨t * a.x, t * a.y, t * a.z⟩

def inertiaApply (cs : List P3) (w : P3) : P3 :=
  cs.foldr (fun c acc => add (scale (dot c w) c) acc) ⟨0, 0, 0⟩

end Navis.Voxel
