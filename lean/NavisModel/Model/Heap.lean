/-!
# Heap model for C03 (inputs are never modified unless `inplace=True`; inplace is equivalent)

Import-free, total, computable.  The model is about *object identity and sharing*, nothing else:

* a `Store` has three typed address spaces: **data cells** (the mutable containers a neuron's attributes are
  bound to: the node / connector `DataFrame`, the points / vertices `ndarray`, the networkx graph, the igraph
  graph — contents abstracted to an `Int`), **object cells** (a neuron's `__dict__`: a record of references
  into the data cells plus immutable metadata bound directly in the dict) and **list cells**
  (`NeuronList.neurons`: a Python list of object references);
* `copyObj` is `TreeNeuron.copy()` exactly as navis writes it: `copy.copy` of every attribute (fresh container
  with the same content for tables/arrays; immutable metadata is re-bound), `_lock` dropped, the networkx graph
  handed over as a *view* (`_graph_nx.copy(as_view=True)` — an ALIAS of the same underlying cell), igraph
  deep-copied (fresh cell); a stale neuron gets no graphs at all (`x._clear_temp_attr()`);
* an operation body is a list of `Stmt` executed against a receiver object: in-place mutation of the container
  bound to an attribute (`x.nodes.loc[..] = ..`, `np.multiply(.., out=x.points)`, `g.remove_edge(..)`),
  re-binding an attribute to a new container (`x.nodes = new_nodes`), re-binding metadata (`x.units = ..`),
  the `if nx.is_frozen(g): x._graph_nx = g = nx.DiGraph(g)` thaw of `reroot_skeleton`, and deleting a cached
  graph (`_clear_temp_attr`);
* a public function is `call body s x inplace` = `if not inplace: x = x.copy()` ; body(x) ; `return x`;
* `badCall pre body` is the defective shape "write first, copy afterwards";
* `mapList` is `utils.map_neuronlist`: run the function over the members, build the result list, and for
  `inplace=True` swap `nl.neurons = res.neurons` and return `nl` itself;
* the `NeuronList` operators `+ - & |` as navis writes them (`|` with a single neuron used to append to the
  *receiver's* list object; repaired, the pre-fix version is kept as `listOrPreFix`).

Graph writes are modelled pessimistically as writing through a view (networkx freezes views against structural
edits but attribute dictionaries stay shared and writable); `writesOwn` is the syntactic discipline — every
graph write is preceded by a thaw / re-bind / clear — under which the copy-then-operate pattern is sound.
-/
namespace Navis.Heap

/-- references are plain addresses (a notation, so that arithmetic tactics see `Nat`) -/
scoped notation "Ref" => Nat

/-- The attributes of a neuron that are bound to mutable containers.  `nodes` stands for the primary table /
array (`_nodes`, `_points`, `_vertices`, `_data`), `conns` for `_connectors`, `graph` for `_graph_nx`,
`igraph` for `_igraph`. -/
inductive Attr where
  | nodes | conns | graph | igraph
  deriving DecidableEq, Repr

/-- A neuron object (`__dict__`).  `info` is the immutable metadata bound directly in the dict (units, name, id,
soma, …) abstracted to one `Int`; `view = true` says `_graph_nx` is a view onto a graph owned elsewhere. -/
structure Obj where
  nodes : Option Ref := none
  conns : Option Ref := none
  graph : Option Ref := none
  igraph : Option Ref := none
  info : Int := 0
  view : Bool := false
  lock : Nat := 0
  deriving DecidableEq, Repr

def Obj.get (o : Obj) : Attr → Option Ref
  | .nodes => o.nodes
  | .conns => o.conns
  | .graph => o.graph
  | .igraph => o.igraph

/-- Bind attribute `a` (or delete it with `none`).  Binding the graph attribute to anything new makes it a
real graph, not a view. -/
def Obj.set (o : Obj) (a : Attr) (v : Option Ref) : Obj :=
  match a with
  | .nodes => { o with nodes := v }
  | .conns => { o with conns := v }
  | .graph => { o with graph := v, view := false }
  | .igraph => { o with igraph := v }

structure Store where
  data : List Int := []
  objs : List Obj := []
  lists : List (List Ref) := []
  deriving DecidableEq, Repr

def Store.rd (s : Store) (r : Ref) : Int := (s.data[r]?).getD 0
def Store.obj (s : Store) (o : Ref) : Obj := (s.objs[o]?).getD {}
def Store.lst (s : Store) (l : Ref) : List Ref := (s.lists[l]?).getD []

def Store.wr (s : Store) (r : Ref) (v : Int) : Store := { s with data := s.data.set r v }
def Store.allocD (s : Store) (v : Int) : Store × Ref := ({ s with data := s.data ++ [v] }, s.data.length)
def Store.setObj (s : Store) (o : Ref) (ob : Obj) : Store := { s with objs := s.objs.set o ob }
def Store.allocObj (s : Store) (ob : Obj) : Store × Ref := ({ s with objs := s.objs ++ [ob] }, s.objs.length)
def Store.setLst (s : Store) (l : Ref) (xs : List Ref) : Store := { s with lists := s.lists.set l xs }
def Store.allocLst (s : Store) (xs : List Ref) : Store × Ref :=
  ({ s with lists := s.lists ++ [xs] }, s.lists.length)

/-- Observable (abstract) state of a neuron: the *contents* its attributes are bound to, no addresses. -/
structure Abs where
  nodes : Option Int := none
  conns : Option Int := none
  graph : Option Int := none
  igraph : Option Int := none
  info : Int := 0
  deriving DecidableEq, Repr

def Abs.get (a : Abs) : Attr → Option Int
  | .nodes => a.nodes
  | .conns => a.conns
  | .graph => a.graph
  | .igraph => a.igraph

def Abs.set (a : Abs) (at_ : Attr) (v : Option Int) : Abs :=
  match at_ with
  | .nodes => { a with nodes := v }
  | .conns => { a with conns := v }
  | .graph => { a with graph := v }
  | .igraph => { a with igraph := v }

def Store.absObj (s : Store) (ob : Obj) : Abs :=
  { nodes := ob.nodes.map s.rd, conns := ob.conns.map s.rd, graph := ob.graph.map s.rd,
    igraph := ob.igraph.map s.rd, info := ob.info }

def Store.abs (s : Store) (o : Ref) : Abs := s.absObj (s.obj o)

/-! ## copy -/

/-- `copy.copy(container)`: a new container with the same content (`none` stays `none`). -/
def Store.dup (s : Store) : Option Ref → Store × Option Ref
  | none => (s, none)
  | some r => let p := s.allocD (s.rd r); (p.1, some p.2)

/-- `TreeNeuron.copy()` (and, with `graph = igraph = none`, `BaseNeuron/MeshNeuron/Dotprops/VoxelNeuron.copy()`).
`stale = true` is the `else: x._clear_temp_attr()` branch. -/
def copyObj (s : Store) (x : Ref) (stale : Bool := false) : Store × Ref :=
  let ob := s.obj x
  let p1 := s.dup ob.nodes
  let p2 := p1.1.dup ob.conns
  let p3 := if stale then (p2.1, none) else p2.1.dup ob.igraph
  let ob' : Obj :=
    { nodes := p1.2, conns := p2.2, igraph := p3.2, info := ob.info, lock := 0,
      graph := if stale then none else ob.graph,              -- ALIAS: the view shares the underlying cell
      view := if stale then false else ob.graph.isSome }
  p3.1.allocObj ob'

/-! ## operation bodies -/

inductive Stmt where
  /-- mutate in place the container currently bound to the attribute (no-op if the attribute is unbound) -/
  | wr (a : Attr) (f : Abs → Int)
  /-- bind the attribute to a *new* container -/
  | rebind (a : Attr) (f : Abs → Int)
  /-- re-bind immutable metadata (`x.units = …`, `x.name = …`) -/
  | setMeta (f : Abs → Int)
  /-- `if nx.is_frozen(g): x._graph_nx = g = nx.DiGraph(g)` -/
  | thaw
  /-- delete a cached attribute (`_clear_temp_attr`) -/
  | clear (a : Attr)

def step (s : Store) (o : Ref) : Stmt → Store
  | .wr a f =>
    match (s.obj o).get a with
    | none => s
    | some r => s.wr r (f (s.abs o))
  | .rebind a f =>
    let p := s.allocD (f (s.abs o))
    p.1.setObj o ((s.obj o).set a (some p.2))
  | .setMeta f => s.setObj o { s.obj o with info := f (s.abs o) }
  | .thaw =>
    if (s.obj o).view then
      match (s.obj o).graph with
      | none => s.setObj o ((s.obj o).set .graph none)
      | some r => let p := s.allocD (s.rd r); p.1.setObj o ((s.obj o).set .graph (some p.2))
    else s
  | .clear a => s.setObj o ((s.obj o).set a none)

def exec (s : Store) (o : Ref) (b : List Stmt) : Store := b.foldl (fun t st => step t o st) s

/-- The abstract (address-free) semantics of the same statements. -/
def astep (a : Abs) : Stmt → Abs
  | .wr at_ f => match a.get at_ with
    | none => a
    | some _ => a.set at_ (some (f a))
  | .rebind at_ f => a.set at_ (some (f a))
  | .setMeta f => { a with info := f a }
  | .thaw => a
  | .clear at_ => a.set at_ none

def aexec (a : Abs) (b : List Stmt) : Abs := b.foldl astep a

/-- The public-function pattern: `if not inplace: x = x.copy()` ; body ; `return x`. -/
def call (b : List Stmt) (s : Store) (x : Ref) (inplace : Bool) (stale : Bool := false) : Store × Ref :=
  if inplace then (exec s x b, x)
  else let p := copyObj s x stale; (exec p.1 p.2 b, p.2)

/-- The defective shape: statements `pre` run on the input *before* the copy statement. -/
def badCall (pre b : List Stmt) (s : Store) (x : Ref) (inplace : Bool) (stale : Bool := false) : Store × Ref :=
  call b (exec s x pre) x inplace stale

/-- `@lock_neuron`: `args[0]._lock += 1`; call; `finally: args[0]._lock -= 1` (on the *input* object). -/
def Store.bumpLock (s : Store) (x : Ref) (up : Bool) : Store :=
  s.setObj x { s.obj x with lock := if up then (s.obj x).lock + 1 else (s.obj x).lock - 1 }

def callLocked (b : List Stmt) (s : Store) (x : Ref) (inplace : Bool) : Store × Ref :=
  let p := call b (s.bumpLock x true) x inplace
  (p.1.bumpLock x false, p.2)

/-! ## the syntactic discipline `WritesOwn` -/

/-- an in-place write to the networkx graph: only legal once the graph is the receiver's own -/
def Stmt.needsOwnGraph : Stmt → Bool
  | .wr .graph _ => true
  | _ => false

/-- statements after which `_graph_nx` is certainly not a view of somebody else's graph any more -/
def Stmt.ownsGraph : Stmt → Bool
  | .rebind .graph _ => true
  | .thaw => true
  | .clear .graph => true
  | _ => false

/-- `writesOwn v b`: walking the body with `v` = "the graph attribute may still be a view of a foreign
graph", no in-place graph write happens while `v` holds.  Writes to tables / arrays / igraph / metadata and all
re-bindings are always the receiver's own after a copy. -/
def writesOwn : Bool → List Stmt → Bool
  | _, [] => true
  | v, st :: b => !(v && st.needsOwnGraph) && writesOwn (v && !st.ownsGraph) b

/-- the view flag after a body -/
def viewAfter (v : Bool) (b : List Stmt) : Bool := b.foldl (fun v st => v && !st.ownsGraph) v

/-! ## frames (executable checkers; the theorems in `Props/C03` are about their `Prop` versions) -/

/-- Every cell of the old store `s` is still there, unchanged, in `t`. -/
def extendsB (s t : Store) : Bool :=
  (s.data.length ≤ t.data.length && t.data.take s.data.length == s.data) &&
  (s.objs.length ≤ t.objs.length && t.objs.take s.objs.length == s.objs) &&
  (s.lists.length ≤ t.lists.length && t.lists.take s.lists.length == s.lists)

/-- references held by an object -/
def Obj.refs (o : Obj) : List Ref :=
  o.nodes.toList ++ o.conns.toList ++ o.graph.toList ++ o.igraph.toList

/-- The input object `x` and every cell reachable from it are unchanged between `s` and `t`. -/
def frameB (s t : Store) (x : Ref) : Bool :=
  t.objs[x]? == s.objs[x]? && (s.obj x).refs.all fun r => t.data[r]? == s.data[r]?

/-! ## NeuronList -/

/-- `NeuronProcessor`: `[f(n, inplace=inplace) for n in nl]`, threading the store. -/
def mapCalls (b : List Stmt) (s : Store) : List Ref → Bool → Store × List Ref
  | [], _ => (s, [])
  | x :: xs, ip =>
    let p := call b s x ip
    let q := mapCalls b p.1 xs ip
    (q.1, p.2 :: q.2)

/-- `utils.map_neuronlist` wrapper:
`res = proc(nl, …)` (a new `NeuronList`); `if inplace: nl.neurons = res.neurons` ; `else: nl = res` ; `return nl`. -/
def mapList (b : List Stmt) (s : Store) (l : Ref) (inplace : Bool) : Store × Ref :=
  let p := mapCalls b s (s.lst l) inplace
  let q := p.1.allocLst p.2
  if inplace then (q.1.setLst l (q.1.lst q.2), l) else q

/-- The same wrapper with the swap dropped (the mutation `nl.neurons = res.neurons` deleted, returning `res`). -/
def mapListNoSwap (b : List Stmt) (s : Store) (l : Ref) (inplace : Bool) : Store × Ref :=
  let p := mapCalls b s (s.lst l) inplace
  p.1.allocLst p.2

/-! ### `map_neuronlist(..., parallel=True)`: jobs in a worker pool, and the decorator's forced `inplace=True`

`NeuronProcessor.__call__` runs one job per member.  With a worker pool every job acts on a PICKLED copy of its neuron
(`TreeNeuron.__getstate__` drops both graphs: the stale branch of `copyObj`) and its result is what comes back; the serial loop
calls the function on the member itself.  `map_neuronlist` relies on this: "If we use parallel processing it makes sense to modify
neurons inplace since they will be copied into the child processes anyway" — `if parallel and "inplace" in sig.parameters:
kwargs["inplace"] = True`.  `forced` is that statement, `pooled` says whether a job that was asked to run in parallel really runs
in the pool. -/

/-- one job: in a worker (on a pickled copy) or in the calling process (on the member itself) -/
def runJob (b : List Stmt) (s : Store) (x : Ref) (ip pooled : Bool) : Store × Ref :=
  if pooled then
    let p := copyObj s x true            -- the worker's unpickled argument
    call b p.1 p.2 ip
  else call b s x ip

def parCalls (b : List Stmt) (s : Store) : List Ref → Bool → Bool → Store × List Ref
  | [], _, _ => (s, [])
  | x :: xs, ip, pooled =>
    let p := runJob b s x ip pooled
    let q := parCalls b p.1 xs ip pooled
    (q.1, p.2 :: q.2)

/-- the `map_neuronlist` wrapper with its `parallel` handling: the jobs get `inplace=True` when `parallel` and `forced`;
`res = proc(nl, …)`; `if inplace: nl.neurons = res.neurons else: nl = res`, with the CALLER's `inplace`. -/
def mapListPar (b : List Stmt) (s : Store) (l : Ref) (inplace parallel forced pooled : Bool) : Store × Ref :=
  let ipJob := if parallel && forced then true else inplace
  let p := parCalls b s (s.lst l) ipJob (parallel && pooled)
  let q := p.1.allocLst p.2
  if inplace then (q.1.setLst l (q.1.lst q.2), l) else q

/-- `NeuronList.__add__(neuron)`: `self.__class__(self.neurons + [other])` — a new list object. -/
def listAdd (s : Store) (l : Ref) (o : Ref) : Store × Ref := s.allocLst (s.lst l ++ [o])

/-- `NeuronList.__sub__` / `__and__` with a membership predicate decided by the caller (`==` on neurons). -/
def listFilter (s : Store) (l : Ref) (keep : Ref → Bool) : Store × Ref := s.allocLst ((s.lst l).filter keep)

/-- `NeuronList.__or__(neuron)` as navis writes it (since the fix a77a44b):
`neurons = list(self.neurons)` (a NEW list) ; `if not any(n == other …): neurons.append(other)` ;
`return self.__class__(neurons)`.  `present` is the outcome of the `any(n == other)` test. -/
def listOr (s : Store) (l : Ref) (o : Ref) (present : Bool) : Store × Ref :=
  s.allocLst (if present then s.lst l else s.lst l ++ [o])

/-- HISTORICAL: `__or__(neuron)` as navis wrote it before the fix — `neurons = self.neurons` (the receiver's own list
object) ; `neurons.append(other)`.  Kept only for the historical witness in `Props/C03`. -/
def listOrPreFix (s : Store) (l : Ref) (o : Ref) (present : Bool) : Store × Ref :=
  let s1 := if present then s else s.setLst l (s.lst l ++ [o])      -- append to the RECEIVER's list
  s1.allocLst (s1.lst l)

/-- `NeuronList.__or__(NeuronList)`: `self.neurons + [n for n in other if n not in self]` — a new list. -/
def listOrList (s : Store) (l : Ref) (extra : List Ref) : Store × Ref := s.allocLst (s.lst l ++ extra)

/-! ## abstract event traces extracted from the navis source (translator → `Gen/InplaceSpec.lean`)

For every function with an `inplace` (or, for the arithmetic dunders, `copy`) parameter the translator walks the
body path-sensitively and emits, for the worst path on which `inplace` is not known to be true, the events that
matter for the pattern.  `okTrace` is the checked premise (`WritesOwn` at the level of the source text): nothing
is written to the input before the copy guard, the input is never written through a retained alias afterwards,
and the parameter is honoured at all. -/

inductive Ev where
  /-- `if not inplace: x = x.copy()` (any of its syntactic variants); `x` now names the copy -/
  | guard
  /-- a statement that writes to what `x` currently names -/
  | write
  /-- a statement that writes to the *original* input through an alias kept across the guard -/
  | writeIn
  /-- the input is handed to another function of the table together with `inplace=inplace` -/
  | delegate
  /-- the body branches on `inplace` explicitly -/
  | branch
  /-- `return <name>` where the name still holds the INPUT object, on a path where `inplace` may be false (an early
  "nothing to do" return placed before the copy guard): the caller gets the input back instead of a fresh object -/
  | retIn
  /-- a nested call `f(x, …, inplace=inplace)` whose result is discarded: without `inplace` the callee works on a
  second, throw-away copy and its effect is lost; with `inplace` it is applied to `x` -/
  | lostDelegate
  deriving DecidableEq, Repr

/-- no `write` before the first `guard` -/
def noWriteBeforeGuard : List Ev → Bool
  | [] => true
  | .guard :: _ => true
  | .write :: _ => false
  | _ :: t => noWriteBeforeGuard t

/-- A trace is fine when nothing is written before the guard, the original is never written afterwards, the
input object is never handed back where a fresh one is due, no delegated effect is thrown away, and the `inplace`
parameter is honoured by a guard, a delegation or an explicit branch. -/
def okTrace (t : List Ev) : Bool :=
  noWriteBeforeGuard t && !t.contains .writeIn && !t.contains .retIn && !t.contains .lostDelegate &&
    (t.contains .guard || t.contains .delegate || t.contains .branch)

/-- a write that always changes the node table's content -/
def bump : Abs → Int := fun a => a.nodes.getD 0 + 1

/-- One event of a trace, run in the heap model.  State = (store, object `x` currently names); `x0` is the
input.  A delegation is a no-op here: the callee has its own row in the table.  `retIn` re-binds the name to the input
(the value that is returned); `lostDelegate` is the callee's own copy-then-operate `call` run on what `x` names, with
the object it returns dropped. -/
def runEv (f : Abs → Int) (x0 : Ref) (inplace : Bool) (st : Store × Ref) : Ev → Store × Ref
  | .guard => if inplace then st else copyObj st.1 st.2
  | .write => (step st.1 st.2 (.wr .nodes f), st.2)
  | .writeIn => (step st.1 x0 (.wr .nodes f), st.2)
  | .delegate => st
  | .branch => st
  | .retIn => (st.1, x0)
  | .lostDelegate => ((call [.wr .nodes f] st.1 st.2 inplace).1, st.2)

def runTrace (f : Abs → Int) (t : List Ev) (s : Store) (x : Ref) (inplace : Bool) : Store × Ref :=
  t.foldl (runEv f x inplace) (s, x)

end Navis.Heap
