import NavisModel.Model.Volume
/-!
# The shape of `navis.in_volume`'s neuron branch, as far as the translator recognises it (property C18)

`Shape` holds facts about the *order and forwarding* of the few statements that decide which rows are kept:
each field is `some true` (recognised, as the model assumes), `some false` (recognised, and different) or `none` (the
translator did not recognise the pattern — nothing is claimed, so that a refactoring does not break the tie).

The `…As` functions are the model of `in_volume` **parameterised by the extracted shape**: for a shape without a
`some false` they are the model of `Model/Volume.lean` (`Props/C18.source_shape_is_model`), for a deviating shape they
follow the deviation (what the code would then do), so that the driver keeps predicting navis while the property oracle
fails.

Imports only the import-free `Model/Volume.lean`.
-/
namespace Navis.Volume

structure Shape where
  /-- `if mode == 'OUT': in_v = ~in_v` stands before (and outside) `if not all(in_v): subset…` -/
  invertBeforeShortcut : Option Bool
  /-- the inversion is triggered by the literal `'OUT'` -/
  invertOnOUT : Option Bool
  /-- the mask is computed by the recursive call with `mode='IN'` -/
  innerModeIN : Option Bool
  /-- the loop over a dict / list of volumes forwards `mode=mode` -/
  dictForwardsMode : Option Bool
  /-- the loop over a `NeuronList` forwards `mode=mode` -/
  listForwardsMode : Option Bool
  /-- `TreeNeuron.prune_by_volume` forwards `mode=mode` -/
  pruneForwardsMode : Option Bool
  /-- skeletons are subset by `x.nodes[in_v].node_id.values` (ids, not row positions) -/
  treeSubsetById : Option Bool
  /-- the default of the `mode` parameter is `'IN'` -/
  defaultModeIN : Option Bool
deriving DecidableEq, Repr, Inhabited

def notFalse (o : Option Bool) : Bool := o != some false

def Shape.ok (s : Shape) : Bool :=
  notFalse s.invertBeforeShortcut && notFalse s.invertOnOUT && notFalse s.innerModeIN && notFalse s.dictForwardsMode
    && notFalse s.listForwardsMode && notFalse s.pruneForwardsMode && notFalse s.treeSubsetById && notFalse s.defaultModeIN

/-- the shape the hand-written model assumes -/
def Shape.model : Shape := ⟨some true, some true, some true, some true, some true, some true, some true, some true⟩

def flipMode : Mode → Mode
  | .IN => .OUT
  | .OUT => .IN

/-- the mode that triggers the inversion, seen from the caller: with `invertOnOUT = some false` the literal is `'IN'` -/
def Shape.effMode (s : Shape) (mode : Mode) : Mode := if s.invertOnOUT == some false then flipMode mode else mode

/-- `subset_neuron(x, subset=…)` for a skeleton: by id, or (deviation) by row position used as if it were an id -/
def Shape.treeSubset (s : Shape) (t : Tree) (m : List Bool) : Tree :=
  if s.treeSubsetById == some false then subsetTree t ((maskedIdx m).map Int.ofNat) else subsetTree t (masked t.ids m)

/-- `in_volume(TreeNeuron, vol, mode)` following the extracted shape -/
def inVolumeTreeAs (s : Shape) (μ : Inside) (mode : Mode) (t : Tree) : Tree :=
  let inV := if s.innerModeIN == some false then keepMask mode (inVolumePoints μ (t.nodes.map (·.pos)))
             else inVolumePoints μ (t.nodes.map (·.pos))
  if s.invertBeforeShortcut == some false then
    -- the short-circuit looks at the un-inverted mask; the inversion happens inside
    if inV.all id then t else s.treeSubset t (keepMask (s.effMode mode) inV)
  else
    if (keepMask (s.effMode mode) inV).all id then t else s.treeSubset t (keepMask (s.effMode mode) inV)

def pruneByVolumeAs (s : Shape) (μ : Inside) (mode : Mode) (t : Tree) : Tree :=
  inVolumeTreeAs s μ (if s.pruneForwardsMode == some false then .IN else mode) t

def inVolumeListAs (s : Shape) (μ : Inside) (mode : Mode) (ts : List Tree) : List Tree :=
  ts.map (inVolumeTreeAs s μ (if s.listForwardsMode == some false then .IN else mode))

/-- the mode the per-volume call of the dict loop receives -/
def Shape.dictMode (s : Shape) (mode : Mode) : Mode := if s.dictForwardsMode == some false then .IN else mode

end Navis.Volume
