/-
Which files a batch read looks at, and in which order (C14): `BaseReader.is_valid_file`,
`PrecomputedReader.is_valid_file`, `read_directory`, `parallel_read_archive` (zip), `read_tar` and the `limit`
parameter, written the way `navis/io/base.py` does it (`…AW` = *as written*) next to what the docstrings promise
(`selectSpec`). A listing is the list of entry names in the order the container yields them (`Path.glob`,
`ZipFile.filelist`, iteration over the tar file); the model never sorts – neither does navis.

Import-free. Regular expressions are outside the model: a `str` limit is a plain substring.
-/
namespace Navis.IoBatch

def startsWith (s p : String) : Bool := p.toList.isPrefixOf s.toList
def endsWith (s p : String) : Bool := p.toList.reverse.isPrefixOf s.toList.reverse

def infixOfChars (p : List Char) : List Char → Bool
  | [] => p.isEmpty
  | c :: cs => p.isPrefixOf (c :: cs) || infixOfChars p cs

/-- `p in s` for strings -/
def isInfix (p s : String) : Bool := infixOfChars p.toList s.toList

/-- `BaseReader.is_valid_file` (`ignore_hidden=True`): not hidden and one of the extensions matches. -/
def validBase (hidden : List String) (exts : List String) (name : String) : Bool :=
  !(hidden.any (startsWith name)) && exts.any (endsWith name)

/-- `PrecomputedReader.is_valid_file`: no name with a `.`, not the `info` file, no `…:0` manifest. The three
literal lists are generated from the source. -/
def validPrecomputed (rejContains rejEquals rejEnds : List String) (name : String) : Bool :=
  !(rejContains.any (isInfix · name)) && !(rejEquals.contains name) && !(rejEnds.any (endsWith name))

inductive Limit where
  | none
  | int (n : Nat)
  | slice (a b : Nat)            -- `slice(a, b)`, `a ≤ b`
  | names (l : List String)
  | substr (s : String)
deriving Repr, DecidableEq

/-- What the docstrings promise: the valid files, restricted as `limit` says, in listing order. -/
def selectSpec (valid : String → Bool) (limit : Limit) (listing : List String) : List String :=
  let files := listing.filter valid
  match limit with
  | .none => files
  | .int n => files.take n
  | .slice a b => (files.take b).drop a
  | .names l => files.filter (l.contains ·)
  | .substr s => files.filter (isInfix s)

/-- `read_directory` as written: `files[:limit]`, `files[limit]`, substring test – and for a list of file names
`[f for f in files if f in limit]` compares `Path` objects with strings, which never matches. -/
def selectDirAW (valid : String → Bool) (limit : Limit) (listing : List String) : List String :=
  let files := listing.filter valid
  match limit with
  | .none => files
  | .int n => files.take n
  | .slice a b => (files.take b).drop a
  | .names _ => []
  | .substr s => files.filter (isInfix s)

/-- The scan loop of `parallel_read_archive` / `read_tar`: hidden entries are skipped with `continue` (no limit
test), valid entries are appended, and `if isinstance(limit, int) and i >= limit: break` comes *after* the append,
with `i` counting every entry of the archive. -/
def scanAW (hidden valid : String → Bool) (limit : Option Nat) : Nat → List String → List String
  | _, [] => []
  | i, f :: fs =>
    if hidden f then scanAW hidden valid limit (i + 1) fs
    else
      let here := if valid f then [f] else []
      match limit with
      | some n => if i ≥ n then here else here ++ scanAW hidden valid limit (i + 1) fs
      | none => here ++ scanAW hidden valid limit (i + 1) fs

def intOf : Limit → Option Nat
  | .int n => some n
  | _ => none

/-- `parallel_read_archive` (zip) as written; a list of names is compared with `ZipInfo` objects (never equal). -/
def selectZipAW (hidden valid : String → Bool) (limit : Limit) (listing : List String) : List String :=
  let files := scanAW hidden valid (intOf limit) 0 listing
  match limit with
  | .none => files
  | .int _ => files
  | .slice a b => (files.take b).drop a
  | .names _ => []
  | .substr s => files.filter (isInfix s)

/-- `read_tar` as written: same scan; a list of names works here (paths are strings); the members are then read in
archive order. -/
def selectTarAW (hidden valid : String → Bool) (limit : Limit) (listing : List String) : List String :=
  let files := scanAW hidden valid (intOf limit) 0 listing
  match limit with
  | .none => files
  | .int _ => files
  | .slice a b => (files.take b).drop a
  | .names l => files.filter (l.contains ·)
  | .substr s => files.filter (isInfix s)

end Navis.IoBatch
