/-
Which files a batch read looks at, and in which order (C14): `BaseReader.is_valid_file`,
`PrecomputedReader.is_valid_file`, `read_directory`, `parallel_read_archive` (zip), `read_tar` and the `limit`
parameter, written the way `navis/io/base.py` does it (`…AW` = *as written*, i.e. the code after the repairs of the
integer / list-of-names `limit`) next to what the docstrings promise (`selectSpec`). A listing is the list of entry names in the order the container yields them (`Path.glob`,
`ZipFile.filelist`, iteration over the tar file); the model never sorts – neither does navis.

Import-free. Regular expressions are outside the model: a `str` limit is a plain substring.
-/
namespace Navis.IoBatch

def startsWith (s p : String) : Bool := p.toList.isPrefixOf s.toList
def endsWith (s p : String) : Bool := p.toList.reverse.isPrefixOf s.toList.reverse

def infixOfChars (p : List Char) : List Char → Bool
  | [] => p.isEmpty
  | c :: cs => p.isPrefixOf (c :: cs) || infixOfChars p cs

/-- `p in s` for strings -/
def isInfix (p s : String) : Bool := infixOfChars p.toList s.toList

/-- `BaseReader.is_valid_file` (`ignore_hidden=True`): not hidden and one of the extensions matches. -/
def validBase (hidden : List String) (exts : List String) (name : String) : Bool :=
  !(hidden.any (startsWith name)) && exts.any (endsWith name)

/-- `PrecomputedReader.is_valid_file`: no name with a `.`, not the `info` file, no `…:0` manifest. The three
literal lists are generated from the source. -/
def validPrecomputed (rejContains rejEquals rejEnds : List String) (name : String) : Bool :=
  !(rejContains.any (isInfix · name)) && !(rejEquals.contains name) && !(rejEnds.any (endsWith name))

inductive Limit where
  | none
  | int (n : Nat)
  | slice (a b : Nat)            -- `slice(a, b)`, `a ≤ b`
  | names (l : List String)
  | substr (s : String)
deriving Repr, DecidableEq

/-- What the docstrings promise: the valid files, restricted as `limit` says, in listing order. -/
def selectSpec (valid : String → Bool) (limit : Limit) (listing : List String) : List String :=
  let files := listing.filter valid
  match limit with
  | .none => files
  | .int n => files.take n
  | .slice a b => (files.take b).drop a
  | .names l => files.filter (l.contains ·)
  | .substr s => files.filter (isInfix s)

/-- `read_directory` as written: `files[:limit]`, `files[limit]`, substring test, and for a list of file names
`[f for f in files if f.name in limit or f in limit]` (a listing entry is the file's name; since the repair the `Path`
object is no longer compared with the strings). -/
def selectDirAW (valid : String → Bool) (limit : Limit) (listing : List String) : List String :=
  let files := listing.filter valid
  match limit with
  | .none => files
  | .int n => files.take n
  | .slice a b => (files.take b).drop a
  | .names l => files.filter (l.contains ·)
  | .substr s => files.filter (isInfix s)

/-- `isinstance(limit, int) and len(to_read) >= limit` with `c = len(to_read)`. -/
def full (limit : Option Nat) (c : Nat) : Bool :=
  match limit with
  | some n => decide (c ≥ n)
  | none => false

/-- The scan loop of `parallel_read_archive` / `read_tar` as written (since the repair of the integer `limit`): the
loop stops *before* looking at an entry once `limit` entries have been collected (`c` = `len(to_read)`), hidden
entries are skipped with `continue`, valid entries are appended. Entries that are not collected do not count. -/
def scanAW (hidden valid : String → Bool) (limit : Option Nat) : Nat → List String → List String
  | _, [] => []
  | c, f :: fs =>
    if full limit c then []
    else if hidden f then scanAW hidden valid limit c fs
    else if valid f then f :: scanAW hidden valid limit (c + 1) fs
    else scanAW hidden valid limit c fs

def intOf : Limit → Option Nat
  | .int n => some n
  | _ => none

/-- `parallel_read_archive` (zip) as written; a list of names is compared with `ZipInfo.filename`. -/
def selectZipAW (hidden valid : String → Bool) (limit : Limit) (listing : List String) : List String :=
  let files := scanAW hidden valid (intOf limit) 0 listing
  match limit with
  | .none => files
  | .int _ => files
  | .slice a b => (files.take b).drop a
  | .names l => files.filter (l.contains ·)
  | .substr s => files.filter (isInfix s)

/-- `read_tar` as written: same scan; the collected paths are strings and compared with the list directly; the
members are then read in archive order. -/
def selectTarAW (hidden valid : String → Bool) (limit : Limit) (listing : List String) : List String :=
  let files := scanAW hidden valid (intOf limit) 0 listing
  match limit with
  | .none => files
  | .int _ => files
  | .slice a b => (files.take b).drop a
  | .names l => files.filter (l.contains ·)
  | .substr s => files.filter (isInfix s)

/- The source facts this model rests on (compared with the translator's extraction in `Props/C14.lean`):
where the integer-`limit` test of each archive scan sits and what it tests, what the scans collect, and the membership
test each container applies to a list of file names. -/
namespace Src
def archiveIntLimit : List (String × String × String) :=
  [("parallel_read_archive", "isinstance(limit, int) and len(to_read) >= limit", "first"),
   ("read_tar", "isinstance(limit, int) and len(to_read) >= limit", "first")]
def dirIntLimit : String := "files[:limit]"
def archiveCollects : List (String × String) := [("parallel_read_archive", "file"), ("read_tar", "fpath")]
def namesLimitTest : List (String × String) :=
  [("read_directory", "f.name in limit or f in limit"),
   ("parallel_read_archive", "f.filename in limit or f in limit"),
   ("read_tar", "f in limit")]
/-- `PrecomputedReader.is_valid_file`: every container's entry object is unwrapped to its name before the tests. -/
def preValidUnwraps : List (String × String) :=
  [("zipfile.ZipInfo", "file.filename"), ("tarfile.TarInfo", "file.name"), ("Path", "file.name")]
end Src

end Navis.IoBatch
