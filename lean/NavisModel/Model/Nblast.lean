/-
Model of NBLAST scoring (C06): `navis.nbl.smat.Digitizer` / `Lookup2d`, `Dotprops.dist_dots`,
`NBlaster.calc_self_hit` / `single_query_target`, `Blaster.multi_query_target` / `all_by_all`,
`nblast` / `nblast_allbyall` (single job; job partitioning is C09).

Numbers are exact rationals.  Two quantities of the algorithm are square roots — the Euclidean
distance `sqrt(d²)` and, with `use_alpha`, the scaled dot product `dot·sqrt(α_q·α_t) = sqrt(dot²·α_q·α_t)`.
They are only ever *compared with table boundaries*, so the model keeps the radicand and compares
squares (`Val.sqrt s`); no rounding, no irrational number is ever materialised.
Import-free.
-/
namespace Navis.Nblast

/-! ## Extended rationals (`±inf` are legal boundaries and legal float inputs) -/

inductive X where
  | ninf
  | fin (q : Rat)
  | pinf
deriving DecidableEq, Repr, Inhabited

/-- `a < b` on floats without NaN. -/
def X.lt : X → X → Bool
  | .ninf, .ninf => false
  | .ninf, _ => true
  | .fin _, .ninf => false
  | .fin a, .fin b => decide (a < b)
  | .fin _, .pinf => true
  | .pinf, _ => false

/-- `a ≤ b`. -/
def X.le (a b : X) : Bool := !(X.lt b a)

def X.isFin : X → Bool
  | .fin _ => true
  | _ => false

/-- A value looked up on a table axis: an (extended) rational, or the non-negative square root of a
rational radicand. -/
inductive Val where
  | x (v : X)
  | sqrt (s : Rat)
deriving Repr, Inhabited

def Val.finite : Val → Bool
  | .x v => v.isFin
  | .sqrt _ => true

/-- `b < v`. For `v = sqrt s` (`s ≥ 0`): `q < sqrt s ↔ q < 0 ∨ q² < s`. -/
def Val.gtB (v : Val) (b : X) : Bool :=
  match v, b with
  | .x v, b => X.lt b v
  | .sqrt _, .ninf => true
  | .sqrt _, .pinf => false
  | .sqrt s, .fin q => decide (q < 0) || decide (q * q < s)

/-- `b ≤ v`. For `v = sqrt s`: `q ≤ sqrt s ↔ q ≤ 0 ∨ q² ≤ s`. -/
def Val.geB (v : Val) (b : X) : Bool :=
  match v, b with
  | .x v, b => X.le b v
  | .sqrt _, .ninf => true
  | .sqrt _, .pinf => false
  | .sqrt s, .fin q => decide (q ≤ 0) || decide (q * q ≤ s)

/-! ## Digitizer -/

inductive Side where
  | left
  | right
deriving DecidableEq, Repr

/-- `np.searchsorted(b, v, side)` on a sorted array: `left` = number of boundaries `< v`,
`right` = number of boundaries `≤ v` (index at which a left-to-right scan stops). -/
def searchsorted (b : List X) (v : Val) : Side → Nat
  | .left => (b.takeWhile v.gtB).length
  | .right => (b.takeWhile v.geB).length

structure Digitizer where
  boundaries : List X
  right : Bool
deriving Repr

/-- `len(digitizer)`: number of bins. -/
def Digitizer.nbins (d : Digitizer) : Nat := d.boundaries.length - 1

/-- The `side=` expression of `Digitizer.__call__`: `"left" if self.right else "right"`. -/
def sideOfRight (right : Bool) : Side := if right then .left else .right

/-- `Digitizer.__call__` with the side expression and the subtracted offset as parameters
(the translator re-extracts both from the source, see `Gen/Smat.lean`). -/
def digitizeWith (sideOf : Bool → Side) (off : Int) (d : Digitizer) (v : Val) : Int :=
  (searchsorted d.boundaries v (sideOf d.right) : Int) - off

/-- `Digitizer.__call__`: `np.searchsorted(boundaries, value, side="left" if right else "right") - 1`. -/
def digitize (d : Digitizer) (v : Val) : Int := digitizeWith sideOfRight 1 d v

/-- numpy puts NaN after `+inf`: `searchsorted` returns `len(boundaries)` for either side. -/
def digitizeNaN (d : Digitizer) : Int := (d.boundaries.length : Int) - 1

/-- `is_monotonically_increasing` (strict). -/
def isMonoInc : List X → Bool
  | [] => true
  | [_] => true
  | a :: b :: r => X.lt a b && isMonoInc (b :: r)

def setHead (x : X) : List X → List X
  | [] => []
  | _ :: r => x :: r

def setLast (x : X) : List X → List X
  | [] => []
  | [_] => [x]
  | a :: b :: r => a :: setLast x (b :: r)

/-- `Digitizer.__init__(boundaries, clip, right)`; `none` = raises. -/
def Digitizer.make (bounds : List X) (clip : Bool × Bool) (right : Bool) : Option Digitizer :=
  match bounds with
  | [] => none   -- `boundaries[0]`: IndexError
  | b0 :: _ =>
    let b1 := if clip.1 then setHead .ninf bounds
              else if b0 != .ninf then .ninf :: bounds else bounds
    let b2 := if clip.2 then setLast .pinf b1
              else if b1.getLast? != some .pinf then b1 ++ [.pinf] else b1
    if isMonoInc b2 then some ⟨b2, right⟩ else none

/-- One interval label of a score-matrix DataFrame, e.g. `"(0.75,1.5]"` = `⟨0.75, 1.5, true⟩`. -/
structure Interval where
  lo : X
  hi : X
  right : Bool
deriving Repr, DecidableEq

/-- "Half-open intervals do not abut" check. -/
def abut : List Interval → Bool
  | [] => true
  | [_] => true
  | a :: b :: r => (a.hi == b.lo) && abut (b :: r)

/-- `Digitizer.from_strings` on parsed labels (default `clip = (True, True)`). -/
def Digitizer.fromIntervals (ivs : List Interval) : Option Digitizer :=
  match ivs with
  | [] => none
  | i0 :: _ =>
    if ivs.all (fun i => i.right == i0.right) && abut ivs then
      match ivs.getLast? with
      | some l => Digitizer.make (ivs.map (·.lo) ++ [l.hi]) (true, true) i0.right
      | none => none
    else none

/-! ## Lookup table -/

structure Lookup2d where
  ax0 : Digitizer
  ax1 : Digitizer
  cells : List (List Rat)
deriving Repr

/-- `LookupNd.__init__`: `[len(ax) for ax in axes] == list(cells.shape)`. -/
def Lookup2d.make (ax0 ax1 : Digitizer) (cells : List (List Rat)) : Option Lookup2d :=
  if cells.length = ax0.nbins ∧ cells.all (fun r => r.length == ax1.nbins) then some ⟨ax0, ax1, cells⟩
  else none

/-- `Lookup2d.from_dataframe`. -/
def Lookup2d.fromDataframe (rows cols : List Interval) (cells : List (List Rat)) : Option Lookup2d :=
  match Digitizer.fromIntervals rows, Digitizer.fromIntervals cols with
  | some a0, some a1 => Lookup2d.make a0 a1 cells
  | _, _ => none

/-- numpy integer indexing into an axis of length `n` (negative indices wrap, otherwise IndexError). -/
def npIndex (n : Nat) (i : Int) : Option Nat :=
  if 0 ≤ i ∧ i < n then some i.toNat
  else if -(n : Int) ≤ i ∧ i < 0 then some (i + n).toNat
  else none

def Lookup2d.cell (t : Lookup2d) (i j : Int) : Option Rat :=
  match npIndex t.ax0.nbins i, npIndex t.ax1.nbins j with
  | some i, some j => (t.cells[i]?).bind (·[j]?)
  | _, _ => none

/-- `LookupNd.__call__(dist, dot)`. -/
def Lookup2d.call (t : Lookup2d) (d v : Val) : Option Rat :=
  t.cell (digitize t.ax0 d) (digitize t.ax1 v)

/-- A score function: `(distance, dot product) ↦ score`; `none` = raises. -/
abbrev ScoreFn := Val → Val → Option Rat

/-! ## Dotprops and nearest-neighbour matching -/

structure V3 where
  x : Rat
  y : Rat
  z : Rat
deriving Repr, DecidableEq, Inhabited

def V3.dot (a b : V3) : Rat := a.x * b.x + a.y * b.y + a.z * b.z
def V3.sub (a b : V3) : V3 := ⟨a.x - b.x, a.y - b.y, a.z - b.z⟩
/-- squared Euclidean distance -/
def V3.d2 (a b : V3) : Rat := (a.sub b).dot (a.sub b)

def absR (x : Rat) : Rat := if x < 0 then -x else x

/-- One point of a dotprops cloud: position, tangent vector, alpha. -/
structure Pt where
  p : V3
  v : V3
  a : Rat
deriving Repr, DecidableEq, Inhabited

abbrev Cloud := List Pt

structure Dotprops where
  id : Int
  pts : Cloud
deriving Repr

/-- Scan for the nearest point: keeps the first index of minimal squared distance. -/
def nearestAux (p : V3) : List Pt → Nat → Nat × Rat → Nat × Rat
  | [], _, best => best
  | t :: r, i, best =>
    let d := p.d2 t.p
    nearestAux p r (i + 1) (if d < best.2 then (i, d) else best)

/-- `kdtree.query(p)`: index and squared distance of the nearest target point (`none` on an empty cloud). -/
def nearest (t : Cloud) (p : V3) : Option (Nat × Rat) :=
  match t with
  | [] => none
  | t0 :: r => some (nearestAux p r 1 (0, p.d2 t0.p))

/-- One matched query point: squared distance, |dot product|, alpha product, whether there was a
neighbour within `distance_upper_bound`, and its index. -/
structure Match where
  d2 : Rat
  dot : Rat
  alpha : Rat
  hit : Bool
  idx : Nat
deriving Repr, DecidableEq

/-- `if distance_upper_bound:` — `None` and `0` both mean "no bound". -/
def effBound (b : Option Rat) : Option Rat :=
  match b with
  | some b => if b = 0 then none else some b
  | none => none

/-- `Dotprops.dist_dots(other, alpha=True, distance_upper_bound=bound)` for one query point. The
kd-tree reports a neighbour only when its distance is `< bound`; otherwise
`dist := bound, dotprod := 0, alpha := 0`. -/
def matchPoint (t : Cloud) (bound : Option Rat) (qp : Pt) : Option Match :=
  match nearest t qp.p with
  | none => none
  | some (j, d) =>
    match effBound bound with
    | some b =>
      if d < b * b then some ⟨d, absR (qp.v.dot (t.getD j default).v), qp.a * (t.getD j default).a, true, j⟩
      else some ⟨b * b, 0, 0, false, t.length⟩
    | none => some ⟨d, absR (qp.v.dot (t.getD j default).v), qp.a * (t.getD j default).a, true, j⟩

def allSome {α} : List (Option α) → Option (List α)
  | [] => some []
  | none :: _ => none
  | some a :: r => (allSome r).map (a :: ·)

def distDots (q t : Cloud) (bound : Option Rat) : Option (List Match) :=
  allSome (q.map (matchPoint t bound))

/-! ## Scores -/

/-- The two arguments `single_query_target` hands to the score function for one matched point:
`dists` and `dots` (`dots *= sqrt(alpha)` when alpha is used). -/
def matchArgs (useAlpha : Bool) (m : Match) : Val × Val :=
  (.sqrt m.d2, if useAlpha then .sqrt (m.dot * m.dot * m.alpha) else .x (.fin m.dot))

def pointScore (fn : ScoreFn) (useAlpha : Bool) (m : Match) : Option Rat :=
  fn (matchArgs useAlpha m).1 (matchArgs useAlpha m).2

def sumOpt : List (Option Rat) → Option Rat
  | [] => some 0
  | none :: _ => none
  | some x :: r => (sumOpt r).map (x + ·)

/-- `self.score_fn(dists, dots).sum()` -/
def rawScore (fn : ScoreFn) (useAlpha : Bool) (ms : List Match) : Option Rat :=
  sumOpt (ms.map (pointScore fn useAlpha))

/-- `NBlaster.calc_self_hit`: distance `0` (written `sqrt 0`, the same number in the representation the
matched distances use), dot product `1.0`, resp. `1 * sqrt(alpha * alpha)` per point when alpha is used. -/
def selfHit (fn : ScoreFn) (useAlpha : Bool) (q : Cloud) : Option Rat :=
  if useAlpha then sumOpt (q.map fun p => fn (.sqrt 0) (.sqrt (p.a * p.a)))
  else (fn (.sqrt 0) (.x (.fin 1))).map (fun c => (q.length : Rat) * c)

structure Cfg where
  useAlpha : Bool
  normalized : Bool
  bound : Option Rat
deriving Repr

/-- An `NBlaster` after a number of `append`s. -/
structure Blaster where
  neurons : List Dotprops
  selfHits : List Rat
deriving Repr

inductive Mode where
  | forward | mean | min | max | both
deriving DecidableEq, Repr

def Mode.name : Mode → String
  | .forward => "forward" | .mean => "mean" | .min => "min" | .max => "max" | .both => "both"

def Mode.all : List Mode := [.forward, .mean, .min, .max, .both]

/-- Sum of the per-point scores of the query's points matched into the target. -/
def pairRaw (fn : ScoreFn) (cfg : Cfg) (q t : Cloud) : Option Rat :=
  match distDots q t cfg.bound with
  | none => none
  | some ms => rawScore fn cfg.useAlpha ms

/-- `scr /= self_hit`. A zero self-hit makes the normalised score undefined (numpy: `inf`/`nan`): `none`. -/
def normalise (scr sh : Rat) : Option Rat := if sh = 0 then none else some (scr / sh)

/-- Forward score of `single_query_target` (indices into the blaster's lists). -/
def forward (fn : ScoreFn) (cfg : Cfg) (nb : Blaster) (qi ti : Nat) : Option Rat :=
  if qi = ti then
    (if cfg.normalized then some 1 else nb.selfHits[qi]?)
  else
    match nb.neurons[qi]?, nb.neurons[ti]? with
    | some q, some t =>
      match pairRaw fn cfg q.pts t.pts with
      | none => none
      | some scr =>
        if cfg.normalized then
          match nb.selfHits[qi]? with
          | some sh => normalise scr sh
          | none => none
        else some scr
    | _, _ => none

/-- Python's built-in `min(a, b)` / `max(a, b)`. -/
def pyMin (a b : Rat) : Rat := if b < a then b else a
def pyMax (a b : Rat) : Rat := if a < b then b else a

/-- What one matrix cell holds: a scalar, or `[forward, reverse]` for `scores='both'`. -/
inductive Score where
  | one (x : Rat)
  | two (f r : Rat)
deriving Repr, DecidableEq

/-- `NBlaster.single_query_target(q_idx, t_idx, scores)`: the self-self short-cut returns before the
score mode is looked at. -/
def singleQueryTarget (fn : ScoreFn) (cfg : Cfg) (nb : Blaster) (qi ti : Nat) (mode : Mode) : Option Score :=
  if qi = ti then (forward fn cfg nb qi ti).map .one
  else
    match forward fn cfg nb qi ti with
    | none => none
    | some scr =>
      match mode with
      | .forward => some (.one scr)
      | _ =>
        match forward fn cfg nb ti qi with
        | none => none
        | some rev =>
          match mode with
          | .forward => some (.one scr)
          | .mean => some (.one ((scr + rev) / 2))
          | .min => some (.one (pyMin scr rev))
          | .max => some (.one (pyMax scr rev))
          | .both => some (.two scr rev)

/-- Result matrix with labels. For `both` every query contributes two rows (`forward`, `reverse`). -/
structure Frame where
  rows : List (Int × String)
  cols : List Int
  vals : List (List Rat)
deriving Repr, DecidableEq

def Score.fwd : Score → Rat
  | .one x => x
  | .two f _ => f
def Score.rev : Score → Rat
  | .one x => x      -- a scalar is broadcast into both slots
  | .two _ r => r

def idAt (nb : Blaster) (i : Nat) : Int := ((nb.neurons[i]?).map (·.id)).getD 0

/-- `Blaster.multi_query_target(q_idx, t_idx, scores)`. -/
def multiQueryTarget (fn : ScoreFn) (cfg : Cfg) (nb : Blaster) (qix tix : List Nat) (mode : Mode) : Option Frame :=
  match allSome (qix.map fun q => allSome (tix.map fun t => singleQueryTarget fn cfg nb q t mode)) with
  | none => none
  | some res =>
    if mode = .both then
      some ⟨(qix.map fun q => [(idAt nb q, "forward"), (idAt nb q, "reverse")]).flatten,
            tix.map (idAt nb),
            (res.map fun row => [row.map Score.fwd, row.map Score.rev]).flatten⟩
    else
      some ⟨qix.map fun q => (idAt nb q, ""), tix.map (idAt nb), res.map fun row => row.map Score.fwd⟩

/-- `navis.nblast(query, target, scores)` (one job): self hits of all queries and targets, queries
appended first, then targets; queries against targets. -/
def nblast (fn : ScoreFn) (cfg : Cfg) (q t : List Dotprops) (mode : Mode) : Option Frame :=
  match allSome (q.map fun n => selfHit fn cfg.useAlpha n.pts), allSome (t.map fun n => selfHit fn cfg.useAlpha n.pts) with
  | some qs, some ts =>
    multiQueryTarget fn cfg ⟨q ++ t, qs ++ ts⟩ (List.range q.length) ((List.range t.length).map (· + q.length)) mode
  | _, _ => none

/-- `navis.nblast_allbyall(x)` (one job): every neuron appended once, `all_by_all()`. -/
def nblastAllByAll (fn : ScoreFn) (cfg : Cfg) (x : List Dotprops) : Option Frame :=
  match allSome (x.map fun n => selfHit fn cfg.useAlpha n.pts) with
  | some hs => multiQueryTarget fn cfg ⟨x, hs⟩ (List.range x.length) (List.range x.length) .forward
  | none => none

/-! ## The published definition, index-free (what the theorems of `Props/C06.lean` relate the above to) -/

/-- Forward NBLAST score of cloud `q` against cloud `t`. -/
def defForward (fn : ScoreFn) (cfg : Cfg) (q t : Cloud) : Option Rat :=
  match pairRaw fn cfg q t with
  | none => none
  | some scr =>
    if cfg.normalized then
      match selfHit fn cfg.useAlpha q with
      | some sh => normalise scr sh
      | none => none
    else some scr

/-- Score of `q` against `t` in a given mode. -/
def defScore (fn : ScoreFn) (cfg : Cfg) (q t : Cloud) (mode : Mode) : Option Score :=
  match defForward fn cfg q t with
  | none => none
  | some f =>
    match mode with
    | .forward => some (.one f)
    | _ =>
      match defForward fn cfg t q with
      | none => none
      | some r =>
        match mode with
        | .forward => some (.one f)
        | .mean => some (.one ((f + r) / 2))
        | .min => some (.one (pyMin f r))
        | .max => some (.one (pyMax f r))
        | .both => some (.two f r)

/-- Assemble a labelled matrix from ids and per-pair scores (`both`: two rows per query). -/
def mkFrame (mode : Mode) (qids tids : List Int) (res : List (List Score)) : Frame :=
  if mode = .both then
    ⟨(qids.map fun i => [(i, "forward"), (i, "reverse")]).flatten, tids,
     (res.map fun row => [row.map Score.fwd, row.map Score.rev]).flatten⟩
  else ⟨qids.map fun i => (i, ""), tids, res.map fun row => row.map Score.fwd⟩

/-- The score matrix by the definition: entry `(i, j)` is the score of query `i` against target `j`,
rows and columns labelled by the ids in input order. -/
def defNblast (fn : ScoreFn) (cfg : Cfg) (q t : List Dotprops) (mode : Mode) : Option Frame :=
  (allSome (q.map fun qn => allSome (t.map fun tn => defScore fn cfg qn.pts tn.pts mode))).map
    (mkFrame mode (q.map (·.id)) (t.map (·.id)))

/-- `limit_dist='auto'`: the clipped table's last boundary is `inf`, so navis takes the second highest
boundary times 1.05 (`c105` = the double nearest to 1.05). -/
def autoLimit (t : Lookup2d) (c105 : Rat) : Option Rat :=
  match t.ax0.boundaries.reverse with
  | .pinf :: .fin b :: _ => some (b * c105)
  | .fin b :: _ => some b
  | _ => none

/-! ## Configuration of the blasters a front end builds -/

/-- An `NBlaster(kw=expr, …)` built inside a front end (`nblast`, `nblast_allbyall`, `nblast_smart`): a
constructor parameter that is forwarded takes the value of the forwarded front-end argument, one that is not
forwarded silently falls back to the constructor's default. -/
def siteConfig {V : Type} (forwarded : List (String × String)) (args dflt : String → V) (param : String) : V :=
  match forwarded.find? (fun kv => kv.1 == param) with
  | some kv => args kv.2
  | none => dflt param

/-- The constructor parameters that decide a score, with the front-end argument each must receive
(`progress` only drives the progress bar). -/
def scoringForward : List (String × String) :=
  [("approx_nn", "approx_nn"), ("dtype", "precision"), ("limit_dist", "limit_dist"), ("normalized", "normalized"),
   ("smat", "smat"), ("smat_kwargs", "smat_kwargs"), ("use_alpha", "use_alpha")]

/-- Self hits and neurons are appended to a job's blaster with the same index into matching lists. -/
def appendAligned (s : String × String × String × String × String) : Bool :=
  s.2.2.1 == s.2.2.2.2 &&
  [("query_dps", "query_self_hits"), ("target_dps", "target_self_hits"), ("query_dps_simp", "query_self_hits"),
   ("target_dps_simp", "target_self_hits"), ("dps", "self_hits")].contains (s.2.1, s.2.2.2.1)

/-! ## The cached built-in score table -/

/-- How a function hands out an object it keeps in a cache. -/
inductive CopyKind where
  | deep      -- `copy.deepcopy`: the arrays of the returned table are new
  | shallow   -- `copy.copy`: a new outer object whose `.cells` / `.axes[k].boundaries` ARE the cached arrays
  | none      -- the cached object itself
deriving DecidableEq, Repr

/-- Memory as far as the table is concerned: address ↦ array content. -/
abbrev Mem := Nat → List Rat

/-- `smat_fcwb()`: the cached table's array lives at address `c`; the caller receives an array address
(a fresh one holding a copy for a deep copy, the cached one otherwise) and the memory after the call. -/
def handOut (k : CopyKind) (m : Mem) (c fresh : Nat) : Mem × Nat :=
  match k with
  | .deep => (fun a => if a = fresh then m c else m a, fresh)
  | _ => (m, c)

/-- The caller edits the array it was given in place (`lut.cells[...] = …`, `boundaries *= 4`). -/
def editAt (m : Mem) (a : Nat) (v : List Rat) : Mem := fun x => if x = a then v else m x

/-- One round: fetch the table, edit what was returned. -/
def fetchEdit (k : CopyKind) (c : Nat) (m : Mem) (fv : Nat × List Rat) : Mem :=
  let r := handOut k m c fv.1
  editAt r.1 r.2 fv.2

/-! ## Checker evaluated on the implementation's own output -/

/-- Does bin `i` of the table declared by `ivs` contain `v`, the outermost bins being open-ended
(clipping)?  Proved equivalent to `i = digitize` in `Props/C06.lean`. -/
def binOK (ivs : List Interval) (i : Int) (v : X) : Bool :=
  match ivs with
  | [] => false
  | i0 :: _ =>
    decide (0 ≤ i) && decide (i < ivs.length) &&
    (match ivs[i.toNat]? with
     | none => false
     | some iv =>
       (i == 0 || (if i0.right then X.lt iv.lo v else X.le iv.lo v)) &&
       (i + 1 == ivs.length || (if i0.right then X.le v iv.hi else X.lt v iv.hi)))

end Navis.Nblast
