import NavisModel.Model.Partition
import NavisModel.Model.Smart
/-
A small language for what the NBLAST front ends (`nblast`, `nblast_allbyall`, `nblast_smart`, `synblast`,
`nblast_align`) write inside their job loop

    for qix in np.array_split(np.arange(len(Q)), n_rows):
        for tix in np.array_split(np.arange(len(T)), n_cols):
            this = Blaster(...)
            for i, ix in enumerate(<array>): this.append(<list>[<i|ix>], <self_hits>[<i|ix>])   (… ixmap[ix] = i)
            this.queries = <index expr>; this.targets = <index expr>
            this.queries_ix = <index expr>; this.targets_ix = <index expr>
            futures[pool.submit(this.multi_query_target, q_idx=…, t_idx=…, scores=…)] = this
    for f in as_completed(futures):
        res = f.result(); this = futures[f]
        scores.iloc[<rows>, <cols>] = res.values

and its interpreter.  The translator (`translator/gen_nblastjobs.py`) turns the *current* source into
values of `Program` / `SmartFacts` (`Gen/NblastJobs.lean`); `Props/C09.lean` proves that interpreting those
values assembles the correct matrix for every partition and completion order.  (C09)
-/
namespace Navis.JobSpec
open Navis.Partition

/-- Index-array expressions. -/
inductive IxE where
  | qix | tix                         -- the loop variables of the job grid
  | union                             -- `list(set(qix) | set(tix))` (enumeration order = parameter)
  | arange (l : IxE)                  -- `np.arange(len(l))`
  | addLen (e l : IxE)                -- `e + len(l)`
  | viaMap (e : IxE)                  -- `[ixmap[ix] for ix in e]`
  | mul (e : IxE) (k : Nat)           -- `e * k`
  | rep (e : IxE) (k : Nat)           -- `np.repeat(e, k)`
  | addSlice (e : IxE) (start step v : Nat)   -- `x = e; x[start::step] += v`
deriving Repr, DecidableEq, Inhabited

/-- Which of the two variables of `for i, ix in enumerate(arr)` indexes something. -/
inductive Sel where
  | elem | counter
deriving Repr, DecidableEq

def pick : Sel → Nat → Nat → Nat
  | .elem, _, ix => ix
  | .counter, i, _ => i

structure Env where
  j : Job
  enum : List Nat            -- the order in which `list(set(qix) | set(tix))` lists its elements
  ixmap : List (Nat × Nat)   -- the dict built inside the append loop

def IxE.eval (env : Env) : IxE → List Nat
  | .qix => env.j.qix
  | .tix => env.j.tix
  | .union => env.enum
  | .arange l => List.range (l.eval env).length
  | .addLen e l => (e.eval env).map (· + (l.eval env).length)
  | .viaMap e => (e.eval env).map fun x => (env.ixmap.lookup x).getD env.enum.length
  | .mul e k => (e.eval env).map (· * k)
  | .rep e k => (e.eval env).flatMap fun v => List.replicate k v
  | .addSlice e s st v => (e.eval env).mapIdx fun i x => if s ≤ i ∧ (i - s) % st = 0 then x + v else x

/-- One `for i, ix in enumerate(over): this.append(list[·], self_hits[·])` loop. -/
structure AppendLoop where
  over : IxE
  list : String              -- the neuron list that is indexed
  nsel : Sel                 -- … with `ix` (element) or `i` (counter)
  shOf : Option String       -- the list the self-hit array was computed over (`none`: no self hit passed)
  shsel : Sel
deriving Repr, DecidableEq

/-- What a blaster holds at one local position: which neuron, and whose pre-computed self hit. -/
structure Ent where
  neuron : String × Nat
  selfHit : Option (String × Nat)
deriving Repr, DecidableEq

def mkEnt (sh : Bool) (name : String) (i : Nat) : Ent := ⟨(name, i), if sh then some (name, i) else none⟩

def AppendLoop.entries (ap : AppendLoop) (env : Env) : List Ent :=
  (ap.over.eval env).zipIdx.map fun p =>
    ⟨(ap.list, pick ap.nsel p.2 p.1), ap.shOf.map fun s => (s, pick ap.shsel p.2 p.1)⟩

structure Program where
  name : String
  outerLen : String          -- `np.arange(len(·))` of the outer loop
  outerCount : String
  innerLen : String
  innerCount : String
  appends : List AppendLoop
  ixmap : Option (Sel × Sel) -- `ixmap[key] = value` inside the (single) append loop
  submitMethod : String
  submitQ : IxE              -- `q_idx=` of the submitted call, `this.` attributes resolved
  submitT : IxE
  submitScores : String
  futuresKeyedBySubmit : Bool   -- `futures[pool.submit(this.method, …)] = this` (same `this`)
  asCompleted : Bool            -- results are collected with `as_completed(futures)`
  sameFuture : Bool             -- `res = f.result()` and `this = futures[f]` for the same `f`
  shapeRows : String            -- `np.empty((len(·), len(·)))`
  shapeCols : String
  indexRows : String            -- `index=·.id`
  indexCols : String            -- `columns=·.id`
  placeRows : IxE               -- `scores.iloc[rows, cols] = res.values`
  placeCols : IxE
  placesValues : Bool           -- the right-hand side is `res.values`
  bothRows : Option IxE         -- rows used when `scores == 'both'`
  bothFactor : Option Nat       -- `np.empty((len(·) * k, …))` in that case
deriving Repr, DecidableEq

def Program.ixmapOf (p : Program) (enum : List Nat) : List (Nat × Nat) :=
  match p.ixmap with
  | none => []
  | some (k, v) => enum.zipIdx.map fun q => (pick k q.2 q.1, pick v q.2 q.1)

def Program.env (p : Program) (enum : List Nat) (j : Job) : Env := ⟨j, enum, p.ixmapOf enum⟩

/-- The blaster's neuron list after all append loops. -/
def Program.localList (p : Program) (env : Env) : List Ent := p.appends.flatMap (·.entries env)

/-- The block one job returns: `res[a][b] = score(local[q_idx[a]], local[t_idx[b]])`;
`none` where navis would index outside the blaster's list. -/
def Program.block {α} (p : Program) (f : Ent → Ent → α) (enum : List Nat) (j : Job) : List (List (Option α)) :=
  let env := p.env enum j
  let loc := p.localList env
  (p.submitQ.eval env).map fun a => (p.submitT.eval env).map fun b =>
    match loc[a]?, loc[b]? with
    | some x, some y => some (f x y)
    | _, _ => none

/-- Where the block is written. -/
def Program.dest (p : Program) (enum : List Nat) (j : Job) : Job :=
  ⟨p.placeRows.eval (p.env enum j), p.placeCols.eval (p.env enum j)⟩

/-- Interpreting the program: jobs complete in the order `done`. -/
def Program.run {α} (p : Program) (f : Ent → Ent → α) (enum : Job → List Nat) (done : List Job) : Mat (Option α) :=
  assembleBlocks (done.map fun j => (p.dest (enum j) j, p.block f (enum j) j))

/-- The declarative side conditions: loops, matrix shape and labels talk about the same two lists, the
job object travels with its future. -/
def Program.gridOk (p : Program) : Bool :=
  p.outerLen == p.indexRows && p.innerLen == p.indexCols && p.shapeRows == p.indexRows &&
  p.shapeCols == p.indexCols && p.futuresKeyedBySubmit && p.asCompleted && p.sameFuture && p.placesValues

/-! ### smart NBLAST, full phase -/

/-- `arr[lo] : arr[hi] + hiPlus` with Python (possibly negative) indices. -/
structure SliceE where
  arr : IxE
  lo : Int
  hi : Int
  hiPlus : Nat
deriving Repr, DecidableEq

def pyIndex (l : List Nat) (i : Int) : Option Nat :=
  if 0 ≤ i then l[i.toNat]? else if (-i).toNat ≤ l.length then l[l.length - (-i).toNat]? else none

def SliceE.bounds (s : SliceE) (env : Env) : Option Nat × Option Nat :=
  let a := s.arr.eval env
  (pyIndex a s.lo, (pyIndex a s.hi).map (· + s.hiPlus))

structure SmartFacts where
  outerLen : String
  outerCount : String
  innerLen : String
  innerCount : String
  appends : List AppendLoop
  maskName : String             -- the frame `.loc` is applied to
  submaskRowsList : String      -- `mask.loc[<list>[<ix>].id, …]`
  submaskRows : IxE
  submaskColsList : String
  submaskCols : IxE
  pairsWhere : Bool             -- `np.vstack(np.where(submask)).T`
  pairsOffsetCol : Nat          -- `this.pairs[:, col] += len(·)`
  pairsOffset : IxE
  jobMaskShapeOf : String       -- `np.zeros(<mask>.shape, dtype=bool)`
  sliceRows : SliceE
  sliceCols : SliceE
  sliceValueIsSubmask : Bool
  submitMethod : String
  submitPairsIsJobPairs : Bool  -- `pairs=this.pairs`
  futuresKeyedBySubmit : Bool
  asCompleted : Bool
  sameFuture : Bool
  placeTarget : String          -- `scr[this.mask] = res`
  placeKeyIsJobMask : Bool
  placesResult : Bool
  serialKeyIsGlobalMask : Bool  -- single job: `scr[mask] = this.pair_query_target(this.pairs, …)`
deriving Repr, DecidableEq

def SmartFacts.env (j : Job) : Env := ⟨j, [], []⟩

/-- `this.pairs` as the extracted expressions compute it. -/
def SmartFacts.pairs (sf : SmartFacts) (mask : Nat → Nat → Bool) (j : Job) : List (Nat × Nat) :=
  let env := SmartFacts.env j
  let sub := (sf.submaskRows.eval env).map fun r => (sf.submaskCols.eval env).map fun c => mask r c
  let off := (sf.pairsOffset.eval env).length
  (Smart.whereRM sub).map fun ab =>
    if sf.pairsOffsetCol = 1 then (ab.1, ab.2 + off) else if sf.pairsOffsetCol = 0 then (ab.1 + off, ab.2) else ab

/-- `this.mask` as the extracted slice expressions compute it. -/
def SmartFacts.jobMask (sf : SmartFacts) (mask : Nat → Nat → Bool) (j : Job) : Option (Nat → Nat → Bool) :=
  let env := SmartFacts.env j
  let r := sf.sliceRows.bounds env
  let c := sf.sliceCols.bounds env
  Smart.jobMaskWith r.1 r.2 c.1 c.2 mask j

def SmartFacts.localList (sf : SmartFacts) (j : Job) : List Ent :=
  sf.appends.flatMap (·.entries (SmartFacts.env j))

def SmartFacts.declOk (sf : SmartFacts) : Bool :=
  sf.pairsWhere && sf.sliceValueIsSubmask && sf.submitPairsIsJobPairs && sf.futuresKeyedBySubmit &&
  sf.asCompleted && sf.sameFuture && sf.placeKeyIsJobMask && sf.placesResult && sf.serialKeyIsGlobalMask &&
  sf.outerLen == sf.submaskRowsList && sf.innerLen == sf.submaskColsList &&
  sf.jobMaskShapeOf == sf.maskName

/-! ### `NeuronProcessor.__call__`: the per-argument rule as extracted from the source

    if k in self.exclude_zip:                                   parsed[i] <- a
    elif not utils.is_iterable(a) or len(a) != len(self.nl):    parsed[i] <- a
    else:                                                       parsed[i] <- a[i]          -/
structure ZipRule where
  kind : String                         -- "args" | "kwargs"
  excludeTestsLoopKey : Bool            -- the exclusion test looks at this argument's own position / keyword
  iterableAndLenShape : Bool            -- the second test is `not is_iterable(a) or len(a) <op> len(<list>)`
  lenOp : String
  lenOf : String
  excludedGetsWhole : Bool
  unzippedGetsWhole : Bool
  zippedIndexedByNeuronCounter : Bool   -- the last branch stores `a[i]`, `i` the neuron counter
deriving Repr, DecidableEq

end Navis.JobSpec
