import NavisModel.Model.Ops
import NavisModel.Model.ConnSub
/-
C10 (second pass): the parts of `reroot_skeleton`, `cut_skeleton`, `TreeNeuron.prune_distal_to` /
`prune_proximal_to` and `subset_neuron` that the first pass left to the Python harness, written the way
the navis code does them.  Import-free beyond the forest model, total, computable.

* a **neuron state** (node table + connector table + tag dictionary + pinned soma) and
  `_subset_treeneuron` on it (connector / tag / soma filters, `keep_disc_cn`, boolean-mask form);
* the **weighted graph** navis keeps across a reroot (`x._igraph` / `x._graph_nx` are edited in place and
  *not* recomputed: `_clear_temp_attr(exclude=['igraph', …])`), for both back-ends;
* the `loc[path[1:], 'parent_id'] = path[:-1]` assignment with the two slices as data (generated from
  the source by `translator/gen_treeedit.py`);
* the front end of `cut_skeleton` (tags, id checks, de-duplication, `ret=`, fragment list surgery, the
  errors it raises) and the loops of the two prune methods, parametric in the facts the translator
  extracts (which neuron is cut inside the loop, `ret=`, the index taken).
-/
namespace Navis.TreeEdit
open Navis.Forest

/-! ## 1. neuron state and `_subset_treeneuron` -/

structure Conn where
  cid : Int
  node : Int
  kind : Nat := 0
deriving Repr, DecidableEq, Inhabited

/-- `x.tags`: a dictionary tag → node ids (keys distinct, insertion order). -/
abbrev Tags := List (String × List Int)

structure Neuron where
  nodes : Table
  conns : List Conn := []
  tags : Option Tags := none
  soma : Option Int := none
deriving Repr, Inhabited

/-- `x.connectors[x.connectors.node_id.isin(x.nodes.node_id)]` (rows in order, nothing re-indexed that
the property can see). -/
def filterConns (t' : Table) (cs : List Conn) : List Conn := cs.filter fun c => (ids t').contains c.node

/-- `{t: [tn for tn in x.tags[t] if tn in node_ids] for t in x.tags}` followed by dropping empty tags. -/
def filterTags (t' : Table) (tg : Tags) : Tags :=
  (tg.map fun e => (e.1, e.2.filter fun i => (ids t').contains i)).filter fun e => !e.2.isEmpty

/-- `if x._soma not in x.nodes.node_id.values: x._soma = None`. -/
def filterSoma (t' : Table) (s : Option Int) : Option Int :=
  match s with
  | some i => if (ids t').contains i then some i else none
  | none => none

/-- `_subset_treeneuron` (without `prevent_fragments`) on the whole neuron state. -/
def subsetNeuron (x : Neuron) (keep : Int → Bool) (keepDiscCn : Bool := false) : Neuron :=
  { nodes := subset x.nodes keep
    conns := if keepDiscCn then x.conns else filterConns (subset x.nodes keep) x.conns
    tags := x.tags.map (filterTags (subset x.nodes keep))
    soma := filterSoma (subset x.nodes keep) x.soma }

/-- Boolean-mask form: `x._nodes.loc[mask]` selects rows by *position*. -/
def maskRows (t : Table) (m : List Bool) : Table := ((t.zip m).filter fun e => e.2).map fun e => e.1

def subsetMask (t : Table) (m : List Bool) : Table := classify (fixOrphans (maskRows t m))

/-- `x.nodes.node_id.values[mask]`: the ids a boolean mask marks (what `prevent_fragments` hands to
`connected_subgraph` when the subset is given as a mask). -/
def maskIds (t : Table) (m : List Bool) : List Int := ids (maskRows t m)

/-- `subset_neuron(..., prevent_fragments=True)` on the neuron state: node table as `subsetPF`, the
filters see the final table (the reroot keeps the node set). -/
def subsetNeuronPF (x : Neuron) (ss : List Int) (keepDiscCn : Bool := false) : Neuron :=
  { nodes := subsetPF x.nodes ss
    conns := if keepDiscCn then x.conns else filterConns (subsetPF x.nodes ss) x.conns
    tags := x.tags.map (filterTags (subsetPF x.nodes ss))
    soma := filterSoma (subsetPF x.nodes ss) x.soma }

/-! ## 2. the weighted graph across a reroot -/

/-- One directed edge `child → parent` with its weight. -/
abbrev WEdge := Int × Int × Nat
abbrev WGraph := List WEdge

/-- `neuron2igraph` / `neuron2nx`: one edge per non-root row, weight = edge length. -/
def graphOf (t : Table) (len : Int → Int → Nat) : WGraph := (edges t).map fun e => (e.1, e.2, len e.1 e.2)

/-- `zip(path[:-1], path[1:])`. -/
def pathEdges (path : List Int) : List (Int × Int) := path.zip path.tail

/-- `g.es[e]['weight']` of the edge `a → b` (0 when absent; never the case on a root path). -/
def weightOf (g : WGraph) (a b : Int) : Nat :=
  match g.find? (fun x => x.1 == a && x.2.1 == b) with
  | some x => x.2.2
  | none => 0

/-- igraph branch of `reroot_skeleton`: read the weights along the path, append the inverted edges with
those weights (`all_weights = g.es['weight'] + weights`), delete the original path edges. -/
def rerootGraphIg (g : WGraph) (path : List Int) : WGraph :=
  let es := pathEdges path
  let added : WGraph := es.map fun e => (e.2, e.1, weightOf g e.1 e.2)
  (g ++ added).filter fun x => !(es.contains (x.1, x.2.1))

/-- `next(g.successors(i), None)` with the weight of that edge. -/
def succOf (g : WGraph) (i : Int) : Option (Int × Nat) := (g.find? fun x => x.1 == i).map fun x => x.2

/-- networkx branch: walk `new_root → old root` following `successors`, removing each edge and recording
its weight.  Returns `(path, weights, remaining graph)`. -/
def walkNx : Nat → WGraph → Int → List Int × List Nat × WGraph
  | 0, g, cur => ([cur], [], g)
  | fuel + 1, g, cur =>
    match succOf g cur with
    | none => ([cur], [], g)
    | some (p, w) =>
      let r := walkNx fuel (g.filter fun x => !(x.1 == cur && x.2.1 == p)) p
      (cur :: r.1, w :: r.2.1, r.2.2)

/-- `new_edges = [(path[i+1], path[i], {'weight': weights[i]}) for i in range(len(path) - 1)]`. -/
def invertedEdges : List Int → List Nat → WGraph
  | a :: b :: rest, w :: ws => (b, a, w) :: invertedEdges (b :: rest) ws
  | _, _ => []

def rerootGraphNx (g : WGraph) (r : Int) : WGraph :=
  let w := walkNx (g.length + 1) g r
  w.2.2 ++ invertedEdges w.1 w.2.1

/-- How the networkx branch tests "no parent", as the source spells it: identity tests against `None`
(`true`) or truthiness (`false`: the node id `0` would count as "no parent"). -/
structure NxWalkSpec where
  skipIsNone : Bool       -- `if parent is None: continue`
  loopIsNotNone : Bool    -- `while parent is not None:`
deriving Repr, DecidableEq, Inhabited

def refNxWalkSpec : NxWalkSpec := { skipIsNone := true, loopIsNotNone := true }

/-- Python's verdict "there is no parent" on `next(g.successors(i), None)`. -/
def saysNoParent (identityTest : Bool) (p : Option (Int × Nat)) : Bool :=
  match p with
  | none => true
  | some e => !identityTest && e.1 == 0

/-- The walk with the loop test of the source. -/
def walkNxAW (spec : NxWalkSpec) : Nat → WGraph → Int → List Int × List Nat × WGraph
  | 0, g, cur => ([cur], [], g)
  | fuel + 1, g, cur =>
    match succOf g cur with
    | none => ([cur], [], g)
    | some (p, w) =>
      if saysNoParent spec.loopIsNotNone (some (p, w)) then ([cur], [], g) else
      let r := walkNxAW spec fuel (g.filter fun x => !(x.1 == cur && x.2.1 == p)) p
      (cur :: r.1, w :: r.2.1, r.2.2)

/-- The networkx branch of one reroot on the graph, as written (skip test, walk, inverted edges). -/
def rerootGraphNxAW (spec : NxWalkSpec) (g : WGraph) (r : Int) : WGraph :=
  if saysNoParent spec.skipIsNone (succOf g r) then g else
  let w := walkNxAW spec (g.length + 1) g r
  w.2.2 ++ invertedEdges w.1 w.2.1

/-- Undirected weighted edges (what "the edge set with its weights" means). -/
def wuedges (g : WGraph) : List ((Int × Int) × Nat) := g.map fun e => (uedge e.1 e.2.1, e.2.2)

/-! ## 3. the parent assignment `x.nodes.loc[path[1:], 'parent_id'] = path[:-1]` -/

/-- A Python slice `l[start:stop]` with optional integer bounds (negative = from the end). -/
structure Slice where
  start : Option Int := none
  stop : Option Int := none
deriving Repr, DecidableEq, Inhabited

def normIdx (n : Nat) (i : Int) : Nat :=
  if i < 0 then (i + n).toNat else min i.toNat n

def Slice.apply (s : Slice) (l : List Int) : List Int :=
  let a := match s.start with | some i => normIdx l.length i | none => 0
  let b := match s.stop with | some i => normIdx l.length i | none => l.length
  (l.take b).drop a

/-- What the reroot loop writes into the node table, as the source spells it. -/
structure RerootSpec where
  lhs : Slice            -- rows that get a new parent:      `path[1:]`
  rhs : Slice            -- the new parents, position-wise:  `path[:-1]`
  newRootParent : Int    -- `x.nodes.loc[new_root, 'parent_id'] = -1`
  rereadsRoots : Bool    -- the skip test reads `x.root` inside the loop (not a snapshot taken before it)
deriving Repr, DecidableEq, Inhabited

/-- `.loc[keys, col] = values`: row `keys[k]` gets `values[k]` (the last assignment wins for a repeated key). -/
def assignParents (t : Table) (pairs : List (Int × Int)) : Table :=
  t.map fun n => match pairs.reverse.find? (fun e => e.1 == n.id) with
    | some e => { n with parent := e.2 }
    | none => n

def setParent (t : Table) (i p : Int) : Table := t.map fun n => if n.id = i then { n with parent := p } else n

/-- One iteration of the loop on the node table (links only), as written. -/
def rerootLinksAW (spec : RerootSpec) (t : Table) (r : Int) (path : List Int) : Table :=
  setParent (assignParents t ((spec.lhs.apply path).zip (spec.rhs.apply path))) r spec.newRootParent

/-- One iteration on the whole node table: the parent assignment as written, then the incremental relabel of
the old and the new root (as in `Forest.reroot`). -/
def rerootStepAW (spec : RerootSpec) (t : Table) (r : Int) : Table :=
  match find? t r with
  | none => t
  | some nr =>
    if nr.parent < 0 then t else
    let path := rootPath t r
    let oldRoot := path.getLast?.getD r
    let t1 := rerootLinksAW spec t r path
    t1.map fun n =>
      if n.id = r then { n with label := .root }
      else if n.id = oldRoot then { n with label := labelOf (childCount t1 oldRoot) false }
      else n

/-- The whole loop over the targets.  `snapshot` is the root set as it was before the loop; the source decides
whether the skip test (`if any(x.root == new_root): continue`) consults it or re-reads the roots. -/
def rerootLoopAW (spec : RerootSpec) (snapshot : List Int) : Table → List Int → Table
  | t, [] => t
  | t, r :: rest =>
    let rts := if spec.rereadsRoots then roots t else snapshot
    if rts.contains r then rerootLoopAW spec snapshot t rest
    else rerootLoopAW spec snapshot (rerootStepAW spec t r) rest

/-- The values the theorems need the source to have. -/
def refRerootSpec : RerootSpec :=
  { lhs := { start := some 1 }, rhs := { stop := some (-1) }, newRootParent := -1, rereadsRoots := true }

/-! ## 4. `cut_skeleton` front end and the prune methods -/

inductive Err where
  | noTags | noTag | multiTag | notFound | isRoot | multiTree | gone | noEdge | badIndex
deriving Repr, DecidableEq, Inhabited

inductive Ret where
  | both | proximal | distal
deriving Repr, DecidableEq, Inhabited

inductive Where where
  | id (i : Int)
  | tag (s : String)
deriving Repr, DecidableEq, Inhabited

def lookupTag (tg : Tags) (s : String) : Option (List Int) := (tg.find? fun e => e.1 == s).map fun e => e.2

/-- The `for cn in where:` loop of `cut_skeleton`: a tag contributes all its nodes *unchecked*, an id is
checked for presence and for being a root. The first offending entry raises. -/
def resolveCut (x : Neuron) : List Where → Except Err (List Int)
  | [] => .ok []
  | .tag s :: rest =>
    match x.tags with
    | none => .error .noTags
    | some tg =>
      match lookupTag tg s with
      | none => .error .noTag
      | some l =>
        match resolveCut x rest with
        | .error e => .error e
        | .ok r => .ok (l ++ r)
  | .id i :: rest =>
    if !(ids x.nodes).contains i then .error .notFound
    else if (roots x.nodes).contains i then .error .isRoot
    else match resolveCut x rest with
      | .error e => .error e
      | .ok r => .ok (i :: r)

/-- `[cn for cn in cn_ids if not (cn in seen or seen.add(cn))]`: first occurrences, order kept. -/
def dedup : List Int → List Int
  | [] => []
  | a :: l => a :: (dedup l).filter fun b => b != a

/-- `_cut_igraph` / `_cut_networkx` on a neuron: each requested piece is a `subset_neuron` of the input.
Absent node: `g.vs.find` raises; root (only reachable through a tag): `g.es.find(_source=…)` raises. -/
def cutPieces (x : Neuron) (c : Int) (ret : Ret) : Except Err (List Neuron) :=
  match find? x.nodes c with
  | none => .error .notFound
  | some nc =>
    if nc.parent < 0 then .error .noEdge else
    let d := distalSet x.nodes c
    let dist := subsetNeuron x (fun i => d.contains i)
    let prox := subsetNeuron x (fun i => !d.contains i || i == c)
    .ok (match ret with
      | .both => [dist, prox]
      | .distal => [dist]
      | .proximal => [prox])

/-- The `for cn in cn_ids:` loop: the first fragment containing the cut node is removed and replaced by
its piece(s) at the same index, distal first (`for c in cut[::-1]: res.insert(to_cut_ix, c)`).  With
`ret != 'both'` a cut node may have been dropped with the other side: `[...][0]` raises IndexError. -/
def cutLoop (ret : Ret) : List Neuron → List Int → Except Err (List Neuron)
  | res, [] => .ok res
  | res, cn :: rest =>
    match res.findIdx? (fun f => (ids f.nodes).contains cn) with
    | none => .error .gone
    | some k =>
      match res[k]? with
      | none => .error .gone
      | some f =>
        match cutPieces f cn ret with
        | .error e => .error e
        | .ok ps => cutLoop ret (res.take k ++ ps ++ res.drop (k + 1)) rest

def cutSkeleton (x : Neuron) (wh : List Where) (ret : Ret) : Except Err (List Neuron) :=
  if (roots x.nodes).length != 1 then .error .multiTree else
  match resolveCut x wh with
  | .error e => .error e
  | .ok l => cutLoop ret [x] (dedup l)

/-- The facts about a prune method's loop that the translator reads off the source. -/
structure PruneSpec where
  cutsWorkingCopy : Bool   -- `graph.cut_skeleton(<the working copy>, n, …)` (not `self`)
  ret : Ret                -- the `ret=` literal
  index : Nat              -- the `[k]` taken from the returned list
deriving Repr, DecidableEq, Inhabited

/-- `for n in node: piece = cut_skeleton(<arg>, n, ret=…)[k]; x.__init__(piece)`.  `self` is the neuron the
method was called on (= the initial working copy's content). -/
def pruneLoop (spec : PruneSpec) (self : Neuron) : Neuron → List Where → Except Err Neuron
  | x, [] => .ok x
  | x, n :: rest =>
    match cutSkeleton (if spec.cutsWorkingCopy then x else self) [n] spec.ret with
    | .error e => .error e
    | .ok res =>
      match res[spec.index]? with
      | none => .error .badIndex
      | some p => pruneLoop spec self p rest

def pruneMethod (spec : PruneSpec) (self : Neuron) (nodes : List Where) : Except Err Neuron :=
  pruneLoop spec self self nodes

/-- The values the theorems need the source to have (`prune_distal_to` keeps the proximal piece and vice versa). -/
def refDistal : PruneSpec := { cutsWorkingCopy := true, ret := .proximal, index := 0 }
def refProximal : PruneSpec := { cutsWorkingCopy := true, ret := .distal, index := 0 }

/-- Specification the methods are compared with: successive single prunes on the node table. -/
def pruneDistal1 (t : Table) (c : Int) : Option Table := (cut t c).map fun dp => dp.2
def pruneProximal1 (t : Table) (c : Int) : Option Table := (cut t c).map fun dp => dp.1

def pruneMany (step : Table → Int → Option Table) : Table → List Int → Option Table
  | t, [] => some t
  | t, c :: rest => match step t c with
    | none => none
    | some t' => pruneMany step t' rest

/-- What `prune_distal_to` with several nodes keeps: the nodes that are not strictly below a listed node. -/
def keepDistalMany (t : Table) (cs : List Int) (i : Int) : Bool :=
  cs.all fun c => !((rootPath t i).contains c) || i == c

/-- The fragment of a multi-cut at the nodes `cs` whose top is `τ` (the root or one of the cut nodes): the nodes
below-or-at `τ` such that every cut node met on the way up to `τ` is `τ` itself or the starting node (a cut node
is the root of its own fragment and a leaf of the one above). -/
def fragKeep (t : Table) (cs : List Int) (τ i : Int) : Bool :=
  (rootPath t i).contains τ &&
    cs.all fun c => !((rootPath t i).contains c && (rootPath t c).contains τ) || c == τ || c == i

/-- One step of `cutMany` (the function folded over the cut nodes). -/
def cutStep (frags : List Table) (c : Int) : List Table :=
  match frags.findIdx? (fun f => (ids f).contains c) with
  | none => frags
  | some k =>
    match frags[k]? with
    | none => frags
    | some f =>
      match cut f c with
      | none => frags
      | some (d, p) => frags.take k ++ [d, p] ++ frags.drop (k + 1)

/-! ## 5. reroot front end: targets given as ids or tags -/

/-- The parse loop of `reroot_skeleton`: a tag must name exactly one node. -/
def resolveRoots (x : Neuron) : List Where → Except Err (List Int)
  | [] => .ok []
  | .id i :: rest =>
    match resolveRoots x rest with
    | .error e => .error e
    | .ok r => .ok (i :: r)
  | .tag s :: rest =>
    match x.tags with
    | none => .error .noTags
    | some tg =>
      match lookupTag tg s with
      | none => .error .noTag
      | some [i] =>
        match resolveRoots x rest with
        | .error e => .error e
        | .ok r => .ok (i :: r)
      | some _ => .error .multiTag

/-- Reroot a neuron to a sequence of targets: absent ids raise (`g.vs.find` / `g.successors`), connectors,
tags and soma are not touched. -/
def rerootNeuron (x : Neuron) (targets : List Where) : Except Err Neuron :=
  match resolveRoots x targets with
  | .error e => .error e
  | .ok rs =>
    if rs.all (fun r => (ids x.nodes).contains r) then .ok { x with nodes := rerootMany x.nodes rs }
    else .error .notFound

end Navis.TreeEdit
