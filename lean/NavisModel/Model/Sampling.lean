import NavisModel.Model.Resample
/-!
# C13 second pass — the sampling code *as written*, parametrised by the facts the translator extracts

`Model/Ops.lean:downsample` and `Model/Resample.lean` are the hand-written models the C13 theorems are about.
This file re-states the same code with every operator / constant / ordering decision that
`translator/gen_sampling.py` reads off the current navis source as a *parameter* (`WalkRule`, `ResRule`,
`AttachRule`), adds the glue the first pass left to the Python harness (`preserve_nodes=None` vs list, the soma
ids appended to the fix points, float factors (rounded down before the walk), the `shape[0] <= 1` early return, `max_tn_id`, the three
re-attachment blocks, mapped numeric and categorical columns) and is proved in `Proofs/SamplingLemmas.lean`
to coincide with the hand-written models for the rule values the translator produces today (`walkRule0`,
`resRule0`, `attachRule0`).  Import-free, total, computable.
-/
namespace Navis.Sampling
open Navis.Forest Navis.Resample

/-! ## comparison operators and Python slices -/

/-- Python comparison operators by their `ast` class name. -/
inductive Cmp where
  | lt | le | gt | ge | eq | ne
deriving Repr, DecidableEq, Inhabited

def Cmp.ofName : String → Option Cmp
  | "Lt" => some .lt | "LtE" => some .le | "Gt" => some .gt | "GtE" => some .ge | "Eq" => some .eq | "NotEq" => some .ne
  | _ => none

def Cmp.evalInt : Cmp → Int → Int → Bool
  | .lt, a, b => decide (a < b) | .le, a, b => decide (a ≤ b) | .gt, a, b => decide (b < a)
  | .ge, a, b => decide (b ≤ a) | .eq, a, b => a == b | .ne, a, b => a != b

def Cmp.evalRat : Cmp → Rat → Rat → Bool
  | .lt, a, b => decide (a < b) | .le, a, b => decide (a ≤ b) | .gt, a, b => decide (b < a)
  | .ge, a, b => decide (b ≤ a) | .eq, a, b => a == b | .ne, a, b => a != b

/-- `finite <cmp> float('inf')`. -/
def Cmp.evalInf : Cmp → Bool
  | .lt => true | .le => true | .ne => true | _ => false

/-- Python index `l[i]` (negative = from the end); `none` = IndexError. -/
def pyIndex {α} (l : List α) (i : Int) : Option α :=
  if 0 ≤ i then l[i.toNat]? else if (-i).toNat ≤ l.length then l[l.length - (-i).toNat]? else none

/-- Clamp a slice bound as Python does (step 1). -/
def pyBound (n : Nat) (b : Option Int) (dflt : Nat) : Nat :=
  match b with
  | none => dflt
  | some i => if 0 ≤ i then min i.toNat n else n - min (-i).toNat n

/-- Python slice `l[lo:hi]` (step 1). -/
def pySlice {α} (l : List α) (lo hi : Option Int) : List α :=
  let a := pyBound l.length lo 0
  let b := pyBound l.length hi l.length
  (l.take b).drop a

/-! ## downsampling as written -/

/-- How a finite factor is rounded before the walk (`if not np.isinf(f): f = int(np.floor(f))`). -/
inductive FactorRound where
  | asGiven | floor | ceil
deriving Repr, DecidableEq

/-- Everything `_downsample_treeneuron` decides by an operator, a constant or a def-before-use order. -/
structure WalkRule where
  /-- rounding of a finite factor before the walk (`inf` is never rounded) -/
  factorRound : FactorRound
  /-- `if x.nodes.shape[0] <smallCmp> smallK: return` -/
  smallCmp : Cmp
  smallK : Int
  /-- `list_of_parents[sentinelKey] = sentinelValue` -/
  sentinelKey : Int
  sentinelValue : Int
  /-- `selection = x.nodes.type <fixCmp> fixType` -/
  fixCmp : Cmp
  fixType : Label
  /-- `selection | node_id.isin(preserve_nodes)` -/
  presUnion : Bool
  /-- the soma ids are in the container the walk tests membership in / starts from -/
  stopSetHasSoma : Bool
  startsHaveSoma : Bool
  /-- `if new_p <contCmp> contK:` scan, `else: new_parents[this] = rootRecord; break` -/
  contCmp : Cmp
  contK : Int
  rootRecord : Int
  /-- `i = loopInit; while i <loopCmp> factor: …; i += loopStep` -/
  loopInit : Int
  loopCmp : Cmp
  loopStep : Int
  /-- stop test: `new_p in fix` (when `stopMem`) `or new_p <stopRootCmp> stopRootK` -/
  stopMem : Bool
  stopRootCmp : Cmp
  stopRootK : Int
deriving Repr, DecidableEq

/-- The rule the model of the first pass hard-wires (and the translator extracts from the pinned source). -/
def walkRule0 : WalkRule :=
  { factorRound := .floor, smallCmp := .le, smallK := 1, sentinelKey := -1, sentinelValue := -1, fixCmp := .ne, fixType := .slab, presUnion := true,
    stopSetHasSoma := true, startsHaveSoma := true, contCmp := .ge, contK := 0, rootRecord := -1,
    loopInit := 0, loopCmp := .lt, loopStep := 1, stopMem := true, stopRootCmp := .lt, stopRootK := 0 }

/-- `list_of_parents[i]` with the sentinel entry written last (it overrides a node with that id). -/
def parentsG (r : WalkRule) (t : Table) (i : Int) : Int :=
  if i == r.sentinelKey then r.sentinelValue else (parentOf t i).getD (-1)

/-- `i <loopCmp> downsampling_factor` for a rational factor (`none` = `float('inf')`). -/
def loopTest (r : WalkRule) (q : Option Rat) (i : Int) : Bool :=
  match q with
  | none => r.loopCmp.evalInf
  | some f => r.loopCmp.evalRat (i : Rat) f

/-- Inner `while i < factor` loop: candidate parent and whether the loop `stop`ped. -/
def scanG (r : WalkRule) (t : Table) (stopB : Int → Bool) (q : Option Rat) : Nat → Int → Int → Int × Bool
  | 0, p, _ => (p, true)
  | fuel + 1, p, i =>
    if !(loopTest r q i) then (p, false)
    else if (r.stopMem && stopB p) || r.stopRootCmp.evalInt p r.stopRootK then (p, true)
    else scanG r t stopB q fuel (parentsG r t p) (i + r.loopStep)

/-- What one round of the outer loop records for `this`. -/
def recG (r : WalkRule) (t : Table) (stopB : Int → Bool) (q : Option Rat) (this : Int) : Int × Bool :=
  if r.contCmp.evalInt (parentsG r t this) r.contK then scanG r t stopB q (t.length + 1) (parentsG r t this) r.loopInit
  else (r.rootRecord, true)

/-- Outer `while True` loop from one start node. -/
def walkG (r : WalkRule) (t : Table) (stopB : Int → Bool) (q : Option Rat) : Nat → Int → List (Int × Int)
  | 0, _ => []
  | fuel + 1, this =>
    if (recG r t stopB q this).2 then [(this, (recG r t stopB q this).1)]
    else (this, (recG r t stopB q this).1) :: walkG r t stopB q fuel (recG r t stopB q this).1

/-- The factor the walk compares its counter with. -/
def effFactor (r : WalkRule) (q : Option Rat) : Option Rat :=
  match r.factorRound with
  | .asGiven => q
  | .floor => q.map fun f => (f.floor : Rat)
  | .ceil => q.map fun f => (f.ceil : Rat)

/-- `selection`: the rows whose id becomes a fix point before the soma is looked at. -/
def selG (r : WalkRule) (pres : Option (List Int)) (n : Node) : Bool :=
  (match r.fixCmp with
    | .ne => n.label != r.fixType
    | .eq => n.label == r.fixType
    | _ => false) ||
  (r.presUnion && match pres with | some P => P.contains n.id | none => false)

/-- `for s in soma: if s not in fix_points: fix_points = np.append(fix_points, s)`. -/
def appendSoma (fix : List Int) (soma : List Int) : List Int :=
  soma.foldl (fun acc s => if acc.contains s then acc else acc ++ [s]) fix

/-- `_downsample_treeneuron(x, factor, preserve_nodes)` with `x.soma = soma` (ids; `[]` = `None`):
`pres = none` is `preserve_nodes=None`, `q = none` is `float('inf')`. -/
def downsampleG (r : WalkRule) (t : Table) (q : Option Rat) (pres : Option (List Int)) (soma : List Int) : Table :=
  if r.smallCmp.evalInt t.length r.smallK then t else
  let fix0 := (t.filter (selG r pres)).map (·.id)
  let fix1 := appendSoma fix0 soma
  let stopSet := if r.stopSetHasSoma then fix1 else fix0
  let starts := if r.startsHaveSoma then fix1 else fix0
  let pairs := starts.flatMap fun e => walkG r t (fun i => stopSet.contains i) (effFactor r q) (t.length + 1) e
  classify ((t.filter fun n => pairs.any fun e => e.1 == n.id).map fun n =>
    { n with parent := lookupD pairs.reverse n.id n.parent })

/-- `i < q` for an integer counter `i` is `i < ⌈q⌉` (what an unrounded float factor amounts to). -/
def ceilNat (q : Rat) : Nat := q.ceil.toNat

/-- The integer factor the walk uses: a finite factor is rounded down first. -/
def floorNat (q : Rat) : Nat := q.floor.toNat

/-- `downsample_neuron`: `ValueError` (= `none`) unless the factor passes the guard. -/
def downsampleNeuronG (guardCmp : Cmp) (guardK : Int) (r : WalkRule) (t : Table) (q : Option Rat)
    (pres : Option (List Int)) (soma : List Int) : Option Table :=
  if (match q with | none => false | some f => guardCmp.evalRat f (guardK : Rat)) then none
  else some (downsampleG r t q pres soma)

/-! ## resampling as written -/

/-- Where `max_tn_id` starts. -/
inductive IdBase where
  | maxId      -- `node_id.max()`
  | rowCount   -- `nodes.shape[0]` (a position/count, not an id)
  | other
deriving Repr, DecidableEq

/-- `np.round` / `np.ceil` / `np.floor` / `np.trunc`. -/
inductive CountFn where
  | round | ceil | floor | trunc
deriving Repr, DecidableEq

def CountFn.ofName : String → Option CountFn
  | "round" => some .round | "rint" => some .round | "around" => some .round
  | "ceil" => some .ceil | "floor" => some .floor | "trunc" => some .trunc | "fix" => some .trunc
  | _ => none

def CountFn.eval : CountFn → Rat → Int
  | .round, q => roundHalfEven q
  | .ceil, q => q.ceil
  | .floor, q => q.floor
  | .trunc, q => if 0 ≤ q then q.floor else q.ceil

/-- What `max_tn_id += len(…)` measures. -/
inductive Advance where
  | newIds     -- `len(new_ids)` = interior + 2
  | newDist    -- `len(new_dist)` = n
deriving Repr, DecidableEq

structure ResRule where
  idBase : IdBase
  idBasePlus : Int
  /-- `dist[-1] <shortCmp> resample_to` → keep first and last node only -/
  shortCmp : Cmp
  countFn : CountFn
  /-- `range(len(new_dist) - freshMinus)` -/
  freshMinus : Nat
  advance : Advance
  /-- `seg[first]`, `seg[last]` as slices; `zip(new_ids[zipA], new_ids[zipB])`; collapsed rows `[seg[c0], seg[c1]]` -/
  first : Option Int × Option Int
  last : Option Int × Option Int
  zipA : Option Int × Option Int
  zipB : Option Int × Option Int
  c0 : Int
  c1 : Int
  /-- root rows appended; duplicates dropped keeping the first occurrence -/
  rootRows : Bool
  dedupFirst : Bool
deriving Repr, DecidableEq

def resRule0 : ResRule :=
  { idBase := .maxId, idBasePlus := 1, shortCmp := .lt, countFn := .round, freshMinus := 2, advance := .newIds,
    first := (none, some 1), last := (some (-1), none), zipA := (none, some (-1)), zipB := (some 1, none),
    c0 := 0, c1 := -1, rootRows := true, dedupFirst := true }

def baseG (r : ResRule) (t : Table) : Int :=
  (match r.idBase with | .maxId => maxId t | .rowCount => (t.length : Int) | .other => 0) + r.idBasePlus

/-- `None` = collapsed, `some n` = `n` sample positions. -/
def sampleCountG (r : ResRule) (total res : Rat) : Option Nat :=
  if r.shortCmp.evalRat total res then none else some (r.countFn.eval (total / res)).toNat

def cntG (r : ResRule) (len : Int → Int → Nat) (res : Rat) (s : List Int) : Option Nat :=
  sampleCountG r ((pathLen len s : Nat) : Rat) res

/-- `(node, parent)` rows of one segment and the counter afterwards. -/
def segRowsG (r : ResRule) (s : List Int) (base : Int) : Option Nat → List (Int × Int) × Int
  | none => ([((pyIndex s r.c0).getD (-1), (pyIndex s r.c1).getD (-1))], base)
  | some n =>
    let k := n - r.freshMinus
    let newIds := pySlice s r.first.1 r.first.2 ++ fresh base k ++ pySlice s r.last.1 r.last.2
    ((pySlice newIds r.zipA.1 r.zipA.2).zip (pySlice newIds r.zipB.1 r.zipB.2),
     base + (match r.advance with | .newIds => (newIds.length : Int) | .newDist => (n : Int)))

def planG (r : ResRule) (cnt : List Int → Option Nat) : List (List Int) → Int → List (Int × Int)
  | [], _ => []
  | s :: rest, base => (segRowsG r s base (cnt s)).1 ++ planG r cnt rest (segRowsG r s base (cnt s)).2

def resampleStructG (r : ResRule) (t : Table) (cnt : List Int → Option Nat) : Table :=
  let rows := (planG r cnt (smallSegments t) (baseG r t)).map (mkNode t) ++ (if r.rootRows then t.filter isRootNode else [])
  classify (if r.dedupFirst then dedupById rows else rows)

/-! ## columns: the interpolation parameter, numeric and categorical columns -/

/-- `np.interp` bracket for the knot positions `ds` and the query `s`: index `j` of the left knot and the
parameter `τ ∈ [0, 1]` (exactly on a knot or outside the range: `τ = 0` at that knot). -/
def locate : List Rat → Rat → Nat × Rat
  | [], _ => (0, 0)
  | [_], _ => (0, 0)
  | d0 :: d1 :: rest, s =>
    if d1 ≤ s then ((locate (d1 :: rest) s).1 + 1, (locate (d1 :: rest) s).2)
    else if s ≤ d0 then (0, 0)
    else (0, (s - d0) / (d1 - d0))

/-- One numeric column interpolated at `s`: `v[j] + τ·(v[j+1] − v[j])`. -/
def interpCol (ds : List Rat) (vs : List Rat) (s : Rat) : Rat :=
  let j := (locate ds s).1
  let τ := (locate ds s).2
  vs.getD j 0 + τ * (vs.getD (j + 1) 0 - vs.getD j 0)

/-- scipy `interp1d(kind='nearest')`: `searchsorted((x[1:] + x[:-1]) / 2, s, side='left')` — the number of
midpoints strictly below `s` (exactly half-way: the lower knot). -/
def nearestIdx : List Rat → Rat → Nat
  | d0 :: d1 :: rest, s => if (d0 + d1) / 2 < s then nearestIdx (d1 :: rest) s + 1 else 0
  | _, _ => 0

/-- Both neighbours when `s` is exactly half-way (what a comparison with floating point may accept). -/
def nearestIdxSet (ds : List Rat) (s : Rat) : List Nat :=
  let j := nearestIdx ds s
  match ds[j]?, ds[j + 1]? with
  | some a, some b => if (a + b) / 2 == s then [j, j + 1] else [j]
  | _, _ => [j]

/-- A categorical column: translated to codes by first occurrence (`unique()`), interpolated with
`kind='nearest'`, translated back. -/
def uniqueCodes {α} [BEq α] : List α → List α
  | [] => []
  | a :: rest => a :: (uniqueCodes rest).filter (fun b => !(b == a))

def catCol {α} [BEq α] [Inhabited α] (ds : List Rat) (vs : List α) (s : Rat) : α :=
  let codes := uniqueCodes vs
  let num := vs.map fun v => codes.idxOf v
  codes.getD (num.getD (nearestIdx ds s) 0) default

/-! ## re-attachment of soma, connectors and tags -/

/-- When a block runs. -/
inductive Guard where
  | always      -- a top-level `if`
  | unlessPrev  -- an `elif` of the previous block
  | never       -- missing
deriving Repr, DecidableEq

structure AttachRule where
  soma : Guard
  conn : Guard
  tags : Guard
  /-- the KD-tree is built from the new table (after de-duplication) -/
  treeFromNew : Bool
  /-- the query positions are read from the old table -/
  posFromOld : Bool
  /-- `else: x.soma = None` -/
  somaElseClears : Bool
deriving Repr, DecidableEq

def attachRule0 : AttachRule :=
  { soma := .always, conn := .always, tags := .always, treeFromNew := true, posFromOld := true, somaElseClears := true }

/-- What is attached to a skeleton by node id: `x.soma` (`none` = `None`), the `node_id` column of the
connector table (`none` = no connectors), the tags dictionary (`none` = no tags). -/
structure Attach where
  soma : Option (List Int)
  conn : Option (List Int)
  tags : Option (List (String × List Int))
deriving Repr, DecidableEq

def posOf (nodes : List (Int × Pt)) (i : Int) : Option Pt := (nodes.find? fun e => e.1 == i).map (·.2)

/-- `new_nodes.node_id.values[tree.query(old position of i)]`; an id without a position stays. -/
def remapId (r : AttachRule) (old new : List (Int × Pt)) (i : Int) : Int :=
  match posOf (if r.posFromOld then old else new) i with
  | none => i
  | some q => (nearest (if r.treeFromNew then new else old) q).getD i

def runs (g : Guard) (prevFired : Bool) : Bool :=
  match g with
  | .always => true
  | .unlessPrev => !prevFired
  | .never => false

/-- The three blocks in source order.  A block fires when it runs and its own test holds (`x.soma is not None`,
`x.has_connectors`, `x.has_tags`). -/
def reattachG (r : AttachRule) (old new : List (Int × Pt)) (a : Attach) : Attach :=
  let somaFired := runs r.soma false && a.soma.isSome
  let soma' := if somaFired then a.soma.map (·.map (remapId r old new)) else
    (if runs r.soma false && r.somaElseClears then none else a.soma)
  let connFired := runs r.conn somaFired && a.conn.isSome
  let conn' := if connFired then a.conn.map (·.map (remapId r old new)) else a.conn
  let tagsFired := runs r.tags connFired && a.tags.isSome
  let tags' := if tagsFired then a.tags.map (·.map fun e => (e.1, e.2.map (remapId r old new))) else a.tags
  { soma := soma', conn := conn', tags := tags' }

/-- Checker for the re-attachment on navis' output: every attached id of `b` is a node of `new` at minimal
distance from the old position of the corresponding id of `a` (ties: any minimiser), shapes unchanged. -/
def nearestOKB (old new : List (Int × Pt)) (i j : Int) : Bool :=
  match posOf old i with
  | none => false
  | some q =>
    match posOf new j, minSqd new q with
    | some p, some m => sqd p q == m
    | _, _ => false

def listOKB (old new : List (Int × Pt)) (a b : List Int) : Bool :=
  a.length == b.length && (a.zip b).all fun e => nearestOKB old new e.1 e.2

def attachOKB (old new : List (Int × Pt)) (a b : Attach) : Bool :=
  (match a.soma, b.soma with
    | none, none => true
    | some x, some y => listOKB old new x y
    | _, _ => false) &&
  (match a.conn, b.conn with
    | none, none => true
    | some x, some y => listOKB old new x y
    | _, _ => false) &&
  (match a.tags, b.tags with
    | none, none => true
    | some x, some y => x.length == y.length && (x.zip y).all fun e => e.1.1 == e.2.1 && listOKB old new e.1.2 e.2.2
    | _, _ => false)

/-- Tolerant form of `nearestOKB` for positions that are floating-point numbers: the picked node's squared distance is
within the factor `1 + tol` (plus `tol²`) of the minimum — what a KD-tree computing in doubles can be held to. -/
def nearestTolB (tol : Rat) (old new : List (Int × Pt)) (i j : Int) : Bool :=
  match posOf old i with
  | none => false
  | some q =>
    match posOf new j, minSqd new q with
    | some p, some m => decide (sqd p q ≤ m * (1 + tol) + tol * tol)
    | _, _ => false

/-- Is the nearest node of `i`'s old position unique up to the tolerance (no tie)? -/
def uniqueNearestB (tol : Rat) (old new : List (Int × Pt)) (i : Int) : Bool :=
  match posOf old i with
  | none => false
  | some q => (nearestAll new q tol).length == 1

end Navis.Sampling
