import NavisModel.Model.Prune
/-
C12 extension: the *option handling* of the four pruning functions as navis writes it (argument forms
of `recursive`, `mask`, `to_prune`, `n`, `source`, `depth`; cached Strahler column; `reroot_soma`;
`from_root=False`; connector dropping / relocation), the comparison operators as data (tied to the
source by `Gen/Prune.lean`), the greedy criterion of `longest_neurite` as a checker, and
`exact=True` with a mask.  Import-free beyond the model files.
-/
namespace Navis.PruneX
open Navis.Forest

/-! ### comparison operators as data (names are Python `ast` class names) -/

inductive Cmp where
  | lt | le | gt | ge | eq | ne
deriving Repr, DecidableEq

def Cmp.ofName : String → Option Cmp
  | "Lt" => some .lt | "LtE" => some .le | "Gt" => some .gt | "GtE" => some .ge
  | "Eq" => some .eq | "NotEq" => some .ne | _ => none

def Cmp.evalNat : Cmp → Nat → Nat → Bool
  | .lt, a, b => decide (a < b) | .le, a, b => decide (a ≤ b) | .gt, a, b => decide (a > b)
  | .ge, a, b => decide (a ≥ b) | .eq, a, b => decide (a = b) | .ne, a, b => decide (a ≠ b)

def Cmp.evalInt : Cmp → Int → Int → Bool
  | .lt, a, b => decide (a < b) | .le, a, b => decide (a ≤ b) | .gt, a, b => decide (a > b)
  | .ge, a, b => decide (a ≥ b) | .eq, a, b => decide (a = b) | .ne, a, b => decide (a ≠ b)

def Cmp.evalRat : Cmp → Rat → Rat → Bool
  | .lt, a, b => decide (a < b) | .le, a, b => decide (a ≤ b) | .gt, a, b => decide (a > b)
  | .ge, a, b => decide (a ≥ b) | .eq, a, b => decide (a = b) | .ne, a, b => decide (a ≠ b)

/-! ### `prune_twigs`: the rule with its operators / index expressions as parameters

`_prune_twigs_simple` (Python path):
`segs = [s for s in segs if s[0] in leafs and s[-1] in forks]` with `forks = {… n_childs.values > 1}`,
`segs_to_delete = segs[seg_lengths <= size]`, `… if s[0] in mask_nodes`, `for n in s[:-1]`. -/

structure TwigRule where
  lenCmp : Cmp          -- `seg_lengths <cmp> size`
  forkCmp : Cmp         -- `n_childs.values <cmp> forkK`
  forkK : Nat
  leafPos : Int         -- `s[leafPos] in leafs`
  forkPos : Int         -- `s[forkPos] in forks`
  maskPos : Int         -- `s[maskPos] in mask_nodes`
  dropTail : Nat        -- `s[:-dropTail]`
deriving Repr, DecidableEq

/-- Python list indexing with a (possibly negative) constant. -/
def pyIndex {α} (l : List α) (i : Int) : Option α :=
  if i < 0 then (if (-i).toNat ≤ l.length then l[l.length - (-i).toNat]? else none) else l[i.toNat]?

def terminalSegsG (r : TwigRule) (t : Table) : List (List Int) :=
  (smallSegments t).filter fun s => match pyIndex s r.leafPos, pyIndex s r.forkPos with
    | some h, some l => childCount t h == 0 && r.forkCmp.evalNat (childCount t l) r.forkK
    | _, _ => false

def twigDeleteG (r : TwigRule) (t : Table) (len : Int → Int → Nat) (size : Nat) (mask : Option (List Int)) : List Int :=
  ((terminalSegsG r t).filter fun s =>
      r.lenCmp.evalNat (pathLen len s) size &&
      (match mask, pyIndex s r.maskPos with
       | some m, some h => m.contains h
       | some _, none => false
       | none, _ => true)).flatMap fun s => s.take (s.length - r.dropTail)

/-- The rule the hand-written model (`twigDelete`) hard-wires. -/
def twigRule0 : TwigRule := { lenCmp := .le, forkCmp := .gt, forkK := 1, leafPos := 0, forkPos := -1, maskPos := 0, dropTail := 1 }

/-! ### `recursive`: bool / int / inf, as `_prune_twigs_simple` consumes it

`if isinstance(recursive, bool) and recursive: recursive = float("inf")`; after a productive round
`if recursive: <recurse>(…, recursive=recursive - 1)`. -/

inductive RecArg where
  | bool (b : Bool)
  | int (k : Int)
  | inf
deriving Repr, DecidableEq

/-- entry normalisation -/
def RecArg.norm : RecArg → RecArg
  | .bool true => .inf
  | r => r

/-- `if recursive:` then `recursive - 1` (`none` = falsy: stop). -/
def RecArg.step : RecArg → Option RecArg
  | .bool false => none
  | .bool true => some (.int 0)      -- `True - 1 == 0` (never reached after `norm`)
  | .int k => if k = 0 then none else some (.int (k - 1))
  | .inf => some .inf

/-- As written: one round; when something was deleted and `recursive` is truthy, recurse.
(`delOf` = the node ids one round deletes.) -/
def roundsAW (delOf : Table → List Int) : Nat → Table → RecArg → Table
  | 0, t, _ => t
  | fuel + 1, t, r =>
    let del := delOf t
    if del.isEmpty then t else
    match r.step with
    | none => subset t fun i => !del.contains i
    | some r' => roundsAW delOf fuel (subset t fun i => !del.contains i) r'

def pruneTwigsAW (len : Int → Int → Nat) (size : Nat) (mask : Option (List Int)) : Nat → Table → RecArg → Table :=
  roundsAW fun t => twigDelete t len size mask

/-- Number of *further* rounds the argument allows on a table with `n` rows (`n` rounds always
suffice: every productive round removes a row). -/
def RecArg.rounds (n : Nat) : RecArg → Nat
  | .bool false => 0
  | .bool true => n
  | .inf => n
  | .int k => if k < 0 then n else k.toNat

def pruneTwigsRec (t : Table) (len : Int → Int → Nat) (size : Nat) (mask : Option (List Int)) (r : RecArg) : Table :=
  pruneTwigsAW len size mask (t.length + 1) t r.norm

/-! ### `mask`: boolean array / id list (a callable is evaluated by the caller and yields one of these) -/

inductive MaskArg where
  | none
  | ids (l : List Int)
  | bools (b : List Bool)
deriving Repr

/-- `mask_nodes`; `Except`-like: outer `none` = `ValueError("Mask length must match number of nodes")`. -/
def maskIds (t : Table) : MaskArg → Option (Option (List Int))
  | .none => some Option.none
  | .ids l => some (some l)
  | .bools b => if b.length ≠ t.length then Option.none
      else some (some (((ids t).zip b).filterMap fun p => if p.2 then some p.1 else Option.none))

def pruneTwigsX (t : Table) (len : Int → Int → Nat) (size : Nat) (mask : MaskArg) (r : RecArg) : Option Table :=
  (maskIds t mask).map fun m => pruneTwigsRec t len size m r

/-! ### what compiled navis-fastcore does with a mask (a *variant*, used only to attribute a
disagreement to the two open findings — it is not the property's definition)

Observed on `navis_fastcore.prune_twigs`: from every masked leaf the walk collects nodes while they are
masked and not forks; it stops (exclusive) at the first unmasked node or fork; if it collects a root the
length is NaN (navis passes `parent_dist` without `root_dist`) and nothing is removed; otherwise the
collected nodes go when the sum of their parent edges is `≤ size`. -/

def fcWalk (t : Table) (inM : Int → Bool) : Nat → Int → List Int × Bool
  | 0, _ => ([], false)
  | fuel + 1, i =>
    match find? t i with
    | none => ([], false)
    | some n =>
      if !inM i || decide (childCount t i > 1) then ([], false)
      else if n.parent < 0 then ([i], true)
      else let r := fcWalk t inM fuel n.parent; (i :: r.1, r.2)

/-- `rootChains = false`: chains that end at a non-forking root are never touched (only the per-node
mask rule on proper terminal branches); `true`: everything fastcore does. -/
def twigDeleteFC (rootChains : Bool) (t : Table) (len : Int → Int → Nat) (size : Nat) (mask : Option (List Int)) : List Int :=
  let inM : Int → Bool := fun i => match mask with | some m => m.contains i | none => true
  (t.filter fun n => !isRootNode n && childCount t n.id == 0 && inM n.id).flatMap fun n =>
    let w := fcWalk t inM (t.length + 1) n.id
    let isRootChain := (fcWalk t (fun _ => true) (t.length + 1) n.id).2
    let total := (w.1.map fun i => match find? t i with | some m => len i m.parent | none => 0).sum
    if !w.2 && decide (total ≤ size) && (rootChains || !isRootChain) then w.1 else []

def pruneTwigsFC (rootChains : Bool) (t : Table) (len : Int → Int → Nat) (size : Nat) (mask : Option (List Int)) (r : RecArg) : Table :=
  roundsAW (fun u => twigDeleteFC rootChains u len size mask) (t.length + 1) t r.norm

/-! ### Python `range` / slicing with a step -/

/-- `list(range(a, b, s))` (`s ≠ 0`; `s = 0` cannot be constructed in Python). -/
def pyRange (a b s : Int) : List Int :=
  if s > 0 then
    (List.range ((b - a + s - 1) / s).toNat).map fun (k : Nat) => a + (k : Int) * s
  else if s < 0 then
    (List.range ((a - b + (-s) - 1) / (-s)).toNat).map fun (k : Nat) => a + (k : Int) * s
  else []

/-- Normalisation of a slice bound for a positive step (`PySlice_AdjustIndices`). -/
def clampPos (n : Nat) (v : Option Int) (dflt : Int) : Int :=
  match v with
  | none => dflt
  | some i => let j := if i < 0 then i + n else i
              if j < 0 then 0 else if j > n then n else j

/-- … and for a negative step (bounds live in `[-1, n-1]`). -/
def clampNeg (n : Nat) (v : Option Int) (dflt : Int) : Int :=
  match v with
  | none => dflt
  | some i => let j := if i < 0 then i + n else i
              if j < 0 then -1 else if j ≥ n then (n : Int) - 1 else j

/-- Positions selected by `l[a:b:s]` on a list of length `n`, in the order Python yields them. -/
def sliceIdx (n : Nat) (a b : Option Int) (s : Int) : List Nat :=
  if s > 0 then
    let lo := clampPos n a 0
    let hi := clampPos n b n
    (List.range n).filter fun (i : Nat) => decide (lo ≤ (i : Int)) && decide ((i : Int) < hi) && decide (((i : Int) - lo) % s = 0)
  else if s < 0 then
    let hi := clampNeg n a ((n : Int) - 1)
    let lo := clampNeg n b (-1)
    ((List.range n).filter fun (i : Nat) => decide (lo < (i : Int)) && decide ((i : Int) ≤ hi) && decide ((hi - (i : Int)) % (-s) = 0)).reverse
  else []

def pySlice {α} (l : List α) (a b : Option Int) (s : Int) : List α :=
  (sliceIdx l.length a b s).filterMap fun i => l[i]?

/-! ### `prune_by_strahler`: `to_prune` forms, cached column, `reroot_soma`, connectors -/

inductive SISelX where
  | int (k : Int)
  | list (ks : List Int)
  | range (a b s : Int)
  | slice (a b : Option Int) (s : Int)
deriving Repr

/-- The list handed to `strahler_index.isin(…)` (`none` = `ValueError`), with the operators and
constants of the source as parameters:
`isinstance(to_prune, int) and to_prune <negCmp> 0` → `range(negLo, max + (to_prune + negAdd))`;
`to_prune <posCmp> posK` → raise; slices index `range(sliceLo, max + sliceAdd)`. -/
structure SIRule where
  negCmp : Cmp
  negLo : Int
  negAdd : Int
  posCmp : Cmp
  posK : Int
  sliceLo : Int
  sliceAdd : Int
deriving Repr, DecidableEq

def siRule0 : SIRule := { negCmp := .lt, negLo := 1, negAdd := 1, posCmp := .lt, posK := 1, sliceLo := 1, sliceAdd := 1 }

def siListG (r : SIRule) (maxSI : Int) : SISelX → Option (List Int)
  | .int k =>
    if r.negCmp.evalInt k 0 then some (pyRange r.negLo (maxSI + (k + r.negAdd)) 1)
    else if r.posCmp.evalInt k r.posK then none else some [k]
  | .list ks => some ks
  | .range a b s => some (pyRange a b s)
  | .slice a b s => some (pySlice (pyRange r.sliceLo (maxSI + r.sliceAdd) 1) a b s)

def siListX (maxSI : Int) (sel : SISelX) : Option (List Int) := siListG siRule0 maxSI sel

/-- Embedding of the first-pass selections. -/
def SISelX.ofSel : SISel → SISelX
  | .int k => .int k
  | .list ks => .list ks
  | .range a b => .range a b 1
  | .slice a b => .slice a b 1

structure SIOpts where
  rerootSoma : Bool := true
  soma : Option Int := none
  force : Bool := false
  col : Option (List (Int × Int)) := none     -- cached `strahler_index` column: (node id, value)
  relocate : Bool := false
deriving Repr

def lookupI (m : List (Int × Int)) (k : Int) (d : Int) : Int :=
  match m.find? fun p => p.1 == k with
  | some p => p.2
  | none => d

/-- The table the function works on: rerooted to the soma when asked and there is one. -/
def siTable (t : Table) (o : SIOpts) : Table :=
  match o.rerootSoma, o.soma with
  | true, some s => reroot t s
  | _, _ => t

/-- `if "strahler_index" not in neuron.nodes or force_strahler_update: strahler_index(neuron)`. -/
def siColumn (t : Table) (o : SIOpts) : Int → Int :=
  match o.col, o.force with
  | some c, false => fun i => lookupI c i 1
  | _, _ => fun i => (strahler t false [] i : Nat)

/-- The parent walk of `relocate_connectors`: `this_tn = parent_dict[node]; while this_tn >= 0 and
this_tn not in remaining: this_tn = parent_dict[this_tn]`. -/
def relocWalk (t : Table) (kept : List Int) : Nat → Int → Int
  | 0, i => i
  | fuel + 1, i =>
    if i < 0 then i else if kept.contains i then i else
    match find? t i with
    | some n => relocWalk t kept fuel n.parent
    | none => -1

/-- Connector table `(connector id, node id)` after pruning to `kept`.  (For a connector on a removed node
the walk is started at the node itself: it is not kept, so the first step goes to `parent_dict[node]`.) -/
def connAfter (t : Table) (kept : List Int) (relocate : Bool) (cn : List (Int × Int)) : List (Int × Int) :=
  if !relocate then cn.filter fun c => kept.contains c.2
  else
    (cn.map fun c => if kept.contains c.2 then c else (c.1, relocWalk t kept (t.length + 1) c.2)).filter
      fun c => kept.contains c.2

/-- `prune_by_strahler` with all its options: `(node table, connectors)`. -/
def pruneByStrahlerX (t : Table) (o : SIOpts) (sel : SISelX) (cn : List (Int × Int)) : Option (Table × List (Int × Int)) :=
  let t1 := siTable t o
  let si := siColumn t1 o
  let mx := ((ids t1).map si).foldl max 0
  match siListX mx sel with
  | none => none
  | some s =>
    let r := classify (fixOrphans (t1.filter fun n => !s.contains (si n.id)))
    some (r, connAfter t1 (ids r) o.relocate cn)

/-! ### `prune_at_depth`: `depth` number, `source` id / `None`, errors -/

def pruneAtDepthQ (t : Table) (len : Int → Int → Nat) (source : Int) (depth : Rat) : Table :=
  subset t fun i => match geo t len false source i with
    | some d => decide (((d : Nat) : Rat) ≤ depth)
    | none => false

/-- `none` = `ValueError` (`depth < 0`; source not among the nodes; no root at all). -/
def pruneAtDepthX (negCmp : Cmp) (t : Table) (len : Int → Int → Nat) (source : Option Int) (depth : Rat) : Option Table :=
  if negCmp.evalRat depth 0 then none else
  match source with
  | none => match roots t with
    | r :: _ => some (pruneAtDepthQ t len r depth)
    | [] => none
  | some s => if (ids t).contains s then some (pruneAtDepthQ t len s depth) else none

/-! ### `longest_neurite`: `n` int / slice, `reroot_soma`, `from_root`, `inverse` -/

inductive NArg where
  | int (n : Int)
  | slice (a b : Option Int) (s : Int)
deriving Repr

/-- `segments[:n]` / `segments[n]`; `none` = `ValueError` (`n <badCmp> badK`). -/
def pickSegs (badCmp : Cmp) (badK : Int) (segs : List (List Int)) : NArg → Option (List (List Int))
  | .int n => if badCmp.evalInt n badK then none else some (pySlice segs none (some n) 1)
  | .slice a b s => some (pySlice segs a b s)

/-- The node set kept, given the segment list. -/
def longestFromSegs (t : Table) (segs : List (List Int)) (inverse : Bool) : Table :=
  let keep := segs.flatten
  if inverse then subset t fun i => !keep.contains i else subset t fun i => keep.contains i

/-- End nodes for `from_root=False`: `x.nodes.type.isin(("root", "end"))`. -/
def endNodes (t : Table) : List Int :=
  (t.filter fun n => isRootNode n || childCount t n.id == 0).map (·.id)

/-- Pairwise distances between end nodes with `∞ ↦ -1` (`dists[dists == np.inf] = -1`). -/
def endDist (t : Table) (len : Int → Int → Nat) (a b : Int) : Int :=
  match geo t len false a b with
  | some d => d
  | none => -1

/-- Admissible new roots for `from_root=False`: the end nodes that are one end of a longest
tip-to-tip path (navis takes the first one in matrix order). -/
def diamStarts (t : Table) (len : Int → Int → Nat) : List Int :=
  let es := endNodes t
  let mx := (es.flatMap fun a => es.map fun b => endDist t len a b).foldl max (-1)
  es.filter fun a => es.any fun b => endDist t len a b == mx

structure LNOpts where
  rerootSoma : Bool := false
  soma : Option Int := none
  fromRoot : Bool := true
deriving Repr

/-- The table whose segments are taken, given the start chosen for `from_root=False`. -/
def lnTable (t : Table) (o : LNOpts) (start : Int) : Table :=
  if !o.fromRoot then reroot t start
  else match o.rerootSoma, o.soma with
    | true, some s => reroot t s
    | _, _ => t

def longestNeuriteX (t : Table) (len : Int → Int → Nat) (o : LNOpts) (start : Int) (n : NArg) (inverse : Bool) : Option Table :=
  let t1 := lnTable t o start
  (pickSegs .lt 1 (segments t1 len) n).map fun segs => longestFromSegs t1 segs inverse

/-! ### the greedy criterion as a checker on a segment list -/

/-- Walk from the tip `m` towards the root up to and including the first node of `cover` (or the root). -/
def tipWalk (t : Table) (cover : List Int) (m : Int) : List Int :=
  m :: walkToStop t (fun i => cover.contains i) (t.length + 1) m

/-- Tips: nodes without children (leafs and isolated roots). -/
def tips (t : Table) : List Int := (t.filter fun n => childCount t n.id == 0).map (·.id)

def isRootId (t : Table) (i : Int) : Bool :=
  match find? t i with
  | some n => decide (n.parent < 0)
  | none => false

/-- Step `k` of the greedy construction: `s` is the walk of an uncovered tip up to the cover of the
earlier segments (or its root), and no uncovered tip has a longer such walk. -/
def greedyStepB (t : Table) (len : Int → Int → Nat) (cover : List Int) (s : List Int) : Bool :=
  match s.head? with
  | none => false
  | some h =>
    (tips t).contains h && !cover.contains h && s == tipWalk t cover h &&
    (tips t).all fun m => cover.contains m || decide (pathLen len (tipWalk t cover m) ≤ pathLen len s)

def greedyOKB (t : Table) (len : Int → Int → Nat) (segs : List (List Int)) : Bool :=
  (List.range segs.length).all fun k =>
    match segs[k]? with
    | some s => greedyStepB t len (segs.take k).flatten s
    | none => false

/-! ### `prune_twigs(exact=True)` with a mask

The docstring: "only nodes that are in the mask will be considered for pruning".  A node can be cut away
(or moved) only if it and everything distal to it is masked: `inR k` iff the whole subtree of `k` is masked
and `k` is within `size` of all its tips.  Without a mask this is `exactPrune`.  This is what
`_prune_twigs_precise` computes: with a mask the Dijkstra distances to the distal leafs are taken on the
subgraph of masked nodes (`g.subgraph(mask_nodes)`), so a node is in range only if every distal leaf is reached
through masked nodes within `size`.  (Historical: before that repair only the node itself had to be masked;
unmasked nodes distal to it were removed and masked nodes below them could survive as detached roots.) -/

/-- Everything distal to `k` (including `k`) is in the mask. -/
def allBelowMasked (t : Table) (mask : Option (List Int)) (k : Int) : Bool :=
  match mask with
  | none => true
  | some m => (ids t).all fun d => !isAncestorOrSelf t k d || m.contains d

/-- `exactPrune` with an additional admissibility test on the nodes that may be cut / moved. -/
def exactPruneG (t : Table) (len : Int → Int → Nat) (size : Rat) (adm : Int → Bool) : List (Int × Int × Rat) :=
  let h : Int → Rat := fun i => (heightOf t len (t.length + 1) i : Nat)
  let inR : Int → Bool := fun i => adm i && decide (h i ≤ size)
  t.filterMap fun n =>
    if !inR n.id then some (n.id, n.parent, 0)
    else if n.parent < 0 then some (n.id, n.parent, 0)
    else if inR n.parent then none
    else
      let tau : Rat := size - h n.id
      let L : Rat := (len n.id n.parent : Nat)
      if L < tau then none
      else some (n.id, n.parent, if L = 0 then 0 else tau / L)

def exactPruneM (t : Table) (len : Int → Int → Nat) (size : Rat) (mask : Option (List Int)) : List (Int × Int × Rat) :=
  exactPruneG t len size (allBelowMasked t mask)

/-- As written (`_prune_twigs_precise`): a node is *in range* when every leaf distal to it is within
`size` of cable (Dijkstra with `cutoff=size` on the reversed graph). -/
def leavesBelow (t : Table) (k : Int) : List Int :=
  (t.filter fun n => childCount t n.id == 0 && isAncestorOrSelf t k n.id).map (·.id)

def inRangeAW (t : Table) (len : Int → Int → Nat) (size : Rat) (k : Int) : Bool :=
  (leavesBelow t k).all fun l => match distUp t len l k with
    | some d => decide (((d : Nat) : Rat) ≤ size)
    | none => false

/-! ### `drop_fluff` on skeletons: connected components by root, largest first -/

def component (t : Table) (r : Int) : List Int := (ids t).filter fun i => rootOf t i == some r

/-- Admissible results: keep the components selected by `keep_size` (minimum size, applied first)
and `n_largest`; ties among equally large components may be broken either way, so the checker accepts
a kept set iff it is a union of components, contains every component strictly larger than the
smallest kept one that meets `keep_size`, and has the right count. -/
def dropFluffOKB (t : Table) (keepSize : Nat) (nLargest : Option Nat) (kept : List Int) : Bool :=
  let comps := (roots t).map (component t)
  let elig := comps.filter fun c => decide (c.length ≥ keepSize)
  let isKept := fun (c : List Int) => c.all kept.contains
  let isDropped := fun (c : List Int) => c.all fun i => !kept.contains i
  let keptComps := comps.filter isKept
  comps.all (fun c => isKept c || isDropped c) &&
  keptComps.all (fun c => decide (c.length ≥ keepSize)) &&
  (match nLargest with
   | none => elig.all isKept
   | some k =>
     decide (keptComps.length = min k elig.length) &&
     elig.all fun c => isKept c || keptComps.all fun d => decide (c.length ≤ d.length))

end Navis.PruneX
