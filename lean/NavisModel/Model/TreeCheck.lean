import NavisModel.Model.TreeEdit
/-
C10 second pass: Lean-side *checkers* (`Bool`) that the driver evaluates on navis' own output.  Each is
proved sound (acceptance implies the property's clauses) and complete (the model's output is accepted, so
a correct implementation is never rejected) in `Props/C10.lean`.
-/
namespace Navis.TreeEdit
open Navis.Forest

/-- `(id, x, y, z)` of every row, in table order. -/
def coordRows (t : Table) : List (Int × Int × Int × Int) := t.map fun n => (n.id, n.x, n.y, n.z)

/-- The rows of `t` whose node is not on the path `r → root`. -/
def offPathRows (t : Table) (r : Int) : Table := t.filter fun n => !(rootPath t r).contains n.id

/-- **Checker for one reroot**: `t'` is an admissible result of rerooting `t` to `r` — same ids and coordinates
row by row, a well-formed forest with correct labels, the same undirected edges, `r` is a root, and every row
off the path `r → old root` (in particular every other tree) is literally unchanged. -/
def rerootOKB (t t' : Table) (r : Int) : Bool :=
  coordRows t' == coordRows t && wfB t' && labelsOKB t' && (uedges t').isPerm (uedges t) &&
    (roots t').contains r && (offPathRows t r).all (fun n => t'.contains n)

/-- The specified fragments of cutting the single tree `t` (root `ρ`) at the nodes `cs`. -/
def specFragments (t : Table) (ρ : Int) (cs : List Int) : List Table :=
  (ρ :: cs).map fun τ => subset t (fragKeep t cs τ)

/-- **Checker for several cuts**: `frags` are exactly the specified fragments (in any order). -/
def fragsOKB (t : Table) (ρ : Int) (cs : List Int) (frags : List Table) : Bool :=
  frags.isPerm (specFragments t ρ cs)

/-- **Checker for a subset**: `t'` has exactly the requested ids that exist (in table order), unchanged
coordinates, the original parent wherever it survives and `-1` otherwise, and correct labels. -/
def subsetOKB (t t' : Table) (keep : Int → Bool) : Bool :=
  ids t' == (ids t).filter keep && labelsOKB t' &&
    t'.all fun m => match find? t m.id with
      | none => false
      | some n => m.x == n.x && m.y == n.y && m.z == n.z &&
          m.parent == (if ((ids t).filter keep).contains n.parent then n.parent else -1)

end Navis.TreeEdit
