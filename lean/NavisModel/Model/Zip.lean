/-
Model of `navis.core.core_utils.NeuronProcessor.__call__` (argument zipping, ordered map,
failure filtering) and of the `map_neuronlist` decorator's validation (C09).
-/
namespace Navis.Zip

/-- A call argument: a scalar (not iterable) or an iterable of values. -/
inductive Arg (β : Type) where
  | scalar : β → Arg β
  | many : List β → Arg β
deriving Repr, DecidableEq

/-- What neuron `i` of `n` receives for argument `a`
(`excluded` = its position/keyword is listed in `exclude_zip`). -/
def parseArg {β} (n i : Nat) (excluded : Bool) (a : Arg β) : Arg β :=
  if excluded then a else
  match a with
  | .scalar v => .scalar v
  | .many vs => if vs.length ≠ n then .many vs else
      match vs[i]? with
      | some v => .scalar v
      | none => .many vs

/-- Per-neuron argument vectors: `parsed_args[i]`. -/
def parseArgs {β} (n : Nat) (args : List (Bool × Arg β)) : List (List (Arg β)) :=
  (List.range n).map fun i => args.map fun (ex, a) => parseArg n i ex a

/-- Result of one run: `none` = `FailedRun`. -/
abbrev Res (γ : Type) := Option γ

/-- Serial / parallel branch alike: ordered map of `f` over `(neuron, parsed args)` pairs,
then `FailedRun`s are filtered out. With `omit = false` the first failure aborts the call. -/
def process {ν β γ} (f : ν → List (Arg β) → Res γ) (nl : List ν) (args : List (Bool × Arg β))
    (omitF : Bool) : Option (List γ) :=
  let runs := (nl.zip (parseArgs nl.length args)).map fun (x, a) => f x a
  if omitF then some (runs.filterMap id)
  else if runs.all Option.isSome then some (runs.filterMap id) else none

/-- The parallel branch as pathos' ordered `imap` performs it: the triples are cut into
consecutive chunks of `cs` items, every chunk is mapped by some worker, and the chunk results are
yielded in submission order. -/
def chunks {α} (cs : Nat) (xs : List α) : List (List α) :=
  if h : cs = 0 ∨ xs = [] then (if xs = [] then [] else [xs]) else
    xs.take cs :: chunks cs (xs.drop cs)
termination_by xs.length
decreasing_by
  simp only [not_or] at h
  have : xs.length ≠ 0 := by intro h0; exact h.2 (List.length_eq_zero_iff.mp h0)
  simp [List.length_drop]; omega

def processParallel {ν β γ} (f : ν → List (Arg β) → Res γ) (nl : List ν)
    (args : List (Bool × Arg β)) (omitF : Bool) (cs : Nat) : Option (List γ) :=
  let triples := nl.zip (parseArgs nl.length args)
  let runs := ((chunks cs triples).map fun ch => ch.map fun (x, a) => f x a).flatten
  if omitF then some (runs.filterMap id)
  else if runs.all Option.isSome then some (runs.filterMap id) else none

/-- `map_neuronlist` validation of a `can_zip` keyword: present, not None, iterable ⇒ length must match. -/
def canZipOk {β} (n : Nat) : Option (Arg β) → Bool
  | none => true
  | some (.scalar _) => true
  | some (.many vs) => vs.length = n

/-- `must_zip`: `make_iterable(v)` must have one value per neuron. -/
def mustZipOk {β} (n : Nat) : Option (Arg β) → Bool
  | none => true
  | some (.scalar _) => n = 1
  | some (.many vs) => vs.length = n

/-! ## Extensions (second pass): `NeuronProcessor.__call__` and `map_neuronlist` as written

`NeuronList.apply` calls `proc(self.neurons, **kwargs)`, `map_neuronlist` calls `proc(nl, *args, **kwargs)`:
the neuron list is itself positional argument 0 and is matched to the neurons by the same
`len == n ⇒ a[i]` rule as every other argument.  Positions / keywords listed in `exclude_zip` are passed
whole.  Values are classified by what `utils.is_iterable`, `len()` and `a[i]` do with them. -/

/-- A Python value as the zip rule sees it. -/
inductive Val (β : Type) where
  | pyNone                                  -- `None`
  | atom (v : β)                            -- not iterable for navis: numbers, `str`, `DataFrame`
  | seq (vs : List β)                       -- list / tuple / ndarray / NeuronList: `len`, positional `[i]`
  | dict (kvs : List (Nat × β)) (others : Nat)  -- dict: `len` = number of keys, `[i]` = key lookup
  | unsized                                 -- iterable without `len()` (generator): `len(a)` raises
  | unindexable (len : Nat)                 -- set: `len()` works, `a[i]` raises
deriving Repr, DecidableEq

/-- `utils.is_iterable`. -/
def Val.isIterable {β} : Val β → Bool
  | .pyNone => false | .atom _ => false | _ => true

/-- `len(a)`; `none` = raises. -/
def Val.len? {β} : Val β → Option Nat
  | .seq vs => some vs.length
  | .dict kvs o => some (kvs.length + o)
  | .unindexable k => some k
  | _ => none

/-- `a[i]`; `none` = raises (`KeyError`, `TypeError`, `IndexError`). -/
def Val.index? {β} : Val β → Nat → Option β
  | .seq vs, i => vs[i]?
  | .dict kvs _, i => kvs.lookup i
  | _, _ => none

/-- The three-way rule of `__call__` for one argument of neuron `i` of `n`; `none` = the call raises
while the arguments are being parsed (before any neuron is processed, whatever `omit_failures` says). -/
def parseVal {β} (n i : Nat) (excluded : Bool) (a : Val β) : Option (Val β) :=
  if excluded then some a
  else if !a.isIterable then some a
  else match a.len? with
    | none => none
    | some l => if l ≠ n then some a else (a.index? i).map .atom

/-- What one call receives. `first` is positional argument 0: the neuron itself, or — if position 0 were
excluded from zipping — the whole list. -/
structure Call (ν β : Type) where
  first : ν ⊕ List ν
  args : List (Val β)
  kwargs : List (String × Val β)
deriving Repr

/-- positional argument 0 of neuron `i`. -/
def parseFirst {ν} (nl : List ν) (exclPos : List Nat) (i : Nat) : Option (ν ⊕ List ν) :=
  if 0 ∈ exclPos then some (.inr nl) else (nl[i]?).map .inl

/-- `parsed_args[i]`, `parsed_kwargs[i]` (positions count from 0 = the neuron list). -/
def parseCall {ν β} (nl : List ν) (exclPos : List Nat) (exclKw : List String)
    (args : List (Val β)) (kwargs : List (String × Val β)) (i : Nat) : Option (Call ν β) :=
  match parseFirst nl exclPos i,
        (args.zipIdx 1).mapM (fun ak => parseVal nl.length i (decide (ak.2 ∈ exclPos)) ak.1),
        kwargs.mapM (fun kv => (parseVal nl.length i (decide (kv.1 ∈ exclKw)) kv.2).map fun v' => (kv.1, v')) with
  | some first, some as, some kws => some ⟨first, as, kws⟩
  | _, _, _ => none

/-- Ordered runs → result (shared tail of both branches). -/
def collect {γ} (runs : List (Res γ)) (omitF : Bool) : Option (List γ) :=
  if omitF then some (runs.filterMap id)
  else if runs.all Option.isSome then some (runs.filterMap id) else none

/-- `NeuronProcessor.__call__`, serial branch. `f i` is `self.funcs[i]` (one function per neuron, or the
same function for all).  Outer `none` = the call raises. -/
def processW {ν β γ} (f : Nat → Call ν β → Res γ) (nl : List ν) (exclPos : List Nat) (exclKw : List String)
    (args : List (Val β)) (kwargs : List (String × Val β)) (omitF : Bool) : Option (List γ) :=
  match (List.range nl.length).mapM (parseCall nl exclPos exclKw args kwargs) with
  | none => none
  | some calls => collect (calls.zipIdx.map fun p => f p.2 p.1) omitF

/-- … parallel branch: ordered `imap` over `zip(funcs, parsed_args, parsed_kwargs)` with a chunk size. -/
def processWParallel {ν β γ} (f : Nat → Call ν β → Res γ) (nl : List ν) (exclPos : List Nat) (exclKw : List String)
    (args : List (Val β)) (kwargs : List (String × Val β)) (omitF : Bool) (cs : Nat) : Option (List γ) :=
  match (List.range nl.length).mapM (parseCall nl exclPos exclKw args kwargs) with
  | none => none
  | some calls => collect (((chunks cs calls.zipIdx).map fun ch => ch.map fun p => f p.2 p.1).flatten) omitF

/-! ### What is returned -/

/-- One result of the mapped function. -/
inductive Ret (ν γ : Type) where
  | neuron (x : ν)
  | neurons (xs : List ν)     -- a NeuronList
  | nothing                   -- `None`
  | other (v : γ)
deriving Repr, DecidableEq

inductive Out (ν γ : Type) where
  | neuronlist (xs : List ν)  -- `self.nl.__class__(utils.unpack_neurons(res))`
  | nothing                   -- all results `None`
  | list (rs : List (Ret ν γ))
deriving Repr, DecidableEq

def Ret.isNeuron {ν γ} : Ret ν γ → Bool
  | .neuron _ => true | .neurons _ => true | _ => false

def Ret.isNothing {ν γ} : Ret ν γ → Bool
  | .nothing => true | _ => false

def Ret.unpack {ν γ} : Ret ν γ → List ν
  | .neuron x => [x] | .neurons xs => xs | _ => []

/-- The tail of `__call__` (note the order of the tests: an empty result list is an empty NeuronList). -/
def finish {ν γ} (rs : List (Ret ν γ)) : Out ν γ :=
  if rs.all Ret.isNeuron then .neuronlist (rs.flatMap Ret.unpack)
  else if rs.all Ret.isNothing then .nothing
  else .list rs

/-! ### `map_neuronlist` -/

structure MapCfg where
  canZip : List String
  mustZip : List String
  allowParallel : Bool
  sigHasInplace : Bool
  sigInplaceDefault : Bool
deriving Repr

/-- `len(make_iterable(v))`: scalars and strings become one-element arrays, dicts/sets their keys. -/
def Val.makeIterableLen {β} : Val β → Option Nat
  | .pyNone => some 1 | .atom _ => some 1
  | .seq vs => some vs.length
  | .dict kvs o => some (kvs.length + o)
  | .unindexable k => some k
  | .unsized => none

structure MapPlan where
  exclPos : List Nat
  exclKw : List String
  passed : List String      -- the keywords that reach the function
  forceInplace : Bool       -- `kwargs["inplace"] = True`
  swapInplace : Bool        -- `nl.neurons = res.neurons` and `nl` itself is returned
  omitFailures : Bool
deriving Repr, DecidableEq

inductive MapErr where
  | noParallel | canZipLen | mustZipLen | typeError
deriving Repr, DecidableEq

/-- The wrapper up to the call of the processor, for a NeuronList of `n` neurons, `nargs` further
positional arguments and the given keywords (`inplaceKw` = truthiness of an explicit `inplace=`,
`omitKw` of `omit_failures=`). -/
def mapNeuronlist {β} (cfg : MapCfg) (n nargs : Nat) (kwargs : List (String × Val β)) (parallel : Bool)
    (inplaceKw : Option Bool) (omitKw : Option Bool) : Except MapErr MapPlan :=
  if parallel && !cfg.allowParallel then .error .noParallel else
  -- can_zip: present, not None, iterable ⇒ len must match
  let canBad := cfg.canZip.filterMap fun p => match kwargs.lookup p with
    | none => none
    | some .pyNone => none
    | some v => if v.isIterable then (match v.len? with
        | none => some MapErr.typeError
        | some l => if l ≠ n then some MapErr.canZipLen else none) else none
  match canBad with
  | e :: _ => .error e
  | [] =>
  let mustBad := cfg.mustZip.filterMap fun p => match kwargs.lookup p with
    | none => none
    | some .pyNone => none
    | some v => match v.makeIterableLen with
      | none => some MapErr.typeError
      | some l => if l ≠ n then some MapErr.mustZipLen else none
  match mustBad with
  | e :: _ => .error e
  | [] =>
  let inplace := match inplaceKw with
    | some b => b
    | none => if cfg.sigHasInplace then cfg.sigInplaceDefault else false
  let force := parallel && cfg.sigHasInplace
  -- `n_cores`, `chunksize` are popped before `excl` is computed, `progress`, `omit_failures` after
  let kws := (kwargs.map (·.1)).filter fun k => k != "n_cores" && k != "chunksize"
  let kws := if force && !kws.contains "inplace" then kws ++ ["inplace"] else kws
  let exclKw := kws.filter fun k => !cfg.canZip.contains k && !cfg.mustZip.contains k
  .ok { exclPos := List.range' 1 nargs, exclKw := exclKw,
        passed := kws.filter fun k => k != "progress" && k != "omit_failures",
        forceInplace := force, swapInplace := inplace, omitFailures := omitKw.getD false }

/-! ### `map_neuronlist_df` (functions returning one DataFrame per neuron, e.g. `segment_analysis`)

As written since fix 88dbed7 (`NeuronProcessor.__call__` records `self.failed` before dropping the failed runs):

    res = proc(nl, *args, **kwargs)                 # failed runs already filtered out
    ok = [n for n, failed in zip(nl, proc.failed) if not failed]
    for n, df in zip(ok, res): df.insert(0, column=id_col, value=n.id)
    df = pd.concat(res, axis=0)                                                        -/

/-- `proc.failed`: one flag per run. -/
def failedFlags {γ} (runs : List (Res γ)) : List Bool := runs.map Option.isNone

/-- `[n for n, failed in zip(nl, proc.failed) if not failed]`. -/
def survivors {ν} (nl : List ν) (failed : List Bool) : List ν :=
  (nl.zip failed).filterMap fun p => if p.2 then none else some p.1

/-- The labelled frames: `(neuron whose id is written into the frame, frame)`; `none` = raises
(a failing run without `omit_failures`, or `pd.concat([])` when no frame is left). -/
def mapDfW {ν γ} (f : ν → Res γ) (nl : List ν) (omitF : Bool) : Option (List (ν × γ)) :=
  (collect (nl.map f) omitF).bind fun res =>
    if res.isEmpty then none else some ((survivors nl (failedFlags (nl.map f))).zip res)

/-- HISTORICAL (before fix 88dbed7): the frames were zipped with the *unfiltered* list, `zip(nl, res)`.
Kept only as a witness of the repaired defect and as the meaning of a reverted source. -/
def mapDfPreFix {ν γ} (f : ν → Res γ) (nl : List ν) (omitF : Bool) : Option (List (ν × γ)) :=
  (collect (nl.map f) omitF).bind fun res => if res.isEmpty then none else some (nl.zip res)

/-- What the translator reads off `map_neuronlist_df` / `NeuronProcessor.__call__`. -/
structure DfFacts where
  zipPartner : String          -- "survivors" | "list" : what the result frames are zipped with
  survivorsFilterNotFailed : Bool   -- the comprehension keeps `n` when `not failed`, over `zip(<list>, proc.failed)`
  procRecordsFailed : Bool     -- `self.failed = <FailedRun flags of the unfiltered results>` before they are dropped
  labelsWithOwnId : Bool       -- `df.insert(0, column=id_col, value=n.id)` for the zipped `n`
deriving Repr, DecidableEq

/-- `map_neuronlist_df` as the extracted facts say it labels. -/
def mapDfOf {ν γ} (d : DfFacts) (f : ν → Res γ) (nl : List ν) (omitF : Bool) : Option (List (ν × γ)) :=
  if d.zipPartner == "survivors" && d.survivorsFilterNotFailed && d.procRecordsFailed && d.labelsWithOwnId
  then mapDfW f nl omitF else mapDfPreFix f nl omitF

/-! ### The in-place swap at the end of `map_neuronlist`

    if inplace:                    # <- `swapGuard`
        nl.neurons = res.neurons   #    the input list object is kept, its members become the results
    else:                          # <- `elseGuard = none` (a plain `else`)
        nl = res
    return nl                                                                              -/

/-- Boolean tests over the wrapper's two flags, as extracted from the source. -/
inductive BE where
  | inplace | parallel | tt | ff
  | not (e : BE)
  | and (a b : BE)
  | or (a b : BE)
deriving Repr, DecidableEq

def BE.eval (inplace parallel : Bool) : BE → Bool
  | .inplace => inplace
  | .parallel => parallel
  | .tt => true
  | .ff => false
  | .not e => !(e.eval inplace parallel)
  | .and a b => a.eval inplace parallel && b.eval inplace parallel
  | .or a b => a.eval inplace parallel || b.eval inplace parallel

structure SwapFacts where
  swapGuard : BE                -- test of the branch that executes `nl.neurons = res.neurons`
  elseGuard : Option BE         -- `none`: plain `else: nl = res`; `some g`: `elif g: nl = res`
  swapAssignsResultNeurons : Bool   -- the guarded statement is `<list>.neurons = <result>.neurons`
  elseReturnsResult : Bool      -- the other branch is `<list> = <result>`; the wrapper returns `<list>`
deriving Repr, DecidableEq

/-- Which branch runs: `some true` = members swapped into the input list, which is returned;
`some false` = the result list is returned; `none` = neither (the input list is returned untouched). -/
def swapOf (sf : SwapFacts) (inplace parallel : Bool) : Option Bool :=
  if sf.swapGuard.eval inplace parallel then some true
  else match sf.elseGuard with
    | none => some false
    | some g => if g.eval inplace parallel then some false else none

/-- Observable outcome of the wrapper for an input list with members `nl` and processor result `res`
(the survivors' results, in order): (is the returned object the input list?, members of the returned list,
members of the input list afterwards). -/
def swapOutcome {ν} (branch : Option Bool) (nl res : List ν) : Bool × List ν × List ν :=
  match branch with
  | some true => (true, res, res)
  | some false => (false, res, nl)
  | none => (true, nl, nl)

end Navis.Zip
