/-
Model of `navis.core.core_utils.NeuronProcessor.__call__` (argument zipping, ordered map,
failure filtering) and of the `map_neuronlist` decorator's validation (C09).
-/
namespace Navis.Zip

/-- A call argument: a scalar (not iterable) or an iterable of values. -/
inductive Arg (β : Type) where
  | scalar : β → Arg β
  | many : List β → Arg β
deriving Repr, DecidableEq

/-- What neuron `i` of `n` receives for argument `a`
(`excluded` = its position/keyword is listed in `exclude_zip`). -/
def parseArg {β} (n i : Nat) (excluded : Bool) (a : Arg β) : Arg β :=
  if excluded then a else
  match a with
  | .scalar v => .scalar v
  | .many vs => if vs.length ≠ n then .many vs else
      match vs[i]? with
      | some v => .scalar v
      | none => .many vs

/-- Per-neuron argument vectors: `parsed_args[i]`. -/
def parseArgs {β} (n : Nat) (args : List (Bool × Arg β)) : List (List (Arg β)) :=
  (List.range n).map fun i => args.map fun (ex, a) => parseArg n i ex a

/-- Result of one run: `none` = `FailedRun`. -/
abbrev Res (γ : Type) := Option γ

/-- Serial / parallel branch alike: ordered map of `f` over `(neuron, parsed args)` pairs,
then `FailedRun`s are filtered out. With `omit = false` the first failure aborts the call. -/
def process {ν β γ} (f : ν → List (Arg β) → Res γ) (nl : List ν) (args : List (Bool × Arg β))
    (omitF : Bool) : Option (List γ) :=
  let runs := (nl.zip (parseArgs nl.length args)).map fun (x, a) => f x a
  if omitF then some (runs.filterMap id)
  else if runs.all Option.isSome then some (runs.filterMap id) else none

/-- The parallel branch as pathos' ordered `imap` performs it: the triples are cut into
consecutive chunks of `cs` items, every chunk is mapped by some worker, and the chunk results are
yielded in submission order. -/
def chunks {α} (cs : Nat) (xs : List α) : List (List α) :=
  if h : cs = 0 ∨ xs = [] then (if xs = [] then [] else [xs]) else
    xs.take cs :: chunks cs (xs.drop cs)
termination_by xs.length
decreasing_by
  simp only [not_or] at h
  have : xs.length ≠ 0 := by intro h0; exact h.2 (List.length_eq_zero_iff.mp h0)
  simp [List.length_drop]; omega

def processParallel {ν β γ} (f : ν → List (Arg β) → Res γ) (nl : List ν)
    (args : List (Bool × Arg β)) (omitF : Bool) (cs : Nat) : Option (List γ) :=
  let triples := nl.zip (parseArgs nl.length args)
  let runs := ((chunks cs triples).map fun ch => ch.map fun (x, a) => f x a).flatten
  if omitF then some (runs.filterMap id)
  else if runs.all Option.isSome then some (runs.filterMap id) else none

/-- `map_neuronlist` validation of a `can_zip` keyword: present, not None, iterable ⇒ length must match. -/
def canZipOk {β} (n : Nat) : Option (Arg β) → Bool
  | none => true
  | some (.scalar _) => true
  | some (.many vs) => vs.length = n

/-- `must_zip`: `make_iterable(v)` must have one value per neuron. -/
def mustZipOk {β} (n : Nat) : Option (Arg β) → Bool
  | none => true
  | some (.scalar _) => n = 1
  | some (.many vs) => vs.length = n

end Navis.Zip
