import NavisModel.Model.OpsAll
import NavisModel.Model.ResampleSkip
/-!
# C01, second layer: skeleton *states* (node table + soma bookkeeping) and the remaining constructors

`OpAll` (`Model/OpsAll.lean`) is a language of operations on node tables.  This file adds

* the soma bookkeeping of `TreeNeuron` as a state component: how `_soma` is stored (detection function /
  nothing / one fixed id / several fixed ids), the `.soma` getter, the clean-up at the end of
  `TreeNeuron._clear_temp_attr` and `_subset_treeneuron`, the re-attachment `resample_skeleton` performs,
  the validating setter;
* table-level constructors that `OpAll` lacks: `resample_skeleton` with any interpolation `method` and
  `skip_errors` (`Model/ResampleSkip.lean`), construction from a graph / edge list (`nx2neuron`,
  `edges2neuron`, `TreeNeuron(nx.Graph | (vertices, edges))`), assignment of a node table (`x.nodes = df`,
  `TreeNeuron(DataFrame)`, `read_swc`), and the operations that leave ids and parents alone (arithmetic,
  smoothing, copy, pickle);
* the step function of the state language and the executable existence check `somaOKB`.

Import-free (core Lean + `Model/*`), total, computable.
-/
namespace Navis.Forest

/-! ## soma bookkeeping -/

/-- The content of `TreeNeuron._soma`. -/
inductive Soma where
  /-- a callable (default `morpho.find_soma`): detection on the current node table at every read -/
  | detect
  | none
  /-- one fixed node id (`x.soma = id`, or pinned by `resample_skeleton` from a scalar) -/
  | one (i : Int)
  /-- a list / array of fixed ids (pinned by `resample_skeleton` from a detection result) -/
  | many (l : List Int)
deriving Repr, DecidableEq

/-- A skeleton state: node table, stored soma, and the ids the detection function would flag on the
current table (`thick`: radius / label test — the radius column is not part of `Node`). -/
structure St where
  nodes : Table
  soma : Soma := .detect
  thick : List Int := []
deriving Repr

/-- `find_soma`: ids are read off the node table itself (`x.nodes.node_id.values[mask]`). -/
def detected (t : Table) (thick : List Int) : List Int := (ids t).filter fun i => thick.contains i

/-- The `.soma` getter: `none` = `None`.  A fixed id that is absent gives `None`; a fixed *list* gives
`None` only when NO member is present (`not any(self.nodes.node_id.isin(soma))`) and is otherwise returned
as it is stored — stale members included.  That members of a stored list exist is therefore an invariant
the operations have to maintain (`SomaOK`). -/
def report (s : St) : Option (List Int) :=
  match s.soma with
  | .detect => if (detected s.nodes s.thick).isEmpty then none else some (detected s.nodes s.thick)
  | .none => none
  | .one i => if (ids s.nodes).contains i then some [i] else none
  | .many l => if l.isEmpty then none else if l.any (fun i => (ids s.nodes).contains i) then some l else none

/-- The soma clean-up at the end of `TreeNeuron._clear_temp_attr` (and, equivalently, in
`_subset_treeneuron`): a stored list is filtered to the ids still present (`np.asarray(_soma)[np.isin(…)]`,
reset when nothing is left), a stored id is reset when absent, a detection function is left alone. -/
def filterSoma (t : Table) : Soma → Soma
  | .many l => if (l.filter fun i => (ids t).contains i).isEmpty then .none else .many (l.filter fun i => (ids t).contains i)
  | .one i => if (ids t).contains i then .one i else .none
  | s => s

/-- The clean-up in `_subset_treeneuron` (every operation implemented through `subset_neuron`: cutting, twig /
depth / longest-neurite pruning, fragments, `drop_fluff`, `cell_body_fiber`, …).  Its guard
`x._soma is not None and not callable(x._soma)` leaves a stored detection function alone, lists and ids are
treated exactly as in `filterSoma`.  (Until the repair recorded in the C01 findings the guard lacked the
`callable` test: `<function> not in node_ids` is true, so a detection function was replaced by `None` and
every subset-based operation lost the default soma detection.) -/
def filterSomaSubset (t : Table) : Soma → Soma
  | .detect => .detect
  | s => filterSoma t s

/-- `new_nodes.node_id.values[ix]` for the nearest-neighbour index `ix = nn i` (cKDTree, external): some id
of the new table. -/
def pickId (t' : Table) (nn : Int → Nat) (i : Int) : Int := ((ids t')[nn i % t'.length]?).getD (-1)

/-- `resample_skeleton`: "we will go for the easy option which is to pin the soma at this point" — the
reported soma of the OLD skeleton is mapped to the nearest new nodes and stored as fixed id(s); a skeleton
that reports no soma gets `x.soma = None`. -/
def pinSoma (s : St) (t' : Table) (nn : Int → Nat) : Soma :=
  match report s with
  | none => .none
  | some l =>
    match s.soma with
    | .one _ => .one (pickId t' nn (l.headD (-1)))
    | _ => .many (l.map (pickId t' nn))

/-- The invariant behind "the soma it reports is always a node that exists". -/
def SomaOK (t : Table) : Soma → Prop
  | .many l => ∀ i ∈ l, i ∈ ids t
  | _ => True

def somaOKStoredB (t : Table) : Soma → Bool
  | .many l => l.all fun i => (ids t).contains i
  | _ => true

/-- Executable oracle clause, evaluated on the implementation's reported soma and table. -/
def somaOKB (t : Table) (reported : List Int) : Bool := reported.all fun i => (ids t).contains i

/-! ## table-level constructors missing from `OpAll` -/

/-- Isolated nodes: what `nx2neuron` / `edges2neuron` start from before the parents are derived. -/
def isoTable (verts : List Int) : Table := verts.map fun i => ({ id := i, parent := -1 } : Node)

/-- Construction from an undirected graph / edge list: the parent of every node is derived by traversal
(`nx.predecessor(sg, r)` per connected component; for a forest the parent map from a given root is unique).
Each component is rooted at the first of its nodes in `roots ++ verts` (`nx2neuron`: the requested `root`
or `list(sg.nodes)[0]`; `edges2neuron`: an arbitrary member, `cc.pop()`).  Edges with an end outside
`verts` are ignored. -/
def fromEdges (verts : List Int) (E : List (Int × Int)) (roots : List Int) : Table :=
  let t := isoTable verts
  let E' := E.filter fun e => (ids t).contains e.1 && (ids t).contains e.2
  classify (Heal.reparent t (Heal.traverse E' t.length (roots.filter (fun r => (ids t).contains r) ++ ids t)))

inductive OpX where
  /-- every constructor of the catalogue `OpAll` -/
  | base (op : OpAll)
  /-- `resample_skeleton(x, …, method=…, skip_errors=True)`: per-segment outcomes as a table -/
  | resampleSkip (acts : List (List Int × Resample.SegAct))
  /-- construction from a graph / edge list (replaces the running table) -/
  | fromEdges (verts : List Int) (E : List (Int × Int)) (roots : List Int)
  /-- `x.nodes = df` / `TreeNeuron(df)` / `read_swc`: a given table is validated, taken over and classified -/
  | setNodes (t' : Table)
  /-- arithmetic, `smooth_skeleton`, `despike_skeleton`, `guess_radius`, `copy`, pickling: ids, parents
  and labels are not touched (`_clear_temp_attr(exclude=['classify_nodes'])`) -/
  | touch
deriving Repr

def applyX (len : Int → Int → Nat) (t : Table) : OpX → Table
  | .base op => applyAll len t op
  | .resampleSkip acts => Resample.resampleSkip t (Resample.actTable acts)
  | .fromEdges verts E roots => fromEdges verts E roots
  | .setNodes t' => classify t'
  | .touch => t

/-- Foreign inputs of an operation that must themselves be well-formed (checked at run time by `okB`):
the skeletons stitched in, the vertex list a graph is built on (distinct non-negative ids), an assigned
table. -/
def OpX.okB : OpX → Bool
  | .base op => op.okB
  | .fromEdges verts _ _ => wfB (isoTable verts)
  | .setNodes t' => wfB t'
  | _ => true

/-! ## the state language -/

/-- How an operation treats the stored soma. -/
inductive SomaAct where
  /-- ends in `TreeNeuron._clear_temp_attr()` -/
  | filter
  /-- goes through `_subset_treeneuron` (its own clean-up, then usually `_clear_temp_attr()` as well) -/
  | subset
  /-- calls `subset_neuron` only when something is removed (`prune_twigs`: `if len(nodes_to_keep) < n_nodes`;
  `heal_skeleton(drop_disc=True)`: `if len(trees) > 1`), otherwise only `_clear_temp_attr()` -/
  | subsetIfShrunk
  /-- `resample_skeleton`: re-attach to the nearest new nodes, then `_clear_temp_attr()` -/
  | pin
  /-- a new neuron object is built (`nx2neuron`, `edges2neuron`, `read_swc`): default detection function -/
  | fresh
deriving Repr, DecidableEq

def OpAll.somaAct : OpAll → SomaAct
  | .resample _ | .resampleCounts _ => .pin
  | .subset _ | .cutDistal _ | .cutProximal _ | .cutFragment _ _ | .pruneAtDepth _ _
  | .longestNeurite _ _ _ | .keepFragment _ _ | .dropFluff _ _ => .subset
  | .pruneTwigs _ _ _ | .healDrop _ => .subsetIfShrunk
  | _ => .filter

def OpX.somaAct : OpX → SomaAct
  | .base op => op.somaAct
  | .resampleSkip _ => .pin
  | .fromEdges _ _ _ => .fresh
  | _ => .filter

/-- Soma after an operation that produced the table `t'` from the state `s`. -/
def stepSoma (s : St) (t' : Table) (nn : Int → Nat) : SomaAct → Soma
  | .filter => filterSoma t' s.soma
  | .subset => filterSoma t' (filterSomaSubset t' s.soma)
  | .subsetIfShrunk =>
    if t'.length < s.nodes.length then filterSoma t' (filterSomaSubset t' s.soma) else filterSoma t' s.soma
  | .pin => filterSoma t' (pinSoma s t' nn)
  | .fresh => .detect

/-- A step of the state language: a table operation (with the nearest-neighbour map `nn` resampling
uses and the detection result `thick'` on the new table), `x.soma = v` (the setter validates: an absent id
raises and leaves the state alone), or `x.soma = None`. -/
inductive OpS where
  | tab (op : OpX) (nn : Int → Nat) (thick' : List Int)
  | setSoma (v : Int)
  | clearSoma

def stepS (len : Int → Int → Nat) (s : St) : OpS → St
  | .tab op nn thick' =>
    let t' := applyX len s.nodes op
    { nodes := t', soma := stepSoma s t' nn op.somaAct, thick := thick' }
  | .setSoma v => if (ids s.nodes).contains v then { s with soma := .one v } else s
  | .clearSoma => { s with soma := .none }

def OpS.okB : OpS → Bool
  | .tab op _ _ => op.okB
  | _ => true

end Navis.Forest
