import NavisModel.Model.Forest
/-
Tree distances and segment decompositions by their *definitions* (C05): walk parent links, sum edge
lengths.  `len a b` is the length of the edge between nodes `a` and `b` (symmetric; the driver
instantiates it with the exact integer Euclidean length, or with `1` for `weight=None`).
-/
namespace Navis.Forest

/-- Sum of edge lengths along a list of consecutive nodes. -/
def pathLen (len : Int → Int → Nat) : List Int → Nat
  | a :: b :: rest => len a b + pathLen len (b :: rest)
  | _ => 0

/-- Prefix of `l` up to and including the first occurrence of `b` (`none` if absent). -/
def uptoIncl (b : Int) : List Int → Option (List Int)
  | [] => none
  | a :: rest => if a = b then some [a] else (uptoIncl b rest).map (a :: ·)

/-- Distance from `a` up to its ancestor-or-self `b` (`none` when `b` is not on `a`'s root path). -/
def distUp (t : Table) (len : Int → Int → Nat) (a b : Int) : Option Nat :=
  (uptoIncl b (rootPath t a)).map (pathLen len)

/-- Lowest common ancestor: first node on `a`'s root path that also lies on `b`'s. -/
def lca (t : Table) (a b : Int) : Option Int :=
  let pb := rootPath t b
  (rootPath t a).find? fun i => pb.contains i

/-- Geodesic distance (`none` = infinity). Directed: finite iff `b` is an ancestor-or-self of `a`. -/
def geo (t : Table) (len : Int → Int → Nat) (directed : Bool) (a b : Int) : Option Nat :=
  if directed then distUp t len a b
  else match lca t a b with
    | none => none
    | some l => match distUp t len a l, distUp t len b l with
      | some x, some y => some (x + y)
      | _, _ => none

/-- `limit`: distances strictly above the limit become infinity. -/
def applyLimit (limit : Option Nat) (d : Option Nat) : Option Nat :=
  match limit, d with
  | some l, some v => if v > l then none else some v
  | _, d => d

def geoMatrix (t : Table) (len : Int → Int → Nat) (directed : Bool) (limit : Option Nat)
    (rows cols : List Int) : List (List (Option Nat)) :=
  rows.map fun a => cols.map fun b => applyLimit limit (geo t len directed a b)

def distToRoot (t : Table) (len : Int → Int → Nat) (i : Int) : Nat := pathLen len (rootPath t i)

/-- Cable length = sum over non-root rows of the child–parent edge length. -/
def cable (t : Table) (len : Int → Int → Nat) : Nat :=
  ((t.filter fun n => !isRootNode n).map fun n => len n.id n.parent).sum

/-- Adjacency: `adj a b` iff `b` is the parent of `a`. -/
def adjacent (t : Table) (a b : Int) : Bool :=
  match find? t a with
  | some n => decide (0 ≤ n.parent) && n.parent == b
  | none => false

/-! ### small segments (`_break_segments`) -/

/-- Continue from `i` (already emitted) towards the root until a stop node has been emitted. -/
def walkToStop (t : Table) (isStop : Int → Bool) : Nat → Int → List Int
  | 0, _ => []
  | fuel + 1, i =>
    match find? t i with
    | none => []
    | some n =>
      if n.parent < 0 then [] else
      if isStop n.parent then [n.parent] else n.parent :: walkToStop t isStop fuel n.parent

def isBranchOrRoot (t : Table) (i : Int) : Bool :=
  match find? t i with
  | some n => n.parent < 0 || childCount t i > 1
  | none => true

/-- Seeds: non-root leafs and branch points; each walks to the next branch point or root. -/
def smallSegments (t : Table) : List (List Int) :=
  (t.filter fun n => !isRootNode n && childCount t n.id != 1).map fun n =>
    n.id :: walkToStop t (isBranchOrRoot t) (t.length + 1) n.id

/-! ### greedy longest segments (`_generate_segments`) -/

/-- Walk from `i` towards the root, adding every parent; stop after adding an already seen one.
Returns the sequence (without the start) and the updated `seen`. -/
def walkSeen (t : Table) : Nat → Int → List Int → List Int × List Int
  | 0, _, seen => ([], seen)
  | fuel + 1, i, seen =>
    match find? t i with
    | none => ([], seen)
    | some n =>
      if n.parent < 0 then ([], seen) else
      if seen.contains n.parent then ([n.parent], seen)
      else
        let r := walkSeen t fuel n.parent (n.parent :: seen)
        (n.parent :: r.1, r.2)

/-- Insertion sort by a strict "comes before" relation (stable). -/
def insertBy {α} (lt : α → α → Bool) (x : α) : List α → List α
  | [] => [x]
  | y :: ys => if lt y x then y :: insertBy lt x ys else x :: y :: ys

def sortBy {α} (lt : α → α → Bool) (l : List α) : List α := l.foldr (fun x acc => insertBy lt x acc) []

def lexLt : List Int → List Int → Bool
  | [], [] => false
  | [], _ :: _ => true
  | _ :: _, [] => false
  | a :: as, b :: bs => if a < b then true else if b < a then false else lexLt as bs

/-- Segments: leafs by decreasing root distance (stable), greedy walks, sorted by decreasing
`(length, sequence)`, then isolated nodes. -/
def segments (t : Table) (len : Int → Int → Nat) : List (List Int) :=
  let leafs := (t.filter fun n => !isRootNode n && childCount t n.id == 0).map (·.id)
  -- stable: `y` stays before `x` unless `x` is strictly deeper
  let leafs := sortBy (fun y x => decide (distToRoot t len x ≤ distToRoot t len y)) leafs
  let seqs := (leafs.foldl (fun (acc : List (List Int) × List Int) l =>
      let r := walkSeen t (t.length + 1) l acc.2
      (acc.1 ++ [l :: r.1], r.2)) ([], [])).1
  let seqs := seqs.filter fun s => s.length > 1
  let key := fun (s : List Int) => (pathLen len s, s)
  let seqs := sortBy (fun y x => let ky := key y; let kx := key x
      decide (kx.1 < ky.1) || (kx.1 == ky.1 && !lexLt ky.2 kx.2)) seqs
  let isolated := (t.filter fun n => isRootNode n && childCount t n.id == 0).map fun n => [n.id]
  seqs ++ isolated

/-! ### checkers evaluated on the implementation's output -/

/-- Consecutive elements are child → parent. -/
def isParentPath (t : Table) : List Int → Bool
  | a :: b :: rest => adjacent t a b && isParentPath t (b :: rest)
  | [_] => true
  | [] => false

def sortedInts (l : List Int) : List Int := sortBy (fun y x => decide (y ≤ x)) l

/-- The non-last elements of the multi-node segments are exactly the non-root nodes, each once
(⇒ every edge lies in exactly one segment). -/
def coversEdgesOnce (t : Table) (segs : List (List Int)) : Bool :=
  sortedInts ((segs.filter fun s => s.length > 1).flatMap fun s => s.dropLast) ==
  sortedInts ((t.filter fun n => !isRootNode n).map (·.id))

def nonIncreasing : List Nat → Bool
  | a :: b :: rest => decide (b ≤ a) && nonIncreasing (b :: rest)
  | _ => true

/-- Property check for `segments`. -/
def segmentsOKB (t : Table) (len : Int → Int → Nat) (segs : List (List Int)) : Bool :=
  segs.all (isParentPath t) && coversEdgesOnce t segs &&
  nonIncreasing (segs.map (pathLen len)) &&
  sortedInts ((segs.filter fun s => s.length == 1).flatten) ==
    sortedInts ((t.filter fun n => isRootNode n && childCount t n.id == 0).map (·.id))

/-- Property check for `small_segments`: start at leaf/branch, end at branch/root, only slabs between. -/
def smallSegmentsOKB (t : Table) (segs : List (List Int)) : Bool :=
  segs.all (fun s => isParentPath t s && s.length > 1 &&
    (match s.head? with
      | some h => (match find? t h with | some n => !(decide (n.parent < 0)) && childCount t h != 1 | none => false)
      | none => false) &&
    (match s.getLast? with | some l => isBranchOrRoot t l | none => false) &&
    (s.drop 1).dropLast.all (fun i => childCount t i == 1 && !isBranchOrRoot t i)) &&
  coversEdgesOnce t segs

end Navis.Forest
