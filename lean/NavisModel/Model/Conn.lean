/-!
# Model of `navis.connectivity.NeuronConnector` and `navis.connectivity.group_matrix` (property C20)

Import-free, total, computable.  Written the way the navis code does it:

* `NeuronConnector.add_neuron` walks the connector table of every neuron row by row and fills two
  Python dicts: `conn_outputs.setdefault(cid, []).append((name, node))` for rows of type `1` and
  `conn_inputs[cid] = (name, node)` for rows of type `0` (**last writer wins**; navis only logs a warning).
  Dicts are modelled as association lists in insertion order (`dget` / `dset`).
* `edges(include_other)` joins the two dicts per connector id; the unknown partner is `("__OTHER__", None)`
  and the `include_other` test looks at the *node* being `None`, exactly as in the code.
* `to_adjacency` (`df.loc[src, tgt] += 1`), `to_digraph` (`edges.setdefault((src,tgt), []).append(row)`,
  `weight = len(rows)`), `to_multidigraph` (one `add_edge` per edge) are three folds over that edge stream.
* `group_matrix`: label → group maps (`dict.get(s, s)`), optional `drop_ungrouped`, pandas
  `groupby(...).sum()/mean()/min()/max()` on rows, then the same on the transposed matrix.
-/
namespace Navis.Conn

/-! ## Python dicts as association lists (insertion order, unique keys) -/

def dget {κ β} [DecidableEq κ] : List (κ × β) → κ → Option β
  | [], _ => none
  | (k', v) :: t, k => if k' = k then some v else dget t k

/-- `d[k] = v` : overwrite in place if the key exists (keeps its position), append otherwise. -/
def dset {κ β} [DecidableEq κ] : List (κ × β) → κ → β → List (κ × β)
  | [], k, v => [(k, v)]
  | (k', v') :: t, k, v => if k' = k then (k, v) :: t else (k', v') :: dset t k v

def dkeys {κ β} (d : List (κ × β)) : List κ := d.map (·.1)

/-- The common loop shape `for x in l: d[key x] = upd(d.get(key x), x)`
(`setdefault(k, []).append(v)`, `d[k] = v`, `df.loc[k] += 1` are all instances). -/
def gfold {α κ β} [DecidableEq κ] (key : α → κ) (upd : Option β → α → β) (l : List α) (d0 : List (κ × β)) :
    List (κ × β) :=
  l.foldl (fun d x => dset d (key x) (upd (dget d (key x)) x)) d0

/-- First occurrences, in order (what iterating over dict keys / `set` gives up to order). -/
def dedup {α} [DecidableEq α] : List α → List α
  | [] => []
  | x :: t => x :: (dedup t).filter (fun y => !decide (y = x))

/-! ## Connector tables -/

/-- One row of a neuron's `.connectors` table tagged with the neuron's name. `type`: `0` = the neuron is
presynaptic at this connector, `1` = postsynaptic; every other value is ignored by `add_neuron`. -/
structure CRow where
  name : String
  cid : Int
  node : Int
  type : Int
deriving DecidableEq, Repr, Inhabited

/-- A neuron as `add_neuron` sees it: a name and an optional connector table `(connector_id, node_id, type)`. -/
structure Neuron where
  name : String
  conns : Option (List (Int × Int × Int))
deriving Repr

/-- All connector rows in the order `add_neurons` visits them (neurons with `connectors=None` contribute none). -/
def flatRows (ns : List Neuron) : List CRow :=
  ns.flatMap fun n => (n.conns.getD []).map fun r => ⟨n.name, r.1, r.2.1, r.2.2⟩

/-- `self.neurons` keys: names in first-insertion order (`self.neurons[nrn.name] = nrn`). -/
def neuronNames (ns : List Neuron) : List String := dedup (ns.map (·.name))

def isPre (r : CRow) : Bool := r.type == 0
def isPost (r : CRow) : Bool := r.type == 1

structure Maps where
  /-- `conn_inputs`: connector id ↦ the (neuron, node) presynaptic to it -/
  inputs : List (Int × (String × Int)) := []
  /-- `conn_outputs`: connector id ↦ list of (neuron, node) postsynaptic to it -/
  outputs : List (Int × List (String × Int)) := []
deriving Repr

/-- body of the `for row in nrn.connectors.itertuples()` loop -/
def addRow (m : Maps) (r : CRow) : Maps :=
  if r.type = 1 then
    { m with outputs := dset m.outputs r.cid ((dget m.outputs r.cid).getD [] ++ [(r.name, r.node)]) }
  else if r.type = 0 then
    { m with inputs := dset m.inputs r.cid (r.name, r.node) }
  else m

def build (rows : List CRow) : Maps := rows.foldl addRow {}

/-! ## Edge stream -/

def OTHER : String := "__OTHER__"

structure Edge where
  cid : Int
  src : String
  tgt : String
  srcNode : Option Int
  tgtNode : Option Int
deriving DecidableEq, Repr, Inhabited

/-- `set(self.conn_inputs).union(self.conn_outputs)` (order is arbitrary in Python; fixed here) -/
def unionKeys (m : Maps) : List Int := dedup (dkeys m.inputs ++ dkeys m.outputs)

/-- `self.conn_inputs.get(conn_id, (OTHER, None))` -/
def srcOf (m : Maps) (c : Int) : String × Option Int :=
  match dget m.inputs c with
  | some p => (p.1, some p.2)
  | none => (OTHER, none)

/-- `self.conn_outputs.get(conn_id, [(OTHER, None)])` -/
def tgtsOf (m : Maps) (c : Int) : List (String × Option Int) :=
  match dget m.outputs c with
  | some l => l.map fun p => (p.1, some p.2)
  | none => [(OTHER, none)]

/-- inner part of `edges()` for one connector id -/
def edgesOf (m : Maps) (io : Bool) (c : Int) : List Edge :=
  if (srcOf m c).2.isNone && !io then []
  else ((tgtsOf m c).filter fun t => !(t.2.isNone && !io)).map
    fun t => ⟨c, (srcOf m c).1, t.1, (srcOf m c).2, t.2⟩

/-- `NeuronConnector.edges(include_other)` -/
def edges (m : Maps) (io : Bool) : List Edge := (unionKeys m).flatMap (edgesOf m io)

/-- the whole pipeline: neurons → edge stream -/
def connEdges (ns : List Neuron) (io : Bool) : List Edge := edges (build (flatRows ns)) io

/-! ## Declarative specification: the relational join of pre- and postsynaptic rows -/

/-- presynaptic / postsynaptic rows of connector `c`, in visiting order -/
def preRows (rows : List CRow) (c : Int) : List CRow := rows.filter fun q => isPre q && q.cid == c
def postRows (rows : List CRow) (c : Int) : List CRow := rows.filter fun q => isPost q && q.cid == c

/-- Guard of the specification: every connector id is presynaptic on at most one table row
(navis: "Connector with ID … has multiple inputs: connector tables are probably inconsistent"). -/
def PreUnique (rows : List CRow) : Prop := ∀ c, (preRows rows c).length ≤ 1

def hasPre (rows : List CRow) (c : Int) : Bool := rows.any fun q => isPre q && q.cid == c
def hasPost (rows : List CRow) (c : Int) : Bool := rows.any fun q => isPost q && q.cid == c

/-- Edges contributed by one table row `p`:
* `p` presynaptic: one edge to every postsynaptic row of the same connector (with multiplicity); if there is
  none and `include_other`, one edge to `__OTHER__`;
* `p` postsynaptic and no presynaptic row for that connector anywhere: one edge from `__OTHER__` if `include_other`. -/
def joinRow (io : Bool) (rows : List CRow) (p : CRow) : List Edge :=
  if isPre p then
    if hasPost rows p.cid then
      (rows.filter fun q => isPost q && q.cid == p.cid).map fun q => ⟨p.cid, p.name, q.name, some p.node, some q.node⟩
    else if io then [⟨p.cid, p.name, OTHER, some p.node, none⟩] else []
  else if isPost p && (io && !hasPre rows p.cid) then [⟨p.cid, OTHER, p.name, none, some p.node⟩]
  else []

/-- `⨄_{p pre} ⨄_{q post, q.cid = p.cid} {p.name → q.name}` plus the `__OTHER__` edges when requested. -/
def specEdges (io : Bool) (rows : List CRow) : List Edge := rows.flatMap (joinRow io rows)

/-- executable form of `PreUnique` -/
def preUniqueB (rows : List CRow) : Bool :=
  rows.all fun r => (rows.filter fun q => isPre q && q.cid == r.cid).length ≤ 1

/-- both partners of the edge are known (neither end is `__OTHER__` / `None`) -/
def knownBoth (e : Edge) : Bool := e.srcNode.isSome && e.tgtNode.isSome

/-- Lean-side property checker, evaluated by the driver on the *implementation's* edge list. -/
def checkEdges (io : Bool) (rows : List CRow) (es : List Edge) : Bool := es.isPerm (specEdges io rows)

/-! ## The three views -/

/-- data carried by one synapse: `(connector_id, pre_node, post_node)` -/
abbrev Syn := Int × Option Int × Option Int
def Edge.syn (e : Edge) : Syn := (e.cid, e.srcNode, e.tgtNode)
def Edge.key (e : Edge) : String × String := (e.src, e.tgt)

/-- the sub-stream of edges `s → t` -/
def between (es : List Edge) (s t : String) : List Edge := es.filter fun e => decide (e.key = (s, t))

/-- row/column index of `to_adjacency`, node set of both graphs -/
def index (names : List String) (io : Bool) : List String := names ++ (if io then [OTHER] else [])

/-- `for _, src, tgt, _, _ in edges: df.loc[src, tgt] += 1` (cells as a dict keyed by `(src, tgt)`) -/
def adjCounts (es : List Edge) : List ((String × String) × Nat) :=
  gfold Edge.key (fun o _ => o.getD 0 + 1) es []

def adjCell (es : List Edge) (s t : String) : Nat := (dget (adjCounts es) (s, t)).getD 0

/-- the dense matrix over the index -/
def adjacency (names : List String) (io : Bool) (es : List Edge) : List (List Nat) :=
  (index names io).map fun s => (index names io).map fun t => adjCell es s t

/-- `edges.setdefault((src, tgt), []).append([conn_id, src_node, tgt_node])` -/
def digraphEdges (es : List Edge) : List ((String × String) × List Syn) :=
  gfold Edge.key (fun o e => o.getD [] ++ [e.syn]) es []

/-- connectors table of the digraph edge `s → t` (`none` = no such edge) -/
def digraphConns (es : List Edge) (s t : String) : Option (List Syn) := dget (digraphEdges es) (s, t)

/-- `weight = len(df)` -/
def digraphWeight (es : List Edge) (s t : String) : Nat := ((digraphConns es s t).map List.length).getD 0

/-- `to_multidigraph`: one `add_edge(src, tgt, pre_node, post_node, connector_id)` per edge -/
def multiEdges (es : List Edge) : List ((String × String) × Syn) := es.map fun e => (e.key, e.syn)

/-- parallel edges `s → t` of the multigraph, in insertion order -/
def multiBetween (es : List Edge) (s t : String) : List Syn :=
  ((multiEdges es).filter fun p => decide (p.1 = (s, t))).map (·.2)

/-! ## `group_matrix` -/

inductive Method | sum | avg | min | max
deriving DecidableEq, Repr

def rsum (l : List Rat) : Rat := l.foldr (· + ·) 0

def agg : Method → List Rat → Rat
  | .sum, l => rsum l
  | .avg, l => rsum l / (l.length : Rat)
  | .min, [] => 0
  | .min, x :: t => t.foldl min x
  | .max, [] => 0
  | .max, x :: t => t.foldl max x

/-- A labelled matrix: row labels, column labels, cell lookup by labels (labels are assumed distinct). -/
structure LMat where
  rows : List String
  cols : List String
  val : String → String → Rat

/-- `{n: g for g in groups for n in groups[g]}` (later groups overwrite earlier ones) -/
def invertGroups (g : List (String × List String)) : List (String × String) :=
  g.foldl (fun d p => p.2.foldl (fun d n => dset d n p.1) d) []

/-- `{str(k): str(v) for k, v in groups.items()}` on already stringified pairs (equal keys collapse, last wins) -/
def strDict (g : List (String × String)) : List (String × String) :=
  g.foldl (fun d p => dset d p.1 p.2) []

/-- `groups.get(s, s)` -/
def glabel (g : List (String × String)) (s : String) : String := (dget g s).getD s

/-- `mat.loc[mat.index.isin(groups.keys())]` when `drop_ungrouped` -/
def keptRows (g : List (String × String)) (drop : Bool) (rows : List String) : List String :=
  if drop then rows.filter fun r => (dget g r).isSome else rows

/-- `mat['row_groups'] = [groups.get(s, s) for s in mat.index]; mat.groupby('row_groups').<method>()`
(pandas sorts the group labels; the order of labels is not part of the model's observable). -/
def groupRows (m : Method) (g : List (String × String)) (drop : Bool) (M : LMat) : LMat :=
  { rows := dedup ((keptRows g drop M.rows).map (glabel g))
    cols := M.cols
    val := fun gl c =>
      agg m (((keptRows g drop M.rows).filter fun r => decide (glabel g r = gl)).map fun r => M.val r c) }

def transpose (M : LMat) : LMat := ⟨M.cols, M.rows, fun a b => M.val b a⟩

/-- the part of `group_matrix` after the dicts are in neuron → group form -/
def groupCore (m : Method) (rg cg : List (String × String)) (drop : Bool) (M : LMat) : LMat :=
  let M1 := if rg.isEmpty then M else groupRows m rg drop M
  if cg.isEmpty then M1 else transpose (groupRows m cg drop (transpose M1))

/-- group specification as passed by the caller (already `str`-converted):
`.byNeuron {neuron: group}` or `.byGroup {group: [neurons]}` -/
inductive Groups
  | byNeuron (g : List (String × String))
  | byGroup (g : List (String × List String))

def Groups.isEmpty : Groups → Bool
  | .byNeuron g => g.isEmpty
  | .byGroup g => g.isEmpty

def Groups.toMap : Groups → List (String × String)
  | .byNeuron g => strDict g
  | .byGroup g => invertGroups g

/-- `group_matrix(mat, row_groups, col_groups, drop_ungrouped, method)`; `none` = "returned `mat` untouched". -/
def groupMatrix (m : Method) (rg cg : Groups) (drop : Bool) (M : LMat) : LMat :=
  if rg.isEmpty && cg.isEmpty then M else groupCore m rg.toMap cg.toMap drop M

/-- the sub-matrix that survives `drop_ungrouped` -/
def restrict (rg cg : List (String × String)) (drop : Bool) (M : LMat) : LMat :=
  { rows := if rg.isEmpty then M.rows else keptRows rg drop M.rows
    cols := if cg.isEmpty then M.cols else keptRows cg drop M.cols
    val := M.val }

/-- sum of all cells -/
def total (M : LMat) : Rat := rsum (M.rows.map fun r => rsum (M.cols.map fun c => M.val r c))

end Navis.Conn
