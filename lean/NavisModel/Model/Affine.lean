/-
Model of `navis.transforms.affine.AffineTransform` (C08).

navis stores a 4×4 homogeneous matrix `M = [[A, b], [0, 1]]`, maps points with
`np.dot(M, [p, 1]ᵀ)[:3]` (i.e. `A·p + b`) and negates with `np.linalg.inv(M)`.  The model keeps
the 3×3 linear part and the translation as exact rationals; the inverse is adjugate / determinant
(`[[A⁻¹, -A⁻¹ b], [0, 1]]`, which is what `inv` of the homogeneous matrix is).  Import-free.
-/
namespace Navis.Affine

/-- A point / one row of an `(N, 3)` array. -/
abbrev Pt := Rat × Rat × Rat

/-- Linear part `a_ij` (row `i`, column `j`) and translation `b_i`. -/
structure Aff where
  a11 : Rat
  a12 : Rat
  a13 : Rat
  a21 : Rat
  a22 : Rat
  a23 : Rat
  a31 : Rat
  a32 : Rat
  a33 : Rat
  b1 : Rat
  b2 : Rat
  b3 : Rat
deriving DecidableEq, Repr

/-- The identity transform (`np.eye(4)`; also what an `AliasTransform` does to points). -/
def one : Aff := ⟨1, 0, 0, 0, 1, 0, 0, 0, 1, 0, 0, 0⟩

/-- `AffineTransform.xform` on one row: `A·p + b`. -/
def xform (T : Aff) (p : Pt) : Pt :=
  (T.a11 * p.1 + T.a12 * p.2.1 + T.a13 * p.2.2 + T.b1,
   T.a21 * p.1 + T.a22 * p.2.1 + T.a23 * p.2.2 + T.b2,
   T.a31 * p.1 + T.a32 * p.2.1 + T.a33 * p.2.2 + T.b3)

/-- Determinant of the linear part (= determinant of the homogeneous 4×4 matrix). -/
def det (T : Aff) : Rat :=
  T.a11 * (T.a22 * T.a33 - T.a23 * T.a32)
  - T.a12 * (T.a21 * T.a33 - T.a23 * T.a31)
  + T.a13 * (T.a21 * T.a32 - T.a22 * T.a31)

/-- Inverse of the linear part: adjugate divided by `d` (pass `d = det T`). -/
def invLin (T : Aff) (d : Rat) : Aff :=
  { a11 := (T.a22 * T.a33 - T.a23 * T.a32) / d
    a12 := (T.a13 * T.a32 - T.a12 * T.a33) / d
    a13 := (T.a12 * T.a23 - T.a13 * T.a22) / d
    a21 := (T.a23 * T.a31 - T.a21 * T.a33) / d
    a22 := (T.a11 * T.a33 - T.a13 * T.a31) / d
    a23 := (T.a13 * T.a21 - T.a11 * T.a23) / d
    a31 := (T.a21 * T.a32 - T.a22 * T.a31) / d
    a32 := (T.a12 * T.a31 - T.a11 * T.a32) / d
    a33 := (T.a11 * T.a22 - T.a12 * T.a21) / d
    b1 := 0
    b2 := 0
    b3 := 0 }

/-- `AffineTransform.__neg__`: `np.linalg.inv` of the homogeneous matrix, i.e. linear part `A⁻¹`
and translation `-A⁻¹ b`.  (For `det T = 0` numpy raises; see `neg?`.  `x / 0 = 0` in `Rat`, so the
theorems about `neg` carry the guard `det T ≠ 0` explicitly.) -/
def neg (T : Aff) : Aff :=
  let I := invLin T (det T)
  { I with
    b1 := -(I.a11 * T.b1 + I.a12 * T.b2 + I.a13 * T.b3)
    b2 := -(I.a21 * T.b1 + I.a22 * T.b2 + I.a23 * T.b3)
    b3 := -(I.a31 * T.b1 + I.a32 * T.b2 + I.a33 * T.b3) }

/-- `__neg__` with numpy's `LinAlgError('Singular matrix')` as `none`. -/
def neg? (T : Aff) : Option Aff := if det T = 0 then none else some (neg T)

/-- Homogeneous matrix product `M_T · M_S`: first `S`, then `T`. -/
def comp (S T : Aff) : Aff :=
  { a11 := T.a11 * S.a11 + T.a12 * S.a21 + T.a13 * S.a31
    a12 := T.a11 * S.a12 + T.a12 * S.a22 + T.a13 * S.a32
    a13 := T.a11 * S.a13 + T.a12 * S.a23 + T.a13 * S.a33
    a21 := T.a21 * S.a11 + T.a22 * S.a21 + T.a23 * S.a31
    a22 := T.a21 * S.a12 + T.a22 * S.a22 + T.a23 * S.a32
    a23 := T.a21 * S.a13 + T.a22 * S.a23 + T.a23 * S.a33
    a31 := T.a31 * S.a11 + T.a32 * S.a21 + T.a33 * S.a31
    a32 := T.a31 * S.a12 + T.a32 * S.a22 + T.a33 * S.a32
    a33 := T.a31 * S.a13 + T.a32 * S.a23 + T.a33 * S.a33
    b1 := T.a11 * S.b1 + T.a12 * S.b2 + T.a13 * S.b3 + T.b1
    b2 := T.a21 * S.b1 + T.a22 * S.b2 + T.a23 * S.b3 + T.b2
    b3 := T.a31 * S.b1 + T.a32 * S.b2 + T.a33 * S.b3 + T.b3 }

/-- `AffineTransform.xform(points, invert=True)`. -/
def xformInv (T : Aff) (p : Pt) : Pt := xform (neg T) p

/-- The edge transform between two frames: `frame t ∘ (frame s)⁻¹` (a point given in the
coordinates of frame `s` is taken back to world coordinates and then into frame `t`). -/
def between (Fs Ft : Aff) : Aff := comp (neg Fs) Ft

end Navis.Affine
