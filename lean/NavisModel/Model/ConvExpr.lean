import NavisModel.Model.Voxel
/-!
# Arithmetic expressions extracted from the conversion code (C19 translator target)

`translator/gen_conv.py` re-reads the numpy expressions that decide the geometry of the conversions (voxel index, grid shape,
offset, units, edge midpoint, tangent vector, alpha, clipped `k`, mesh vertex placement) from the current navis source and emits
them as terms of `E`.  numpy arithmetic is elementwise, so one coordinate is enough: `eval ρ e` evaluates the expression on the
scalars `ρ` assigns to the names.  `Props/C19` proves, for every assignment `ρ`, that the extracted expressions evaluate to what
the model (`Model/Voxel.lean`, `Model/Dotprops.lean`) computes — if an operator, operand or rounding function in the source
changes, the generated term changes and the theorem stops checking; a renamed local or a reordered independent statement does not.

Uninterpreted operations (`op1`, `op2`: sums over an axis, square roots, matrix products, …) evaluate to `0` and make
`interpreted` false; facts involving them are compared structurally.
-/
namespace Navis.ConvExpr
open Navis.Voxel

inductive E where
  | var : String → E
  | lit : Int → E
  | add : E → E → E
  | sub : E → E → E
  | mul : E → E → E
  | div : E → E → E
  | neg : E → E
  /-- numpy `round` / `rint` (half to even) -/
  | round : E → E
  | floor : E → E
  | ceil : E → E
  /-- `.astype(int)` of a value that is not known to be integral: truncation towards zero -/
  | trunc : E → E
  | min : E → E → E
  /-- `if a > b then c else d` (`np.divide(..., out=zeros, where=a > b)`) -/
  | iteGt : E → E → E → E → E
  | op1 : String → E → E
  | op2 : String → E → E → E
deriving DecidableEq, Repr

def truncRat (q : Rat) : Int := if 0 ≤ q then q.floor else q.ceil

def eval (ρ : String → Rat) : E → Rat
  | .var n => ρ n
  | .lit n => (n : Rat)
  | .add a b => eval ρ a + eval ρ b
  | .sub a b => eval ρ a - eval ρ b
  | .mul a b => eval ρ a * eval ρ b
  | .div a b => eval ρ a / eval ρ b
  | .neg a => - eval ρ a
  | .round a => (roundHalfEven (eval ρ a) : Rat)
  | .floor a => ((eval ρ a).floor : Rat)
  | .ceil a => ((eval ρ a).ceil : Rat)
  | .trunc a => (truncRat (eval ρ a) : Rat)
  | .min a b => if eval ρ a ≤ eval ρ b then eval ρ a else eval ρ b
  | .iteGt a b c d => if eval ρ b < eval ρ a then eval ρ c else eval ρ d
  | .op1 _ _ => 0
  | .op2 _ _ _ => 0

/-- No uninterpreted operation occurs. -/
def interpreted : E → Bool
  | .var _ => true
  | .lit _ => true
  | .add a b => interpreted a && interpreted b
  | .sub a b => interpreted a && interpreted b
  | .mul a b => interpreted a && interpreted b
  | .div a b => interpreted a && interpreted b
  | .neg a => interpreted a
  | .round a => interpreted a
  | .floor a => interpreted a
  | .ceil a => interpreted a
  | .trunc a => interpreted a
  | .min a b => interpreted a && interpreted b
  | .iteGt a b c d => interpreted a && interpreted b && interpreted c && interpreted d
  | .op1 _ _ => false
  | .op2 _ _ _ => false

/-- A comparison `lhs <op> rhs` as it appears in a mask (`op` ∈ `<`, `<=`, `>`, `>=`, `==`, `!=`). -/
structure Cmp where
  lhs : String
  op : String
  rhs : String
deriving DecidableEq, Repr

end Navis.ConvExpr
