import NavisModel.Model.Units
import NavisModel.Gen.Units
/-!
# C15 — the arithmetic operators *as extracted from the source*

`Gen.Units.opFacts` (regenerated from the current navis source on every check) says, for each neuron class and each of
`__mul__ / __truediv__ / __add__ / __sub__`, which data are rewritten with which arithmetic operator, what happens to
the connectors and the units, which operand shapes pass the guard.  `applyFact` *interprets* such a row on the C15
neuron model; `Props.C15.operators_as_extracted` proves that interpreting the rows of the current source gives exactly
the hand-written model functions `mul / div / add / sub` (for which the physical-invariance theorems are proved), for
all neurons, operands and prefixes.  A source edit that changes what an operator does to coordinates, radii,
connectors or units changes a row and that theorem stops checking.
-/
namespace Navis.Units
open Navis.Gen.Units (OpFact)

def binop : String → Option (Rat → Rat → Rat)
  | "*" => some (fun a b => a * b)
  | "/" => some (fun a b => a / b)
  | "+" => some (fun a b => a + b)
  | "-" => some (fun a b => a - b)
  | _ => none

def v3op (o : Rat → Rat → Rat) (a b : V3) : V3 := ⟨o a.x b.x, o a.y b.y, o a.z b.z⟩

def clsOf : Kind → String
  | .tree => "TreeNeuron"
  | .mesh => "MeshNeuron"
  | .dotprops => "Dotprops"
  | .voxel => "VoxelNeuron"

/-- operand shapes that get past the guard of the operator: numbers always; vectors of the length the
`len(other) != k` guard demands (skeletons), or — without such a guard — whatever numpy broadcasts against `(N, 3)`. -/
def factAccepts (f : OpFact) : Factor → Bool
  | .s _ => true
  | .v3 _ => f.reqLen == 0 || f.reqLen == 3 || f.pads3
  | .v4 _ _ => f.reqLen == 4

/-- the operator described by one extracted row, applied to a neuron -/
def applyFact (f : OpFact) (n : Neuron) (a : Factor) (p : Int) : Option Neuron :=
  match binop f.coordOp with
  | none => none
  | some co =>
    if !(factAccepts f a && (f.unitsOp == "" || a.nz) && f.returns == "n" && f.copyGuard) then none else
    let cn : Option (List V3) :=
      if f.connOp == "" then some n.conns
      else if f.connCols == ["x", "y", "z"] && (f.reqLen != 4 || f.slices3) then
        (binop f.connOp).map fun o => n.conns.map (fun c => v3op o c a.xyz)
      else none
    let un : Option Units :=
      if f.unitsOp == "" then some n.units
      else (binop f.unitsOp).map fun o =>
        if f.compact then (⟨v3op o n.units.mag a.xyz, n.units.base⟩ : Units).compact p
        else ⟨v3op o n.units.mag a.xyz, n.units.base⟩
    match cn, un with
    | some conns, some units =>
      if f.coordTarget == "offset" then
        some { n with offset := v3op co n.offset a.xyz, conns := conns, units := units }
      else if f.coordTarget == "nodes" && (f.coordCols == ["x", "y", "z", "radius"] || f.coordCols == ["x", "y", "z"]) then
        some { n with pts := n.pts.map (fun c => v3op co c a.xyz),
                      radii := if f.coordCols.contains "radius" then n.radii.map (fun r => co r a.rad) else n.radii,
                      conns := conns, units := units }
      else if f.coordTarget == "vertices" || f.coordTarget == "points" then
        some { n with pts := n.pts.map (fun c => v3op co c a.xyz), conns := conns, units := units }
      else none
    | _, _ => none

/-- the four operators -/
inductive OpK where
  | mul | div | add | sub
deriving DecidableEq

def OpK.name : OpK → String
  | .mul => "mul" | .div => "div" | .add => "add" | .sub => "sub"
def OpK.sym : OpK → String
  | .mul => "*" | .div => "/" | .add => "+" | .sub => "-"
/-- operator applied to the units of skeletons / meshes / dotprops -/
def OpK.inv : OpK → String
  | .mul => "/" | .div => "*" | .add => "" | .sub => ""
def OpK.scaling : OpK → Bool
  | .mul => true | .div => true | .add => false | .sub => false

/-- the hand-written model operator -/
def modelOp (op : OpK) (n : Neuron) (a : Factor) (p : Int) : Option Neuron :=
  match op with
  | .mul => mul n a p
  | .div => div n a p
  | .add => add n a
  | .sub => sub n a

/-- the semantic fields of a row (what `applyFact` reads) -/
structure OpCore where
  cls : String
  op : String
  coordTarget : String
  coordCols : List String
  coordOp : String
  connOp : String
  connCols : List String
  unitsOp : String
  compact : Bool
  reqLen : Nat
  slices3 : Bool
  returns : String
  copyGuard : Bool
  pads3 : Bool
deriving DecidableEq

def factCore (f : OpFact) : OpCore :=
  ⟨f.cls, f.op, f.coordTarget, f.coordCols, f.coordOp, f.connOp, f.connCols, f.unitsOp, f.compact, f.reqLen, f.slices3,
   f.returns, f.copyGuard, f.pads3⟩

def OpCore.toFact (c : OpCore) : OpFact :=
  ⟨c.cls, c.op, c.coordTarget, c.coordCols, c.coordOp, c.connOp, c.connCols, c.unitsOp, c.compact, "", [], false, c.reqLen,
   c.slices3, c.returns, c.copyGuard, c.pads3⟩

/-- the operator table the hand-written model `mul / div / add / sub` corresponds to -/
def expectedCore (k : Kind) (op : OpK) : OpCore :=
  match k with
  | .tree => ⟨"TreeNeuron", op.name, "nodes", if op.scaling then ["x", "y", "z", "radius"] else ["x", "y", "z"], op.sym, op.sym,
              ["x", "y", "z"], op.inv, op.scaling, if op.scaling then 4 else 3, op.scaling, "n", true, op.scaling⟩
  | .mesh => ⟨"MeshNeuron", op.name, "vertices", [], op.sym, op.sym, ["x", "y", "z"], op.inv, op.scaling, 0, false, "n", true, false⟩
  | .dotprops => ⟨"Dotprops", op.name, "points", [], op.sym, op.sym, ["x", "y", "z"], op.inv, op.scaling, 0, false, "n", true, false⟩
  | .voxel => ⟨"VoxelNeuron", op.name, "offset", [], op.sym, op.sym, ["x", "y", "z"], if op.scaling then op.sym else "",
               false, 0, false, "n", true, false⟩

def allKinds : List Kind := [.tree, .mesh, .dotprops, .voxel]
def allOps : List OpK := [.mul, .div, .add, .sub]

def expectedTable : List OpCore := allKinds.flatMap fun k => allOps.map fun op => expectedCore k op

end Navis.Units
