import NavisModel.Model.Partition
/-
Model of the second ("full") phase of `navis.nbl.nblast_funcs.nblast_smart` (C09), as written:

    for qix in np.array_split(np.arange(len(query_dps)), n_rows):
        for tix in np.array_split(np.arange(len(target_dps)), n_cols):
            ...
            submask = mask.loc[query_dps[qix].id, target_dps[tix].id]
            this.pairs = np.vstack(np.where(submask)).T          # row-major (a, b) of the True cells
            this.pairs[:, 1] += len(qix)                         # targets sit behind the queries
            this.mask = np.zeros(mask.shape, dtype=bool)
            this.mask[qix[0]:qix[-1]+1, tix[0]:tix[-1]+1] = submask
            futures[pool.submit(this.pair_query_target, pairs=this.pairs, scores=scores)] = this
    for f in as_completed(futures):
        res = f.result(); this = futures[f]
        scr[this.mask] = res                                     # boolean-mask assignment, row-major

`mask r c` is the global selection mask, `g r c` the refined score of query `r` against
target `c`, `scr` the pre-NBLAST matrix.
-/
namespace Navis.Smart
open Navis.Partition

/-- `np.where(m)` for a matrix given as list of rows: the `(row, col)` positions of the `True`
cells in row-major order. -/
def whereRM (m : List (List Bool)) : List (Nat × Nat) :=
  (List.range m.length).flatMap fun a =>
    (List.range (m.getD a []).length).filterMap fun b => if (m.getD a []).getD b false then some (a, b) else none

/-- `mask.loc[ids of qix, ids of tix]` (ids are unique: label lookup = positional lookup). -/
def submask (mask : Nat → Nat → Bool) (j : Job) : List (List Bool) :=
  j.qix.map fun r => j.tix.map fun c => mask r c

/-- `this.pairs` after `this.pairs[:, 1] += len(qix)`. -/
def pairs (mask : Nat → Nat → Bool) (j : Job) : List (Nat × Nat) :=
  (whereRM (submask mask j)).map fun (a, b) => (a, b + j.qix.length)

/-- `pair_query_target`: one refined score per pair, through the job-local list `qix ++ tix`. -/
def jobScores {α} (g : Nat → Nat → α) (mask : Nat → Nat → Bool) (j : Job) : List α :=
  (pairs mask j).map fun (a, b) => g ((localList j).getD a 0) ((localList j).getD b 0)

/-- `this.mask`: zeros, then the slice `[q0:q1, t0:t1] = submask` for given slice bounds (`q1`, `t1`
exclusive).  `none` when a bound does not exist (`qix[0]` raises on an empty chunk) or the slice shape
differs from the submask shape (numpy refuses the assignment). -/
def jobMaskWith (q0 q1 t0 t1 : Option Nat) (mask : Nat → Nat → Bool) (j : Job) : Option (Nat → Nat → Bool) :=
  match q0, q1, t0, t1 with
  | some q0, some q1, some t0, some t1 =>
    if q1 - q0 = j.qix.length ∧ t1 - t0 = j.tix.length then
      let sub := submask mask j
      some fun r c =>
        if q0 ≤ r ∧ r < q1 ∧ t0 ≤ c ∧ c < t1 then ((sub.getD (r - q0) []).getD (c - t0) false) else false
    else none
  | _, _, _, _ => none

/-- As written: `this.mask[qix[0]:qix[-1]+1, tix[0]:tix[-1]+1] = submask`. -/
def jobMask (mask : Nat → Nat → Bool) (j : Job) : Option (Nat → Nat → Bool) :=
  jobMaskWith j.qix.head? (j.qix.getLast?.map (· + 1)) j.tix.head? (j.tix.getLast?.map (· + 1)) mask j

/-- The cells a boolean `nq × nt` mask selects, in the (row-major) order in which
`frame[mask] = values` consumes `values`. -/
def maskCells (nq nt : Nat) (m : Nat → Nat → Bool) : List (Nat × Nat) :=
  (List.range nq).flatMap fun r => (List.range nt).filterMap fun c => if m r c then some (r, c) else none

/-- `scr[m] = vals`: the k-th selected cell receives `vals[k]`. -/
def placeMask {α} (scr : Mat α) (nq nt : Nat) (m : Nat → Nat → Bool) (vals : List α) : Mat α :=
  ((maskCells nq nt m).zip vals).foldl (fun s cv => fun r c => if (r, c) = cv.1 then some cv.2 else s r c) scr

/-- One finished job of the full phase. -/
def placeJob {α} (g : Nat → Nat → α) (mask : Nat → Nat → Bool) (nq nt : Nat) (scr : Mat α) (j : Job) : Option (Mat α) :=
  (jobMask mask j).map fun jm => placeMask scr nq nt jm (jobScores g mask j)

/-- The full phase: jobs complete in the order `done`; `none` = navis raises. -/
def refine {α} (g : Nat → Nat → α) (mask : Nat → Nat → Bool) (nq nt : Nat) (scr : Mat α) (done : List Job) : Option (Mat α) :=
  done.foldl (fun s j => s.bind fun s => placeJob g mask nq nt s j) (some scr)

/-- The single-job path: `scr[mask] = this.pair_query_target(this.pairs)` with the global mask. -/
def refineSerial {α} (g : Nat → Nat → α) (mask : Nat → Nat → Bool) (nq nt : Nat) (scr : Mat α) : Mat α :=
  let j : Job := ⟨List.range nq, List.range nt⟩
  placeMask scr nq nt mask (jobScores g mask j)

/-- Placement of explicitly given per-job value lists (used by the driver on what navis' jobs returned). -/
def refineBlocks {α} (mask : Nat → Nat → Bool) (nq nt : Nat) (scr : Mat α) (done : List (Job × List α)) : Option (Mat α) :=
  done.foldl (fun s jv => s.bind fun s => (jobMask mask jv.1).map fun jm => placeMask s nq nt jm jv.2) (some scr)

/-- Whole smart-NBLAST on abstract scores: pre-NBLAST assembled from jobs completing in order `done1`
(through the job-local indices), the mask chosen by *any* function `select` of the pre-NBLAST matrix,
refined scores placed from jobs completing in order `done2`. -/
def smart {α} (pre g : Nat → Nat → α) (select : Mat α → Nat → Nat → Bool) (nq nt : Nat)
    (done1 done2 : List Job) : Option (Mat α) :=
  let scr := assemble pre done1
  refine g (select scr) nq nt scr done2

end Navis.Smart
