import NavisModel.Gen.Swc
/-!
Character level of an SWC file for C07: how `_write_swc` assembles the text (`file.write(header)` followed by
`csv.writer(file, delimiter=" ").writerows(...)`), how the reader cuts it into physical lines and which of them
it treats as header / comment / blank / data, and the integer printer / lexer pair used for the id columns.
Core Lean only, total, computable.

* `commentise` is what `_write_swc` does to the lines of a user supplied `header=` string (a line that is neither a `#` line
  nor blank gets `Gen.Swc.headerCommentPrefix` = `"# "` in front; before the fix `write_swc turns lines of a custom header … into
  comments` the string was written verbatim), `terminate` is the `if not header.endswith("\n"): header += "\n"` that follows;
  whether these exist in the current source are the translator facts `Gen.Swc.headerCommentPrefix` / `Gen.Swc.headerTerminated`.
* `assemble` is the whole text: terminated header, then every row followed by the line terminator of `csv.writer`
  (`Gen.Swc.writeLineTerminator`, by default `\r\n`).
* `lines` = `text.split("\n")` without the final empty piece (what `for line in f` / pandas see, `\r` kept).
* `isHdr` = `line.startswith("#")` (`read_header_rows`, and pandas' "fully commented line"), `isBlank` = a line that is
  empty up to `\r` (skipped by `read_csv(skip_blank_lines=True)`), `hdrRows` = `read_header_rows`, `dataLines` = the
  lines `read_csv(skiprows=len(header_rows), comment="#")` turns into table rows.
* `natDigits` / `intChars` print an integer the way `str(int)` does; `lexInt?` is the integer branch of the driver's
  field lexer (`Drv/C07.lean` calls it), `lexInt_intChars` in `Proofs/SwcTextLemmas.lean` is their round trip.
-/
namespace Navis.SwcText

/-! ### integers as text -/

def digitChar : Nat → Char
  | 0 => '0' | 1 => '1' | 2 => '2' | 3 => '3' | 4 => '4' | 5 => '5' | 6 => '6' | 7 => '7' | 8 => '8' | _ => '9'

/-- Most significant digit first; `fuel` > number of digits. -/
def natDigitsAux : Nat → Nat → List Char → List Char
  | 0, _, acc => acc
  | f + 1, n, acc => if n / 10 = 0 then digitChar (n % 10) :: acc else natDigitsAux f (n / 10) (digitChar (n % 10) :: acc)

/-- `str(n)` for a natural number. -/
def natDigits (n : Nat) : List Char := natDigitsAux (n + 1) n []

/-- `str(i)` for an integer. -/
def intChars : Int → List Char
  | .ofNat n => natDigits n
  | .negSucc n => '-' :: natDigits (n + 1)

def isDigits (cs : List Char) : Bool := !cs.isEmpty && cs.all Char.isDigit

def digitsToNat (cs : List Char) : Nat := cs.foldl (fun a c => a * 10 + (c.toNat - '0'.toNat)) 0

/-- `[+-]?digits` → the integer; anything else → `none`. -/
def lexInt? (cs : List Char) : Option Int :=
  match cs with
  | '-' :: r => if isDigits r then some (-(digitsToNat r : Int)) else none
  | '+' :: r => if isDigits r then some (digitsToNat r : Int) else none
  | _ => if isDigits cs then some (digitsToNat cs : Int) else none

/-! ### assembling the text -/

/-- `line.startswith("#")` -/
def isHdr (l : List Char) : Bool := l.head? == some '#'

/-- empty up to carriage returns: skipped by `read_csv` (`not line.strip("\r")` in `_write_swc`) -/
def isBlank (l : List Char) : Bool := l.all (· == '\r')

/-- `header.split("\n")`: the pieces between line breaks (always at least one, the last one may be empty). -/
def splitAll : List Char → List (List Char)
  | [] => [[]]
  | c :: cs =>
    if c = '\n' then [] :: splitAll cs
    else match splitAll cs with
      | p :: ps => (c :: p) :: ps
      | [] => [[c]]

/-- `"\n".join(pieces)` -/
def joinNl : List (List Char) → List Char
  | [] => []
  | [p] => p
  | p :: q :: ps => p ++ '\n' :: joinNl (q :: ps)

/-- One line of a user supplied header as `_write_swc` writes it: kept when it is a comment or blank, otherwise the prefix
(translator fact `Gen.Swc.headerCommentPrefix`, `"# "`) is put in front. -/
def commentLine (pre : List Char) (l : List Char) : List Char := if isHdr l || isBlank l then l else pre ++ l

/-- `"\n".join(line if (line.startswith(COMMENT) or not line.strip("\r")) else f"{COMMENT} {line}" for line in header.split("\n"))` -/
def commentiseWith (pre : List Char) (h : List Char) : List Char := joinNl ((splitAll h).map (commentLine pre))

def commentise (h : List Char) : List Char := commentiseWith Gen.Swc.headerCommentPrefix.toList h

def endsWithNl (h : List Char) : Bool := h.getLast? == some '\n'

/-- `elif not header.endswith("\n"): header += "\n"` — present in the source iff `Gen.Swc.headerTerminated`. -/
def terminateIf (branch : Bool) (h : List Char) : List Char :=
  if branch && !endsWithNl h then h ++ ['\n'] else h

def terminate (h : List Char) : List Char := terminateIf Gen.Swc.headerTerminated h

/-- What precedes the final `\n` in the line terminator of `csv.writer` (`\r` for the default `\r\n`; the terminator is
the translator fact `Gen.Swc.writeLineTerminator`, `Props.C07.gen_text_format` checks that it ends with its only `\n`). -/
def eolPre : List Char := Gen.Swc.writeLineTerminator.toList.dropLast

/-- `csv.writer(...).writerows`: every row followed by the line terminator `pre ++ "\n"`. -/
def rowsText (pre : List Char) : List (List Char) → List Char
  | [] => []
  | r :: rs => r ++ pre ++ '\n' :: rowsText pre rs

/-- The header text `_write_swc` writes for a user supplied `header=h`: non-comment lines turned into comments, then a final
line break if there is none. -/
def headerText (h : List Char) : List Char := terminate (commentise h)

/-- The text `_write_swc` writes for a custom header `h` and rendered rows `rows`. -/
def assemble (h : List Char) (rows : List (List Char)) : List Char := headerText h ++ rowsText eolPre rows

/-- The same without the newline-termination branch (what the file would be if the branch were missing). -/
def assembleRaw (h : List Char) (rows : List (List Char)) : List Char := h ++ rowsText eolPre rows

/-! ### cutting the text into lines, classifying them -/

def linesAux : List Char → List Char → List (List Char)
  | cur, [] => if cur.isEmpty then [] else [cur.reverse]
  | cur, c :: cs => if c = '\n' then cur.reverse :: linesAux [] cs else linesAux (c :: cur) cs

/-- `text.split("\n")` without the final empty piece. -/
def lines (cs : List Char) : List (List Char) := linesAux [] cs

/-- `read_header_rows`: the leading `#` lines. -/
def hdrRows (ls : List (List Char)) : List (List Char) := ls.takeWhile isHdr

/-- The lines `read_csv(skiprows=len(header_rows), comment="#")` parses as rows: after the header rows, every line that
is neither fully commented nor blank. -/
def dataLines (ls : List (List Char)) : List (List Char) :=
  (ls.drop (hdrRows ls).length).filter fun l => !isHdr l && !isBlank l

/-- A custom header the reader copes with: every physical line is a `#` line or blank. -/
def headerOK (h : List Char) : Bool := (lines h).all fun l => isHdr l || isBlank l

/-- A rendered data row: starts with its `PointNo` printed by `str(int)`, contains no line break. -/
def rowLine (id : Int) (rest : List Char) : List Char := intChars id ++ rest

end Navis.SwcText
