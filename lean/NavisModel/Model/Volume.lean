/-!
# Model of `navis.in_volume`, `x.prune_by_volume`, `navis.intersection_matrix` and `x.snap` (property C18)

Import-free, total, computable.  Written the way the navis code does it.

**Geometry.**  A watertight volume is modelled as the *solid* it bounds, given as a CSG program over
integer axis-aligned boxes (`Solid = List (Bool × Box)`: `(true, b)` adds the box, `(false, b)` carves it out
again, later entries win — this expresses unions, differences, tori, nested and disjoint shells).  Query points
carry **doubled coordinates**: the point `(a/2, b/2, c/2)` is `⟨a, b, c⟩`; a half-integer point has three odd
entries and is therefore never on a face of a box with integer corners (`Half`, see `Props/C18`), so that
"inside" is unambiguous and no tolerance enters.

**`in_volume`** (`navis/intersection/intersect.py`):
* `(N,3)` points → boolean mask (the ray caster — external — is replaced by exact membership); `mode` is
  *ignored* for bare points, exactly as in the code;
* neuron → `in_v = in_volume(points, mode='IN')`, `if mode == 'OUT': in_v = ~in_v`,
  `if not all(in_v): subset_neuron(...)`:
  - `TreeNeuron`: `subset = x.nodes[in_v].node_id.values`, nodes kept by `node_id.isin(subset)`, connectors by
    `connectors.node_id.isin(x.nodes.node_id)`;
  - `Dotprops`: boolean mask on the points, connectors attached to their nearest point (`x.snap`) and kept by
    `point.isin(arange[mask])`, then `point` is re-indexed;
  - `MeshNeuron`: vertex indices `arange[mask]`; `submesh` keeps the faces whose three vertices are all in `subset`
    and only the vertices referenced by a kept face (`kept`); connectors attached to their nearest vertex, kept by
    `vertex_id.isin(kept)` and re-indexed with `dict(zip(kept, arange(len(kept))))` (since the `fix:` commit that
    re-indexes against the surviving vertices; before, `subset` was used and `vertex_id` went stale);
* dict / list of volumes → `data[name] = in_volume(x, volume[name], …)` in a loop over the dict;
* `intersection_matrix` → one row per volume name, one column per neuron, cell = attribute of the pruned neuron.

**`snap`**: `dist, ix = cKDTree(data).query(locs)`; `TreeNeuron.snap` returns `node_id.values[ix]`
(resp. `connector_id.values[ix]`), `Dotprops.snap` / `MeshNeuron.snap` return the row index.  The kd-tree is
modelled by its specification, the argmin of the squared distance (first index among exact ties; the
harness only generates unique nearest neighbours, the theorems hold for the tie rule as well).
-/
namespace Navis.Volume

/-! ## points and boxes -/

structure P3 where
  x : Int
  y : Int
  z : Int
deriving DecidableEq, Repr, Inhabited

/-- Axis-aligned box with integer corners `lo`, `hi` (mesh units). -/
structure Box where
  lo : P3
  hi : P3
deriving DecidableEq, Repr, Inhabited

/-- `lo < q/2 < hi` for a doubled query coordinate `q`. -/
def strictIn (lo hi q : Int) : Bool := decide (2 * lo < q) && decide (q < 2 * hi)

/-- `lo ≤ q/2 ≤ hi`. -/
def closedIn (lo hi q : Int) : Bool := decide (2 * lo ≤ q) && decide (q ≤ 2 * hi)

/-- The point with doubled coordinates `p` lies in the open box. -/
def inBox (b : Box) (p : P3) : Bool :=
  strictIn b.lo.x b.hi.x p.x && strictIn b.lo.y b.hi.y p.y && strictIn b.lo.z b.hi.z p.z

/-- … in the closed box (interior plus surface). -/
def inBoxClosed (b : Box) (p : P3) : Bool :=
  closedIn b.lo.x b.hi.x p.x && closedIn b.lo.y b.hi.y p.y && closedIn b.lo.z b.hi.z p.z

/-- A half-integer point: all doubled coordinates odd. -/
def Half (p : P3) : Prop := p.x % 2 = 1 ∧ p.y % 2 = 1 ∧ p.z % 2 = 1

instance (p : P3) : Decidable (Half p) := by unfold Half; exact inferInstance

def halfB (p : P3) : Bool := decide (p.x % 2 = 1) && decide (p.y % 2 = 1) && decide (p.z % 2 = 1)

/-! ## solids -/

/-- CSG program: `(true, b)` = add box `b`, `(false, b)` = remove box `b`; applied left to right. -/
abbrev Solid := List (Bool × Box)

/-- one CSG step on the membership bit of a fixed point -/
def step (p : P3) (acc : Bool) (sb : Bool × Box) : Bool := if inBox sb.2 p then sb.1 else acc

/-- exact point membership -/
def mem (S : Solid) (p : P3) : Bool := S.foldl (step p) false

/-- plain union of boxes (a voxel set is the union of its unit cells) -/
def unionOf (bs : List Box) : Solid := bs.map fun b => (true, b)

/-- the unit cell with lower corner `v` -/
def cell (v : P3) : Box := ⟨v, ⟨v.x + 1, v.y + 1, v.z + 1⟩⟩

/-- centre of that cell, doubled -/
def centre (v : P3) : P3 := ⟨2 * v.x + 1, 2 * v.y + 1, 2 * v.z + 1⟩

/-! ## convex polytopes (any orientation): intersections of half-spaces with integer normals -/

/-- the half-space `n · x < d` (mesh units) -/
structure HalfSpace where
  n : P3
  d : Int
deriving DecidableEq, Repr, Inhabited

def dot (a b : P3) : Int := a.x * b.x + a.y * b.y + a.z * b.z

abbrev Polytope := List HalfSpace

/-- the point with doubled coordinates `p` is strictly inside every half-space -/
def memPoly (P : Polytope) (p : P3) : Bool := P.all fun h => decide (dot h.n p < 2 * h.d)

/-- … inside or on the boundary -/
def memPolyClosed (P : Polytope) (p : P3) : Bool := P.all fun h => decide (dot h.n p ≤ 2 * h.d)

/-- the point lies on none of the face planes -/
def offFaces (P : Polytope) (p : P3) : Bool := P.all fun h => decide (dot h.n p ≠ 2 * h.d)

/-- the inside test of one volume: a predicate on (doubled) points -/
abbrev Inside := P3 → Bool

/-! ## integer poses: scale, flip, permute the axes, translate -/

inductive Perm3 where
  | xyz | xzy | yxz | yzx | zxy | zyx
deriving DecidableEq, Repr, Inhabited

def Perm3.app (π : Perm3) (p : P3) : P3 :=
  match π with
  | .xyz => ⟨p.x, p.y, p.z⟩
  | .xzy => ⟨p.x, p.z, p.y⟩
  | .yxz => ⟨p.y, p.x, p.z⟩
  | .yzx => ⟨p.y, p.z, p.x⟩
  | .zxy => ⟨p.z, p.x, p.y⟩
  | .zyx => ⟨p.z, p.y, p.x⟩

/-- `v ↦ perm (sign · scale · v) + t`; scales are positive naturals, `flip` negates an axis. -/
structure Pose where
  sx : Nat := 1
  sy : Nat := 1
  sz : Nat := 1
  fx : Bool := false
  fy : Bool := false
  fz : Bool := false
  perm : Perm3 := .xyz
  t : P3 := ⟨0, 0, 0⟩
deriving Repr, Inhabited

def sgn (f : Bool) (s : Nat) : Int := if f then -(s : Int) else (s : Int)

/-- linear part (no translation) -/
def Pose.lin (π : Pose) (p : P3) : P3 :=
  π.perm.app ⟨sgn π.fx π.sx * p.x, sgn π.fy π.sy * p.y, sgn π.fz π.sz * p.z⟩

/-- image of a mesh vertex / box corner (mesh units) -/
def Pose.vert (π : Pose) (p : P3) : P3 :=
  let q := π.lin p
  ⟨q.x + π.t.x, q.y + π.t.y, q.z + π.t.z⟩

/-- image of a query point (doubled units: the translation is doubled too) -/
def Pose.pt (π : Pose) (p : P3) : P3 :=
  let q := π.lin p
  ⟨q.x + 2 * π.t.x, q.y + 2 * π.t.y, q.z + 2 * π.t.z⟩

/-- image of a box: transform both corners, re-sort them per axis (a flip swaps `lo` and `hi`) -/
def Pose.box (π : Pose) (b : Box) : Box :=
  let a := π.vert b.lo
  let c := π.vert b.hi
  ⟨⟨min a.x c.x, min a.y c.y, min a.z c.z⟩, ⟨max a.x c.x, max a.y c.y, max a.z c.z⟩⟩

def Pose.solid (π : Pose) (S : Solid) : Solid := S.map fun sb => (sb.1, π.box sb.2)

def Pose.ok (π : Pose) : Prop := 0 < π.sx ∧ 0 < π.sy ∧ 0 < π.sz

instance (π : Pose) : Decidable π.ok := by unfold Pose.ok; exact inferInstance

/-! ## `in_volume` -/

inductive Mode where
  | IN | OUT
deriving DecidableEq, Repr, Inhabited

/-- `in_volume(points, vol)` for an `(N,3)` array: one bit per point, in order (`mode` plays no role here).
`μ` is the inside test of the volume: `mem S` for a box complex, `memPoly P` for a convex polytope — and, on the navis
side, whatever the ray caster answers. -/
def inVolumePoints (μ : Inside) (pts : List P3) : List Bool := pts.map μ

/-- `if mode == 'OUT': in_v = ~in_v` -/
def keepMask (mode : Mode) (inV : List Bool) : List Bool :=
  match mode with
  | .IN => inV
  | .OUT => inV.map (!·)

/-- `l[mask]` -/
def masked {α} (l : List α) (m : List Bool) : List α :=
  (l.zip m).filterMap fun am => if am.2 then some am.1 else none

/-- `arange(n)[mask]` -/
def maskedIdx (m : List Bool) : List Nat := masked (List.range m.length) m

/-! ### TreeNeuron -/

structure Node where
  id : Int
  pos : P3
deriving DecidableEq, Repr, Inhabited

/-- connector row: `connector_id`, and the `node_id` it is attached to -/
structure Conn where
  cid : Int
  node : Int
deriving DecidableEq, Repr, Inhabited

/-- what C18 observes of a skeleton: node ids + positions (row order) and the connector table
(parent links are the subject of C01 / C10) -/
structure Tree where
  nodes : List Node
  conns : List Conn
deriving DecidableEq, Repr, Inhabited

def Tree.ids (t : Tree) : List Int := t.nodes.map (·.id)

/-- `subset_neuron(x, subset=ids)` restricted to what C18 observes:
`nodes[node_id.isin(subset)]`, then `connectors[connectors.node_id.isin(nodes.node_id)]`. -/
def subsetTree (t : Tree) (subset : List Int) : Tree :=
  let nodes := t.nodes.filter fun v => subset.contains v.id
  { nodes := nodes, conns := t.conns.filter fun c => (nodes.map (·.id)).contains c.node }

def inVolumeTree (μ : Inside) (mode : Mode) (t : Tree) : Tree :=
  if (keepMask mode (inVolumePoints μ (t.nodes.map (·.pos)))).all id then t
  else subsetTree t (masked t.ids (keepMask mode (inVolumePoints μ (t.nodes.map (·.pos)))))

/-- `x.prune_by_volume(v, mode)` is `in_volume(copy, v, mode=mode, inplace=True)`. -/
def pruneByVolume (μ : Inside) (mode : Mode) (t : Tree) : Tree := inVolumeTree μ mode t

/-- `in_volume(NeuronList, vol)` -/
def inVolumeList (μ : Inside) (mode : Mode) (ts : List Tree) : List Tree := ts.map (inVolumeTree μ mode)

/-! ### several volumes: Python dicts as association lists (insertion order, unique keys) -/

def dget {β} : List (String × β) → String → Option β
  | [], _ => none
  | (k', v) :: t, k => if k' = k then some v else dget t k

/-- `d[k] = v` -/
def dset {β} : List (String × β) → String → β → List (String × β)
  | [], k, v => [(k, v)]
  | (k', v') :: t, k, v => if k' = k then (k, v) :: t else (k', v') :: dset t k v

/-- `{k: v for k, v in items}` -/
def mkDict {β} (items : List (String × β)) : List (String × β) :=
  items.foldl (fun d kv => dset d kv.1 kv.2) []

/-- `data = dict(); for v in volume: data[v] = in_volume(x, volume[v], …)` for a generic single-volume
answer `f` (mask of points, pruned neuron, pruned neuron list). -/
def inVolumeDict {σ β} (f : σ → β) (vols : List (String × σ)) : List (String × β) :=
  vols.foldl (fun d kv => dset d kv.1 (f kv.2)) []

/-- a *list* of volumes is keyed by `Volume.name`; duplicate names raise `ValueError` (`none`) -/
def inVolumeNamed {σ β} (f : σ → β) (vols : List (String × σ)) : Option (List (String × β)) :=
  if (vols.map (·.1)).Nodup then some (inVolumeDict f (mkDict vols)) else none

/-- `intersection_matrix(x, volumes, attr)`: rows = volume names, columns = neurons. -/
def intersectionMatrix {σ β} (inside : σ → Inside) (attr : Tree → β) (mode : Mode) (vols : List (String × σ))
    (ts : List Tree) : List (String × List β) :=
  (inVolumeDict (fun v => inVolumeList (inside v) mode ts) vols).map fun kv => (kv.1, kv.2.map attr)

/-- `intersection_matrix(x, [vol, …], attr)` with a *list* of volumes: keyed by `Volume.name`; duplicated names raise
`ValueError` (`none`) — the same check `in_volume` applies to a list (since fix 5cc1939; before, `{v.name: v for v in
volumes}` silently kept only the last volume of a name). -/
def intersectionMatrixList {σ β} (inside : σ → Inside) (attr : Tree → β) (mode : Mode) (vols : List (String × σ))
    (ts : List Tree) : Option (List (String × List β)) :=
  if (vols.map (·.1)).Nodup then some (intersectionMatrix inside attr mode (mkDict vols) ts) else none

/-! ## `snap` -/

def sq (a : Int) : Int := a * a

/-- squared Euclidean distance -/
def d2 (a b : P3) : Int := sq (a.x - b.x) + sq (a.y - b.y) + sq (a.z - b.z)

/-- running argmin: `(bi, bv)` best so far, `i` index of the head of the remaining list; strict `<` keeps the first
minimum -/
def argminAux (bi : Nat) (bv : Int) (i : Nat) : List Int → Nat × Int
  | [] => (bi, bv)
  | v :: t => if v < bv then argminAux i v (i + 1) t else argminAux bi bv (i + 1) t

def argmin : List Int → Option (Nat × Int)
  | [] => none
  | v :: t => some (argminAux 0 v 1 t)

/-- `dist², ix = tree.query(p)` -/
def snapIdx (data : List P3) (p : P3) : Option (Nat × Int) := argmin (data.map (d2 p))

/-- `TreeNeuron.snap(p)`: `node_id.values[ix]` (also `connector_id.values[ix]` for `to='connectors'`). -/
def snapId (ids : List Int) (data : List P3) (p : P3) : Option (Int × Int) :=
  match snapIdx data p with
  | none => none
  | some (ix, d) => some (ids.getD ix 0, d)

def snapTree (t : Tree) (p : P3) : Option (Int × Int) := snapId t.ids (t.nodes.map (·.pos)) p

/-! ### `snap` with non-integer queries and the dtype the query is cast to

`locs = np.asarray(locs).astype(<dtype>)` stands at the top of every `snap`.  Queries travel in **tenths** (`q10 = 10 · q`,
integers), the data rows are integers; `d2 q10 (scale10 v)` is 100 × the squared Euclidean distance between the query and row
`v`.  Casting to an *integer* dtype truncates every coordinate toward zero. -/

def scale10 (p : P3) : P3 := ⟨10 * p.x, 10 * p.y, 10 * p.z⟩

/-- `astype(int)` of a coordinate given in tenths: truncation toward zero (result again in tenths) -/
def trunc10 (a : Int) : Int := 10 * a.tdiv 10

/-- what the query is cast to: `np.float64`, the dtype of the neuron's own coordinate array, or something else
(not recognised / another float type: no truncation modelled) -/
inductive QCast where
  | float64 | data | other
deriving DecidableEq, Repr, Inhabited

def castQuery (c : QCast) (dataIsInt : Bool) (q10 : P3) : P3 :=
  match c with
  | .data => if dataIsInt then ⟨trunc10 q10.x, trunc10 q10.y, trunc10 q10.z⟩ else q10
  | _ => q10

/-- `snap` as the source casts: `(row, 100·dist²)` — the distance is measured from the *cast* query -/
def snapQ (c : QCast) (dataIsInt : Bool) (data : List P3) (q10 : P3) : Option (Nat × Int) :=
  snapIdx (data.map scale10) (castQuery c dataIsInt q10)

/-- number of rows at minimal distance from the cast query (`> 1`: the kd-tree may return any of them) -/
def snapQTies (c : QCast) (dataIsInt : Bool) (data : List P3) (q10 : P3) : Nat :=
  match snapQ c dataIsInt data q10 with
  | none => 0
  | some (_, m) => (data.filter fun r => d2 (castQuery c dataIsInt q10) (scale10 r) == m).length

/-- checker for navis' own answer `(ix, num/den)` to the query `q10/10`: `ix` is a row, no row is nearer to the TRUE query, and
the returned distance `g = num/den` satisfies `|g² − D| ≤ D·2⁻¹² + 2⁻²⁰` for the exact squared distance `D = dd/100`
(room for float32 coordinates and the inexact decimal query; a truncated query is off by ≥ 0.1) -/
def checkNearestQ (data : List P3) (q10 : P3) (ix : Nat) (num den : Int) : Bool :=
  match data[ix]? with
  | none => false
  | some v =>
    (data.all fun r => decide (d2 q10 (scale10 v) ≤ d2 q10 (scale10 r))) && decide (0 < den)
      && decide ((100 * (num * num) - d2 q10 (scale10 v) * (den * den)).natAbs * 2 ^ 32
          ≤ ((d2 q10 (scale10 v) * 2 ^ 20 + 100 * 2 ^ 12) * (den * den)).natAbs)

/-! ### Dotprops -/

/-- connector with a position (attached to the nearest point / vertex by `snap`) -/
structure PConn where
  cid : Int
  pos : P3
deriving DecidableEq, Repr, Inhabited

structure Dots where
  pts : List P3
  conns : List PConn
deriving Repr, Inhabited

/-- `connectors["point"] = x.snap(connectors[xyz])[0]` -/
def attach (data : List P3) (c : PConn) : Nat := ((snapIdx data c.pos).map (·.1)).getD 0

/-- result of pruning a point cloud: original indices of the kept points, kept connectors with their *new*
`point` index -/
structure DotsOut where
  kept : List Nat
  conns : List (Int × Nat)
deriving DecidableEq, Repr, Inhabited

/-- `subset_neuron(dotprops, subset=mask)`: `_subset_dotprops` -/
def subsetDots (d : Dots) (subset : List Nat) : DotsOut :=
  { kept := subset,
    conns := (d.conns.filter fun c => subset.contains (attach d.pts c)).map
      fun c => (c.cid, subset.idxOf (attach d.pts c)) }

/-- nothing to remove: the neuron is returned as it is -/
def allDots (d : Dots) : DotsOut :=
  { kept := List.range d.pts.length, conns := d.conns.map fun c => (c.cid, attach d.pts c) }

def inVolumeDots (μ : Inside) (mode : Mode) (d : Dots) : DotsOut :=
  if (keepMask mode (inVolumePoints μ d.pts)).all id then allDots d
  else subsetDots d (maskedIdx (keepMask mode (inVolumePoints μ d.pts)))

/-! ### MeshNeuron -/

structure Face where
  a : Nat
  b : Nat
  c : Nat
deriving DecidableEq, Repr, Inhabited

structure Mesh where
  verts : List P3
  faces : List Face
  conns : List PConn
deriving Repr, Inhabited

def Face.allIn (f : Face) (s : List Nat) : Bool := s.contains f.a && s.contains f.b && s.contains f.c
def Face.has (f : Face) (i : Nat) : Bool := f.a == i || f.b == i || f.c == i

/-- `submesh(vertex_index=subset)`: faces with all three vertices in `subset`; `np.unique` of their vertices -/
def submeshVerts (m : Mesh) (subset : List Nat) : List Nat :=
  (List.range m.verts.length).filter fun i => m.faces.any fun f => f.allIn subset && f.has i

structure MeshOut where
  /-- original indices of the vertices of the pruned mesh, ascending -/
  kept : List Nat
  /-- kept faces (original vertex indices) -/
  faces : List Face
  /-- kept connectors (those whose vertex survives) with the `vertex_id` the code writes: position in `kept` -/
  conns : List (Int × Nat)
  /-- `subset`: the vertices the volume test selected -/
  subset : List Nat
deriving DecidableEq, Repr, Inhabited

/-- `subset_neuron(mesh, subset=mask)`: `_subset_meshneuron` + `submesh` -/
def subsetMesh (m : Mesh) (subset : List Nat) : MeshOut :=
  { kept := submeshVerts m subset, faces := m.faces.filter (·.allIn subset),
    conns := (m.conns.filter fun c => (submeshVerts m subset).contains (attach m.verts c)).map
      fun c => (c.cid, (submeshVerts m subset).idxOf (attach m.verts c)),
    subset := subset }

def allMesh (m : Mesh) : MeshOut :=
  { kept := List.range m.verts.length, faces := m.faces,
    conns := m.conns.map fun c => (c.cid, attach m.verts c), subset := List.range m.verts.length }

def inVolumeMesh (μ : Inside) (mode : Mode) (m : Mesh) : MeshOut :=
  if (keepMask mode (inVolumePoints μ m.verts)).all id then allMesh m
  else subsetMesh m (maskedIdx (keepMask mode (inVolumePoints μ m.verts)))

/-- a face with vertices on both sides of the surface -/
def Face.straddles (μ : Inside) (verts : List P3) (f : Face) : Bool :=
  let i := fun k => μ (verts.getD k ⟨0, 0, 0⟩)
  !(i f.a == i f.b && i f.b == i f.c)

/-! ### VoxelNeuron -/

/-- what C18 observes of a `VoxelNeuron` built from an `(N,3)` voxel table: the voxel indices (rows of `x.voxels`), the
parallel `x.values`, `x.units_xyz.magnitude` and `x.offset` (integers here) -/
structure Vox where
  cells : List P3
  values : List Int
  units : P3
  offset : P3
deriving DecidableEq, Repr, Inhabited

/-- `x.voxels * units + units / 2 + offset`, in doubled coordinates (a half-integer point iff all units are odd) -/
def Vox.centre2 (v : Vox) (c : P3) : P3 :=
  ⟨2 * (c.x * v.units.x) + v.units.x + 2 * v.offset.x, 2 * (c.y * v.units.y) + v.units.y + 2 * v.offset.y,
   2 * (c.z * v.units.z) + v.units.z + 2 * v.offset.z⟩

structure VoxOut where
  cells : List P3
  values : List Int
deriving DecidableEq, Repr, Inhabited

/-- `values = x.values[in_v]; x._data = x.voxels[in_v]; x.values = values` (only `if not all(in_v)`) -/
def inVolumeVox (μ : Inside) (mode : Mode) (v : Vox) : VoxOut :=
  if (keepMask mode (inVolumePoints μ (v.cells.map v.centre2))).all id then ⟨v.cells, v.values⟩
  else ⟨masked v.cells (keepMask mode (inVolumePoints μ (v.cells.map v.centre2))),
        masked v.values (keepMask mode (inVolumePoints μ (v.cells.map v.centre2)))⟩

/-! ### back-end selection and ray counts (`in_volume`, `in_volume_ncoll`, `in_volume_pyoc`) -/

/-- `for b in backend: if b == 'ncollpyde' and ncollpyde: … elif b == 'pyoctree' and pyoctree: … elif b == 'scipy': …` —
the first requested back-end that is available (`scipy` always is); `none` = `ValueError('None of the specified backends
were available')` -/
def selectBackend (available : String → Bool) : List String → Option String
  | [] => none
  | b :: t => if b == "scipy" || available b then some b else selectBackend available t

/-- result of the ray-count preamble of a ray-casting back-end -/
inductive Rays where
  | ok (n : Nat)
  | valueError
deriving DecidableEq, Repr, Inhabited

/-- `if n_rays is None: n_rays = default`; `if n_rays <= 0: raise ValueError` (a non-integer raises `TypeError` before) -/
def effRays (default : Nat) : Option Int → Rays
  | none => .ok default
  | some n => if n ≤ 0 then .valueError else .ok n.toNat

/-! ### `in_volume_pyoc`: bounding-box pre-filter and ray consensus

```
is_out = (points > mx).any(axis=1) | (points < mn).any(axis=1)
for i in range(n_rays):
    in_points = points[~is_out]                      # only points still "in" are re-tested
    …is_even = parity of the intersections of ray i with the mesh above each of those points…
    is_out[~is_out] = is_even
return ~is_out
```
A ray is abstracted to its verdict `odd : α → Bool` ("an odd number of crossings": inside); the state is the list of
`(point, is_out)` pairs. -/

/-- one iteration: `is_out[~is_out] = is_even` -/
def pyocRay {α} (odd : α → Bool) (st : List (α × Bool)) : List (α × Bool) :=
  st.map fun x => (x.1, if x.2 then true else !odd x.1)

def pyocLoop {α} (inBBox : α → Bool) (rays : List (α → Bool)) (pts : List α) : List Bool :=
  (rays.foldl (fun st r => pyocRay r st) (pts.map fun p => (p, !inBBox p))).map fun x => !x.2

/-! ## run-time checkers evaluated by the driver on navis' own output (soundness: `Props/C18`) -/

/-- `a` and `b` partition `all`: together a permutation of `all`, nothing in common -/
def checkPartition (all a b : List Int) : Bool := (a ++ b).isPerm all && a.all fun i => !b.contains i

/-- the kept connector ids are exactly the connectors attached to kept nodes -/
def checkOwnConns (conns : List Conn) (keptNodes : List Int) (keptConns : List Int) : Bool :=
  keptConns.isPerm ((conns.filter fun c => keptNodes.contains c.node).map (·.cid))

/-- `ix` is a valid row, `dd` is its squared distance to `p`, and no row is nearer -/
def checkNearest (data : List P3) (p : P3) (ix : Nat) (dd : Int) : Bool :=
  match data[ix]? with
  | none => false
  | some q => decide (d2 p q = dd) && data.all fun r => decide (dd ≤ d2 p r)

/-- the mask navis returns for points is the exact membership -/
def checkMask (μ : Inside) (pts : List P3) (mask : List Bool) : Bool := mask == inVolumePoints μ pts

/-- the rows `(voxel, value)` navis keeps are exactly the rows whose voxel centre the mode keeps, in order -/
def checkVoxKept (μ : Inside) (mode : Mode) (v : Vox) (kept : List (P3 × Int)) : Bool :=
  kept == (v.cells.zip v.values).filter fun cv =>
    match mode with
    | .IN => μ (v.centre2 cv.1)
    | .OUT => !μ (v.centre2 cv.1)

end Navis.Volume
