/-
Byte-level model of neuroglancer's *precomputed* skeleton and (legacy) mesh fragment files as navis
writes and reads them (`navis/io/precomputed_io.py`), plus the unit part of the NRRD header
(`navis/io/nrrd_io.py`) (C14).

* A byte is a `Nat`; the guard `< 256` (`BytesOK`) is stated explicitly wherever it matters.
* A float32 is an opaque 32-bit pattern (`Nat`, guard `< 2^32`): IEEE arithmetic is not modelled, the
  harness produces the patterns with `struct.pack('<f', …)`.
* Encoders use `/ 256`, `% 256` (numpy `tobytes` / `struct.pack('<II')` on a little-endian host);
  decoders use positional weights over `take`/`drop` – they share no code with the encoders.
* Two decoders per format: `decode…` is the *independent decoder of the published format* (exact
  length, every count honoured); `navisRead…` follows the code that exists: every counted block is read
  with `_read_exactly` (a short read raises), bytes after the last announced block are ignored, and the
  face block of a mesh is `np.frombuffer(f.read()).reshape(-1, 3)` (whatever is left must be whole triangles).
  (Before the repair of DESIGN §6 #16 the reader used `np.frombuffer(f.read(k))`, which accepts short reads.)
-/
namespace Navis.Codec

/-! ### little-endian words -/

/-- `n` on `s` bytes, least significant first. -/
def le : Nat → Nat → List Nat
  | 0, _ => []
  | s + 1, n => n % 256 :: le s (n / 256)

/-- Value of a little-endian byte string (positional weights). -/
def fromLE : List Nat → Nat
  | [] => 0
  | b :: bs => b + 256 * fromLE bs

/-- `struct.pack('<I', n)` / `np.uint32(n).tobytes()`. -/
def u32le (n : Nat) : List Nat := le 4 n

/-- Independent `uint32` reader: four bytes, explicit weights. -/
def readU32 : List Nat → Option (Nat × List Nat)
  | b0 :: b1 :: b2 :: b3 :: rest => some (b0 + 256 * b1 + 65536 * b2 + 16777216 * b3, rest)
  | _ => none

def BytesOK (bs : List Nat) : Prop := ∀ b ∈ bs, b < 256

/-- Read one `s`-byte item; fails when fewer than `s` bytes are left. -/
def readWord (s : Nat) (bs : List Nat) : Option (Nat × List Nat) :=
  if bs.length < s then none else some (fromLE (bs.take s), bs.drop s)

/-- Read exactly `k` consecutive `s`-byte items. -/
def readWords (s : Nat) : Nat → List Nat → Option (List Nat × List Nat)
  | 0, bs => some ([], bs)
  | k + 1, bs =>
    match readWord s bs with
    | none => none
    | some (w, r) =>
      match readWords s k r with
      | none => none
      | some (ws, r') => some (w :: ws, r')

/-- `arr.tobytes()` of a flat array with `s`-byte items. -/
def encWords (s : Nat) (ws : List Nat) : List Nat := ws.flatMap (le s)

/-- `np.frombuffer(f.read(s * k), dtype)` : the *available* bytes (at most `s*k`) must be a whole
number of items; fewer items than asked for is **not** an error. Returns items and the rest. -/
def availWords (s k : Nat) (bs : List Nat) : Option (List Nat × List Nat) :=
  if (bs.take (s * k)).length % s ≠ 0 then none else
    match readWords s ((bs.take (s * k)).length / s) (bs.take (s * k)) with
    | none => none
    | some (ws, _) => some (ws, bs.drop (s * k))

/-! ### reshape(-1, 3) / reshape(-1, 2) -/

abbrev V3 := Nat × Nat × Nat

def triples : List Nat → Option (List V3)
  | [] => some []
  | x :: y :: z :: r => (triples r).map ((x, y, z) :: ·)
  | _ => none

def pairs : List Nat → Option (List (Nat × Nat))
  | [] => some []
  | p :: c :: r => (pairs r).map ((p, c) :: ·)
  | _ => none

def flat3 (vs : List V3) : List Nat := vs.flatMap fun v => [v.1, v.2.1, v.2.2]
def flat2 (es : List (Nat × Nat)) : List Nat := es.flatMap fun e => [e.1, e.2]

/-! ### precomputed skeleton -/

/-- One entry of `info["vertex_attributes"]`: id, dtype item size in bytes, `num_components`. -/
structure AttrSpec where
  id : String
  size : Nat
  comps : Nat
deriving Repr, DecidableEq

/-- Content of a skeleton file. `edges` are `(parent row, child row)` – the order navis writes.
`attrs[j]` holds `verts.length * specs[j].comps` items, row-major. -/
structure Skel where
  verts : List V3
  edges : List (Nat × Nat)
  attrs : List (List Nat)
deriving Repr, DecidableEq

def encAttrs : List AttrSpec → List (List Nat) → List Nat
  | sp :: sps, vs :: vss => encWords sp.size vs ++ encAttrs sps vss
  | _, _ => []

/-- `_write_skeleton`: `struct.pack('<II', n, e)`, vertex positions, edges, attributes. -/
def encodeSkel (specs : List AttrSpec) (sk : Skel) : List Nat :=
  u32le sk.verts.length ++ (u32le sk.edges.length ++
    (encWords 4 (flat3 sk.verts) ++ (encWords 4 (flat2 sk.edges) ++ encAttrs specs sk.attrs)))

/-- Everything the encoder needs to be injective: counts and words fit their fields and the attribute
columns have the shape announced in `specs`. -/
def AttrsOK (n : Nat) : List AttrSpec → List (List Nat) → Prop
  | [], [] => True
  | sp :: sps, vs :: vss => vs.length = n * sp.comps ∧ (∀ v ∈ vs, v < 256 ^ sp.size) ∧ AttrsOK n sps vss
  | _, _ => False

structure Skel.OK (specs : List AttrSpec) (sk : Skel) : Prop where
  nverts : sk.verts.length < 2 ^ 32
  nedges : sk.edges.length < 2 ^ 32
  vwords : ∀ w ∈ flat3 sk.verts, w < 2 ^ 32
  ewords : ∀ w ∈ flat2 sk.edges, w < 2 ^ 32
  attrs : AttrsOK sk.verts.length specs sk.attrs

/-- Strict attribute reader: exactly `n * comps` items per attribute. -/
def readAttrs (n : Nat) : List AttrSpec → List Nat → Option (List (List Nat) × List Nat)
  | [], bs => some ([], bs)
  | sp :: sps, bs =>
    match readWords sp.size (n * sp.comps) bs with
    | none => none
    | some (vs, r) =>
      match readAttrs n sps r with
      | none => none
      | some (vss, r') => some (vs :: vss, r')

/-- **Independent decoder of the published format**: counts, `3n` float32 words, `2e` uint32 words,
the attributes listed in the `info` file, and nothing else. -/
def decodeSkel (specs : List AttrSpec) (bs : List Nat) : Option Skel :=
  match readU32 bs with
  | none => none
  | some (n, r1) =>
    match readU32 r1 with
    | none => none
    | some (e, r2) =>
      match readWords 4 (3 * n) r2 with
      | none => none
      | some (vw, r3) =>
        match readWords 4 (2 * e) r3 with
        | none => none
        | some (ew, r4) =>
          match readAttrs n specs r4 with
          | none => none
          | some (as, r5) =>
            if r5 ≠ [] then none else
              match triples vw, pairs ew with
              | some vs, some es => some ⟨vs, es, as⟩
              | _, _ => none

/-- Total byte length of a well-formed skeleton file with `n` vertices and `e` edges. -/
def attrBytes (n : Nat) : List AttrSpec → Nat
  | [] => 0
  | sp :: sps => sp.size * (n * sp.comps) + attrBytes n sps

def skelLen (specs : List AttrSpec) (n e : Nat) : Nat := 8 + 12 * n + 8 * e + attrBytes n specs

/-- **The reader that exists** (`PrecomputedSkeletonReader.read_buffer`, repaired): counts, then every block
with `_read_exactly` (fails when fewer bytes are left than the header announces), attributes in the order
of the `info` file; trailing bytes are ignored (e.g. a `radius` block the `info` file does not announce).
Limit: the `int32` cast of the parent column is not modelled (row indices `< 2^31`). -/
def navisReadSkel (specs : List AttrSpec) (bs : List Nat) : Option Skel :=
  match readWord 4 bs with
  | none => none
  | some (n, r1) =>
    match readWord 4 r1 with
    | none => none
    | some (e, r2) =>
      match readWords 4 (3 * n) r2 with
      | none => none
      | some (vw, r3) =>
        match triples vw with
        | none => none
        | some vs =>
          match readWords 4 (2 * e) r3 with
          | none => none
          | some (ew, r4) =>
            match pairs ew with
            | none => none
            | some es =>
              match readAttrs n specs r4 with
              | none => none
              | some (as, _) => some ⟨vs, es, as⟩

/-! ### precomputed (legacy) mesh fragment -/

structure Mesh where
  verts : List V3
  faces : List V3
deriving Repr, DecidableEq

/-- `_write_mesh`: `[n_vertices, vertices(float32), faces(uint32)]`, C order. -/
def encodeMesh (m : Mesh) : List Nat :=
  u32le m.verts.length ++ (encWords 4 (flat3 m.verts) ++ encWords 4 (flat3 m.faces))

structure Mesh.OK (m : Mesh) : Prop where
  nverts : m.verts.length < 2 ^ 32
  vwords : ∀ w ∈ flat3 m.verts, w < 2 ^ 32
  fwords : ∀ w ∈ flat3 m.faces, w < 2 ^ 32

/-- Independent decoder: the vertex block must be complete and the rest must be whole triangles
(the format has no face count, so the number of faces *is* `rest / 12`). -/
def decodeMesh (bs : List Nat) : Option Mesh :=
  match readU32 bs with
  | none => none
  | some (n, r1) =>
    match readWords 4 (3 * n) r1 with
    | none => none
    | some (vw, r2) =>
      if r2.length % 12 ≠ 0 then none else
        match readWords 4 (3 * (r2.length / 12)) r2 with
        | none => none
        | some (fw, _) =>
          match triples vw, triples fw with
          | some vs, some fs => some ⟨vs, fs⟩
          | _, _ => none

/-- `PrecomputedMeshReader.read_buffer` (repaired): the vertex block is read with `_read_exactly`, then
`frombuffer(f.read()).reshape(-1,3)`. -/
def navisReadMesh (bs : List Nat) : Option Mesh :=
  match readWord 4 bs with
  | none => none
  | some (n, r1) =>
    match readWords 4 (3 * n) r1 with
    | none => none
    | some (vw, r2) =>
      match triples vw with
      | none => none
      | some vs =>
        match availWords 4 (r2.length / 4 + 1) r2 with   -- `f.read()`: everything that is left
        | none => none
        | some (fw, _) =>
          match triples fw with
          | none => none
          | some fs => some ⟨vs, fs⟩

/-! ### table level: node ids → row indices on write, row index → parent on read -/

/-- A row of the node table; coordinates and radius are float32 bit patterns. -/
structure Row where
  id : Int
  parent : Int
  xyz : V3
  radius : Nat
deriving Repr, DecidableEq

def ids (t : List Row) : List Int := t.map (·.id)

/-- `x.edges` (rows with `parent_id >= 0`, as `(node_id, parent_id)`) mapped to row indices through
`node_ix.loc[...]` and swapped to `(parent, child)`. -/
def writeEdges (t : List Row) : List (Nat × Nat) :=
  (t.filter fun r => decide (0 ≤ r.parent)).map fun r => ((ids t).idxOf r.parent, (ids t).idxOf r.id)

/-- `_write_skeleton(x, radius=…)` up to the byte encoder. -/
def toSkel (t : List Row) (radius : Bool) : Skel :=
  ⟨t.map (·.xyz), writeEdges t, if radius then [t.map (·.radius)] else []⟩

def radiusSpec : AttrSpec := ⟨"radius", 4, 1⟩
def specsFor (radius : Bool) : List AttrSpec := if radius then [radiusSpec] else []

/-- `edge_dict = dict(zip(edges[:, 1], edges[:, 0]))`; `edge_dict.get(i, -1)` (last entry wins). -/
def parentOf (es : List (Nat × Nat)) (i : Nat) : Int :=
  match es.reverse.find? fun e => e.2 == i with
  | some e => (e.1 : Int)
  | none => -1

/-- `make_swc`: `node_id = arange(n)`, parent from the edge dictionary. Result: the parent column. -/
def readParents (sk : Skel) : List Int := (List.range sk.verts.length).map (parentOf sk.edges)

/-- What a skeleton looks like after a round trip: node ids replaced by row indices. -/
def relabelParent (t : List Row) (r : Row) : Int :=
  if r.parent < 0 then -1 else (((ids t).idxOf r.parent : Nat) : Int)

def relabelByRow (t : List Row) : List Int := t.map (relabelParent t)

/-- Table-level input guard of `_write_skeleton`: unique ids, every parent negative or present. -/
def TableOK (t : List Row) : Prop :=
  (ids t).Nodup ∧ ∀ r ∈ t, r.parent < 0 ∨ r.parent ∈ ids t

/-- A table can be written when ids are unique, parents are negative or present, and counts and
float32 patterns fit their 32-bit fields. -/
structure Writable (t : List Row) : Prop where
  table : TableOK t
  size : t.length < 2 ^ 32
  coords : ∀ r ∈ t, r.xyz.1 < 2 ^ 32 ∧ r.xyz.2.1 < 2 ^ 32 ∧ r.xyz.2.2 < 2 ^ 32
  radii : ∀ r ∈ t, r.radius < 2 ^ 32

/-! ### NRRD header: the units part -/

/-- What `_write_nrrd` puts into the header for a neuron with per-axis unit magnitudes `m` (in the
neuron's base unit `u`): `space directions = diag(m)`, `space units = [u,u,u]`. -/
structure NrrdUnits where
  dirs : V3          -- the diagonal of `space directions`
  unit : String
deriving Repr, DecidableEq

def nrrdWriteUnits (m : V3) (u : String) : NrrdUnits := ⟨m, u⟩

/-- `NrrdReader.read_buffer` + `convert_image`, voxel output: `units = [f"{m} {u}" …]` per axis. -/
def nrrdReadVoxelUnits (h : NrrdUnits) : V3 × String := (h.dirs, h.unit)

/-- … dotprops output with 2-D data (repaired, DESIGN §6 #18): points are taken as they are and the units
are those of the header, `[f"{m} {u}" …]` (before the repair: `"1 {u}"`). -/
def nrrdReadDotpropsUnits (h : NrrdUnits) : V3 × String := (h.dirs, h.unit)

/-! ### layout description

What the encoders / decoders above implement, in the vocabulary of the source (dtype names, field
order, column indices). `Props/C14.lean` proves that the definitions the translator regenerates from the
current navis source (`Gen/IoConsts.lean`) coincide with these. -/
namespace Layout

/-- Byte width of the dtypes that may appear in the files. -/
def dtypeSize : String → Option Nat
  | "uint8" => some 1 | "int8" => some 1
  | "uint16" => some 2 | "int16" => some 2 | "float16" => some 2
  | "uint32" => some 4 | "int32" => some 4 | "float32" => some 4
  | "uint64" => some 8 | "int64" => some 8 | "float64" => some 8
  | _ => none

/-- `encodeSkel`: counts (`<II` = two little-endian uint32), vertices, edges, then the radius attribute. -/
def skelWriterOrder : List String := ["header", "vertex_positions", "edges", "radius"]
def skelHeaderFmt : String := "<II"
def skelWriterDtypes : List (String × String) :=
  [("vertex_positions", "float32"), ("edges", "uint32"), ("radius", "float32")]
/-- `writeEdges` emits `(parent, child)` from navis' `(child, parent)` edge rows: columns `[1, 0]`. -/
def skelEdgeColumns : List Nat := [1, 0]
/-- `navisReadSkel`: (target, dtype, factors of the read size, reshape columns). -/
def skelReaderFields : List (String × String × List String × Nat) :=
  [("num_nodes", "uint32", ["4"], 0), ("num_edges", "uint32", ["4"], 0),
   ("nodes", "float32", ["3", "4", "num_nodes"], 3), ("edges", "uint32", ["2", "4", "num_edges"], 2)]
/-- `parentOf`: key = child = column 1, value = parent = column 0, default `-1`. -/
def edgeDictKeyCol : Nat := 1
def edgeDictValCol : Nat := 0
def edgeDictDefault : Int := -1

def meshWriterOrder : List String := ["n_vertices", "vertices", "faces"]
def meshWriterDtypes : List (String × String) :=
  [("n_vertices", "uint32"), ("vertices", "float32"), ("faces", "uint32")]
def meshReaderFields : List (String × String × List String × Nat) :=
  [("num_vertices", "uint32", ["4"], 0), ("vertices", "float32", ["3", "4", "num_vertices"], 3),
   ("faces", "uint32", [], 3)]

/-- Which reads are exact (`_read_exactly`): all counted blocks of both readers and the attribute blocks. -/
def skelReaderExact : List (String × Bool) :=
  [("num_nodes", true), ("num_edges", true), ("nodes", true), ("edges", true)]
def skelAttrReadExact : Bool := true
def meshReaderExact : List (String × Bool) := [("num_vertices", true), ("vertices", true), ("faces", false)]
/-- `writeEdges` maps ids to row indices first; the `uint32` cast comes last. -/
def skelEdgesCastAfterMapping : Bool := true

def infoTypes : List String := ["neuroglancer_legacy_mesh", "neuroglancer_skeletons"]
/-- `radiusSpec` as the `info` file announces it. -/
def radiusAttr : String × String × Nat := ("radius", "float32", 1)

/-- `nrrdWriteUnits`: the header keys that carry geometry, with the expressions assigned. -/
def nrrdHeaderWritten : List (String × String) :=
  [("space dimension", "3"), ("space directions", "np.diag(x.units_xyz.magnitude)"),
   ("space units", "[str(x.units_xyz.units)] * 3"), ("k", "x.k")]
def nrrdHeaderRead : List String := ["space directions", "space units"]

end Layout

end Navis.Codec
