import NavisModel.Model.DistX
import NavisModel.Model.EdgeDtype
import NavisModel.Gen.Dist
/-
The as-written models of `Model/DistX.lean` instantiated with the facts the translator extracted from the CURRENT
navis source (`Gen/Dist.lean`).  Used by the driver (the harness compares navis with these instances) and by
`Props/C05.lean` (which proves that these instances are the definitions).  No Mathlib.
-/
namespace Navis.DistX
open Navis.Forest Navis.Gen

/-- `geodesic_matrix`, navis-fastcore branch. -/
def fcCfg? : Option GeoCfg :=
  match GivenTest.ofName Dist.fcFromGiven, Dist.fcLimitGuard.mapM GuardAtom.ofName, Cmp.ofName Dist.fcLimitCmp,
        RowLab.ofExpr Dist.fcRowLabelGiven with
  | some gv, some g, some c, some lab =>
    some { fromGiven := gv
           uniq := Dist.fcFromNorm == "np.unique(utils.make_iterable(from_))"
           raisesOnMissing := Dist.fcMissTest == "len(from_[~np.isin(from_, x.nodes.node_id.values)])" && Dist.fcMissRaises == "ValueError"
           -- the rows the accelerator computes are its `sources`
           sel := if Dist.fcCallKws.contains "sources=from_" then .sourcesArg else .whereIsin
           lab := lab
           rowsAllAreNodeList := Dist.fcRowLabelAll == "x.nodes.node_id.values" && Dist.fcCallArgs == ["x.nodes.node_id.values", "x.nodes.parent_id.values"]
           colsAreNodeList := Dist.fcColLabel == "x.nodes.node_id.values" && Dist.fcData == "dmat"
           passDirected := Dist.fcCallKws.contains "directed=directed"
           passWeight := Dist.fcCallKws.contains "weights=weight" && Dist.fcWeightCmp == "Eq" && Dist.fcWeightLit == "weight"
             && Dist.fcParentDistRootDist == "0"
             && Dist.fcParentDistArgs == ["x.nodes.node_id.values", "x.nodes.parent_id.values", "x.nodes[['x', 'y', 'z']].values"]
           limit := if Dist.fcLimitValue == "np.inf" && Dist.limitMapUnits then .maskAssign g c else .ignored }
  | _, _, _, _ => none

/-- `geodesic_matrix`, scipy branch (igraph / networkx graphs). -/
def spCfg? : Option GeoCfg :=
  match GivenTest.ofName Dist.spFromGiven, RowSel.ofExpr Dist.spIndicesGiven, RowLab.ofExpr Dist.spRowLabelGiven with
  | some gv, some sel, some lab =>
    some { fromGiven := gv
           uniq := Dist.spFromNorm == "np.unique(utils.make_iterable(from_))"
           raisesOnMissing := Dist.spMissTest == "len(from_[~np.isin(from_, nodeList)].astype(str))" && Dist.spMissRaises == "ValueError"
           sel := sel
           lab := lab
           rowsAllAreNodeList := Dist.spRowLabelAll == "nodeList" && Dist.spIndicesAll == "None"
           -- the sparse matrix is built in `nodeList` order, and `nodeList` is the node ids in table order
           colsAreNodeList := Dist.spColLabel == "nodeList"
             && Dist.spNodeListIgraph.contains "np.array(x.igraph.vs.get_attribute_values('node_id'))"
             && Dist.spNodeListNx == ["np.array(x.graph.nodes())"] && Dist.spSparseNxArgs == ["x.graph,nodeList"]
           passDirected := Dist.spCallKws.contains "directed=directed"
           passWeight := Dist.spSparseIgraphKws == ["weight_attr=weight"] && Dist.spSparseNxKws == ["weight=weight"]
           limit := if Dist.spCallKws.contains "limit=limit" && Dist.limitMapUnits then .forwarded else .ignored }
  | _, _, _ => none

/-- The sentinel decoding of the fastcore branch: comparison and constant. -/
def fcSentinel? : Option (Cmp × Int) :=
  match Cmp.ofName Dist.fcSentinelCmp with
  | some c => if Dist.fcSentinelValue == "np.inf" && !Dist.fcSentinelGuarded && Dist.fcSentinelBeforeLimit then some (c, Dist.fcSentinelK) else none
  | none => none

/-- The non-root filter of `skeleton_adjacency_matrix`. -/
def adjCmp? : Option (Cmp × Int) := (Cmp.ofName Dist.adjCmp).map fun c => (c, Dist.adjK)

/-- `mat[rows, cols] = True`: rows are the positions of the filtered nodes, columns the positions of their parents
(id → position map over `node_id`), labels are the node ids on both axes. -/
def adjShapeOK : Bool :=
  Dist.adjRowIx == "np.arange(len(x.nodes))[" ++ Dist.adjMaskName ++ "]" &&
  Dist.adjColIx == "pd.Series(np.arange(len(x.nodes)), index=x.nodes.node_id.values).loc[x.nodes.parent_id.values[" ++ Dist.adjMaskName ++ "]].values" &&
  Dist.adjTarget == "np.zeros((len(x.nodes), len(x.nodes)), dtype=bool)" && Dist.adjValue == "True" &&
  Dist.adjIndex == "x.nodes.node_id.values" && Dist.adjColumns == "x.nodes.node_id.values" &&
  Dist.adjSortReindex == "(sort, sort)" && Dist.adjSortCallee == "node_label_sorting"

/-- All `parent_id <cmp> <k>` tests of the functions that decide which rows carry an edge. -/
def nonRootTests? : Option (List (String × Cmp × Int)) :=
  Dist.nonRootTests.mapM fun e => (Cmp.ofName e.2.1).map fun c => (e.1, c, e.2.2)

/-- `_generate_segments`, Python path. -/
def segCfg? : Option SegCfg :=
  match Cmp.ofName Dist.segLeafCmp, labelOfName Dist.segLeafType, Cmp.ofName Dist.segKeepCmp with
  | some .eq, some ll, some kc =>
    some { leafLabel := ll
           leafKeyIsRootDist := Dist.segLeafKey == "ROOTDIST.get(LEAF, 0)" && Dist.segDistKws.contains "weight=weight"
             && Dist.segDistKws.contains "igraph_indices=False"
           leafReverse := Dist.segLeafReverse == "True"
           walkAsModelled := Dist.segWalk == ["break-if:not-parents", "pick:0", "call:append:sequence", "break-if:in-seen", "call:add:seen", "next:successors"]
           keepCmp := kc
           keepK := Dist.segKeepK.toNat
           lengthIsRootDistDiff := Dist.segLengthExpr == "ROOTDIST[SEG[0]] - ROOTDIST[SEG[-1]]"
           finalLengthFirst := Dist.segFinalZip == ["lengths", "sequences"] && !Dist.segFinalHasKey && Dist.segFinalPick == 1
           finalReverse := Dist.segFinalReverse == "True"
           isolatedLast := Dist.segIsolatedAfterSort && Dist.segIsolatedAppend == ["np.array([node])"] && Dist.segIsolatedGraph == "x.graph" }
  | _, _, _ => none

/-- `_break_segments`, networkx branch: the type sets. -/
def brkSeeds? : Option (List Label) := Dist.brkNxSeeds.mapM labelOfName
def brkStops? : Option (List Label) := Dist.brkNxStops.mapM labelOfName

/-- `_break_segments`: loop condition, start of a segment, the `type` column; igraph branch: degree selectors and
the seed / stop formulas (what `Model/SegmentVariants.lean` of C04 models as written). -/
def brkShapeOK : Bool :=
  Dist.brkNxWhile == "parent not in stops" && Dist.brkNxStart == ["[s, parent]"] && Dist.brkNxColumn == ["x.nodes.type.isin"] &&
  Dist.brkIgWhile == "parent not in stops" && Dist.brkIgStart == ["[s, parent]"] &&
  Dist.brkIgSelect == ["branch:_indegree_gt=1,_outdegree=1", "end:_indegree=0", "root:_outdegree=0"] &&
  Dist.brkIgSeeds == ["branch + end", "set(seeds) - set(root)"] && Dist.brkIgStops == ["set(branch + root)"] &&
  Dist.brkFcArgs == ["x.nodes.node_id.values", "x.nodes.parent_id.values"]

/-- Point queries: which graph, which direction, which weight. -/
def pointShapeOK : Bool :=
  -- dist_to_root: directed shortest path lengths TO each root, with the caller's weight, merged over the roots
  Dist.rootArgs == ["x.graph"] && Dist.rootKws == ["target=root", "weight=weight"] && Dist.rootLoop == "root in x.root" &&
  Dist.rootUpdate == ["dist.update"] && Dist.rootIndexMap == "{id2ix[k]: v for k, v in dist.items()}" &&
  -- distal_to: `None` = all nodes, ids de-duplicated and sorted, directed (child → parent) reachability, `!= inf`
  Dist.distalGiven == ["is-not-None"] &&
  Dist.distalNorm == ["tnA=np.unique(tnA).astype(int)", "tnB=np.unique(tnB).astype(int)"] &&
  Dist.distalAll == ["tnA=x.nodes.node_id.values", "tnB=x.nodes.node_id.values"] &&
  Dist.distalIgArgs == ["tnA", "tnB"] && Dist.distalIgKws == ["mode='OUT'"] && Dist.distalFiniteCmp == "NotEq" &&
  Dist.distalFrames == ["index=tnA;columns=tnB", "index=x.igraph.vs[tnA]['node_id'];columns=x.igraph.vs[tnB]['node_id']"] &&
  Dist.distalNxKws == ["source=None", "target=nB"] && Dist.distalNxAssign == "df[nB] = [nA in paths for nA in tnA]" &&
  Dist.distalScalarTest == "df.shape == (1, 1)" && Dist.distalScalarValue == "df.values[0][0]" &&
  -- dist_between: undirected, weighted, inf across fragments
  Dist.betweenNxArgs == ["G.to_undirected(as_view=True)", "a", "b"] && Dist.betweenNxKws == ["weight='weight'"] &&
  Dist.betweenNoPath == "np.inf" && Dist.betweenIgKws == ["mode='ALL'", "weights='weight'"] &&
  Dist.betweenIgFind == ["G.vs.find(node_id=a)", "G.vs.find(node_id=b)"] &&
  -- segment_length: sum of the weights of the consecutive (child, parent) pairs
  Dist.seglenElt == "graph.edges[c, p]['weight']" && Dist.seglenIter == "zip(segment[:-1], segment[1:])" &&
  Dist.seglenTarget == "(c, p)" && Dist.seglenReturn == "sum"

/-- Edge weights: Euclidean child–parent distance in all three graph builders and in `parent_dist` / `cable_length`;
roots contribute `0` to sums. -/
def weightShapeOK : Bool :=
  Dist.pdFormula == "np.sqrt(np.sum((tn_coords - parent_coords) ** 2, axis=1))" &&
  Dist.pdChildCoords == "nodes[['x', 'y', 'z']].values" &&
  Dist.pdParentCoords == "nodes.set_index('node_id').reindex(nodes.parent_id.values)[['x', 'y', 'z']].values" &&
  Dist.pdRootFill == "root_dist" && Dist.pdFcKws == ["root_dist=root_dist"] &&
  Dist.clPy == "np.sum(np.linalg.norm(xyz - xyz_parent, axis=1))" && Dist.clFcKws == ["root_dist=0"] && Dist.clFcReduce == "sum" &&
  Dist.clOrphan == "nodes.loc[~nodes.parent_id.isin(nodes.node_id), 'parent_id'] = -1" &&
  Dist.nxWeights == "np.sqrt(np.sum((nodes.loc[edges[:,0],['x','y','z']].values-nodes.loc[edges[:,1],['x','y','z']].values)**2,axis=1))" &&
  Dist.nxEdges == "x.nodes[x.nodes.parent_id >= 0][['node_id', 'parent_id']].values" &&
  Dist.nxElist == "[(e[0], e[1], l) for e, l in zip(edges, weights)]" &&
  Dist.nxAdd == ["add_nodes_from:x.nodes.node_id.values", "add_weighted_edges_from:elist"] &&
  Dist.igWeights == "np.sqrt(np.sum((tn_coords-parent_coords)**2,axis=1))" &&
  Dist.igElist == "np.vstack((tn_index_with_parent, parent_index)).T" &&
  Dist.igChildCoords == "nodes[['x', 'y', 'z']].values[tn_index_with_parent, :]" &&
  Dist.igParentCoords == "nodes[['x', 'y', 'z']].values[parent_index.astype(int), :]" &&
  Dist.igGraphKws.contains "directed=True" && Dist.igAttrs.contains "G.es['weight'] = w" &&
  Dist.segFcRootDist == "0" && Dist.segFcKws == ["weights=weight"] && Dist.segFcWeightCmp == "Eq" && Dist.segFcWeightLit == "weight" &&
  Dist.segFcArgs == ["x.nodes.node_id.values", "x.nodes.parent_id.values"]

/-! ### the dtype the child − parent difference is computed in (the `.astype(float)` calls are stripped from the expressions
checked by `weightShapeOK` and recorded here instead) -/

open Navis.EdgeDtype in
def siteOf (ops : List String) (sqInDtype : Bool) : Option Site :=
  match ops.mapM Operand.ofName with
  | some [c, p] => some ⟨c, p, sqInDtype⟩
  | _ => none

/-- `neuron2nx`: `np.sqrt(np.sum((child - parent) ** 2, axis=1))` -/
def nxSite? : Option EdgeDtype.Site := siteOf Dist.nxDiffOperands true
/-- `neuron2igraph`: `np.sqrt(np.sum((tn_coords - parent_coords) ** 2, axis=1))` -/
def igSite? : Option EdgeDtype.Site := siteOf Dist.igDiffOperands true
/-- `cable_length`, node-table path: `np.linalg.norm(xyz - xyz_parent, axis=1)` (the norm converts to float before squaring) -/
def clSite? : Option EdgeDtype.Site := siteOf Dist.clDiffOperands false
/-- `parent_dist`, numpy path: `np.sqrt(np.sum((tn_coords - parent_coords) ** 2, axis=1))` -/
def pdSite? : Option EdgeDtype.Site := siteOf Dist.pdDiffOperands true

def siteInFloatB (s : EdgeDtype.Site) : Bool := s.child.isFloat || s.parent.isFloat

/-- The cached views of `TreeNeuron` call the functions above on the neuron itself with default options. -/
def viewsOK : Bool :=
  Dist.viewSegments.1 == "self._get_segments" && Dist.viewSegments.2.2.1 == ["how='length'"] && Dist.viewSegments.2.2.2.contains "temp_property" &&
  Dist.viewSmallSegments.1 == "self._get_segments" && Dist.viewSmallSegments.2.2.1 == ["how='break'"] && Dist.viewSmallSegments.2.2.2.contains "temp_property" &&
  Dist.getSegments == ["break->graph._break_segments(self)", "length->graph._generate_segments(self)"] &&
  Dist.viewCableLength.1 == "morpho.cable_length" && Dist.viewCableLength.2.1 == ["self"] && Dist.viewCableLength.2.2.1 == [] && Dist.viewCableLength.2.2.2.contains "temp_property" &&
  Dist.viewAdjacencyMatrix.1 == "graph.skeleton_adjacency_matrix" && Dist.viewAdjacencyMatrix.2.1 == ["self"] && Dist.viewAdjacencyMatrix.2.2.1 == [] && Dist.viewAdjacencyMatrix.2.2.2.contains "temp_property" &&
  Dist.viewGeodesicMatrix.1 == "graph.geodesic_matrix" && Dist.viewGeodesicMatrix.2.1 == ["self"] && Dist.viewGeodesicMatrix.2.2.1 == [] && Dist.viewGeodesicMatrix.2.2.2.contains "temp_property"

end Navis.DistX
