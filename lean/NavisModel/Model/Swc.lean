import NavisModel.Model.Forest
import NavisModel.Gen.Swc
/-!
SWC export / import model for C07 (DESIGN §5 "C07").  Core Lean only, total, computable.

* `makeSwcTable` follows `navis.io.swc_io.make_swc_table` line by line: label rules, the ordering
  (`_node_depths` + `sort_values("_depth", kind="stable")` = `sortByDepth`, a stable sort by the number of
  steps to the root: roots first, every parent before its children), `reset_index`,
  `new_ids = dict(zip(node_id, index + 1))`, `node_id.map(new_ids)`, `parent_id.map(lambda x: new_ids.get(x, -1))`,
  `radius.fillna(0)`.
* HISTORICAL: before the fix "write_swc/make_swc_table lists every parent before its children" the rows were
  ordered with `sort_values("parent_id")` (default quicksort, not stable).  `sortByParent`, `IsParentSort` and
  `makeSwcTableHist` keep that ordering in the model only so that the theorems in `Props/C07.lean` can state
  exactly for which inputs it was wrong; nothing in navis corresponds to them any more.
* `Tok` / `Line` are the token level of a file: the character-level lexer lives in the driver
  (`Drv/C07.lean`, trusted); `parseSwc` mirrors `SwcReader.read_buffer` (leading `#` lines are the header,
  the first `# Meta:` header line carries the JSON properties, `#` lines and blank lines between data rows
  are skipped, at least 7 columns) and `readBack` mirrors `SwcReader.read_dataframe` (soma = first row whose
  label equals `soma_label`, connectors from `connector_labels`).
* `matchFmt` models `BaseReader.parse_filename` for literal-and-`{field[,field][:type]}` patterns; `matchSegs` / `searchSegs`
  are proved sound and complete for decompositions of the file name along the pattern (`Proofs/SwcFmtLemmas.lean`), and
  `fmtConsistentB` is the checker the driver evaluates on navis' own `parse_filename` values.
* AS WRITTEN: `labelsAsWritten` (the sequential `swc.loc[sel, "label"] = code` assignments over the translator's rule list),
  `nodeDepthsW` (`_node_depths`: memo dict, walk, assignment along the reversed path), `sortByDepthW`, `makeSwcTableW`; proved
  equal to `autoLabel` / `depth - 1` / `sortByDepth` / `makeSwcTable` in `Proofs/SwcDepthLemmas.lean`.
* `Header` / `writeH` / `noRows`: the `header=` option on the token level (generated header or the user's lines, verbatim);
  the character level of the same (newline termination, cutting the text into lines) is `Model/SwcText.lean`.
* `terminals`: which parser the `read_*` source methods of `BaseReader` end in (over the translator's call table).
-/
namespace Navis.Swc
open Navis.Forest

/-! ### constants re-extracted from the current source by `translator/gen_swc.py` (`Gen/Swc.lean`) -/
def lblUndefined : Int := Gen.Swc.lblUndefined
def lblSoma : Int := Gen.Swc.lblSoma
def lblBranch : Int := Gen.Swc.lblBranch
def lblEnd : Int := Gen.Swc.lblEnd
def lblPre : Int := Gen.Swc.lblPre
def lblPost : Int := Gen.Swc.lblPost
/-- `new_ids.get(x, -1)` -/
def missingParent : Int := Gen.Swc.missingParent
/-- `swc.index.values + 1` -/
def firstId : Int := Gen.Swc.firstId

/-- One row of `x.nodes` as `make_swc_table` sees it. -/
structure SNode where
  id : Int
  parent : Int
  x : Rat := 0
  y : Rat := 0
  z : Rat := 0
  /-- `none` = NaN -/
  radius : Option Rat := some 0
  /-- the stored `type` column (`root`/`end`/`branch`/`slab`) -/
  type : Label := .slab
  /-- value of a user column, for `labels='<column>'` -/
  custom : Int := 0
  /-- DataFrame index label of the row: `labels=<dict>` is applied with `swc.index.map(labels)` -/
  idx : Int := 0
deriving DecidableEq, Inhabited

/-- The part of a `TreeNeuron` that `write_swc` reads. -/
structure Skel where
  nodes : List SNode
  /-- `utils.make_iterable(x.soma)`; `[]` when `x.soma is None` -/
  soma : List Int := []
  /-- `x.connectors` is a DataFrame -/
  hasConn : Bool := false
  /-- `x.presynapses.node_id` / `x.postsynapses.node_id` -/
  pre : List Int := []
  post : List Int := []
  /-- `str(getattr(x, k, None))` for the attributes that can be written to the header -/
  attrs : List (String × String) := []

def nodeIds (t : List SNode) : List Int := t.map (·.id)

/-- The forest (ids and parent links) of a node table, in the shared model of DESIGN §2.4. -/
def forest (t : List SNode) : Table := t.map fun n => ({ id := n.id, parent := n.parent } : Node)

inductive LabelMode where
  /-- `labels=True` -/
  | auto
  /-- `labels=False` / `None` -/
  | zero
  /-- `labels='<column>'` -/
  | column
  /-- `labels={key: label}`: looked up with the row's *index* label; no entry ⇒ NaN -/
  | byIndex (m : List (Int × Int))

structure Opts where
  labels : LabelMode := .auto
  exportConn : Bool := false

/-- `labels=True`: 0, then branch → 5, end → 6, soma → 1, then (export_connectors) pre → 7, post → 8. -/
def autoLabel (sk : Skel) (exportConn : Bool) (n : SNode) : Int :=
  let l0 := if n.type = .branch then lblBranch else if n.type = .end_ then lblEnd else lblUndefined
  let l1 := if n.id ∈ sk.soma then lblSoma else l0
  if exportConn then
    if n.id ∈ sk.post then lblPost else if n.id ∈ sk.pre then lblPre else l1
  else l1

/-- Which rows a rule `swc.loc[<selector>, "label"] = code` selects (selectors as the translator names them). -/
def selects (sk : Skel) (n : SNode) (sel : String) : Bool :=
  if sel = "type:branch" then n.type = .branch
  else if sel = "type:end" then n.type = .end_
  else if sel = "isin:soma" then n.id ∈ sk.soma
  else if sel = "isin:pre_ids" then n.id ∈ sk.pre
  else if sel = "isin:post_ids" then n.id ∈ sk.post
  else false

/-- `labels=True` as written: `swc["label"] = 0`, then the assignments `swc.loc[sel, "label"] = code` one after the other in
source order (a later rule overwrites an earlier one), the gated ones only with `export_connectors`. -/
def labelsAsWritten (rules : List (String × Int × Bool)) (sk : Skel) (exportConn : Bool) (n : SNode) : Int :=
  rules.foldl (fun l r => if (!r.2.2 || exportConn) && selects sk n r.1 then r.2.1 else l) lblUndefined

/-- The `label` column before sorting (`none` = NaN). -/
def labelOf (op : Opts) (sk : Skel) (n : SNode) : Option Int :=
  match op.labels with
  | .auto => some (autoLabel sk op.exportConn n)
  | .zero => some 0
  | .column => some n.custom
  | .byIndex m => (m.find? (fun kv => kv.1 == n.idx)).map (·.2)

/-- `export_connectors=True` reads `x.presynapses`, which raises without a connector table. -/
def writeRaises (op : Opts) (sk : Skel) : Bool :=
  match op.labels with
  | .auto => op.exportConn && !sk.hasConn
  | _ => false

/-! ### ordering -/

/-- Insert before the first element with a larger-or-equal key (so that a right fold is a stable sort). -/
def insertBy {α : Type} (key : α → Int) (a : α) : List α → List α
  | [] => [a]
  | b :: l => if key a ≤ key b then a :: b :: l else b :: insertBy key a l

/-- Stable insertion sort by an integer key. -/
def isortBy {α : Type} (key : α → Int) (l : List α) : List α := l.foldr (insertBy key) []

/-- HISTORICAL ordering `swc.sort_values("parent_id", ascending=True)` (stable representative). -/
def sortByParent (t : List SNode) : List SNode := isortBy (·.parent) t

/-- Number of nodes on the path to the root (1 for a root). -/
def depth (t : List SNode) (i : Int) : Nat := (rootPath (forest t) i).length

/-- `swc["_depth"] = _node_depths(…); swc.sort_values("_depth", kind="stable")`: stable sort by depth. -/
def sortByDepth (t : List SNode) : List SNode :=
  (isortBy (fun p : Int × SNode => p.1) (t.map fun n => (((depth t n.id : Nat) : Int), n))).map (·.2)

/-! #### `_node_depths` as written

```
parents = dict(zip(node_ids, parent_ids)); depths = {}
for node in node_ids:
    path = []; on_path = set()
    while node in parents and node not in depths and node not in on_path:
        path.append(node); on_path.add(node); node = parents[node]
    d = depths.get(node, -1)
    for n in reversed(path): d += 1; depths[n] = d
return [depths[n] for n in node_ids]
```
The memo `depths` is an association list (newest first); the walk carries `reversed(path)`.  `Props.C07.node_depths_as_written`
proves that on a well-formed forest the result is `depth - 1` for every row, so the sort key of `sortByDepth` is the one navis uses. -/

/-- `parents[node]` (`none` = `node not in parents`), for unique ids. -/
def parentOf? (t : List SNode) (i : Int) : Option Int := (t.find? (fun n => n.id == i)).map (·.parent)

def memoGet (m : List (Int × Int)) (i : Int) : Option Int := (m.find? (fun kv => kv.1 == i)).map (·.2)

/-- The `while` loop: returns `(reversed(path), node)` when it stops.  `fuel` = `|t| + 1` is never exhausted (the nodes on the
path are distinct rows of the table). -/
def walkUp (t : List SNode) (m : List (Int × Int)) : Nat → Int → List Int → List Int × Int
  | 0, node, path => (path, node)
  | f + 1, node, path =>
    match parentOf? t node with
    | none => (path, node)
    | some p => if (memoGet m node).isSome || path.contains node then (path, node) else walkUp t m f p (node :: path)

/-- `for n in reversed(path): d += 1; depths[n] = d` -/
def assignDepths (m : List (Int × Int)) (d : Int) : List Int → List (Int × Int)
  | [] => m
  | n :: rest => assignDepths ((n, d + 1) :: m) (d + 1) rest

/-- One iteration of the outer `for node in node_ids` loop. -/
def depthsStep (t : List SNode) (m : List (Int × Int)) (node : Int) : List (Int × Int) :=
  assignDepths m ((memoGet m (walkUp t m (t.length + 1) node []).2).getD (-1)) (walkUp t m (t.length + 1) node []).1

def depthsMemo (t : List SNode) : List (Int × Int) := (nodeIds t).foldl (depthsStep t) []

/-- `_node_depths(swc.node_id.values, swc.parent_id.values)` -/
def nodeDepthsW (t : List SNode) : List Int := (nodeIds t).map fun i => (memoGet (depthsMemo t) i).getD 0

/-- The ordering as written: `swc["_depth"] = _node_depths(…)`, then the stable sort on that column. -/
def sortByDepthW (t : List SNode) : List SNode :=
  (isortBy (fun p : Int × SNode => p.1) ((nodeDepthsW t).zip t)).map (·.2)

/-- HISTORICAL: `o` is an admissible result of `sort_values("parent_id")` on `t` (any tie order). -/
def IsParentSort (t o : List SNode) : Prop :=
  o.Perm t ∧ o.Pairwise (fun a b => a.parent ≤ b.parent)

/-! ### re-indexing -/

/-- The seven SWC columns `PointNo Label X Y Z Radius Parent`. -/
structure SwcRow where
  id : Int
  label : Option Int
  x : Rat
  y : Rat
  z : Rat
  radius : Option Rat
  parent : Int
deriving DecidableEq, Inhabited

/-- `new_ids.get(i, -1)` with `new_ids = dict(zip(swc.node_id, swc.index + 1))` after `reset_index`
(for unique ids; `TreeNeuron` rejects duplicate node ids). -/
def newId (o : List SNode) (i : Int) : Int :=
  if i ∈ nodeIds o then ((nodeIds o).idxOf i : Int) + firstId else missingParent

def rowOf (lab : SNode → Option Int) (o : List SNode) (n : SNode) : SwcRow :=
  { id := newId o n.id, label := lab n, x := n.x, y := n.y, z := n.z,
    radius := some (n.radius.getD 0), parent := newId o n.parent }

/-- Everything after the sort: new ids, parent remap, column selection, `fillna(0)`. -/
def finish (lab : SNode → Option Int) (o : List SNode) : List SwcRow := o.map (rowOf lab o)

/-- `make_swc_table(x, labels, export_connectors)`. -/
def makeSwcTable (op : Opts) (sk : Skel) : List SwcRow := finish (labelOf op sk) (sortByDepth sk.nodes)

/-- The `label` column as written (`labels=True`: the sequential assignments of the source in the translator's order). -/
def labelOfW (op : Opts) (sk : Skel) (n : SNode) : Option Int :=
  match op.labels with
  | .auto => some (labelsAsWritten Gen.Swc.labelRules sk op.exportConn n)
  | .zero => some 0
  | .column => some n.custom
  | .byIndex m => (m.find? (fun kv => kv.1 == n.idx)).map (·.2)

/-- `make_swc_table` with the label assignments and the depth computation as written (`Props.C07.table_as_written`
proves it equal to `makeSwcTable` on well-formed forests). -/
def makeSwcTableW (op : Opts) (sk : Skel) : List SwcRow := finish (labelOfW op sk) (sortByDepthW sk.nodes)

/-- HISTORICAL: the table with the ordering used before the fix (`sort_values("parent_id")`). -/
def makeSwcTableHist (op : Opts) (sk : Skel) : List SwcRow := finish (labelOf op sk) (sortByParent sk.nodes)

/-- The node map returned with `return_node_map=True` (old id → new id), in file order. -/
def nodeMapOf (o : List SNode) : List (Int × Int) := o.map fun n => (n.id, newId o n.id)

def nodeMap (sk : Skel) : List (Int × Int) := nodeMapOf (sortByDepth sk.nodes)

/-! ### validity of an SWC table -/

/-- Specification: ids are `1..N` in row order; every row is a root with parent `-1` or its parent id is
smaller than its own id and is the id of an earlier row (one of the first `k` rows). -/
def SwcValid (s : List SwcRow) : Prop :=
  (∀ k (h : k < s.length), s[k].id = (k : Int) + 1) ∧
  (∀ k (h : k < s.length), s[k].parent = -1 ∨
    (s[k].parent < s[k].id ∧ s[k].parent ∈ (s.take k).map (·.id)))

/-- Checker: walk the rows with the list of ids seen so far and the id expected next. -/
def validFrom : List Int → Int → List SwcRow → Bool
  | _, _, [] => true
  | seen, k, r :: rs =>
    (r.id == k) && ((r.parent == -1) || (decide (r.parent < r.id) && seen.contains r.parent)) &&
      validFrom (r.id :: seen) (k + 1) rs

def swcValidB (s : List SwcRow) : Bool := validFrom [] 1 s

/-! ### token level of a file -/

inductive Tok where
  /-- `[+-]digits` -/
  | int (i : Int)
  /-- decimal / exponent literal -/
  | num (q : Rat)
  /-- `nan`, `NaN`, `None`, empty -/
  | nan
  | word (s : String)
deriving DecidableEq, Inhabited

inductive Line where
  /-- starts with `#`, not a meta line -/
  | comment (s : String)
  /-- `# Meta: {json}` with a flat JSON object; values as text -/
  | props (kv : List (String × String))
  | row (toks : List Tok)
  | blank
deriving DecidableEq, Inhabited

def isHeader : Line → Bool
  | .comment _ => true
  | .props _ => true
  | _ => false

def tokInt? : Tok → Option Int
  | .int i => some i
  | .num q => if q.den = 1 then some q.num else none
  | _ => none

def tokNum? : Tok → Option Rat
  | .int i => some (i : Rat)
  | .num q => some q
  | _ => none

/-- One data row: at least seven tokens, the first seven are the SWC columns; id, parent and the
coordinates must be numbers (`none` = a row `sanitise_nodes` drops). -/
def parseRow (ts : List Tok) : Option SwcRow :=
  match ts with
  | i :: l :: x :: y :: z :: r :: p :: _ =>
    match tokInt? i, tokNum? x, tokNum? y, tokNum? z, tokInt? p with
    | some i, some x, some y, some z, some p =>
      some { id := i, label := tokInt? l, x := x, y := y, z := z, radius := tokNum? r, parent := p }
    | _, _, _, _, _ => none
  | _ => none

structure SwcFile where
  props : Option (List (String × String))
  rows : List SwcRow
deriving DecidableEq

/-- `read_header_rows`: the leading `#` lines. -/
def headerOf (ls : List Line) : List Line := ls.takeWhile isHeader

def metaLine? : Line → Option (List (String × String))
  | .props kv => some kv
  | _ => none

/-- The first `# Meta:` line *of the header*. -/
def metaOf (ls : List Line) : Option (List (String × String)) := (headerOf ls).findSome? metaLine?

def rowLine? : Line → Option (List Tok)
  | .row ts => some ts
  | _ => none

/-- `read_csv(skiprows=len(header), comment='#')`: later comment lines and blank lines are skipped. -/
def dataRows (ls : List Line) : List (List Tok) := (ls.dropWhile isHeader).filterMap rowLine?

/-- Enough columns: `len(nodes.columns) < 7` raises; the column count is that of the first row; a later row
with more fields is a tokenizer error, one with fewer fields is padded with NaN by `read_csv` (and then dropped
by `sanitise_nodes` when a key column is among the missing ones: `parseRow` = `none`). -/
def columnsOK (rs : List (List Tok)) : Bool :=
  match rs with
  | [] => true
  | r :: _ => decide (7 ≤ r.length) && rs.all (fun q => decide (q.length ≤ r.length))

/-- the complete rows -/
def keptRows (rs : List (Option SwcRow)) : List SwcRow := rs.filterMap id

/-- `nodes.loc[~nodes.parent_id.isin(nodes.node_id), "parent_id"] = -1` for one row -/
def reRoot (kept : List SwcRow) (r : SwcRow) : SwcRow :=
  if kept.any (fun q => q.id == r.parent) then r else { r with parent := -1 }

/-- `sanitise_nodes`: drop rows with a NaN in id / parent / x / y / z (`parseRow` = `none`); if any row was
dropped, every remaining row whose parent is not among the remaining ids becomes a root (`parent_id = -1`). -/
def sanitiseRows (rs : List (Option SwcRow)) : List SwcRow :=
  if (keptRows rs).length = rs.length then keptRows rs else (keptRows rs).map (reRoot (keptRows rs))

/-- `SwcReader.read_buffer` up to the node table handed to `TreeNeuron`. -/
def parseSwc (ls : List Line) : Option SwcFile :=
  if columnsOK (dataRows ls) then
    some { props := metaOf ls, rows := sanitiseRows ((dataRows ls).map parseRow) }
  else none

/-! ### writing -/

def numTok (q : Rat) : Tok := .num q

def optIntTok : Option Int → Tok
  | some i => .int i
  | none => .nan

def optNumTok : Option Rat → Tok
  | some q => .num q
  | none => .nan

/-- `csv.writer(delimiter=" ").writerows(swc.astype(str).values)` on the token level. -/
def renderRow (r : SwcRow) : Line :=
  .row [.int r.id, optIntTok r.label, numTok r.x, numTok r.y, numTok r.z, optNumTok r.radius, .int r.parent]

inductive WriteMeta where
  /-- `write_meta=False` -/
  | off
  /-- `write_meta=True`: id, name, units -/
  | default
  /-- `write_meta=[keys]` (or a single key) -/
  | keys (ks : List String)
  /-- `write_meta={…}` -/
  | dict (kv : List (String × String))

def attrOf (sk : Skel) (k : String) : String := ((sk.attrs.find? (fun kv => kv.1 == k)).map (·.2)).getD "None"

def metaProps (wm : WriteMeta) (sk : Skel) : Option (List (String × String)) :=
  match wm with
  | .off => none
  | .default => some (Gen.Swc.metaKeys.map fun k => (k, attrOf sk k))
  | .keys ks => if ks.isEmpty then none else some (ks.map fun k => (k, attrOf sk k))
  | .dict kv => if kv.isEmpty then none else some kv

/-- The generated header of `_write_swc` (texts abbreviated; only their kind matters to the reader). -/
def headerLines (wm : WriteMeta) (op : Opts) (sk : Skel) : List Line :=
  [.comment "SWC format file", .comment "based on specifications at …", .comment "Created on … using navis"] ++
  (match metaProps wm sk with | some kv => [.props kv] | none => []) ++
  [.comment "PointNo Label X Y Z Radius Parent", .comment "Labels:", .comment "0 = undefined, 1 = soma, 5 = fork point, 6 = end point"] ++
  (if op.exportConn then [.comment "7 = presynapses, 8 = postsynapses"] else [])

/-- `_write_swc` for an arbitrary order `o` of the node table. -/
def writeWith (wm : WriteMeta) (op : Opts) (sk : Skel) (o : List SNode) : List Line :=
  headerLines wm op sk ++ (finish (labelOf op sk) o).map renderRow

def write (wm : WriteMeta) (op : Opts) (sk : Skel) : List Line := writeWith wm op sk (sortByDepth sk.nodes)

/-! ### the `header=` option -/

/-- `header=None` (generated header, `write_meta` applies) or a user supplied string, given by its physical lines: it
is written verbatim (navis adds no `#`, only a final line break) and `write_meta` is ignored. -/
inductive Header where
  | generated (wm : WriteMeta)
  | custom (hl : List Line)

def headerFor (hd : Header) (op : Opts) (sk : Skel) : List Line :=
  match hd with
  | .generated wm => headerLines wm op sk
  | .custom hl => hl

/-- No physical line of a header is a data row (every line is a `#` line or blank). -/
def noRows (hl : List Line) : Bool := hl.all fun l => (rowLine? l).isNone

/-- `_write_swc` with either kind of header, for an arbitrary order `o` of the node table. -/
def writeH (hd : Header) (op : Opts) (sk : Skel) (o : List SNode) : List Line :=
  headerFor hd op sk ++ (finish (labelOf op sk) o).map renderRow

/-! ### reading back -/

structure ReadCfg where
  /-- `soma_label` (`None` disables soma detection) -/
  somaLabel : Option Int := some Gen.Swc.readerSomaLabel
  /-- `connector_labels` in dict order -/
  connLabels : List (String × Int) := []
  readMeta : Bool := true

structure ReadSkel where
  nodes : List SwcRow
  soma : Option Int
  /-- `(type, node_id)` in the order of `_extract_connectors` -/
  conns : List (String × Int)
  props : List (String × String)
deriving DecidableEq

def somaOf (cfg : ReadCfg) (rows : List SwcRow) : Option Int :=
  match cfg.somaLabel with
  | none => none
  | some sl => (rows.find? (fun r => r.label == some sl)).map (·.id)

def connsOf (cfg : ReadCfg) (rows : List SwcRow) : List (String × Int) :=
  cfg.connLabels.flatMap fun nv => (rows.filter (fun r => r.label == some nv.2)).map fun r => (nv.1, r.id)

def ofFile (cfg : ReadCfg) (f : SwcFile) : ReadSkel :=
  { nodes := f.rows, soma := somaOf cfg f.rows, conns := connsOf cfg f.rows,
    props := if cfg.readMeta then f.props.getD [] else [] }

/-- `read_swc` of a file's lines. -/
def readBack (cfg : ReadCfg) (ls : List Line) : Option ReadSkel := (parseSwc ls).map (ofFile cfg)

def metaGet (m : List (String × String)) (k : String) : Option String := (m.find? (fun kv => kv.1 == k)).map (·.2)

/-! ### integer width of the ID columns (`SwcReader.read_dataframe`) -/

/-- `np.iinfo(int<b>).min <= lo and hi <= np.iinfo(int<b>).max` -/
def fitsBits (b : Nat) (lo hi : Int) : Bool := decide (-((2 : Int) ^ (b - 1)) ≤ lo) && decide (hi < (2 : Int) ^ (b - 1))

/-- The width `node_id` / `parent_id` are cast to for `precision=p` when their values span `lo..hi`: the first of the requested
width and the translator's `Gen.Swc.idWidening` (32, 64) that holds them, the last candidate when none does. -/
def idBits (p : Nat) (lo hi : Int) : Nat :=
  ((p :: Gen.Swc.idWidening).find? fun b => fitsBits b lo hi).getD ((p :: Gen.Swc.idWidening).getLast?.getD p)

/-! ### source kinds (`BaseReader.read_any*`): which parser every source ends in -/

/-- The methods without an entry of their own that are reachable from `m` in a call table (`fuel` bounds the depth). -/
def terminals (tbl : List (String × List String)) : Nat → String → List String
  | 0, m => [m]
  | f + 1, m =>
    match tbl.lookup m with
    | none => [m]
    | some cs => cs.flatMap (terminals tbl f)

/-! ### file-name patterns (`BaseReader.parse_filename`) -/

inductive Seg where
  | lit (s : List Char)
  /-- `{a,b:type}` → names with optional type -/
  | grp (fields : List (String × Option String))
deriving Inhabited

def isPrefix : List Char → List Char → Bool
  | [], _ => true
  | _, [] => false
  | a :: as, b :: bs => a == b && isPrefix as bs

/-- Greedy backtracking match of the segments against the *whole remaining prefix* (a regex without
anchors matches a prefix; `re.search` then slides the start).  Returns the captured groups.  A group is `(.*)`: the
candidate lengths are tried longest first. -/
def matchSegs : Nat → List Seg → List Char → Option (List (List Char))
  | 0, _, _ => none
  | _ + 1, [], _ => some []
  | f + 1, .lit s :: rest, cs => if isPrefix s cs then matchSegs f rest (cs.drop s.length) else none
  | f + 1, .grp _ :: rest, cs =>
    (List.range (cs.length + 1)).reverse.findSome? fun k => (matchSegs f rest (cs.drop k)).map (cs.take k :: ·)

/-- `re.search`: first start position that matches. -/
def searchSegs (segs : List Seg) (cs : List Char) : Option (List (List Char)) :=
  (List.range (cs.length + 1)).findSome? fun k => matchSegs (segs.length + 2) segs (cs.drop k)

/-- The text a pattern stands for when its groups are filled with `gs` (one entry per `{…}` group, in order). -/
def instSegs : List Seg → List (List Char) → List Char
  | [], _ => []
  | .lit s :: rest, gs => s ++ instSegs rest gs
  | .grp _ :: rest, g :: gs => g ++ instSegs rest gs
  | .grp _ :: rest, [] => instSegs rest []

def groupCount (segs : List Seg) : Nat := (segs.filter fun s => match s with | .grp _ => true | _ => false).length

/-- The pattern with every *named* group replaced by the literal text `val` gives for (one of) its names; anonymous groups
and names without a value stay wildcards. -/
def fixSegs (val : String → Option (List Char)) : List Seg → List Seg
  | [] => []
  | .lit s :: rest => .lit s :: fixSegs val rest
  | .grp fs :: rest =>
    (match fs.findSome? (fun f => val f.1) with
     | some v => .lit v
     | none => .grp fs) :: fixSegs val rest

/-- **Checker** evaluated on navis' own `parse_filename` output: the file name contains the pattern with the named
placeholders replaced by the values navis extracted (`Props.C07.fmt_checker_sound` / `_complete`). -/
def fmtConsistentB (segs : List Seg) (val : String → Option (List Char)) (filename : List Char) : Bool :=
  (searchSegs (fixSegs val segs) filename).isSome

/-- Result of `parse_filename`: properties in assignment order (`file` first), values as text plus the
requested conversion; `none` = no match (`ValueError`). -/
def matchFmt (segs : List Seg) (filename : String) : Option (List (String × String × String)) :=
  match searchSegs segs filename.toList with
  | none => none
  | some gs =>
    let groups := segs.filterMap fun s => match s with | .grp fs => some fs | _ => none
    some (("file", "str", filename) ::
      (groups.zip gs).flatMap fun (fs, g) => fs.map fun (nm, ty) => (nm, ty.getD "str", String.ofList g))

end Navis.Swc
