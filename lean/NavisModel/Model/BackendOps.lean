import NavisModel.Model.CutVariants
import NavisModel.Model.Backends
import NavisModel.Model.Prune
import NavisModel.Model.StrahlerSweep
/-
Operation language of C01/C10 with the back-end made explicit (C04): under `config.use_igraph` (the default
and the navis-fastcore configuration) `reroot_skeleton` takes the path from igraph's shortest paths to all
roots and `cut_skeleton` decomposes the graph after deleting one edge; without igraph both walk the networkx
graph.  All other modelled operations run the same code on every back-end.
-/
namespace Navis.Forest

inductive Backend where
  | fastcore | igraph | networkx
deriving Repr, DecidableEq

/-- `x.igraph and config.use_igraph` (navis-fastcore does not replace these two code paths). -/
def usesIgraph : Backend → Bool
  | .networkx => false
  | _ => true

/-- `reroot` after the path from the new root to the old root has been determined. -/
def rerootOn (t : Table) (r : Int) (path : List Int) : Table :=
  let oldRoot := path.getLast?.getD r
  let t1 := rerootParents t r path
  t1.map fun n =>
    if n.id = r then { n with label := .root }
    else if n.id = oldRoot then { n with label := labelOf (childCount t1 oldRoot) false }
    else n

/-- igraph branch of `reroot_skeleton`: the path is the first non-empty shortest path to a root. -/
def rerootIgraph (t : Table) (r : Int) : Table :=
  match find? t r with
  | none => t
  | some nr => if nr.parent < 0 then t else rerootOn t r ((rerootPathIgraph t r).getD [])

def rerootBE (be : Backend) (t : Table) (r : Int) : Table := if usesIgraph be then rerootIgraph t r else reroot t r

def cutBE (be : Backend) (t : Table) (c : Int) : Option (Table × Table) :=
  if usesIgraph be then cutByDecompose t c else cut t c

def applyOpBE (be : Backend) (t : Table) : Op → Table
  | .reroot r => rerootBE be t r
  | .cutDistal c => match cutBE be t c with | some (d, _) => d | none => t
  | .cutProximal c => match cutBE be t c with | some (_, p) => p | none => t
  | op => applyOp t op

/-- One round of `cut_skeleton(x, [c1, c2, …])`: the fragment containing the cut node is replaced by its two
pieces (distal first), the pieces computed by the back-end's cut. -/
def cutStepBE (be : Backend) (frags : List Table) (c : Int) : List Table :=
  match frags.findIdx? (fun f => (ids f).contains c) with
  | none => frags
  | some k =>
    match frags[k]? with
    | none => frags
    | some f =>
      match cutBE be f c with
      | none => frags
      | some (d, p) => frags.take k ++ [d, p] ++ frags.drop (k + 1)

def cutManyBE (be : Backend) (t : Table) (cs : List Int) : List Table := cs.foldl (cutStepBE be) [t]

/-! ### `_prune_twigs_simple` on the Python path, given the list `_break_segments` returned (any order) -/

/-- `segs = [s for s in segs if s[0] in leafs and s[-1] in forks]` -/
def terminalSegsFrom (t : Table) (segs : List (List Int)) : List (List Int) :=
  segs.filter fun s => match s.head?, s.getLast? with
    | some h, some l => childCount t h == 0 && decide (childCount t l ≥ 2)
    | _, _ => false

def twigDeleteFrom (t : Table) (segs : List (List Int)) (len : Int → Int → Nat) (size : Nat) (mask : Option (List Int)) : List Int :=
  ((terminalSegsFrom t segs).filter fun s =>
      decide (pathLen len s ≤ size) &&
      (match mask, s.head? with
       | some m, some h => m.contains h
       | some _, none => false
       | none, _ => true)).flatMap fun s => s.dropLast

def pruneTwigsOnceFrom (t : Table) (segs : List (List Int)) (len : Int → Int → Nat) (size : Nat) (mask : Option (List Int)) : Table :=
  let del := twigDeleteFrom t segs len size mask
  if del.isEmpty then t else subset t fun i => !del.contains i

/-- `to_ignore` extended by `min_twig_size`, given the list `x.small_segments` returned (any order). -/
def ignoreListFrom (t : Table) (segs : List (List Int)) (ign : List Int) (minTwig : Nat) : List Int :=
  if minTwig = 0 then ign
  else ign ++ segs.filterMap fun s =>
    match s.head? with
    | some h => if (Navis.Sweep.endNodes t).contains h && s.length < minTwig then some h else none
    | none => none

end Navis.Forest
