/-
A tiny arithmetic expression language for formulas re-extracted from the navis source by the translator
(`translator/gen_mmetrics.py` → `Gen/Mmetrics.lean`), with evaluators over `Int` (counts) and over an arbitrary
number type (core type classes only; the logarithm and π are parameters, so no analysis library is needed here).
Variables are the source's own names (`total_post[n]` ↦ `"total_post"`: a subscript by a bare name is dropped).
Import-free, total, computable.
-/
namespace Navis.PyExpr

inductive E where
  | v (name : String)
  | k (n : Int)
  | pi
  | add (a b : E)
  | sub (a b : E)
  | mul (a b : E)
  | div (a b : E)
  | neg (a : E)
  | log (a : E)
  | pow (a : E) (n : Nat)
deriving Repr, DecidableEq, Inhabited

/-- Integer evaluation (`none` when the expression uses division, π or a logarithm). -/
def evalInt (env : String → Int) : E → Option Int
  | .v s => some (env s)
  | .k n => some n
  | .pi => none
  | .add a b => match evalInt env a, evalInt env b with | some x, some y => some (x + y) | _, _ => none
  | .sub a b => match evalInt env a, evalInt env b with | some x, some y => some (x - y) | _, _ => none
  | .mul a b => match evalInt env a, evalInt env b with | some x, some y => some (x * y) | _, _ => none
  | .div _ _ => none
  | .neg a => match evalInt env a with | some x => some (-x) | none => none
  | .log _ => none
  | .pow a n => match evalInt env a with | some x => some (x ^ n) | none => none

section Generic
variable {K : Type} [Add K] [Sub K] [Mul K] [Div K] [Neg K] [IntCast K]

def powK (x : K) : Nat → K
  | 0 => ((1 : Int) : K)
  | n + 1 => powK x n * x

/-- Evaluation in a number type `K` with `π` and `log` supplied by the caller. -/
def evalK (piK : K) (logK : K → K) (env : String → K) : E → K
  | .v s => env s
  | .k n => (n : K)
  | .pi => piK
  | .add a b => evalK piK logK env a + evalK piK logK env b
  | .sub a b => evalK piK logK env a - evalK piK logK env b
  | .mul a b => evalK piK logK env a * evalK piK logK env b
  | .div a b => evalK piK logK env a / evalK piK logK env b
  | .neg a => - evalK piK logK env a
  | .log a => logK (evalK piK logK env a)
  | .pow a n => powK (evalK piK logK env a) n

end Generic

/-- Comparison operators by their Python `ast` class name. -/
def cmpInt (op : String) (a b : Int) : Option Bool :=
  match op with
  | "Lt" => some (decide (a < b))
  | "LtE" => some (decide (a ≤ b))
  | "Gt" => some (decide (a > b))
  | "GtE" => some (decide (a ≥ b))
  | "Eq" => some (a == b)
  | "NotEq" => some (a != b)
  | _ => none

end Navis.PyExpr
