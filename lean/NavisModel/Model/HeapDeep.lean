/-!
# Two-level containers for C03: `tags` (a dict of lists) and the cached segment lists (a list of arrays)

Import-free, total, computable.  `Model/Heap.lean` treats every attribute as ONE mutable container.  Two attributes of a
`TreeNeuron` are containers of containers: `tags : dict[str, list[int]]` and the caches `_segments` / `_small_segments :
list[ndarray]`.  For these the question "can an edit of the result reach the input" depends on how deep `copy()` copies:

* `copy.copy(outer)` — a new outer container holding the SAME inner containers (`shallow`);
* `{k: copy.copy(v) for k, v in outer.items()}` — a new outer container holding NEW inner containers (`deep1`), which is
  what `TreeNeuron.copy` does for `tags` since the repair of the shared-tag-lists defect.

A store is a list of cells; an inner container is a `leaf` (its content abstracted to one `Int`), an outer container a
`node` holding the addresses of its inner containers.
-/
namespace Navis.HeapDeep

inductive Cell where
  | leaf (v : Int)
  | node (kids : List Nat)
  deriving DecidableEq, Repr

abbrev Store := List Cell

/-- how `copy()` treats a two-level attribute -/
inductive CopyMode where
  | shallow | deep1
  deriving DecidableEq, Repr

def leafVal (s : Store) (k : Nat) : Int :=
  match s[k]? with
  | some (.leaf v) => v
  | _ => 0

def kidsOf (s : Store) (r : Nat) : List Nat :=
  match s[r]? with
  | some (.node ks) => ks
  | _ => []

/-- the observable content of an outer container: the contents of its inner containers, in order -/
def absOf (s : Store) (r : Nat) : List Int := (kidsOf s r).map (leafVal s)

/-- `copy.copy(outer)` -/
def shallow (s : Store) (r : Nat) : Store × Nat := (s ++ [.node (kidsOf s r)], s.length)

/-- `{k: copy.copy(v) for k, v in outer.items()}` -/
def deep1 (s : Store) (r : Nat) : Store × Nat :=
  let ks := kidsOf s r
  let s' := s ++ ks.map fun k => Cell.leaf (leafVal s k)
  (s' ++ [.node (List.range' s.length ks.length)], s'.length)

def copyWith : CopyMode → Store → Nat → Store × Nat
  | .shallow => shallow
  | .deep1 => deep1

/-- in-place edit of the `i`-th inner container of `r` (`res.tags[k].append(7)`, `res.segments[i][0] = 7`) -/
def wrInner (s : Store) (r i : Nat) (v : Int) : Store :=
  match (kidsOf s r)[i]? with
  | some k => s.set k (.leaf v)
  | none => s

/-- `res.tags['new'] = [v]`: a NEW inner container is created and added to the outer container of `r` -/
def addKid (s : Store) (r : Nat) (v : Int) : Store :=
  (s ++ [Cell.leaf v]).set r (Cell.node (kidsOf s r ++ [s.length]))

/-- `del res.tags[k]`: the `i`-th inner container is dropped from the outer container of `r` -/
def delKid (s : Store) (r i : Nat) : Store := s.set r (.node ((kidsOf s r).eraseIdx i))

/-- later edits of a result: anything that can be done through the result's own outer container -/
inductive Edit where
  | inner (i : Nat) (v : Int)
  | add (v : Int)
  | del (i : Nat)
  deriving Repr

def applyEdit (r : Nat) (s : Store) : Edit → Store
  | .inner i v => wrInner s r i v
  | .add v => addKid s r v
  | .del i => delKid s r i

def applyEdits (s : Store) (r : Nat) (es : List Edit) : Store := es.foldl (applyEdit r) s

/-- the executable frame check the driver evaluates: every cell of `s` is still there, unchanged -/
def frameB (s t : Store) : Bool := s.length ≤ t.length && t.take s.length == s

/-- well-formed outer container: a node whose inner containers are valid leaves -/
def wfB (s : Store) (r : Nat) : Bool :=
  match s[r]? with
  | some (.node ks) => ks.all fun k => match s[k]? with
    | some (.leaf _) => true
    | _ => false
  | _ => false

end Navis.HeapDeep
