import NavisModel.Model.Backends
/-
C05, second pass: the navis code around the distance / segment definitions AS WRITTEN
(`navis/graph/graph_utils.py`, `navis/morpho/mmetrics.py`): option handling, `from_` normalisation, which rows are
computed and how they are labelled, the `limit` cut-off with its guard, the sentinel decoding of the accelerator,
the fancy-index assignment of `skeleton_adjacency_matrix`, the label re-indexing of `sort=True`, the matrix / scalar
forms of `distal_to`, the dictionary built by `dist_to_root`, `parent_dist` / masked `cable_length`,
`segment_length`, and the two segment builders parametrised by the facts the translator extracts
(`Gen/Dist.lean`): comparison operators, guards, type sets, sort directions.  `Props/C05.lean` proves that with
the extracted facts these coincide with the definitions of `Model/Dist.lean`.  No Mathlib, total, computable.
-/
namespace Navis.DistX
open Navis.Forest

/-! ### comparison operators, limit values, guards -/

inductive Cmp where
  | lt | le | gt | ge | eq | ne
deriving DecidableEq, Repr

/-- Python `ast` operator names. -/
def Cmp.ofName : String → Option Cmp
  | "Lt" => some .lt
  | "LtE" => some .le
  | "Gt" => some .gt
  | "GtE" => some .ge
  | "Eq" => some .eq
  | "NotEq" => some .ne
  | _ => none

def Cmp.evalInt : Cmp → Int → Int → Bool
  | .lt, a, b => decide (a < b)
  | .le, a, b => decide (a ≤ b)
  | .gt, a, b => decide (b < a)
  | .ge, a, b => decide (b ≤ a)
  | .eq, a, b => decide (a = b)
  | .ne, a, b => !decide (a = b)

def Cmp.evalNat : Cmp → Nat → Nat → Bool
  | .lt, a, b => decide (a < b)
  | .le, a, b => decide (a ≤ b)
  | .gt, a, b => decide (b < a)
  | .ge, a, b => decide (b ≤ a)
  | .eq, a, b => decide (a = b)
  | .ne, a, b => !decide (a = b)

/-- `finite <cmp> inf` -/
def Cmp.finiteVsInf : Cmp → Bool
  | .lt => true
  | .le => true
  | .ne => true
  | _ => false

/-- The values `limit` can take: Python `None`, the object `np.inf` (the default), another infinite float
(`float('inf')`: a different object, so `is not np.inf` holds), a number (after `map_units`). -/
inductive LimitV where
  | pyNone | npInf | otherInf
  | num (n : Nat)
deriving DecidableEq, Repr

/-- What the property means by the limit: `none` = no limit. -/
def LimitV.toOpt : LimitV → Option Nat
  | .num n => some n
  | _ => none

inductive GuardAtom where
  | isNotNone     -- `limit is not None`
  | isNotNpInf    -- `limit is not np.inf` (object identity)
  | neInf         -- `limit != np.inf` / `not np.isinf(limit)`
  | truthy        -- `limit`
deriving DecidableEq, Repr

def GuardAtom.ofName : String → Option GuardAtom
  | "is-not-None" => some .isNotNone
  | "is-not-np.inf" => some .isNotNpInf
  | "ne-inf" => some .neInf
  | "truthy" => some .truthy
  | _ => none

def GuardAtom.eval : GuardAtom → LimitV → Bool
  | .isNotNone, .pyNone => false
  | .isNotNone, _ => true
  | .isNotNpInf, .npInf => false
  | .isNotNpInf, _ => true
  | .neInf, .npInf => false
  | .neInf, .otherInf => false
  | .neInf, _ => true
  | .truthy, .pyNone => false
  | .truthy, .num 0 => false
  | .truthy, _ => true

def evalGuard (g : List GuardAtom) (l : LimitV) : Bool := g.all (·.eval l)

/-- `v <cmp> limit` for a finite matrix entry `v` (`None` on the right raises `TypeError` in Python; the guard
`limit is not None` keeps that case away, the model answers `false`). -/
def cmpVsLimit (c : Cmp) (v : Nat) : LimitV → Bool
  | .num l => c.evalNat v l
  | .npInf => c.finiteVsInf
  | .otherInf => c.finiteVsInf
  | .pyNone => false

/-- `if <guard>: dmat[dmat <cmp> limit] = np.inf`, one entry (`none` = inf: stays inf whatever the test says). -/
def applyLimitW (g : List GuardAtom) (c : Cmp) (lim : LimitV) (d : Option Nat) : Option Nat :=
  if evalGuard g lim then
    match d with
    | some v => if cmpVsLimit c v lim then none else some v
    | none => none
  else d

/-- `dmat[dmat <cmp> <k>] = np.inf`: decoding of the accelerator's raw entry (`-1` = unreachable). -/
def decodeFc (c : Cmp) (k : Int) (raw : Int) : Option Nat :=
  if c.evalInt raw k then none else some raw.toNat

/-! ### labelled matrices (`pd.DataFrame(values, index=rows, columns=cols)`) -/

structure LMat (α : Type) where
  rows : List Int
  cols : List Int
  vals : List (List α)
deriving Repr

/-- `df.loc[a, b]` (first row labelled `a`, first column labelled `b`; `none` = `KeyError`). -/
def LMat.get? {α : Type} (m : LMat α) (a b : Int) : Option α :=
  if m.rows.contains a && m.cols.contains b then
    match m.vals[m.rows.idxOf a]? with
    | some r => r[m.cols.idxOf b]?
    | none => none
  else none

/-- `df.loc[p, p]` (labels outside the frame raise in pandas; the model fills with `dflt`). -/
def LMat.reindex {α : Type} (dflt : α) (m : LMat α) (p : List Int) : LMat α :=
  ⟨p, p, p.map fun a => p.map fun b => (m.get? a b).getD dflt⟩

/-! ### `geodesic_matrix` -/

/-- The argument `from_`: not given, a single id, a list / array of ids. -/
inductive FromV where
  | none
  | scalar (i : Int)
  | list (l : List Int)
deriving Repr

/-- `utils.make_iterable(from_)` -/
def FromV.toList : FromV → List Int
  | .none => []
  | .scalar i => [i]
  | .list l => l

inductive GivenTest where
  | isNotNone | truthy
deriving DecidableEq, Repr

def GivenTest.ofName : String → Option GivenTest
  | "is-not-None" => some .isNotNone
  | "truthy" => some .truthy
  | _ => none

def GivenTest.eval : GivenTest → FromV → Bool
  | _, .none => false
  | .isNotNone, _ => true
  | .truthy, .scalar i => i != 0
  | .truthy, .list l => !l.isEmpty

/-- Which rows the computing routine returns, in which order. -/
inductive RowSel where
  | sourcesArg   -- fastcore: `sources=from_` (one row per source, in the order given)
  | whereIsin    -- scipy: `indices=np.where(np.isin(nodeList, from_))[0]` (table order)
deriving DecidableEq, Repr

/-- What the rows are labelled with. -/
inductive RowLab where
  | fromArg               -- `index=from_`
  | nodeListAtWhereIsin   -- `index=nodeList[np.where(np.isin(nodeList, from_))[0]]`
deriving DecidableEq, Repr

def RowSel.ofExpr : String → Option RowSel
  | "from_" => some .sourcesArg
  | "np.where(np.isin(nodeList, from_))[0]" => some .whereIsin
  | _ => none

def RowLab.ofExpr : String → Option RowLab
  | "from_" => some .fromArg
  | "nodeList[np.where(np.isin(nodeList, from_))[0]]" => some .nodeListAtWhereIsin
  | _ => none

def computedRows (s : RowSel) (nodeList fu : List Int) : List Int :=
  match s with
  | .sourcesArg => fu
  | .whereIsin => nodeList.filter fun i => fu.contains i

def rowLabels (l : RowLab) (nodeList fu : List Int) : List Int :=
  match l with
  | .fromArg => fu
  | .nodeListAtWhereIsin => nodeList.filter fun i => fu.contains i

/-- How the limit reaches the values. -/
inductive LimitImpl where
  | maskAssign (g : List GuardAtom) (c : Cmp)   -- fastcore branch: `if g: dmat[dmat c limit] = inf`
  | forwarded                                    -- scipy branch: `dijkstra(…, limit=limit)` (scipy: entries > limit are inf)
  | ignored
deriving Repr

def LimitImpl.apply : LimitImpl → LimitV → Option Nat → Option Nat
  | .maskAssign g c, lim, d => applyLimitW g c lim d
  | .forwarded, lim, d => applyLimit lim.toOpt d
  | .ignored, _, d => d

/-- The facts that determine one branch of `geodesic_matrix`. -/
structure GeoCfg where
  fromGiven : GivenTest
  uniq : Bool                 -- `from_ = np.unique(utils.make_iterable(from_))`
  raisesOnMissing : Bool      -- `ValueError` when an id of `from_` is not in the table
  sel : RowSel
  lab : RowLab
  rowsAllAreNodeList : Bool   -- `from_` not given: rows labelled by the node list the values are ordered by
  colsAreNodeList : Bool
  passDirected : Bool
  passWeight : Bool
  limit : LimitImpl
deriving Repr

/-- `geodesic_matrix(x, from_, directed, weight, limit)` as written (`none` = `ValueError`).  `len` is the weighted
edge length; `weight=None` counts edges. -/
def geoMatW (c : GeoCfg) (t : Table) (len : Int → Int → Nat) (weighted directed : Bool) (lim : LimitV) (from_ : FromV) :
    Option (LMat (Option Nat)) :=
  let nodeList := ids t
  let len' : Int → Int → Nat := if weighted && c.passWeight then len else fun _ _ => 1
  let dir := directed && c.passDirected
  let cell := fun a b => c.limit.apply lim (geo t len' dir a b)
  let cols := if c.colsAreNodeList then nodeList else []
  if c.fromGiven.eval from_ then
    let fu := if c.uniq then npUnique from_.toList else from_.toList
    if c.raisesOnMissing && fu.any (fun i => !nodeList.contains i) then none
    else some ⟨rowLabels c.lab nodeList fu, cols, (computedRows c.sel nodeList fu).map fun a => nodeList.map (cell a)⟩
  else
    some ⟨if c.rowsAllAreNodeList then nodeList else [], cols, nodeList.map fun a => nodeList.map (cell a)⟩

/-! ### `skeleton_adjacency_matrix` -/

/-- `mat[node_ix, parent_ix] = True` with `not_root = parent_id <cmp> <k>`, `node_ix = arange(n)[not_root]`,
`parent_ix = id2ix.loc[parent_id[not_root]]`: row `i` (the `i`-th table row) has `True` in column `j` iff the row
passes the filter and `j` is the position of its parent id; rows and columns labelled by `node_id`. -/
def adjMatW (c : Cmp) (k : Int) (t : Table) : LMat Bool :=
  ⟨ids t, ids t, t.map fun nd => (List.range t.length).map fun j => c.evalInt nd.parent k && ((ids t).idxOf nd.parent == j)⟩

/-- `sort=True`: `adj.loc[sort, sort]` for the label order `p` returned by `node_label_sorting` (a permutation of the
node ids; fragmented skeletons are sorted tree by tree). -/
def adjSorted (c : Cmp) (k : Int) (t : Table) (p : List Int) : LMat Bool := (adjMatW c k t).reindex false p

/-! ### `distal_to` -/

/-- Rows `np.unique(a)` (all ids when `a` is `None`), columns likewise for `b`; entry = "a directed
(child → parent) path from the row node to the column node exists". -/
def axisLabels (t : Table) : FromV → List Int
  | .none => ids t
  | .scalar i => npUnique [i]
  | .list l => npUnique l

def distalW (t : Table) (a b : FromV) : LMat Bool :=
  ⟨axisLabels t a, axisLabels t b,
    (axisLabels t a).map fun x => (axisLabels t b).map fun y => (geo t (fun _ _ => 1) true x y).isSome⟩

/-- `if df.shape == (1, 1): return df.values[0][0]` -/
def distalOut (m : LMat Bool) : Sum Bool (LMat Bool) :=
  match m.vals with
  | [[v]] => .inl v
  | _ => .inr m

/-! ### `dist_to_root` -/

/-- `for root in x.root: dist.update(nx.shortest_path_length(x.graph, target=root, weight=weight))`: one entry per
(root, node that reaches it); later entries overwrite earlier ones. -/
def distToRootW (t : Table) (len : Int → Int → Nat) : List (Int × Nat) :=
  (roots t).flatMap fun r => (ids t).filterMap fun i => (distUp t len i r).map fun d => (i, d)

/-- dictionary lookup: the last entry for the key wins. -/
def dictGet (d : List (Int × Nat)) (k : Int) : Option Nat := (d.reverse.find? fun e => e.1 == k).map (·.2)

/-- `igraph_indices=True`: keys become row positions. -/
def distToRootIdxW (t : Table) (len : Int → Int → Nat) : List (Int × Nat) :=
  (distToRootW t len).map fun e => (Int.ofNat ((ids t).idxOf e.1), e.2)

/-! ### `parent_dist`, `cable_length(mask=…)`, `segment_length` -/

/-- `parent_dist(x, root_dist)`: one entry per table row (`none` = NaN). -/
def parentDistW (c : Cmp) (k : Int) (t : Table) (len : Int → Int → Nat) (rootDist : Option Nat) : List (Option Nat) :=
  t.map fun n => if c.evalInt n.parent k then some (len n.id n.parent) else rootDist

/-- `cable_length(x, mask)`: rows outside the mask are dropped, parents outside the mask become `-1`, then the
child–parent distances of the rows passing the non-root filter are summed. -/
def maskRows (t : Table) (mask : List Bool) : Table := ((t.zip mask).filter fun p => p.2).map (·.1)

/-- `nodes.loc[~nodes.parent_id.isin(nodes.node_id), "parent_id"] = -1` -/
def orphansToRoots (u : Table) : Table := u.map fun n => if (ids u).contains n.parent then n else { n with parent := -1 }

def cableMaskedW (c : Cmp) (k : Int) (t : Table) (len : Int → Int → Nat) (mask : List Bool) : Nat :=
  (((orphansToRoots (maskRows t mask)).filter fun n => c.evalInt n.parent k).map fun n => len n.id n.parent).sum

/-- `sum(graph.edges[(c, p)]["weight"] for c, p in zip(segment[:-1], segment[1:]))` (`none` = `KeyError`: some
consecutive pair is not a child → parent edge). -/
def segLenW (t : Table) (len : Int → Int → Nat) : List Int → Option Nat
  | a :: b :: rest =>
    if adjacent t a b then (segLenW t len (b :: rest)).map (len a b + ·) else none
  | _ => some 0

/-! ### the segment builders, parametrised by the extracted facts -/

def labelOfName : String → Option Label
  | "root" => some .root
  | "end" => some .end_
  | "branch" => some .branch
  | "slab" => some .slab
  | _ => none

/-- The label `classify_nodes` gives the node (proved equal to `classifyNode` in `ForestLemmas`). -/
def typeOf (t : Table) (n : Node) : Label := labelOf (childCount t n.id) (isRootNode n)

structure SegCfg where
  leafLabel : Label          -- `x.nodes.type == "end"`
  leafKeyIsRootDist : Bool   -- `key=lambda x: d.get(x, 0)` with `d = dist_to_root(x, weight=weight)`
  leafReverse : Bool         -- `reverse=True`
  walkAsModelled : Bool      -- take `parents[0]`, append, stop after appending a seen node, else mark and go on
  keepCmp : Cmp              -- `len(sequence) > 1`
  keepK : Nat
  lengthIsRootDistDiff : Bool  -- `d[s[0]] - d[s[-1]]`
  finalLengthFirst : Bool    -- `zip(lengths, sequences)`, no key, pick the sequence
  finalReverse : Bool
  isolatedLast : Bool        -- `nx.isolates` appended after the sort
deriving Repr

/-- `_generate_segments` (Python path) with the extracted facts plugged in. -/
def segmentsW (c : SegCfg) (t : Table) (len : Int → Int → Nat) : List (List Int) :=
  let leafs := (t.filter fun n => typeOf t n == c.leafLabel).map (·.id)
  let key := fun i => if c.leafKeyIsRootDist then distToRoot t len i else 0
  let leafs := if c.leafReverse then sortBy (fun y x => decide (key x ≤ key y)) leafs
               else sortBy (fun y x => decide (key y ≤ key x)) leafs
  let seqs := if c.walkAsModelled then (leafs.foldl (fun (acc : List (List Int) × List Int) l =>
      let r := walkSeen t (t.length + 1) l acc.2
      (acc.1 ++ [l :: r.1], r.2)) ([], [])).1 else leafs.map fun l => rootPath t l
  let seqs := seqs.filter fun s => c.keepCmp.evalNat s.length c.keepK
  let slen := fun (s : List Int) => if c.lengthIsRootDistDiff then pathLen len s else s.length
  let key2 := fun (s : List Int) => (slen s, s)
  let seqs := if c.finalLengthFirst then
      (if c.finalReverse then
        sortBy (fun y x => let ky := key2 y; let kx := key2 x
          decide (kx.1 < ky.1) || (kx.1 == ky.1 && !lexLt ky.2 kx.2)) seqs
       else
        sortBy (fun y x => let ky := key2 y; let kx := key2 x
          decide (ky.1 < kx.1) || (ky.1 == kx.1 && !lexLt kx.2 ky.2)) seqs)
    else seqs
  let isolated := (t.filter fun n => isRootNode n && childCount t n.id == 0).map fun n => [n.id]
  if c.isolatedLast then seqs ++ isolated else isolated ++ seqs

/-- `_break_segments` (networkx branch) with the extracted type sets: seeds = nodes whose type is in `seeds`,
each walks to the first node whose type is in `stops`. -/
def isStopW (stops : List Label) (t : Table) (i : Int) : Bool :=
  match find? t i with
  | some n => stops.contains (labelOf (childCount t i) (decide (n.parent < 0)))
  | none => true

def smallSegmentsW (seeds stops : List Label) (t : Table) : List (List Int) :=
  (t.filter fun n => seeds.contains (typeOf t n)).map fun n => n.id :: walkToStop t (isStopW stops t) (t.length + 1) n.id

end Navis.DistX
