/-
Model of the job partitioning and block placement of `navis.nbl.nblast_funcs.nblast`,
`nblast_allbyall` (C09).  Import-free, total, computable.

  * `chunk n k i`      = i-th piece of `np.array_split(np.arange(n), k)`
  * `jobs`             = the `for qix in …: for tix in …:` grid
  * `jobResult`        = what one job returns, computed through the job-*local* indices
                         (`this.queries = arange(len(qix))`, `this.targets = arange(len(tix)) + len(qix)`)
  * `jobResultAll`     = the all-by-all variant (`ixmap` over an enumeration of `set(qix)|set(tix)`)
  * `place` / `assemble` = `scores.iloc[this.queries_ix, this.targets_ix] = res.values`
                         executed in the order in which jobs complete.
-/
namespace Navis.Partition

/-- Size of the `i`-th chunk of `np.array_split(range n, k)`: the first `n % k` chunks are one longer. -/
def chunkSize (n k i : Nat) : Nat := n / k + (if i < n % k then 1 else 0)

/-- First element of the `i`-th chunk. -/
def chunkStart (n k i : Nat) : Nat := i * (n / k) + min i (n % k)

def chunk (n k i : Nat) : List Nat := List.range' (chunkStart n k i) (chunkSize n k i)

def arraySplit (n k : Nat) : List (List Nat) := (List.range k).map (chunk n k)

/-- One job: the global query indices and the global target indices. -/
structure Job where
  qix : List Nat
  tix : List Nat
deriving Repr, DecidableEq

/-- The job grid in submission order (rows outer, columns inner). -/
def jobs (nq nt rows cols : Nat) : List Job :=
  (arraySplit nq rows).flatMap fun q => (arraySplit nt cols).map fun t => ⟨q, t⟩

/-- Job-local neuron list of `nblast`: queries appended first, then targets. -/
def localList (j : Job) : List Nat := j.qix ++ j.tix

/-- `this.queries = np.arange(len(qix))`. -/
def localQueries (j : Job) : List Nat := List.range j.qix.length

/-- `this.targets = np.arange(len(tix)) + len(qix)`. -/
def localTargets (j : Job) : List Nat := (List.range j.tix.length).map (· + j.qix.length)

/-- Result block of a job of `nblast`: `res[a][b] = score(local[queries[a]], local[targets[b]])`. -/
def jobResult {α} (f : Nat → Nat → α) (j : Job) : List (List α) :=
  (localQueries j).map fun a => (localTargets j).map fun b =>
    f ((localList j).getD a 0) ((localList j).getD b 0)

/-- Result block of a job of `nblast_allbyall`, where the job-local list is an arbitrary
enumeration `e` of `set(qix) | set(tix)` and `ixmap` maps a global index to its position in `e`. -/
def jobResultAll {α} (f : Nat → Nat → α) (e : List Nat) (j : Job) : List (List α) :=
  (j.qix.map fun g => e.idxOf g).map fun a => (j.tix.map fun g => e.idxOf g).map fun b =>
    f (e.getD a 0) (e.getD b 0)

/-- Score matrix under construction: `none` = cell still holds `np.empty` garbage. -/
abbrev Mat (α : Type) := Nat → Nat → Option α

def emptyMat {α} : Mat α := fun _ _ => none

/-- `scores.iloc[qix, tix] = res` : cell `(qix[a], tix[b]) := res[a][b]`. -/
def place {α} (m : Mat α) (j : Job) (res : List (List α)) : Mat α := fun r c =>
  if r ∈ j.qix ∧ c ∈ j.tix then
    match res[j.qix.idxOf r]? with
    | some row => match row[j.tix.idxOf c]? with
      | some v => some v
      | none => m r c
    | none => m r c
  else m r c

/-- Fill the matrix from finished jobs in the order they complete. -/
def assemble {α} (f : Nat → Nat → α) (done : List Job) : Mat α :=
  done.foldl (fun m j => place m j (jobResult f j)) emptyMat

def assembleAll {α} (f : Nat → Nat → α) (enum : Job → List Nat) (done : List Job) : Mat α :=
  done.foldl (fun m j => place m j (jobResultAll f (enum j) j)) emptyMat

/-- Placement of explicitly given result blocks (used by the driver on blocks produced by navis). -/
def assembleBlocks {α} (done : List (Job × List (List α))) : Mat α :=
  done.foldl (fun m jr => place m jr.1 jr.2) emptyMat

/-- `find_optimal_partition(N_cores, q, t)`: among divisors `r` of `N` with `r ≤ nq`,
`c = min (N / r) nt`, minimise `nq / r + nt / c` (first minimum wins, as `np.argmin`).
Comparison of the rationals `nq/r + nt/c` is done by cross-multiplication. -/
def optCandidates (N nq nt : Nat) : List (Nat × Nat) :=
  ((List.range N).map (· + 1)).filterMap fun r =>
    if N % r ≠ 0 then none else if r > nq then none else some (r, min (N / r) nt)

/-- cost(r,c) < cost(r',c')  with cost = nq/r + nt/c, all denominators positive. -/
def costLt (nq nt : Nat) (a b : Nat × Nat) : Bool :=
  (nq * a.2 + nt * a.1) * (b.1 * b.2) < (nq * b.2 + nt * b.1) * (a.1 * a.2)

def argminFirst (lt : α → α → Bool) : List α → Option α
  | [] => none
  | x :: xs => some (xs.foldl (fun best y => if lt y best then y else best) x)

def findOptimalPartition (N nq nt : Nat) : Option (Nat × Nat) :=
  argminFirst (costLt nq nt) (optCandidates N nq nt)

/-- `while (n_rows * n_cols) % n_cores: n_rows += 1` with explicit fuel. -/
def batchRowsLoop (cols n : Nat) : Nat → Nat → Nat
  | 0, rows => rows
  | fuel + 1, rows => if (rows * cols) % n ≠ 0 then batchRowsLoop cols n fuel (rows + 1) else rows

/-- `find_batch_partition` after the timing measurement has produced `neurons_per_batch`, the loop as
written (fuel `n_cores` always suffices, see `Props.C09.batch_loop_terminates`). -/
def findBatchPartition (npb nq nt : Nat) (ncores : Option Nat) : Nat × Nat :=
  let rows := max 1 (nq / npb)
  let cols := max 1 (nt / npb)
  match ncores with
  | some n => if n ≠ 0 ∧ rows * cols > n then (batchRowsLoop cols n n rows, cols) else (rows, cols)
  | none => (rows, cols)

end Navis.Partition

namespace Navis.Partition

/-! ## Extensions (second pass)

### `scores='both'`: two rows per query

`Blaster.multi_query_target(scores='both')` fills a 3-d array `res[i,k] = (forward, reverse)` and returns
`np.hstack((res[:,:,0], res[:,:,1])).reshape(len(q_idx)*2, len(t_idx))`; `nblast` places that block at
`rows_ix = np.repeat(this.queries_ix * 2, 2); rows_ix[1::2] += 1`. -/

/-- `np.repeat(xs, 2)`. -/
def repeat2 (xs : List Nat) : List Nat := xs.flatMap fun v => [v, v]

/-- `xs[1::2] += 1`. -/
def addOdd (xs : List Nat) : List Nat := xs.mapIdx fun i v => if i % 2 = 1 then v + 1 else v

/-- `rows_ix` of a finished `scores='both'` job, as written. -/
def bothRows (qix : List Nat) : List Nat := addOdd (repeat2 (qix.map (· * 2)))

/-- `np.hstack((F, R))` of two equally high matrices. -/
def hstack {α} (F R : List (List α)) : List (List α) := List.zipWith (· ++ ·) F R

/-- C-order `flat.reshape(rows, cols)`. -/
def reshape {α} (rows cols : Nat) (flat : List α) : List (List α) :=
  (List.range rows).map fun i => (flat.drop (i * cols)).take cols

/-- The block a `scores='both'` job returns, from its 3-d array `res[a][b] = (fwd, rev)`. -/
def bothBlock {α} (res : List (List (α × α))) (nq nt : Nat) : List (List α) :=
  reshape (2 * nq) nt (hstack (res.map (·.map Prod.fst)) (res.map (·.map Prod.snd))).flatten

def jobResultBoth {α} (f : Nat → Nat → α × α) (j : Job) : List (List α) :=
  bothBlock (jobResult f j) j.qix.length j.tix.length

/-- The destination of a `both` block inside the `2·nq × nt` matrix. -/
def bothJob (j : Job) : Job := ⟨bothRows j.qix, j.tix⟩

def assembleBoth {α} (f : Nat → Nat → α × α) (done : List Job) : Mat α :=
  assembleBlocks (done.map fun j => (bothJob j, jobResultBoth f j))

/-! ### `find_batch_partition`: timing → neurons per batch -/

/-- `max(1, int(np.sqrt(T / time_per_query)))` for a measured `time_per_query = tnum / tden` seconds. -/
def neuronsPerBatch (T tnum tden : Nat) : Nat := max 1 (Nat.sqrt (T * tden / tnum))

/-! ### Which partition each NBLAST flavour asks for

`nblast`:   `if n_cores and n_cores > 1:` progress ⇒ `find_batch_partition(T = 10·JOB_SIZE_MULTIPLIER)`,
            else `find_batch_partition(T = JOB_MAX_TIME_SECONDS)` and, when that yields fewer jobs than
            cores, `find_optimal_partition`; otherwise `1 × 1`.
`nblast_allbyall`, `nblast_smart`, `synblast`: progress ⇒ batch partition, else optimal partition.
`npbP`, `npbM` are the neurons-per-batch values the timing measurement yields for the two `T`s. -/
def chooseNblast (ncores : Option Nat) (progress : Bool) (npbP npbM nq nt : Nat) : Option (Nat × Nat) :=
  match ncores with
  | some n =>
    if n > 1 then
      if progress then some (findBatchPartition npbP nq nt none)
      else
        let rc := findBatchPartition npbM nq nt none
        if rc.1 * rc.2 < n then findOptimalPartition n nq nt else some rc
    else some (1, 1)
  | none => some (1, 1)

def chooseSimple (ncores : Option Nat) (progress : Bool) (npbP nq nt : Nat) : Option (Nat × Nat) :=
  match ncores with
  | some n =>
    if n > 1 then
      if progress then some (findBatchPartition npbP nq nt none) else findOptimalPartition n nq nt
    else some (1, 1)
  | none => some (1, 1)

/-- Does the code take the multi-job path?  `if n_cores and n_cores > 1 and (n_cols > 1 or n_rows > 1)`
submits, `if futures and len(futures) > 1` collects. -/
def multiJob (ncores : Option Nat) (rows cols : Nat) : Bool :=
  match ncores with
  | some n => n > 1 ∧ (cols > 1 ∨ rows > 1)
  | none => false

end Navis.Partition
