/-
Model of the job partitioning and block placement of `navis.nbl.nblast_funcs.nblast`,
`nblast_allbyall` (C09).  Import-free, total, computable.

  * `chunk n k i`      = i-th piece of `np.array_split(np.arange(n), k)`
  * `jobs`             = the `for qix in …: for tix in …:` grid
  * `jobResult`        = what one job returns, computed through the job-*local* indices
                         (`this.queries = arange(len(qix))`, `this.targets = arange(len(tix)) + len(qix)`)
  * `jobResultAll`     = the all-by-all variant (`ixmap` over an enumeration of `set(qix)|set(tix)`)
  * `place` / `assemble` = `scores.iloc[this.queries_ix, this.targets_ix] = res.values`
                         executed in the order in which jobs complete.
-/
namespace Navis.Partition

/-- Size of the `i`-th chunk of `np.array_split(range n, k)`: the first `n % k` chunks are one longer. -/
def chunkSize (n k i : Nat) : Nat := n / k + (if i < n % k then 1 else 0)

/-- First element of the `i`-th chunk. -/
def chunkStart (n k i : Nat) : Nat := i * (n / k) + min i (n % k)

def chunk (n k i : Nat) : List Nat := List.range' (chunkStart n k i) (chunkSize n k i)

def arraySplit (n k : Nat) : List (List Nat) := (List.range k).map (chunk n k)

/-- One job: the global query indices and the global target indices. -/
structure Job where
  qix : List Nat
  tix : List Nat
deriving Repr, DecidableEq

/-- The job grid in submission order (rows outer, columns inner). -/
def jobs (nq nt rows cols : Nat) : List Job :=
  (arraySplit nq rows).flatMap fun q => (arraySplit nt cols).map fun t => ⟨q, t⟩

/-- Job-local neuron list of `nblast`: queries appended first, then targets. -/
def localList (j : Job) : List Nat := j.qix ++ j.tix

/-- `this.queries = np.arange(len(qix))`. -/
def localQueries (j : Job) : List Nat := List.range j.qix.length

/-- `this.targets = np.arange(len(tix)) + len(qix)`. -/
def localTargets (j : Job) : List Nat := (List.range j.tix.length).map (· + j.qix.length)

/-- Result block of a job of `nblast`: `res[a][b] = score(local[queries[a]], local[targets[b]])`. -/
def jobResult {α} (f : Nat → Nat → α) (j : Job) : List (List α) :=
  (localQueries j).map fun a => (localTargets j).map fun b =>
    f ((localList j).getD a 0) ((localList j).getD b 0)

/-- Result block of a job of `nblast_allbyall`, where the job-local list is an arbitrary
enumeration `e` of `set(qix) | set(tix)` and `ixmap` maps a global index to its position in `e`. -/
def jobResultAll {α} (f : Nat → Nat → α) (e : List Nat) (j : Job) : List (List α) :=
  (j.qix.map fun g => e.idxOf g).map fun a => (j.tix.map fun g => e.idxOf g).map fun b =>
    f (e.getD a 0) (e.getD b 0)

/-- Score matrix under construction: `none` = cell still holds `np.empty` garbage. -/
abbrev Mat (α : Type) := Nat → Nat → Option α

def emptyMat {α} : Mat α := fun _ _ => none

/-- `scores.iloc[qix, tix] = res` : cell `(qix[a], tix[b]) := res[a][b]`. -/
def place {α} (m : Mat α) (j : Job) (res : List (List α)) : Mat α := fun r c =>
  if r ∈ j.qix ∧ c ∈ j.tix then
    match res[j.qix.idxOf r]? with
    | some row => match row[j.tix.idxOf c]? with
      | some v => some v
      | none => m r c
    | none => m r c
  else m r c

/-- Fill the matrix from finished jobs in the order they complete. -/
def assemble {α} (f : Nat → Nat → α) (done : List Job) : Mat α :=
  done.foldl (fun m j => place m j (jobResult f j)) emptyMat

def assembleAll {α} (f : Nat → Nat → α) (enum : Job → List Nat) (done : List Job) : Mat α :=
  done.foldl (fun m j => place m j (jobResultAll f (enum j) j)) emptyMat

/-- Placement of explicitly given result blocks (used by the driver on blocks produced by navis). -/
def assembleBlocks {α} (done : List (Job × List (List α))) : Mat α :=
  done.foldl (fun m jr => place m jr.1 jr.2) emptyMat

/-- `find_optimal_partition(N_cores, q, t)`: among divisors `r` of `N` with `r ≤ nq`,
`c = min (N / r) nt`, minimise `nq / r + nt / c` (first minimum wins, as `np.argmin`).
Comparison of the rationals `nq/r + nt/c` is done by cross-multiplication. -/
def optCandidates (N nq nt : Nat) : List (Nat × Nat) :=
  ((List.range N).map (· + 1)).filterMap fun r =>
    if N % r ≠ 0 then none else if r > nq then none else some (r, min (N / r) nt)

/-- cost(r,c) < cost(r',c')  with cost = nq/r + nt/c, all denominators positive. -/
def costLt (nq nt : Nat) (a b : Nat × Nat) : Bool :=
  (nq * a.2 + nt * a.1) * (b.1 * b.2) < (nq * b.2 + nt * b.1) * (a.1 * a.2)

def argminFirst (lt : α → α → Bool) : List α → Option α
  | [] => none
  | x :: xs => some (xs.foldl (fun best y => if lt y best then y else best) x)

def findOptimalPartition (N nq nt : Nat) : Option (Nat × Nat) :=
  argminFirst (costLt nq nt) (optCandidates N nq nt)

/-- `find_batch_partition` after the timing measurement has produced `neurons_per_batch ≥ 1`. -/
def findBatchPartition (npb nq nt : Nat) (ncores : Option Nat) : Nat × Nat :=
  let rows := max 1 (nq / npb)
  let cols := max 1 (nt / npb)
  match ncores with
  | some n =>
    if n ≠ 0 ∧ rows * cols > n then
      -- `while (rows*cols) % n: rows += 1` terminates within `n` steps
      let rows' := ((List.range (n + 1)).map (rows + ·)).find? (fun r => (r * cols) % n = 0)
      (rows'.getD rows, cols)
    else (rows, cols)
  | none => (rows, cols)

end Navis.Partition
