import NavisModel.Model.Dist
import NavisModel.Model.Ops
/-
Pruning keep-sets (C12) and the Strahler index (C12, C17), by their definitions.
-/
namespace Navis.Forest

/-! ### Strahler index (`mmetrics.strahler_index`) -/

/-- The rule at a fork: continue the children's maximum, plus one when it occurs at least twice;
`greedy` adds the children up. -/
def strahlerRule (greedy : Bool) (cs : List Nat) : Nat :=
  match cs with
  | [] => 1
  | [c] => c
  | _ => if greedy then cs.sum else
      let m := cs.foldl max 0
      if cs.count m ≥ 2 then m + 1 else m

/-- Structural recurrence (fuel = height bound). `ign` lists ignored twig starts (leafs): an ignored
twig contributes 0 to its parent branch. -/
def strahlerRaw (t : Table) (greedy : Bool) (ign : List Int) : Nat → Int → Nat
  | 0, _ => 1
  | fuel + 1, i =>
    match children t i with
    | [] => if ign.contains i then 0 else 1
    | [c] => strahlerRaw t greedy ign fuel c
    | cs => strahlerRule greedy (cs.map (strahlerRaw t greedy ign fuel))

/-- The leaf at the bottom of the unbranched chain through `i` (`none` if the chain forks). -/
def chainLeaf (t : Table) : Nat → Int → Option Int
  | 0, _ => none
  | fuel + 1, i =>
    match children t i with
    | [] => some i
    | [c] => chainLeaf t fuel c
    | _ => none

/-- First branch point or root strictly above `i`. -/
def stopAbove (t : Table) (i : Int) : Option Int :=
  (walkToStop t (isBranchOrRoot t) (t.length + 1) i).getLast?

/-- Final Strahler index: nodes on an ignored twig take the index of the branch the twig hangs on. -/
def strahler (t : Table) (greedy : Bool) (ign : List Int) (i : Int) : Nat :=
  let raw := strahlerRaw t greedy ign (t.length + 1)
  match chainLeaf t (t.length + 1) i with
  | some l =>
    if ign.contains l then
      match stopAbove t l with
      | some s => raw s
      | none => raw i
    else raw i
  | none => raw i

/-- `min_twig_size`: leafs whose small segment (branch point included) has fewer than `k` nodes. -/
def shortTwigs (t : Table) (k : Nat) : List Int :=
  (smallSegments t).filterMap fun s =>
    match s.head? with
    | some h => if childCount t h == 0 && s.length < k then some h else none
    | none => none

/-! ### prune_twigs (`_prune_twigs_simple`) -/

/-- Terminal branches: small segments that start at a leaf and end at a branch point (a node with
at least two children, root or not).  A chain that ends at a non-forking root is not a twig: the
property delimits a terminal branch by "the next branch point". -/
def terminalSegs (t : Table) : List (List Int) :=
  (smallSegments t).filter fun s => match s.head?, s.getLast? with
    | some h, some l => childCount t h == 0 && decide (childCount t l ≥ 2)
    | _, _ => false

/-- Nodes removed by one round: all but the last node of every terminal segment with
`length ≤ size` whose leaf is in the mask. -/
def twigDelete (t : Table) (len : Int → Int → Nat) (size : Nat) (mask : Option (List Int)) : List Int :=
  ((terminalSegs t).filter fun s =>
      decide (pathLen len s ≤ size) &&
      (match mask, s.head? with
       | some m, some h => m.contains h
       | some _, none => false
       | none, _ => true)).flatMap fun s => s.dropLast

def pruneTwigsOnce (t : Table) (len : Int → Int → Nat) (size : Nat) (mask : Option (List Int)) : Table :=
  let del := twigDelete t len size mask
  if del.isEmpty then t else subset t fun i => !del.contains i

/-- `rounds` further rounds after the first (`recursive=k`); stops early when nothing is deleted. -/
def pruneTwigs (t : Table) (len : Int → Int → Nat) (size : Nat) (mask : Option (List Int)) : Nat → Table
  | 0 => pruneTwigsOnce t len size mask
  | k + 1 =>
    let del := twigDelete t len size mask
    if del.isEmpty then t else pruneTwigs (subset t fun i => !del.contains i) len size mask k

/-! ### prune_twigs(exact=True) (`_prune_twigs_precise`): exactly `size` of cable off every tip -/

/-- Height of a node: the largest path length down to a leaf distal to it (0 for a leaf). -/
def heightOf (t : Table) (len : Int → Int → Nat) : Nat → Int → Nat
  | 0, _ => 0
  | fuel + 1, i => ((children t i).map fun c => len c i + heightOf t len fuel c).foldl max 0

/-- Result of exact pruning as `(id, parent, τ)`: nodes whose height exceeds `size` are untouched
(`τ = 0`); a node within `size` of all its distal tips survives only as the new tip of its parent
edge, moved the fraction `τ = (size − height) / edge length` towards its parent — and only if the edge
is long enough; everything distal to such a node is removed.  Roots are never moved. -/
def exactPrune (t : Table) (len : Int → Int → Nat) (size : Rat) : List (Int × Int × Rat) :=
  let h : Int → Rat := fun i => (heightOf t len (t.length + 1) i : Nat)
  let inR : Int → Bool := fun i => decide (h i ≤ size)
  t.filterMap fun n =>
    if !inR n.id then some (n.id, n.parent, 0)
    else if n.parent < 0 then some (n.id, n.parent, 0)
    else if inR n.parent then none
    else
      let tau : Rat := size - h n.id
      let L : Rat := (len n.id n.parent : Nat)
      if L < tau then none
      else some (n.id, n.parent, if L = 0 then 0 else tau / L)

/-! ### prune_by_strahler: the index set -/

inductive SISel where
  | int (k : Int)                 -- positive: that index; negative: range(1, max + k + 1)
  | list (ks : List Int)
  | range (a b : Int)             -- range(a, b)
  | slice (a b : Option Int)      -- list(range(1, max+1))[a:b]
deriving Repr

/-- Python slice bounds on a list of length `n`. -/
def sliceBound (n : Nat) (v : Option Int) (dflt : Nat) : Nat :=
  match v with
  | none => dflt
  | some i => if i < 0 then (Int.toNat (n + i)) else min n i.toNat

def siSet (maxSI : Nat) : SISel → Option (List Nat)
  | .int k =>
    if k < 0 then some ((List.range (Int.toNat (maxSI + (k + 1)))).filter (· ≥ 1))
    else if k < 1 then none else some [k.toNat]
  | .list ks => some ((ks.filter (· ≥ 0)).map Int.toNat)
  | .range a b => some (((List.range (Int.toNat b)).filter fun i => decide (a ≤ (i : Int))))
  | .slice a b =>
    let full := (List.range (maxSI + 1)).filter (· ≥ 1)
    let lo := sliceBound full.length a 0
    let hi := sliceBound full.length b full.length
    some ((full.take hi).drop lo)

/-- Keep the nodes whose Strahler index is not selected; orphans become roots. -/
def pruneByStrahler (t : Table) (sel : SISel) : Option Table :=
  let si := fun i => strahler t false [] i
  let mx := ((ids t).map si).foldl max 0
  match siSet mx sel with
  | none => none
  | some s => some (classify (fixOrphans (t.filter fun n => !s.contains (si n.id))))

/-! ### prune_at_depth -/

def pruneAtDepth (t : Table) (len : Int → Int → Nat) (source : Int) (depth : Nat) : Table :=
  subset t fun i => match geo t len false source i with
    | some d => decide (d ≤ depth)
    | none => false

/-! ### longest_neurite (from_root) -/

def longestNeurite (t : Table) (len : Int → Int → Nat) (lo hi : Nat) (inverse : Bool) : Table :=
  let segs := segments t len
  let keep := ((segs.take hi).drop lo).flatten
  if inverse then subset t fun i => !keep.contains i else subset t fun i => keep.contains i

/-! ### connector relocation: nearest surviving ancestor -/

def relocate (t : Table) (kept : List Int) (node : Int) : Option Int :=
  (rootPath t node).find? fun a => kept.contains a

end Navis.Forest
