import NavisModel.Model.Flow
/-
`strahler_index` on the DEFAULT path calls the compiled accelerator navis-fastcore (outside the repository).
Without `to_ignore` / `min_twig_size` it returns the Strahler recurrence (`Model/Prune.lean: strahler`).  With them it
deviates from the documented semantics (open finding `strahler_index/fastcore/ignored-twigs-keep-index-0`).  This file
models the accelerator's behaviour **as observed** (it reproduces navis-fastcore 0.13 on every forest with ≤ 6 nodes,
every subset of leafs as `to_ignore`, `min_twig_size ∈ {none, 1..4}`, both methods — 53 160 inputs), so that the
correspondence check stays *exact* on inputs that hit the finding: a different deviation (e.g. navis handing the
ignore list to the accelerator by position instead of by id) is still reported.

Observed behaviour:
* a leaf is ignored when it is listed in `to_ignore`, or when its twig (the small segment it seeds) has fewer than
  `min_twig_size` nodes — except that a twig ending in a *non-forking* root is never tested against `min_twig_size`;
* an ignored leaf gets 0; zeros are dropped from the children's indices before the rule is applied, and a node all of
  whose children carry 0 gets 0 itself (the Python code applies the rule to the zeros: `[0, 0] ↦ 1`);
* the nodes of an ignored twig take the index of the node the twig ends in when that node is not a root; when it is a
  (forking) root they do so only if the leaf was ignored because of `min_twig_size` and is not listed in `to_ignore`;
  otherwise they keep 0.
Import-free, total, computable.
-/
namespace Navis.Flow
open Navis.Forest

/-- Leafs whose twig is shorter than `k` nodes, as the accelerator sees them. -/
def shortTwigsFc (t : Table) (k : Nat) : List Int :=
  (smallSegments t).filterMap fun s =>
    match s.head?, s.getLast? with
    | some h, some e =>
      if childCount t h == 0 && !(isRootId t e && decide (childCount t e < 2)) && decide (s.length < k) then some h else none
    | _, _ => none

def fcRaw (t : Table) (greedy : Bool) (eff : List Int) : Nat → Int → Nat
  | 0, _ => 1
  | fuel + 1, i =>
    match children t i with
    | [] => if eff.contains i then 0 else 1
    | cs =>
      match (cs.map (fcRaw t greedy eff fuel)).filter (fun v => decide (0 < v)) with
      | [] => 0
      | [c] => c
      | nz => strahlerRule greedy nz

/-- navis-fastcore's `strahler_index(…, to_ignore=ign, min_twig_size=mt)` as observed (`mt = 0`: not given; `ign` must
list leafs). -/
def strahlerFc (t : Table) (greedy : Bool) (ign : List Int) (mt : Nat) (i : Int) : Nat :=
  let short := if mt == 0 then [] else shortTwigsFc t mt
  let eff := ign ++ short
  let raw := fcRaw t greedy eff (t.length + 1)
  match chainLeaf t (t.length + 1) i with
  | some l =>
    if eff.contains l then
      match stopAbove t l with
      | some s => if !isRootId t s || (short.contains l && !ign.contains l) then raw s else raw i
      | none => raw i
    else raw i
  | none => raw i

end Navis.Flow
