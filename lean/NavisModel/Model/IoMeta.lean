/-
Metadata side of navis' file formats (C14, second pass) – everything that is *not* the byte codec of
`Model/Codec.lean`:

* the table of reader classes (`navis/io/*.py`) and the resolution of inherited methods, so that the `errors`
  policy model of `Model/Policy.lean` is known to apply to **every** reader class;
* the header dictionary `_write_nrrd` assembles (as the list of dictionary operations the translator extracts from
  the source, executed by an interpreter) and what `NrrdReader.read_buffer` makes of it;
* the neuroglancer `info` file (`write_info_file`, `PrecomputedWriter.write_any`, `read_precomputed`);
* how `PrecomputedSkeletonReader.read_buffer` turns a multi-component vertex attribute into table columns;
* the key filter of `write_json` / `read_json` and which neuron types `write_json` accepts;
* the `units_nm` / `soma` / `neuron_name` attributes of the raw HDF5 representation.

Import-free; unit magnitudes are `Rat` (0.5 nm, 4.5 nm … are legal voxel sizes).
-/
namespace Navis.IoMeta

/-! ### reader classes -/

/-- One class deriving from `BaseReader`. `none` = the class does not define the method itself (inherits). -/
structure ReaderClass where
  name : String
  module : String
  base : String
  ownFormatOutputFilters : Option Bool
  readBufferDecorated : Option Bool
  readDataframeDecorated : Option Bool
  /-- batch-loop / dispatch / file-name methods of `BaseReader` this class overrides -/
  overrides : List String
deriving Repr, DecidableEq

/-- The only `BaseReader` method a subclass may replace without leaving the policy model: the file filter
(modelled separately in `Model/IoBatch.lean`). Everything else (`read_directory`, `read_from_zip`, `read_any_multi`,
`parse_filename`, …) must be the code of `BaseReader` that `Model/Policy.lean` / `Model/Swc.lean` follow. -/
def allowedOverrides : List String := ["is_valid_file"]

def findClass (cs : List ReaderClass) (n : String) : Option ReaderClass := cs.find? (·.name == n)

/-- Python attribute lookup along the (single-inheritance) base chain: the first class on the way up that defines
the method decides; reaching `BaseReader` yields `dflt` (what `BaseReader` itself does). -/
def resolve (cs : List ReaderClass) (field : ReaderClass → Option Bool) (dflt : Bool) : Nat → String → Bool
  | 0, _ => false
  | fuel + 1, n =>
    if n == "BaseReader" then dflt else
      match findClass cs n with
      | none => false
      | some c =>
        match field c with
        | some b => b
        | none => resolve cs field dflt fuel c.base

/-- All overrides visible from a class (its own and its ancestors'). -/
def allOverrides (cs : List ReaderClass) : Nat → String → List String
  | 0, _ => []
  | fuel + 1, n =>
    if n == "BaseReader" then [] else
      match findClass cs n with
      | none => []
      | some c => c.overrides ++ allOverrides cs fuel c.base

/-- The policy model applies to class `c`: its effective `format_output` drops `None`, its effective `read_buffer` and
`read_dataframe` are wrapped by `handle_errors`, and no batch loop is replaced anywhere on its base chain. -/
def policyApplies (cs : List ReaderClass) (baseFilters baseDecorated : Bool) (c : ReaderClass) : Bool :=
  resolve cs (·.ownFormatOutputFilters) baseFilters (cs.length + 1) c.name &&
  resolve cs (·.readBufferDecorated) baseDecorated (cs.length + 1) c.name &&
  resolve cs (·.readDataframeDecorated) baseDecorated (cs.length + 1) c.name &&
  (allOverrides cs (cs.length + 1) c.name).all (allowedOverrides.contains ·)

/-! ### the NRRD header dictionary -/

abbrev V3R := Rat × Rat × Rat

inductive Val where
  | int (n : Int)
  | diag (d : V3R)                 -- a 3×3 diagonal matrix
  | strs (l : List String)
  | other (s : String)
deriving Repr, DecidableEq

/-- A Python `dict` with string keys: insertion-ordered association list without duplicate keys. -/
abbrev Header := List (String × Val)

def get (h : Header) (k : String) : Option Val :=
  match h with
  | [] => none
  | (k', v) :: r => if k' = k then some v else get r k

/-- `h[k] = v` -/
def set (h : Header) (k : String) (v : Val) : Header :=
  match h with
  | [] => [(k, v)]
  | (k', v') :: r => if k' = k then (k, v) :: r else (k', v') :: set r k v

/-- `h.update(a)` -/
def update (h : Header) (a : Header) : Header :=
  match a with
  | [] => h
  | (k, v) :: r => update (set h k v) r

/-- What `_write_nrrd` needs to know about the neuron *now*. -/
structure Geo where
  mags : V3R              -- `x.units_xyz.magnitude`
  unit : String           -- `str(x.units_xyz.units)`
  k : Int                 -- `x.k` (Dotprops)
  isDotprops : Bool
deriving Repr

/-- Right-hand sides the translator recognises. -/
inductive Src where
  | three | diagUnits | unitNames | k | other
deriving Repr, DecidableEq

def evalSrc (x : Geo) : Src → Val
  | .three => .int 3
  | .diagUnits => .diag x.mags
  | .unitNames => .strs [x.unit, x.unit, x.unit]
  | .k => .int x.k
  | .other => .other "?"

/-- One statement of `_write_nrrd` acting on the local `header`. -/
inductive HOp where
  | init                                    -- `header = getattr(x, "nrrd_header", {})` (the old header or a copy)
  | empty                                   -- `header = {}` / a dict literal (followed by `set`s)
  | set (key : String) (src : Src) (dotpropsOnly : Bool)
  | updateOld                               -- `header.update(getattr(x, "nrrd_header", {}))`
  | updateAttrs                             -- `header.update(attrs or {})`
deriving Repr, DecidableEq

def step (x : Geo) (old attrs : Header) (h : Header) : HOp → Header
  | .init => old
  | .empty => []
  | .set k s dp => if dp && !x.isDotprops then h else set h k (evalSrc x s)
  | .updateOld => update h old
  | .updateAttrs => update h attrs

/-- The header handed to `nrrd.write`. `old` = the `nrrd_header` the neuron carries from an earlier `read_nrrd`
(`[]` when it has none), `attrs` = the user's extra fields. -/
def runOps (ops : List HOp) (x : Geo) (old attrs : Header) : Header :=
  ops.foldl (step x old attrs) []

/-- `NrrdReader.read_buffer`: voxel size = diagonal of `space directions` (default 1,1,1); the unit names when
`space units` has three entries. `convert_image` then sets `units = [f"{m} {u}" …]` (VoxelNeuron, and Dotprops
from 2-D data). -/
def readGeo (h : Header) : V3R × Option (String × String × String) :=
  let voxdim : V3R := match get h "space directions" with
    | some (.diag d) => d
    | _ => (1, 1, 1)
  match get h "space units" with
  | some (.strs [a, b, c]) => (voxdim, some (a, b, c))
  | _ => (voxdim, none)

/-- `convert_image`, 2-D data: `k` from the header (`int(k)` of the string pynrrd hands back). -/
def readK (h : Header) : Option Int :=
  match get h "k" with
  | some (.int k) => some k
  | _ => none

def keysFree (a : Header) (ks : List String) : Prop := ∀ k ∈ ks, get a k = none

/-! ### the precomputed `info` file -/

/-- One `vertex_attributes` entry: id, dtype name, `num_components`. -/
structure VAttr where
  id : String
  dtype : String
  comps : Nat
deriving Repr, DecidableEq

structure Info where
  type : Option String                    -- `@type`
  transform : Option (List Rat)           -- 12 numbers
  vertexAttrs : Option (List VAttr)       -- `none` = key absent
deriving Repr, DecidableEq

/-- `tr = zeros((4, 3)); tr[:3, :3] = diag(u); tr.T.flatten()` – written out: `tr.T` is 3×4, row `i` holds
`u_i` in column `i`. -/
def mat43 (u : V3R) : List (List Rat) := [[u.1, 0, 0], [0, u.2.1, 0], [0, 0, u.2.2], [0, 0, 0]]

def transpose43 (m : List (List Rat)) : List (List Rat) :=
  (List.range 3).map fun j => m.map fun row => row.getD j 0

def transformOf (u : V3R) : List Rat := (transpose43 (mat43 u)).flatten

/-- `write_info_file(data, add_props)`: meshes get the type only, skeletons type + nm transform (scale `1` for
dimensionless units); then `info.update(add_props)`. -/
def writeInfo (isMesh : Bool) (nm : Option V3R) (addAttrs : Option (List VAttr)) : Info :=
  if isMesh then ⟨some "neuroglancer_legacy_mesh", none, addAttrs⟩
  else ⟨some "neuroglancer_skeletons", some (transformOf (nm.getD (1, 1, 1))), addAttrs⟩

def radiusVAttr : VAttr := ⟨"radius", "float32", 1⟩

/-- `add_props` of `PrecomputedWriter.write_any`. -/
def addProps (radius : Bool) : Option (List VAttr) := if radius then some [radiusVAttr] else none

/-- `PrecomputedWriter.write_any`: the `info` file that ends up next to the binaries (inside the archive for a
`.zip` target, in the first existing parent folder otherwise). `passes` says, per branch, whether the call hands
`add_props` on – generated from the source. -/
def infoWritten (passes : List (String × Bool)) (container : String) (isMesh : Bool) (nm : Option V3R)
    (radius : Bool) : Info :=
  let branch := if container = "zip" then "zip" else "dir"
  match passes.find? (·.1 = branch) with
  | some (_, true) => writeInfo isMesh nm (addProps radius)
  | _ => writeInfo isMesh nm none

/-- `read_precomputed(datatype="auto")`. -/
def datatypeOf (i : Info) : Option String :=
  match i.type with
  | some "neuroglancer_legacy_mesh" => some "mesh"
  | some "neuroglancer_skeletons" => some "skeleton"
  | _ => none

/-- The nm scale an independent reader takes from the transform: entries 0, 5, 10 of the row-major 3×4 matrix. -/
def scaleOf (i : Info) : Option V3R :=
  match i.transform with
  | some [a, _, _, _, _, b, _, _, _, _, c, _] => some (a, b, c)
  | _ => none

def offDiagonalZero (i : Info) : Bool :=
  match i.transform with
  | some [_, b, c, d, e, _, g, h, i', j, _, l] => [b, c, d, e, g, h, i', j, l].all (· == 0)
  | _ => false

/-! ### multi-component vertex attributes → table columns -/

/-- `values.reshape(-1, comps)[:, i]` of a row-major block. -/
def column (comps i : Nat) (vals : List Nat) : List Nat :=
  (List.range (vals.length / comps)).map fun r => vals.getD (r * comps + i) 0

/-- The columns `read_buffer` adds: `id` for one component, `id_0 … id_{c-1}` otherwise. -/
def attrColumns (id : String) (comps : Nat) (vals : List Nat) : List (String × List Nat) :=
  if comps = 1 then [(id, vals)]
  else (List.range comps).map fun i => (id ++ "_" ++ toString i, column comps i vals)

/-! ### JSON: which attributes of the neuron's `__dict__` travel -/

def startsWith (s p : String) : Bool := p.toList.isPrefixOf s.toList

def dget {α} (d : List (String × α)) (k : String) : Option α :=
  match d with
  | [] => none
  | (k', v) :: r => if k' = k then some v else dget r k

/-- `write_json`: `{'id': n.id}` followed by every `__dict__` entry that is public or explicitly kept. -/
def jsonWrite {α} (keep : List String) (pfx idKey : String) (id : α) (d : List (String × α)) : List (String × α) :=
  (idKey, id) :: d.filter fun p => !(startsWith p.1 pfx) || keep.contains p.1

/-- `read_json`: keys in `tables` are parsed into DataFrames, keys in `skip` are not `setattr`-ed a second time,
every other key is `setattr`-ed. The set of attributes that reach the neuron: -/
def jsonRead {α} (tables skip : List String) (d : List (String × α)) : List (String × α) :=
  d.filter fun p => tables.contains p.1 || !skip.contains p.1

/-- `write_json`: is the call accepted (no `TypeError`)? A single neuron must be a `TreeNeuron`; a `NeuronList` passes the
first `isinstance` test whatever it holds, and its members are tested one by one when `membersChecked` (generated from
the source: the loop `for n in x: if not isinstance(n, core.TreeNeuron): raise TypeError`). -/
def jsonAccepts (membersChecked isList : Bool) (kinds : List String) : Bool :=
  (isList || kinds.all (· == "TreeNeuron")) && (!membersChecked || kinds.all (· == "TreeNeuron"))

/-! ### HDF5 (hnf v1), raw representation: `units_nm`, `soma`, `neuron_name`

The guards in front of the attribute writes are taken from the source as text (translator) and given Python's truth
semantics here, so the theorems in `Props/C14.lean` speak about the guards that exist. -/

/-- What `neuron_nm_units` returns when it is not `None`: one magnitude, or the per-axis triple. -/
inductive Mag where
  | scalar (q : Rat)
  | triple (v : V3R)
deriving Repr, DecidableEq

/-- `units_xyz` in nm. -/
def Mag.xyz : Mag → V3R
  | .scalar q => (q, q, q)
  | .triple v => v

/-- Truth value of the test in front of `grp.attrs['units_nm'] = units` (`none` = evaluating the test raises:
`bool()` of a 3-element array; unknown guard texts are rejected, so a re-worded guard must be given a meaning here). -/
def unitsGuard (g : String) (m : Option Mag) : Option Bool :=
  if g = "units is not None" then some m.isSome
  else if g = "units" then
    match m with
    | none => some false
    | some (.scalar q) => some (q != 0)
    | some (.triple _) => none
  else none

/-- The `units_nm` attribute the writer leaves: `none` = the write raises, `some none` = no attribute. -/
def h5UnitsAttr (g : String) (m : Option Mag) : Option (Option Mag) :=
  (unitsGuard g m).map fun b => if b then m else none

/-- `H5ReaderV1.parse_add_units` on a numeric attribute: a scalar gives isotropic units; for an array the expression
assigned to `neuron.units` (text from the source) decides. Result: `units_xyz` in nm (`some none` = units untouched). -/
def h5ReadUnits (arrayExpr : String) : Option Mag → Option (Option V3R)
  | none => some none
  | some (.scalar q) => some (some (q, q, q))
  | some (.triple v) =>
    if arrayExpr = "[f'{u} nm' for u in units]" then some (some v)
    else if arrayExpr = "f'{units[0]} nm'" then some (some (v.1, v.1, v.1))
    else none

/-- Truth value of the test in front of `sk_grp.attrs['soma'] = …` for a single soma id (`has_soma` ends in `elif data:`,
false for the id 0). -/
def somaGuard (g : String) (soma : Option Int) : Option Bool :=
  if g = "soma is not None" then some soma.isSome
  else if g = "neuron.has_soma" then some (match soma with | some i => i != 0 | none => false)
  else none

def h5SomaAttr (g : String) (soma : Option Int) : Option (Option Int) :=
  (somaGuard g soma).map fun b => if b then soma else none

/-- `get_neuron_group`: the `neuron_name` attribute (`none` = raises: h5py cannot store `None`). -/
def h5NameAttr (g : String) (name : Option String) : Option (Option String) :=
  if g = "getattr(neuron, 'name', None) is not None" then some name
  else if g = "hasattr(neuron, 'name')" then name.map some
  else none


/-! ### VoxelNeuron: is the dense grid that `write_nrrd` exports the neuron's *current* content?

`VoxelNeuron.grid` of a neuron built from sparse voxels is materialised once and cached (`_grid`, listed in
`TEMP_ATTR`). The grid is a function of two fields: `_data` (voxel coordinates; hashed – `CORE_DATA`) and `_values`
(per-voxel values; NOT hashed). The `@temp_property` wrapper drops the caches when the hash of the hashed fields
differs from the one recorded at the last validation; a field that is not hashed is protected only by the explicit
`_clear_temp_attr()` of whatever assigns it. Contents are abstract version numbers. -/

structure VoxFacts where
  hashedD : Bool      -- `_data` ∈ CORE_DATA
  hashedV : Bool      -- `_values` ∈ CORE_DATA
  clearsD : Bool      -- every method / setter assigning `_data` calls `_clear_temp_attr()`
  clearsV : Bool      -- every method / setter assigning `_values` calls `_clear_temp_attr()`
  gridIsTemp : Bool   -- `_grid` ∈ TEMP_ATTR (so clearing removes it)
deriving Repr, DecidableEq

structure VoxSt where
  d : Nat                       -- current content of `_data`
  v : Nat                       -- current content of `_values`
  sd : Nat                      -- content of `_data` the recorded checksum belongs to
  sv : Nat
  cache : Option (Nat × Nat)    -- `_grid`: built from these versions of (`_data`, `_values`)
deriving Repr, DecidableEq

inductive VoxOp where
  | setData (n : Nat)           -- `n.voxels = …` / `n.grid = …` / threshold / strip
  | setValues (n : Nat)         -- `n.values = …`
  | read                        -- `n.grid` (what `_write_nrrd` exports)
deriving Repr, DecidableEq

/-- the `@temp_property` wrapper: stale ⇒ clear and re-stamp -/
def voxValidate (f : VoxFacts) (s : VoxSt) : VoxSt :=
  if (f.hashedD && s.sd != s.d) || (f.hashedV && s.sv != s.v) then
    { s with cache := if f.gridIsTemp then none else s.cache, sd := s.d, sv := s.v }
  else s

/-- the `grid` getter: cached value if present, else build from the current fields and cache it -/
def voxRead (f : VoxFacts) (s : VoxSt) : (Nat × Nat) × VoxSt :=
  let s := voxValidate f s
  match s.cache with
  | some g => (g, s)
  | none => ((s.d, s.v), { s with cache := some (s.d, s.v) })

def voxStep (f : VoxFacts) (s : VoxSt) : VoxOp → VoxSt
  | .setData n => { s with d := n, cache := if f.clearsD && f.gridIsTemp then none else s.cache }
  | .setValues n => { s with v := n, cache := if f.clearsV && f.gridIsTemp then none else s.cache }
  | .read => (voxRead f s).2

def voxRun (f : VoxFacts) (s : VoxSt) (ops : List VoxOp) : VoxSt := ops.foldl (voxStep f) s

/-- every field the grid depends on is hashed or cleared by hand, and clearing removes the grid -/
def VoxFacts.safe (f : VoxFacts) : Bool := (f.hashedD || f.clearsD) && (f.hashedV || f.clearsV) && f.gridIsTemp

/-- the cached grid, if any, was built from the stamped version of every hashed field and from the current version of
every other field -/
def VoxInv (f : VoxFacts) (s : VoxSt) : Prop :=
  ∀ g, s.cache = some g → (if f.hashedD then s.sd = g.1 else g.1 = s.d) ∧ (if f.hashedV then s.sv = g.2 else g.2 = s.v)

/-- a method of the class that assigns data fields: name, fields assigned, calls `_clear_temp_attr()`? -/
structure VoxAssign where
  name : String
  fields : List String
  clears : Bool
deriving Repr, DecidableEq

def voxFactsOf (coreData tempAttr : List String) (assigns : List VoxAssign) : VoxFacts :=
  { hashedD := coreData.contains "_data", hashedV := coreData.contains "_values",
    clearsD := (assigns.filter (·.fields.contains "_data")).all (·.clears),
    clearsV := (assigns.filter (·.fields.contains "_values")).all (·.clears),
    gridIsTemp := tempAttr.contains "_grid" }


/-! ### `VoxelNeuron.threshold` on voxel coordinates with per-voxel values (repaired, d242e0d)

`keep = x.values >= threshold; x._values = x._values[keep]; x._data = x._data[keep]` – the SAME boolean mask is
applied to both arrays. (Before the repair only `_data` was filtered and every later `.grid` raised.) -/

/-- `arr[mask]` -/
def applyMask {α} : List Bool → List α → List α
  | true :: m, x :: xs => x :: applyMask m xs
  | false :: m, _ :: xs => applyMask m xs
  | _, _ => []

/-- the threshold step as written: (voxels, values) ↦ (voxels[keep], values[keep]) -/
def thresholdSparse {α} (t : Nat) (vox : List α) (vals : List Nat) : List α × List Nat :=
  let keep := vals.map (fun v => decide (t ≤ v))
  (applyMask keep vox, applyMask keep vals)

end Navis.IoMeta
