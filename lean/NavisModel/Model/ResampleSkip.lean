import NavisModel.Model.Resample
/-!
# `resample_skeleton` with every `method=` and `skip_errors` (C01) — import-free, total, computable

`Model/Resample.lean` models the segment loop of `resample_skeleton` for the two outcomes linear
interpolation can have (segment collapsed to its end nodes / interpolated at `n` positions).  With a
spline `method` (`'cubic'`, `'quadratic'`, `'slinear'`, `'zero'`, …) `scipy.interpolate.interp1d` can refuse a
segment (too few points for the spline order, repeated arc lengths = coincident nodes); with
`skip_errors=True` (the default) the loop then executes a THIRD branch:

```
new_nodes += x.nodes.loc[x.nodes.node_id.isin(seg[:-1]), ["node_id", "parent_id"] + …].values.tolist()
continue
```

i.e. the rows of every node of the segment except its last one are copied over *with their original
parent ids* and the id counter is left alone.  Which segments scipy refuses is external; the model takes
the per-segment outcome as a function `act : segment ↦ SegAct` and everything proved about it holds for
every such function.
-/
namespace Navis.Resample
open Navis.Forest

/-- What the loop body does with one segment. -/
inductive SegAct where
  /-- `dist[-1] < resample_to or (method == "cubic" and len(seg) <= 3)`: first and last node only -/
  | collapse
  /-- interpolated at `n` positions: `n - 2` fresh interior ids, the counter advances by `len(new_ids)` -/
  | fresh (n : Nat)
  /-- `interp1d` raised `ValueError` and `skip_errors`: the original rows of `seg[:-1]` -/
  | keep
deriving Repr, DecidableEq

/-- `(node, parent)` rows one segment contributes, and the value of `max_tn_id` afterwards. -/
def segRowsX (t : Table) (s : List Int) (base : Int) : SegAct → List (Int × Int) × Int
  | .collapse => ([(segFirst s, segLast s)], base)
  | .fresh n => (linkPairs (newIds (segFirst s) (segLast s) base (n - 2)), base + ((n - 2 : Nat) : Int) + 2)
  | .keep => ((t.filter fun m => s.dropLast.contains m.id).map (fun m => (m.id, m.parent)), base)

/-- The loop over the segments, threading `max_tn_id`. -/
def planX (t : Table) (act : List Int → SegAct) : List (List Int) → Int → List (Int × Int)
  | [], _ => []
  | s :: rest, base => (segRowsX t s base (act s)).1 ++ planX t act rest (segRowsX t s base (act s)).2

/-- Node table after `resample_skeleton` (ids, parents, labels) for the per-segment outcomes `act`:
segment rows, then the original root rows, duplicates dropped (first occurrence wins), re-classified
(`x.nodes = new_nodes; x._clear_temp_attr()`). -/
def resampleSkip (t : Table) (act : List Int → SegAct) : Table :=
  classify (dedupById ((planX t act (smallSegments t) (maxId t + 1)).map (mkNode t) ++ t.filter isRootNode))

/-- The outcomes linear interpolation has (no failures): the model of `Model/Resample.lean`. -/
def actOfCnt (cnt : List Int → Option Nat) (s : List Int) : SegAct :=
  match cnt s with
  | none => .collapse
  | some n => .fresh n

/-- An outcome function given as a table; segments not listed collapse. -/
def actTable (l : List (List Int × SegAct)) (s : List Int) : SegAct :=
  match l.find? (fun e => e.1 == s) with
  | some e => e.2
  | none => .collapse

/-- The same loop over an explicitly given segment list (the implementation's own `small_segments`, whose
order is back-end dependent). -/
def resampleSkipOn (t : Table) (segs : List (List Int)) (act : List Int → SegAct) : Table :=
  classify (dedupById ((planX t act segs (maxId t + 1)).map (mkNode t) ++ t.filter isRootNode))

end Navis.Resample
