import NavisModel.Model.Flow
/-
`synapse_flow_centrality` WITHOUT navis-fastcore (`navis/morpho/mmetrics.py`), the part after the distal
counts, AS WRITTEN (C04):

```
calc_node_ids = nodes[is_bp | is_root | is_cn].node_id                      # branch, root, connector nodes
flow = {n: <mode's formula at n> for n in calc_node_ids}
for s in x.small_segments:                         # distal -> proximal
    flow[s[0]] = flow.get(s[0], 0)
    for i in range(1, len(s)):
        if s[i] not in flow:
            flow[s[i]] = flow[s[i - 1]]
nodes["synapse_flow_centrality"] = node_id.map(flow).fillna(0).astype(int)
bp_childs = nodes[nodes.parent_id.isin(bp)]
max_flow = bp_childs.groupby("parent_id").synapse_flow_centrality.max()
nodes.loc[is_bp, "synapse_flow_centrality"] = max_flow.loc[bp].values
```

navis-fastcore evaluates the formula at every node instead (that is `Flow.sfc`, the model C17 compares all
back-ends with).  The formula values at the calc nodes are taken from `Flow.sfcRaw` (how navis obtains the
distal counts — down-sampling to the calc nodes and a directed geodesic matrix — is not modelled here).
`none` = `KeyError`.  Import-free, total, computable.
-/
namespace Navis.FlowVar
open Navis.Forest Navis.Flow

/-- `flow[k]` / `k in flow` (newest binding first). -/
def get? (fl : List (Int × Nat)) (k : Int) : Option Nat := (fl.find? fun p => p.1 == k).map (·.2)

/-- `flow[k] = v`. -/
def set (fl : List (Int × Nat)) (k : Int) (v : Nat) : List (Int × Nat) := (k, v) :: fl

/-- `calc_node_ids`: rows typed `branch` or `root`, and rows that carry a connector. -/
def calcNodes (t : Table) (pre post : List Int) : List Int :=
  (t.filter fun n => n.label == .branch || n.label == .root || (pre ++ post).contains n.id).map (·.id)

/-- The dictionary before propagation: the mode's formula (totals per connected component) at the calc nodes. -/
def flowInit (t : Table) (m : Mode) (pre post : List Int) : List (Int × Nat) :=
  (calcNodes t pre post).map fun n => (n, sfcRaw t true m pre post n)

/-- `for i in range(1, len(s)): if s[i] not in flow: flow[s[i]] = flow[s[i - 1]]`; `prev` is `s[i - 1]`. -/
def fillUp : List (Int × Nat) → Int → List Int → Option (List (Int × Nat))
  | fl, _, [] => some fl
  | fl, prev, x :: rest =>
    match get? fl x with
    | some _ => fillUp fl x rest
    | none =>
      match get? fl prev with
      | none => none
      | some v => fillUp (set fl x v) x rest

/-- One round of the `for s in x.small_segments` loop. -/
def propagateSeg (fl : List (Int × Nat)) : List Int → Option (List (Int × Nat))
  | [] => none                                        -- `s[0]`: IndexError
  | s0 :: rest => fillUp (set fl s0 ((get? fl s0).getD 0)) s0 rest

def propagate (segs : List (List Int)) (fl : List (Int × Nat)) : Option (List (Int × Nat)) :=
  segs.foldlM propagateSeg fl

/-- `node_id.map(flow).fillna(0)`. -/
def column (fl : List (Int × Nat)) (i : Int) : Nat := (get? fl i).getD 0

/-- `is_bp`: the row is typed `branch`. -/
def isBp (t : Table) (i : Int) : Bool :=
  match find? t i with
  | some n => n.label == .branch
  | none => false

/-- The Python path of `synapse_flow_centrality`, given the list `x.small_segments` (any order). -/
def sfcPython (t : Table) (m : Mode) (pre post : List Int) (segs : List (List Int)) : Option (Int → Nat) :=
  (propagate segs (flowInit t m pre post)).map fun fl i =>
    if isBp t i then maxList ((children t i).map (column fl)) else column fl i

end Navis.FlowVar
