import NavisModel.Model.CutVariants
import NavisModel.Model.Backends
/-
`_connected_components` (`navis/graph/graph_utils.py`), the three back-ends side by side (C04):

* navis-fastcore returns for every node the id of its ROOT; navis groups the node ids by that value
  (`[ids[ms == i] for i in np.unique(ms)]`) — `componentsByRoot`;
* igraph `G.components(mode="WEAK")` and networkx `connected_components(G.to_undirected())` compute the
  connected components of the undirected graph — modelled as the undirected reachability closure
  (`componentOf`, `Model/CutVariants.lean`) of every node that is not covered yet, in node order —
  `componentsByClosure`.
Import-free, total, computable.
-/
namespace Navis.Forest

/-- fastcore: group the ids (table order inside a group) by the id of their root, groups in ascending root id. -/
def componentsByRoot (t : Table) : List (List Int) :=
  (npUnique ((ids t).filterMap (rootOf t))).map fun r => (ids t).filter fun i => rootOf t i == some r

/-- The component of `i` in the undirected graph (`|edges| + 1` sweeps suffice). -/
def componentClosure (t : Table) (i : Int) : List Int := componentOf (edges t) ((edges t).length + 1) i

/-- igraph / networkx: components in order of their first node. -/
def componentsByClosure (t : Table) : List (List Int) :=
  (ids t).foldl (fun acc i => if acc.any (fun c => c.contains i) then acc else acc ++ [componentClosure t i]) []

end Navis.Forest
