import NavisModel.Model.Voxel
/-!
# Model of the exact linear-algebra part of `make_dotprops(points, k > 0)` / `Dotprops.recalculate_tangents` and of the
`vectors=True` / `alphas=True` loop of `neuron2voxels` (C19)

No Mathlib, total, computable, exact (`Rat`).  What navis does per point (`core_utils.make_dotprops`):

```
k       = min(n_points, k)
dist,ix = cKDTree(x).query(x, k=k)          -- k nearest neighbours, self included
pt      = x[ix]                             -- (N, k, 3)
centers = np.mean(pt, axis=1)
cpt     = pt - centers
inertia = cptᵀ @ cpt                        -- 3×3 scatter matrix of the centred neighbourhood
u,s,vh  = np.linalg.svd(inertia);  vect = vh[:, 0, :]
alpha   = (s0 - s1) / sum(s)  where sum(s) > 0 else 0
```

Modelled exactly: neighbour selection (`knn`: sort by squared distance, take `k`; `knnAmbiguous` flags the only freedom the
KD-tree has, a distance tie between different locations across the cut), centroid, centring, the scatter matrix (`Sym3`),
its trace / sum of principal 2×2 minors / determinant (the coefficients of the characteristic polynomial).  The SVD itself is
external numerics: its *result* is judged by the exact checkers below (`axisOKB`, `alphaOKB`), proved sound in `Props/C19`.
-/
namespace Navis.Voxel

/-! ## k nearest neighbours -/

/-- Squared Euclidean distance. -/
def dist2 (p q : P3) : Rat := norm2 (sub q p)

/-- Stable insertion into a list sorted by `key`. -/
def insertBy (key : P3 → Rat) (a : P3) : List P3 → List P3
  | [] => [a]
  | b :: l => if key a ≤ key b then a :: b :: l else b :: insertBy key a l

/-- Stable insertion sort by `key`. -/
def sortBy (key : P3 → Rat) : List P3 → List P3
  | [] => []
  | a :: l => insertBy key a (sortBy key l)

/-- `tree.query(p, k)`: the `k` points nearest to `p` (as many as exist). -/
def knn (pts : List P3) (p : P3) (k : Nat) : List P3 := (sortBy (dist2 p) pts).take k

/-- The neighbourhood is not determined by the distances: the `k`-th and `(k+1)`-th nearest points are equally far away
and the points at that distance are not all at the same location. -/
def knnAmbiguous (pts : List P3) (p : P3) (k : Nat) : Bool :=
  let s := sortBy (dist2 p) pts
  match s.drop k, (s.take k).getLast? with
  | b :: _, some a => decide (dist2 p a = dist2 p b) && !((s.filter fun q => decide (dist2 p q = dist2 p b)).all fun q => decide (q = b))
  | _, _ => false

/-- All neighbourhoods of a cloud, one per point, with the clipped `k`. -/
def neighbourhoods (pts : List P3) (k : Nat) : List (List P3) :=
  pts.map fun p => knn pts p (kClip pts.length k)

/-! ## symmetric 3×3 matrices -/

/-- `[[a, b, c], [b, d, e], [c, e, f]]`. -/
structure Sym3 where
  a : Rat
  b : Rat
  c : Rat
  d : Rat
  e : Rat
  f : Rat
deriving DecidableEq, Repr

namespace Sym3

def zero : Sym3 := ⟨0, 0, 0, 0, 0, 0⟩
def add (A B : Sym3) : Sym3 := ⟨A.a + B.a, A.b + B.b, A.c + B.c, A.d + B.d, A.e + B.e, A.f + B.f⟩
/-- `c cᵀ`. -/
def outer (c : P3) : Sym3 := ⟨c.x * c.x, c.x * c.y, c.x * c.z, c.y * c.y, c.y * c.z, c.z * c.z⟩
def mulVec (A : Sym3) (v : P3) : P3 :=
  ⟨A.a * v.x + A.b * v.y + A.c * v.z, A.b * v.x + A.d * v.y + A.e * v.z, A.c * v.x + A.e * v.y + A.f * v.z⟩
/-- `vᵀ A v`. -/
def quad (A : Sym3) (v : P3) : Rat := dot v (A.mulVec v)
def trace (A : Sym3) : Rat := A.a + A.d + A.f
/-- Sum of the principal 2×2 minors (second elementary symmetric function of the eigenvalues). -/
def minors2 (A : Sym3) : Rat := (A.a * A.d - A.b * A.b) + (A.a * A.f - A.c * A.c) + (A.d * A.f - A.e * A.e)
def det (A : Sym3) : Rat :=
  A.a * (A.d * A.f - A.e * A.e) - A.b * (A.b * A.f - A.e * A.c) + A.c * (A.b * A.e - A.d * A.c)
/-- `μ·I − A`. -/
def shift (μ : Rat) (A : Sym3) : Sym3 := ⟨μ - A.a, -A.b, -A.c, μ - A.d, -A.e, μ - A.f⟩
/-- Characteristic polynomial `det (t·I − A)`. -/
def charpoly (A : Sym3) (t : Rat) : Rat := (shift t A).det
/-- Adjugate (for a symmetric matrix the adjugate is symmetric). -/
def adj (A : Sym3) : Sym3 :=
  ⟨A.d * A.f - A.e * A.e, A.c * A.e - A.b * A.f, A.b * A.e - A.c * A.d,
   A.a * A.f - A.c * A.c, A.b * A.c - A.a * A.e, A.a * A.d - A.b * A.b⟩
/-- Sylvester's criterion: the leading principal minors are positive. -/
def posDefB (A : Sym3) : Bool :=
  decide (0 < A.a) && decide (0 < A.a * A.d - A.b * A.b) && decide (0 < A.det)

end Sym3

/-- `cptᵀ @ cpt = Σᵢ cᵢ cᵢᵀ`. -/
def inertiaMat (cs : List P3) : Sym3 := cs.foldr (fun c acc => (Sym3.outer c).add acc) Sym3.zero

/-- `pt − centers`. -/
def centred (nb : List P3) : List P3 := nb.map fun q => sub q (centre nb)

/-- The scatter matrix of a neighbourhood as navis computes it. -/
def nbInertia (nb : List P3) : Sym3 := inertiaMat (centred nb)

/-- Rayleigh quotient `vᵀ A v / vᵀ v`. -/
def rayleigh (A : Sym3) (v : P3) : Rat := A.quad v / norm2 v

/-! ## exact checkers for the SVD's output -/

/-- `| |v|² − 1 | ≤ ε`. -/
def unitB (v : P3) (ε : Rat) : Bool := absLe (norm2 v - 1) ε

/-- `v` is, up to `ε` relative to the trace, a principal axis of `A`: with `λ = vᵀAv / vᵀv`
* the eigen-residual is small: `|A v − λ v|² ≤ (ε·tr)² · |v|²`, and
* no direction has a Rayleigh quotient above `λ + ε·tr`: `(λ + ε·tr)·I − A` passes Sylvester's criterion. -/
def axisOKB (A : Sym3) (v : P3) (ε : Rat) : Bool :=
  let lam := rayleigh A v
  let tr := A.trace
  decide (norm2 (sub (A.mulVec v) (scale lam v)) ≤ (ε * tr) * (ε * tr) * norm2 v) &&
  (Sym3.shift (lam + ε * tr) A).posDefB

/-- Given the leading eigenvalue `lam` and navis' `a`, the other two eigenvalues implied by
`a = (l1 − l2) / (l1 + l2 + l3)` and `l1 + l2 + l3 = tr`. -/
def impliedL2 (A : Sym3) (lam a : Rat) : Rat := lam - a * A.trace
def impliedL3 (A : Sym3) (lam a : Rat) : Rat := A.trace - lam - impliedL2 A lam a

/-- `a` is, up to `ε`, `(l1 − l2)/(l1 + l2 + l3)` for the eigenvalues `l1 ≥ l2 ≥ l3 ≥ 0` of `A` with `l1 = lam`: the implied
`l2`, `l3` are ordered and reproduce the remaining two coefficients of the characteristic polynomial. -/
def alphaOKB (A : Sym3) (lam a ε : Rat) : Bool :=
  let tr := A.trace
  let l2 := impliedL2 A lam a
  let l3 := impliedL3 A lam a
  absLe (lam * l2 + lam * l3 + l2 * l3 - A.minors2) (ε * tr * tr) &&
  absLe (lam * l2 * l3 - A.det) (ε * tr * tr * tr) &&
  decide (l2 ≤ lam + ε * tr) && decide (l3 ≤ l2 + ε * tr) && decide (-(ε * tr) ≤ l3)

/-- Verdict for one point: neighbourhood `nb` (exact), navis' tangent `v` and alpha `a`.
`εu` bounds the deviation from unit length, `εv` the axis test, `εa` the alpha test (all relative). -/
inductive Verdict where
  | ok | degenerate | badUnit | badAxis | badAlpha | badAlphaDegenerate
deriving DecidableEq, Repr

def Verdict.toString : Verdict → String
  | .ok => "ok" | .degenerate => "deg" | .badUnit => "bad-unit" | .badAxis => "bad-axis"
  | .badAlpha => "bad-alpha" | .badAlphaDegenerate => "bad-alpha-deg"

/-- The judgement applied to navis' `(vect, alpha)` of one point.  A neighbourhood whose points all coincide (trace `0`) has no
principal axis; the property then only demands a unit vector and `alpha = 0` (the guarded division). -/
def judge (nb : List P3) (v : P3) (a εu εv εa : Rat) : Verdict :=
  if !unitB v εu then .badUnit
  else if (nbInertia nb).trace = 0 then (if a = 0 then .degenerate else .badAlphaDegenerate)
  else if !axisOKB (nbInertia nb) v εv then .badAxis
  else if !alphaOKB (nbInertia nb) (rayleigh (nbInertia nb) v) a εa then .badAlpha
  else .ok

/-! ## `neuron2tangents`: judging the normalised vector and the length -/

/-- navis' unit vector `v` and length `L` against the exact un-normalised tangent `w = child − parent`, `len2 = |w|²`:
`|v|² = 1 ± ε`, `|v × w|² ≤ ε²·|v|²·|w|²` (parallel), `L > 0` and `|L² − len2| ≤ ε·len2`. -/
def tanOKB (tg : Tangent) (v : P3) (L ε : Rat) : Bool :=
  unitB v ε && decide (norm2 (cross v tg.vec) ≤ ε * ε * (norm2 v * norm2 tg.vec)) &&
  decide (0 < L) && absLe (L * L - tg.len2) (ε * tg.len2)

/-- Orientation of navis' vector relative to `child − parent` (recorded, not judged). -/
def tanSign (tg : Tangent) (v : P3) : Int := if 0 < dot v tg.vec then 1 else if dot v tg.vec < 0 then -1 else 0

/-! ## meshes: exact sub-claims of the oracle-only clauses -/

/-- `vertex_map` maps every one of the `nV` vertices to a node *index* in `[0, nNodes)`. -/
def vmapIndexOKB (vm : List Int) (nV nNodes : Nat) : Bool :=
  decide (vm.length = nV) && vm.all fun i => decide (0 ≤ i) && decide (i < (nNodes : Int))

/-- `vertex_map` maps every one of the `nV` vertices to an existing node *id*. -/
def vmapIdOKB (vm : List Int) (nV : Nat) (ids : List Int) : Bool :=
  decide (vm.length = nV) && vm.all fun i => ids.contains i

/-- Every node index in `need` occurs in the vertex map (the node has geometry). -/
def vmapCoversB (vm : List Int) (need : List Int) : Bool := need.all fun i => vm.contains i

/-- Axis-aligned box `lo ≤ p ≤ hi` widened by `tol`. -/
def inBoxB (lo hi : P3) (tol : Rat) (p : P3) : Bool :=
  decide (lo.x - tol ≤ p.x) && decide (p.x ≤ hi.x + tol) && decide (lo.y - tol ≤ p.y) && decide (p.y ≤ hi.y + tol) &&
  decide (lo.z - tol ≤ p.z) && decide (p.z ≤ hi.z + tol)

def minOf (l : List Rat) (d : Rat) : Rat := l.foldl min d
def maxOf (l : List Rat) (d : Rat) : Rat := l.foldl max d

/-- Bounding box of a non-empty point list (`none` for the empty list). -/
def bboxOf : List P3 → Option (P3 × P3)
  | [] => none
  | p :: l => some (⟨minOf (l.map (·.x)) p.x, minOf (l.map (·.y)) p.y, minOf (l.map (·.z)) p.z⟩,
                    ⟨maxOf (l.map (·.x)) p.x, maxOf (l.map (·.y)) p.y, maxOf (l.map (·.z)) p.z⟩)

/-- All points `P` lie inside the bounding box of `V` (widened by `tol`); `false` when `V` is empty and `P` is not. -/
def bboxContainsB (V P : List P3) (tol : Rat) : Bool :=
  match bboxOf V with
  | none => P.isEmpty
  | some (lo, hi) => P.all (inBoxB lo hi tol)

/-- A surface vertex `q` (grid coordinates) hugs the filled voxel `v` of a grid with `offset`, voxel size `un`:
per axis `|q − (offset + v·un)| ≤ (½ + tol)·un`. -/
def hugsB (off un : P3) (tol : Rat) (q : P3) (v : I3) : Bool :=
  absLe (q.x - (off.x + (v.x : Rat) * un.x)) ((1 / 2 + tol) * un.x) &&
  absLe (q.y - (off.y + (v.y : Rat) * un.y)) ((1 / 2 + tol) * un.y) &&
  absLe (q.z - (off.z + (v.z : Rat) * un.z)) ((1 / 2 + tol) * un.z)

/-- Every surface vertex is within half a voxel (Chebyshev, per axis in voxel units) of a filled voxel. -/
def surfaceHugsB (off un : P3) (tol : Rat) (V : List P3) (F : List I3) : Bool :=
  V.all fun q => F.any fun v => hugsB off un tol q v

/-- The (at most eight) voxels that can hug `q` when `tol < ½`: per axis `⌊t⌋` and `⌊t⌋ + 1` with `t = (q − offset)/un`. -/
def hugCandidates (off un : P3) (q : P3) : List I3 :=
  let fx := ((q.x - off.x) / un.x).floor
  let fy := ((q.y - off.y) / un.y).floor
  let fz := ((q.z - off.z) / un.z).floor
  [⟨fx, fy, fz⟩, ⟨fx + 1, fy, fz⟩, ⟨fx, fy + 1, fz⟩, ⟨fx + 1, fy + 1, fz⟩,
   ⟨fx, fy, fz + 1⟩, ⟨fx + 1, fy, fz + 1⟩, ⟨fx, fy + 1, fz + 1⟩, ⟨fx + 1, fy + 1, fz + 1⟩]

/-- `surfaceHugsB` evaluated through the candidate voxels (what the driver runs; sound w.r.t. `surfaceHugsB`). -/
def surfaceHugsFastB (off un : P3) (tol : Rat) (V : List P3) (F : List I3) : Bool :=
  V.all fun q => (hugCandidates off un q).any fun v => F.contains v && hugsB off un tol q v

/-- Every surface vertex lies within the grid's extent `[offset − un/2, offset + (shape − 1)·un + un/2]` (± `tol·un`). -/
def surfaceInExtentB (off un : P3) (sh : I3) (tol : Rat) (V : List P3) : Bool :=
  V.all fun q =>
    decide (off.x - (1 / 2 + tol) * un.x ≤ q.x) && decide (q.x ≤ off.x + ((sh.x : Rat) - 1) * un.x + (1 / 2 + tol) * un.x) &&
    decide (off.y - (1 / 2 + tol) * un.y ≤ q.y) && decide (q.y ≤ off.y + ((sh.y : Rat) - 1) * un.y + (1 / 2 + tol) * un.y) &&
    decide (off.z - (1 / 2 + tol) * un.z ≤ q.z) && decide (q.z ≤ off.z + ((sh.z : Rat) - 1) * un.z + (1 / 2 + tol) * un.z)

/-! ## voxelisation: reported offset / units, unit strings, default bounds -/

/-- `nearB` against the offset / units the `VoxelNeuron` *reports* (instead of the model's). -/
def nearAtB (off un u : P3) (p : P3) (v : I3) : Bool :=
  absLe (u.x * p.x - (off.x + (v.x : Rat) * un.x)) un.x &&
  absLe (u.y * p.y - (off.y + (v.y : Rat) * un.y)) un.y &&
  absLe (u.z * p.z - (off.z + (v.z : Rat) * un.z)) un.z

/-- Every point inside the bounds is within one (reported) voxel size of a filled voxel at its reported coordinate. -/
def coversAtB (g : Grid) (off un : P3) (pts : List P3) (F : List I3) : Bool :=
  pts.all fun p => !inBounds g p || F.any fun v => nearAtB off un g.u p v

/-- Every filled voxel has a source point within one (reported) voxel size. -/
def sourcedAtB (g : Grid) (off un : P3) (pts : List P3) (F : List I3) : Bool :=
  F.all fun v => pts.any fun p => nearAtB off un g.u p v

/-- `x.map_units('q unit')` for an isometric neuron whose unit is `umag · base`: a physical length `q · factor · base`
expressed in neuron units. -/
def mapUnits (q factor umag : Rat) : Rat := q * factor / umag

/-- `bounds = x.bbox` (default): any box that contains the bounding box of the points (connectors can only enlarge it). -/
def boxContains (g : Grid) (pts : List P3) : Bool := pts.all (inBounds g)

/-- The points that fall into voxel `v`, in input order (`pts[inv == i]` of the `vectors`/`alphas` loop). -/
def pointsIn (g : Grid) (pts : List P3) (v : I3) : List P3 := pts.filter fun p => decide (voxIdx g p = v)

/-! ## cache state of a `Dotprops` object: the KD-tree and the point cloud it was built from -/

/-- `points` = the current `_points`; `tree` = the cloud the cached `_tree` was built from (`none` = no tree / invalidated). -/
structure DpState where
  points : List P3
  tree : Option (List P3)

/-- `dp.points = B`.  `resets` = whether the setter clears `_tree` on every path (a fact re-extracted from the source). -/
def setPoints (resets : Bool) (s : DpState) (B : List P3) : DpState := ⟨B, if resets then none else s.tree⟩

/-- `dp.kdtree`: the cached tree if there is one, else a tree built from the current points (and cached). -/
def touchTree (s : DpState) : DpState := match s.tree with
  | some _ => s
  | none => ⟨s.points, some s.points⟩

/-- The cloud that `kdtree.query` searches (what `recalculate_tangents`, lazy `vect`/`alpha`, `sampling_resolution`, `snap` see). -/
def queriedCloud (s : DpState) : List P3 := ((touchTree s).tree).getD s.points

end Navis.Voxel
