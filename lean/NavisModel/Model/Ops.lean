import NavisModel.Model.Forest
/-
Skeleton operations as total functions on node tables, written the way navis does them
(C01, C10, C12, C13).  An operation returns its input unchanged where navis raises.
-/
namespace Navis.Forest

/-! ### subset (`morpho/subset.py:_subset_treeneuron`) -/

/-- Orphan repair: `parent_id.where(parent_id.isin(node_id), other=-1)`. -/
def fixOrphans (t : Table) : Table :=
  t.map fun n => if (ids t).contains n.parent then n else { n with parent := -1 }

/-- Filter rows, repair orphans, re-classify. -/
def subset (t : Table) (keep : Int → Bool) : Table :=
  classify (fixOrphans (t.filter fun n => keep n.id))

def subsetIds (t : Table) (s : List Int) : Table := subset t fun i => s.contains i

/-! ### reroot (`graph_utils.reroot_skeleton`) -/

/-- Element preceding `i` on `path` (the node that becomes `i`'s parent after reversal). -/
def predOnPath : List Int → Int → Option Int
  | a :: b :: rest, i => if b = i then some a else predOnPath (b :: rest) i
  | _, _ => none

/-- Parent links after reversing the path `new root → old root`. -/
def rerootParents (t : Table) (r : Int) (path : List Int) : Table :=
  t.map fun n =>
    if n.id = r then { n with parent := -1 }
    else match predOnPath path n.id with
      | some p => { n with parent := p }
      | none => n

/-- Reroot to `r`; no-op when `r` is absent or already a root.  Labels are updated
*incrementally* exactly as navis does: only the old and the new root are relabelled. -/
def reroot (t : Table) (r : Int) : Table :=
  match find? t r with
  | none => t
  | some nr =>
    if nr.parent < 0 then t else
    let path := rootPath t r
    let oldRoot := path.getLast?.getD r
    let t1 := rerootParents t r path
    t1.map fun n =>
      if n.id = r then { n with label := .root }
      else if n.id = oldRoot then { n with label := labelOf (childCount t1 oldRoot) false }
      else n

def rerootMany (t : Table) (rs : List Int) : Table := rs.foldl reroot t

/-! ### cut (`graph_utils.cut_skeleton`) -/

/-- `(distal, proximal)` of a cut at `c`: distal = descendants-or-self of `c`, proximal = the
complement plus `c`.  `none` where navis raises (absent node, root). -/
def cut (t : Table) (c : Int) : Option (Table × Table) :=
  match find? t c with
  | none => none
  | some nc =>
    if nc.parent < 0 then none else
    let d := distalSet t c
    some (subset t (fun i => d.contains i), subset t (fun i => !d.contains i || i == c))

/-- Several cuts in order: the fragment containing the cut node is replaced by its two pieces
(distal first).  A cut node that is not cuttable in its fragment leaves the list unchanged. -/
def cutMany (t : Table) (cs : List Int) : List Table :=
  cs.foldl (fun frags c =>
    match frags.findIdx? (fun f => (ids f).contains c) with
    | none => frags
    | some k =>
      match frags[k]? with
      | none => frags
      | some f =>
        match cut f c with
        | none => frags
        | some (d, p) => frags.take k ++ [d, p] ++ frags.drop (k + 1)) [t]

/-! ### remove_nodes / insert_nodes -/

def lookupD (m : List (Int × Int)) (k : Int) (d : Int) : Int :=
  match m.find? (fun e => e.1 == k) with
  | some e => e.2
  | none => d

/-- `lop.update({c: lop[n] for c, p in lop.items() if p == n})`. -/
def removeOne (m : List (Int × Int)) (n : Int) : List (Int × Int) :=
  let pn := lookupD m n (-1)
  m.map fun e => if e.2 = n then (e.1, pn) else e

def removeNodes (t : Table) (which : List Int) : Table :=
  if which.all (fun w => (ids t).contains w) then
    let m := which.foldl removeOne (t.map fun n => (n.id, n.parent))
    classify ((t.filter fun n => !which.contains n.id).map fun n => { n with parent := lookupD m n.id n.parent })
  else t

def maxId (t : Table) : Int := (ids t).foldl max 0

/-- Insert one new node on each `(parent, child)` edge; new ids run from `max id + 1`; coordinates
of the new nodes are supplied by the caller (the midpoint computation is not part of the topology). -/
def insertNodes (t : Table) (edgesPC : List (Int × Int)) (coords : List (Int × Int × Int)) : Table :=
  let base := maxId t + 1
  let newNodes : Table := (edgesPC.zipIdx.map fun (e, k) =>
    let c := coords.getD k (0, 0, 0)
    ({ id := base + k, parent := e.1, x := c.1, y := c.2.1, z := c.2.2 } : Node))
  let remap : List (Int × Int) := edgesPC.zipIdx.map fun (e, k) => (e.2, base + k)
  -- `dict(zip(...))`: the last pair for a key wins
  let t' := t.map fun n =>
    match remap.reverse.find? (fun e => e.1 == n.id) with
    | some e => { n with parent := e.2 }
    | none => n
  classify (t' ++ newNodes)

/-! ### downsample (`sampling/downsampling.py:_downsample_treeneuron`) -/

/-- Inner `while i < factor` loop: returns the candidate parent and whether the loop `stop`ped on a
fix point / root.  `f = none` is `factor = inf`. -/
def dsScan (t : Table) (fixB : Int → Bool) (f : Option Nat) : Nat → Int → Nat → Int × Bool
  | 0, p, _ => (p, true)
  | fuel + 1, p, i =>
    if (match f with | some k => decide (k ≤ i) | none => false) then (p, false)
    else if p < 0 || fixB p then (p, true)
    else dsScan t fixB f fuel ((parentOf t p).getD (-1)) (i + 1)

/-- Outer `while True` loop from one fix point: the `(node, new parent)` pairs it records. -/
def dsWalk (t : Table) (fixB : Int → Bool) (f : Option Nat) : Nat → Int → List (Int × Int)
  | 0, _ => []
  | fuel + 1, this =>
    match parentOf t this with
    | none => []
    | some p =>
      if p < 0 then [(this, -1)] else
      let r := dsScan t fixB f (t.length + 1) p 0
      if r.2 then [(this, r.1)] else (this, r.1) :: dsWalk t fixB f fuel r.1

/-- Downsample by `f` (≥ 1, `none` = inf), keeping non-slab nodes (by their *current* labels) and
`pres` (preserved nodes and somas). -/
def downsample (t : Table) (f : Option Nat) (pres : List Int) : Table :=
  if t.length ≤ 1 then t else
  let fixB := fun i => match find? t i with
    | some n => n.label != .slab || pres.contains i
    | none => false
  let fixes := (ids t).filter fixB
  let pairs := fixes.flatMap fun e => dsWalk t fixB f (t.length + 1) e
  classify ((t.filter fun n => pairs.any fun e => e.1 == n.id).map fun n =>
    { n with parent := lookupD pairs.reverse n.id n.parent })

/-! ### stitch id remap (`manipulation.stitch_skeletons`) is modelled in `Model/Heal.lean`. -/

/-! ### Operation language for histories (C01) -/

inductive Op where
  | subset (keep : List Int)
  | reroot (r : Int)
  | cutDistal (c : Int)      -- `prune_proximal_to`: keep the distal part
  | cutProximal (c : Int)    -- `prune_distal_to`: keep the proximal part
  | removeNodes (which : List Int)
  | downsample (f : Option Nat) (pres : List Int)
  | reclassify
deriving Repr

def applyOp (t : Table) : Op → Table
  | .subset k => subsetIds t k
  | .reroot r => reroot t r
  | .cutDistal c => match cut t c with | some (d, _) => d | none => t
  | .cutProximal c => match cut t c with | some (_, p) => p | none => t
  | .removeNodes w => removeNodes t w
  | .downsample f p => downsample t f p
  | .reclassify => classify t

end Navis.Forest
